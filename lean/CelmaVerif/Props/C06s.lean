import CelmaVerif.Lemmas.SubGroupsValueList
/-
  C06 at the level of the argument handler: WHICH destination a free value (a bare word) is given to.
  A multi-value destination ends up as the fold of exactly the values given to IT; the values are
  "split arbitrarily over repeated uses and free values", and the handler decides through
  `Handler::mpLastArg` (model: `HState.lastArg`) whose free values the following words are:

  * every identified key makes its argument the last argument (`mpLastArg = p_arg_hdl = findArg( key)`),
    an unknown key resets it: a value list ends at the next key element;
  * a SUB-GROUP argument ends the value list as well: the sub-group branch of `Handler::processArg`
    finishes with `mpLastArg = nullptr` (model: `main := { t.main with lastArg := none }` in
    `processArgT`).  Without that statement the words the sub handler hands back (`-v 1 2 -g -x 5 7 8`:
    `7 8`) are appended to the multi-value argument used BEFORE the sub-group argument;
  * a value element is given to the last argument iff that one takes multiple values
    (`assignValue`), otherwise to the positional argument (`findArg( mPosKey)`), otherwise it is
    refused (`unknown` ⇒ `iterateArguments` throws std::invalid_argument).

  Helper lemmas and the concrete tree `vlCfg`: Lemmas/SubGroupsValueList.lean.
-/
namespace CelmaVerif.Props.C06s
open CelmaVerif CelmaVerif.Keys CelmaVerif.ProgArgs

/-- **A sub-group argument ends the value list of the main handler.**  For every handler tree, every
    state (whatever its last argument is), every key that the two-container lookup resolves to a
    sub-group argument and every cursor: if `processArg` returns at all, the main handler has NO
    last argument afterwards (`mpLastArg == nullptr`) and the answer is `consumed`.  (Dropping
    `mpLastArg = nullptr` from the sub-group branch leaves `t.main.lastArg` in place — the branch
    never writes it otherwise — and refutes this for every state with a last argument.) -/
theorem C06_subgroup_ends_value_list (cfg : TCfg) (t t' : TState) (key : Key) (ai ai' : It) (r : ArgResult)
    (j : Nat) (d : SubDef)
    (hs : findSub cfg.main.abbr cfg.subTable cfg.main.table key = .ok (some (j, d)))
    (hp : processArgT cfg t key ai = .ok (t', ai', r)) :
    t'.main.lastArg = none ∧ r = .consumed :=
  processArgT_sub_lastArg cfg t t' key ai ai' r j d hs hp

/-- **A free value met without a last argument takes the positional route.**  For every tree, every
    state whose main handler has no last argument (in particular the state a sub-group argument
    leaves, `C06_subgroup_ends_value_list`) and every cursor on a value element,
    `evalSingleArgument` is exactly the positional branch of the main handler: look up the positional
    key; none ⇒ `unknown` with the state untouched; argument `i` ⇒ `handleIdentifiedArg` on `i` with
    the word.  No `assignValue` on a multi-value argument used earlier occurs. -/
theorem C06_free_value_after_subgroup (cfg : TCfg) (t' : TState) (av : It)
    (hl : t'.main.lastArg = none) (hv : av.cur.ty = .value) :
    evalSingleArgumentT cfg t' av =
      liftMain t'
        (do let found ← findArg cfg.main.abbr cfg.main.table Key.pos
            match found with
            | none => pure (t'.main, av, .unknown)
            | some (i, d) => do
              let h' ← handleIdentifiedArg cfg.main t'.main i d av.cur.val
              pure (h', av, .consumed)) := by
  unfold evalSingleArgumentT
  rw [hv]
  dsimp only
  rw [evalSingleArgument_value_none cfg.main t'.main av hv hl]
  rfl

/-- **The word after a sub-group argument's words, no positional argument defined: refused.**  For
    every tree without positional argument: after `processArg` handled a sub-group argument, a
    following value element (the first word the sub handler did not take) is answered `unknown` with
    the whole state unchanged, and the element loop throws std::invalid_argument — whatever
    multi-value argument was in use before the sub-group argument. -/
theorem C06_value_after_subgroup_refused (cfg : TCfg) (t t' : TState) (key : Key) (ai ai' av : It)
    (r : ArgResult) (j : Nat) (d : SubDef) (fuel : Nat)
    (hs : findSub cfg.main.abbr cfg.subTable cfg.main.table key = .ok (some (j, d)))
    (hp : processArgT cfg t key ai = .ok (t', ai', r))
    (hv : av.cur.ty = .value) (hne : av.atEnd = false)
    (hpos : findArg cfg.main.abbr cfg.main.table Key.pos = .ok none) :
    evalSingleArgumentT cfg t' av = .ok (t', av, .unknown) ∧
    iterateLoopT cfg (fuel + 1) t' av = .throw .invalid_argument := by
  have hl := (C06_subgroup_ends_value_list cfg t t' key ai ai' r j d hs hp).1
  have he : evalSingleArgumentT cfg t' av = .ok (t', av, .unknown) := by
    rw [C06_free_value_after_subgroup cfg t' av hl hv, hpos]
    rfl
  refine ⟨he, ?_⟩
  unfold iterateLoopT
  rw [hne, he]
  rfl

/-- **The word after a sub-group argument's words, positional argument `i` defined: it goes there and
    nowhere else.**  After `processArg` handled a sub-group argument, a following value element is
    handed to the positional argument (`handleIdentifiedArg` on `i`; the same exception if that
    throws); on success the answer is `consumed`, the cursor is not moved, the main handler still has
    no last argument, the state of every OTHER argument of the main handler (the multi-value one used
    before the sub-group argument included) and all sub handler states are unchanged. -/
theorem C06_value_after_subgroup_positional (cfg : TCfg) (t t' : TState) (key : Key) (ai ai' av : It)
    (r : ArgResult) (j : Nat) (d : SubDef) (i : Nat) (p : ArgDef)
    (hs : findSub cfg.main.abbr cfg.subTable cfg.main.table key = .ok (some (j, d)))
    (hp : processArgT cfg t key ai = .ok (t', ai', r))
    (hv : av.cur.ty = .value)
    (hpos : findArg cfg.main.abbr cfg.main.table Key.pos = .ok (some (i, p))) :
    evalSingleArgumentT cfg t' av =
      liftMain t' (handleIdentifiedArg cfg.main t'.main i p av.cur.val >>= fun h' => pure (h', av, .consumed)) ∧
    ∀ t'' av' r', evalSingleArgumentT cfg t' av = .ok (t'', av', r') →
      r' = .consumed ∧ av' = av ∧ t''.main.lastArg = none ∧ t''.subs = t'.subs ∧ t''.subArgs = t'.subArgs ∧
      ∀ k, k ≠ i → t''.main.args[k]? = t'.main.args[k]? := by
  have hl := (C06_subgroup_ends_value_list cfg t t' key ai ai' r j d hs hp).1
  have he : evalSingleArgumentT cfg t' av =
      liftMain t' (handleIdentifiedArg cfg.main t'.main i p av.cur.val >>= fun h' => pure (h', av, .consumed)) := by
    rw [C06_free_value_after_subgroup cfg t' av hl hv, hpos]
    rfl
  refine ⟨he, ?_⟩
  intro t'' av' r' hok
  rw [he] at hok
  obtain ⟨h1, h2⟩ := liftMain_ok hok
  cases hh : handleIdentifiedArg cfg.main t'.main i p av.cur.val with
  | throw e => rw [hh] at h1; cases h1
  | oob w => rw [hh] at h1; cases h1
  | ok h' =>
    rw [hh] at h1
    simp only [Res.bind_ok, Res.pure_eq, Res.ok.injEq, Prod.mk.injEq] at h1
    obtain ⟨e1, e2, e3⟩ := h1
    refine ⟨e3.symm, e2.symm, ?_, ?_, ?_, ?_⟩
    · rw [← e1, (handleIdentifiedArg_frame hh).2.1]; exact hl
    · rw [h2]
    · rw [h2]
    · intro k hk
      rw [← e1]
      exact handleIdentifiedArg_args_other hh k hk

/-- **Every key element ends the running value list** (plain handler).  For every handler, state,
    key and cursor, if `processArg` returns:
    * the key designates argument `i` ⇒ `i` is the last argument afterwards and the answer is
      `consumed` — for EVERY value mode: also a flag (no value) and an optional-value argument used
      without value become the last argument, so a following free value goes to `i` if `i` takes
      multiple values and never to an argument used before it;
    * the key designates nothing ⇒ there is no last argument afterwards, nothing else changed, the
      cursor stays and the answer is `unknown`. -/
theorem C06_key_ends_value_list (cfg : Cfg) (h h' : HState) (key : Key) (ai ai' : It) (r : ArgResult)
    (hp : processArg cfg h key ai = .ok (h', ai', r)) :
    (∀ i d, findArg cfg.abbr cfg.table key = .ok (some (i, d)) → h'.lastArg = some i ∧ r = .consumed) ∧
    (findArg cfg.abbr cfg.table key = .ok none → h' = { h with lastArg := none } ∧ ai' = ai ∧ r = .unknown) := by
  refine ⟨fun i d hf => processArg_found_lastArg cfg h h' key ai ai' r i d hf hp, fun hf => ?_⟩
  rw [processArg_unknown cfg h key ai hf] at hp
  cases hp
  exact ⟨rfl, rfl, rfl⟩

/-- **The last argument of the main handler after ANY key element of a handler tree.**  If
    `processArg` of a handler with sub-group arguments returns, the main handler's last argument is
    determined by what the key designates: a sub-group argument ⇒ none; the plain argument `i` ⇒
    `i`; nothing ⇒ none (answer `unknown`).  (The lookups cannot throw here: `processArg` would
    have thrown.) -/
theorem C06_key_ends_value_list_tree (cfg : TCfg) (t t' : TState) (key : Key) (ai ai' : It) (r : ArgResult)
    (hp : processArgT cfg t key ai = .ok (t', ai', r)) :
    (∃ j d, findSub cfg.main.abbr cfg.subTable cfg.main.table key = .ok (some (j, d)) ∧
        t'.main.lastArg = none ∧ r = .consumed) ∨
    (findSub cfg.main.abbr cfg.subTable cfg.main.table key = .ok none ∧
      ((∃ i d, findArg cfg.main.abbr cfg.main.table key = .ok (some (i, d)) ∧
          t'.main.lastArg = some i ∧ r = .consumed) ∨
       (findArg cfg.main.abbr cfg.main.table key = .ok none ∧ t'.main.lastArg = none ∧ r = .unknown))) := by
  cases hs : findSub cfg.main.abbr cfg.subTable cfg.main.table key with
  | throw e => unfold processArgT at hp; rw [hs] at hp; cases hp
  | oob w => unfold processArgT at hp; rw [hs] at hp; cases hp
  | ok o =>
    cases o with
    | some x =>
      obtain ⟨j, d⟩ := x
      exact Or.inl ⟨j, d, rfl, C06_subgroup_ends_value_list cfg t t' key ai ai' r j d hs hp⟩
    | none =>
      refine Or.inr ⟨rfl, ?_⟩
      rw [processArgT_plain cfg t key ai hs] at hp
      obtain ⟨h1, _⟩ := liftMain_ok hp
      obtain ⟨hA, hB⟩ := C06_key_ends_value_list cfg.main t.main t'.main key ai ai' r h1
      cases hf : findArg cfg.main.abbr cfg.main.table key with
      | throw e => unfold processArg at h1; rw [hf] at h1; cases h1
      | oob w => unfold processArg at h1; rw [hf] at h1; cases h1
      | ok f =>
        cases f with
        | some x =>
          obtain ⟨i, d⟩ := x
          exact Or.inl ⟨i, d, rfl, hA i d hf⟩
        | none =>
          obtain ⟨e1, _, e3⟩ := hB hf
          exact Or.inr ⟨rfl, by rw [e1], e3⟩

/-- **A free value goes to the last argument iff that one takes multiple values** (plain handler).
    For every handler, state whose last argument is `i` (definition `d`) and cursor on a value
    element: `d.multi = true` ⇒ the element is `assignValue` on `i` with the word (no key is
    "identified": constraints are not run again), answer `consumed`, cursor unchanged, and `i` is
    still the last argument afterwards (the list goes on); `d.multi = false` ⇒ it is the positional
    route, exactly as with no last argument. -/
theorem C06_free_value_goes_to_last_multi (cfg : Cfg) (h : HState) (av : It) (i : Nat) (d : ArgDef)
    (hv : av.cur.ty = .value) (hl : h.lastArg = some i) (hd : cfg.args[i]? = some d) :
    (d.multi = true →
      evalSingleArgument cfg h av = (assignValue h i d av.cur.val >>= fun h' => pure (h', av, .consumed)) ∧
      ∀ h' av' r, evalSingleArgument cfg h av = .ok (h', av', r) →
        h'.lastArg = some i ∧ av' = av ∧ r = .consumed ∧ ∀ k, k ≠ i → h'.args[k]? = h.args[k]?) ∧
    (d.multi = false →
      evalSingleArgument cfg h av =
        (do let found ← findArg cfg.abbr cfg.table Key.pos
            match found with
            | none => pure (h, av, .unknown)
            | some (i, d) => do
              let h' ← handleIdentifiedArg cfg h i d av.cur.val
              pure (h', av, .consumed))) := by
  refine ⟨fun hm => ?_, fun hm => evalSingleArgument_value_single cfg h av hv i d hl hd hm⟩
  have he := evalSingleArgument_value_multi cfg h av (Or.inl hv) i d hl hd hm
  refine ⟨he, ?_⟩
  intro h' av' r hok
  rw [he] at hok
  cases ha : assignValue h i d av.cur.val with
  | throw e => rw [ha] at hok; cases hok
  | oob w => rw [ha] at hok; cases hok
  | ok h1 =>
    rw [ha] at hok
    simp only [Res.bind_ok, Res.pure_eq] at hok
    cases hok
    exact ⟨by rw [(assignValue_frame ha).2.1, hl], rfl, rfl, fun k hk => assignValue_args_other ha k hk⟩

/-- the same on a handler tree: a value element met while the main handler's last argument `i` takes
    multiple values is `assignValue` on `i` of the main handler (this is the state in which the words
    after a sub-group argument would be met if `mpLastArg` were not reset) -/
theorem C06_free_value_goes_to_last_multi_tree (cfg : TCfg) (t : TState) (av : It) (i : Nat) (d : ArgDef)
    (hv : av.cur.ty = .value) (hl : t.main.lastArg = some i) (hd : cfg.main.args[i]? = some d)
    (hm : d.multi = true) :
    evalSingleArgumentT cfg t av =
      liftMain t (assignValue t.main i d av.cur.val >>= fun h' => pure (h', av, .consumed)) := by
  unfold evalSingleArgumentT
  rw [hv]
  dsimp only
  rw [evalSingleArgument_value_multi cfg.main t.main av (Or.inl hv) i d hl hd hm]

/-! ### non-vacuity: the tree `vlCfg` — main `-v` (multi-value list), `-f` (flag), optionally a
    positional list; sub-group `-g` with `-x` (int) and `-q` (flag).  View: main destinations
    `[v, f, positional]`, sub-group argument used, sub destinations `[x, q]`. -/

-- the seeded defect's input: `7 8` are handed back by the sub handler and go to the positional
-- argument, not to the stale `-v`
example : sgView (vlEval true ["-v", "1", "2", "-g", "-x", "5", "7", "8"]) =
    some ([.vec [1, 2], .flag false, .vec [7, 8]], [true], [[.int 5, .flag false]]) := by decide +kernel
-- a flag of the sub handler, then a free value
example : sgView (vlEval true ["-v", "1", "2", "-g", "-q", "7"]) =
    some ([.vec [1, 2], .flag false, .vec [7]], [true], [[.int 0, .flag true]]) := by decide +kernel
-- the sub-group argument alone ends the list
example : sgView (vlEval true ["-v", "1", "2", "-g", "7"]) =
    some ([.vec [1, 2], .flag false, .vec [7]], [true], [[.int 0, .flag false]]) := by decide +kernel
-- the same tree without positional argument: the word after the sub-group is refused
example : isInvalidArgument (vlEval false ["-v", "1", "2", "-g", "-x", "5", "7", "8"]) = true := by decide +kernel
-- contrast: without a key in between the free value continues the list
example : sgView (vlEval true ["-v", "1", "2", "7"]) =
    some ([.vec [1, 2, 7], .flag false, .vec []], [false], [[.int 0, .flag false]]) := by decide +kernel
-- the list can be taken up again by a repeated use after the sub-group argument
example : sgView (vlEval true ["-v", "1", "2", "-g", "-x", "5", "-v", "3", "4"]) =
    some ([.vec [1, 2, 3, 4], .flag false, .vec []], [true], [[.int 5, .flag false]]) := by decide +kernel

-- plain handler: a flag ends the list, `7` goes to the positional argument / is refused
example : vlPlainView (vlPlainEval true ["-v", "1", "2", "-f", "7"]) =
    some [.vec [1, 2], .flag true, .vec [7]] := by decide +kernel
example : isInvalidArgument (vlPlainEval false ["-v", "1", "2", "-f", "7"]) = true := by decide +kernel
example : vlPlainView (vlPlainEval false ["-v", "1", "2", "7"]) = some [.vec [1, 2, 7], .flag false] := by
  decide +kernel

-- one `processArg` on `-g` from a state whose last argument is the multi-value `-v`: the last argument
-- is gone afterwards (the model without the reset answers `some 0` here)
example : vlStepViewT (It.begin (sgArgv ["-g", "-x", "5", "7"]) >>= fun ai =>
      processArgT (vlCfg true) (vlStale true) ⟨some 'g', []⟩ ai) =
    some ([.vec [], .flag false, .vec []], none, [[.int 5, .flag false]], .consumed) := by decide +kernel
-- … as `C06_subgroup_ends_value_list` says for every cursor (its lookup hypothesis holds for `-g`)
example (ai ai' : It) (t' : TState) (r : ArgResult)
    (hp : processArgT (vlCfg true) (vlStale true) ⟨some 'g', []⟩ ai = .ok (t', ai', r)) :
    t'.main.lastArg = none :=
  (C06_subgroup_ends_value_list (vlCfg true) (vlStale true) t' ⟨some 'g', []⟩ ai ai' r 0 _ rfl hp).1
-- the flag `-f` (argument 1) becomes the last argument although it takes no value
example : vlStepView (It.begin (sgArgv ["-f", "7"]) >>= fun ai =>
      processArg (vlMain true) (vlStale true).main ⟨some 'f', []⟩ ai) =
    some ([.vec [], .flag true, .vec []], some 1, .consumed) := by decide +kernel
example (ai ai' : It) (h' : HState) (r : ArgResult)
    (hp : processArg (vlMain true) (vlStale true).main ⟨some 'f', []⟩ ai = .ok (h', ai', r)) :
    h'.lastArg = some 1 :=
  ((C06_key_ends_value_list (vlMain true) (vlStale true).main h' ⟨some 'f', []⟩ ai ai' r hp).1 1 _ rfl).1
-- an unknown key resets the last argument
example : vlStepView (It.begin (sgArgv ["-z"]) >>= fun ai =>
      processArg (vlMain true) (vlStale true).main ⟨some 'z', []⟩ ai) =
    some ([.vec [], .flag false, .vec []], none, .unknown) := by decide +kernel
-- a value element: with `-v` as last argument it is appended to `-v` (and `-v` stays the last
-- argument); with no last argument it goes to the positional argument (index 2)
example : vlStepView (It.begin (sgArgv ["7"]) >>= fun ai =>
      evalSingleArgument (vlMain true) (vlStale true).main ai) =
    some ([.vec [7], .flag false, .vec []], some 0, .consumed) := by decide +kernel
example : vlStepView (It.begin (sgArgv ["7"]) >>= fun ai =>
      evalSingleArgument (vlMain true) ((vlMain true).initState vlInits.main) ai) =
    some ([.vec [], .flag false, .vec [7]], none, .consumed) := by decide +kernel
example : ∃ d, findArg (vlMain true).abbr (vlMain true).table Key.pos = .ok (some (2, d)) := ⟨_, rfl⟩
example : findArg (vlMain false).abbr (vlMain false).table Key.pos = .ok none := rfl

end CelmaVerif.Props.C06s
