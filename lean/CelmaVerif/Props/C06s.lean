import CelmaVerif.Lemmas.SubGroupsValueList
import CelmaVerif.Lemmas.SubGroupsFrame
/-
  C06 at the level of the argument handler: WHICH destination a free value (a bare word) is given to.
  A multi-value destination ends up as the fold of exactly the values given to IT; the values are
  "split arbitrarily over repeated uses and free values", and the handler decides through
  `Handler::mpLastArg` (model: `HState.lastArg`) whose free values the following words are:

  * every identified key makes its argument the last argument (`mpLastArg = p_arg_hdl = findArg( key)`),
    an unknown key resets it: a value list ends at the next key element;
  * a SUB-GROUP argument ends the value list as well: the sub-group branch of `Handler::processArg`
    finishes with `mpLastArg = nullptr` (model: `main := { t.main with lastArg := none }` in
    `processArgT`).  Without that statement the words the sub handler hands back (`-v 1 2 -g -x 5 7 8`:
    `7 8`) are appended to the multi-value argument used BEFORE the sub-group argument;
  * a value element is given to the last argument iff that one takes multiple values
    (`assignValue`), otherwise to the positional argument (`findArg( mPosKey)`), otherwise it is
    refused (`unknown` ⇒ `iterateArguments` throws std::invalid_argument).

  Helper lemmas and the concrete tree `vlCfg`: Lemmas/SubGroupsValueList.lean; frame of the sub-group
  branch, `SubTakes`, `ValueRun`, `FreeWords`: Lemmas/SubGroupsFrame.lean.

  What is a THEOREM about destinations and what is a LEMMA (audit3, weakness 4):
  * theorems: `C06_subgroup_branch_frame`, `C06_loop_across_subgroup`,
    `C06_values_subgroup_free_words`, `C06_values_subgroup_free_word_refused` (the element loop
    from the values of `-v` over `-g …` to the free words), `C06_value_after_subgroup_refused`,
    `C06_value_after_subgroup_positional` (frame of one value element), the `multi = true` half of
    `C06_free_value_goes_to_last_multi`;
  * lemmas about `lastArg` only (they say nothing about a destination; the end-to-end theorems use
    them): `C06_subgroup_ends_value_list`, `C06_key_ends_value_list`, `C06_key_ends_value_list_tree`;
  * definitional unfoldings of the model's `evalSingleArgument(T)`: `C06_free_value_after_subgroup`,
    `C06_free_value_goes_to_last_multi_tree`, the `multi = false` half of
    `C06_free_value_goes_to_last_multi`.
  "iff" (a value element goes to the last argument iff that one is multi-value) is proved on the
  PLAIN handler (`C06_free_value_goes_to_last_multi`, both halves); on trees only the multi-value case
  (`…_tree`) and the no-last-argument case (`C06_free_value_after_subgroup`).
  Outside: the callable argument of `Handler::addArgumentEndValues` (`Handler::endValueList()`,
  handler.cpp:1114, which also resets `mpLastArg`) is not modelled.  For a PLAIN handler the
  end-to-end statement from the words is `C02_parse_faithful` + `C01_accepted_destinations`.
-/
namespace CelmaVerif.Props.C06s
open CelmaVerif CelmaVerif.Keys CelmaVerif.ProgArgs

/-- LEMMA (`lastArg` only; no destination is mentioned — the frame is `C06_subgroup_branch_frame`).
    **A sub-group argument ends the value list of the main handler.**  For every handler tree, every
    state (whatever its last argument is), every key that the two-container lookup resolves to a
    sub-group argument and every cursor: if `processArg` returns at all, the main handler has NO
    last argument afterwards (`mpLastArg == nullptr`) and the answer is `consumed`.  (Dropping
    `mpLastArg = nullptr` from the sub-group branch leaves `t.main.lastArg` in place — the branch
    never writes it otherwise — and refutes this for every state with a last argument.) -/
theorem C06_subgroup_ends_value_list (cfg : TCfg) (t t' : TState) (key : Key) (ai ai' : It) (r : ArgResult)
    (j : Nat) (d : SubDef)
    (hs : findSub cfg.main.abbr cfg.subTable cfg.main.table key = .ok (some (j, d)))
    (hp : processArgT cfg t key ai = .ok (t', ai', r)) :
    t'.main.lastArg = none ∧ r = .consumed :=
  processArgT_sub_lastArg cfg t t' key ai ai' r j d hs hp

/-- LEMMA (definitional unfolding of `evalSingleArgumentT`; the content "no `assignValue` on an
    earlier argument" is the frame clause of `C06_value_after_subgroup_positional` and
    `C06_values_subgroup_free_words`).
    **A free value met without a last argument takes the positional route.**  For every tree, every
    state whose main handler has no last argument (in particular the state a sub-group argument
    leaves, `C06_subgroup_ends_value_list`) and every cursor on a value element,
    `evalSingleArgument` is exactly the positional branch of the main handler: look up the positional
    key; none ⇒ `unknown` with the state untouched; argument `i` ⇒ `handleIdentifiedArg` on `i` with
    the word.  No `assignValue` on a multi-value argument used earlier occurs. -/
theorem C06_free_value_after_subgroup (cfg : TCfg) (t' : TState) (av : It)
    (hl : t'.main.lastArg = none) (hv : av.cur.ty = .value) :
    evalSingleArgumentT cfg t' av =
      liftMain t'
        (do let found ← findArg cfg.main.abbr cfg.main.table Key.pos
            match found with
            | none => pure (t'.main, av, .unknown)
            | some (i, d) => do
              let h' ← handleIdentifiedArg cfg.main t'.main i d av.cur.val
              pure (h', av, .consumed)) := by
  unfold evalSingleArgumentT
  rw [hv]
  dsimp only
  rw [evalSingleArgument_value_none cfg.main t'.main av hv hl]
  rfl

/-- **The word after a sub-group argument's words, no positional argument defined: refused.**  For
    every tree without positional argument: after `processArg` handled a sub-group argument, a
    following value element (the first word the sub handler did not take) is answered `unknown` with
    the whole state unchanged, and the element loop throws std::invalid_argument — whatever
    multi-value argument was in use before the sub-group argument. -/
theorem C06_value_after_subgroup_refused (cfg : TCfg) (t t' : TState) (key : Key) (ai ai' av : It)
    (r : ArgResult) (j : Nat) (d : SubDef) (fuel : Nat)
    (hs : findSub cfg.main.abbr cfg.subTable cfg.main.table key = .ok (some (j, d)))
    (hp : processArgT cfg t key ai = .ok (t', ai', r))
    (hv : av.cur.ty = .value) (hne : av.atEnd = false)
    (hpos : findArg cfg.main.abbr cfg.main.table Key.pos = .ok none) :
    evalSingleArgumentT cfg t' av = .ok (t', av, .unknown) ∧
    iterateLoopT cfg (fuel + 1) t' av = .throw .invalid_argument := by
  have hl := (C06_subgroup_ends_value_list cfg t t' key ai ai' r j d hs hp).1
  have he : evalSingleArgumentT cfg t' av = .ok (t', av, .unknown) := by
    rw [C06_free_value_after_subgroup cfg t' av hl hv, hpos]
    rfl
  refine ⟨he, ?_⟩
  unfold iterateLoopT
  rw [hne, he]
  rfl

/-- **The word after a sub-group argument's words, positional argument `i` defined: it goes there and
    nowhere else.**  After `processArg` handled a sub-group argument, a following value element is
    handed to the positional argument (`handleIdentifiedArg` on `i`; the same exception if that
    throws); on success the answer is `consumed`, the cursor is not moved, the main handler still has
    no last argument, the state of every OTHER argument of the main handler (the multi-value one used
    before the sub-group argument included) and all sub handler states are unchanged. -/
theorem C06_value_after_subgroup_positional (cfg : TCfg) (t t' : TState) (key : Key) (ai ai' av : It)
    (r : ArgResult) (j : Nat) (d : SubDef) (i : Nat) (p : ArgDef)
    (hs : findSub cfg.main.abbr cfg.subTable cfg.main.table key = .ok (some (j, d)))
    (hp : processArgT cfg t key ai = .ok (t', ai', r))
    (hv : av.cur.ty = .value)
    (hpos : findArg cfg.main.abbr cfg.main.table Key.pos = .ok (some (i, p))) :
    evalSingleArgumentT cfg t' av =
      liftMain t' (handleIdentifiedArg cfg.main t'.main i p av.cur.val >>= fun h' => pure (h', av, .consumed)) ∧
    ∀ t'' av' r', evalSingleArgumentT cfg t' av = .ok (t'', av', r') →
      r' = .consumed ∧ av' = av ∧ t''.main.lastArg = none ∧ t''.subs = t'.subs ∧ t''.subArgs = t'.subArgs ∧
      ∀ k, k ≠ i → t''.main.args[k]? = t'.main.args[k]? := by
  have hl := (C06_subgroup_ends_value_list cfg t t' key ai ai' r j d hs hp).1
  have he : evalSingleArgumentT cfg t' av =
      liftMain t' (handleIdentifiedArg cfg.main t'.main i p av.cur.val >>= fun h' => pure (h', av, .consumed)) := by
    rw [C06_free_value_after_subgroup cfg t' av hl hv, hpos]
    rfl
  refine ⟨he, ?_⟩
  intro t'' av' r' hok
  rw [he] at hok
  obtain ⟨h1, h2⟩ := liftMain_ok_eq hok
  cases hh : handleIdentifiedArg cfg.main t'.main i p av.cur.val with
  | throw e => rw [hh] at h1; cases h1
  | oob w => rw [hh] at h1; cases h1
  | ok h' =>
    rw [hh] at h1
    simp only [Res.bind_ok, Res.pure_eq, Res.ok.injEq, Prod.mk.injEq] at h1
    obtain ⟨e1, e2, e3⟩ := h1
    refine ⟨e3.symm, e2.symm, ?_, ?_, ?_, ?_⟩
    · rw [← e1, (handleIdentifiedArg_frame hh).2.1]; exact hl
    · rw [h2]
    · rw [h2]
    · intro k hk
      rw [← e1]
      exact handleIdentifiedArg_args_other hh k hk

/-- LEMMA (`lastArg` and the answer only; a model that restores the old last argument after
    `processArg` in the key branch of `evalSingleArgument` is excluded by the step theorems of C02,
    not by this one).
    **Every key element ends the running value list** (plain handler).  For every handler, state,
    key and cursor, if `processArg` returns:
    * the key designates argument `i` ⇒ `i` is the last argument afterwards and the answer is
      `consumed` — for EVERY value mode: also a flag (no value) and an optional-value argument used
      without value become the last argument, so a following free value goes to `i` if `i` takes
      multiple values and never to an argument used before it;
    * the key designates nothing ⇒ there is no last argument afterwards, nothing else changed, the
      cursor stays and the answer is `unknown`. -/
theorem C06_key_ends_value_list (cfg : Cfg) (h h' : HState) (key : Key) (ai ai' : It) (r : ArgResult)
    (hp : processArg cfg h key ai = .ok (h', ai', r)) :
    (∀ i d, findArg cfg.abbr cfg.table key = .ok (some (i, d)) → h'.lastArg = some i ∧ r = .consumed) ∧
    (findArg cfg.abbr cfg.table key = .ok none → h' = { h with lastArg := none } ∧ ai' = ai ∧ r = .unknown) := by
  refine ⟨fun i d hf => processArg_found_lastArg cfg h h' key ai ai' r i d hf hp, fun hf => ?_⟩
  rw [processArg_unknown cfg h key ai hf] at hp
  cases hp
  exact ⟨rfl, rfl, rfl⟩

/-- LEMMA (`lastArg` and the answer only).
    **The last argument of the main handler after ANY key element of a handler tree.**  If
    `processArg` of a handler with sub-group arguments returns, the main handler's last argument is
    determined by what the key designates: a sub-group argument ⇒ none; the plain argument `i` ⇒
    `i`; nothing ⇒ none (answer `unknown`).  (The lookups cannot throw here: `processArg` would
    have thrown.) -/
theorem C06_key_ends_value_list_tree (cfg : TCfg) (t t' : TState) (key : Key) (ai ai' : It) (r : ArgResult)
    (hp : processArgT cfg t key ai = .ok (t', ai', r)) :
    (∃ j d, findSub cfg.main.abbr cfg.subTable cfg.main.table key = .ok (some (j, d)) ∧
        t'.main.lastArg = none ∧ r = .consumed) ∨
    (findSub cfg.main.abbr cfg.subTable cfg.main.table key = .ok none ∧
      ((∃ i d, findArg cfg.main.abbr cfg.main.table key = .ok (some (i, d)) ∧
          t'.main.lastArg = some i ∧ r = .consumed) ∨
       (findArg cfg.main.abbr cfg.main.table key = .ok none ∧ t'.main.lastArg = none ∧ r = .unknown))) := by
  cases hs : findSub cfg.main.abbr cfg.subTable cfg.main.table key with
  | throw e => unfold processArgT at hp; rw [hs] at hp; cases hp
  | oob w => unfold processArgT at hp; rw [hs] at hp; cases hp
  | ok o =>
    cases o with
    | some x =>
      obtain ⟨j, d⟩ := x
      exact Or.inl ⟨j, d, rfl, C06_subgroup_ends_value_list cfg t t' key ai ai' r j d hs hp⟩
    | none =>
      refine Or.inr ⟨rfl, ?_⟩
      rw [processArgT_plain cfg t key ai hs] at hp
      obtain ⟨h1, _⟩ := liftMain_ok_eq hp
      obtain ⟨hA, hB⟩ := C06_key_ends_value_list cfg.main t.main t'.main key ai ai' r h1
      cases hf : findArg cfg.main.abbr cfg.main.table key with
      | throw e => unfold processArg at h1; rw [hf] at h1; cases h1
      | oob w => unfold processArg at h1; rw [hf] at h1; cases h1
      | ok f =>
        cases f with
        | some x =>
          obtain ⟨i, d⟩ := x
          exact Or.inl ⟨i, d, rfl, hA i d hf⟩
        | none =>
          obtain ⟨e1, _, e3⟩ := hB hf
          exact Or.inr ⟨rfl, by rw [e1], e3⟩

/-- **A free value goes to the last argument iff that one takes multiple values** (plain handler).
    For every handler, state whose last argument is `i` (definition `d`) and cursor on a value
    element: `d.multi = true` ⇒ the element is `assignValue` on `i` with the word (no key is
    "identified": constraints are not run again), answer `consumed`, cursor unchanged, and `i` is
    still the last argument afterwards (the list goes on); `d.multi = false` ⇒ it is the positional
    route, exactly as with no last argument (this half is a definitional unfolding of
    `evalSingleArgument`).  Both directions of the "iff" are proved here, on the plain handler only. -/
theorem C06_free_value_goes_to_last_multi (cfg : Cfg) (h : HState) (av : It) (i : Nat) (d : ArgDef)
    (hv : av.cur.ty = .value) (hl : h.lastArg = some i) (hd : cfg.args[i]? = some d) :
    (d.multi = true →
      evalSingleArgument cfg h av = (assignValue h i d av.cur.val >>= fun h' => pure (h', av, .consumed)) ∧
      ∀ h' av' r, evalSingleArgument cfg h av = .ok (h', av', r) →
        h'.lastArg = some i ∧ av' = av ∧ r = .consumed ∧ ∀ k, k ≠ i → h'.args[k]? = h.args[k]?) ∧
    (d.multi = false →
      evalSingleArgument cfg h av =
        (do let found ← findArg cfg.abbr cfg.table Key.pos
            match found with
            | none => pure (h, av, .unknown)
            | some (i, d) => do
              let h' ← handleIdentifiedArg cfg h i d av.cur.val
              pure (h', av, .consumed))) := by
  refine ⟨fun hm => ?_, fun hm => evalSingleArgument_value_single cfg h av hv i d hl hd hm⟩
  have he := evalSingleArgument_value_multi cfg h av (Or.inl hv) i d hl hd hm
  refine ⟨he, ?_⟩
  intro h' av' r hok
  rw [he] at hok
  cases ha : assignValue h i d av.cur.val with
  | throw e => rw [ha] at hok; cases hok
  | oob w => rw [ha] at hok; cases hok
  | ok h1 =>
    rw [ha] at hok
    simp only [Res.bind_ok, Res.pure_eq] at hok
    cases hok
    exact ⟨by rw [(assignValue_frame ha).2.1, hl], rfl, rfl, fun k hk => assignValue_args_other ha k hk⟩

/-- LEMMA (definitional unfolding; on trees ONLY the multi-value direction — the other direction on a
    tree is proved for `lastArg = none` only, `C06_free_value_after_subgroup`).
    The same on a handler tree: a value element met while the main handler's last argument `i` takes
    multiple values is `assignValue` on `i` of the main handler (this is the state in which the words
    after a sub-group argument would be met if `mpLastArg` were not reset) -/
theorem C06_free_value_goes_to_last_multi_tree (cfg : TCfg) (t : TState) (av : It) (i : Nat) (d : ArgDef)
    (hv : av.cur.ty = .value) (hl : t.main.lastArg = some i) (hd : cfg.main.args[i]? = some d)
    (hm : d.multi = true) :
    evalSingleArgumentT cfg t av =
      liftMain t (assignValue t.main i d av.cur.val >>= fun h' => pure (h', av, .consumed)) := by
  unfold evalSingleArgumentT
  rw [hv]
  dsimp only
  rw [evalSingleArgument_value_multi cfg.main t.main av (Or.inl hv) i d hl hd hm]

/-! ### the frame of the sub-group branch and the loop across it (audit3, weakness 4)

    The theorems above speak about the state AFTER the sub-group branch only.  The three below close
    the gap: what the branch leaves alone, which cursor it hands back, and the element loop from the
    values of a multi-value argument over the sub-group argument to the free words behind it.  A
    model whose sub-group branch gives the handed-back words to the earlier multi-value argument,
    steps over them and then clears the last argument satisfies every theorem above and violates
    `C06_subgroup_branch_frame` (the main handler's `args` differ) and
    `C06_values_subgroup_free_words` (the vector is not the fold of the values before `-g`). -/

/-- **FRAME of the sub-group branch of `processArg`.**  For every tree, every state (whatever the
    last argument is), every key the two-container lookup resolves to the sub-group argument `(j, d)`
    and every cursor: if `processArg` returns, then
    * `t'.main.args = t.main.args`: every destination and every cardinality counter of the MAIN
      handler is what it was before the call (nothing is appended to the multi-value argument used
      before; the sub-group argument's own counter lives in `subArgs`);
    * the main handler has no last argument, the answer is `consumed`, the use log and the read mode
      are unchanged;
    * of the sub handlers only number `j` is written, with the state in which a `SubTakes` run of
      `d.sub` over the elements after the key ends;
    * the cursor handed back, `ai'`, is the one whose successor `stop` is the FIRST element the sub
      handler did not consume: either the end, or an element to which the sub handler (in some state
      `sh0`, ending in `sh`) answered something else than `consumed`.  The caller's `++ai` therefore
      meets exactly that element. -/
theorem C06_subgroup_branch_frame (cfg : TCfg) (t t' : TState) (key : Key) (ai ai' : It) (r : ArgResult)
    (j : Nat) (d : SubDef)
    (hs : findSub cfg.main.abbr cfg.subTable cfg.main.table key = .ok (some (j, d)))
    (hp : processArgT cfg t key ai = .ok (t', ai', r)) :
    t'.main.args = t.main.args ∧ t'.main.lastArg = none ∧ r = .consumed ∧
    t'.main.uses = t.main.uses ∧ t'.main.fromSrc = t.main.fromSrc ∧
    ∃ s sh stop, ai.step = .ok s ∧ SubTakes d.sub (t.subs.getD j default) ai s sh ai' stop ∧
      ai'.step = .ok stop ∧ t'.subs = t.subs.set j sh ∧
      (stop.atEnd = true ∨ (stop.atEnd = false ∧
        ∃ sh0 sa r', evalSingleArgument d.sub sh0 stop = .ok (sh, sa, r') ∧ r' ≠ .consumed)) := by
  obtain ⟨a, b, c, e, f, s, sh, stop, g1, g2, g3, g4⟩ := processArgT_sub_frame cfg t t' key ai ai' r j d hs hp
  exact ⟨a, b, c, e, f, s, sh, stop, g1, g2, g3, g4, g2.stop_not_consumed⟩

/-- **The element loop across a sub-group argument.**  If the loop, standing on a key element that
    designates the sub-group argument `(j, d)`, returns `tf`, then the sub-group branch returned some
    `(t', ai')` with the frame of `C06_subgroup_branch_frame`, and `tf` is what the loop returns
    from `t'` on the element `stop` — the first element the sub handler did not consume.  (This is
    the statement "the loop meets the next word in the state the branch left".) -/
theorem C06_loop_across_subgroup (cfg : TCfg) (t tf : TState) (key : Key) (ai : It) (fuel : Nat)
    (j : Nat) (d : SubDef) (hne : ai.atEnd = false) (hk : IsKeyElem ai key)
    (hs : findSub cfg.main.abbr cfg.subTable cfg.main.table key = .ok (some (j, d)))
    (hrun : iterateLoopT cfg (fuel + 1) t ai = .ok tf) :
    ∃ t' ai' s sh stop, processArgT cfg t key ai = .ok (t', ai', .consumed) ∧
      t'.main.args = t.main.args ∧ t'.main.lastArg = none ∧
      ai.step = .ok s ∧ SubTakes d.sub (t.subs.getD j default) ai s sh ai' stop ∧ ai'.step = .ok stop ∧
      t'.subs = t.subs.set j sh ∧ iterateLoopT cfg fuel t' stop = .ok tf := by
  have hev := evalSingleArgumentT_key cfg t ai key hk
  cases hp : processArgT cfg t key ai with
  | throw e => unfold iterateLoopT at hrun; rw [hne, hev, hp] at hrun; cases hrun
  | oob w => unfold iterateLoopT at hrun; rw [hne, hev, hp] at hrun; cases hrun
  | ok x =>
    obtain ⟨t', ai', r⟩ := x
    obtain ⟨a, b, c, _, _, s, sh, stop, g1, g2, g3, g4⟩ := processArgT_sub_frame cfg t t' key ai ai' r j d hs hp
    subst c
    rw [iterateLoopT_consumed cfg fuel t t' ai ai' stop hne (hev.trans hp) g3] at hrun
    exact ⟨t', ai', s, sh, stop, rfl, a, b, g1, g2, g3, g4, hrun⟩

/-- **END TO END over the loop: values of a multi-value argument, a sub-group argument, free words**
    (`-v 1 2 -g -x 5 7 8`).  Any tree with a positional argument `p`; the main handler's last
    argument `i` takes multiple values (the state the key `-v` leaves); from the cursor `av` the
    value elements `vs` follow (`ValueRun`), then the key element `ag` that designates the sub-group
    argument `(j, d)`.  If the element loop returns `tf`, then
    * the values `vs` were given to `i` (`multiFold`, state `h1`);
    * the sub handler consumed the elements of a `SubTakes` run and handed back the cursor before
      `stop` (`C06_subgroup_branch_frame`);
    * and for every list `ws` of free words that make up the rest of the argument list from `stop`
      on: `tf.main` is the fold of `ws` into the POSITIONAL argument, started from a state `h2` with
      exactly the argument states of `h1` and no last argument; hence every argument `k ≠ p` of the
      main handler — the vector `i` in particular — holds in `tf` exactly what it held after the
      values given BEFORE the sub-group argument, and only sub handler `j` changed. -/
theorem C06_values_subgroup_free_words (cfg : TCfg) (i : Nat) (dv : ArgDef) (p : Nat) (pd : ArgDef)
    (key : Key) (j : Nat) (d : SubDef) (t tf : TState) (av ag : It) (vs : List Word) (fuel : Nat)
    (hd : cfg.main.args[i]? = some dv) (hm : dv.multi = true) (hl : t.main.lastArg = some i)
    (hvs : ValueRun av vs ag) (hne : ag.atEnd = false) (hk : IsKeyElem ag key)
    (hs : findSub cfg.main.abbr cfg.subTable cfg.main.table key = .ok (some (j, d)))
    (hpos : findArg cfg.main.abbr cfg.main.table Key.pos = .ok (some (p, pd)))
    (hrun : iterateLoopT cfg (fuel + 1 + vs.length) t av = .ok tf) :
    ∃ h1 h2 s sh ag' stop,
      multiFold i dv vs t.main = .ok h1 ∧
      ag.step = .ok s ∧ SubTakes d.sub (t.subs.getD j default) ag s sh ag' stop ∧ ag'.step = .ok stop ∧
      h2.args = h1.args ∧ h2.lastArg = none ∧
      ∀ ws, FreeWords stop ws →
        positionalFold cfg.main p pd ws h2 = .ok tf.main ∧
        (∀ k, k ≠ p → tf.main.args[k]? = h1.args[k]?) ∧
        tf.main.lastArg = none ∧ tf.subs = t.subs.set j sh := by
  obtain ⟨h1, hf, hrun1⟩ := iterateLoopT_value_run cfg i dv hd hm vs (fuel + 1) t tf av ag hl hvs hrun
  obtain ⟨t', ag', s, sh, stop, _, a, b, g1, g2, g3, g4, hrun2⟩ :=
    C06_loop_across_subgroup cfg { t with main := h1 } tf key ag fuel j d hne hk hs hrun1
  refine ⟨h1, t'.main, s, sh, ag', stop, hf, g1, g2, g3, a, b, ?_⟩
  intro ws hws
  obtain ⟨c1, c2⟩ := iterateLoopT_free_words cfg p pd hpos fuel t' tf stop ws b hws hrun2
  obtain ⟨e1, e2⟩ := positionalFold_frame ws c1
  refine ⟨c1, fun k hk' => ?_, by rw [e1, b], ?_⟩
  · rw [e2 k hk']
    show t'.main.args[k]? = h1.args[k]?
    rw [a]
  · rw [c2]
    exact g4

/-- **… and without positional argument the first free word behind the sub-group argument's words is
    refused.**  Same shape; the multi-value argument accepts `vs` (state `h1`), the sub-group branch
    returns `(t', ag')`, the element after `ag'` is a value element and no positional argument is
    defined: the element loop throws std::invalid_argument (it does NOT append the word to `i`). -/
theorem C06_values_subgroup_free_word_refused (cfg : TCfg) (i : Nat) (dv : ArgDef)
    (key : Key) (j : Nat) (d : SubDef) (t t' : TState) (h1 : HState) (av ag ag' stop : It) (r : ArgResult)
    (vs : List Word) (fuel : Nat)
    (hd : cfg.main.args[i]? = some dv) (hm : dv.multi = true) (hl : t.main.lastArg = some i)
    (hvs : ValueRun av vs ag) (hne : ag.atEnd = false) (hk : IsKeyElem ag key)
    (hs : findSub cfg.main.abbr cfg.subTable cfg.main.table key = .ok (some (j, d)))
    (hpos : findArg cfg.main.abbr cfg.main.table Key.pos = .ok none)
    (hf : multiFold i dv vs t.main = .ok h1)
    (hp : processArgT cfg { t with main := h1 } key ag = .ok (t', ag', r))
    (hst : ag'.step = .ok stop) (hsne : stop.atEnd = false) (hsv : stop.cur.ty = .value) :
    iterateLoopT cfg (fuel + 2 + vs.length) t av = .throw .invalid_argument := by
  rw [iterateLoopT_value_run_eq cfg i dv hd hm vs (fuel + 2) t h1 av ag hl hvs hf]
  obtain ⟨_, b, c, _⟩ := processArgT_sub_frame cfg _ t' key ag ag' r j d hs hp
  subst c
  rw [iterateLoopT_consumed cfg (fuel + 1) _ t' ag ag' stop hne
    ((evalSingleArgumentT_key cfg _ ag key hk).trans hp) hst]
  exact iterateLoopT_free_word_refused cfg fuel t' stop b hsne hsv hpos

/-! ### non-vacuity: the tree `vlCfg` — main `-v` (multi-value list), `-f` (flag), optionally a
    positional list; sub-group `-g` with `-x` (int) and `-q` (flag).  View: main destinations
    `[v, f, positional]`, sub-group argument used, sub destinations `[x, q]`. -/

-- the seeded defect's input: `7 8` are handed back by the sub handler and go to the positional
-- argument, not to the stale `-v`
example : sgView (vlEval true ["-v", "1", "2", "-g", "-x", "5", "7", "8"]) =
    some ([.vec [1, 2], .flag false, .vec [7, 8]], [true], [[.int 5, .flag false]]) := by decide +kernel
-- a flag of the sub handler, then a free value
example : sgView (vlEval true ["-v", "1", "2", "-g", "-q", "7"]) =
    some ([.vec [1, 2], .flag false, .vec [7]], [true], [[.int 0, .flag true]]) := by decide +kernel
-- the sub-group argument alone ends the list
example : sgView (vlEval true ["-v", "1", "2", "-g", "7"]) =
    some ([.vec [1, 2], .flag false, .vec [7]], [true], [[.int 0, .flag false]]) := by decide +kernel
-- the same tree without positional argument: the word after the sub-group is refused
example : isInvalidArgument (vlEval false ["-v", "1", "2", "-g", "-x", "5", "7", "8"]) = true := by decide +kernel
-- contrast: without a key in between the free value continues the list
example : sgView (vlEval true ["-v", "1", "2", "7"]) =
    some ([.vec [1, 2, 7], .flag false, .vec []], [false], [[.int 0, .flag false]]) := by decide +kernel
-- the list can be taken up again by a repeated use after the sub-group argument
example : sgView (vlEval true ["-v", "1", "2", "-g", "-x", "5", "-v", "3", "4"]) =
    some ([.vec [1, 2, 3, 4], .flag false, .vec []], [true], [[.int 5, .flag false]]) := by decide +kernel

-- plain handler: a flag ends the list, `7` goes to the positional argument / is refused
example : vlPlainView (vlPlainEval true ["-v", "1", "2", "-f", "7"]) =
    some [.vec [1, 2], .flag true, .vec [7]] := by decide +kernel
example : isInvalidArgument (vlPlainEval false ["-v", "1", "2", "-f", "7"]) = true := by decide +kernel
example : vlPlainView (vlPlainEval false ["-v", "1", "2", "7"]) = some [.vec [1, 2, 7], .flag false] := by
  decide +kernel

-- one `processArg` on `-g` from a state whose last argument is the multi-value `-v`: the last argument
-- is gone afterwards (the model without the reset answers `some 0` here)
example : vlStepViewT (It.begin (sgArgv ["-g", "-x", "5", "7"]) >>= fun ai =>
      processArgT (vlCfg true) (vlStale true) ⟨some 'g', []⟩ ai) =
    some ([.vec [], .flag false, .vec []], none, [[.int 5, .flag false]], .consumed) := by decide +kernel
-- … as `C06_subgroup_ends_value_list` says for every cursor (its lookup hypothesis holds for `-g`)
example (ai ai' : It) (t' : TState) (r : ArgResult)
    (hp : processArgT (vlCfg true) (vlStale true) ⟨some 'g', []⟩ ai = .ok (t', ai', r)) :
    t'.main.lastArg = none :=
  (C06_subgroup_ends_value_list (vlCfg true) (vlStale true) t' ⟨some 'g', []⟩ ai ai' r 0 _ rfl hp).1
-- the flag `-f` (argument 1) becomes the last argument although it takes no value
example : vlStepView (It.begin (sgArgv ["-f", "7"]) >>= fun ai =>
      processArg (vlMain true) (vlStale true).main ⟨some 'f', []⟩ ai) =
    some ([.vec [], .flag true, .vec []], some 1, .consumed) := by decide +kernel
example (ai ai' : It) (h' : HState) (r : ArgResult)
    (hp : processArg (vlMain true) (vlStale true).main ⟨some 'f', []⟩ ai = .ok (h', ai', r)) :
    h'.lastArg = some 1 :=
  ((C06_key_ends_value_list (vlMain true) (vlStale true).main h' ⟨some 'f', []⟩ ai ai' r hp).1 1 _ rfl).1
-- an unknown key resets the last argument
example : vlStepView (It.begin (sgArgv ["-z"]) >>= fun ai =>
      processArg (vlMain true) (vlStale true).main ⟨some 'z', []⟩ ai) =
    some ([.vec [], .flag false, .vec []], none, .unknown) := by decide +kernel
-- a value element: with `-v` as last argument it is appended to `-v` (and `-v` stays the last
-- argument); with no last argument it goes to the positional argument (index 2)
example : vlStepView (It.begin (sgArgv ["7"]) >>= fun ai =>
      evalSingleArgument (vlMain true) (vlStale true).main ai) =
    some ([.vec [7], .flag false, .vec []], some 0, .consumed) := by decide +kernel
example : vlStepView (It.begin (sgArgv ["7"]) >>= fun ai =>
      evalSingleArgument (vlMain true) ((vlMain true).initState vlInits.main) ai) =
    some ([.vec [], .flag false, .vec [7]], none, .consumed) := by decide +kernel
example : ∃ d, findArg (vlMain true).abbr (vlMain true).table Key.pos = .ok (some (2, d)) := ⟨_, rfl⟩
example : findArg (vlMain false).abbr (vlMain false).table Key.pos = .ok none := rfl

/-! ### `C06_values_subgroup_free_words` / `…_free_word_refused` instantiated on `-v 1 2 -g -x 5 7 8`
    (cursors, states and the hypotheses one by one: `Lemmas/SubGroupsFrame.lean`) -/

/-- all hypotheses of the end-to-end theorem hold on the witness; its conclusion for the run -/
theorem C06_values_subgroup_free_words_witness : ∃ h1 h2 s sh ag' stop,
    multiFold 0 vlDefV [(vlCur2 true).cur.val] (vlAfterV true).1.main = .ok h1 ∧
    (vlCurG true).step = .ok s ∧ SubTakes vlSub ((vlAfterV true).1.subs.getD 0 default) (vlCurG true) s sh ag' stop ∧
    ag'.step = .ok stop ∧ h2.args = h1.args ∧ h2.lastArg = none ∧
    ∀ ws, FreeWords stop ws →
      positionalFold (vlMain true) 2 vlDefPos ws h2 = .ok (vlLoopFrom2 true).main ∧
      (∀ k, k ≠ 2 → (vlLoopFrom2 true).main.args[k]? = h1.args[k]?) ∧
      (vlLoopFrom2 true).main.lastArg = none ∧ (vlLoopFrom2 true).subs = (vlAfterV true).1.subs.set 0 sh :=
  C06_values_subgroup_free_words (vlCfg true) 0 vlDefV 2 vlDefPos ⟨some 'g', []⟩ 0 vlSubDef (vlAfterV true).1
    (vlLoopFrom2 true) (vlCur2 true) (vlCurG true) [(vlCur2 true).cur.val] 18 (vl_hd true) rfl (vl_hl true)
    (vl_value_run true) (vl_gne true) (vl_key_elem true) (vl_hs true) vl_hpos_t vl_run_t

/-- … and the inner statement of that witness is not vacuous: the sub handler's run IS determined
    (`SubTakes.functional`) — on the witness it takes `-x 5` and stops at `7` (`vl_subTakes`) — and
    from `7` on the free words `7`, `8` follow (`vl_freeWords`).  So for THIS run: the main handler's
    final state is the fold of `7`, `8` into the positional argument from a state with the argument
    states left by `-v 1 2`, and every other argument — the vector `-v` — is as `-v 1 2` left it. -/
theorem C06_values_subgroup_free_words_witness_run :
    ∃ h2, h2.args = (vlMainAfterValues true).args ∧ h2.lastArg = none ∧
      positionalFold (vlMain true) 2 vlDefPos [(vlCur7' true).cur.val, (vlCur8 true).cur.val] h2 =
        .ok (vlLoopFrom2 true).main ∧
      (∀ k, k ≠ 2 → (vlLoopFrom2 true).main.args[k]? = (vlMainAfterValues true).args[k]?) ∧
      (vlLoopFrom2 true).subs = (vlAfterV true).1.subs.set 0 (vlSubAt7 true).1 := by
  obtain ⟨h1, h2, s, sh, ag', stop, hf, g1, g2, _, a, b, H⟩ := C06_values_subgroup_free_words_witness
  have e1 : h1 = vlMainAfterValues true := by
    have := hf.symm.trans (vl_hf true)
    cases this; rfl
  have e2 : s = vlCurX true := by
    have := g1.symm.trans (vl_stepG true)
    cases this; rfl
  subst e1 e2
  obtain ⟨e3, _, e5⟩ := g2.functional (vl_subTakes true)
  subst e3 e5
  obtain ⟨c1, c2, _, c4⟩ := H _ (vl_freeWords true)
  exact ⟨h2, a, b, c1, c2, c4⟩

-- … and what that run leaves: `-v` holds `[1, 2]`, the positional list `[7, 8]`, `-x` is 5
example : (vlLoopFrom2 true).main.args.map (·.dest) = [.vec [1, 2], .flag false, .vec [7, 8]] ∧
    (vlLoopFrom2 true).subs.map (fun h => h.args.map (·.dest)) = [[.int 5, .flag false]] := by decide +kernel

/-- the same words on the tree without positional argument: every hypothesis of the refusal theorem
    holds, the loop throws std::invalid_argument at `7` -/
theorem C06_values_subgroup_free_word_refused_witness :
    iterateLoopT (vlCfg false) (18 + 2 + [(vlCur2 false).cur.val].length) (vlAfterV false).1 (vlCur2 false) =
      .throw .invalid_argument :=
  C06_values_subgroup_free_word_refused (vlCfg false) 0 vlDefV ⟨some 'g', []⟩ 0 vlSubDef (vlAfterV false).1
    (vlAfterG false).1 (vlMainAfterValues false) (vlCur2 false) (vlCurG false) (vlAfterG false).2.1 (vlCur7 false)
    (vlAfterG false).2.2 [(vlCur2 false).cur.val] 18 (vl_hd false) rfl (vl_hl false) (vl_value_run false)
    (vl_gne false) (vl_key_elem false) (vl_hs false) vl_hpos_f (vl_hf false) (vl_hp false) (vl_hst false)
    (vl_7 false).1 (vl_7 false).2

end CelmaVerif.Props.C06s
