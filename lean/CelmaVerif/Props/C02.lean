import CelmaVerif.Lemmas.RulesSound
import CelmaVerif.Lemmas.RulesExample
/-
  C02 — "No command line that breaks a declared rule is silently accepted."

  Rules layer: the theorems below are about the abstract command line (the list of uses — which
  argument, which value, given by key or as a free value — that the pairing layer extracts from
  argv) and `evalUses` (what the handler does with it).  The declarative reading of the rules is
  Model/ProgArgs/Spec.lean; the hypotheses on the configuration are `Cfg.WellFormed`
  (Lemmas/RulesBase.lean).
-/
namespace CelmaVerif.Props.C02
open CelmaVerif CelmaVerif.Keys CelmaVerif.ProgArgs

/-- Soundness of all rules together: for every well-formed configuration (keys of the table pairwise
    distinct as `addArgument` guarantees, constraint keys spell table keys, maximum cardinalities
    not below -1), all initial destination values (one per argument) and every abstract command
    line, the evaluation returns normally only if the command line obeys every declared rule
    (`Obeys`: mandatory ∧ values ∧ cardinality ∧ excludes ∧ requires ∧ handler constraints). -/
theorem C02_rules_sound (cfg : Cfg) (wf : cfg.WellFormed) (inits : List DVal)
    (hin : cfg.args.length ≤ inits.length) (us : List Use) (h : HState)
    (e : evalUses cfg (cfg.initState inits) us = .ok h) : Obeys cfg inits us :=
  rules_sound wf hin e

/-- Mandatory: if the evaluation returns normally, every argument declared mandatory is used at
    least once — or is a list destination that already held elements (`hasValue()` of a container is
    "not empty"). -/
theorem C02_mandatory (cfg : Cfg) (wf : cfg.WellFormed) (inits : List DVal)
    (hin : cfg.args.length ≤ inits.length) (us : List Use) (h : HState)
    (e : evalUses cfg (cfg.initState inits) us = .ok h)
    (i : Nat) (d : ArgDef) (hd : cfg.args[i]? = some d) (hm : d.mandatory = true) :
    (∃ u ∈ us, u.arg = i) ∨ (d.kind = .vecInt ∧ ∃ l, inits[i]? = some (.vec l) ∧ l ≠ []) :=
  (rules_sound wf hin e).mandatory i d hd hm

/-- Values: if the evaluation returns normally, every value given converts to the destination type
    of its argument and passes every check attached to it (for a list value: every element). -/
theorem C02_values_checked (cfg : Cfg) (wf : cfg.WellFormed) (inits : List DVal)
    (hin : cfg.args.length ≤ inits.length) (us : List Use) (h : HState)
    (e : evalUses cfg (cfg.initState inits) us = .ok h) (u : Use) (hu : u ∈ us) :
    ∃ d, cfg.args[u.arg]? = some d ∧ ScalarValueOk d u.val :=
  (rules_sound wf hin e).values u hu

/-- Cardinality: if the evaluation returns normally, the number of values given to each argument
    (one per use, one more per further element of a list value) is within what its cardinality
    allows: at most the maximum; zero or exactly `n`; zero or within the range. -/
theorem C02_cardinality (cfg : Cfg) (wf : cfg.WellFormed) (inits : List DVal)
    (hin : cfg.args.length ≤ inits.length) (us : List Use) (h : HState)
    (e : evalUses cfg (cfg.initState inits) us = .ok h) (i : Nat) (d : ArgDef) (hd : cfg.args[i]? = some d) :
    d.card.MetBy (valuesGiven cfg i us) :=
  (rules_sound wf hin e).cardinality i d hd

/-- Excludes: if the evaluation returns normally, no argument is given by key after a use of an
    argument that excludes it: whenever the use at position `p` is of an argument with an
    "excludes" constraint listing `k`, no later key occurrence (position `q > p`) is of an argument
    that `k` designates. -/
theorem C02_excludes (cfg : Cfg) (wf : cfg.WellFormed) (inits : List DVal)
    (hin : cfg.args.length ≤ inits.length) (us : List Use) (h : HState)
    (e : evalUses cfg (cfg.initState inits) us = .ok h)
    (p q : Nat) (u w : Use) (d : ArgDef) (ks : List Key) (k : Key)
    (hpq : p < q) (hu : us[p]? = some u) (hw : us[q]? = some w) (hwi : w.ident = true)
    (hd : cfg.args[u.arg]? = some d) (hc : (CType.excluded, ks) ∈ d.constraints) (hk : k ∈ ks) :
    ¬ Designates cfg k w.arg :=
  (rules_sound wf hin e).excludes p q u w d ks k hpq hu hw hwi hd hc hk

/-- Requires: if the evaluation returns normally, every argument required by a used argument is
    given by key after that use (the requirement takes effect where the requiring argument is
    used). -/
theorem C02_requires (cfg : Cfg) (wf : cfg.WellFormed) (inits : List DVal)
    (hin : cfg.args.length ≤ inits.length) (us : List Use) (h : HState)
    (e : evalUses cfg (cfg.initState inits) us = .ok h)
    (p : Nat) (u : Use) (d : ArgDef) (ks : List Key) (k : Key)
    (hu : us[p]? = some u) (hd : cfg.args[u.arg]? = some d)
    (hc : (CType.required, ks) ∈ d.constraints) (hk : k ∈ ks) :
    ∃ (q : Nat) (w : Use), p < q ∧ us[q]? = some w ∧ w.ident = true ∧ Designates cfg k w.arg :=
  (rules_sound wf hin e).requires p u d ks k hu hd hc hk

/-- Handler constraints: if the evaluation returns normally, then for every handler constraint —
    all-of: every listed argument is given by key; any-of: at most one key occurrence of a listed
    argument; one-of: exactly one. -/
theorem C02_handler_constraints (cfg : Cfg) (wf : cfg.WellFormed) (inits : List DVal)
    (hin : cfg.args.length ≤ inits.length) (us : List Use) (h : HState)
    (e : evalUses cfg (cfg.initState inits) us = .ok h) (g : GDef) (hg : g ∈ cfg.globals) :
    match g.kind with
    | .allOf => ∀ k ∈ g.keys, ∃ u ∈ us, u.ident = true ∧ Designates cfg k u.arg
    | .anyOf => (listedUses cfg g us).length ≤ 1
    | .oneOf => (listedUses cfg g us).length = 1 :=
  (rules_sound wf hin e).globals g hg

/-! ### non-vacuity

  `RulesExample.cfg` (Lemmas/RulesExample.lean): `-v,--verbose` (flag); `-n,--num` (int, mandatory, at
  most once, 0 ≤ value < 10); `-o,--out` (string, requires `-n`); `-q,--quiet` (flag, excludes
  `--verbose`); `-l,--list` (list of int, 1 to 3 values); handler constraint one-of( `-v`, `-q`).
  `run us` = `evalUses cfg (cfg.initState inits) us`.  One accepted command line, and one rejected
  command line per rule. -/

open CelmaVerif.ProgArgs.RulesExample in
/-- the hypotheses of the theorems are satisfiable -/
example : RulesExample.cfg.WellFormed ∧ RulesExample.cfg.args.length ≤ RulesExample.inits.length :=
  ⟨cfg_wf, by decide⟩

open CelmaVerif.ProgArgs.RulesExample in
/-- accepted: `-q -o file -n 5 -l 1,2` -/
example : (run [useQ, useO "file", useN "5", useL "1,2"]).isOk = true := by decide

open CelmaVerif.ProgArgs.RulesExample in
/-- … and therefore obeys the rules, by the theorem -/
example : Obeys RulesExample.cfg RulesExample.inits [useQ, useO "file", useN "5", useL "1,2"] := by
  cases e : run [useQ, useO "file", useN "5", useL "1,2"] with
  | ok h => exact C02_rules_sound _ cfg_wf _ (by decide) _ h e
  | throw x => exact absurd (show (run [useQ, useO "file", useN "5", useL "1,2"]).isOk = true by decide) (by rw [e]; simp [Res.isOk])
  | oob x => exact absurd (show (run [useQ, useO "file", useN "5", useL "1,2"]).isOk = true by decide) (by rw [e]; simp [Res.isOk])

open CelmaVerif.ProgArgs.RulesExample in
/-- rejected, mandatory: `-q -o file -l 1,2` (no `-n`) -/
example : (run [useQ, useO "file", useL "1,2"]).isThrow = true := by decide

open CelmaVerif.ProgArgs.RulesExample in
/-- rejected, values: `-q -n 12` (check 0 ≤ value < 10), `-q -n 1x` (not a number) -/
example : (run [useQ, useN "12"]).isThrow = true ∧ (run [useQ, useN "1x"]).isThrow = true := by decide

open CelmaVerif.ProgArgs.RulesExample in
/-- rejected, cardinality: `-q -n 1 -n 2` (at most once), `-q -n 1 -l 1,2,3,4` (at most 3 values) -/
example : (run [useQ, useN "1", useN "2"]).isThrow = true ∧
    (run [useQ, useN "1", useL "1,2,3,4"]).isThrow = true := by decide

open CelmaVerif.ProgArgs.RulesExample in
/-- rejected, excludes: `-q -n 1 -v` (`-q` excludes `--verbose`) -/
example : (run [useQ, useN "1", useV]).isThrow = true := by decide

open CelmaVerif.ProgArgs.RulesExample in
/-- rejected, requires: `-q -n 1 -o f` (`-o` requires `-n` from the point where `-o` is used);
    accepted in the other order -/
example : (run [useQ, useN "1", useO "f"]).isThrow = true ∧ (run [useQ, useO "f", useN "1"]).isOk = true := by
  decide

open CelmaVerif.ProgArgs.RulesExample in
/-- rejected, handler constraint: `-n 1` (neither `-v` nor `-q`) -/
example : (run [useN "1"]).isThrow = true := by decide

end CelmaVerif.Props.C02
