import CelmaVerif.Lemmas.RulesSound
import CelmaVerif.Lemmas.RulesComplete
import CelmaVerif.Lemmas.RulesExample
import CelmaVerif.Lemmas.ParseSmall
/-
  C02 — "No command line that breaks a declared rule is silently accepted."

  Rules layer: the theorems below are about the abstract command line (the list of uses — which
  argument, which value, given by key or as a free value — that the pairing layer extracts from
  argv) and `evalUses` (what the handler does with it).  The declarative reading of the rules is
  Model/ProgArgs/Spec.lean; the hypotheses on the configuration are `Cfg.WellFormed`
  (Lemmas/RulesBase.lean).
-/
namespace CelmaVerif.Props.C02
open CelmaVerif CelmaVerif.Keys CelmaVerif.ProgArgs

/-- Soundness of all rules together: for every well-formed configuration (keys of the table pairwise
    distinct as `addArgument` guarantees, constraint keys spell table keys, maximum cardinalities
    not below -1, the argument list of a value constraint as `validValueArguments` leaves it), all
    initial destination values (one per argument) and every abstract command line, the evaluation
    returns normally only if the command line obeys every declared rule (`Obeys`: mandatory ∧
    values ∧ cardinality ∧ excludes ∧ requires ∧ handler constraints, the value constraints differ
    and disjoint included).  The corollaries below state each rule in words under the hypotheses
    that rule needs. -/
theorem C02_rules_sound (cfg : Cfg) (wf : cfg.WellFormed) (inits : List DVal)
    (hin : cfg.args.length ≤ inits.length) (us : List Use) (h : HState)
    (e : evalUses cfg (cfg.initState inits) us = .ok h) : Obeys cfg inits us :=
  rules_sound wf hin e

/-- Mandatory: if the evaluation returns normally, every argument declared mandatory is used at
    least once (a list argument: with a value that has at least one element) — or is a list
    destination that already held elements (`hasValue()` of a container is "not empty"). -/
theorem C02_mandatory (cfg : Cfg) (inits : List DVal)
    (hin : cfg.args.length ≤ inits.length) (us : List Use) (h : HState)
    (e : evalUses cfg (cfg.initState inits) us = .ok h)
    (i : Nat) (d : ArgDef) (hd : cfg.args[i]? = some d) (hm : d.mandatory = true) :
    (∃ u ∈ us, u.arg = i ∧ (d.kind = .vecInt → splitSep d.sep u.val ≠ [])) ∨
    (d.kind = .vecInt ∧ ∃ l, inits[i]? = some (.vec l) ∧ l ≠ []) :=
  (local_rules_sound hin e).1 i d hd hm

/-- Values: if the evaluation returns normally, every value given converts to the destination type
    of its argument and passes every check attached to it (for a list value: every element). -/
theorem C02_values_checked (cfg : Cfg) (inits : List DVal) (us : List Use) (h : HState)
    (e : evalUses cfg (cfg.initState inits) us = .ok h) (u : Use) (hu : u ∈ us) :
    ∃ d, cfg.args[u.arg]? = some d ∧ ScalarValueOk d u.val :=
  values_sound e u hu

/-- Cardinality (maximum cardinalities not below -1 — `Cfg.WellFormed.cardSane`): if the evaluation
    returns normally, the number of values given to each argument
    (one per use, one more per further element of a list value) is within what its cardinality
    allows: at most the maximum; zero or exactly `n`; zero or within the range. -/
theorem C02_cardinality (cfg : Cfg) (hsane : ∀ d ∈ cfg.args, d.card.Sane) (inits : List DVal)
    (hin : cfg.args.length ≤ inits.length) (us : List Use) (h : HState)
    (e : evalUses cfg (cfg.initState inits) us = .ok h) (i : Nat) (d : ArgDef) (hd : cfg.args[i]? = some d) :
    d.card.MetBy (valuesGiven cfg i us) :=
  (local_rules_sound hin e).2.1 hsane i d hd

/-- Excludes (table keys pairwise distinct, constraint keys spell table keys — `Cfg.WellFormed.disjoint`
    and `.argKeys`): if the evaluation returns normally, no argument is given by key after a use of an
    argument that excludes it: whenever the use at position `p` is of an argument with an
    "excludes" constraint listing `k`, no later key occurrence (position `q > p`) is of an argument
    that `k` designates. -/
theorem C02_excludes (cfg : Cfg) (hdis : Disjoint cfg.table)
    (hkeys : ∀ d ∈ cfg.args, ∀ c ∈ d.constraints, ∀ k ∈ c.2, ∃ j, Names cfg k j)
    (inits : List DVal) (us : List Use) (h : HState)
    (e : evalUses cfg (cfg.initState inits) us = .ok h)
    (p q : Nat) (u w : Use) (d : ArgDef) (ks : List Key) (k : Key)
    (hpq : p < q) (hu : us[p]? = some u) (hw : us[q]? = some w) (hwi : w.ident = true)
    (hd : cfg.args[u.arg]? = some d) (hc : (CType.excluded, ks) ∈ d.constraints) (hk : k ∈ ks) :
    ¬ Designates cfg k w.arg :=
  (constraints_sound hdis hkeys e).1 p q u w d ks k hpq hu hw hwi hd hc hk

/-- Requires (same two hypotheses as `C02_excludes`): if the evaluation returns normally, every
    argument required by a used argument is given by key after that use (the requirement takes
    effect where the requiring argument is used). -/
theorem C02_requires (cfg : Cfg) (hdis : Disjoint cfg.table)
    (hkeys : ∀ d ∈ cfg.args, ∀ c ∈ d.constraints, ∀ k ∈ c.2, ∃ j, Names cfg k j)
    (inits : List DVal) (us : List Use) (h : HState)
    (e : evalUses cfg (cfg.initState inits) us = .ok h)
    (p : Nat) (u : Use) (d : ArgDef) (ks : List Key) (k : Key)
    (hu : us[p]? = some u) (hd : cfg.args[u.arg]? = some d)
    (hc : (CType.required, ks) ∈ d.constraints) (hk : k ∈ ks) :
    ∃ (q : Nat) (w : Use), p < q ∧ us[q]? = some w ∧ w.ident = true ∧ Designates cfg k w.arg :=
  (constraints_sound hdis hkeys e).2 p u d ks k hu hd hc hk

/-- Handler constraints: if the evaluation returns normally, then for every handler constraint —
    all-of: every listed argument is given by key; any-of: at most one key occurrence of a listed
    argument; one-of: exactly one.  (The value constraints differ / disjoint: `C02_value_constraints`.) -/
theorem C02_handler_constraints (cfg : Cfg) (inits : List DVal)
    (hin : cfg.args.length ≤ inits.length) (us : List Use) (h : HState)
    (e : evalUses cfg (cfg.initState inits) us = .ok h) (g : GDef) (hg : g ∈ cfg.globals) :
    match g.kind with
    | .allOf => ∀ k ∈ g.keys, ∃ u ∈ us, u.ident = true ∧ Designates cfg k u.arg
    | .anyOf => (listedUses cfg g us).length ≤ 1
    | .oneOf => (listedUses cfg g us).length = 1
    | .differ => True
    | .disjoint => True :=
  (local_rules_sound hin e).2.2 g hg

/-- Value constraints (well-formed configuration: the listed keys are keys of defined arguments with
    pairwise non-clashing keys, int or string arguments for differ, exactly two list arguments for
    disjoint — what `Handler::validValueArguments` establishes, plus a comparable type): if the
    evaluation returns normally, then
    * differ: any two different listed arguments that were both given hold different values at the
      end (`denote`: for an int / string argument the last value given, converted);
    * disjoint: the two listed lists — initial content followed by all elements given, in whatever
      order they were given — have no element in common. -/
theorem C02_value_constraints (cfg : Cfg) (wf : cfg.WellFormed) (inits : List DVal)
    (hin : cfg.args.length ≤ inits.length) (us : List Use) (h : HState)
    (e : evalUses cfg (cfg.initState inits) us = .ok h) (g : GDef) (hg : g ∈ cfg.globals) :
    (g.kind = .differ →
      ∀ (k1 k2 : Key) (i j : Nat) (di dj : ArgDef) (vi vj : DVal), k1 ∈ g.keys → k2 ∈ g.keys →
        cfg.args[i]? = some di → cfg.args[j]? = some dj → k1.eq di.key = true → k2.eq dj.key = true → i ≠ j →
        inits[i]? = some vi → inits[j]? = some vj → (∃ u ∈ us, u.arg = i) → (∃ u ∈ us, u.arg = j) →
        denote di vi (valsOf i us) ≠ denote dj vj (valsOf j us)) ∧
    (g.kind = .disjoint →
      ∀ (k1 k2 : Key) (i j : Nat) (di dj : ArgDef) (vi vj : DVal), k1 ∈ g.keys → k2 ∈ g.keys →
        cfg.args[i]? = some di → cfg.args[j]? = some dj → k1.eq di.key = true → k2.eq dj.key = true → i ≠ j →
        inits[i]? = some vi → inits[j]? = some vj →
        ∀ x, x ∈ vecOf (denote di vi (valsOf i us)) → x ∉ vecOf (denote dj vj (valsOf j us))) :=
  value_constraints_sound wf hin e g hg

/-- The intersection test behind disjoint: `hasIntersectionUnsorted` (sorted copies, then the walk
    of `std::set_intersection` that stops at the first common value) answers "true" exactly when the
    two lists have a common element — whatever their order.  (At the pinned commit the vector adapter
    handed the unsorted vectors to the walk: `-a 3,1 -b 1` was accepted; `fix:` 1ee8266.) -/
theorem C02_disjoint_test (l1 l2 : List Int) :
    hasIntersectionUnsorted l1 l2 = true ↔ ∃ x, x ∈ l1 ∧ x ∈ l2 :=
  hasIntersectionUnsorted_iff l1 l2

/-- Pattern check: if the evaluation returns normally, every value given to a string or int argument
    (every element of a list value) matches — as a whole, `std::regex_match` — every pattern
    attached to the argument (`Regex.Re.matches`, Model/Regex.lean). -/
theorem C02_pattern (cfg : Cfg) (inits : List DVal) (us : List Use) (h : HState)
    (e : evalUses cfg (cfg.initState inits) us = .ok h) (u : Use) (hu : u ∈ us) (d : ArgDef)
    (hd : cfg.args[u.arg]? = some d) (r : Regex.Re) (hr : Check.pattern r ∈ d.checks) :
    (d.kind = .str ∨ d.kind = .int → r.matches u.val = true) ∧
    (d.kind = .vecInt → ∀ t ∈ splitSep d.sep u.val, r.matches t = true) := by
  obtain ⟨d', hd', hok⟩ := values_sound e u hu
  rw [hd] at hd'; cases hd'
  have hrun : ∀ v, runChecks d.checks v = .ok () → r.matches v = true := by
    intro v hv
    have := runChecks_ok hv _ hr
    simp only [Check.run, throwIf_eq_ok, Bool.not_eq_false'] at this
    exact this
  unfold ScalarValueOk at hok
  constructor
  · rintro (hk | hk) <;> rw [hk] at hok
    · exact hrun _ hok
    · exact hrun _ hok.1
  · intro hk t ht
    rw [hk] at hok
    exact hrun _ (hok t ht).1

/-- Values of a LevelCounter argument (whose rules are stateful and only approximated by
    `ScalarValueOk`): if the evaluation returns normally, the values given to it obey the
    LevelCounter rules in the order given — an increment (no value) never follows an assignment and
    an assignment never follows any earlier use unless mixing is allowed, the incremented level
    passes the checks, an assigned value passes the checks and converts. -/
theorem C02_level_values (cfg : Cfg) (inits : List DVal) (hin : cfg.args.length ≤ inits.length)
    (us : List Use) (h : HState) (e : evalUses cfg (cfg.initState inits) us = .ok h)
    (i : Nat) (d : ArgDef) (v : DVal) (hd : cfg.args[i]? = some d) (hk : d.kind = .level)
    (hv : inits[i]? = some v) : LevelValuesOk d (levelOf v) false false (valsOf i us) :=
  level_rules_sound hin e hd hk hv

/-! ### non-vacuity

  `RulesExample.cfg` (Lemmas/RulesExample.lean): `-v,--verbose` (flag); `-n,--num` (int, mandatory, at
  most once, 0 ≤ value < 10); `-o,--out` (string, requires `-n`); `-q,--quiet` (flag, excludes
  `--verbose`); `-l,--list` (list of int, 1 to 3 values); handler constraint one-of( `-v`, `-q`).
  `run us` = `evalUses cfg (cfg.initState inits) us`.  One accepted command line, and one rejected
  command line per rule. -/

open CelmaVerif.ProgArgs.RulesExample in
/-- the hypotheses of the theorems are satisfiable -/
example : RulesExample.cfg.WellFormed ∧ RulesExample.cfg.args.length ≤ RulesExample.inits.length :=
  ⟨cfg_wf, by decide⟩

open CelmaVerif.ProgArgs.RulesExample in
/-- accepted: `-q -o file -n 5 -l 1,2` -/
example : (run [useQ, useO "file", useN "5", useL "1,2"]).isOk = true := by decide

open CelmaVerif.ProgArgs.RulesExample in
/-- … and therefore obeys the rules, by the theorem -/
example : Obeys RulesExample.cfg RulesExample.inits [useQ, useO "file", useN "5", useL "1,2"] := by
  cases e : run [useQ, useO "file", useN "5", useL "1,2"] with
  | ok h => exact C02_rules_sound _ cfg_wf _ (by decide) _ h e
  | throw x => exact absurd (show (run [useQ, useO "file", useN "5", useL "1,2"]).isOk = true by decide) (by rw [e]; simp [Res.isOk])
  | oob x => exact absurd (show (run [useQ, useO "file", useN "5", useL "1,2"]).isOk = true by decide) (by rw [e]; simp [Res.isOk])

open CelmaVerif.ProgArgs.RulesExample in
/-- rejected, mandatory: `-q -o file -l 1,2` (no `-n`) -/
example : (run [useQ, useO "file", useL "1,2"]).isThrow = true := by decide

open CelmaVerif.ProgArgs.RulesExample in
/-- rejected, values: `-q -n 12` (check 0 ≤ value < 10), `-q -n 1x` (not a number) -/
example : (run [useQ, useN "12"]).isThrow = true ∧ (run [useQ, useN "1x"]).isThrow = true := by decide

open CelmaVerif.ProgArgs.RulesExample in
/-- rejected, cardinality: `-q -n 1 -n 2` (at most once), `-q -n 1 -l 1,2,3,4` (at most 3 values) -/
example : (run [useQ, useN "1", useN "2"]).isThrow = true ∧
    (run [useQ, useN "1", useL "1,2,3,4"]).isThrow = true := by decide

open CelmaVerif.ProgArgs.RulesExample in
/-- rejected, excludes: `-q -n 1 -v` (`-q` excludes `--verbose`) -/
example : (run [useQ, useN "1", useV]).isThrow = true := by decide

open CelmaVerif.ProgArgs.RulesExample in
/-- rejected, requires: `-q -n 1 -o f` (`-o` requires `-n` from the point where `-o` is used);
    accepted in the other order -/
example : (run [useQ, useN "1", useO "f"]).isThrow = true ∧ (run [useQ, useO "f", useN "1"]).isOk = true := by
  decide

open CelmaVerif.ProgArgs.RulesExample in
/-- rejected, handler constraint: `-n 1` (neither `-v` nor `-q`) -/
example : (run [useN "1"]).isThrow = true := by decide

/-- LevelCounter `-v`: `-v -v` is accepted, `-v -v 3` (assignment after increment) is rejected -/
example :
    (evalUses RulesExample.cfgLevel (RulesExample.cfgLevel.initState [.level 0]) [⟨0, [], true⟩, ⟨0, [], true⟩]).isOk = true ∧
    (evalUses RulesExample.cfgLevel (RulesExample.cfgLevel.initState [.level 0]) [⟨0, [], true⟩, ⟨0, ['3'], true⟩]).isThrow = true := by
  decide

/-! ### value constraints and the pattern check: non-vacuity

  `RulesExample.cfgVal`: `-p,--primary` / `-b,--backup` (int) must differ; the lists `-i,--include` /
  `-x,--exclude` must be disjoint; `-m,--name` (string) must match `[a-z]+[0-9]?`.
  `runVal us` = `evalUses cfgVal (cfgVal.initState initsVal) us`. -/

open CelmaVerif.ProgArgs.RulesExample in
example : RulesExample.cfgVal.WellFormed ∧ RulesExample.cfgVal.args.length ≤ RulesExample.initsVal.length :=
  ⟨cfgVal_wf, by decide⟩

open CelmaVerif.ProgArgs.RulesExample in
/-- the pattern of the example is inside the modelled subset -/
example : (Regex.parse "[a-z]+[0-9]?".toList).isSome = true := by decide

open CelmaVerif.ProgArgs.RulesExample in
/-- accepted: `-p 1 -b 2 -i 3,1 -x 2,7 -m abc7`, also with `-b` alone (nothing to compare) -/
example : (runVal [⟨0, "1".toList, true⟩, ⟨1, "2".toList, true⟩, ⟨2, "3,1".toList, true⟩, ⟨3, "2,7".toList, true⟩,
    ⟨4, "abc7".toList, true⟩]).isOk = true ∧ (runVal [⟨1, "1".toList, true⟩]).isOk = true := by decide

open CelmaVerif.ProgArgs.RulesExample in
/-- rejected, differ: `-p 1 -b 1`, `-p 7 -b +7` (equal after conversion) -/
example : (runVal [⟨0, "1".toList, true⟩, ⟨1, "1".toList, true⟩]).isThrow = true ∧
    (runVal [⟨0, "7".toList, true⟩, ⟨1, "+7".toList, true⟩]).isThrow = true := by decide

open CelmaVerif.ProgArgs.RulesExample in
/-- rejected, disjoint: `-i 1,3 -x 2,3`, and the unsorted `-i 3,1 -x 1` / `-i 5 -x 7 -x 5` which the
    pinned commit accepted -/
example : (runVal [⟨2, "1,3".toList, true⟩, ⟨3, "2,3".toList, true⟩]).isThrow = true ∧
    (runVal [⟨2, "3,1".toList, true⟩, ⟨3, "1".toList, true⟩]).isThrow = true ∧
    (runVal [⟨2, "5".toList, true⟩, ⟨3, "7".toList, true⟩, ⟨3, "5".toList, true⟩]).isThrow = true := by decide

open CelmaVerif.ProgArgs.RulesExample in
/-- rejected, pattern: `-m Abc` (upper case), `-m abc77` (`regex_match` is on the whole value: a
    matching prefix is not enough), `-m ""` -/
example : (runVal [⟨4, "Abc".toList, true⟩]).isThrow = true ∧ (runVal [⟨4, "abc77".toList, true⟩]).isThrow = true ∧
    (runVal [⟨4, [], true⟩]).isThrow = true := by decide

/-! ### the checks on length and on the list of allowed values, declaratively -/

/-- Minimum-length check: if the evaluation returns normally, every value given to a string or int
    argument that carries the check `minLength n` has at least `n` characters (for a list argument:
    every element of the value). -/
theorem C02_min_length (cfg : Cfg) (inits : List DVal) (us : List Use) (h : HState)
    (e : evalUses cfg (cfg.initState inits) us = .ok h) (u : Use) (hu : u ∈ us) (d : ArgDef)
    (hd : cfg.args[u.arg]? = some d) (n : Nat) (hc : Check.minLength n ∈ d.checks) :
    (d.kind = .str ∨ d.kind = .int → n ≤ u.val.length) ∧
    (d.kind = .vecInt → ∀ t ∈ splitSep d.sep u.val, n ≤ t.length) :=
  check_holds_of_accepted e hu hd hc (fun v => n ≤ v.length) (check_minLength_ok n)

/-- Maximum-length check: if the evaluation returns normally, every value given to a string or int
    argument that carries the check `maxLength n` has at most `n` characters (for a list argument:
    every element of the value). -/
theorem C02_max_length (cfg : Cfg) (inits : List DVal) (us : List Use) (h : HState)
    (e : evalUses cfg (cfg.initState inits) us = .ok h) (u : Use) (hu : u ∈ us) (d : ArgDef)
    (hd : cfg.args[u.arg]? = some d) (n : Nat) (hc : Check.maxLength n ∈ d.checks) :
    (d.kind = .str ∨ d.kind = .int → u.val.length ≤ n) ∧
    (d.kind = .vecInt → ∀ t ∈ splitSep d.sep u.val, t.length ≤ n) :=
  check_holds_of_accepted e hu hd hc (fun v => v.length ≤ n) (check_maxLength_ok n)

/-- List of allowed values: if the evaluation returns normally, every value given to a string or
    int argument that carries the check `values vs ignoreCase` (for a list argument: every element
    of the value) is one of the words `vs` — literally when `ignoreCase` is off; when it is on, it
    equals one of them after both are put in lower case (ASCII letters only, `toLowerAscii`). -/
theorem C02_values_list (cfg : Cfg) (inits : List DVal) (us : List Use) (h : HState)
    (e : evalUses cfg (cfg.initState inits) us = .ok h) (u : Use) (hu : u ∈ us) (d : ArgDef)
    (hd : cfg.args[u.arg]? = some d) (vs : List Word) (ic : Bool) (hc : Check.values vs ic ∈ d.checks) :
    (d.kind = .str ∨ d.kind = .int →
      (ic = false → u.val ∈ vs) ∧
      (ic = true → ∃ v ∈ vs, v.map toLowerAscii = u.val.map toLowerAscii)) ∧
    (d.kind = .vecInt → ∀ t ∈ splitSep d.sep u.val,
      (ic = false → t ∈ vs) ∧
      (ic = true → ∃ v ∈ vs, v.map toLowerAscii = t.map toLowerAscii)) :=
  check_holds_of_accepted e hu hd hc
    (fun w => (ic = false → w ∈ vs) ∧ (ic = true → ∃ v ∈ vs, v.map toLowerAscii = w.map toLowerAscii))
    (check_values_ok vs ic)

/-! ### length and allowed-values checks: non-vacuity -/

namespace ExChecks
/-- `-m,--mode` (string, one of `fast`, `slow`); `-c,--colour` (string, one of `Red`, `Green`, case
    ignored); `-w,--word` (string, 2 to 4 characters); `-l,--list` (list of int, every element at
    least 2 characters) -/
def cfg : Cfg :=
  { args := [
      { key := ⟨some 'm', "mode".toList⟩, kind := .str, vmode := .required, card := .max 1,
        checks := [.values ["fast".toList, "slow".toList] false] },
      { key := ⟨some 'c', "colour".toList⟩, kind := .str, vmode := .required, card := .max 1,
        checks := [.values ["Red".toList, "Green".toList] true] },
      { key := ⟨some 'w', "word".toList⟩, kind := .str, vmode := .required, card := .max 1,
        checks := [.minLength 2, .maxLength 4] },
      { key := ⟨some 'l', "list".toList⟩, kind := .vecInt, vmode := .required, card := .unlimited,
        checks := [.minLength 2] } ] }
def inits : List DVal := [.str [], .str [], .str [], .vec []]
def run (us : List Use) : Res HState := evalUses cfg (cfg.initState inits) us
end ExChecks

open ExChecks in
/-- accepted: `-m fast -c rED -w abc -l 10,20`, also `-w ab` and `-w abcd` (both bounds inclusive) -/
example : (run [⟨0, "fast".toList, true⟩, ⟨1, "rED".toList, true⟩, ⟨2, "abc".toList, true⟩,
      ⟨3, "10,20".toList, true⟩]).isOk = true ∧
    (run [⟨2, "ab".toList, true⟩]).isOk = true ∧ (run [⟨2, "abcd".toList, true⟩]).isOk = true := by decide

open ExChecks in
/-- rejected: `-m Fast` (case matters), `-c blue`, `-w a` (too short), `-w abcde` (too long),
    `-l 10,5` (second element too short) -/
example : (run [⟨0, "Fast".toList, true⟩]).isThrow = true ∧ (run [⟨1, "blue".toList, true⟩]).isThrow = true ∧
    (run [⟨2, "a".toList, true⟩]).isThrow = true ∧ (run [⟨2, "abcde".toList, true⟩]).isThrow = true ∧
    (run [⟨3, "10,5".toList, true⟩]).isThrow = true := by decide

open ExChecks in
/-- the theorems applied to the accepted line: `rED` is `Red` up to case, every element of `10,20`
    has at least two characters -/
example (h : HState)
    (e : run [⟨0, "fast".toList, true⟩, ⟨1, "rED".toList, true⟩, ⟨2, "abc".toList, true⟩,
      ⟨3, "10,20".toList, true⟩] = .ok h) :
    (∃ v ∈ ["Red".toList, "Green".toList], v.map toLowerAscii = "rED".toList.map toLowerAscii) ∧
    (∀ t ∈ splitSep ExChecks.cfg.args[3].sep "10,20".toList, 2 ≤ t.length) :=
  ⟨((C02_values_list _ _ _ h e ⟨1, "rED".toList, true⟩ (by simp) ExChecks.cfg.args[1] rfl _ _
      List.mem_cons_self).1 (Or.inl rfl)).2 rfl,
   (C02_min_length _ _ _ h e ⟨3, "10,20".toList, true⟩ (by simp) ExChecks.cfg.args[3] rfl 2
      List.mem_cons_self).2 rfl⟩

end CelmaVerif.Props.C02
