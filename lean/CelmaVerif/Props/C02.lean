import CelmaVerif.Lemmas.RulesSound
import CelmaVerif.Lemmas.RulesComplete
import CelmaVerif.Lemmas.RulesExample
/-
  C02 — "No command line that breaks a declared rule is silently accepted."

  Rules layer: the theorems below are about the abstract command line (the list of uses — which
  argument, which value, given by key or as a free value — that the pairing layer extracts from
  argv) and `evalUses` (what the handler does with it).  The declarative reading of the rules is
  Model/ProgArgs/Spec.lean; the hypotheses on the configuration are `Cfg.WellFormed`
  (Lemmas/RulesBase.lean).
-/
namespace CelmaVerif.Props.C02
open CelmaVerif CelmaVerif.Keys CelmaVerif.ProgArgs

/-- Soundness of all rules together: for every well-formed configuration (keys of the table pairwise
    distinct as `addArgument` guarantees, constraint keys spell table keys, maximum cardinalities
    not below -1; the fourth clause of `Cfg.WellFormed` is only used by the converse, C03), all
    initial destination values (one per argument) and every abstract command line, the evaluation
    returns normally only if the command line obeys every declared rule (`Obeys`: mandatory ∧
    values ∧ cardinality ∧ excludes ∧ requires ∧ handler constraints).  The corollaries below state
    each rule in words under the hypotheses that rule needs. -/
theorem C02_rules_sound (cfg : Cfg) (wf : cfg.WellFormed) (inits : List DVal)
    (hin : cfg.args.length ≤ inits.length) (us : List Use) (h : HState)
    (e : evalUses cfg (cfg.initState inits) us = .ok h) : Obeys cfg inits us :=
  rules_sound wf hin e

/-- Mandatory: if the evaluation returns normally, every argument declared mandatory is used at
    least once (a list argument: with a value that has at least one element) — or is a list
    destination that already held elements (`hasValue()` of a container is "not empty"). -/
theorem C02_mandatory (cfg : Cfg) (inits : List DVal)
    (hin : cfg.args.length ≤ inits.length) (us : List Use) (h : HState)
    (e : evalUses cfg (cfg.initState inits) us = .ok h)
    (i : Nat) (d : ArgDef) (hd : cfg.args[i]? = some d) (hm : d.mandatory = true) :
    (∃ u ∈ us, u.arg = i ∧ (d.kind = .vecInt → splitSep d.sep u.val ≠ [])) ∨
    (d.kind = .vecInt ∧ ∃ l, inits[i]? = some (.vec l) ∧ l ≠ []) :=
  (local_rules_sound hin e).1 i d hd hm

/-- Values: if the evaluation returns normally, every value given converts to the destination type
    of its argument and passes every check attached to it (for a list value: every element). -/
theorem C02_values_checked (cfg : Cfg) (inits : List DVal) (us : List Use) (h : HState)
    (e : evalUses cfg (cfg.initState inits) us = .ok h) (u : Use) (hu : u ∈ us) :
    ∃ d, cfg.args[u.arg]? = some d ∧ ScalarValueOk d u.val :=
  values_sound e u hu

/-- Cardinality (maximum cardinalities not below -1 — `Cfg.WellFormed.cardSane`): if the evaluation
    returns normally, the number of values given to each argument
    (one per use, one more per further element of a list value) is within what its cardinality
    allows: at most the maximum; zero or exactly `n`; zero or within the range. -/
theorem C02_cardinality (cfg : Cfg) (hsane : ∀ d ∈ cfg.args, d.card.Sane) (inits : List DVal)
    (hin : cfg.args.length ≤ inits.length) (us : List Use) (h : HState)
    (e : evalUses cfg (cfg.initState inits) us = .ok h) (i : Nat) (d : ArgDef) (hd : cfg.args[i]? = some d) :
    d.card.MetBy (valuesGiven cfg i us) :=
  (local_rules_sound hin e).2.1 hsane i d hd

/-- Excludes (table keys pairwise distinct, constraint keys spell table keys — `Cfg.WellFormed.disjoint`
    and `.argKeys`): if the evaluation returns normally, no argument is given by key after a use of an
    argument that excludes it: whenever the use at position `p` is of an argument with an
    "excludes" constraint listing `k`, no later key occurrence (position `q > p`) is of an argument
    that `k` designates. -/
theorem C02_excludes (cfg : Cfg) (hdis : Disjoint cfg.table)
    (hkeys : ∀ d ∈ cfg.args, ∀ c ∈ d.constraints, ∀ k ∈ c.2, ∃ j, Names cfg k j)
    (inits : List DVal) (us : List Use) (h : HState)
    (e : evalUses cfg (cfg.initState inits) us = .ok h)
    (p q : Nat) (u w : Use) (d : ArgDef) (ks : List Key) (k : Key)
    (hpq : p < q) (hu : us[p]? = some u) (hw : us[q]? = some w) (hwi : w.ident = true)
    (hd : cfg.args[u.arg]? = some d) (hc : (CType.excluded, ks) ∈ d.constraints) (hk : k ∈ ks) :
    ¬ Designates cfg k w.arg :=
  (constraints_sound hdis hkeys e).1 p q u w d ks k hpq hu hw hwi hd hc hk

/-- Requires (same two hypotheses as `C02_excludes`): if the evaluation returns normally, every
    argument required by a used argument is given by key after that use (the requirement takes
    effect where the requiring argument is used). -/
theorem C02_requires (cfg : Cfg) (hdis : Disjoint cfg.table)
    (hkeys : ∀ d ∈ cfg.args, ∀ c ∈ d.constraints, ∀ k ∈ c.2, ∃ j, Names cfg k j)
    (inits : List DVal) (us : List Use) (h : HState)
    (e : evalUses cfg (cfg.initState inits) us = .ok h)
    (p : Nat) (u : Use) (d : ArgDef) (ks : List Key) (k : Key)
    (hu : us[p]? = some u) (hd : cfg.args[u.arg]? = some d)
    (hc : (CType.required, ks) ∈ d.constraints) (hk : k ∈ ks) :
    ∃ (q : Nat) (w : Use), p < q ∧ us[q]? = some w ∧ w.ident = true ∧ Designates cfg k w.arg :=
  (constraints_sound hdis hkeys e).2 p u d ks k hu hd hc hk

/-- Handler constraints: if the evaluation returns normally, then for every handler constraint —
    all-of: every listed argument is given by key; any-of: at most one key occurrence of a listed
    argument; one-of: exactly one. -/
theorem C02_handler_constraints (cfg : Cfg) (inits : List DVal)
    (hin : cfg.args.length ≤ inits.length) (us : List Use) (h : HState)
    (e : evalUses cfg (cfg.initState inits) us = .ok h) (g : GDef) (hg : g ∈ cfg.globals) :
    match g.kind with
    | .allOf => ∀ k ∈ g.keys, ∃ u ∈ us, u.ident = true ∧ Designates cfg k u.arg
    | .anyOf => (listedUses cfg g us).length ≤ 1
    | .oneOf => (listedUses cfg g us).length = 1 :=
  (local_rules_sound hin e).2.2 g hg

/-- Values of a LevelCounter argument (whose rules are stateful and only approximated by
    `ScalarValueOk`): if the evaluation returns normally, the values given to it obey the
    LevelCounter rules in the order given — an increment (no value) never follows an assignment and
    an assignment never follows any earlier use unless mixing is allowed, the incremented level
    passes the checks, an assigned value passes the checks and converts. -/
theorem C02_level_values (cfg : Cfg) (inits : List DVal) (hin : cfg.args.length ≤ inits.length)
    (us : List Use) (h : HState) (e : evalUses cfg (cfg.initState inits) us = .ok h)
    (i : Nat) (d : ArgDef) (v : DVal) (hd : cfg.args[i]? = some d) (hk : d.kind = .level)
    (hv : inits[i]? = some v) : LevelValuesOk d (levelOf v) false false (valsOf i us) :=
  level_rules_sound hin e hd hk hv

/-! ### non-vacuity

  `RulesExample.cfg` (Lemmas/RulesExample.lean): `-v,--verbose` (flag); `-n,--num` (int, mandatory, at
  most once, 0 ≤ value < 10); `-o,--out` (string, requires `-n`); `-q,--quiet` (flag, excludes
  `--verbose`); `-l,--list` (list of int, 1 to 3 values); handler constraint one-of( `-v`, `-q`).
  `run us` = `evalUses cfg (cfg.initState inits) us`.  One accepted command line, and one rejected
  command line per rule. -/

open CelmaVerif.ProgArgs.RulesExample in
/-- the hypotheses of the theorems are satisfiable -/
example : RulesExample.cfg.WellFormed ∧ RulesExample.cfg.args.length ≤ RulesExample.inits.length :=
  ⟨cfg_wf, by decide⟩

open CelmaVerif.ProgArgs.RulesExample in
/-- accepted: `-q -o file -n 5 -l 1,2` -/
example : (run [useQ, useO "file", useN "5", useL "1,2"]).isOk = true := by decide

open CelmaVerif.ProgArgs.RulesExample in
/-- … and therefore obeys the rules, by the theorem -/
example : Obeys RulesExample.cfg RulesExample.inits [useQ, useO "file", useN "5", useL "1,2"] := by
  cases e : run [useQ, useO "file", useN "5", useL "1,2"] with
  | ok h => exact C02_rules_sound _ cfg_wf _ (by decide) _ h e
  | throw x => exact absurd (show (run [useQ, useO "file", useN "5", useL "1,2"]).isOk = true by decide) (by rw [e]; simp [Res.isOk])
  | oob x => exact absurd (show (run [useQ, useO "file", useN "5", useL "1,2"]).isOk = true by decide) (by rw [e]; simp [Res.isOk])

open CelmaVerif.ProgArgs.RulesExample in
/-- rejected, mandatory: `-q -o file -l 1,2` (no `-n`) -/
example : (run [useQ, useO "file", useL "1,2"]).isThrow = true := by decide

open CelmaVerif.ProgArgs.RulesExample in
/-- rejected, values: `-q -n 12` (check 0 ≤ value < 10), `-q -n 1x` (not a number) -/
example : (run [useQ, useN "12"]).isThrow = true ∧ (run [useQ, useN "1x"]).isThrow = true := by decide

open CelmaVerif.ProgArgs.RulesExample in
/-- rejected, cardinality: `-q -n 1 -n 2` (at most once), `-q -n 1 -l 1,2,3,4` (at most 3 values) -/
example : (run [useQ, useN "1", useN "2"]).isThrow = true ∧
    (run [useQ, useN "1", useL "1,2,3,4"]).isThrow = true := by decide

open CelmaVerif.ProgArgs.RulesExample in
/-- rejected, excludes: `-q -n 1 -v` (`-q` excludes `--verbose`) -/
example : (run [useQ, useN "1", useV]).isThrow = true := by decide

open CelmaVerif.ProgArgs.RulesExample in
/-- rejected, requires: `-q -n 1 -o f` (`-o` requires `-n` from the point where `-o` is used);
    accepted in the other order -/
example : (run [useQ, useN "1", useO "f"]).isThrow = true ∧ (run [useQ, useO "f", useN "1"]).isOk = true := by
  decide

open CelmaVerif.ProgArgs.RulesExample in
/-- rejected, handler constraint: `-n 1` (neither `-v` nor `-q`) -/
example : (run [useN "1"]).isThrow = true := by decide

/-- LevelCounter `-v`: `-v -v` is accepted, `-v -v 3` (assignment after increment) is rejected -/
example :
    (evalUses RulesExample.cfgLevel (RulesExample.cfgLevel.initState [.level 0]) [⟨0, [], true⟩, ⟨0, [], true⟩]).isOk = true ∧
    (evalUses RulesExample.cfgLevel (RulesExample.cfgLevel.initState [.level 0]) [⟨0, [], true⟩, ⟨0, ['3'], true⟩]).isThrow = true := by
  decide

end CelmaVerif.Props.C02
