import CelmaVerif.Lemmas.UsageHelp
/-
  C18 — the usage lists exactly the visible arguments, each once.
  Property theorems only; the specification-side definitions (how a usage text is read: `classify`,
  `parseUsage`, `captions`; what has to be listed: `visible`, `shownKey`, `noteText`, `entryWords`,
  `expectedListing`) are in Lemmas/UsageSpec.lean, the lemmas in Lemmas/Usage{Listing,Text,Help}.lean.

  `usageWith h sw` is the text (list of lines, each ended by `std::endl`) a handler `h` writes for
  `prog <standard arguments sw> -h`; the display settings in force are
  `sw.foldl (Switch.apply h.flags) h.params`.  All theorems quantify over every handler (any number of
  arguments with any mixture of mandatory / hidden / deprecated / replaced, short / long / both keys of any
  length — both layouts of the listing —, descriptions, defaults, checks, constraints of any content, any line
  length) and every sequence of the standard arguments.  `KeyClean`: no blank inside a key (`ArgumentKey`
  rejects them).
-/
namespace CelmaVerif.Props.C18
open CelmaVerif CelmaVerif.Usage CelmaVerif.TextBlock

/-- (listing) Reading the usage text back — caption lines, entry lines, continuation lines — gives exactly:
    the visible mandatory arguments in definition order under the mandatory caption, then the visible optional
    ones under the optional caption; each entry shows the key(s) the contents setting asks for and carries the
    words of the description followed by the words of the notes.  Nothing else is listed. -/
theorem C18_listing (h : Handler) (sw : List Switch) (ls : List Str)
    (hk : ∀ a ∈ h.args, KeyClean a.key) (hu : usageWith h sw = .ok ls) :
    parseUsage ls = expectedListing (sw.foldl (Switch.apply h.flags) h.params) h.args := by
  rw [usageWith_eq] at hu
  split at hu
  · simp at hu
  · split at hu
    · simp at hu
    · simp only [Res.ok.injEq] at hu
      subst hu
      exact parse_usage_text _ _ _ _ _ hk

/-- (membership, each exactly once) The keys listed are, as a multiset, the shown keys of exactly the
    arguments visible under the settings — hidden ones only with print-hidden, deprecated / replaced ones only
    with print-deprecated, and under short-only / long-only only those that have such a key: every visible
    argument is listed once, nothing else is.  Every listed entry stands under the caption that matches its
    argument (`mandatory = some a.mandatory`). -/
theorem C18_membership (h : Handler) (sw : List Switch) (ls : List Str)
    (hk : ∀ a ∈ h.args, KeyClean a.key) (hu : usageWith h sw = .ok ls) :
    ((parseUsage ls).map Entry.key).Perm
        ((h.args.filter (visible (sw.foldl (Switch.apply h.flags) h.params))).map
          (shownKey (sw.foldl (Switch.apply h.flags) h.params)))
    ∧ (∀ e ∈ parseUsage ls, ∃ a ∈ h.args, visible (sw.foldl (Switch.apply h.flags) h.params) a = true
          ∧ e = expectedEntry (sw.foldl (Switch.apply h.flags) h.params) a)
    ∧ (∀ a ∈ h.args, visible (sw.foldl (Switch.apply h.flags) h.params) a = true →
          expectedEntry (sw.foldl (Switch.apply h.flags) h.params) a ∈ parseUsage ls) := by
  rw [C18_listing h sw ls hk hu]
  generalize sw.foldl (Switch.apply h.flags) h.params = u
  unfold expectedListing
  refine ⟨?_, ?_, ?_⟩
  · rw [List.map_map]
    have e1 : (h.args.filter fun a => a.mandatory && visible u a)
        = (h.args.filter (visible u)).filter (fun a => a.mandatory) := by
      rw [List.filter_filter]
    have e2 : (h.args.filter fun a => !a.mandatory && visible u a)
        = (h.args.filter (visible u)).filter (fun a => !a.mandatory) := by
      rw [List.filter_filter]
    rw [e1, e2]
    have hp := List.filter_append_perm (fun a : Arg => a.mandatory) (h.args.filter (visible u))
    have : (Entry.key ∘ expectedEntry u) = shownKey u := by funext a; rfl
    rw [this]
    exact hp.map _
  · intro e he
    obtain ⟨a, ha, rfl⟩ := List.mem_map.mp he
    rcases List.mem_append.mp ha with ha | ha
    · obtain ⟨hm, hv⟩ := List.mem_filter.mp ha
      simp at hv
      exact ⟨a, hm, hv.2, rfl⟩
    · obtain ⟨hm, hv⟩ := List.mem_filter.mp ha
      simp at hv
      exact ⟨a, hm, hv.2, rfl⟩
  · intro a ha hv
    apply List.mem_map.mpr
    refine ⟨a, ?_, rfl⟩
    apply List.mem_append.mpr
    cases hm : a.mandatory
    · exact Or.inr (List.mem_filter.mpr ⟨ha, by simp [hm, hv]⟩)
    · exact Or.inl (List.mem_filter.mpr ⟨ha, by simp [hm, hv]⟩)

/-- (captions) The caption lines of the text are: the mandatory caption iff some mandatory argument is
    visible, the optional caption iff some optional argument is visible, each at most once and in this order
    (as coded: an empty section has no caption). -/
theorem C18_captions (h : Handler) (sw : List Switch) (ls : List Str) (hu : usageWith h sw = .ok ls) :
    captions ls =
      (if (h.args.filter fun a => a.mandatory && visible (sw.foldl (Switch.apply h.flags) h.params) a) ≠ []
        then [true] else [])
      ++ (if (h.args.filter fun a => !a.mandatory && visible (sw.foldl (Switch.apply h.flags) h.params) a) ≠ []
        then [false] else []) := by
  rw [usageWith_eq] at hu
  split at hu
  · simp at hu
  · split at hu
    · simp at hu
    · simp only [Res.ok.injEq] at hu
      subst hu
      rw [captions_usage_text]
      have e1 : ∀ u : UsageParams, (h.args.filter fun a => a.mandatory && visible u a) = h.args.filter (doPrint u true) := by
        intro u; congr 1; funext a; rw [doPrint_true]
      have e2 : ∀ u : UsageParams, (h.args.filter fun a => !a.mandatory && visible u a) = h.args.filter (doPrint u false) := by
        intro u; congr 1; funext a; rw [doPrint_false]
      rw [e1, e2]

/-- (short only) With the contents setting "short only" the entries are exactly the visible arguments that
    have a short key, each shown as `-c`. -/
theorem C18_contents_short (h : Handler) (sw : List Switch) (ls : List Str)
    (hk : ∀ a ∈ h.args, KeyClean a.key) (hu : usageWith h sw = .ok ls)
    (hc : (sw.foldl (Switch.apply h.flags) h.params).contents = .shortOnly) :
    (∀ e ∈ parseUsage ls, ∃ a ∈ h.args, ∃ c, a.key.short = some c ∧ e.key = ['-', c])
    ∧ (∀ a ∈ h.args, ∀ c, a.key.short = some c →
        ((sw.foldl (Switch.apply h.flags) h.params).printHidden || !a.hidden) = true →
        ((sw.foldl (Switch.apply h.flags) h.params).printDeprecated || !a.deprecated) = true →
        ∃ e ∈ parseUsage ls, e.key = ['-', c] ∧ e.mandatory = some a.mandatory) := by
  obtain ⟨_, h2, h3⟩ := C18_membership h sw ls hk hu
  generalize sw.foldl (Switch.apply h.flags) h.params = u at *
  refine ⟨?_, ?_⟩
  · intro e he
    obtain ⟨a, ha, hv, rfl⟩ := h2 e he
    unfold visible at hv
    rw [hc] at hv
    simp only [Bool.and_eq_true] at hv
    obtain ⟨c, hcs⟩ := Option.isSome_iff_exists.mp hv.2
    exact ⟨a, ha, c, hcs, by simp [expectedEntry, shownKey, hc, hcs]⟩
  · intro a ha c hcs hh hd
    refine ⟨_, h3 a ha (by unfold visible; rw [hc]; simp [hcs]; exact ⟨by simpa using hh, by simpa using hd⟩), ?_, rfl⟩
    simp [expectedEntry, shownKey, hc, hcs]

/-- (long only) With the contents setting "long only" the entries are exactly the visible arguments that
    have a long key, each shown as `--word`. -/
theorem C18_contents_long (h : Handler) (sw : List Switch) (ls : List Str)
    (hk : ∀ a ∈ h.args, KeyClean a.key) (hu : usageWith h sw = .ok ls)
    (hc : (sw.foldl (Switch.apply h.flags) h.params).contents = .longOnly) :
    (∀ e ∈ parseUsage ls, ∃ a ∈ h.args, a.key.long ≠ [] ∧ e.key = '-' :: '-' :: a.key.long)
    ∧ (∀ a ∈ h.args, a.key.long ≠ [] →
        ((sw.foldl (Switch.apply h.flags) h.params).printHidden || !a.hidden) = true →
        ((sw.foldl (Switch.apply h.flags) h.params).printDeprecated || !a.deprecated) = true →
        ∃ e ∈ parseUsage ls, e.key = '-' :: '-' :: a.key.long ∧ e.mandatory = some a.mandatory) := by
  obtain ⟨_, h2, h3⟩ := C18_membership h sw ls hk hu
  generalize sw.foldl (Switch.apply h.flags) h.params = u at *
  refine ⟨?_, ?_⟩
  · intro e he
    obtain ⟨a, ha, hv, rfl⟩ := h2 e he
    unfold visible at hv
    rw [hc] at hv
    simp only [Bool.and_eq_true] at hv
    refine ⟨a, ha, ?_, by simp [expectedEntry, shownKey, hc]⟩
    intro hl
    rw [hl] at hv
    simp at hv
  · intro a ha hl hh hd
    refine ⟨_, h3 a ha (by unfold visible; rw [hc]; simp [hl]; exact ⟨by simpa using hh, by simpa using hd⟩), ?_, rfl⟩
    simp [expectedEntry, shownKey, hc]

/-- (entry content) Every visible argument has an entry that shows all of its keys (contents "all":
    `-c`, `--word` or `-c,--word`) and whose words are the words of the description followed by the words of
    the notes; the text block's words-preservation theorem C17 is what carries the description through the
    formatting.  (`nn` is the forced-break token of the text block, not a word.) -/
theorem C18_entry (h : Handler) (sw : List Switch) (ls : List Str)
    (hk : ∀ a ∈ h.args, KeyClean a.key) (hu : usageWith h sw = .ok ls) (a : Arg) (ha : a ∈ h.args)
    (hv : visible (sw.foldl (Switch.apply h.flags) h.params) a = true) :
    ∃ e ∈ parseUsage ls,
      e.key = shownKey (sw.foldl (Switch.apply h.flags) h.params) a
      ∧ e.mandatory = some a.mandatory
      ∧ e.words = (words a.desc).filter (fun w => decide (w ≠ nn)) ++ (words (noteText a)).filter (fun w => decide (w ≠ nn)) :=
  ⟨_, (C18_membership h sw ls hk hu).2.2 a ha hv, rfl, rfl, rfl⟩

/-- (notes iff configured) The notes behind the description: the default value iff the argument is optional
    and prints its default, the checks iff there is one, the constraints iff there is one, the
    deprecated / replaced-by note iff deprecated, the hidden note iff hidden; and with contents "all" the key
    shown holds every key of the argument. -/
theorem C18_notes_iff (a : Arg) :
    (defaultNote a ≠ [] ↔ (a.mandatory = false ∧ a.printDefault = true))
    ∧ (checkNote a ≠ [] ↔ a.checks ≠ [])
    ∧ (constraintNote a ≠ [] ↔ a.constraints ≠ [])
    ∧ (deprecatedNote a ≠ [] ↔ a.deprecated = true)
    ∧ (hiddenNote a ≠ [] ↔ a.hidden = true)
    ∧ noteText a = defaultNote a ++ checkNote a ++ constraintNote a ++ deprecatedNote a ++ hiddenNote a := by
  refine ⟨?_, ?_, ?_, ?_, ?_, rfl⟩
  · unfold defaultNote; cases a.mandatory <;> cases a.printDefault <;> simp
  · unfold checkNote; by_cases hc : a.checks = [] <;> simp [hc]
  · unfold constraintNote; by_cases hc : a.constraints = [] <;> simp [hc]
  · unfold deprecatedNote; cases a.deprecated <;> by_cases hr : a.replacedBy = [] <;> simp [hr]
  · unfold hiddenNote; cases a.hidden <;> simp

/-- (when the usage cannot be written) `usage()` ends with an exception exactly when a visible optional
    argument asks for its default value although its type has none (`TypedArgBase::defaultValue()` throws
    `std::runtime_error`, e.g. a boolean flag with `setPrintDefault( true)`); it never touches memory outside
    an object.  In every other case the text is written and the theorems above apply. -/
theorem C18_usage_total (h : Handler) (sw : List Switch) :
    (∀ w, usageWith h sw ≠ .oob w)
    ∧ (∀ e, usageWith h sw = .throw e ↔
        (e = .runtime_error ∧ ∃ a ∈ h.args, visible (sw.foldl (Switch.apply h.flags) h.params) a = true
            ∧ defaultMissing a = true)) := by
  rw [usageWith_eq]
  generalize sw.foldl (Switch.apply h.flags) h.params = u
  have key : ((h.args.filter (doPrint u true)).any defaultMissing = true
      ∨ (h.args.filter (doPrint u false)).any defaultMissing = true)
      ↔ ∃ a ∈ h.args, visible u a = true ∧ defaultMissing a = true := by
    simp only [List.any_eq_true, List.mem_filter]
    constructor
    · rintro (⟨a, ⟨ha, hp⟩, hd⟩ | ⟨a, ⟨ha, hp⟩, hd⟩)
      · rw [doPrint_true] at hp; simp at hp; exact ⟨a, ha, hp.2, hd⟩
      · rw [doPrint_false] at hp; simp at hp; exact ⟨a, ha, hp.2, hd⟩
    · rintro ⟨a, ha, hv, hd⟩
      right
      refine ⟨a, ⟨ha, ?_⟩, hd⟩
      rw [doPrint_false, hv]
      unfold defaultMissing at hd
      simp at hd
      simp [hd.1.1]
  refine ⟨?_, ?_⟩
  · intro w
    split <;> try simp
    split <;> simp
  · intro e
    by_cases h1 : (h.args.filter (doPrint u true)).any defaultMissing = true
    · rw [if_pos h1]
      simp only [Res.throw.injEq]
      constructor
      · intro he; exact ⟨he.symm, key.mp (Or.inl h1)⟩
      · intro he; exact he.1.symm
    · rw [if_neg h1]
      by_cases h2 : (h.args.filter (doPrint u false)).any defaultMissing = true
      · rw [if_pos h2]
        simp only [Res.throw.injEq]
        constructor
        · intro he; exact ⟨he.symm, key.mp (Or.inr h2)⟩
        · intro he; exact he.1.symm
      · rw [if_neg h2]
        constructor
        · intro he; simp at he
        · intro he
          rcases key.mpr he.2 with h' | h'
          · exact absurd h' h1
          · exact absurd h' h2

/-- (standard arguments) What the four standard arguments do to the display settings: the contents is the
    one asked for last (or unchanged); `--print-hidden` / `--print-deprecated` store the negation of what the
    constructor flag preset (a boolean flag argument toggles its destination's value at definition time),
    so they switch the display on exactly when the corresponding "always" flag was not given. -/
theorem C18_switches (f : Flags) (u : UsageParams) :
    (Switch.apply f u .printHidden = { u with printHidden := !f.usageHidden })
    ∧ (Switch.apply f u .printDeprecated = { u with printDeprecated := !f.usageDeprecated })
    ∧ (Switch.apply f u .helpShort = { u with contents := .shortOnly })
    ∧ (Switch.apply f u .helpLong = { u with contents := .longOnly })
    ∧ (Handler.new f).params = { contents := .all, printHidden := f.usageHidden, printDeprecated := f.usageDeprecated } :=
  ⟨rfl, rfl, rfl, rfl, rfl⟩

/-- (help for one argument) `helpArgument` with key `k` (typed as `raw`) on a handler whose arguments have
    pairwise different keys does exactly one of three things:
    * some argument is meant by `k` — same key, or, when abbreviations are allowed, its long key starts with
      the long key given —: the output is the line `Argument '<k>', usage:` followed by *that argument's*
      description as a text block (indent 3, width 80), nothing on the error stream;
    * no argument is meant by `k`: nothing on the output, `*** ERROR: Argument '<raw>' is unknown!` on the
      error stream;
    * no argument has exactly this key and the abbreviation is ambiguous (two long keys start with it):
      `std::runtime_error`.
    (Repaired in `/repo`: the unchanged tree looked the description up with the key as typed and printed an
    empty description for every abbreviation.) -/
theorem C18_help_arg (h : Handler) (raw : Str) (k : Key) (hd : KeysDistinct h.args) :
    (∃ a ∈ h.args, keyMatches (!h.flags.noAbbr) a k = true
        ∧ helpArgument h raw k =
            .ok (("Argument '".toList ++ keyToString k ++ "', usage:".toList)
                  :: emit [] (TextBlock.format ⟨3, 80, true⟩ a.desc), []))
    ∨ ((∀ a ∈ h.args, keyMatches (!h.flags.noAbbr) a k = false)
        ∧ helpArgument h raw k = .ok ([], ["*** ERROR: Argument '".toList ++ raw ++ "' is unknown!".toList]))
    ∨ (helpArgument h raw k = .throw .runtime_error ∧ h.flags.noAbbr = false
        ∧ (∀ a ∈ h.args, keyEq a.key k = false)
        ∧ ∃ pre a post, h.args = pre ++ a :: post ∧ keyStartsWith a.key k = true
            ∧ ∃ p ∈ pre, keyStartsWith p.key k = true) := by
  unfold helpArgument
  rcases findArg_spec (!h.flags.noAbbr) h.args k with ⟨a, ha, hm, hf⟩ | ⟨hn, hf⟩ | ⟨hf, hab, hne, hrest⟩
  · left
    exact ⟨a, ha, hm, by rw [hf]; simp only; rw [getArgDesc_mem h.args hd a ha]⟩
  · right; left
    exact ⟨hn, by rw [hf]⟩
  · right; right
    exact ⟨by rw [hf], by simpa using hab, hne, hrest⟩

/-- (the hypothesis of `C18_help_arg` is an invariant of the API) `addArgument` rejects a key that equals or
    mismatches a stored one, so adding arguments keeps the keys pairwise different. -/
theorem C18_keys_distinct (h : Handler) (a : Arg) (mods : List Mod) (hd : KeysDistinct h.args) :
    KeysDistinct (h.addArgument a mods).1.args :=
  addArgument_distinct h a mods hd

/-! ### the hypotheses are satisfiable, the statements are not vacuous -/

/-- a handler (help argument, `--print-hidden`, a mandatory argument with a check, a hidden flag): its keys are
    clean and pairwise different, the usage is written, and reading it back gives the expected entries and
    captions - without and with `--print-hidden` -/
example :
    ∃ h : Handler, (∀ a ∈ h.args, KeyClean a.key) ∧ KeysDistinct h.args
      ∧ (okVal (usageWith h [])).map (fun ls => ((parseUsage ls).map Entry.key, captions ls))
          = some (["-a,--alpha".toList, "-h,--help".toList, "--print-hidden".toList], [true, false])
      ∧ (okVal (usageWith h [.printHidden])).map (fun ls => ((parseUsage ls).map Entry.key, captions ls))
          = some (["-a,--alpha".toList, "-h,--help".toList, "--print-hidden".toList, "-b".toList], [true, false])
      ∧ (okVal (usageWith h [.printHidden])).map (fun ls => (parseUsage ls).map Entry.words)
          = some [["the", "alpha", "value", "Check:", "Value", ">=", "3"].map String.toList,
                  ["Prints", "the", "program", "usage."].map String.toList,
                  ["Also", "print", "hidden", "arguments", "in", "the", "usage."].map String.toList,
                  ["secret", "[hidden]"].map String.toList] := by
  let f : Flags := { Flags.none with helpShort := true, helpLong := true, argHidden := true }
  let a1 : Arg := { key := ⟨some 'a', "alpha".toList⟩, desc := "the alpha value".toList, takesValue := true,
                    isFlag := false, defaultText := some "42".toList, printDefault := true }
  let a2 : Arg := { key := ⟨some 'b', []⟩, desc := "secret".toList, takesValue := false, isFlag := true,
                    defaultText := none, printDefault := false }
  refine ⟨(((Handler.new f).addArgument a1 [.mandatory, .check "lower" "Value >= 3".toList]).1.addArgument a2 [.hidden]).1,
    ?_, by decide, by decide, by decide, by decide⟩
  have hargs : ∀ a ∈ (((Handler.new f).addArgument a1 [.mandatory, .check "lower" "Value >= 3".toList]).1.addArgument
      a2 [.hidden]).1.args, keyCleanB a.key = true := by decide
  exact fun a ha => keyClean_of_bool _ (hargs a ha)

/-- the exception case of `C18_usage_total` exists: a boolean flag that is told to print its default -/
example :
    thrown (usageWith ((Handler.new { Flags.none with helpShort := true }).addArgument
        { key := ⟨some 'v', []⟩, desc := [], takesValue := false, isFlag := true, defaultText := none, printDefault := false }
        [.printDefault true]).1 []) = some .runtime_error := by
  decide

/-- the three outcomes of `C18_help_arg` all occur (abbreviation `inp`, unknown `zz`, ambiguous `in`) -/
example :
    let mk (w : String) (d : String) : Arg :=
      { key := ⟨none, w.toList⟩, desc := d.toList, takesValue := true, isFlag := false, defaultText := some [],
        printDefault := true }
    let h := (((Handler.new { Flags.none with helpArg := true }).addArgument (mk "input" "the input") []).1.addArgument
                (mk "index" "the index") []).1
    KeysDistinct h.args
    ∧ okVal (helpArgument h "inp".toList ⟨none, "inp".toList⟩)
        = some (["Argument '--inp', usage:".toList, "   the input".toList], [])
    ∧ okVal (helpArgument h "zz".toList ⟨none, "zz".toList⟩) = some ([], ["*** ERROR: Argument 'zz' is unknown!".toList])
    ∧ thrown (helpArgument h "in".toList ⟨none, "in".toList⟩) = some .runtime_error := by
  decide

end CelmaVerif.Props.C18
