import CelmaVerif.Lemmas.UsageTree
import CelmaVerif.Lemmas.UsageLines
import CelmaVerif.Lemmas.UsageReach
import CelmaVerif.Lemmas.UsagePartition
/-
  C18 — the usage lists exactly the visible arguments, each once.
  Property theorems only; the specification-side definitions (how a usage text is read: `classify`,
  `parseUsage`, `captions`; what has to be listed: `visible`, `shownKey`, `noteText`, `entryWords`,
  `expectedListing`) are in Lemmas/UsageSpec.lean, the lemmas in Lemmas/Usage{Listing,Text,Help}.lean.

  `usageWith h sw` is the text (list of lines, each ended by `std::endl`) a handler `h` writes for
  `prog <standard arguments sw> -h`; the display settings in force are
  `sw.foldl (Switch.apply h.flags) h.params`.  All theorems quantify over every handler (any number of
  arguments with any mixture of mandatory / hidden / deprecated / replaced, short / long / both keys of any
  length — both layouts of the listing —, descriptions, defaults, checks, constraints of any content, any line
  length) and every sequence of the standard arguments.  `KeyClean`: no blank inside a key (`ArgumentKey`
  rejects them).

  Sub-group handlers (`Tree`: a main handler and the handlers constructed with `Handler( main_ah, flags)`,
  entered by sub-group arguments of the main handler): the tree has ONE set of display settings
  (`t.main.params`, the `UsageParams` object all handlers share).  `evalEvs t evs t.main.params` is what the
  standard arguments `evs` of a command line - evaluated by the main handler (`Ev.main`) or by a sub-group
  handler (`Ev.sub k`) - leave there; `t.usageSub k evs` is the text written for `prog <evs> -g -h`.  The
  `C18_subgroup_*` theorems quantify over every tree, every sub-group handler in it with any argument set, and
  every sequence of standard arguments.

  Reader and text: the theorems above read the text with `parseUsage` / `captions`; `C18_no_other_lines` says
  that the lines this reader does NOT use (`ignoredLines`) are the `Usage:` line and empty lines only, so no
  argument can be printed on a line the reader passes over; `C18_lines_are_lines` says the lines of the model
  are the lines of the byte text.  `Handler.Built` / `Tree.Built`: handlers / trees made with the definition
  operations (constructor, sub-group constructor, `addArgument` + modifiers, `setUsageLineLength`); for them
  the hypothesis `KeysDistinct` of `C18_help_arg` is proved (`C18_built_keys_distinct`, `C18_tree_built`).

  Definitional lemmas (they restate the model or the specification by `rfl` / unfolding and are NOT clauses of the
  property on their own; kept because other statements cite them): `C18_notes_iff`, `C18_switches`,
  `C18_subgroup_argument`, `C18_subgroup_help_arg`.  The end-to-end statements are `C18_entry`,
  `C18_switch_effect`, `C18_subgroup_argument_listed`, `C18_subgroup_help_arg_outcomes`, `C18_help_arg_slash`.
-/
namespace CelmaVerif.Props.C18
open CelmaVerif CelmaVerif.Usage CelmaVerif.TextBlock

/-- (listing) Reading the usage text back — caption lines, entry lines, continuation lines — gives exactly:
    the visible mandatory arguments in definition order under the mandatory caption, then the visible optional
    ones under the optional caption; each entry shows the key(s) the contents setting asks for and carries the
    words of the description followed by the words of the notes.  Nothing else is listed. -/
theorem C18_listing (h : Handler) (sw : List Switch) (ls : List Str)
    (hk : ∀ a ∈ h.args, KeyClean a.key) (hu : usageWith h sw = .ok ls) :
    parseUsage ls = expectedListing (sw.foldl (Switch.apply h.flags) h.params) h.args := by
  rw [usageWith_eq] at hu
  split at hu
  · simp at hu
  · split at hu
    · simp at hu
    · simp only [Res.ok.injEq] at hu
      subst hu
      exact parse_usage_text _ _ _ _ _ hk

/-- (membership, each exactly once) The keys listed are, as a multiset, the shown keys of exactly the
    arguments visible under the settings — hidden ones only with print-hidden, deprecated / replaced ones only
    with print-deprecated, and under short-only / long-only only those that have such a key: every visible
    argument is listed once, nothing else is.  Every listed entry stands under the caption that matches its
    argument (`mandatory = some a.mandatory`). -/
theorem C18_membership (h : Handler) (sw : List Switch) (ls : List Str)
    (hk : ∀ a ∈ h.args, KeyClean a.key) (hu : usageWith h sw = .ok ls) :
    ((parseUsage ls).map Entry.key).Perm
        ((h.args.filter (visible (sw.foldl (Switch.apply h.flags) h.params))).map
          (shownKey (sw.foldl (Switch.apply h.flags) h.params)))
    ∧ (∀ e ∈ parseUsage ls, ∃ a ∈ h.args, visible (sw.foldl (Switch.apply h.flags) h.params) a = true
          ∧ e = expectedEntry (sw.foldl (Switch.apply h.flags) h.params) a)
    ∧ (∀ a ∈ h.args, visible (sw.foldl (Switch.apply h.flags) h.params) a = true →
          expectedEntry (sw.foldl (Switch.apply h.flags) h.params) a ∈ parseUsage ls) := by
  rw [C18_listing h sw ls hk hu]
  generalize sw.foldl (Switch.apply h.flags) h.params = u
  unfold expectedListing
  refine ⟨?_, ?_, ?_⟩
  · rw [List.map_map]
    have e1 : (h.args.filter fun a => a.mandatory && visible u a)
        = (h.args.filter (visible u)).filter (fun a => a.mandatory) := by
      rw [List.filter_filter]
    have e2 : (h.args.filter fun a => !a.mandatory && visible u a)
        = (h.args.filter (visible u)).filter (fun a => !a.mandatory) := by
      rw [List.filter_filter]
    rw [e1, e2]
    have hp := List.filter_append_perm (fun a : Arg => a.mandatory) (h.args.filter (visible u))
    have : (Entry.key ∘ expectedEntry u) = shownKey u := by funext a; rfl
    rw [this]
    exact hp.map _
  · intro e he
    obtain ⟨a, ha, rfl⟩ := List.mem_map.mp he
    rcases List.mem_append.mp ha with ha | ha
    · obtain ⟨hm, hv⟩ := List.mem_filter.mp ha
      simp at hv
      exact ⟨a, hm, hv.2, rfl⟩
    · obtain ⟨hm, hv⟩ := List.mem_filter.mp ha
      simp at hv
      exact ⟨a, hm, hv.2, rfl⟩
  · intro a ha hv
    apply List.mem_map.mpr
    refine ⟨a, ?_, rfl⟩
    apply List.mem_append.mpr
    cases hm : a.mandatory
    · exact Or.inr (List.mem_filter.mpr ⟨ha, by simp [hm, hv]⟩)
    · exact Or.inl (List.mem_filter.mpr ⟨ha, by simp [hm, hv]⟩)

/-- (captions) The caption lines of the text are: the mandatory caption iff some mandatory argument is
    visible, the optional caption iff some optional argument is visible, each at most once and in this order
    (as coded: an empty section has no caption). -/
theorem C18_captions (h : Handler) (sw : List Switch) (ls : List Str) (hu : usageWith h sw = .ok ls) :
    captions ls =
      (if (h.args.filter fun a => a.mandatory && visible (sw.foldl (Switch.apply h.flags) h.params) a) ≠ []
        then [true] else [])
      ++ (if (h.args.filter fun a => !a.mandatory && visible (sw.foldl (Switch.apply h.flags) h.params) a) ≠ []
        then [false] else []) := by
  rw [usageWith_eq] at hu
  split at hu
  · simp at hu
  · split at hu
    · simp at hu
    · simp only [Res.ok.injEq] at hu
      subst hu
      rw [captions_usage_text]
      have e1 : ∀ u : UsageParams, (h.args.filter fun a => a.mandatory && visible u a) = h.args.filter (doPrint u true) := by
        intro u; congr 1; funext a; rw [doPrint_true]
      have e2 : ∀ u : UsageParams, (h.args.filter fun a => !a.mandatory && visible u a) = h.args.filter (doPrint u false) := by
        intro u; congr 1; funext a; rw [doPrint_false]
      rw [e1, e2]

/-- (short only) With the contents setting "short only" the entries are exactly the visible arguments that
    have a short key, each shown as `-c`. -/
theorem C18_contents_short (h : Handler) (sw : List Switch) (ls : List Str)
    (hk : ∀ a ∈ h.args, KeyClean a.key) (hu : usageWith h sw = .ok ls)
    (hc : (sw.foldl (Switch.apply h.flags) h.params).contents = .shortOnly) :
    (∀ e ∈ parseUsage ls, ∃ a ∈ h.args, ∃ c, a.key.short = some c ∧ e.key = ['-', c])
    ∧ (∀ a ∈ h.args, ∀ c, a.key.short = some c →
        ((sw.foldl (Switch.apply h.flags) h.params).printHidden || !a.hidden) = true →
        ((sw.foldl (Switch.apply h.flags) h.params).printDeprecated || !a.deprecated) = true →
        ∃ e ∈ parseUsage ls, e.key = ['-', c] ∧ e.mandatory = some a.mandatory) := by
  obtain ⟨_, h2, h3⟩ := C18_membership h sw ls hk hu
  generalize sw.foldl (Switch.apply h.flags) h.params = u at *
  refine ⟨?_, ?_⟩
  · intro e he
    obtain ⟨a, ha, hv, rfl⟩ := h2 e he
    unfold visible at hv
    rw [hc] at hv
    simp only [Bool.and_eq_true] at hv
    obtain ⟨c, hcs⟩ := Option.isSome_iff_exists.mp hv.2
    exact ⟨a, ha, c, hcs, by simp [expectedEntry, shownKey, hc, hcs]⟩
  · intro a ha c hcs hh hd
    refine ⟨_, h3 a ha (by unfold visible; rw [hc]; simp [hcs]; exact ⟨by simpa using hh, by simpa using hd⟩), ?_, rfl⟩
    simp [expectedEntry, shownKey, hc, hcs]

/-- (long only) With the contents setting "long only" the entries are exactly the visible arguments that
    have a long key, each shown as `--word`. -/
theorem C18_contents_long (h : Handler) (sw : List Switch) (ls : List Str)
    (hk : ∀ a ∈ h.args, KeyClean a.key) (hu : usageWith h sw = .ok ls)
    (hc : (sw.foldl (Switch.apply h.flags) h.params).contents = .longOnly) :
    (∀ e ∈ parseUsage ls, ∃ a ∈ h.args, a.key.long ≠ [] ∧ e.key = '-' :: '-' :: a.key.long)
    ∧ (∀ a ∈ h.args, a.key.long ≠ [] →
        ((sw.foldl (Switch.apply h.flags) h.params).printHidden || !a.hidden) = true →
        ((sw.foldl (Switch.apply h.flags) h.params).printDeprecated || !a.deprecated) = true →
        ∃ e ∈ parseUsage ls, e.key = '-' :: '-' :: a.key.long ∧ e.mandatory = some a.mandatory) := by
  obtain ⟨_, h2, h3⟩ := C18_membership h sw ls hk hu
  generalize sw.foldl (Switch.apply h.flags) h.params = u at *
  refine ⟨?_, ?_⟩
  · intro e he
    obtain ⟨a, ha, hv, rfl⟩ := h2 e he
    unfold visible at hv
    rw [hc] at hv
    simp only [Bool.and_eq_true] at hv
    refine ⟨a, ha, ?_, by simp [expectedEntry, shownKey, hc]⟩
    intro hl
    rw [hl] at hv
    simp at hv
  · intro a ha hl hh hd
    refine ⟨_, h3 a ha (by unfold visible; rw [hc]; simp [hl]; exact ⟨by simpa using hh, by simpa using hd⟩), ?_, rfl⟩
    simp [expectedEntry, shownKey, hc]

/-- (entry content) Every visible argument has an entry that shows all of its keys (contents "all":
    `-c`, `--word` or `-c,--word`) and whose words are the words of the description followed by the words of
    the notes; the text block's words-preservation theorem C17 is what carries the description through the
    formatting.  (`nn` is the forced-break token of the text block, not a word.) -/
theorem C18_entry (h : Handler) (sw : List Switch) (ls : List Str)
    (hk : ∀ a ∈ h.args, KeyClean a.key) (hu : usageWith h sw = .ok ls) (a : Arg) (ha : a ∈ h.args)
    (hv : visible (sw.foldl (Switch.apply h.flags) h.params) a = true) :
    ∃ e ∈ parseUsage ls,
      e.key = shownKey (sw.foldl (Switch.apply h.flags) h.params) a
      ∧ e.mandatory = some a.mandatory
      ∧ e.words = (words a.desc).filter (fun w => decide (w ≠ nn)) ++ (words (noteText a)).filter (fun w => decide (w ≠ nn)) :=
  ⟨_, (C18_membership h sw ls hk hu).2.2 a ha hv, rfl, rfl, rfl⟩

/-- (definitional lemma about the SPECIFICATION's `noteText`, no model content: what `C18_entry` /
    `C18_listing` mean by "the notes".)  The notes behind the description: the default value iff the argument is optional
    and prints its default, the checks iff there is one, the constraints iff there is one, the
    deprecated / replaced-by note iff deprecated, the hidden note iff hidden; and with contents "all" the key
    shown holds every key of the argument. -/
theorem C18_notes_iff (a : Arg) :
    (defaultNote a ≠ [] ↔ (a.mandatory = false ∧ a.printDefault = true))
    ∧ (checkNote a ≠ [] ↔ a.checks ≠ [])
    ∧ (constraintNote a ≠ [] ↔ a.constraints ≠ [])
    ∧ (deprecatedNote a ≠ [] ↔ a.deprecated = true)
    ∧ (hiddenNote a ≠ [] ↔ a.hidden = true)
    ∧ noteText a = defaultNote a ++ checkNote a ++ constraintNote a ++ deprecatedNote a ++ hiddenNote a := by
  refine ⟨?_, ?_, ?_, ?_, ?_, rfl⟩
  · unfold defaultNote; cases a.mandatory <;> cases a.printDefault <;> simp
  · unfold checkNote; by_cases hc : a.checks = [] <;> simp [hc]
  · unfold constraintNote; by_cases hc : a.constraints = [] <;> simp [hc]
  · unfold deprecatedNote; cases a.deprecated <;> by_cases hr : a.replacedBy = [] <;> simp [hr]
  · unfold hiddenNote; cases a.hidden <;> simp

/-- (when the usage cannot be written) `usage()` ends with an exception exactly when a visible optional
    argument asks for its default value although its type has none (`TypedArgBase::defaultValue()` throws
    `std::runtime_error`, e.g. a boolean flag with `setPrintDefault( true)`); it never touches memory outside
    an object.  In every other case the text is written and the theorems above apply. -/
theorem C18_usage_total (h : Handler) (sw : List Switch) :
    (∀ w, usageWith h sw ≠ .oob w)
    ∧ (∀ e, usageWith h sw = .throw e ↔
        (e = .runtime_error ∧ ∃ a ∈ h.args, visible (sw.foldl (Switch.apply h.flags) h.params) a = true
            ∧ defaultMissing a = true)) := by
  rw [usageWith_eq]
  generalize sw.foldl (Switch.apply h.flags) h.params = u
  have key : ((h.args.filter (doPrint u true)).any defaultMissing = true
      ∨ (h.args.filter (doPrint u false)).any defaultMissing = true)
      ↔ ∃ a ∈ h.args, visible u a = true ∧ defaultMissing a = true := by
    simp only [List.any_eq_true, List.mem_filter]
    constructor
    · rintro (⟨a, ⟨ha, hp⟩, hd⟩ | ⟨a, ⟨ha, hp⟩, hd⟩)
      · rw [doPrint_true] at hp; simp at hp; exact ⟨a, ha, hp.2, hd⟩
      · rw [doPrint_false] at hp; simp at hp; exact ⟨a, ha, hp.2, hd⟩
    · rintro ⟨a, ha, hv, hd⟩
      right
      refine ⟨a, ⟨ha, ?_⟩, hd⟩
      rw [doPrint_false, hv]
      unfold defaultMissing at hd
      simp at hd
      simp [hd.1.1]
  refine ⟨?_, ?_⟩
  · intro w
    split <;> try simp
    split <;> simp
  · intro e
    by_cases h1 : (h.args.filter (doPrint u true)).any defaultMissing = true
    · rw [if_pos h1]
      simp only [Res.throw.injEq]
      constructor
      · intro he; exact ⟨he.symm, key.mp (Or.inl h1)⟩
      · intro he; exact he.1.symm
    · rw [if_neg h1]
      by_cases h2 : (h.args.filter (doPrint u false)).any defaultMissing = true
      · rw [if_pos h2]
        simp only [Res.throw.injEq]
        constructor
        · intro he; exact ⟨he.symm, key.mp (Or.inr h2)⟩
        · intro he; exact he.1.symm
      · rw [if_neg h2]
        constructor
        · intro he; simp at he
        · intro he
          rcases key.mpr he.2 with h' | h'
          · exact absurd h' h1
          · exact absurd h' h2

/-- (definitional lemma: restates `Switch.apply` / `Handler.new` by `rfl`; the statement about a whole command
    line is `C18_switch_effect`.)  What the four standard arguments do to the display settings: the contents is the
    one asked for last (or unchanged); `--print-hidden` / `--print-deprecated` store the negation of what the
    constructor flag preset (a boolean flag argument toggles its destination's value at definition time),
    so they switch the display on exactly when the corresponding "always" flag was not given. -/
theorem C18_switches (f : Flags) (u : UsageParams) :
    (Switch.apply f u .printHidden = { u with printHidden := !f.usageHidden })
    ∧ (Switch.apply f u .printDeprecated = { u with printDeprecated := !f.usageDeprecated })
    ∧ (Switch.apply f u .helpShort = { u with contents := .shortOnly })
    ∧ (Switch.apply f u .helpLong = { u with contents := .longOnly })
    ∧ (Handler.new f).params = { contents := .all, printHidden := f.usageHidden, printDeprecated := f.usageDeprecated } :=
  ⟨rfl, rfl, rfl, rfl, rfl⟩

/-- (help for one argument) `helpArgument` with key `k` (typed as `raw`) on a handler whose arguments - plain
    and sub-group arguments - have pairwise different keys does exactly one of three things:
    * some argument is meant by `k` — same key, or, when abbreviations are allowed, its long key starts with
      the long key given —: the output is the line `Argument '<k>', usage:` followed by *that argument's*
      description as a text block (indent 3, width 80), nothing on the error stream; and whenever some
      argument has exactly the key `k`, the argument whose description is printed has exactly this key
      (never a mere abbreviation, also when the exact one is a sub-group argument);
    * no argument is meant by `k`: nothing on the output, `*** ERROR: Argument '<raw>' is unknown!` on the
      error stream;
    * no argument has exactly this key and the abbreviation is ambiguous (two long keys start with it) among
      the plain arguments, or - no plain argument being meant - among the sub-group arguments:
      `std::runtime_error`.
    (`k` is a key object: a `raw` string `ArgumentKey( raw)` refuses - empty, ",", a blank, too many dashes /
    commas - ends in `std::invalid_argument` before the lookup and is outside this statement.)
    (Repaired in `/repo` twice: the unchanged tree looked the description up with the key as typed and printed
    an empty description for every abbreviation; and it searched the plain arguments including abbreviations
    before the sub-group arguments, so `--help-arg group` printed the description of `--group-x` although
    `--group` is the key of a sub-group argument.) -/
theorem C18_help_arg (h : Handler) (raw : Str) (k : Key) (hd : KeysDistinct h.args) :
    (∃ a ∈ h.args, keyMatches (!h.flags.noAbbr) a k = true
        ∧ ((∃ b ∈ h.args, keyEq b.key k = true) → keyEq a.key k = true)
        ∧ helpArgument h raw k =
            .ok (("Argument '".toList ++ keyToString k ++ "', usage:".toList)
                  :: emit [] (TextBlock.format ⟨3, 80, true⟩ a.desc), []))
    ∨ ((∀ a ∈ h.args, keyMatches (!h.flags.noAbbr) a k = false)
        ∧ helpArgument h raw k = .ok ([], ["*** ERROR: Argument '".toList ++ raw ++ "' is unknown!".toList]))
    ∨ (helpArgument h raw k = .throw .runtime_error ∧ h.flags.noAbbr = false
        ∧ (∀ a ∈ h.args, keyEq a.key k = false)
        ∧ ∃ c, (c = plainArgs h.args
                ∨ (c = subGroupArgs h.args ∧ ∀ a ∈ plainArgs h.args, keyMatches (!h.flags.noAbbr) a k = false))
          ∧ ∃ pre a post, c = pre ++ a :: post ∧ keyStartsWith a.key k = true
              ∧ ∃ p ∈ pre, keyStartsWith p.key k = true) := by
  unfold helpArgument
  rcases findArg2_spec (!h.flags.noAbbr) h.args k with ⟨a, ha, hm, hf, hex⟩ | ⟨hn, hf⟩ | ⟨hf, hab, hne, hrest⟩
  · left
    exact ⟨a, ha, hm, hex, by rw [hf]; simp only; rw [getArgDesc_mem h.args hd a ha]⟩
  · right; left
    exact ⟨hn, by rw [hf]⟩
  · right; right
    exact ⟨by rw [hf], by simpa using hab, hne, hrest⟩

/-- (the hypothesis of `C18_help_arg` is kept by the API) `addArgument` rejects a key that equals or mismatches
    the key of ANY argument defined so far - plain or sub-group argument -, so adding arguments keeps all keys
    of the handler pairwise different.  (Repaired in `/repo`, 2dd61bc: the unchanged tree checked only the
    container the new argument is stored in, `mArguments` or `mSubGroupArgs`; `addArgument( "g", int)` next to
    `addArgument( "g", sub)` was accepted, the usage listed `-g` twice and `--help-arg g` printed the heading of
    one with the description of the other.) -/
theorem C18_keys_distinct (h : Handler) (a : Arg) (mods : List Mod) (hd : KeysDistinct h.args) :
    KeysDistinct (h.addArgument a mods).1.args :=
  addArgument_distinct h a mods hd

/-- (base case) The standard arguments the constructor defines have pairwise different keys for every set of
    constructor flags (and no blank in a key), also those of a handler built with the sub-group constructor. -/
theorem C18_std_keys_distinct (f : Flags) :
    KeysDistinct (Handler.new f).args ∧ KeysDistinct (subStdArgs f)
    ∧ (∀ a ∈ (Handler.new f).args, KeyClean a.key) ∧ (∀ a ∈ subStdArgs f, KeyClean a.key) :=
  ⟨stdArgs_distinct f, stdArgs_distinct _, stdArgs_keyClean f, stdArgs_keyClean _⟩

/-- (every handler that can be built) A handler made with the definition operations - constructor with any
    flags, any sequence of `addArgument` + modifiers (accepted or rejected), `setUsageLineLength` - has pairwise
    different keys: the hypothesis of `C18_help_arg` holds for it. -/
theorem C18_built_keys_distinct (h : Handler) (hb : h.Built) : KeysDistinct h.args :=
  built_distinct h hb

/-- (help for one argument, every handler that can be built) `C18_help_arg` without hypothesis:
    `HelpOutcome` is its trichotomy. -/
theorem C18_help_arg_built (h : Handler) (hb : h.Built) (raw : Str) (k : Key) :
    HelpOutcome h.args h.flags.noAbbr raw k (helpArgument h raw k) :=
  C18_help_arg h raw k (built_distinct h hb)

/-- (the standard arguments of one command line, every handler that can be built) The display settings in force
    after the standard arguments `sw` (what `C18_listing` … `C18_usage_total` call
    `sw.foldl (Switch.apply h.flags) h.params`), for EVERY handler made with the definition operations (constructor
    with any flags, any number of `addArgument` + modifiers, `setUsageLineLength`; they never touch the settings:
    `built_params`): hidden arguments are displayed iff `--print-hidden` was NOT used and `hfUsageHidden` preset
    it, or it was used and the preset is off (a boolean flag argument stores the negation of its destination's
    value at definition time); the same for deprecated ones; the contents is the one the last `--help-short` /
    `--help-long` asked for, "all" (the value at construction) when there was none.
    (Until the second audit this was stated for `(Handler.new f).params` only, i.e. for a handler without any
    argument of its own.)  Handler trees: `t.main.params` of a tree is NOT covered - the sub-group constructor
    switches the shared "print deprecated" on (`Tree.newSub`); for trees the closed form is relative to
    `t.main.params` (`C18_settings_shared`). -/
theorem C18_switch_effect (h : Handler) (hb : h.Built) (sw : List Switch) :
    (sw.foldl (Switch.apply h.flags) h.params).printHidden
        = (if Switch.printHidden ∈ sw then !h.flags.usageHidden else h.flags.usageHidden)
    ∧ (sw.foldl (Switch.apply h.flags) h.params).printDeprecated
        = (if Switch.printDeprecated ∈ sw then !h.flags.usageDeprecated else h.flags.usageDeprecated)
    ∧ (sw.foldl (Switch.apply h.flags) h.params).contents
        = lastD (sw.filterMap Switch.contentsValue) .all := by
  rw [built_params h hb]
  exact switches_effect h.flags sw (Handler.new h.flags).params

/-- (`--print-hidden -h` lists the hidden arguments, `-h` alone does not) On every handler that can be built,
    constructed WITHOUT `hfUsageHidden`, and every command line `<standard arguments sw> -h` whose text is
    written (`u` = the settings in force):
    * `--print-hidden` among the standard arguments, no `--help-short` / `--help-long`: every argument that is
      not deprecated - hidden or not - has its entry in the listing;
    * no `--print-hidden`: every entry of the listing is the entry of an argument that is NOT hidden.
    End-to-end corollary of `C18_switch_effect` and `C18_membership`; no hypothesis on the settings object. -/
theorem C18_print_hidden_lists_hidden (h : Handler) (hb : h.Built) (sw : List Switch) (ls : List Str)
    (hk : ∀ a ∈ h.args, KeyClean a.key) (hu : usageWith h sw = .ok ls) (hf : h.flags.usageHidden = false) :
    (Switch.printHidden ∈ sw → sw.filterMap Switch.contentsValue = [] →
        ∀ a ∈ h.args, a.deprecated = false →
          expectedEntry (sw.foldl (Switch.apply h.flags) h.params) a ∈ parseUsage ls)
    ∧ (Switch.printHidden ∉ sw →
        ∀ e ∈ parseUsage ls, ∃ b ∈ h.args, b.hidden = false
          ∧ e = expectedEntry (sw.foldl (Switch.apply h.flags) h.params) b) := by
  obtain ⟨e1, _, e3⟩ := C18_switch_effect h hb sw
  obtain ⟨_, m2, m3⟩ := C18_membership h sw ls hk hu
  generalize sw.foldl (Switch.apply h.flags) h.params = u at *
  constructor
  · intro hin hc a ha hd
    rw [if_pos hin, hf] at e1
    rw [hc] at e3
    have e3' : u.contents = .all := e3
    apply m3 a ha
    unfold visible; rw [e1, e3', hd]; simp
  · intro hn e he
    obtain ⟨b, hb', hv, rfl⟩ := m2 e he
    refine ⟨b, hb', ?_, rfl⟩
    rw [if_neg hn, hf] at e1
    unfold visible at hv
    rw [e1] at hv
    cases hbh : b.hidden
    · rfl
    · rw [hbh] at hv; simp at hv

/-- (nothing else is printed) The reader behind `C18_listing` / `C18_captions` uses caption lines, entry lines
    and the continuation lines directly below an entry.  The lines of the usage text it does NOT use
    (`ignoredLines`: every line that is neither a caption, nor an entry line, nor a continuation line attached
    to the entry above) are: the first line `Usage:` and empty lines - nothing else.  So every line of the text
    is the `Usage:` line, a caption, an entry line of a listed argument (`C18_listing`: exactly the visible
    ones), a description line belonging to the entry above it, or empty; in particular no line is of a kind the
    reader cannot classify (second conjunct), and a hidden argument cannot be printed on a line the theorems
    do not look at. -/
theorem C18_no_other_lines (h : Handler) (sw : List Switch) (ls : List Str)
    (hk : ∀ a ∈ h.args, KeyClean a.key) (hu : usageWith h sw = .ok ls) :
    (∃ n, ignoredLines ls = "Usage:".toList :: List.replicate n [])
    ∧ (∀ l ∈ ls, l = "Usage:".toList ∨ l = [] ∨ classify l ≠ .other) := by
  have h1 : ∃ n, ignoredLines ls = "Usage:".toList :: List.replicate n [] := by
    rw [usageWith_eq] at hu
    split at hu
    · simp at hu
    · split at hu
      · simp at hu
      · simp only [Res.ok.injEq] at hu
        subst hu
        obtain ⟨e, he, heq⟩ := ignored_usage_text _ _ _ _ _ hk
        exact ⟨e.length, by rw [heq, ← he.eq_replicate]⟩
  refine ⟨h1, ?_⟩
  intro l hl
  by_cases ho : classify l = .other
  · obtain ⟨n, hn⟩ := h1
    have hm : l ∈ ignoredLines ls := other_mem_ignored l ho ls false hl
    rw [hn] at hm
    rcases List.mem_cons.mp hm with h | h
    · exact Or.inl h
    · exact Or.inr (Or.inl (List.mem_replicate.mp h).2)
  · exact Or.inr (Or.inr ho)

/-- (the lines are the lines of the text) When no key contains a newline, no line of the usage text contains
    one: the byte text `unlines ls` (every line ended by `std::endl`) cut at its newlines is `ls` again - the
    "lines" of all C18 theorems are the lines of the text that is written. -/
theorem C18_lines_are_lines (h : Handler) (sw : List Switch) (ls : List Str)
    (hk : ∀ a ∈ h.args, KeyLine a.key) (hu : usageWith h sw = .ok ls) :
    (∀ l ∈ ls, ∀ c ∈ l, c ≠ '\n') ∧ splitNl (unlines ls) = ls := by
  have h1 : ∀ l ∈ ls, NoNl l := by
    rw [usageWith_eq] at hu
    split at hu
    · simp at hu
    · split at hu
      · simp at hu
      · simp only [Res.ok.injEq] at hu
        subst hu
        exact usage_text_noNl _ _ _ _ _ hk
  exact ⟨h1, splitNl_unlines ls h1⟩

/-- (reader and complement partition the lines) For EVERY list of lines (not only usage texts): the reader
    `parseUsage` / `captions` and its complement `ignoredLines` - two walks over the lines in
    Lemmas/UsageSpec.lean - account for every line exactly once, and what an entry owns does not depend on a walk:
    * the entries read are, in order, the entries that start at the entry lines of the text; each has the key of
      its line and the words of its line followed by those of exactly the run of continuation lines directly
      below it (`entryAt`, evaluated on the text from that line on);
    * number of lines = caption lines + entry lines + continuation lines owned by the entry above them
      (`absorbed`: for every entry line the length of the run directly below) + ignored lines;
    * the ignored lines are lines of the text, in text order, and none of them is a caption or an entry line.
    So a continuation line is either owned by the entry directly above (its words are in that entry,
    `C18_entry`) or reported by `ignoredLines` (`C18_no_other_lines`: empty for usage texts) - the two walks
    cannot drift apart without breaking the count for some text. -/
theorem C18_lines_partition (ls : List Str) :
    (parseUsage ls).map (fun e => (e.key, e.words)) = ((suffixes ls).filterMap entryAt).map (fun x => (x.1, x.2.1))
    ∧ ls.length = (captions ls).length + (parseUsage ls).length + absorbed ls + (ignoredLines ls).length
    ∧ (ignoredLines ls).Sublist ls
    ∧ (∀ l ∈ ignoredLines ls, classify l = .other ∨ classify l = .cont) := by
  refine ⟨parseFrom_entries none ls, ?_, ignoredFrom_sublist false ls, ignoredFrom_kind false ls⟩
  have := lines_partition_from none false ls
  simpa [parseUsage, ignoredLines] using this

/-! ### sub-group handlers -/

/-- (one set of settings for the whole tree) After the standard arguments `evs` - of the main handler and of
    sub-group handlers, in any order - the settings `u` are accepted (`evalEvs … = .ok u`) and
    * the usage of the main handler and the usage of every sub-group handler `k` (`-g -h`) are written under
      these same settings `u`: the sub-group's text is the text of a handler with the sub-group's arguments and
      line length and the settings `u`;
    * "print hidden" is what the last `--print-hidden` stored (the main handler's preset when there was none),
      "print deprecated" what the last `--print-deprecated` of any handler stored;
    * at most one contents argument (`--help-short` / `--help-long`, of whichever handler) was accepted, and it
      is the contents in force (a second one is rejected with `std::runtime_error`: `evalEvs` is not `.ok`).
    A display setting requested on the main handler at run time therefore reaches every sub-group listing.
    (The first two conjuncts unfold `Tree.usageMain` / `Tree.usageSub` - they say WHERE the settings are read;
    the content is in the last three and in `C18_subgroup_listing` … which are stated under these `u`.) -/
theorem C18_settings_shared (t : Tree) (evs : List Ev) (u : UsageParams)
    (he : evalEvs t evs t.main.params = .ok u) :
    t.usageMain evs = usage { t.main with params := u }
    ∧ (∀ k s, t.enter k = .ok s → t.usageSub k evs = usage (s.asHandler u))
    ∧ u.printHidden = lastD (evs.filterMap (Ev.hiddenValue t)) t.main.params.printHidden
    ∧ u.printDeprecated = lastD (evs.filterMap (Ev.deprValue t)) t.main.params.printDeprecated
    ∧ (t.main.params.contents = .all →
        evs.filterMap Ev.contentsValue = if u.contents = .all then [] else [u.contents]) := by
  obtain ⟨h1, h2, h3⟩ := evalEvs_spec t evs t.main.params u he
  refine ⟨?_, ?_, h1, h2, h3⟩
  · unfold Tree.usageMain; rw [he]
  · intro k s hs
    unfold Tree.usageSub; rw [hs]; simp only; rw [he]

/-- (the two readings of one command line agree) `usageWith h sw` takes any sequence of standard arguments,
    the tree model (`evalEvs`, as the library) refuses a second contents argument.  Whenever the tree model
    writes the usage of the main handler for the standard arguments `sw`, `usageWith` writes the same text: the
    main-handler theorems (`C18_listing` …) cover every command line the library accepts; the sequences
    `usageWith` accepts in addition (`--help-short --help-long`) do not occur. -/
theorem C18_switches_agree (t : Tree) (sw : List Switch) (ls : List Str)
    (hu : t.usageMain (sw.map Ev.main) = .ok ls) : usageWith t.main sw = .ok ls := by
  obtain ⟨u, he, hw⟩ := usageMain_ok t _ ls hu
  have hu' := evalEvs_main_eq t sw _ u he
  subst hu'
  exact hw

/-- (sub-group listing) The text a sub-group handler writes for `prog <evs> -g -h`, read back, is exactly: the
    arguments of THIS sub-group handler that are visible under the settings `u` the standard arguments `evs`
    left in the shared object - mandatory ones first under the mandatory caption, optional ones under the
    optional caption, in definition order, each with the key(s) the contents setting asks for and the words of
    description + notes.  Nothing else (no argument of the main handler or of another sub-group) is listed. -/
theorem C18_subgroup_listing (t : Tree) (k : Nat) (s : SubHandler) (evs : List Ev) (u : UsageParams) (ls : List Str)
    (hs : t.subs[k]? = some s) (hk : ∀ a ∈ s.args, KeyClean a.key)
    (he : evalEvs t evs t.main.params = .ok u) (hu : t.usageSub k evs = .ok ls) :
    parseUsage ls = expectedListing u s.args := by
  obtain ⟨s', u', hs', he', hw⟩ := usageSub_ok t k evs ls hu
  rw [hs] at hs'; rw [he] at he'
  simp only [Option.some.injEq] at hs'
  simp only [Res.ok.injEq] at he'
  subst hs' he'
  exact C18_listing (s.asHandler u) [] ls hk hw

/-- (sub-group membership, each exactly once) The keys listed by the sub-group handler are, as a multiset, the
    shown keys of exactly its arguments visible under the CURRENT shared settings - hidden ones only when
    print-hidden is in force, deprecated / replaced ones only with print-deprecated, under short-only /
    long-only only those with such a key -; every listed entry is the expected entry of a visible argument (so
    it stands under the caption of its kind) and every visible argument's entry is present. -/
theorem C18_subgroup_membership (t : Tree) (k : Nat) (s : SubHandler) (evs : List Ev) (u : UsageParams)
    (ls : List Str) (hs : t.subs[k]? = some s) (hk : ∀ a ∈ s.args, KeyClean a.key)
    (he : evalEvs t evs t.main.params = .ok u) (hu : t.usageSub k evs = .ok ls) :
    ((parseUsage ls).map Entry.key).Perm ((s.args.filter (visible u)).map (shownKey u))
    ∧ (∀ e ∈ parseUsage ls, ∃ a ∈ s.args, visible u a = true ∧ e = expectedEntry u a)
    ∧ (∀ a ∈ s.args, visible u a = true → expectedEntry u a ∈ parseUsage ls) := by
  obtain ⟨s', u', hs', he', hw⟩ := usageSub_ok t k evs ls hu
  rw [hs] at hs'; rw [he] at he'
  simp only [Option.some.injEq] at hs'
  simp only [Res.ok.injEq] at he'
  subst hs' he'
  exact C18_membership (s.asHandler u) [] ls hk hw

/-- (sub-group, short only / long only) When the contents in force is "short only" the sub-group listing shows
    exactly its visible arguments that have a short key, as `-c`; with "long only" exactly those with a long
    key, as `--word` - no matter which handler's `--help-short` / `--help-long` asked for it. -/
theorem C18_subgroup_contents (t : Tree) (k : Nat) (s : SubHandler) (evs : List Ev) (u : UsageParams)
    (ls : List Str) (hs : t.subs[k]? = some s) (hk : ∀ a ∈ s.args, KeyClean a.key)
    (he : evalEvs t evs t.main.params = .ok u) (hu : t.usageSub k evs = .ok ls) :
    (u.contents = .shortOnly →
      (∀ e ∈ parseUsage ls, ∃ a ∈ s.args, ∃ c, a.key.short = some c ∧ e.key = ['-', c])
      ∧ (∀ a ∈ s.args, ∀ c, a.key.short = some c → (u.printHidden || !a.hidden) = true →
          (u.printDeprecated || !a.deprecated) = true →
          ∃ e ∈ parseUsage ls, e.key = ['-', c] ∧ e.mandatory = some a.mandatory))
    ∧ (u.contents = .longOnly →
      (∀ e ∈ parseUsage ls, ∃ a ∈ s.args, a.key.long ≠ [] ∧ e.key = '-' :: '-' :: a.key.long)
      ∧ (∀ a ∈ s.args, a.key.long ≠ [] → (u.printHidden || !a.hidden) = true →
          (u.printDeprecated || !a.deprecated) = true →
          ∃ e ∈ parseUsage ls, e.key = '-' :: '-' :: a.key.long ∧ e.mandatory = some a.mandatory)) := by
  obtain ⟨s', u', hs', he', hw⟩ := usageSub_ok t k evs ls hu
  rw [hs] at hs'; rw [he] at he'
  simp only [Option.some.injEq] at hs'
  simp only [Res.ok.injEq] at he'
  subst hs' he'
  exact ⟨fun hc => C18_contents_short (s.asHandler u) [] ls hk hw hc,
         fun hc => C18_contents_long (s.asHandler u) [] ls hk hw hc⟩

/-- (sub-group captions) The caption lines of the sub-group listing: mandatory caption iff one of its mandatory
    arguments is visible under the shared settings, optional caption iff an optional one is, in this order. -/
theorem C18_subgroup_captions (t : Tree) (k : Nat) (s : SubHandler) (evs : List Ev) (u : UsageParams)
    (ls : List Str) (hs : t.subs[k]? = some s)
    (he : evalEvs t evs t.main.params = .ok u) (hu : t.usageSub k evs = .ok ls) :
    captions ls =
      (if (s.args.filter fun a => a.mandatory && visible u a) ≠ [] then [true] else [])
      ++ (if (s.args.filter fun a => !a.mandatory && visible u a) ≠ [] then [false] else []) := by
  obtain ⟨s', u', hs', he', hw⟩ := usageSub_ok t k evs ls hu
  rw [hs] at hs'; rw [he] at he'
  simp only [Option.some.injEq] at hs'
  simp only [Res.ok.injEq] at he'
  subst hs' he'
  exact C18_captions (s.asHandler u) [] ls hw

/-- (definitional lemma: the fields of `subGroupArg`, by `rfl`; the statement about the listing is
    `C18_subgroup_argument_listed`.)  In the usage of the main handler a sub-group argument is an
    argument like any other (`C18_listing` … `C18_entry` quantify over all of `h.args`): it is listed once,
    under the caption of its kind, with its keys and description, hidden / deprecated as it was defined - and
    it never shows a default value or a check unless `setPrintDefault( true)` was called on it (then the usage
    throws: `TypedArgBase::defaultValue()`), because `addArgument( key, subGroup, desc)` creates it without
    value, without default and with "print default" off. -/
theorem C18_subgroup_argument (key : Key) (desc : Str) (k : Nat) :
    (subGroupArg key desc k).subGroup = some k
    ∧ defaultNote (subGroupArg key desc k) = [] ∧ checkNote (subGroupArg key desc k) = []
    ∧ defaultMissing (subGroupArg key desc k) = false
    ∧ (∀ u, visible u (subGroupArg key desc k) =
        (match u.contents with | .all => true | .shortOnly => key.short.isSome | .longOnly => !key.long.isEmpty)) := by
  refine ⟨rfl, rfl, rfl, rfl, ?_⟩
  intro u
  cases hc : u.contents <;> simp [visible, subGroupArg, hc]

/-- (definitional lemma: unfolds `Tree.helpArgumentSub`; the statements about what is printed are
    `C18_subgroup_help_arg_outcomes` and, for the `g/key` form, `C18_help_arg_slash`.)
    `-g --help-arg <key>` ends in `helpArgument` of the sub-group handler on ITS arguments. -/
theorem C18_subgroup_help_arg (t : Tree) (k : Nat) (s : SubHandler) (raw : Str) (key : Key)
    (hs : t.enter k = .ok s) :
    t.helpArgumentSub k raw key = helpArgument (s.asHandler t.main.params) raw key := by
  unfold Tree.helpArgumentSub; rw [hs]

/-- (every tree that can be built) In a handler tree made with the definition operations - constructor, sub-group
    constructor, `addArgument` on the main handler (plain arguments, sub-group arguments for existing sub-group
    handlers) and on sub-group handlers, the line-length setters, each accepted or rejected -: the keys of the
    main handler's arguments (plain and sub-group) are pairwise different, every sub-group argument enters an
    existing sub-group handler, and every sub-group handler has pairwise different keys and plain arguments
    only. -/
theorem C18_tree_built (t : Tree) (hb : t.Built) :
    KeysDistinct t.main.args
    ∧ (∀ a ∈ t.main.args, ∀ k, a.subGroup = some k → k < t.subs.length)
    ∧ (∀ s ∈ t.subs, KeysDistinct s.args ∧ ∀ a ∈ s.args, a.subGroup = none) :=
  let w := built_wf t hb
  ⟨w.mainDistinct, w.subExists, fun s hs => ⟨w.subDistinct s hs, w.subPlain s hs⟩⟩

/-- (sub-group listing: nothing else is printed) `C18_no_other_lines` for the text `prog <evs> -g -h` of a
    sub-group handler. -/
theorem C18_subgroup_no_other_lines (t : Tree) (k : Nat) (s : SubHandler) (evs : List Ev) (ls : List Str)
    (hs : t.subs[k]? = some s) (hk : ∀ a ∈ s.args, KeyClean a.key) (hu : t.usageSub k evs = .ok ls) :
    (∃ n, ignoredLines ls = "Usage:".toList :: List.replicate n [])
    ∧ (∀ l ∈ ls, l = "Usage:".toList ∨ l = [] ∨ classify l ≠ .other) := by
  obtain ⟨s', u', hs', _, hw⟩ := usageSub_ok t k evs ls hu
  rw [hs] at hs'
  simp only [Option.some.injEq] at hs'
  subst hs'
  exact C18_no_other_lines (s.asHandler u') [] ls hk hw

/-- (the sub-group argument in the main listing) A sub-group argument defined on the main handler is listed in
    the main usage like any other argument: when it is visible under the settings in force, the text has its
    expected entry - its keys, the caption of its kind, the words of its description (and `[hidden]` /
    `[deprecated]` notes); it never carries a default-value or check note. -/
theorem C18_subgroup_argument_listed (t : Tree) (evs : List Ev) (u : UsageParams) (ls : List Str)
    (hk : ∀ a ∈ t.main.args, KeyClean a.key) (he : evalEvs t evs t.main.params = .ok u)
    (hu : t.usageMain evs = .ok ls) (a : Arg) (ha : a ∈ t.main.args) (k : Nat) (hg : a.subGroup = some k)
    (hv : visible u a = true) :
    expectedEntry u a ∈ parseUsage ls
    ∧ ((∃ key desc, a = subGroupArg key desc k) → defaultNote a = [] ∧ checkNote a = []) := by
  obtain ⟨u', he', hw⟩ := usageMain_ok t evs ls hu
  rw [he] at he'
  simp only [Res.ok.injEq] at he'
  subst he'
  refine ⟨(C18_membership { t.main with params := u } [] ls hk hw).2.2 a ha hv, ?_⟩
  rintro ⟨key, desc, rfl⟩
  exact ⟨rfl, rfl⟩

/-- (help for one argument of a sub-group, `-g --help-arg <key>`) In a tree that can be built, the request put
    to sub-group handler `k` through its sub-group argument has one of the three outcomes of `C18_help_arg`
    (`HelpOutcome`) on the arguments of THAT sub-group handler: the description of the argument of the sub-group
    meant by the key - the exactly named one when there is one -, or "unknown", or `std::runtime_error` for an
    ambiguous abbreviation.  (When the sub-group argument is deprecated, entering it throws: `t.enter k` is not
    `.ok`.) -/
theorem C18_subgroup_help_arg_outcomes (t : Tree) (hb : t.Built) (k : Nat) (s : SubHandler) (raw : Str) (key : Key)
    (hs : t.enter k = .ok s) :
    HelpOutcome s.args s.flags.noAbbr raw key (t.helpArgumentSub k raw key) := by
  rw [C18_subgroup_help_arg t k s raw key hs]
  have hmem : s ∈ t.subs := List.mem_of_getElem? (enter_ok t k s hs)
  exact C18_help_arg (s.asHandler t.main.params) raw key ((built_wf t hb).subDistinct s hmem)

/-- (help for one argument, the form `--help-arg <g>/<key>` on the main handler) In a tree that can be built,
    the request `g/rest` (typed as `full`; `rest` without a further `/`, `restKey` its key) does exactly one of
    three things:
    * some SUB-GROUP argument `a` of the main handler is meant by `g` - same key, or, abbreviations allowed, its
      long key starts with the long key given; the one with exactly the key `g` whenever there is one -: the
      sub-group handler `a` enters answers for `rest` with one of the three outcomes of `C18_help_arg` on ITS
      arguments (`HelpOutcome`); plain arguments of the main handler are never looked at for `g`, and the
      sub-group argument is not "used" (no refusal of a deprecated one);
    * no sub-group argument is meant by `g`: nothing on the output, `*** ERROR: Sub-group argument '<full>' is
      unknown!` on the error stream;
    * no sub-group argument has exactly the key `g` and two long keys of sub-group arguments start with it:
      `std::runtime_error`.
    OUTSIDE the statement (the keys `g`, `restKey` are parameters: cutting the string at the first `/` and the two
    `ArgumentKey( …)` constructions are not modelled, neither here nor in `C18_help_arg`): a request whose part
    before or behind the `/` is EMPTY or not a key - `--help-arg /b` throws `std::invalid_argument` from
    `ArgumentKey( "")` before anything is looked up; `--help-arg g/` throws the same from the sub-group handler's
    `helpArgument( "")` when `g` names a sub-group argument and prints the "unknown" line when it does not -, and
    a `rest` with a second `/` (the sub-group handler of this depth-2 tree answers "Sub-group argument … is
    unknown").  These are a fourth and fifth outcome of the real call; the differential run does not send such
    strings (generator and harness refuse them as `bad-op`). -/
theorem C18_help_arg_slash (t : Tree) (hb : t.Built) (full : Str) (g : Key) (rest : Str) (restKey : Key) :
    (∃ a ∈ subGroupArgs t.main.args, ∃ k s, a.subGroup = some k ∧ t.subs[k]? = some s
        ∧ keyMatches (!t.main.flags.noAbbr) a g = true
        ∧ ((∃ b ∈ subGroupArgs t.main.args, keyEq b.key g = true) → keyEq a.key g = true)
        ∧ HelpOutcome s.args s.flags.noAbbr rest restKey (t.helpArgumentSlash full g rest restKey))
    ∨ ((∀ a ∈ subGroupArgs t.main.args, keyMatches (!t.main.flags.noAbbr) a g = false)
        ∧ t.helpArgumentSlash full g rest restKey =
            .ok ([], ["*** ERROR: Sub-group argument '".toList ++ full ++ "' is unknown!".toList]))
    ∨ (t.helpArgumentSlash full g rest restKey = .throw .runtime_error ∧ t.main.flags.noAbbr = false
        ∧ (∀ a ∈ subGroupArgs t.main.args, keyEq a.key g = false)
        ∧ ∃ pre a post, subGroupArgs t.main.args = pre ++ a :: post ∧ keyStartsWith a.key g = true
            ∧ ∃ p ∈ pre, keyStartsWith p.key g = true) := by
  have w := built_wf t hb
  rcases helpArgumentSlash_spec t full g rest restKey w.subExists with
    ⟨a, ha, k, s, hk, hs, hm, hex, heq⟩ | h | h
  · left
    refine ⟨a, ha, k, s, hk, hs, hm, hex, ?_⟩
    rw [heq]
    exact C18_help_arg (s.asHandler t.main.params) rest restKey (w.subDistinct s (List.mem_of_getElem? hs))
  · exact Or.inr (Or.inl h)
  · exact Or.inr (Or.inr h)

/-! ### the hypotheses are satisfiable, the statements are not vacuous -/

/-- a handler (help argument, `--print-hidden`, a mandatory argument with a check, a hidden flag): its keys are
    clean and pairwise different, the usage is written, and reading it back gives the expected entries and
    captions - without and with `--print-hidden` -/
example :
    ∃ h : Handler, (∀ a ∈ h.args, KeyClean a.key) ∧ KeysDistinct h.args
      ∧ (okVal (usageWith h [])).map (fun ls => ((parseUsage ls).map Entry.key, captions ls))
          = some (["-a,--alpha".toList, "-h,--help".toList, "--print-hidden".toList], [true, false])
      ∧ (okVal (usageWith h [.printHidden])).map (fun ls => ((parseUsage ls).map Entry.key, captions ls))
          = some (["-a,--alpha".toList, "-h,--help".toList, "--print-hidden".toList, "-b".toList], [true, false])
      ∧ (okVal (usageWith h [.printHidden])).map (fun ls => (parseUsage ls).map Entry.words)
          = some [["the", "alpha", "value", "Check:", "Value", ">=", "3"].map String.toList,
                  ["Prints", "the", "program", "usage."].map String.toList,
                  ["Also", "print", "hidden", "arguments", "in", "the", "usage."].map String.toList,
                  ["secret", "[hidden]"].map String.toList] := by
  let f : Flags := { Flags.none with helpShort := true, helpLong := true, argHidden := true }
  let a1 : Arg := { key := ⟨some 'a', "alpha".toList⟩, desc := "the alpha value".toList, takesValue := true,
                    isFlag := false, defaultText := some "42".toList, printDefault := true }
  let a2 : Arg := { key := ⟨some 'b', []⟩, desc := "secret".toList, takesValue := false, isFlag := true,
                    defaultText := none, printDefault := false }
  refine ⟨(((Handler.new f).addArgument a1 [.mandatory, .check "lower" "Value >= 3".toList]).1.addArgument a2 [.hidden]).1,
    ?_, by decide, by decide, by decide, by decide⟩
  have hargs : ∀ a ∈ (((Handler.new f).addArgument a1 [.mandatory, .check "lower" "Value >= 3".toList]).1.addArgument
      a2 [.hidden]).1.args, keyCleanB a.key = true := by decide
  exact fun a ha => keyClean_of_bool _ (hargs a ha)

/-- the exception case of `C18_usage_total` exists: a boolean flag that is told to print its default -/
example :
    thrown (usageWith ((Handler.new { Flags.none with helpShort := true }).addArgument
        { key := ⟨some 'v', []⟩, desc := [], takesValue := false, isFlag := true, defaultText := none, printDefault := false }
        [.printDefault true]).1 []) = some .runtime_error := by
  decide

/-- the three outcomes of `C18_help_arg` all occur (abbreviation `inp`, unknown `zz`, ambiguous `in`) -/
example :
    let mk (w : String) (d : String) : Arg :=
      { key := ⟨none, w.toList⟩, desc := d.toList, takesValue := true, isFlag := false, defaultText := some [],
        printDefault := true }
    let h := (((Handler.new { Flags.none with helpArg := true }).addArgument (mk "input" "the input") []).1.addArgument
                (mk "index" "the index") []).1
    KeysDistinct h.args
    ∧ okVal (helpArgument h "inp".toList ⟨none, "inp".toList⟩)
        = some (["Argument '--inp', usage:".toList, "   the input".toList], [])
    ∧ okVal (helpArgument h "zz".toList ⟨none, "zz".toList⟩) = some ([], ["*** ERROR: Argument 'zz' is unknown!".toList])
    ∧ thrown (helpArgument h "in".toList ⟨none, "in".toList⟩) = some .runtime_error := by
  decide

/-- a tree: main handler with `-h`, `--help-short`, `--print-hidden`, `--print-deprecated` and the sub-group
    argument `-g,--group`; the sub-group handler (own `-h`, own `--help-long`) has a visible argument
    `-c,--cee`, a hidden flag `-b` and a deprecated `--old`.  The hypotheses of the `C18_subgroup_*` theorems
    hold, and the sub-group listing follows the settings requested on the MAIN handler at run time:
    nothing requested - `-h`, `--help-long`, `-c,--cee`; `--print-hidden -g -h` - plus `-b`;
    `--print-deprecated -g -h` - plus `--old`; `--help-short -g -h` - `-h`, `-c`;
    `--help-short -g --help-long -h` is rejected; and the main listing shows the sub-group argument once. -/
example :
    ∃ t : Tree, ∃ s, t.enter 0 = .ok s ∧ t.subs[0]? = some s ∧ (∀ a ∈ s.args, KeyClean a.key)
      ∧ (okVal (t.usageSub 0 [])).map (fun ls => ((parseUsage ls).map Entry.key, captions ls))
          = some (["-h".toList, "--help-long".toList, "-c,--cee".toList], [false])
      ∧ (okVal (t.usageSub 0 [.main .printHidden])).map (fun ls => (parseUsage ls).map Entry.key)
          = some ["-h".toList, "--help-long".toList, "-c,--cee".toList, "-b".toList]
      ∧ (okVal (t.usageSub 0 [.main .printDeprecated])).map (fun ls => (parseUsage ls).map Entry.key)
          = some ["-h".toList, "--help-long".toList, "-c,--cee".toList, "--old".toList]
      ∧ (okVal (t.usageSub 0 [.main .helpShort])).map (fun ls => (parseUsage ls).map Entry.key)
          = some ["-h".toList, "-c".toList]
      ∧ (okVal (t.usageSub 0 [.main .printHidden, .sub 0 .helpLong])).map (fun ls => (parseUsage ls).map Entry.key)
          = some ["--help-long".toList, "--cee".toList]
      ∧ thrown (t.usageSub 0 [.main .helpShort, .sub 0 .helpLong]) = some .runtime_error
      ∧ (okVal (evalEvs t [.main .printHidden, .sub 0 .helpLong] t.main.params))
          = some { contents := .longOnly, printHidden := true, printDeprecated := false }
      ∧ (okVal (t.usageMain [])).map (fun ls => (parseUsage ls).map Entry.key)
          = some ["-h".toList, "--print-deprecated".toList, "--help-short".toList, "--print-hidden".toList,
                  "-g,--group".toList] := by
  let f : Flags := { Flags.none with helpShort := true, argHidden := true, argDeprecated := true, usageShort := true }
  let sf : Flags := { Flags.none with helpShort := true, usageLong := true }
  let a1 : Arg := { key := ⟨some 'c', "cee".toList⟩, desc := "the c".toList, takesValue := true, isFlag := false,
                    defaultText := some "0".toList, printDefault := true }
  let a2 : Arg := { key := ⟨some 'b', []⟩, desc := "secret".toList, takesValue := false, isFlag := true,
                    defaultText := none, printDefault := false, hidden := true }
  let a3 : Arg := { key := ⟨none, "old".toList⟩, desc := "old one".toList, takesValue := true, isFlag := false,
                    defaultText := some "0".toList, printDefault := false, deprecated := true }
  let t0 := (Tree.new f).newSub sf
  let t : Tree := { (t0.addArgument (subGroupArg ⟨some 'g', "group".toList⟩ "the group".toList 0) []).1 with
                    subs := [{ flags := sf, args := subStdArgs sf ++ [a1, a2, a3], deprValue := true }] }
  refine ⟨t, { flags := sf, args := subStdArgs sf ++ [a1, a2, a3], deprValue := true }, rfl, rfl, ?_,
    by decide, by decide, by decide, by decide, by decide, by decide, by decide, by decide⟩
  have hargs : ∀ a ∈ subStdArgs sf ++ [a1, a2, a3], keyCleanB a.key = true := by decide
  exact fun a ha => keyClean_of_bool _ (hargs a ha)

/-- `--help-arg group` on a handler with the plain argument `--group-x` and the sub-group argument `--group`
    prints the description of the sub-group argument (exact key), `--help-arg gro` that of `--group-x`
    (abbreviation: only the plain arguments are meant first) -/
example :
    let h := (((Handler.new { Flags.none with helpArg := true }).addArgument
                { key := ⟨none, "group-x".toList⟩, desc := "x flag".toList, takesValue := false, isFlag := true,
                  defaultText := none, printDefault := false } []).1.addArgument
                (subGroupArg ⟨some 'g', "group".toList⟩ "the group".toList 0) []).1
    KeysDistinct h.args
    ∧ okVal (helpArgument h "group".toList ⟨none, "group".toList⟩)
        = some (["Argument '--group', usage:".toList, "   the group".toList], [])
    ∧ okVal (helpArgument h "gro".toList ⟨none, "gro".toList⟩)
        = some (["Argument '--gro', usage:".toList, "   x flag".toList], []) := by
  decide

/-- `C18_no_other_lines` / `C18_lines_are_lines` on a concrete handler (mandatory argument with a check, hidden
    flag, `--print-hidden` given): the reader leaves out `Usage:`, the empty line before the optional caption
    and the empty line at the end; and `ignoredLines` is not trivially small - a line with 0-2 leading blanks
    (the auditor's `-x secret`), and a continuation line that follows no entry, are reported by it -/
example :
    ∃ h : Handler, h.Built ∧ (∀ a ∈ h.args, KeyClean a.key) ∧ (∀ a ∈ h.args, KeyLine a.key)
      ∧ (okVal (usageWith h [.printHidden])).map ignoredLines = some ["Usage:".toList, [], []]
      ∧ (okVal (usageWith h [.printHidden])).map (fun ls => splitNl (unlines ls) == ls) = some true
      ∧ ignoredLines ["Usage:".toList, captionOptional, "   -a  one".toList, "       more".toList, "-x secret".toList,
            "  -y secret".toList, "       orphan".toList, []]
          = ["Usage:".toList, "-x secret".toList, "  -y secret".toList, "       orphan".toList, []] := by
  let f : Flags := { Flags.none with helpShort := true, helpLong := true, argHidden := true }
  let a1 : Arg := { key := ⟨some 'a', "alpha".toList⟩, desc := "the alpha value".toList, takesValue := true,
                    isFlag := false, defaultText := some "42".toList, printDefault := true }
  let a2 : Arg := { key := ⟨some 'b', []⟩, desc := "secret".toList, takesValue := false, isFlag := true,
                    defaultText := none, printDefault := false }
  refine ⟨(((Handler.new f).addArgument a1 [.mandatory, .check "lower" "Value >= 3".toList]).1.addArgument a2 [.hidden]).1,
    .add _ _ _ (.add _ _ _ (.new f)), ?_, ?_, by decide, by decide, by decide⟩
  · have hargs : ∀ a ∈ (((Handler.new f).addArgument a1 [.mandatory, .check "lower" "Value >= 3".toList]).1.addArgument
        a2 [.hidden]).1.args, keyCleanB a.key = true := by decide
    exact fun a ha => keyClean_of_bool _ (hargs a ha)
  · have hargs : ∀ a ∈ (((Handler.new f).addArgument a1 [.mandatory, .check "lower" "Value >= 3".toList]).1.addArgument
        a2 [.hidden]).1.args, (a.key.short != some '\n' && !a.key.long.contains '\n') = true := by decide
    intro a ha
    have hb := hargs a ha
    simp only [Bool.and_eq_true, bne_iff_ne, ne_eq, Bool.not_eq_eq_eq_not, Bool.not_true] at hb
    refine ⟨fun c hc heq => hb.1 (by rw [hc, heq]), fun c hc heq => ?_⟩
    subst heq
    have : a.key.long.contains '\n' = true := List.contains_iff_mem.mpr hc
    rw [hb.2] at this; cases this

/-- the repaired defect 2dd61bc: a plain argument with the key of a sub-group argument is refused (before: both
    were accepted and `KeysDistinct` failed for a handler built through the API) -/
example :
    let h := ((Handler.new { Flags.none with helpArg := true }).addArgument
                (subGroupArg ⟨some 'g', []⟩ "the group".toList 0) []).1
    (h.addArgument { key := ⟨some 'g', []⟩, desc := "plain g".toList, takesValue := true, isFlag := false,
                     defaultText := some "0".toList, printDefault := true } []).2 = some .invalid_argument := by
  decide

/-- a tree that can be built (main handler with `--help-arg`; sub-group handler 0 with `-b,--beta`, entered by
    `-g,--group`; sub-group handler 1 entered by `--grape`), and all three outcomes of `C18_help_arg_slash`:
    `group/b` and the abbreviation `gro/beta` print the description of `-b,--beta` of sub-group 0, `g/zz` is
    answered by the sub-group handler ("Argument 'zz' is unknown"), `zz/b` is an unknown sub-group argument,
    `gr/b` is ambiguous; `-g --help-arg b` gives the same description -/
example :
    ∃ t : Tree, t.Built
      ∧ okVal (t.helpArgumentSlash "group/b".toList ⟨none, "group".toList⟩ "b".toList ⟨some 'b', []⟩)
          = some (["Argument '-b', usage:".toList, "   sub beta".toList], [])
      ∧ okVal (t.helpArgumentSlash "gro/beta".toList ⟨none, "gro".toList⟩ "beta".toList ⟨none, "beta".toList⟩)
          = some (["Argument '--beta', usage:".toList, "   sub beta".toList], [])
      ∧ okVal (t.helpArgumentSlash "g/zz".toList ⟨some 'g', []⟩ "zz".toList ⟨none, "zz".toList⟩)
          = some ([], ["*** ERROR: Argument 'zz' is unknown!".toList])
      ∧ okVal (t.helpArgumentSlash "zz/b".toList ⟨none, "zz".toList⟩ "b".toList ⟨some 'b', []⟩)
          = some ([], ["*** ERROR: Sub-group argument 'zz/b' is unknown!".toList])
      ∧ thrown (t.helpArgumentSlash "gr/b".toList ⟨none, "gr".toList⟩ "b".toList ⟨some 'b', []⟩) = some .runtime_error
      ∧ okVal (t.helpArgumentSub 0 "b".toList ⟨some 'b', []⟩)
          = some (["Argument '-b', usage:".toList, "   sub beta".toList], []) := by
  let f : Flags := { Flags.none with helpShort := true, helpArg := true }
  let sf : Flags := { Flags.none with helpShort := true, helpArg := true }
  let ab : Arg := { key := ⟨some 'b', "beta".toList⟩, desc := "sub beta".toList, takesValue := true, isFlag := false,
                    defaultText := some "0".toList, printDefault := true }
  let t1 := (Tree.new f).newSub sf
  let t2 : Tree := { t1 with subs := setAt t1.subs 0 { flags := sf, args := subStdArgs sf ++ [ab], deprValue := true } }
  let t3 := (t2.addArgument (subGroupArg ⟨some 'g', "group".toList⟩ "the group".toList 0) []).1
  let t4 := t3.newSub Flags.none
  let t5 := (t4.addArgument (subGroupArg ⟨none, "grape".toList⟩ "second".toList 1) []).1
  have b1 : t1.Built := .newSub _ _ (.new f)
  have b2 : t2.Built := .subAdd t1 t2 0 ab [] none b1 rfl rfl
  have b3 : t3.Built := .group t2 _ _ 0 [] b2 (by decide)
  have b4 : t4.Built := .newSub _ _ b3
  have b5 : t5.Built := .group t4 _ _ 1 [] b4 (by decide)
  exact ⟨t5, b5, by decide, by decide, by decide, by decide, by decide, by decide⟩

/-- `C18_switch_effect` / `C18_print_hidden_lists_hidden` applied to a handler WITH arguments of its own (a
    mandatory one with a check, a hidden flag `-b`), built through the definition operations: all hypotheses
    hold, the text of `--print-hidden -h` is written and - through the theorem - holds the entry of the hidden
    `-b`; and the settings in force are the closed form although two arguments were added after construction -/
example :
    ∃ h : Handler, h.Built ∧ h.flags.usageHidden = false ∧ (h.args.filter (·.hidden)).length = 1
      ∧ (∃ ls, usageWith h [.printHidden] = .ok ls
          ∧ ∀ a ∈ h.args, a.deprecated = false →
              expectedEntry ([Switch.printHidden].foldl (Switch.apply h.flags) h.params) a ∈ parseUsage ls)
      ∧ (∃ ls, usageWith h [] = .ok ls
          ∧ ∀ e ∈ parseUsage ls, ∃ b ∈ h.args, b.hidden = false
              ∧ e = expectedEntry (([] : List Switch).foldl (Switch.apply h.flags) h.params) b)
      ∧ ([Switch.printHidden, .helpShort].foldl (Switch.apply h.flags) h.params)
          = { contents := .shortOnly, printHidden := true, printDeprecated := false } := by
  let f : Flags := { Flags.none with helpShort := true, helpLong := true, argHidden := true }
  let a1 : Arg := { key := ⟨some 'a', "alpha".toList⟩, desc := "the alpha value".toList, takesValue := true,
                    isFlag := false, defaultText := some "42".toList, printDefault := true }
  let a2 : Arg := { key := ⟨some 'b', []⟩, desc := "secret".toList, takesValue := false, isFlag := true,
                    defaultText := none, printDefault := false }
  let h : Handler := (((Handler.new f).addArgument a1 [.mandatory, .check "lower" "Value >= 3".toList]).1.addArgument a2 [.hidden]).1
  have hb : h.Built := .add _ _ _ (.add _ _ _ (.new f))
  have hk : ∀ a ∈ h.args, KeyClean a.key := by
    have hargs : ∀ a ∈ h.args, keyCleanB a.key = true := by decide
    exact fun a ha => keyClean_of_bool _ (hargs a ha)
  have hok : ∀ {α : Type} (r : Res α), (okVal r).isSome = true → ∃ x, r = .ok x := by
    intro α r hr; cases r <;> simp [okVal] at hr ⊢
  obtain ⟨ls1, h1⟩ := hok (usageWith h [.printHidden]) (by decide)
  obtain ⟨ls0, h0⟩ := hok (usageWith h []) (by decide)
  refine ⟨h, hb, rfl, by decide, ⟨ls1, h1, ?_⟩, ⟨ls0, h0, ?_⟩, ?_⟩
  · exact (C18_print_hidden_lists_hidden h hb [.printHidden] ls1 hk h1 rfl).1 (by decide) (by decide)
  · exact (C18_print_hidden_lists_hidden h hb [] ls0 hk h0 rfl).2 (by decide)
  · obtain ⟨e1, e2, e3⟩ := C18_switch_effect h hb [.printHidden, .helpShort]
    generalize [Switch.printHidden, .helpShort].foldl (Switch.apply h.flags) h.params = u at *
    cases u
    simp only at e1 e2 e3
    subst e1 e2 e3
    decide

/-- `C18_lines_partition` on a text with every kind of line: 8 lines = 1 caption + 1 entry + 1 continuation line
    owned by the entry + 5 ignored (`Usage:`, two lines of no kind, an orphan continuation line, an empty line);
    the entry owns the words of its line and of the line below -/
example :
    let ls := ["Usage:".toList, captionOptional, "   -a  one".toList, "       more".toList, "-x secret".toList,
               "  -y secret".toList, "       orphan".toList, []]
    (captions ls).length = 1 ∧ (parseUsage ls).length = 1 ∧ absorbed ls = 1 ∧ (ignoredLines ls).length = 5
    ∧ ((suffixes ls).filterMap entryAt).map (fun x => (x.1, x.2.1)) = [("-a".toList, ["one".toList, "more".toList])] := by
  decide

end CelmaVerif.Props.C18
