import CelmaVerif.Lemmas.TextBlockLines
import CelmaVerif.Lemmas.TextBlockWrap
/-
  C17 — text-block formatting preserves the words and respects indentation and width.
  Property theorems only; helper lemmas are in Lemmas/TextBlock*.lean.

  `format c txt` is the output of `TextBlock( c.indent, c.width, c.first).format( os, txt)` as the
  list of its lines, `render` joins them with the `'\n'` written by `std::endl` (the exact stream
  content), `words` are the maximal runs of characters other than blank and newline, `nn` is the
  forced-break token.  All theorems hold for every text (any characters, any runs of blanks and
  newlines, dash-leading lines, `nn` anywhere), every indentation, every width and both
  first-line modes.
-/
namespace CelmaVerif.Props.C17
open CelmaVerif CelmaVerif.TextBlock

/-- The model's lines are the lines of the written text: no line contains a newline. -/
theorem C17_lines (c : Cfg) (txt : Str) : ∀ l ∈ format c txt, ∀ x ∈ l, x ≠ '\n' := by
  intro l hl x hx hx'
  have := format_clean c txt l hl x hx
  rw [hx'] at this
  exact absurd this (by decide)

/-! ### what "word" means (specification side) -/

/-- The four equations that define `words`, stated without the model's tokeniser: the empty text
    has no words; a leading blank or newline is skipped; a non-empty run `w` of characters other
    than blank and newline that is followed by a blank or newline is the first word and the rest of
    the words are those of the text behind that separator; such a run that ends the text is the last
    word.  (Every text has exactly one of these four shapes, so the equations determine `words`:
    `C17_words_unique`.) -/
theorem C17_words_means :
    words [] = [] ∧
    (∀ c s, (c = ' ' ∨ c = '\n') → words (c :: s) = words s) ∧
    (∀ w c s, w ≠ [] → (∀ x ∈ w, x ≠ ' ' ∧ x ≠ '\n') → (c = ' ' ∨ c = '\n') →
        words (w ++ c :: s) = w :: words s) ∧
    (∀ w, w ≠ [] → (∀ x ∈ w, x ≠ ' ' ∧ x ≠ '\n') → words w = [w]) := by
  have hsep : ∀ c, (c = ' ' ∨ c = '\n') → isSep c = true := by
    intro c h; rcases h with h | h <;> subst h <;> rfl
  have hclean : ∀ w : Str, (∀ x ∈ w, x ≠ ' ' ∧ x ≠ '\n') → Clean isSep w := by
    intro w h x hx
    have := h x hx
    simp only [isSep, Bool.or_eq_false_iff, beq_eq_false_iff_ne]
    exact ⟨this.2, this.1⟩
  refine ⟨rfl, fun c s hc => tokP_cons_sep (hsep c hc) s, ?_, fun w hne hw => tokP_clean (hclean w hw) hne⟩
  intro w c s hne hw hc
  unfold words
  rw [tokP_append_sep w (hsep c hc) s, tokP_clean (hclean w hw) hne]
  rfl

/-- `words` is the only function satisfying the four equations of `C17_words_means`: the
    specification of "word" used by `C17_words` does not depend on how the model tokenises. -/
theorem C17_words_unique (f : Str → List Str)
    (h1 : f [] = [])
    (h2 : ∀ c s, (c = ' ' ∨ c = '\n') → f (c :: s) = f s)
    (h3 : ∀ w c s, w ≠ [] → (∀ x ∈ w, x ≠ ' ' ∧ x ≠ '\n') → (c = ' ' ∨ c = '\n') → f (w ++ c :: s) = w :: f s)
    (h4 : ∀ w, w ≠ [] → (∀ x ∈ w, x ≠ ' ' ∧ x ≠ '\n') → f w = [w]) :
    ∀ s, f s = words s := by
  obtain ⟨w1, w2, w3, w4⟩ := C17_words_means
  have key : ∀ n (s : Str), s.length ≤ n → f s = words s := by
    intro n
    induction n with
    | zero =>
      intro s hs
      have : s = [] := List.eq_nil_of_length_eq_zero (by omega)
      subst this; rw [h1, w1]
    | succ n ih =>
      intro s hs
      cases s with
      | nil => rw [h1, w1]
      | cons c cs =>
        by_cases hc : c = ' ' ∨ c = '\n'
        · rw [h2 c cs hc, w2 c cs hc]
          exact ih cs (by simp at hs; omega)
        · -- the maximal run of non-separators at the front
          let q : Char → Bool := fun x => !(isSep x)
          have hq : ∀ x, q x = true → x ≠ ' ' ∧ x ≠ '\n' := by
            intro x hx
            simp only [q, isSep, Bool.not_eq_true', Bool.or_eq_false_iff, beq_eq_false_iff_ne] at hx
            exact ⟨hx.2, hx.1⟩
          have hqc : q c = true := by
            simp only [q, isSep, Bool.not_eq_true', Bool.or_eq_false_iff, beq_eq_false_iff_ne]
            exact ⟨fun h => hc (Or.inr h), fun h => hc (Or.inl h)⟩
          have hsplit : c :: cs = (c :: cs).takeWhile q ++ (c :: cs).dropWhile q :=
            (List.takeWhile_append_dropWhile).symm
          have hwne : (c :: cs).takeWhile q ≠ [] := by
            rw [List.takeWhile_cons, if_pos hqc]; exact List.cons_ne_nil _ _
          have hwclean : ∀ x ∈ (c :: cs).takeWhile q, x ≠ ' ' ∧ x ≠ '\n' :=
            fun x hx => hq x (List.all_eq_true.mp (List.all_takeWhile (p := q) (l := c :: cs)) x hx)
          cases hd : (c :: cs).dropWhile q with
          | nil =>
            rw [hd, List.append_nil] at hsplit
            rw [hsplit, h4 _ hwne hwclean, w4 _ hwne hwclean]
          | cons d rest =>
            have hdsep : d = ' ' ∨ d = '\n' := by
              have hnot : q d = false := by
                have := List.head_dropWhile_not q (l := c :: cs) (by rw [hd]; exact List.cons_ne_nil _ _)
                simpa only [hd, List.head_cons] using this
              simp only [q, isSep, Bool.not_eq_false', Bool.or_eq_true, beq_iff_eq] at hnot
              exact hnot.symm
            rw [hd] at hsplit
            rw [hsplit, h3 _ d rest hwne hwclean hdsep, w3 _ d rest hwne hwclean hdsep]
            congr 1
            apply ih
            have hl := congrArg List.length hsplit
            simp only [List.length_append, List.length_cons] at hl hs
            have : 0 < ((c :: cs).takeWhile q).length := List.length_pos_iff.mpr hwne
            omega
  intro s
  exact key s.length s (Nat.le_refl _)

/-- (1) The words of the written text, in order, are exactly the words of the input without the
    `nn` tokens: no word is lost, duplicated, moved or split, and `nn` is consumed. -/
theorem C17_words (c : Cfg) (txt : Str) :
    words (render (format c txt)) = (words txt).filter (fun w => decide (w ≠ nn)) := by
  rw [words_render _ (format_clean c txt)]
  unfold format
  rw [fmtParas_words c _ _ (start_blanks c), words_eq_nested]

/-- (1, per line) the same statement on the list of lines -/
theorem C17_words_lines (c : Cfg) (txt : Str) :
    (format c txt).flatMap words = (words txt).filter (fun w => decide (w ≠ nn)) := by
  rw [← C17_words c txt, words_render _ (format_clean c txt)]
  exact flatMap_congr_mem _ (fun l hl => words_line l (format_clean c txt l hl))

/-- (2) Every output line but the first starts with `indent` blanks.  The first line starts with
    them when the first-line indentation is requested; when it is not, the first line is empty or
    starts with the first character of a word (no blank). -/
theorem C17_indent (c : Cfg) (txt : Str) (l0 : Str) (rest : List Str) (h : format c txt = l0 :: rest) :
    (∀ l ∈ rest, c.ind <+: l) ∧
    (c.first = true → c.ind <+: l0) ∧
    (c.first = false → l0 = [] ∨ ∃ x t, l0 = x :: t ∧ x ≠ ' ') := by
  unfold format at h
  generalize tokP isNl txt = ps at h
  cases ps with
  | nil => simp [fmtParas] at h
  | cons p ps =>
    rw [fmtParas] at h
    obtain ⟨t, r1, h1⟩ := fmtWords_head c (tokP isSp p) (if c.first then c.ind else []) c.indent false
    have h1' : formatLine c (if c.first then c.ind else []) p = ((if c.first then c.ind else []) ++ t) :: r1 := h1
    rw [h1', List.cons_append, List.cons.injEq] at h
    obtain ⟨hl0, hrest⟩ := h
    refine ⟨?_, ?_, ?_⟩
    · intro l hl
      rw [← hrest] at hl
      rcases List.mem_append.mp hl with hl | hl
      · exact formatLine_tail_indented c _ p _ r1 h1' l hl
      · exact fmtParas_indented c ps l hl
    · intro hf
      rw [← hl0, hf]
      exact List.prefix_append _ _
    · intro hf
      rw [hf] at h1' hl0
      obtain ⟨l, r, h2, h3⟩ := fmtWords_head_unindented c (tokP isSp p)
        (fun w hw => ⟨(tokP_spec isSp p w hw).1, (tokP_spec isSp p w hw).2.1⟩) false
      have h2' : formatLine c [] p = l :: r := h2
      simp only [Bool.false_eq_true, if_false] at h1'
      rw [h1', List.cons.injEq] at h2'
      simp only [Bool.false_eq_true, if_false] at hl0
      rw [← hl0, h2'.1]
      exact h3

/-- (3) A newline of the input is a line boundary of the output: the lines split into those
    holding exactly the words before the newline and those holding exactly the words after it,
    so no output line carries text from both sides and the first word after an explicit newline
    starts a new line. -/
theorem C17_newlines (c : Cfg) (pre post : Str) :
    ∃ l1 l2, format c (pre ++ '\n' :: post) = l1 ++ l2 ∧
      words (render l1) = (words pre).filter (fun w => decide (w ≠ nn)) ∧
      words (render l2) = (words post).filter (fun w => decide (w ≠ nn)) := by
  unfold format
  rw [tokP_append_sep pre (by rfl : isNl '\n' = true), fmtParas_append]
  refine ⟨_, _, rfl, ?_, ?_⟩
  · rw [words_render _ (fmtParas_clean c _ (paras_clean pre) _ (start_blanks c)),
      fmtParas_words c _ _ (start_blanks c), words_eq_nested]
  · have hb : Blanks (if tokP isNl pre = [] then (if c.first then c.ind else []) else c.ind) := by
      split
      · exact start_blanks c
      · exact blanks_ind c
    rw [words_render _ (fmtParas_clean c _ (paras_clean post) _ hb), fmtParas_words c _ _ hb, words_eq_nested]

/-- (3, compositional form) Formatting a text with a newline is formatting the two parts one
    after the other; the second part starts on a fresh, indented line as soon as the first part
    has written anything. -/
theorem C17_newlines_compose (c : Cfg) (pre post : Str) :
    format c (pre ++ '\n' :: post) =
      format c pre ++ format { c with first := c.first || !(tokP isNl pre).isEmpty } post := by
  unfold format
  rw [tokP_append_sep pre (by rfl : isNl '\n' = true), fmtParas_append]
  have hfp : ∀ (a b : Cfg), a.indent = b.indent → a.width = b.width → ∀ ps start, fmtParas a start ps = fmtParas b start ps := by
    intro a b h1 h2 ps start
    have : ∀ ws cur len dash, fmtWords a ws cur len dash = fmtWords b ws cur len dash := by
      intro ws
      induction ws with
      | nil => intro cur len dash; rfl
      | cons w ws ih =>
        intro cur len dash
        unfold fmtWords
        simp only [Cfg.ind, h1, h2, ih]
    induction ps generalizing start with
    | nil => rfl
    | cons p ps ih =>
      simp only [fmtParas, formatLine, this, ih, Cfg.ind, h1]
  congr 1
  rw [hfp { c with first := c.first || !(tokP isNl pre).isEmpty } c rfl rfl]
  cases h : tokP isNl pre with
  | nil => simp [Cfg.ind]
  | cons p ps => simp [Cfg.ind]

/-- (4) A line longer than the width never holds more than one word — for every indentation and
    width, also the degenerate `width ≤ indent`. -/
theorem C17_width (c : Cfg) (txt : Str) :
    ∀ l ∈ format c txt, l.length ≤ c.width ∨ (words l).length ≤ 1 := by
  intro l hl
  have hcl := format_clean c txt l hl
  rw [words_line l hcl]
  exact fmtParas_forall c _ _ (fun p _ start hs => formatLine_width_weak c start p hs) _ (start_cases c) l hl

/-- (4, exact) For every indentation and width: a line longer than the width is either the
    indentation (plus the two blanks of a list continuation line) followed by one word and nothing
    else — a single word that does not fit behind the indentation of its line — or a word-less line
    made of the indentation alone (at most `indent + 1` blanks), which can exceed the width only in
    the degenerate configurations `width ≤ indent`. -/
theorem C17_width_exact (c : Cfg) (txt : Str) :
    ∀ l ∈ format c txt, l.length ≤ c.width ∨
      (∃ w, (w ≠ [] ∧ ∀ x ∈ w, x ≠ ' ' ∧ x ≠ '\n') ∧ (l = c.ind ++ w ∨ l = c.ind ++ ' ' :: ' ' :: w)) ∨
      ((∀ x ∈ l, x = ' ') ∧ l.length ≤ c.indent + 1) := by
  intro l hl
  have := fmtParas_forall c (fun l => l.length ≤ c.width ∨ SingleWordLine c l ∨ BlankLine c l) (tokP isNl txt)
    (fun p hp start hs => formatLine_width_exact c start p hs (paras_clean txt p hp)) _ (start_cases c) l hl
  rcases this with h | ⟨w, ⟨⟨hne, hsp⟩, hnl⟩, hw⟩ | h
  · exact Or.inl h
  · refine Or.inr (Or.inl ⟨w, ⟨hne, ?_⟩, hw⟩)
    intro x hx
    constructor
    · intro h; have := hsp x hx; rw [h] at this; exact absurd this (by decide)
    · intro h; have := hnl x hx; rw [h] at this; exact absurd this (by decide)
  · exact Or.inr (Or.inr h)

/-- (4, sharp) When the indentation leaves room (`indent < width`), a line longer than the width
    is exactly the indentation (plus the two blanks of a list continuation line) followed by one
    word and nothing else: the word alone does not fit behind the indentation of its line. -/
theorem C17_width_sharp (c : Cfg) (hc : c.indent < c.width) (txt : Str) :
    ∀ l ∈ format c txt, l.length ≤ c.width ∨
      ∃ w, (w ≠ [] ∧ ∀ x ∈ w, x ≠ ' ' ∧ x ≠ '\n') ∧ (l = c.ind ++ w ∨ l = c.ind ++ ' ' :: ' ' :: w) := by
  intro l hl
  rcases C17_width_exact c txt l hl with h | h | h
  · exact Or.inl h
  · exact Or.inr h
  · exact Or.inl (by omega)

/-- The `size_t` arithmetic of `formatLine()` cannot wrap around for any text that fits into the
    address space: with every addition reduced modulo the word size `W` the loop writes the same
    lines, provided `indent + 2 + (length of the line) + 2 < W`. -/
theorem C17_no_wraparound (W : Nat) (c : Cfg) (cur line : Str) (h : c.indent + 2 + line.length + 2 < W) :
    fmtWordsW W c (tokP isSp line) cur c.indent false = formatLine c cur line :=
  formatLine_wrap W c cur line h

/-! ### the statements are not vacuous -/

/-- a list item: continuation lines get two more blanks, `nn` forces a break and disappears,
    a newline starts a fresh paragraph at the indentation -/
example : format ⟨3, 10, true⟩ "- ab nn cd ef gh ij\nk".toList =
    ["   - ab".toList, "     cd ef".toList, "     gh ij".toList, "   k".toList] := by decide

/-- an over-long line exists and holds one word; the first line is not indented on request -/
example : format ⟨2, 6, false⟩ "ab cdefgh i".toList = ["ab".toList, "  cdefgh".toList, "  i".toList] := by decide

/-- a word exactly as long as the room left goes to the next line (the blank is always counted) -/
example : format ⟨0, 5, true⟩ "abcde".toList = [[], "abcde".toList] := by decide

/-- runs of blanks and newlines collapse, blank paragraphs write an indented empty line -/
example : format ⟨1, 9, true⟩ "a  b\n\n \nc\n".toList = [" a b".toList, " ".toList, " c".toList] := by decide

/-- nothing is written for a text without any paragraph -/
example : format ⟨4, 9, true⟩ "\n\n".toList = [] := by decide

/-- degenerate width: the weak width statement still has content (one word per line) -/
example : format ⟨6, 5, true⟩ "a b".toList = ["      ".toList, "      a".toList, "      b".toList] := by decide

/-- hypotheses of the third equation of `C17_words_means`, instantiated -/
example : words ("ab".toList ++ '\n' :: " cd e".toList) = "ab".toList :: words " cd e".toList ∧
    "ab".toList ≠ [] ∧ (∀ x ∈ "ab".toList, x ≠ ' ' ∧ x ≠ '\n') := by decide

example : words "- ab nn cd\nk".toList = ["-".toList, "ab".toList, "nn".toList, "cd".toList, "k".toList] := by decide

end CelmaVerif.Props.C17
