import CelmaVerif.Props.C01
import CelmaVerif.Props.C02
import CelmaVerif.Props.C02b
import CelmaVerif.Props.C03
import CelmaVerif.Props.C04
import CelmaVerif.Props.C04s
import CelmaVerif.Props.C05s
import CelmaVerif.Props.C06s
import CelmaVerif.Props.C07b
import CelmaVerif.Props.C08
import CelmaVerif.Props.C08s
/-
  All property modules of the argument-handler stack in ONE environment (audit3, hygiene item 12:
  `CelmaVerif.ProgArgs.StepRel` used to be defined twice — Lemmas/ParseEval.lean and
  Lemmas/GroupsStep.lean — so that Props/C02b and Props/C08 could not be imported together; the one
  of ParseEval is now `ParseStepRel`).  This module has no content of its own: that it compiles is
  the statement.
-/
