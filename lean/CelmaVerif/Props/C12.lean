import CelmaVerif.Lemmas.DynBitsetRun
/-
  C12 — the dynamic bitset behaves like a growable reference bit vector.
  Property theorems only.  Model: Model/DynBitset.lean (loops and index expressions of
  dynamic_bitset.cpp / dynamic_bitset_iterator.hpp as coded, every `mData[i]` checked);
  reference: `DynBitset.Ref` in the same file; lemmas: Lemmas/DynBitset*.lean.
-/
namespace CelmaVerif.Props.C12
open CelmaVerif CelmaVerif.DynBitset

/-! ### every observer agrees with the reference -/

/-- For every bit vector: size, to_string, count, any, none, all, to_ulong (value or
    overflow_error), test(pos) and the const operator[](pos) for every position (value or
    out_of_range), and both iterations computed by the code as modelled — loops, checked accesses —
    return exactly what the reference bit vector returns; in particular no observer reads outside
    the vector. -/
theorem C12_observers_agree (v : Bits) : observe v = Ref.observe v :=
  observe_eq v

/-! ### every history refines the reference -/

/-- Every sequence of modifying operations over any number of named bitsets (construction, set,
    reset(pos), flip, operator[] read and write, resize, the five compound assignments, the five
    binary operators, ~, copies; positions, sizes and shift distances arbitrary), `reset()`
    excluded: no operation touches memory outside a vector or throws, and afterwards every
    bitset is exactly the reference bit vector obtained by the same operations — so all its
    observations agree, and equality between any two bitsets agrees.
    Partial: sequences containing the argument-less `reset()` are excluded (finding
    `reset-all-empties`, see `C12_finding_reset_all`); they are covered by
    `C12_refines_clearing_reset` for the reading "reset() empties the bitset". -/
theorem C12_refines_partial (ops : List Op) (h : ∀ op ∈ ops, op.isResetAll = false) :
    ∃ st, run Store.init ops = .ok st ∧
      (∀ r, st r = Ref.run false Store.init ops r) ∧
      (∀ r, observe (st r) = Ref.observe (Ref.run false Store.init ops r)) ∧
      (∀ r s, DynBitset.eq (st r) (st s)
                = decide (Ref.run false Store.init ops r = Ref.run false Store.init ops s)) := by
  refine ⟨_, run_eq false ops Store.init (fun _ => h), fun _ => rfl, fun r => observe_eq _, ?_⟩
  intro r s
  exact Bool.beq_eq_decide_eq _ _

/-- The same for *every* sequence, `reset()` included, against the reference in which `reset()`
    empties the vector (what `mData.clear()` does and what the in-tree test relies on): apart from
    the meaning of `reset()` there is no difference between code and reference. -/
theorem C12_refines_clearing_reset (ops : List Op) :
    ∃ st, run Store.init ops = .ok st ∧
      (∀ r, st r = Ref.run true Store.init ops r) ∧
      (∀ r, observe (st r) = Ref.observe (Ref.run true Store.init ops r)) := by
  exact ⟨_, run_eq true ops Store.init (fun h => by cases h), fun _ => rfl, fun r => observe_eq _⟩

/-- The recorded finding: after `reset()` the model (= the code) has size 0, the reference bit
    vector keeps its four (cleared) bits; so the conclusion of `C12_refines_partial` is false for
    the witness `new 0101; reset()`. -/
theorem C12_finding_reset_all :
    ¬ (∃ st, run Store.init [.new 0 [false, true, false, true], .resetAll 0] = .ok st ∧
        ∀ r, observe (st r) = Ref.observe (Ref.run false Store.init
          [.new 0 [false, true, false, true], .resetAll 0] r)) := by
  intro ⟨st, h1, h2⟩
  have hs := congrArg Obs.size (h2 0)
  simp only [run, step, resetAll, rmap] at h1
  cases h1
  revert hs
  decide

/-! ### compound assignment = binary operator -/

/-- For all operands (any two sizes) and *every* shift distance — zero, below, at and beyond the
    size: the compound assignment leaves the same bitset as the binary operator returns, both
    return normally (no access outside the vectors) and both are the reference result. -/
theorem C12_compound_eq_binary (a b : Bits) (k : Nat) :
    (andAssign a b = bitAnd a b ∧ andAssign a b = .ok (Ref.and a b)) ∧
    (orAssign a b = bitOr a b ∧ orAssign a b = .ok (Ref.or a b)) ∧
    (xorAssign a b = bitXor a b ∧ xorAssign a b = .ok (Ref.xor a b)) ∧
    (shlAssign a k = shl a k ∧ shl a k = .ok (if k = 0 then a else Ref.shl a k)) ∧
    (shrAssign a k = shr a k ∧ shr a k = .ok (Ref.shr a k)) :=
  ⟨⟨rfl, andAssign_eq a b⟩, ⟨rfl, orAssign_eq a b⟩, ⟨rfl, xorAssign_eq a b⟩,
   ⟨by rw [shlAssign_eq, shl_eq], shl_eq a k⟩, ⟨by rw [shrAssign_eq, shr_eq], shr_eq a k⟩⟩

/-- shifting right by the size or more clears every bit and keeps the size (the case `>>=` got
    wrong before the repair) -/
theorem C12_shr_beyond_size (a : Bits) (k : Nat) (h : a.length ≤ k) :
    shrAssign a k = .ok (List.replicate a.length false) ∧ shr a k = .ok (List.replicate a.length false) := by
  have : Ref.shr a k = List.replicate a.length false := by
    unfold Ref.shr
    rw [List.drop_eq_nil_of_le h, Nat.min_eq_right h]; rfl
  rw [shrAssign_eq, shr_eq, this]; exact ⟨rfl, rfl⟩

/-! ### iteration -/

/-- Range-for (`begin()` … `end()`, `++`) as coded terminates, never throws or leaves the vector,
    and yields exactly the positions `i < size` with `test(i)`, in ascending order. -/
theorem C12_iter_forward (v : Bits) :
    iterate v = .ok ((List.range v.length).filter fun i => v.getD i false) ∧
    ((List.range v.length).filter fun i => v.getD i false).Pairwise (· < ·) :=
  ⟨iterate_eq v, List.Pairwise.filter _ List.pairwise_lt_range⟩

/-- Reverse iteration (`rbegin()` … `rend()`, `++`) yields the same positions in descending order. -/
theorem C12_iter_reverse (v : Bits) :
    riterate v = .ok ((List.range v.length).filter fun i => v.getD i false).reverse ∧
    (((List.range v.length).filter fun i => v.getD i false).reverse).Pairwise (· > ·) :=
  ⟨riterate_eq v, List.pairwise_reverse.mpr (List.Pairwise.filter _ List.pairwise_lt_range)⟩

/-- An empty or all-zero bitset is visited by neither iteration (`begin() == end()`,
    `rbegin() == rend()`; no exception). -/
theorem C12_iter_none (v : Bits) (h : ∀ i, v.getD i false = false) :
    iterate v = .ok [] ∧ riterate v = .ok [] := by
  have : ((List.range v.length).filter fun i => v.getD i false) = [] := by
    rw [List.filter_eq_nil_iff]; intro i _; rw [h i]; exact Bool.false_ne_true
  rw [iterate_eq, riterate_eq]
  unfold Ref.setPositions Ref.bit
  rw [this]; exact ⟨rfl, rfl⟩

/-! ### positions at or beyond the size -/

/-- `set`, `reset(pos)`, `flip(pos)`, `dbs[pos] = val` and `dbs[pos]` (non-const) never index
    outside the vector, for any position: they return normally; for `pos >= size` the bitset has
    grown to `⌊(pos+1)·3/2⌋ > pos` bits, the old bits are unchanged, the new ones are zero except
    the addressed one.  `test(pos)` and the const `operator[](pos)` throw `out_of_range` for
    `pos >= size` and read bit `pos` otherwise. -/
theorem C12_grow_or_throw (v : Bits) (pos : Nat) (val : Bool) :
    (∃ w, set v pos val = .ok w ∧ idxAssign v pos val = .ok w ∧ pos < w.length ∧
        (v.length ≤ pos → w.length = (pos + 1) * 3 / 2) ∧
        ∀ j, w.getD j false = if j = pos then val else v.getD j false) ∧
    (∃ w, reset v pos = .ok w ∧ pos < w.length ∧ (v.length ≤ pos → w.length = (pos + 1) * 3 / 2) ∧
        ∀ j, w.getD j false = if j = pos then false else v.getD j false) ∧
    (∃ w, flip v pos = .ok w ∧ pos < w.length ∧ (v.length ≤ pos → w.length = (pos + 1) * 3 / 2) ∧
        ∀ j, w.getD j false = if j = pos then !v.getD pos false else v.getD j false) ∧
    (∃ w, idxRead v pos = .ok (w, v.getD pos false) ∧ pos < w.length ∧
        (v.length ≤ pos → w.length = (pos + 1) * 3 / 2) ∧ ∀ j, w.getD j false = v.getD j false) ∧
    (v.length ≤ pos → test v pos = .throw .out_of_range ∧ idxConst v pos = .throw .out_of_range) ∧
    (pos < v.length → test v pos = .ok (v.getD pos false) ∧ idxConst v pos = .ok (v.getD pos false)) := by
  have hl := grow_length_gt v pos
  have hg : v.length ≤ pos → (Ref.grow v pos).length = (pos + 1) * 3 / 2 := by
    intro h; rw [grow_length, if_neg (by omega)]
  have hset : ∀ b, ((Ref.grow v pos).set pos b).length = (Ref.grow v pos).length := by intro b; simp
  refine ⟨⟨_, set_eq v pos val, idxAssign_eq v pos val, ?_, ?_, ?_⟩, ⟨_, reset_eq v pos, ?_, ?_, ?_⟩,
    ⟨_, flip_eq v pos, ?_, ?_, ?_⟩, ⟨_, idxRead_eq v pos, hl, hg, fun j => grow_getD v pos j⟩, ?_, ?_⟩
  · unfold Ref.set; rw [hset]; exact hl
  · intro h; unfold Ref.set; rw [hset]; exact hg h
  · intro j; unfold Ref.set; rw [getD_set _ _ _ _ hl, grow_getD]
  · unfold Ref.reset; rw [hset]; exact hl
  · intro h; unfold Ref.reset; rw [hset]; exact hg h
  · intro j; unfold Ref.reset; rw [getD_set _ _ _ _ hl, grow_getD]
  · unfold Ref.flip; rw [hset]; exact hl
  · intro h; unfold Ref.flip; rw [hset]; exact hg h
  · intro j; unfold Ref.flip Ref.bit; rw [getD_set _ _ _ _ hl, grow_getD]
  · intro h
    rw [test_eq, idxConst_eq]; unfold Ref.test; rw [if_neg (by omega)]; exact ⟨rfl, rfl⟩
  · intro h
    rw [test_eq, idxConst_eq]; unfold Ref.test Ref.bit; rw [if_pos h]; exact ⟨rfl, rfl⟩

/-- `to_ulong` returns the number whose binary digits are the bits when no bit at position 64 or
    above is set, and throws `overflow_error` otherwise (never reads outside the vector). -/
theorem C12_to_ulong (v : Bits) :
    toUlong v = if (v.drop 64).any id then .throw .overflow_error else .ok (Ref.value v) :=
  toUlong_eq v

/-- every value `to_ulong` returns is below 2^64: the sum the code accumulates in an
    `unsigned long` never wraps, so the unbounded natural number of the model is the C++ result. -/
theorem C12_to_ulong_fits (v : Bits) (n : Nat) (h : toUlong v = .ok n) : n < 2 ^ 64 :=
  toUlong_fits v n h

/-! ### non-vacuity: concrete instances -/

-- a history with growth at `pos == size`, a shift beyond the size and a binary operator
example : ∃ st, run Store.init [.new 0 [true, false, true], .flip 0 3, .shrA 0 9, .new 1 [true], .or 0 1 2] = .ok st ∧
    st 0 = [false, false, false, false, false, false] ∧ st 2 = [true, false, false, false, false, false] :=
  ⟨_, rfl, by decide, by decide⟩

-- the hypothesis of `C12_refines_partial` is satisfiable by a non-trivial history
example : ∀ op ∈ [Op.new 0 [true, false, true], .flip 0 3, .shrA 0 9], op.isResetAll = false := by decide

-- iteration over a bitset with set bits, and over an empty one
example : iterate [false, true, false, true, true] = .ok [1, 3, 4] := rfl
example : riterate [false, true, false, true, true] = .ok [4, 3, 1] := rfl
example : iterate [] = .ok [] ∧ riterate [] = .ok [] := ⟨rfl, rfl⟩
example : (∀ i, ([false, false] : Bits).getD i false = false) := by
  intro i; match i with | 0 => rfl | 1 => rfl | (n + 2) => rfl

-- shift distances above the size: compound and binary agree on the cleared vector
example : shrAssign [false, true, false, true] 5 = .ok [false, false, false, false] := rfl
example : shlAssign [true, true] 3 = .ok [false, false, false, true, true] := rfl

-- growth and throw at `pos == size`
example : reset [true, true] 2 = .ok [true, true, false, false] := rfl
example : idxConst [true, true] 2 = .throw .out_of_range := rfl
example : toUlong [true, false, true] = .ok 5 := rfl

end CelmaVerif.Props.C12
