import CelmaVerif.Lemmas.DynBitsetRun
import CelmaVerif.Lemmas.DynBitsetWalk
/-
  C12 — the dynamic bitset behaves like a growable reference bit vector.
  Property theorems only.  Model: Model/DynBitset.lean (loops and index expressions of
  dynamic_bitset.cpp / dynamic_bitset_iterator.hpp as coded, every `mData[i]` checked);
  reference: `DynBitset.Ref` in the same file; lemmas: Lemmas/DynBitset*.lean.

  Range: the code computes the growth `(pos + 1) * 1.5` in `double` and `size + pos`, `idx + pos` in
  `size_t`; the model follows that arithmetic exactly for positions and shift distances below
  `posLimit` = 2^51 and is silent (`oob "… not modelled"`) beyond (`C12_out_of_range_not_modelled`).
  Every theorem about a positional modifier or a shift therefore carries `… < posLimit` as an
  explicit hypothesis.
-/
namespace CelmaVerif.Props.C12
open CelmaVerif CelmaVerif.DynBitset

/-! ### every observer agrees with the reference -/

/-- For every bit vector: size, to_string, count, any, none, all, to_ulong (value or
    overflow_error), test(pos) and the const operator[](pos) for every position (value or
    out_of_range), and both iterations computed by the code as modelled — loops, checked accesses —
    return exactly what the reference bit vector returns; in particular no observer reads outside
    the vector. -/
theorem C12_observers_agree (v : Bits) : observe v = Ref.observe v :=
  observe_eq v

/-! ### every history refines the reference -/

/-- Every sequence of modifying operations over any number of named bitsets (construction, set,
    reset(pos), flip, operator[] read and write, resize, the five compound assignments, the five
    binary operators, ~, copies; positions, sizes and shift distances arbitrary), `reset()`
    excluded: no operation touches memory outside a vector or throws, and afterwards every
    bitset is exactly the reference bit vector obtained by the same operations — so all its
    observations agree, and equality between any two bitsets agrees.
    Partial: sequences containing the argument-less `reset()` are excluded (finding
    `reset-all-empties`, see `C12_finding_reset_all`); they are covered by
    `C12_refines_clearing_reset` for the reading "reset() empties the bitset".
    Hypothesis `hr`: every position and shift distance is below 2^51 (`Op.arg`, `posLimit`). -/
theorem C12_refines_partial (ops : List Op) (h : ∀ op ∈ ops, op.isResetAll = false)
    (hr : ∀ op ∈ ops, op.arg < posLimit) :
    ∃ st, run Store.init ops = .ok st ∧
      (∀ r, st r = Ref.run false Store.init ops r) ∧
      (∀ r, observe (st r) = Ref.observe (Ref.run false Store.init ops r)) ∧
      (∀ r s, DynBitset.eq (st r) (st s)
                = decide (Ref.run false Store.init ops r = Ref.run false Store.init ops s)) := by
  refine ⟨_, run_eq false ops Store.init (fun _ => h) hr, fun _ => rfl, fun r => observe_eq _, ?_⟩
  intro r s
  exact Bool.beq_eq_decide_eq _ _

/-- The same for *every* sequence, `reset()` included, against the reference in which `reset()`
    empties the vector (what `mData.clear()` does and what the in-tree test relies on): apart from
    the meaning of `reset()` there is no difference between code and reference. -/
theorem C12_refines_clearing_reset (ops : List Op) (hr : ∀ op ∈ ops, op.arg < posLimit) :
    ∃ st, run Store.init ops = .ok st ∧
      (∀ r, st r = Ref.run true Store.init ops r) ∧
      (∀ r, observe (st r) = Ref.observe (Ref.run true Store.init ops r)) := by
  exact ⟨_, run_eq true ops Store.init (fun h => by cases h) hr, fun _ => rfl, fun r => observe_eq _⟩

/-- The recorded finding: after `reset()` the model (= the code) has size 0, the reference bit
    vector keeps its four (cleared) bits; so the conclusion of `C12_refines_partial` is false for
    the witness `new 0101; reset()`. -/
theorem C12_finding_reset_all :
    ¬ (∃ st, run Store.init [.new 0 [false, true, false, true], .resetAll 0] = .ok st ∧
        ∀ r, observe (st r) = Ref.observe (Ref.run false Store.init
          [.new 0 [false, true, false, true], .resetAll 0] r)) := by
  intro ⟨st, h1, h2⟩
  have hs := congrArg Obs.size (h2 0)
  simp only [run, step, resetAll, rmap] at h1
  cases h1
  revert hs
  decide

/-! ### compound assignment = binary operator -/

/-- For all operands (any two sizes) and *every* shift distance below 2^51 — zero, below, at and
    beyond the size: the binary operator and the compound assignment are each the reference
    operation on bit vectors (`Ref.and`: size of the left operand, missing bits of the right
    operand zero; `Ref.or`/`Ref.xor`: size of the larger; `Ref.shl`: `k` zeros enter at the
    bottom, the vector grows by `k`; `Ref.shr`: size kept, zeros enter at the top), both return
    normally (no access outside the vectors) — hence they agree.
    For `& | ^` the code is `auto copy( lhs); copy OP= rhs; return copy;`, so the model's binary
    form *is* the compound form (`bitAnd := andAssign`, agreement by delegation); the content for
    these three is the equality with the independent reference.  For the shifts the two forms are
    different loops (fresh zero bitset + upward copy vs. resize + in-place downward copy + clearing
    loop) and the agreement is a theorem about both. -/
theorem C12_compound_eq_binary (a b : Bits) (k : Nat) (hk : k < posLimit) :
    (bitAnd a b = .ok (Ref.and a b) ∧ andAssign a b = .ok (Ref.and a b)) ∧
    (bitOr a b = .ok (Ref.or a b) ∧ orAssign a b = .ok (Ref.or a b)) ∧
    (bitXor a b = .ok (Ref.xor a b) ∧ xorAssign a b = .ok (Ref.xor a b)) ∧
    (shl a k = .ok (Ref.shl a k) ∧ shlAssign a k = .ok (Ref.shl a k)) ∧
    (shr a k = .ok (Ref.shr a k) ∧ shrAssign a k = .ok (Ref.shr a k)) := by
  have e : (if k = 0 then a else Ref.shl a k) = Ref.shl a k := by
    split
    · subst k; unfold Ref.shl; split <;> simp_all
    · rfl
  exact ⟨⟨andAssign_eq a b, andAssign_eq a b⟩, ⟨orAssign_eq a b, orAssign_eq a b⟩,
    ⟨xorAssign_eq a b, xorAssign_eq a b⟩,
    ⟨by rw [shl_eq a k hk, e], by rw [shlAssign_eq a k hk, e]⟩, ⟨shr_eq a k hk, shrAssign_eq a k hk⟩⟩

/-- the reference operations of `C12_compound_eq_binary`, bit by bit (so that the statement above
    does not rest on reading `Ref`): sizes and every bit of the five results -/
theorem C12_reference_operators (a b : Bits) (k j : Nat) :
    ((Ref.and a b).length = a.length ∧ (Ref.or a b).length = max a.length b.length ∧
      (Ref.xor a b).length = max a.length b.length ∧
      (Ref.shl a k).length = (if a = [] then 0 else a.length + k) ∧ (Ref.shr a k).length = a.length) ∧
    (j < a.length → (Ref.and a b).getD j false = (a.getD j false && b.getD j false)) ∧
    (j < max a.length b.length → (Ref.or a b).getD j false = (a.getD j false || b.getD j false)) ∧
    (j < max a.length b.length → (Ref.xor a b).getD j false = (a.getD j false != b.getD j false)) ∧
    (a ≠ [] → (Ref.shl a k).getD j false = (if j < k then false else a.getD (j - k) false)) ∧
    ((Ref.shr a k).getD j false = (if j < a.length - k then a.getD (j + k) false else false)) := by
  refine ⟨⟨mk_length _ _, mk_length _ _, mk_length _ _, ?_, refShr_length a k⟩,
    fun h => mk_getD _ _ j h, fun h => mk_getD _ _ j h, fun h => mk_getD _ _ j h,
    fun h => refShl_getD a k j h, ?_⟩
  · by_cases h : a = []
    · subst h; rfl
    · rw [if_neg h, refShl_length a k h]
  · exact refShr_getD a k j

/-- shifting right by the size or more clears every bit and keeps the size (the case `>>=` got
    wrong before the repair) -/
theorem C12_shr_beyond_size (a : Bits) (k : Nat) (h : a.length ≤ k) (hk : k < posLimit) :
    shrAssign a k = .ok (List.replicate a.length false) ∧ shr a k = .ok (List.replicate a.length false) := by
  have : Ref.shr a k = List.replicate a.length false := by
    unfold Ref.shr
    rw [List.drop_eq_nil_of_le h, Nat.min_eq_right h]; rfl
  rw [shrAssign_eq a k hk, shr_eq a k hk, this]; exact ⟨rfl, rfl⟩

/-- Outside the range the model is silent: a positional modifier or a shift whose argument is
    2^51 or more is answered `oob "… not modelled"` by the model, whatever the bitsets — no theorem
    of this file says anything about the code there (`double` rounding of `(pos + 1) * 1.5`,
    `size_t` wrap-around of `pos + 1`, `size + pos`, `idx + pos`). -/
theorem C12_out_of_range_not_modelled (st : Store) (op : Op) (h : posLimit ≤ op.arg) :
    ∃ w, step st op = .oob w :=
  step_out_of_range st op h

/-! ### iteration -/

/-- Range-for (`begin()` … `end()`, `++`) as coded terminates, never throws or leaves the vector,
    and yields exactly the positions `i < size` with `test(i)`, in ascending order. -/
theorem C12_iter_forward (v : Bits) :
    iterate v = .ok ((List.range v.length).filter fun i => v.getD i false) ∧
    ((List.range v.length).filter fun i => v.getD i false).Pairwise (· < ·) :=
  ⟨iterate_eq v, List.Pairwise.filter _ List.pairwise_lt_range⟩

/-- Reverse iteration (`rbegin()` … `rend()`, `++`) yields the same positions in descending order. -/
theorem C12_iter_reverse (v : Bits) :
    riterate v = .ok ((List.range v.length).filter fun i => v.getD i false).reverse ∧
    (((List.range v.length).filter fun i => v.getD i false).reverse).Pairwise (· > ·) :=
  ⟨riterate_eq v, List.pairwise_reverse.mpr (List.Pairwise.filter _ List.pairwise_lt_range)⟩

/-- An empty or all-zero bitset is visited by neither iteration (`begin() == end()`,
    `rbegin() == rend()`; no exception). -/
theorem C12_iter_none (v : Bits) (h : ∀ i, v.getD i false = false) :
    iterate v = .ok [] ∧ riterate v = .ok [] := by
  have : ((List.range v.length).filter fun i => v.getD i false) = [] := by
    rw [List.filter_eq_nil_iff]; intro i _; rw [h i]; exact Bool.false_ne_true
  rw [iterate_eq, riterate_eq]
  unfold Ref.setPositions Ref.bit
  rw [this]; exact ⟨rfl, rfl⟩

/-! ### positions at or beyond the size -/

/-- `set`, `reset(pos)`, `flip(pos)`, `dbs[pos] = val` and `dbs[pos]` (non-const) never index
    outside the vector, for any position: they return normally; for `pos >= size` the bitset has
    grown to `⌊(pos+1)·3/2⌋ > pos` bits, the old bits are unchanged, the new ones are zero except
    the addressed one.  `test(pos)` and the const `operator[](pos)` throw `out_of_range` for
    `pos >= size` and read bit `pos` otherwise (these two for every position, no bound).
    Hypothesis `hp`: the position is below 2^51, where the `double` computation of the new size
    is exact. -/
theorem C12_grow_or_throw (v : Bits) (pos : Nat) (val : Bool) (hp : pos < posLimit) :
    (∃ w, set v pos val = .ok w ∧ idxAssign v pos val = .ok w ∧ pos < w.length ∧
        (v.length ≤ pos → w.length = (pos + 1) * 3 / 2) ∧
        ∀ j, w.getD j false = if j = pos then val else v.getD j false) ∧
    (∃ w, reset v pos = .ok w ∧ pos < w.length ∧ (v.length ≤ pos → w.length = (pos + 1) * 3 / 2) ∧
        ∀ j, w.getD j false = if j = pos then false else v.getD j false) ∧
    (∃ w, flip v pos = .ok w ∧ pos < w.length ∧ (v.length ≤ pos → w.length = (pos + 1) * 3 / 2) ∧
        ∀ j, w.getD j false = if j = pos then !v.getD pos false else v.getD j false) ∧
    (∃ w, idxRead v pos = .ok (w, v.getD pos false) ∧ pos < w.length ∧
        (v.length ≤ pos → w.length = (pos + 1) * 3 / 2) ∧ ∀ j, w.getD j false = v.getD j false) ∧
    (v.length ≤ pos → test v pos = .throw .out_of_range ∧ idxConst v pos = .throw .out_of_range) ∧
    (pos < v.length → test v pos = .ok (v.getD pos false) ∧ idxConst v pos = .ok (v.getD pos false)) := by
  have hl := grow_length_gt v pos
  have hg : v.length ≤ pos → (Ref.grow v pos).length = (pos + 1) * 3 / 2 := by
    intro h; rw [grow_length, if_neg (by omega)]
  have hset : ∀ b, ((Ref.grow v pos).set pos b).length = (Ref.grow v pos).length := by intro b; simp
  refine ⟨⟨_, set_eq v pos val hp, idxAssign_eq v pos val hp, ?_, ?_, ?_⟩, ⟨_, reset_eq v pos hp, ?_, ?_, ?_⟩,
    ⟨_, flip_eq v pos hp, ?_, ?_, ?_⟩, ⟨_, idxRead_eq v pos hp, hl, hg, fun j => grow_getD v pos j⟩, ?_, ?_⟩
  · unfold Ref.set; rw [hset]; exact hl
  · intro h; unfold Ref.set; rw [hset]; exact hg h
  · intro j; unfold Ref.set; rw [getD_set _ _ _ _ hl, grow_getD]
  · unfold Ref.reset; rw [hset]; exact hl
  · intro h; unfold Ref.reset; rw [hset]; exact hg h
  · intro j; unfold Ref.reset; rw [getD_set _ _ _ _ hl, grow_getD]
  · unfold Ref.flip; rw [hset]; exact hl
  · intro h; unfold Ref.flip; rw [hset]; exact hg h
  · intro j; unfold Ref.flip Ref.bit; rw [getD_set _ _ _ _ hl, grow_getD]
  · intro h
    rw [test_eq, idxConst_eq]; unfold Ref.test; rw [if_neg (by omega)]; exact ⟨rfl, rfl⟩
  · intro h
    rw [test_eq, idxConst_eq]; unfold Ref.test Ref.bit; rw [if_pos h]; exact ⟨rfl, rfl⟩

/-! ### iterator decrement and the post forms; walks -/

/-- `--` as coded.  Forward iterator standing on any position `c ≤ size` (a set position or
    `end()`): `--it` returns normally and stands on the greatest set position below `c`; when
    there is none it stands on `end()` (`--begin()` wraps to `end()`, what the in-tree test
    `exceed_end` expects).  Reverse iterator standing on a position `c < size`: `--rit` stands on
    the least set position above `c`, or on `rend()` when there is none.  `--rend()` stays at
    `rend()` (unlike `--end()`, which finds the last set bit: `forward()` returns at once for the
    position -1).  `++end()` and `++rend()` stay where they are. -/
theorem C12_iter_decrement (v : Bits) :
    (∀ c : Nat, c ≤ v.length → ∃ q : Nat, fwdDec v (c : Int) = .ok (q : Int) ∧
      ((q < c ∧ v.getD q false = true ∧ ∀ j, q < j → j < c → v.getD j false = false) ∨
       (q = v.length ∧ ∀ j, j < c → v.getD j false = false))) ∧
    (∀ c : Nat, c < v.length →
      (∃ q : Nat, revDec v (c : Int) = .ok (q : Int) ∧ c < q ∧ q < v.length ∧ v.getD q false = true ∧
          ∀ j, c < j → j < q → v.getD j false = false) ∨
      (revDec v (c : Int) = .ok (-1) ∧ ∀ j, c < j → j < v.length → v.getD j false = false)) ∧
    revDec v (rendIt v) = .ok (rendIt v) ∧
    forward v (endIt v) = .ok (endIt v) ∧ reverse v (rendIt v) = .ok (rendIt v) :=
  ⟨fwdDec_spec v, revDec_spec v, revDec_rend v, forward_end v, reverse_rend v⟩

/-- `++it; --it` brings a forward iterator back to the set position it stood on, also when `++`
    reached `end()`; `++rit; --rit` brings a reverse iterator back unless `++` reached `rend()`. -/
theorem C12_iter_inc_dec (v : Bits) (c : Nat) (hc : c < v.length) (hb : v.getD c false = true) :
    (∃ q, forward v (c : Int) = .ok q ∧ fwdDec v q = .ok (c : Int)) ∧
    (∃ q, reverse v (c : Int) = .ok q ∧ (q ≠ rendIt v → revDec v q = .ok (c : Int))) := by
  constructor
  · obtain ⟨q, g1, g2, g3, g4, _⟩ := forward_spec v c hc
    refine ⟨q, g1, ?_⟩
    obtain ⟨q', h1, h2⟩ := fwdDec_spec v q g3
    rw [h1]
    cases h2 with
    | inl h =>
      obtain ⟨h2, h3, h4⟩ := h
      have : q' = c := by
        by_cases hlt : q' < c
        · have := h4 c hlt g2; rw [hb] at this; cases this
        · by_cases hgt : c < q'
          · have := g4 q' hgt h2; rw [h3] at this; cases this
          · omega
      rw [this]
    | inr h =>
      have := h.2 c g2; rw [hb] at this; cases this
  · obtain ⟨r, g1, g2, g3, g4⟩ := reverse_spec v c (by omega)
    refine ⟨_, g1, ?_⟩
    intro hne
    have hr : 0 < r := by
      by_cases h0 : r = 0
      · subst h0; exact absurd (by unfold rendIt; omega) hne
      · omega
    have hcast : (r : Int) - 1 = ((r - 1 : Nat) : Int) := by omega
    rw [hcast]
    cases revDec_spec v (r - 1) (by omega) with
    | inl h =>
      obtain ⟨q, h1, h2, h3, h4, h5⟩ := h
      rw [h1]
      have : q = c := by
        by_cases hlt : q < c
        · have := g3 q (by omega) hlt; rw [h4] at this; cases this
        · by_cases hgt : c < q
          · have := h5 c (by omega) hgt; rw [hb] at this; cases this
          · omega
      rw [this]
    | inr h =>
      have := h.2 c (by omega) hc; rw [hb] at this; cases this

/-- Any walk — pre/post-increment and pre/post-decrement in any order and number, started at
    `begin()` or `end()` (forward iterator) resp. `rbegin()` or `rend()` (reverse iterator) —
    returns normally at every step (no exception, no access outside the vector, the loops
    terminate) and the iterator always stands on a set position or on its end position
    ("iterating past the end does not crash"); there is one output per operation.  The post forms
    return a copy standing where the iterator stood before and move the iterator like the pre
    forms (`C12_iter_post`). -/
theorem C12_iter_walks (v : Bits) (fromEnd : Bool) (ops : List ItOp) :
    (∃ l, fwdWalk v fromEnd ops = .ok l ∧ l.length = ops.length ∧
      ∀ o ∈ l, ∃ c : Nat, o.pos = (c : Int) ∧ c ≤ v.length ∧ (c < v.length → v.getD c false = true)) ∧
    (∃ l, revWalk v fromEnd ops = .ok l ∧ l.length = ops.length ∧
      ∀ o ∈ l, ∃ r : Nat, o.pos = (r : Int) - 1 ∧ r ≤ v.length ∧ (0 < r → v.getD (r - 1) false = true)) :=
  ⟨fwdWalk_ok v fromEnd ops, revWalk_ok v fromEnd ops⟩

/-- (definitional lemma: unfolds the model's `postOp` for an arbitrary `move`; NOT a clause of the property on its
    own - that the post forms of the iterator classes behave so is the faithfulness of the model, tied by the
    differential run; the statement about whole walks is `C12_iter_post_walk`.)
    post-increment / post-decrement: when the move returns `q`, the returned copy stands on the
    old position and the iterator on `q` — the same position the pre form reaches. -/
theorem C12_iter_post (move : Int → Res Int) (p q : Int) (h : move p = .ok q) :
    postOp move p = .ok (p, q) := by
  unfold postOp; rw [h]

/-- (post forms inside any walk) For every walk that returns normally - any mixture of `++it`, `--it`, `it++`,
    `it--` from any start position, forward or reverse iterator class (`inc` / `dec` = the two moves of the
    class) -: replacing every post form by its pre form gives the same iterator position after every single
    operation, and the copy a post form returns stands on the position the iterator had before that operation
    (the start position for the first one, the position after the previous operation otherwise); pre forms
    return no copy.  With `C12_iter_walks` (every such walk from begin/end/rbegin/rend returns normally). -/
theorem C12_iter_post_walk (inc dec : Int → Res Int) (ops : List ItOp) (p : Int) (l : List ItOut)
    (h : itWalk inc dec p ops = .ok l) :
    itWalk inc dec p (ops.map ItOp.pre) = .ok (l.map fun o => ⟨none, o.pos⟩)
    ∧ l.map (·.copy) = (ops.zip (startsOf p l)).map (fun x => if x.1.isPost then some x.2 else none) :=
  itWalk_post inc dec ops p l h

/-- `C12_iter_post_walk` on the bitset 0b0110 (set positions 1, 2), forward iterator from `begin()`:
    `it++`, `it++`, `--it` - the copies stand on 1 and 2, the positions are those of `++it`, `++it`, `--it` -/
example :
    ∃ p l, beginIt [false, true, true, false] = .ok p
      ∧ itWalk (forward [false, true, true, false]) (fwdDec [false, true, true, false]) p [.postInc, .postInc, .dec] = .ok l
      ∧ l.map (·.copy) = [some 1, some 2, none] ∧ l.map (·.pos) = [2, 4, 2] :=
  ⟨1, [⟨some 1, 2⟩, ⟨some 2, 4⟩, ⟨none, 2⟩], rfl, rfl, rfl, rfl⟩

/-! ### `to_string( zero, one)` and the `std::bitset< N>` conversions -/

/-- `to_string< char>( zero, one)` for any two characters: most significant bit first, `one` for a
    set bit, `zero` otherwise; never writes outside the string. -/
theorem C12_to_string_chars (v : Bits) (z o : Char) :
    toStrWith v z o = .ok (v.reverse.map fun b => if b then o else z) :=
  toStrWith_eq v z o

/-- Construction from and assignment of a `std::bitset< N>` (`other` = its N bits): the result is
    exactly these N bits — whatever the bitset held before the assignment — and the copy loops
    stay inside both containers. -/
theorem C12_from_bitset (v other : Bits) :
    ofBitset other = .ok other ∧ assignBitset v other = .ok other :=
  ⟨ofBitset_eq other, assignBitset_eq v other⟩

/-- `to_ulong` returns the number whose binary digits are the bits when no bit at position 64 or
    above is set, and throws `overflow_error` otherwise (never reads outside the vector). -/
theorem C12_to_ulong (v : Bits) :
    toUlong v = if (v.drop 64).any id then .throw .overflow_error else .ok (Ref.value v) :=
  toUlong_eq v

/-- every value `to_ulong` returns is below 2^64: the sum the code accumulates in an
    `unsigned long` never wraps, so the unbounded natural number of the model is the C++ result. -/
theorem C12_to_ulong_fits (v : Bits) (n : Nat) (h : toUlong v = .ok n) : n < 2 ^ 64 :=
  toUlong_fits v n h

/-! ### non-vacuity: concrete instances -/

-- a history with growth at `pos == size`, a shift beyond the size and a binary operator
example : ∃ st, run Store.init [.new 0 [true, false, true], .flip 0 3, .shrA 0 9, .new 1 [true], .or 0 1 2] = .ok st ∧
    st 0 = [false, false, false, false, false, false] ∧ st 2 = [true, false, false, false, false, false] :=
  ⟨_, rfl, by decide, by decide⟩

-- the hypotheses of `C12_refines_partial` are satisfiable by a non-trivial history
example : ∀ op ∈ [Op.new 0 [true, false, true], .flip 0 3, .shrA 0 9], op.isResetAll = false := by decide
example : ∀ op ∈ [Op.new 0 [true, false, true], .flip 0 3, .shrA 0 9], op.arg < posLimit := by decide
-- … and the range hypothesis is not vacuous the other way round: beyond it the model is silent
example : ∃ w, step Store.init (.set 0 (2 ^ 51) true) = .oob w := ⟨_, rfl⟩
example : (65 : Nat) < posLimit := by decide

-- decrement: `--end()` finds the last set bit, `--begin()` wraps to `end()`, `--rend()` stays
example : fwdDec [false, true, false, true, false] 5 = .ok 3 := rfl
example : fwdDec [false, true, false, true, false] 1 = .ok 5 := rfl
example : revDec [false, true, false, true, false] 1 = .ok 3 := rfl
example : revDec [false, true, false, true, false] 3 = .ok (-1) := rfl
example : revDec [false, true, false, true, false] (-1) = .ok (-1) := rfl
-- a walk with all four operators from `begin()`
example : fwdWalk [false, true, false, true] false [.inc, .postDec, .dec, .postInc]
    = .ok [⟨none, 3⟩, ⟨some 3, 1⟩, ⟨none, 4⟩, ⟨some 4, 4⟩] := rfl
-- hypotheses of `C12_iter_inc_dec`
example : (1 : Nat) < ([false, true, false, true] : Bits).length ∧ ([false, true, false, true] : Bits).getD 1 false = true := by decide
-- other characters, bitset conversion
example : toStrWith [true, false, false] '.' 'x' = .ok ['.', '.', 'x'] := rfl
example : assignBitset [true, true, true, true, true] [false, true] = .ok [false, true] := rfl

-- iteration over a bitset with set bits, and over an empty one
example : iterate [false, true, false, true, true] = .ok [1, 3, 4] := rfl
example : riterate [false, true, false, true, true] = .ok [4, 3, 1] := rfl
example : iterate [] = .ok [] ∧ riterate [] = .ok [] := ⟨rfl, rfl⟩
example : (∀ i, ([false, false] : Bits).getD i false = false) := by
  intro i; match i with | 0 => rfl | 1 => rfl | (n + 2) => rfl

-- shift distances above the size: compound and binary agree on the cleared vector
example : shrAssign [false, true, false, true] 5 = .ok [false, false, false, false] := rfl
example : shlAssign [true, true] 3 = .ok [false, false, false, true, true] := rfl

-- growth and throw at `pos == size`
example : reset [true, true] 2 = .ok [true, true, false, false] := rfl
example : idxConst [true, true] 2 = .throw .out_of_range := rfl
example : toUlong [true, false, true] = .ok 5 := rfl

end CelmaVerif.Props.C12
