import CelmaVerif.Lemmas.Spelling
import CelmaVerif.Lemmas.RulesComplete
import CelmaVerif.Lemmas.RulesDest
import CelmaVerif.Lemmas.RulesLevel
/-
  C01 — command-line values reach their typed destinations, whatever the spelling.

  Layers: `Spells cfg last us ws` (Lemmas/Spelling.lean) lists the legal surface forms of an
  abstract command line `us : List Use`; `Obeys` (Model/ProgArgs/Spec.lean) is the declarative
  reading of the declared rules; `denote` (Lemmas/RulesDest.lean) is the closed form of a
  destination in terms of the argument's own uses.

  STAGE / partial: `Spells` covers `-c`, `--name` (exact or any abbreviation that resolves), `-c v`,
  `--name v`, `--name=v`, `-cv`, flags grouped behind one dash (`-abc`), also closed by a
  value-taking key (`-abk v`, `-abkv`), value-less uses of optional-value arguments (`-v`,
  `--verbose` for a LevelCounter, when no value follows) and free values behind a multi-value
  argument — every form the property lists.  Not in `Spells` (modelled and covered by the
  differential run only): the `--` separator in front of dash-leading values, and control
  characters; the theorems that depend on `Spells` keep the suffix `_partial` for that reason and
  because the destinations are those of the modelled fragment.  Floating-point destinations are outside the modelled fragment.
-/
namespace CelmaVerif.Props.C01
open CelmaVerif CelmaVerif.ProgArgs CelmaVerif.Keys

/-- **Spelling invariance.**  Two command lines that spell the same abstract command line — with
    any of the covered forms for each use, any abbreviations, any program name — are evaluated
    identically: the same final handler state (destinations, counters, constraint state) if accepted,
    the same exception if not. -/
theorem C01_spelling_invariance_partial (cfg : Cfg) (h : HState) (us : List Use) (ws₁ ws₂ : List Word)
    (prog₁ prog₂ : Word) (s1 : Spells cfg h.lastArg us ws₁) (s2 : Spells cfg h.lastArg us ws₂) :
    evalArguments cfg h {} (prog₁ :: ws₁) = evalArguments cfg h {} (prog₂ :: ws₂) := by
  rw [spells_eval cfg h prog₁ s1, spells_eval cfg h prog₂ s2]

/-- **Values reach their destinations.**  For a well-formed configuration, an abstract command line
    that obeys the declared rules (no deprecated argument; LevelCounter values obey the stateful
    increment/assignment rule `LevelValuesOk`) and any covered spelling of it: evaluation returns normally, and afterwards every destination holds
    `denote` of its own values: not used ⇒ the previous value; flag ⇒ the value to set; int ⇒ the
    last value converted; string ⇒ the last value; list ⇒ previous content followed by all elements
    given, in order. -/
theorem C01_values_reach_destinations_partial (cfg : Cfg) (wf : cfg.WellFormed) (inits : List DVal)
    (hin : cfg.args.length ≤ inits.length) (us : List Use) (ws : List Word) (prog : Word)
    (sp : Spells cfg none us ws) (ob : Obeys cfg inits us)
    (notDeprecated : ∀ u ∈ us, ∀ d, cfg.args[u.arg]? = some d → d.deprecated = false)
    (levels : ∀ (i : Nat) (d : ArgDef) (v : DVal), cfg.args[i]? = some d → d.kind = .level →
      inits[i]? = some v → LevelValuesOk d (levelOf v) false false (valsOf i us)) :
    ∃ hf, evalArguments cfg (cfg.initState inits) {} (prog :: ws) = .ok hf ∧
      ∀ (i : Nat) (d : ArgDef) (v : DVal), cfg.args[i]? = some d → inits[i]? = some v →
        (d.kind = .vecInt → ∃ l, v = .vec l) →
        ∃ st, hf.args[i]? = some st ∧ st.dest = denote d v (valsOf i us) := by
  obtain ⟨hf, he⟩ := rules_complete wf hin ob notDeprecated levels
  have hl : (cfg.initState inits).lastArg = none := rfl
  refine ⟨hf, ?_, ?_⟩
  · rw [spells_eval cfg (cfg.initState inits) prog (by rw [hl]; exact sp)]; exact he
  · intro i d v hi hv ht
    exact dests_denote hin he hi hv ht

/-- **Exact keys always resolve** (the `Resolves` side conditions of `Spells` for exact spellings): in a
    configuration whose keys do not clash — what `addArgument` guarantees — the short key of an
    argument, typed as `-c`, and its long key, typed as `--word`, designate exactly that argument,
    with abbreviations on or off and whatever other keys (also longer ones starting with `word`) are
    defined, in any definition order. -/
theorem C01_exact_keys_resolve (cfg : Cfg) (hd : Keys.Disjoint cfg.table) (i : Nat) (d : ArgDef)
    (hi : cfg.args[i]? = some d) :
    (∀ c, d.key.short = some c → c ≠ '\x00' → Resolves cfg (Key.ofChar c) i d) ∧
    (d.key.long ≠ [] → Resolves cfg ⟨none, d.key.long⟩ i d) := by
  constructor
  · intro c hc h0
    apply resolves_exact cfg hd i d hi (Key.ofChar c) (Or.inr rfl)
    refine Or.inl ⟨by rw [hc]; rfl, ?_⟩
    rw [hc]; simp [Key.ofChar, mkShort, h0]
  · intro hl
    exact resolves_exact cfg hd i d hi ⟨none, d.key.long⟩ (Or.inl rfl) (Or.inr (Or.inl ⟨hl, rfl⟩))

/-- **Unused destinations keep their value**: an argument without a use has `denote … [] = init`. -/
theorem C01_unused_keep (d : ArgDef) (init : DVal) : denote d init [] = init := rfl

/-- **Order independence**: two accepted abstract command lines that give every argument the same
    values in the same order — in particular any reordering of uses of *distinct* arguments — leave
    the same value in every destination. -/
theorem C01_order_independent (cfg : Cfg) (inits : List DVal) (hin : cfg.args.length ≤ inits.length)
    (us us' : List Use) (h h' : HState) (e : evalUses cfg (cfg.initState inits) us = .ok h)
    (e' : evalUses cfg (cfg.initState inits) us' = .ok h') (hsame : ∀ i, valsOf i us = valsOf i us')
    (i : Nat) (d : ArgDef) (v : DVal) (hi : cfg.args[i]? = some d) (hv : inits[i]? = some v)
    (ht : d.kind = .vecInt → ∃ l, v = .vec l) :
    ∃ st st', h.args[i]? = some st ∧ h'.args[i]? = some st' ∧ st.dest = st'.dest :=
  dests_order_independent hin e e' hsame hi hv ht

/-- **Nothing but the uses reaches the destinations** (converse direction, every argv, every form the
    handler accepts — also the ones not in `Spells`): an accepted command line is the abstract
    evaluation of the uses it logged. -/
theorem C01_accepted_is_its_uses (cfg : Cfg) (h0 hf : HState) (argv : List Word) (hi : h0.inverted = false)
    (he : evalArguments cfg h0 {} argv = .ok hf) :
    ∃ us, hf.uses = h0.uses ++ us ∧ ∃ g, evalUses cfg h0 us = .ok g ∧ g.Same hf :=
  evalArguments_replays cfg h0 hf argv hi he

/-! ### non-vacuity -/

namespace Ex
def aArg : ArgDef := { key := ⟨some 'a', "alpha".toList⟩, kind := .int, vmode := .required, card := .max 1 }
def fArg : ArgDef := { key := ⟨some 'f', []⟩, kind := .flag, vmode := .none, card := .max 1 }
def cfg : Cfg := { args := [aArg, fArg] }
def inits : List DVal := [.int 0, .flag false]
def show_ (r : Res HState) : Option (List DVal) := match r with | .ok h => some (h.args.map (·.dest)) | _ => none
end Ex

open Ex in
example : Spells cfg none [⟨0, "7".toList, true⟩, ⟨1, [], true⟩] ["--al=7".toList, "-f".toList] := by
  refine Spells.longEq (name := "al".toList) (v := "7".toList) (k := ⟨none, "al".toList⟩) (d := aArg)
    (by decide) (by decide) (by rfl) (by rfl) (by decide) ?_
  exact Spells.shortFlag (c := 'f') (d := fArg) (by decide) (by rfl) (by decide) (Spells.nil _)

open Ex in
example : Spells cfg none [⟨0, "7".toList, true⟩, ⟨1, [], true⟩] ["-a7".toList, "-f".toList] := by
  refine Spells.shortGlued (c := 'a') (v := "7".toList) (d := aArg) (by decide) (by decide) (by rfl) (by decide) ?_
  exact Spells.shortFlag (c := 'f') (d := fArg) (by decide) (by rfl) (by decide) (Spells.nil _)

open Ex in
example : Spells { args := [fArg, { fArg with key := ⟨some 'g', []⟩ }] } none [⟨0, [], true⟩, ⟨1, [], true⟩] ["-fg".toList] := by
  have := Spells.flagGroup (cfg := { args := [fArg, { fArg with key := ⟨some 'g', []⟩ }] }) (l := none)
    (fs := [('f', 0, fArg), ('g', 1, { fArg with key := ⟨some 'g', []⟩ })]) (last := 1) (us := []) (ws := [])
    (by
      intro f hf
      simp only [List.mem_cons, List.mem_nil_iff, or_false] at hf
      rcases hf with rfl | rfl
      · exact ⟨by decide, by rfl, by decide⟩
      · exact ⟨by decide, by rfl, by decide⟩)
    (by rfl) (Spells.nil _)
  simpa using this

open Ex in
example : show_ (evalUses cfg (cfg.initState inits) [⟨0, "7".toList, true⟩, ⟨1, [], true⟩])
    = some [.int 7, .flag true] := by decide

end CelmaVerif.Props.C01
