import CelmaVerif.Lemmas.Spelling
import CelmaVerif.Lemmas.RulesComplete
import CelmaVerif.Lemmas.RulesDest
import CelmaVerif.Lemmas.RulesLevel
import CelmaVerif.Lemmas.ParseSmall
import CelmaVerif.Lemmas.ParseProps
import CelmaVerif.Lemmas.SourcesSound
import CelmaVerif.Lemmas.ParseRefuseWide
/-
  C01 — command-line values reach their typed destinations, whatever the spelling.

  Layers: `Spells cfg last us ws` (Lemmas/Spelling.lean) lists the legal surface forms of an
  abstract command line `us : List Use`; `Obeys` (Model/ProgArgs/Spec.lean) is the declarative
  reading of the declared rules; `denote` (Lemmas/RulesDest.lean) is the closed form of a
  destination in terms of the argument's own uses.

  Two grammars.  `Spells` (13 constructors, one per surface form the property lists: `-c`, `--name`
  exact or any abbreviation that resolves — declaratively: `C01_abbrev_resolves` —, `-c v`,
  `--name v`, `--name=v`, `-cv`, flags grouped behind one dash `-abc`, also closed by a value-taking
  key `-abk v` / `-abkv`, value-less uses of optional-value arguments, free values behind a
  multi-value argument).  `SpellsPlus` (Lemmas/ParseGrammar.lean; contains `Spells`:
  `C02b.C02_grammar_extends_spells`) adds everything else the handler accepts: the separator `--` in
  front of dash-leading values, `!` (only when no use follows), values of the positional argument,
  `--flag=value`, a dash inside a group of short keys.  The theorems over `Spells` keep their names; the
  `…_words_partial` theorems state the same over `SpellsPlus`, i.e. for EVERY accepted form
  (`C02b.C02_parse_faithful`: every accepted argument vector has a `SpellsPlus` derivation).
  What keeps the suffix `_partial`: the destinations are those of the modelled fragment
  (flag/int/string/LevelCounter/vector<int>; floating-point, optional<>, other containers absent), no
  argument file / environment source, no sub-groups, bracket handlers or inversion support.
-/
namespace CelmaVerif.Props.C01
open CelmaVerif CelmaVerif.ProgArgs CelmaVerif.Keys

/-- **Spelling invariance.**  Two command lines that spell the same abstract command line — with
    any of the covered forms for each use, any abbreviations, any program name — are evaluated
    identically: the same final handler state (destinations, counters, constraint state) if accepted,
    the same exception if not. -/
theorem C01_spelling_invariance_partial (cfg : Cfg) (h : HState) (us : List Use) (ws₁ ws₂ : List Word)
    (prog₁ prog₂ : Word) (s1 : Spells cfg h.lastArg us ws₁) (s2 : Spells cfg h.lastArg us ws₂) :
    evalArguments cfg h {} (prog₁ :: ws₁) = evalArguments cfg h {} (prog₂ :: ws₂) := by
  rw [spells_eval cfg h prog₁ s1, spells_eval cfg h prog₂ s2]

/-- **Values reach their destinations.**  For a well-formed configuration, an abstract command line
    that obeys the declared rules (no deprecated argument; LevelCounter values obey the stateful
    increment/assignment rule `LevelValuesOk`) and any covered spelling of it: evaluation returns normally, and afterwards every destination holds
    `denote` of its own values: not used ⇒ the previous value; flag ⇒ the value to set; int ⇒ the
    last value converted; string ⇒ the last value; list ⇒ previous content followed by all elements
    given, in order. -/
theorem C01_values_reach_destinations_partial (cfg : Cfg) (wf : cfg.WellFormed) (inits : List DVal)
    (hin : cfg.args.length ≤ inits.length) (us : List Use) (ws : List Word) (prog : Word)
    (sp : Spells cfg none us ws) (ob : Obeys cfg inits us)
    (notDeprecated : ∀ u ∈ us, ∀ d, cfg.args[u.arg]? = some d → d.deprecated = false)
    (levels : ∀ (i : Nat) (d : ArgDef) (v : DVal), cfg.args[i]? = some d → d.kind = .level →
      inits[i]? = some v → LevelValuesOk d (levelOf v) false false (valsOf i us)) :
    ∃ hf, evalArguments cfg (cfg.initState inits) {} (prog :: ws) = .ok hf ∧
      ∀ (i : Nat) (d : ArgDef) (v : DVal), cfg.args[i]? = some d → inits[i]? = some v →
        (d.kind = .vecInt → ∃ l, v = .vec l) →
        ∃ st, hf.args[i]? = some st ∧ st.dest = denote d v (valsOf i us) := by
  obtain ⟨hf, he⟩ := rules_complete wf hin ob notDeprecated levels
  have hl : (cfg.initState inits).lastArg = none := rfl
  refine ⟨hf, ?_, ?_⟩
  · rw [spells_eval cfg (cfg.initState inits) prog (by rw [hl]; exact sp)]; exact he
  · intro i d v hi hv ht
    exact dests_denote hin he hi hv ht

/-- **Exact keys always resolve** (the `Resolves` side conditions of `Spells` for exact spellings): in a
    configuration whose keys do not clash — what `addArgument` guarantees — the short key of an
    argument, typed as `-c`, and its long key, typed as `--word`, designate exactly that argument,
    with abbreviations on or off and whatever other keys (also longer ones starting with `word`) are
    defined, in any definition order. -/
theorem C01_exact_keys_resolve (cfg : Cfg) (hd : Keys.Disjoint cfg.table) (i : Nat) (d : ArgDef)
    (hi : cfg.args[i]? = some d) :
    (∀ c, d.key.short = some c → c ≠ '\x00' → Resolves cfg (Key.ofChar c) i d) ∧
    (d.key.long ≠ [] → Resolves cfg ⟨none, d.key.long⟩ i d) := by
  constructor
  · intro c hc h0
    apply resolves_exact cfg hd i d hi (Key.ofChar c) (Or.inr rfl)
    refine Or.inl ⟨by rw [hc]; rfl, ?_⟩
    rw [hc]; simp [Key.ofChar, mkShort, h0]
  · intro hl
    exact resolves_exact cfg hd i d hi ⟨none, d.key.long⟩ (Or.inl rfl) (Or.inr (Or.inl ⟨hl, rfl⟩))

/-- Definitional lemma (`rfl`): `denote` of no values is the initial value.  The CLAUSE "unused
    destinations keep their value" is not this lemma but the conclusion of
    `C01_values_reach_destinations_partial` / `…_words_partial` for an argument `i` without a use
    (`valsOf i us = []`): its destination after the evaluation is `denote d init [] = init`;
    stated on its own as `C01_unused_destination_kept`. -/
theorem C01_unused_keep (d : ArgDef) (init : DVal) : denote d init [] = init := rfl

/-- **Order independence**: two accepted abstract command lines that give every argument the same
    values in the same order — in particular any reordering of uses of *distinct* arguments — leave
    the same value in every destination. -/
theorem C01_order_independent (cfg : Cfg) (inits : List DVal) (hin : cfg.args.length ≤ inits.length)
    (us us' : List Use) (h h' : HState) (e : evalUses cfg (cfg.initState inits) us = .ok h)
    (e' : evalUses cfg (cfg.initState inits) us' = .ok h') (hsame : ∀ i, valsOf i us = valsOf i us')
    (i : Nat) (d : ArgDef) (v : DVal) (hi : cfg.args[i]? = some d) (hv : inits[i]? = some v)
    (ht : d.kind = .vecInt → ∃ l, v = .vec l) :
    ∃ st st', h.args[i]? = some st ∧ h'.args[i]? = some st' ∧ st.dest = st'.dest :=
  dests_order_independent hin e e' hsame hi hv ht

/-- **An accepted run is the abstract evaluation of its use LOG** (every argv, every form the handler
    accepts).  The conclusion is about `hf.uses`, the ghost log the model writes in `assignValue`; on
    its own it does not relate that log to the words of `argv`.  The statement over the words is
    `C01_accepted_is_what_the_words_spell` below. -/
theorem C01_accepted_is_its_uses (cfg : Cfg) (h0 hf : HState) (argv : List Word) (hi : h0.inverted = false)
    (he : evalArguments cfg h0 {} argv = .ok hf) :
    ∃ us, hf.uses = h0.uses ++ us ∧ ∃ g, evalUses cfg h0 us = .ok g ∧ g.Same hf :=
  evalArguments_replays cfg h0 hf argv hi he

/-! ### non-vacuity -/

namespace Ex
def aArg : ArgDef := { key := ⟨some 'a', "alpha".toList⟩, kind := .int, vmode := .required, card := .max 1 }
def fArg : ArgDef := { key := ⟨some 'f', []⟩, kind := .flag, vmode := .none, card := .max 1 }
def cfg : Cfg := { args := [aArg, fArg] }
def inits : List DVal := [.int 0, .flag false]
def show_ (r : Res HState) : Option (List DVal) := match r with | .ok h => some (h.args.map (·.dest)) | _ => none
end Ex

open Ex in
example : Spells cfg none [⟨0, "7".toList, true⟩, ⟨1, [], true⟩] ["--al=7".toList, "-f".toList] := by
  refine Spells.longEq (name := "al".toList) (v := "7".toList) (k := ⟨none, "al".toList⟩) (d := aArg)
    (by decide) (by decide) (by rfl) (by rfl) (by decide) ?_
  exact Spells.shortFlag (c := 'f') (d := fArg) (by decide) (by rfl) (by decide) (Spells.nil _)

open Ex in
example : Spells cfg none [⟨0, "7".toList, true⟩, ⟨1, [], true⟩] ["-a7".toList, "-f".toList] := by
  refine Spells.shortGlued (c := 'a') (v := "7".toList) (d := aArg) (by decide) (by decide) (by rfl) (by decide) ?_
  exact Spells.shortFlag (c := 'f') (d := fArg) (by decide) (by rfl) (by decide) (Spells.nil _)

open Ex in
example : Spells { args := [fArg, { fArg with key := ⟨some 'g', []⟩ }] } none [⟨0, [], true⟩, ⟨1, [], true⟩] ["-fg".toList] := by
  have := Spells.flagGroup (cfg := { args := [fArg, { fArg with key := ⟨some 'g', []⟩ }] }) (l := none)
    (fs := [('f', 0, fArg), ('g', 1, { fArg with key := ⟨some 'g', []⟩ })]) (last := 1) (us := []) (ws := [])
    (by
      intro f hf
      simp only [List.mem_cons, List.mem_nil_iff, or_false] at hf
      rcases hf with rfl | rfl
      · exact ⟨by decide, by rfl, by decide⟩
      · exact ⟨by decide, by rfl, by decide⟩)
    (by rfl) (Spells.nil _)
  simpa using this

open Ex in
example : show_ (evalUses cfg (cfg.initState inits) [⟨0, "7".toList, true⟩, ⟨1, [], true⟩])
    = some [.int 7, .flag true] := by decide

/-- a long key of ONE character next to the short key of the same character (two arguments): the word
    `--v` designates the first, `-v` the second (`fix:` for the finding one-char-long-key; on the pinned
    code `--v` was looked up with the short key and selected the flag) -/
example :
    let c : Cfg := { args := [{ key := ⟨none, ['v']⟩, kind := .int, vmode := .required, card := .max 1 },
                              { key := ⟨some 'v', []⟩, kind := .flag, vmode := .none, card := .max 1 }] }
    Spells c none [⟨0, "5".toList, true⟩, ⟨1, [], true⟩] ["--v".toList, "5".toList, "-v".toList] ∧
    Ex.show_ (evalUses c (c.initState [.int 0, .flag false]) [⟨0, "5".toList, true⟩, ⟨1, [], true⟩])
      = some [.int 5, .flag true] := by
  refine ⟨?_, by decide⟩
  refine Spells.longVal (name := ['v']) (v := "5".toList) (k := ⟨none, ['v']⟩) (i := 0)
    (d := { key := ⟨none, ['v']⟩, kind := .int, vmode := .required, card := .max 1 })
    (by decide) (by decide) (by rfl) (by rfl) (by decide) (by unfold PlainWord; decide) ?_
  exact Spells.shortFlag (c := 'v') (i := 1) (d := { key := ⟨some 'v', []⟩, kind := .flag, vmode := .none, card := .max 1 })
    (by decide) (by rfl) (by decide) (Spells.nil _)

/-! ### abbreviations: the `Resolves` side condition, declaratively -/

/-- **Unambiguous abbreviations resolve** (the `Resolves` side condition of `Spells` for abbreviated
    long keys, stated over the argument list and not over the result of the lookup): abbreviations
    are allowed; `name` is a non-empty word; no argument has exactly the long key `name`; the long
    key of the argument at position `i` starts with `name`; and no argument at any other position
    has a long key that starts with `name`.  Then the word `name`, looked up as the long key
    `⟨none, name⟩` (what `--name` is looked up with: `C01_typed_name_key`), designates argument `i` —
    whatever else is defined, in any definition order.  (Composition of the prefix clause of C05,
    `C05_prefix`, with the index returned by the lookup.) -/
theorem C01_abbrev_resolves (cfg : Cfg) (habbr : cfg.abbr = true) (i : Nat) (d : ArgDef)
    (hi : cfg.args[i]? = some d) (name : Word) (hne : name ≠ [])
    (hexact : ∀ e ∈ cfg.args, e.key.long ≠ name)
    (hpre : name <+: d.key.long)
    (huniq : ∀ j (hj : j < cfg.args.length), name <+: (cfg.args[j]).key.long → j = i) :
    Resolves cfg ⟨none, name⟩ i d := by
  apply resolves_abbrev cfg habbr i d hi name hne hexact hpre
  intro j e hj hp
  obtain ⟨hjl, hje⟩ := List.getElem?_eq_some_iff.mp hj
  exact huniq j hjl (by rw [hje]; exact hp)

/-- **The word behind `--` is looked up as a long key**: a typed name of one or more characters that
    does not begin with a dash and contains neither blank nor comma is the lookup key `⟨none, name⟩`
    (the `wordKey name = .ok k` side condition of the `long…` constructors of `Spells`; `wordKey` is
    the key `Handler::evalSingleArgument` builds for the name, `Model/Keys.lean`.  Before the `fix:`
    commit for the finding one-char-long-key this held for names of two or more characters only: a
    one-character name was looked up as the SHORT key). -/
theorem C01_typed_name_key (name : Word) (hne : name ≠ []) (hd : name.head? ≠ some '-')
    (hs : ' ' ∉ name) (hc : ',' ∉ name) : wordKey name = .ok ⟨none, name⟩ :=
  parse_typed_name name hne hd hs hc

/-- non-vacuity of `C01_abbrev_resolves`: in `RulesExample.cfg` (long keys `verbose`, `num`, `out`,
    `quiet`, `list`) the typed word `--verb` designates argument 0, `--verbose`; every hypothesis is
    checked by evaluation -/
example : Resolves RulesExample.cfg ⟨none, "verb".toList⟩ 0 RulesExample.cfg.args[0] :=
  C01_abbrev_resolves RulesExample.cfg (by rfl) 0 _ (by rfl) "verb".toList (by decide) (by decide) (by decide)
    (by decide)

/-- … and `verb` is the key that `--verb` is looked up with -/
example : wordKey "verb".toList = .ok ⟨none, "verb".toList⟩ :=
  C01_typed_name_key _ (by decide) (by decide) (by decide) (by decide)

/-- … also for a name of one character: `--v` is looked up with the long key `v`, not with the
    short key that `-v` is looked up with -/
example : wordKey "v".toList = .ok ⟨none, "v".toList⟩ ∧ Key.ofChar 'v' = ⟨some 'v', []⟩ :=
  ⟨C01_typed_name_key _ (by decide) (by decide) (by decide) (by decide), rfl⟩

/-- the uniqueness hypothesis is needed: with a second long key `verbatim` the word `verb` is
    ambiguous and is refused, while `verbo` still resolves -/
example :
    let c : Cfg := { args := [{ key := ⟨none, "verbose".toList⟩, kind := .flag, vmode := .none, card := .unlimited },
                              { key := ⟨none, "verbatim".toList⟩, kind := .flag, vmode := .none, card := .unlimited }] }
    findArg c.abbr c.table ⟨none, "verb".toList⟩ = .throw .runtime_error ∧
    Resolves c ⟨none, "verbo".toList⟩ 0 c.args[0] := by
  refine ⟨by rfl, ?_⟩
  exact C01_abbrev_resolves _ (by rfl) 0 _ (by rfl) "verbo".toList (by decide) (by decide) (by decide) (by decide)

/-! ### joint non-vacuity: all hypotheses of `C01_values_reach_destinations_partial` at once

  `RulesExample.cfg`: `-v,--verbose` (flag); `-n,--num` (int, mandatory, at most once, 0 ≤ value < 10);
  `-o,--out` (string, requires `-n`); `-q,--quiet` (flag, excludes `--verbose`); `-l,--list` (list of
  int, 1 to 3 values, each ≥ 0); handler constraint one-of( `-v`, `-q`).  The command line
  `-q -o file --nu=5 -l 1,2` (`jointWords`) spells the uses `-q`, `-o file`, `-n 5`, `-l 1,2`
  (`jointUses`): a constraint-bearing argument (`-q`, `-o`), an abbreviation (`--nu`), a list. -/

open CelmaVerif.ProgArgs.RulesExample in
/-- every hypothesis of the theorem holds for this configuration and this line -/
example : RulesExample.cfg.WellFormed ∧ RulesExample.cfg.args.length ≤ RulesExample.inits.length ∧
    Spells RulesExample.cfg none jointUses jointWords ∧ Obeys RulesExample.cfg RulesExample.inits jointUses ∧
    (∀ u ∈ jointUses, ∀ d, RulesExample.cfg.args[u.arg]? = some d → d.deprecated = false) ∧
    (∀ (i : Nat) (d : ArgDef) (v : DVal), RulesExample.cfg.args[i]? = some d → d.kind = .level →
      RulesExample.inits[i]? = some v → LevelValuesOk d (levelOf v) false false (valsOf i jointUses)) :=
  ⟨cfg_wf, by decide, joint_spells, joint_obeys, joint_notDeprecated, joint_levels⟩

open CelmaVerif.ProgArgs.RulesExample in
/-- … the abbreviation in it resolves by the declarative theorem, not only by evaluation -/
example : Resolves RulesExample.cfg ⟨none, "nu".toList⟩ 1 RulesExample.cfg.args[1] :=
  C01_abbrev_resolves RulesExample.cfg (by rfl) 1 _ (by rfl) "nu".toList (by decide) (by decide) (by decide)
    (by decide)

open CelmaVerif.ProgArgs.RulesExample in
/-- … and so the theorem applies: `prog -q -o file --nu=5 -l 1,2` is accepted and every destination
    holds `denote` of its values -/
example : ∃ hf, evalArguments RulesExample.cfg (RulesExample.cfg.initState RulesExample.inits) {}
        ("prog".toList :: jointWords) = .ok hf ∧
      ∀ (i : Nat) (d : ArgDef) (v : DVal), RulesExample.cfg.args[i]? = some d → RulesExample.inits[i]? = some v →
        (d.kind = .vecInt → ∃ l, v = .vec l) →
        ∃ st, hf.args[i]? = some st ∧ st.dest = denote d v (valsOf i jointUses) :=
  C01_values_reach_destinations_partial RulesExample.cfg cfg_wf RulesExample.inits (by decide) jointUses jointWords
    "prog".toList joint_spells joint_obeys joint_notDeprecated joint_levels

open CelmaVerif.ProgArgs.RulesExample in
/-- … which are: `--num` = 5, `--list` = [1, 2], `--out` = "file", `--quiet` set, `--verbose` (unused)
    as it was -/
example : denote RulesExample.cfg.args[1] (.int 0) (valsOf 1 jointUses) = .int 5 ∧
    denote RulesExample.cfg.args[4] (.vec []) (valsOf 4 jointUses) = .vec [1, 2] ∧
    denote RulesExample.cfg.args[2] (.str []) (valsOf 2 jointUses) = .str "file".toList ∧
    denote RulesExample.cfg.args[3] (.flag false) (valsOf 3 jointUses) = .flag true ∧
    denote RulesExample.cfg.args[0] (.flag false) (valsOf 0 jointUses) = .flag false := by decide

open CelmaVerif.ProgArgs.RulesExample in
/-- the `levels` hypothesis instantiated non-trivially: `RulesExample.cfgLevel` (one LevelCounter
    `-v`), the line `-v -v`; `LevelValuesOk` holds for its two increments (`level_levels`), the line
    is accepted and the level is 2 -/
example : (∃ hf, evalArguments cfgLevel (cfgLevel.initState [.level 0]) {} ("prog".toList :: levelWords) = .ok hf ∧
      ∀ (i : Nat) (d : ArgDef) (v : DVal), cfgLevel.args[i]? = some d → [DVal.level 0][i]? = some v →
        (d.kind = .vecInt → ∃ l, v = .vec l) →
        ∃ st, hf.args[i]? = some st ∧ st.dest = denote d v (valsOf i levelUses)) ∧
    LevelValuesOk cfgLevel.args[0] 0 false false (valsOf 0 levelUses) ∧
    denote cfgLevel.args[0] (.level 0) (valsOf 0 levelUses) = .level 2 :=
  ⟨C01_values_reach_destinations_partial cfgLevel cfgLevel_wf [.level 0] (by decide) levelUses levelWords
    "prog".toList level_spells level_obeys level_notDeprecated level_levels,
   level_levels 0 _ _ rfl rfl rfl, by decide⟩

/-! ### the same for every form the handler accepts (`SpellsPlus`) -/

/-- **Nothing but what the words spell reaches the destinations** (converse direction, every argument
    vector): if `prog :: ws` is accepted, then the words spell — in the declarative grammar
    `SpellsPlus` — an abstract command line `us` whose abstract evaluation returns normally with the
    same argument states (destinations, counters), constraint list and constraint states as the real
    run; `us` is the logged use list. -/
theorem C01_accepted_is_what_the_words_spell (cfg : Cfg) (inits : List DVal) (prog : Word) (ws : List Word)
    (hf : HState) (he : evalArguments cfg (cfg.initState inits) {} (prog :: ws) = .ok hf) :
    ∃ us, SpellsPlus cfg us ws ∧ hf.uses = us ∧ ∃ g, evalUses cfg (cfg.initState inits) us = .ok g ∧ g.Same hf := by
  obtain ⟨us, sp, hu⟩ := parse_faithful cfg (cfg.initState inits) hf prog ws rfl rfl he
  have hus : hf.uses = us := by rw [hu]; rfl
  have hs := spellsPlus_eval cfg (cfg.initState inits) prog rfl rfl sp
  rw [he] at hs
  obtain ⟨g, hg, hsame⟩ := hs.ok_left
  exact ⟨us, sp, hus, g, hg, hsame.symm⟩

/-- **Spelling invariance, every accepted form.**  Two argument vectors that spell the same abstract
    command line in `SpellsPlus` — any forms, also `--`, positional values, `!` — are evaluated alike:
    both throw the same exception, or both return states with the same destinations, counters,
    constraint list, constraint states and use log (`HState.Same`; the two states may differ in the
    handler's "last argument" marker and inversion flag, which no later operation of a finished
    evaluation reads). -/
theorem C01_spelling_invariance_words_partial (cfg : Cfg) (h : HState) (hl : h.lastArg = none)
    (hi : h.inverted = false) (us : List Use) (ws₁ ws₂ : List Word) (prog₁ prog₂ : Word)
    (s1 : SpellsPlus cfg us ws₁) (s2 : SpellsPlus cfg us ws₂) :
    ResSame (evalArguments cfg h {} (prog₁ :: ws₁)) (evalArguments cfg h {} (prog₂ :: ws₂)) :=
  (spellsPlus_eval cfg h prog₁ hl hi s1).trans (spellsPlus_eval cfg h prog₂ hl hi s2).symm

/-- **Values reach their destinations, every accepted form**: `C01_values_reach_destinations_partial`
    with `SpellsPlus` in place of `Spells`. -/
theorem C01_values_reach_destinations_words_partial (cfg : Cfg) (wf : cfg.WellFormed) (inits : List DVal)
    (hin : cfg.args.length ≤ inits.length) (us : List Use) (ws : List Word) (prog : Word)
    (sp : SpellsPlus cfg us ws) (ob : Obeys cfg inits us)
    (notDeprecated : ∀ u ∈ us, ∀ d, cfg.args[u.arg]? = some d → d.deprecated = false)
    (levels : ∀ (i : Nat) (d : ArgDef) (v : DVal), cfg.args[i]? = some d → d.kind = .level →
      inits[i]? = some v → LevelValuesOk d (levelOf v) false false (valsOf i us)) :
    ∃ hf, evalArguments cfg (cfg.initState inits) {} (prog :: ws) = .ok hf ∧
      ∀ (i : Nat) (d : ArgDef) (v : DVal), cfg.args[i]? = some d → inits[i]? = some v →
        (d.kind = .vecInt → ∃ l, v = .vec l) →
        ∃ st, hf.args[i]? = some st ∧ st.dest = denote d v (valsOf i us) := by
  obtain ⟨g, he⟩ := rules_complete wf hin ob notDeprecated levels
  have hs := spellsPlus_eval cfg (cfg.initState inits) prog rfl rfl sp
  rw [he] at hs
  obtain ⟨hf, hok, hsame⟩ := hs.ok_right
  refine ⟨hf, hok, ?_⟩
  intro i d v hi hv ht
  rw [hsame.args]
  exact dests_denote hin he hi hv ht

/-- **Unused destinations keep their value** (the clause, not the `rfl` lemma): after an accepted
    evaluation of words that spell `us`, the destination of an argument that `us` does not use holds its
    initial value. -/
theorem C01_unused_destination_kept (cfg : Cfg) (wf : cfg.WellFormed) (inits : List DVal)
    (hin : cfg.args.length ≤ inits.length) (us : List Use) (ws : List Word) (prog : Word)
    (sp : SpellsPlus cfg us ws) (ob : Obeys cfg inits us)
    (notDeprecated : ∀ u ∈ us, ∀ d, cfg.args[u.arg]? = some d → d.deprecated = false)
    (levels : ∀ (i : Nat) (d : ArgDef) (v : DVal), cfg.args[i]? = some d → d.kind = .level →
      inits[i]? = some v → LevelValuesOk d (levelOf v) false false (valsOf i us))
    (i : Nat) (d : ArgDef) (v : DVal) (hi : cfg.args[i]? = some d) (hv : inits[i]? = some v)
    (ht : d.kind = .vecInt → ∃ l, v = .vec l) (hunused : valsOf i us = []) :
    ∃ hf st, evalArguments cfg (cfg.initState inits) {} (prog :: ws) = .ok hf ∧ hf.args[i]? = some st ∧ st.dest = v := by
  obtain ⟨hf, he, hd⟩ := C01_values_reach_destinations_words_partial cfg wf inits hin us ws prog sp ob notDeprecated levels
  obtain ⟨st, h1, h2⟩ := hd i d v hi hv ht
  rw [hunused] at h2
  exact ⟨hf, st, he, h1, h2⟩

/-- non-vacuity: `-q -n -- 5` (separator form, not in `Spells`) spells `[quiet, num 5]` in `SpellsPlus`:
    obtained from the accepted run by `C01_accepted_is_what_the_words_spell` -/
example : ∃ us, SpellsPlus RulesExample.cfg us ["-q".toList, "-n".toList, "--".toList, "5".toList] ∧
    ∃ g, evalUses RulesExample.cfg (RulesExample.cfg.initState RulesExample.inits) us = .ok g := by
  cases e : evalArguments RulesExample.cfg (RulesExample.cfg.initState RulesExample.inits) {}
      ["p".toList, "-q".toList, "-n".toList, "--".toList, "5".toList] with
  | ok hf =>
    obtain ⟨us, h1, _, g, h2, _⟩ := C01_accepted_is_what_the_words_spell _ _ _ _ hf e
    exact ⟨us, h1, g, h2⟩
  | throw x =>
    exact absurd (show (evalArguments RulesExample.cfg (RulesExample.cfg.initState RulesExample.inits) {}
      ["p".toList, "-q".toList, "-n".toList, "--".toList, "5".toList]).isOk = true by decide +kernel) (by rw [e]; simp [Res.isOk])
  | oob x =>
    exact absurd (show (evalArguments RulesExample.cfg (RulesExample.cfg.initState RulesExample.inits) {}
      ["p".toList, "-q".toList, "-n".toList, "--".toList, "5".toList]).isOk = true by decide +kernel) (by rw [e]; simp [Res.isOk])

/-- … and the joint example above (`Spells`) is a `SpellsPlus` derivation too, so the `…_words_partial`
    theorems apply to it -/
example : SpellsPlus RulesExample.cfg RulesExample.jointUses RulesExample.jointWords :=
  spells_sub_spellsPlus RulesExample.joint_spells

/-! ### Second audit follow-up -/

/-- **What an accepted evaluation leaves in the destinations** — for EVERY accepted run (any argument
    file, environment value and argv; no hypothesis on the configuration beyond one initial value per
    argument): every destination holds `denote` of the values its argument was given, in the order the
    evaluation logged them (`hf.uses`, which by `C02_parse_faithful(_sources)` is what the words spell,
    and is determined by them: for argv alone by `C01_spelling_unambiguous`, for argument file +
    environment value + argv by `C02_sources_spelling_unambiguous` / `C02_sources_log_determined`,
    Props/C02b.lean). -/
theorem C01_accepted_destinations (cfg : Cfg) (inits : List DVal) (hin : cfg.args.length ≤ inits.length)
    (src : Sources) (argv : List Word) (hf : HState)
    (he : evalArguments cfg (cfg.initState inits) src argv = .ok hf)
    (i : Nat) (d : ArgDef) (v : DVal) (hi : cfg.args[i]? = some d) (hv : inits[i]? = some v)
    (ht : d.kind = .vecInt → ∃ l, v = .vec l) :
    ∃ st, hf.args[i]? = some st ∧ st.dest = denote d v (valsOf i hf.uses) :=
  accepted_dests_denote hin he hi hv ht

/-- **Unused destinations keep their value, for every accepted run** (the light form the second audit
    asked for: none of the completeness hypotheses of `C01_unused_destination_kept`): after ANY accepted
    evaluation, with or without sources, the destination of an argument that was given no value holds
    its initial value. -/
theorem C01_unused_destination_kept_any_run (cfg : Cfg) (inits : List DVal) (hin : cfg.args.length ≤ inits.length)
    (src : Sources) (argv : List Word) (hf : HState)
    (he : evalArguments cfg (cfg.initState inits) src argv = .ok hf)
    (i : Nat) (d : ArgDef) (v : DVal) (hi : cfg.args[i]? = some d) (hv : inits[i]? = some v)
    (ht : d.kind = .vecInt → ∃ l, v = .vec l) (hunused : valsOf i hf.uses = []) :
    ∃ st, hf.args[i]? = some st ∧ st.dest = v := by
  obtain ⟨st, h1, h2⟩ := accepted_dests_denote hin he hi hv ht
  rw [hunused] at h2
  exact ⟨st, h1, h2⟩

/-- **The grammar is a function of the words**: the uses a command line spells are determined by its
    words (so "the uses the words spell" in the theorems above is a definite description). -/
theorem C01_spelling_unambiguous (cfg : Cfg) (ws : List Word) (us us' : List Use)
    (h : SpellsPlus cfg us ws) (h' : SpellsPlus cfg us' ws) : us = us' :=
  SpellsPlus_functional h h'

/-- non-vacuity: `-q -n 5` accepted — the destination of `-o` (unused) keeps its initial value -/
example : ∃ hf st, evalArguments RulesExample.cfg (RulesExample.cfg.initState RulesExample.inits) {}
      ["p".toList, "-q".toList, "-n".toList, "5".toList] = .ok hf ∧ hf.args[2]? = some st ∧
      st.dest = RulesExample.inits.getD 2 default := by
  have hok : (evalArguments RulesExample.cfg (RulesExample.cfg.initState RulesExample.inits) {}
      ["p".toList, "-q".toList, "-n".toList, "5".toList]).isOk = true := by decide +kernel
  cases e : evalArguments RulesExample.cfg (RulesExample.cfg.initState RulesExample.inits) {}
      ["p".toList, "-q".toList, "-n".toList, "5".toList] with
  | ok hf =>
    have hu : valsOf 2 hf.uses = [] := by
      have := C01_accepted_is_what_the_words_spell RulesExample.cfg RulesExample.inits "p".toList _ hf e
      obtain ⟨us, sp, hus, _⟩ := this
      have sp2 : SpellsPlus RulesExample.cfg [⟨3, [], true⟩, ⟨1, "5".toList, true⟩] ["-q".toList, "-n".toList, "5".toList] :=
        spells_sub_spellsPlus (.shortFlag (d := RulesExample.cfg.args.getD 3 default) (by decide) rfl rfl
          (.shortVal (d := RulesExample.cfg.args.getD 1 default) (by decide) rfl (by decide) (by unfold PlainWord; decide) (.nil _)))
      rw [hus, C01_spelling_unambiguous _ _ _ _ sp sp2]
      decide
    obtain ⟨st, h1, h2⟩ := C01_unused_destination_kept_any_run RulesExample.cfg RulesExample.inits (by decide) {} _ hf e
      2 (RulesExample.cfg.args.getD 2 default) (RulesExample.inits.getD 2 default) rfl rfl (fun h => by cases h) hu
    exact ⟨hf, st, rfl, h1, h2⟩
  | throw x => rw [e] at hok; simp [Res.isOk] at hok
  | oob x => rw [e] at hok; simp [Res.isOk] at hok

end CelmaVerif.Props.C01
