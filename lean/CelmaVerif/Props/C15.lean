import CelmaVerif.Lemmas.LogFilesRun
/-
  C15 — rolling log files keep the most recent messages, complete and in order.
  Property theorems only; helper lemmas are in Lemmas/LogFiles*.lean, the model (of the repaired
  code) and the vocabulary used here (`run`, `messages`, `generations`, `retained`, `size`, `cost`,
  `nextCost`, `numGen`, `Admissible`) in Model/LogFiles.lean.

  Setting of every theorem: any policy kind (entry-counted or size-limited), any limit ≥ 1, any number of
  generations, a fresh directory, and *any* history `evs` of `write m` / `restart` events in which every
  message is admissible (fits a generation on its own; no newline inside for the entry-counted policy).
  `run cfg evs` is the state after constructing the policy and performing the events;
  `generations fs (numGen cfg)` are the generation files oldest → newest.
-/
namespace CelmaVerif.Props.C15
open CelmaVerif CelmaVerif.LogFiles

/-- No event of such a history throws, and the policy object stays alive: in particular the file opened
    after a roll always passes its open check. -/
theorem C15_never_throws (cfg : Cfg) (hlim : 1 ≤ cfg.limit) (evs : List Event)
    (hadm : ∀ m ∈ messages evs, Admissible cfg m) (e : Event)
    (he : ∀ m, e = .write m → Admissible cfg m) :
    (start cfg emptyFs).2 = .ok () ∧ ((run cfg evs).step e).2 = .ok () ∧ (run cfg evs).pol.isSome := by
  have hW := run_winv hlim evs hadm
  refine ⟨(start_empty_winv hlim).1, ?_, ?_⟩
  · cases e with
    | write m => exact (step_write_winv hlim hW (he m rfl)).1
    | restart => exact (step_restart_winv hlim hW).1
  · obtain ⟨_, c, k, hp, _⟩ := hW
    rw [hp]; rfl

/-- The generations read from oldest to newest are a suffix of the messages written, in the order
    written: the most recent messages, none lost, duplicated, reordered or truncated in between. -/
theorem C15_suffix (cfg : Cfg) (hlim : 1 ≤ cfg.limit) (evs : List Event)
    (hadm : ∀ m ∈ messages evs, Admissible cfg m) :
    (generations (run cfg evs).fs (numGen cfg)).flatten <:+ messages evs := by
  obtain ⟨_, c, k, _, hI⟩ := run_winv hlim evs hadm
  rw [generations_flatten]
  exact hI.suf

/-- Nothing at all is lost as long as fewer generation files exist than the configuration allows: messages
    only ever disappear with the oldest generation when the maximum number of files is reached. -/
theorem C15_no_loss_until_full (cfg : Cfg) (hlim : 1 ≤ cfg.limit) (evs : List Event)
    (hadm : ∀ m ∈ messages evs, Admissible cfg m)
    (hfew : (generations (run cfg evs).fs (numGen cfg)).length < numGen cfg) :
    (generations (run cfg evs).fs (numGen cfg)).flatten = messages evs := by
  obtain ⟨_, c, k, _, hI⟩ := run_winv hlim evs hadm
  rw [generations_length hI.ex hI.nex] at hfew
  rw [generations_flatten]
  have := hI.k_le
  exact hI.all (by omega)

/-- No generation exceeds the configured limit (entries resp. bytes including the newlines). -/
theorem C15_limit (cfg : Cfg) (hlim : 1 ≤ cfg.limit) (evs : List Event)
    (hadm : ∀ m ∈ messages evs, Admissible cfg m) :
    ∀ g ∈ generations (run cfg evs).fs (numGen cfg), size cfg g ≤ cfg.limit := by
  obtain ⟨_, c, k, _, hI⟩ := run_winv hlim evs hadm
  intro g hg
  obtain ⟨i, _, hi⟩ := mem_generations.mp hg
  exact hI.lim i g hi

/-- A new generation is started only when the next message would exceed the limit: for a generation `g`
    (number n+1) and the next newer one `g'` (number n), `g` could not have taken the first message of `g'`;
    when `g'` is still empty (the process was restarted on a generation that was exactly full), `g` cannot
    take any message at all.  The generation numbers in use have no holes, so these are all neighbours. -/
theorem C15_roll_only_when_needed (cfg : Cfg) (hlim : 1 ≤ cfg.limit) (evs : List Event)
    (hadm : ∀ m ∈ messages evs, Admissible cfg m) :
    (∀ n g g', (run cfg evs).fs.get (n + 1) = some g → (run cfg evs).fs.get n = some g' →
      cfg.limit < size cfg g + nextCost cfg g') ∧
    (∀ n, (run cfg evs).fs.get (n + 1) ≠ none → (run cfg evs).fs.get n ≠ none) := by
  obtain ⟨_, c, k, _, hI⟩ := run_winv hlim evs hadm
  refine ⟨hI.adj, ?_⟩
  intro n hn
  apply hI.ex
  by_cases h : n + 1 < k
  · omega
  · exact absurd (hI.nex (n + 1) (by omega)) hn

/-- At most `max_gen` generation files exist (one when `max_gen` < 1), and none has a number outside
    0 … max_gen-1. -/
theorem C15_generation_count (cfg : Cfg) (hlim : 1 ≤ cfg.limit) (evs : List Event)
    (hadm : ∀ m ∈ messages evs, Admissible cfg m) :
    (generations (run cfg evs).fs (numGen cfg)).length ≤ numGen cfg ∧
    (∀ n, numGen cfg ≤ n → (run cfg evs).fs.get n = none) ∧
    (1 ≤ cfg.maxGen → numGen cfg = cfg.maxGen) := by
  obtain ⟨_, c, k, _, hI⟩ := run_winv hlim evs hadm
  refine ⟨generations_length_le _ _, ?_, ?_⟩
  · intro n hn
    have := hI.k_le
    exact hI.nex n (by omega)
  · intro h; unfold numGen; split <;> omega

/-- The step function (what makes the property functional): writing `m` after any such history appends it
    to generation 0 and touches nothing else when it fits, i.e. size + cost ≤ limit; otherwise — and only
    then — every generation moves up by one number (the one that would get number `numGen` is dropped) and
    `m` starts the new generation 0. -/
theorem C15_write_step (cfg : Cfg) (hlim : 1 ≤ cfg.limit) (evs : List Event)
    (hadm : ∀ m ∈ messages evs, Admissible cfg m) (m : Msg) :
    ∃ f, (run cfg evs).fs.get 0 = some f ∧
      (size cfg f + cost cfg m ≤ cfg.limit →
        ∀ i, (run cfg (evs ++ [.write m])).fs.get i = if i = 0 then some (f ++ [m]) else (run cfg evs).fs.get i) ∧
      (cfg.limit < size cfg f + cost cfg m →
        ∀ i, (run cfg (evs ++ [.write m])).fs.get i =
          if i = 0 then some [m] else if i < numGen cfg then (run cfg evs).fs.get (i - 1) else none) := by
  have hW := run_winv hlim evs hadm
  obtain ⟨_, c, k, _, hI⟩ := run_winv hlim evs hadm
  obtain ⟨f, h0, _, _⟩ := hI.cur
  have e : run cfg (evs ++ [.write m]) = ((run cfg evs).step (.write m)).1 := by
    rw [run_eq, run_eq, runFrom_append]
  rw [e]
  exact ⟨f, h0, step_write_fs m hlim hW h0⟩

/-- Restarting the process leaves every file as it is, except when generation 0 is exactly full (no
    message whatsoever fits any more): then the generations are rolled and generation 0 starts empty. -/
theorem C15_restart_step (cfg : Cfg) (hlim : 1 ≤ cfg.limit) (evs : List Event)
    (hadm : ∀ m ∈ messages evs, Admissible cfg m) :
    ∃ f, (run cfg evs).fs.get 0 = some f ∧
      (size cfg f < cfg.limit → ∀ i, (run cfg (evs ++ [.restart])).fs.get i = (run cfg evs).fs.get i) ∧
      (cfg.limit ≤ size cfg f →
        ∀ i, (run cfg (evs ++ [.restart])).fs.get i =
          if i = 0 then some [] else if i < numGen cfg then (run cfg evs).fs.get (i - 1) else none) := by
  have hW := run_winv hlim evs hadm
  obtain ⟨_, c, k, _, hI⟩ := run_winv hlim evs hadm
  obtain ⟨f, h0, _, _⟩ := hI.cur
  have e : run cfg (evs ++ [.restart]) = ((run cfg evs).step .restart).1 := by
    rw [run_eq, run_eq, runFrom_append]
  rw [e]
  exact ⟨f, h0, step_restart_fs hlim hW h0⟩

/-! ### non-vacuity: the hypotheses are satisfiable and the model computes what one expects -/

/-- two entries per file, two files; five messages and two restarts: the oldest two messages are gone -/
example :
    let cfg : Cfg := ⟨.counted, 2, 2⟩
    let evs : List Event := [.write [97], .write [98], .restart, .write [99], .write [100], .restart, .write [101]]
    (∀ m ∈ messages evs, Admissible cfg m) ∧ 1 ≤ cfg.limit ∧
    generations (run cfg evs).fs (numGen cfg) = [[[99], [100]], [[101]]] ∧
    messages evs = [[97], [98], [99], [100], [101]] := by
  refine ⟨?_, by decide, by decide, by decide⟩
  intro m hm
  simp [messages] at hm
  rcases hm with h | h | h | h | h <;> subst h <;> exact ⟨by decide, by decide⟩

/-- 8 bytes per file, three files: "ab\n" "cde\n" fill 7 of 8 bytes, "f\n" (2) does not fit any more -/
example :
    let cfg : Cfg := ⟨.maxsize, 8, 3⟩
    let evs : List Event := [.write [97, 98], .write [99, 100, 101], .restart, .write [102]]
    (∀ m ∈ messages evs, Admissible cfg m) ∧
    generations (run cfg evs).fs (numGen cfg) = [[[97, 98], [99, 100, 101]], [[102]]] ∧
    (generations (run cfg evs).fs (numGen cfg)).length < numGen cfg := by
  refine ⟨?_, by decide, by decide⟩
  intro m hm
  simp [messages] at hm
  rcases hm with h | h | h <;> subst h <;> exact ⟨by decide, by intro h; cases h⟩

end CelmaVerif.Props.C15
