import CelmaVerif.Lemmas.LogFilesHist
/-
  C15 — rolling log files keep the most recent messages, complete and in order.
  Property theorems only; helper lemmas are in Lemmas/LogFiles*.lean, the model (of the repaired
  code) and the vocabulary used here (`run`, `messages`, `generations`, `retained`, `size`, `cost`,
  `nextCost`, `numGen`, `Writable`, `Admissible`, `GenOk`) in Model/LogFiles.lean.

  Setting of every theorem: any policy kind (entry-counted or size-limited), any limit ≥ 1, any number of
  generations, a fresh directory, and *any* history `evs` of `write m` / `restart` events in which every
  message is `Writable`: any length — also longer than a whole generation — and, for the entry-counted
  policy only, no newline inside.
  `run cfg evs` is the state after constructing the policy and performing the events;
  `generations fs (numGen cfg)` are the generation files oldest → newest.

  Messages that do not fit a generation on their own are part of the domain.  The limit clause of the
  property is read as `GenOk`: a generation respects the limit, or it consists of exactly one message (which
  then is longer than the limit: there is nowhere else to put it).  The "only when needed" clause is
  unchanged: a generation is started exactly when the message does not fit behind the current content
  (`C15_write_step`); an over-long message never fits, so it always starts a generation and the next message
  starts another one.

  Layout (audit follow-up 2026-09-30).  Part 1 states everything for a history that starts from *any*
  well-formed state (`…_from`): `WInv cfg w msgs` = a live policy object of configuration `cfg` on a directory
  that satisfies the invariant, `msgs` being what was written before; `C15_invariant_fresh`,
  `C15_invariant_of_directory` and `C15_invariant_from` say which states these are (the fresh directory, a policy
  constructed on any pre-existing directory of the shape `DirOk`, and every state reached from one of them);
  files with foreign names stay outside.  Part 2 are the same theorems for a fresh directory (`run cfg evs`),
  corollaries of part 1 under their old names.  Part 3 are the history-level statements the audit asked for:
  the most recent message is retained (`C15_latest_retained_partial`, with the exact exception `C15_latest_lost_iff`),
  one event drops at most the oldest generation (`C15_drop_at_most_oldest`), and how much is retained
  (`C15_counted_window`, `C15_retained_size_bound`).
-/
namespace CelmaVerif.Props.C15
open CelmaVerif CelmaVerif.LogFiles

/-! ## Part 1: from any well-formed state -/

/-- A fresh directory with a freshly constructed policy is a well-formed state (nothing written so far), and the
    construction returns normally. -/
theorem C15_invariant_fresh (cfg : Cfg) (hlim : 1 ≤ cfg.limit) :
    (start cfg emptyFs).2 = .ok () ∧ WInv cfg (start cfg emptyFs).1 [] :=
  start_empty_winv hlim

/-- Constructing the policy on a pre-existing directory `gs` (generation files newest first, nothing else with a
    generation name) of the shape `DirOk cfg gs msgs` — between one and `numGen` files, each within the limit or
    one single message, each but the newest unable to take the first message of the next one, together a suffix
    of `msgs` (all of `msgs` while fewer than `numGen` files exist), no newline inside the messages of the newest
    file for the entry-counted policy — returns normally and gives a well-formed state.  So every `…_from`
    theorem applies to histories that start on such a directory, not only on an empty one. -/
theorem C15_invariant_of_directory (cfg : Cfg) (hlim : 1 ≤ cfg.limit) (gs : List File) (msgs : List Msg)
    (hd : DirOk cfg gs msgs) :
    (start cfg (dirOf gs)).2 = .ok () ∧ WInv cfg (start cfg (dirOf gs)).1 msgs :=
  step_restart_winv hlim (winv_dirOf hd)

/-- Well-formed states stay well-formed along every history of writable messages and restarts (`msgs` grows
    by the messages of the history): the `…_from` theorems can be chained. -/
theorem C15_invariant_from (cfg : Cfg) (hlim : 1 ≤ cfg.limit) (w : World) (msgs : List Msg)
    (hW : WInv cfg w msgs) (evs : List Event) (hadm : ∀ m ∈ messages evs, Writable cfg m) :
    WInv cfg (runFrom w evs) (msgs ++ messages evs) :=
  runFrom_winv hlim evs w msgs hW hadm

/-- From any well-formed state: no event of such a history throws, and the policy object stays alive. -/
theorem C15_never_throws_from (cfg : Cfg) (hlim : 1 ≤ cfg.limit) (w : World) (msgs : List Msg)
    (hW : WInv cfg w msgs) (evs : List Event) (hadm : ∀ m ∈ messages evs, Writable cfg m) (e : Event)
    (he : ∀ m, e = .write m → Writable cfg m) :
    ((runFrom w evs).step e).2 = .ok () ∧ (runFrom w evs).pol.isSome := by
  have hW' := runFrom_winv hlim evs w msgs hW hadm
  refine ⟨?_, ?_⟩
  · cases e with
    | write m => exact (step_write_winv hlim hW' (he m rfl)).1
    | restart => exact (step_restart_winv hlim hW').1
  · obtain ⟨_, c, k, hp, _⟩ := hW'
    rw [hp]; rfl

/-- From any well-formed state: the generations read oldest → newest are a suffix of everything written
    (before and during the history), in the order written. -/
theorem C15_suffix_from (cfg : Cfg) (hlim : 1 ≤ cfg.limit) (w : World) (msgs : List Msg)
    (hW : WInv cfg w msgs) (evs : List Event) (hadm : ∀ m ∈ messages evs, Writable cfg m) :
    (generations (runFrom w evs).fs (numGen cfg)).flatten <:+ msgs ++ messages evs := by
  obtain ⟨_, c, k, _, hI⟩ := runFrom_winv hlim evs w msgs hW hadm
  rw [generations_flatten]
  exact hI.suf

/-- From any well-formed state: nothing at all is lost as long as fewer generation files exist than the
    configuration allows. -/
theorem C15_no_loss_until_full_from (cfg : Cfg) (hlim : 1 ≤ cfg.limit) (w : World) (msgs : List Msg)
    (hW : WInv cfg w msgs) (evs : List Event) (hadm : ∀ m ∈ messages evs, Writable cfg m)
    (hfew : (generations (runFrom w evs).fs (numGen cfg)).length < numGen cfg) :
    (generations (runFrom w evs).fs (numGen cfg)).flatten = msgs ++ messages evs := by
  obtain ⟨_, c, k, _, hI⟩ := runFrom_winv hlim evs w msgs hW hadm
  rw [generations_length hI.ex hI.nex] at hfew
  rw [generations_flatten]
  have := hI.k_le
  exact hI.all (by omega)

/-- From any well-formed state: every generation is `GenOk` (within the limit, or exactly one message). -/
theorem C15_limit_from (cfg : Cfg) (hlim : 1 ≤ cfg.limit) (w : World) (msgs : List Msg)
    (hW : WInv cfg w msgs) (evs : List Event) (hadm : ∀ m ∈ messages evs, Writable cfg m) :
    ∀ g ∈ generations (runFrom w evs).fs (numGen cfg), GenOk cfg g := by
  obtain ⟨_, c, k, _, hI⟩ := runFrom_winv hlim evs w msgs hW hadm
  intro g hg
  obtain ⟨i, _, hi⟩ := mem_generations.mp hg
  exact hI.lim i g hi

/-- From any well-formed state: a generation that exceeds the limit is one single message that does not fit a
    generation on its own; a message longer than the limit is alone in its generation; every generation with two
    or more messages respects the limit. -/
theorem C15_oversize_alone_from (cfg : Cfg) (hlim : 1 ≤ cfg.limit) (w : World) (msgs : List Msg)
    (hW : WInv cfg w msgs) (evs : List Event) (hadm : ∀ m ∈ messages evs, Writable cfg m) :
    ∀ g ∈ generations (runFrom w evs).fs (numGen cfg),
      (cfg.limit < size cfg g → ∃ m, g = [m] ∧ cfg.limit < cost cfg m) ∧
      (∀ m ∈ g, cfg.limit < cost cfg m → g = [m]) ∧
      (2 ≤ g.length → size cfg g ≤ cfg.limit) := by
  intro g hg
  have hok := C15_limit_from cfg hlim w msgs hW evs hadm g hg
  refine ⟨genOk_exceeds hok, ?_, ?_⟩
  · intro m hm hlong
    have := cost_le_size_of_mem cfg hm
    obtain ⟨m', hg', _⟩ := genOk_exceeds hok (by omega)
    subst hg'
    simp at hm
    rw [hm]
  · intro h2
    rcases hok with h | h
    · exact h
    · omega

/-- From any well-formed state: a generation all of whose own messages fit a generation respects the limit. -/
theorem C15_limit_fitting_from (cfg : Cfg) (hlim : 1 ≤ cfg.limit) (w : World) (msgs : List Msg)
    (hW : WInv cfg w msgs) (evs : List Event) (hadm : ∀ m ∈ messages evs, Writable cfg m) :
    ∀ g ∈ generations (runFrom w evs).fs (numGen cfg), (∀ m ∈ g, cost cfg m ≤ cfg.limit) → size cfg g ≤ cfg.limit := by
  intro g hg hfit
  exact genOk_fitting (C15_limit_from cfg hlim w msgs hW evs hadm g hg) hfit

/-- From any well-formed state: when every message (written before or during the history) fits a generation on
    its own, no generation exceeds the limit. -/
theorem C15_limit_admissible_from (cfg : Cfg) (hlim : 1 ≤ cfg.limit) (w : World) (msgs : List Msg)
    (hW : WInv cfg w msgs) (evs : List Event) (hadm : ∀ m ∈ msgs ++ messages evs, Admissible cfg m) :
    ∀ g ∈ generations (runFrom w evs).fs (numGen cfg), size cfg g ≤ cfg.limit := by
  have hw : ∀ m ∈ messages evs, Writable cfg m := fun m hm => (hadm m (List.mem_append_right _ hm)).2
  intro g hg
  apply C15_limit_fitting_from cfg hlim w msgs hW evs hw g hg
  intro m hm
  obtain ⟨i, hi, hgi⟩ := mem_generations.mp hg
  have hmem : m ∈ retained (runFrom w evs).fs (numGen cfg) := mem_retained hi hgi hm
  have hsuf := C15_suffix_from cfg hlim w msgs hW evs hw
  rw [generations_flatten] at hsuf
  exact (hadm m (hsuf.subset hmem)).1

/-- From any well-formed state: neighbouring generations n+1 (`g`, older) and n (`g'`): `g` could not take the
    first message of `g'` (no message at all when `g'` is still empty); generation numbers in use have no holes. -/
theorem C15_roll_only_when_needed_from (cfg : Cfg) (hlim : 1 ≤ cfg.limit) (w : World) (msgs : List Msg)
    (hW : WInv cfg w msgs) (evs : List Event) (hadm : ∀ m ∈ messages evs, Writable cfg m) :
    (∀ n g g', (runFrom w evs).fs.get (n + 1) = some g → (runFrom w evs).fs.get n = some g' →
      cfg.limit < size cfg g + nextCost cfg g') ∧
    (∀ n, (runFrom w evs).fs.get (n + 1) ≠ none → (runFrom w evs).fs.get n ≠ none) := by
  obtain ⟨_, c, k, _, hI⟩ := runFrom_winv hlim evs w msgs hW hadm
  refine ⟨hI.adj, ?_⟩
  intro n hn
  apply hI.ex
  by_cases h : n + 1 < k
  · omega
  · exact absurd (hI.nex (n + 1) (by omega)) hn

/-- From any well-formed state: at most `numGen` generation files, none with a number outside 0 … numGen-1. -/
theorem C15_generation_count_from (cfg : Cfg) (hlim : 1 ≤ cfg.limit) (w : World) (msgs : List Msg)
    (hW : WInv cfg w msgs) (evs : List Event) (hadm : ∀ m ∈ messages evs, Writable cfg m) :
    (generations (runFrom w evs).fs (numGen cfg)).length ≤ numGen cfg ∧
    (∀ n, numGen cfg ≤ n → (runFrom w evs).fs.get n = none) ∧
    (1 ≤ cfg.maxGen → numGen cfg = cfg.maxGen) := by
  obtain ⟨_, c, k, _, hI⟩ := runFrom_winv hlim evs w msgs hW hadm
  refine ⟨generations_length_le _ _, ?_, ?_⟩
  · intro n hn
    have := hI.k_le
    exact hI.nex n (by omega)
  · intro h; unfold numGen; split <;> omega

/-- From any well-formed state, the step function of a write: `m` is appended to generation 0 and nothing else
    changes iff it fits (size + cost ≤ limit); otherwise every generation moves up by one number (the one that
    would get number `numGen` is dropped) and `m` starts the new generation 0. -/
theorem C15_write_step_from (cfg : Cfg) (hlim : 1 ≤ cfg.limit) (w : World) (msgs : List Msg)
    (hW : WInv cfg w msgs) (evs : List Event) (hadm : ∀ m ∈ messages evs, Writable cfg m) (m : Msg) :
    ∃ f, (runFrom w evs).fs.get 0 = some f ∧
      (size cfg f + cost cfg m ≤ cfg.limit →
        ∀ i, (runFrom w (evs ++ [.write m])).fs.get i = if i = 0 then some (f ++ [m]) else (runFrom w evs).fs.get i) ∧
      (cfg.limit < size cfg f + cost cfg m →
        ∀ i, (runFrom w (evs ++ [.write m])).fs.get i =
          if i = 0 then some [m] else if i < numGen cfg then (runFrom w evs).fs.get (i - 1) else none) := by
  have hW' := runFrom_winv hlim evs w msgs hW hadm
  obtain ⟨_, c, k, _, hI⟩ := hW'
  obtain ⟨f, h0, _, _⟩ := hI.cur
  rw [runFrom_append]
  exact ⟨f, h0, step_write_fs m hlim (runFrom_winv hlim evs w msgs hW hadm) h0⟩

/-- From any well-formed state, the step function of a restart: every file stays as it is, except when
    generation 0 can take no further message (size ≥ limit): then the generations are rolled and generation 0
    starts empty. -/
theorem C15_restart_step_from (cfg : Cfg) (hlim : 1 ≤ cfg.limit) (w : World) (msgs : List Msg)
    (hW : WInv cfg w msgs) (evs : List Event) (hadm : ∀ m ∈ messages evs, Writable cfg m) :
    ∃ f, (runFrom w evs).fs.get 0 = some f ∧
      (size cfg f < cfg.limit → ∀ i, (runFrom w (evs ++ [.restart])).fs.get i = (runFrom w evs).fs.get i) ∧
      (cfg.limit ≤ size cfg f →
        ∀ i, (runFrom w (evs ++ [.restart])).fs.get i =
          if i = 0 then some [] else if i < numGen cfg then (runFrom w evs).fs.get (i - 1) else none) := by
  have hW' := runFrom_winv hlim evs w msgs hW hadm
  obtain ⟨_, c, k, _, hI⟩ := hW'
  obtain ⟨f, h0, _, _⟩ := hI.cur
  rw [runFrom_append]
  exact ⟨f, h0, step_restart_fs hlim (runFrom_winv hlim evs w msgs hW hadm) h0⟩

/-- **The most recent message is retained** (from any well-formed state; `_partial` for the same reason as
    `C15_latest_retained_partial`: the side condition `h2` excludes the recorded finding
    `C15_finding_single_file_restart`).  After a history in which at least one
    message was ever written, the last message written is the last message of the generations read oldest →
    newest — so what is retained is never empty — provided at least two generation files are configured or
    generation 0 is not empty (`C15_latest_lost_iff_from`: this side condition is exact).  More precisely: a
    non-empty generation 0 ends with the most recent message; when generation 0 is empty (a restart found its
    predecessor unable to take any message and started a new generation), generation 1 is not empty and ends
    with it.  Over-long messages need no side condition. -/
theorem C15_latest_retained_partial_from (cfg : Cfg) (hlim : 1 ≤ cfg.limit) (w : World) (msgs : List Msg)
    (hW : WInv cfg w msgs) (evs : List Event) (hadm : ∀ m ∈ messages evs, Writable cfg m)
    (hne : msgs ++ messages evs ≠ [])
    (h2 : 2 ≤ numGen cfg ∨ (runFrom w evs).fs.get 0 ≠ some []) :
    (generations (runFrom w evs).fs (numGen cfg)).flatten.getLast? = (msgs ++ messages evs).getLast? ∧
    (generations (runFrom w evs).fs (numGen cfg)).flatten ≠ [] ∧
    (∀ f, (runFrom w evs).fs.get 0 = some f → f ≠ [] → f.getLast? = (msgs ++ messages evs).getLast?) ∧
    (∀ g, (runFrom w evs).fs.get 0 = some [] → (runFrom w evs).fs.get 1 = some g →
      g ≠ [] ∧ g.getLast? = (msgs ++ messages evs).getLast?) := by
  obtain ⟨_, c, k, _, hI⟩ := runFrom_winv hlim evs w msgs hW hadm
  rw [generations_flatten]
  exact ⟨inv_latest hlim hI hne h2, inv_retained_ne_nil hlim hI hne h2,
    fun f h0 hf => inv_latest_cur hI h0 hf, fun g h0 h1 => inv_latest_prev hlim hI h0 h1⟩

/-- Directly after a write (from any well-formed state) — whatever the number of generation files, whatever the
    length of the message — the message just written is the last line of generation 0 and the last message of
    the generations read oldest → newest. -/
theorem C15_latest_retained_after_write_from (cfg : Cfg) (hlim : 1 ≤ cfg.limit) (w : World) (msgs : List Msg)
    (hW : WInv cfg w msgs) (evs : List Event) (hadm : ∀ m ∈ messages evs, Writable cfg m) (m : Msg) :
    ∃ f, (runFrom w (evs ++ [.write m])).fs.get 0 = some f ∧ f.getLast? = some m ∧
      (generations (runFrom w (evs ++ [.write m])).fs (numGen cfg)).flatten.getLast? = some m := by
  obtain ⟨f, _, hfit, hroll⟩ := C15_write_step_from cfg hlim w msgs hW evs hadm m
  have hK := numGen_pos cfg
  have key : ∀ f', (runFrom w (evs ++ [.write m])).fs.get 0 = some f' → f'.getLast? = some m →
      (generations (runFrom w (evs ++ [.write m])).fs (numGen cfg)).flatten.getLast? = some m := by
    intro f' h0 hl
    rw [generations_flatten]
    obtain ⟨t, ht⟩ := retained_ends0 (runFrom w (evs ++ [.write m])).fs (numGen cfg - 1)
    have e : numGen cfg - 1 + 1 = numGen cfg := by omega
    rw [e, h0] at ht
    rw [ht, List.getLast?_append, Option.getD_some, hl]; rfl
  by_cases h : size cfg f + cost cfg m ≤ cfg.limit
  · have h0 := hfit h 0
    simp only [if_true] at h0
    exact ⟨_, h0, by simp, key _ h0 (by simp)⟩
  · have h0 := hroll (by omega) 0
    simp only [if_true] at h0
    exact ⟨_, h0, by simp, key _ h0 (by simp)⟩

/-- The side condition of `C15_latest_retained_partial_from` is exact: once a message was written, the most recent
    message is *not* the last retained one iff a single generation file is configured (`max_gen ≤ 1`) and it is
    empty — the state a restart leaves behind when it finds the only file unable to take another message (it
    truncates it, as every roll-over does with a single file); then nothing at all is retained. -/
theorem C15_latest_lost_iff_from (cfg : Cfg) (hlim : 1 ≤ cfg.limit) (w : World) (msgs : List Msg)
    (hW : WInv cfg w msgs) (evs : List Event) (hadm : ∀ m ∈ messages evs, Writable cfg m)
    (hne : msgs ++ messages evs ≠ []) :
    ((generations (runFrom w evs).fs (numGen cfg)).flatten.getLast? ≠ (msgs ++ messages evs).getLast? ↔
      numGen cfg = 1 ∧ (runFrom w evs).fs.get 0 = some []) ∧
    (numGen cfg = 1 → (runFrom w evs).fs.get 0 = some [] →
      (generations (runFrom w evs).fs (numGen cfg)).flatten = []) := by
  have hK := numGen_pos cfg
  have hempty : numGen cfg = 1 → (runFrom w evs).fs.get 0 = some [] →
      (generations (runFrom w evs).fs (numGen cfg)).flatten = [] := by
    intro h1 h0
    rw [generations_flatten, h1]
    simp [retained, h0]
  refine ⟨⟨?_, ?_⟩, hempty⟩
  · intro hlost
    by_cases hc : numGen cfg = 1 ∧ (runFrom w evs).fs.get 0 = some []
    · exact hc
    · exfalso
      apply hlost
      refine (C15_latest_retained_partial_from cfg hlim w msgs hW evs hadm hne ?_).1
      by_cases h2 : 2 ≤ numGen cfg
      · exact Or.inl h2
      · right; intro h0; exact hc ⟨by omega, h0⟩
  · intro ⟨h1, h0⟩
    rw [hempty h1 h0]
    cases hl : (msgs ++ messages evs).getLast? with
    | none => exact absurd (List.getLast?_eq_none_iff.mp hl) hne
    | some x => simp

/-- **One event drops at most the oldest generation** (from any well-formed state).  Let `oldest` be the content
    of generation number `numGen-1` (nothing when that file does not exist — in particular whenever fewer than
    `numGen` files exist) and `rest` the younger generations, so that the retained text is `oldest ++ rest`.
    One further event `e` (`messages [e]` is `[m]` for `write m`, `[]` for a restart; `nextCost` of it is the cost
    of `m`, resp. 1 = the cost of the cheapest message) leaves `oldest ++ rest ++ messages [e]` when no roll-over
    is needed (`size f + nextCost … ≤ limit`), and exactly `rest ++ messages [e]` otherwise.  So the retained text
    afterwards is the text before, minus at most the whole oldest generation, plus the new message; something
    is dropped iff a roll-over happens (message does not fit / restart on a generation 0 that can take no
    message) while generation `numGen-1` exists and is not empty. -/
theorem C15_drop_at_most_oldest_from (cfg : Cfg) (hlim : 1 ≤ cfg.limit) (w : World) (msgs : List Msg)
    (hW : WInv cfg w msgs) (evs : List Event) (hadm : ∀ m ∈ messages evs, Writable cfg m) (e : Event) :
    ∃ f oldest rest,
      (runFrom w evs).fs.get 0 = some f ∧
      oldest = ((runFrom w evs).fs.get (numGen cfg - 1)).getD [] ∧
      (generations (runFrom w evs).fs (numGen cfg)).flatten = oldest ++ rest ∧
      ((generations (runFrom w evs).fs (numGen cfg)).length < numGen cfg → oldest = []) ∧
      (size cfg f + nextCost cfg (messages [e]) ≤ cfg.limit →
        (generations (runFrom w (evs ++ [e])).fs (numGen cfg)).flatten = oldest ++ rest ++ messages [e]) ∧
      (cfg.limit < size cfg f + nextCost cfg (messages [e]) →
        (generations (runFrom w (evs ++ [e])).fs (numGen cfg)).flatten = rest ++ messages [e]) ∧
      ((generations (runFrom w (evs ++ [e])).fs (numGen cfg)).flatten = oldest ++ rest ++ messages [e] ↔
        (size cfg f + nextCost cfg (messages [e]) ≤ cfg.limit ∨ oldest = [])) := by
  have hW' := runFrom_winv hlim evs w msgs hW hadm
  obtain ⟨_, c, k, _, hI⟩ := hW'
  obtain ⟨f, h0, _, _⟩ := hI.cur
  obtain ⟨hfit, hroll⟩ := step_retained e hlim (runFrom_winv hlim evs w msgs hW hadm) h0
  have hsplit := retained_split cfg (runFrom w evs).fs
  have hK := numGen_pos cfg
  refine ⟨f, _, retained (runFrom w evs).fs (numGen cfg - 1), h0, rfl, ?_, ?_, ?_, ?_, ?_⟩
  · rw [generations_flatten]; exact hsplit
  · intro hfew
    rw [generations_length hI.ex hI.nex] at hfew
    have := hI.k_le
    rw [hI.nex (numGen cfg - 1) (by omega)]; rfl
  · intro h
    rw [runFrom_append, generations_flatten, hfit h, hsplit]
  · intro h
    rw [runFrom_append, generations_flatten, hroll h]
  · rw [runFrom_append, generations_flatten]
    constructor
    · intro heq
      by_cases h : size cfg f + nextCost cfg (messages [e]) ≤ cfg.limit
      · exact Or.inl h
      · right
        rw [hroll (by omega)] at heq
        have hl := congrArg List.length heq
        simp only [List.length_append] at hl
        exact List.eq_nil_of_length_eq_zero (by omega)
    · intro h
      by_cases hf : size cfg f + nextCost cfg (messages [e]) ≤ cfg.limit
      · rw [hfit hf, hsplit]
      · rcases h with h | h
        · exact absurd h hf
        · rw [hroll (by omega), h]; rfl

/-- **How much is retained, entry-counted files** (from any well-formed state): exactly the last
    `(numGen-1) * limit + n0` messages of everything written (all of them when fewer were written), where `n0 ≤
    limit` is the number of messages in generation 0.  In particular at least the last `(numGen-1) * limit`
    messages are always retained, and at least the last `(numGen-1) * limit + 1` when generation 0 is not empty
    (e.g. directly after a write). -/
theorem C15_counted_window_from (cfg : Cfg) (hlim : 1 ≤ cfg.limit) (hk : cfg.kind = .counted) (w : World)
    (msgs : List Msg) (hW : WInv cfg w msgs) (evs : List Event) (hadm : ∀ m ∈ messages evs, Writable cfg m) :
    ∃ f, (runFrom w evs).fs.get 0 = some f ∧ f.length ≤ cfg.limit ∧
      (generations (runFrom w evs).fs (numGen cfg)).flatten.length =
        min (msgs ++ messages evs).length ((numGen cfg - 1) * cfg.limit + f.length) ∧
      (generations (runFrom w evs).fs (numGen cfg)).flatten =
        (msgs ++ messages evs).drop ((msgs ++ messages evs).length - ((numGen cfg - 1) * cfg.limit + f.length)) := by
  obtain ⟨_, c, k, _, hI⟩ := runFrom_winv hlim evs w msgs hW hadm
  obtain ⟨f, h0, _, _⟩ := hI.cur
  have hcount := inv_counted_count hlim hk hI h0
  have hf : f.length ≤ cfg.limit := by
    have := hI.lim 0 f h0
    unfold GenOk at this
    simp only [size, hk] at this
    omega
  refine ⟨f, h0, hf, ?_, ?_⟩
  · rw [generations_flatten]; exact hcount
  · rw [generations_flatten]
    have := List.suffix_iff_eq_drop.mp hI.suf
    rw [hcount] at this
    rw [this]
    congr 1
    omega

/-- **How much is retained, both kinds** (from any well-formed state), in the unit of the limit (entries resp.
    bytes including newlines): when every message costs at most `cmax`, either everything written is retained or
    the retained generations hold at least `(numGen-1) * (limit + 1 - cmax) + size of generation 0` — every
    generation but the newest was filled to within less than one (largest) message of the limit.  For the
    entry-counted policy (`cmax = 1`) this is the lower half of `C15_counted_window_from`. -/
theorem C15_retained_size_bound_from (cfg : Cfg) (hlim : 1 ≤ cfg.limit) (w : World) (msgs : List Msg)
    (hW : WInv cfg w msgs) (evs : List Event) (hadm : ∀ m ∈ messages evs, Writable cfg m)
    (cmax : Nat) (hc1 : 1 ≤ cmax) (hcost : ∀ m ∈ msgs ++ messages evs, cost cfg m ≤ cmax) :
    ∃ f, (runFrom w evs).fs.get 0 = some f ∧
      ((generations (runFrom w evs).fs (numGen cfg)).flatten = msgs ++ messages evs ∨
       (numGen cfg - 1) * (cfg.limit + 1 - cmax) + size cfg f ≤
         size cfg (generations (runFrom w evs).fs (numGen cfg)).flatten) := by
  obtain ⟨_, c, k, _, hI⟩ := runFrom_winv hlim evs w msgs hW hadm
  obtain ⟨f, h0, _, _⟩ := hI.cur
  refine ⟨f, h0, ?_⟩
  rw [generations_flatten]
  exact inv_size_bound cmax hc1 hI (fun m hm => hcost m (hI.suf.subset hm)) h0

/-! ## Part 2: from a fresh directory (`run cfg evs`), corollaries of part 1 -/

/-- No event of such a history throws, and the policy object stays alive: in particular the file opened
    after a roll always passes its open check. -/
theorem C15_never_throws (cfg : Cfg) (hlim : 1 ≤ cfg.limit) (evs : List Event)
    (hadm : ∀ m ∈ messages evs, Writable cfg m) (e : Event)
    (he : ∀ m, e = .write m → Writable cfg m) :
    (start cfg emptyFs).2 = .ok () ∧ ((run cfg evs).step e).2 = .ok () ∧ (run cfg evs).pol.isSome :=
  ⟨(C15_invariant_fresh cfg hlim).1,
   C15_never_throws_from cfg hlim _ [] (C15_invariant_fresh cfg hlim).2 evs hadm e he⟩

/-- The generations read from oldest to newest are a suffix of the messages written, in the order
    written: the most recent messages, none lost, duplicated, reordered or truncated in between. -/
theorem C15_suffix (cfg : Cfg) (hlim : 1 ≤ cfg.limit) (evs : List Event)
    (hadm : ∀ m ∈ messages evs, Writable cfg m) :
    (generations (run cfg evs).fs (numGen cfg)).flatten <:+ messages evs :=
  C15_suffix_from cfg hlim _ [] (C15_invariant_fresh cfg hlim).2 evs hadm

/-- Nothing at all is lost as long as fewer generation files exist than the configuration allows: messages
    only ever disappear with the oldest generation when the maximum number of files is reached. -/
theorem C15_no_loss_until_full (cfg : Cfg) (hlim : 1 ≤ cfg.limit) (evs : List Event)
    (hadm : ∀ m ∈ messages evs, Writable cfg m)
    (hfew : (generations (run cfg evs).fs (numGen cfg)).length < numGen cfg) :
    (generations (run cfg evs).fs (numGen cfg)).flatten = messages evs :=
  C15_no_loss_until_full_from cfg hlim _ [] (C15_invariant_fresh cfg hlim).2 evs hadm hfew

/-- No generation exceeds the configured limit (entries resp. bytes including the newlines), except a
    generation that consists of exactly one message: `GenOk cfg g := size cfg g ≤ cfg.limit ∨ g.length = 1`. -/
theorem C15_limit (cfg : Cfg) (hlim : 1 ≤ cfg.limit) (evs : List Event)
    (hadm : ∀ m ∈ messages evs, Writable cfg m) :
    ∀ g ∈ generations (run cfg evs).fs (numGen cfg), GenOk cfg g :=
  C15_limit_from cfg hlim _ [] (C15_invariant_fresh cfg hlim).2 evs hadm

/-- The exception is used only where it cannot be avoided: a generation that exceeds the limit is one single
    message that does not fit a generation on its own; put differently, a message that is longer than the limit
    is alone in its generation, and every generation with two or more messages respects the limit. -/
theorem C15_oversize_alone (cfg : Cfg) (hlim : 1 ≤ cfg.limit) (evs : List Event)
    (hadm : ∀ m ∈ messages evs, Writable cfg m) :
    ∀ g ∈ generations (run cfg evs).fs (numGen cfg),
      (cfg.limit < size cfg g → ∃ m, g = [m] ∧ cfg.limit < cost cfg m) ∧
      (∀ m ∈ g, cfg.limit < cost cfg m → g = [m]) ∧
      (2 ≤ g.length → size cfg g ≤ cfg.limit) :=
  C15_oversize_alone_from cfg hlim _ [] (C15_invariant_fresh cfg hlim).2 evs hadm

/-- A generation all of whose own messages fit a generation respects the limit — whatever else the history
    contained. -/
theorem C15_limit_fitting (cfg : Cfg) (hlim : 1 ≤ cfg.limit) (evs : List Event)
    (hadm : ∀ m ∈ messages evs, Writable cfg m) :
    ∀ g ∈ generations (run cfg evs).fs (numGen cfg), (∀ m ∈ g, cost cfg m ≤ cfg.limit) → size cfg g ≤ cfg.limit :=
  C15_limit_fitting_from cfg hlim _ [] (C15_invariant_fresh cfg hlim).2 evs hadm

/-- Corollary (the statement for histories without over-long messages): when every message of the history
    fits a generation on its own, no generation exceeds the limit. -/
theorem C15_limit_admissible (cfg : Cfg) (hlim : 1 ≤ cfg.limit) (evs : List Event)
    (hadm : ∀ m ∈ messages evs, Admissible cfg m) :
    ∀ g ∈ generations (run cfg evs).fs (numGen cfg), size cfg g ≤ cfg.limit :=
  C15_limit_admissible_from cfg hlim _ [] (C15_invariant_fresh cfg hlim).2 evs hadm

/-- A new generation is started only when the next message would exceed the limit: for a generation `g`
    (number n+1) and the next newer one `g'` (number n), `g` could not have taken the first message of `g'`;
    when `g'` is still empty (the process was restarted on a generation that was exactly full), `g` cannot
    take any message at all.  The generation numbers in use have no holes, so these are all neighbours.
    (With an over-long message: it could not have been put behind anything, not even into an empty generation
    — the code starts a new one also then — and nothing fits behind it.) -/
theorem C15_roll_only_when_needed (cfg : Cfg) (hlim : 1 ≤ cfg.limit) (evs : List Event)
    (hadm : ∀ m ∈ messages evs, Writable cfg m) :
    (∀ n g g', (run cfg evs).fs.get (n + 1) = some g → (run cfg evs).fs.get n = some g' →
      cfg.limit < size cfg g + nextCost cfg g') ∧
    (∀ n, (run cfg evs).fs.get (n + 1) ≠ none → (run cfg evs).fs.get n ≠ none) :=
  C15_roll_only_when_needed_from cfg hlim _ [] (C15_invariant_fresh cfg hlim).2 evs hadm

/-- At most `max_gen` generation files exist (one when `max_gen` < 1), and none has a number outside
    0 … max_gen-1. -/
theorem C15_generation_count (cfg : Cfg) (hlim : 1 ≤ cfg.limit) (evs : List Event)
    (hadm : ∀ m ∈ messages evs, Writable cfg m) :
    (generations (run cfg evs).fs (numGen cfg)).length ≤ numGen cfg ∧
    (∀ n, numGen cfg ≤ n → (run cfg evs).fs.get n = none) ∧
    (1 ≤ cfg.maxGen → numGen cfg = cfg.maxGen) :=
  C15_generation_count_from cfg hlim _ [] (C15_invariant_fresh cfg hlim).2 evs hadm

/-- The step function (what makes the property functional): writing `m` after any such history appends it
    to generation 0 and touches nothing else when it fits, i.e. size + cost ≤ limit; otherwise — and only
    then — every generation moves up by one number (the one that would get number `numGen` is dropped) and
    `m` starts the new generation 0.  This holds for over-long messages too: they never fit, and after one
    `size f` exceeds the limit, so the next message — whatever its length — starts a new generation. -/
theorem C15_write_step (cfg : Cfg) (hlim : 1 ≤ cfg.limit) (evs : List Event)
    (hadm : ∀ m ∈ messages evs, Writable cfg m) (m : Msg) :
    ∃ f, (run cfg evs).fs.get 0 = some f ∧
      (size cfg f + cost cfg m ≤ cfg.limit →
        ∀ i, (run cfg (evs ++ [.write m])).fs.get i = if i = 0 then some (f ++ [m]) else (run cfg evs).fs.get i) ∧
      (cfg.limit < size cfg f + cost cfg m →
        ∀ i, (run cfg (evs ++ [.write m])).fs.get i =
          if i = 0 then some [m] else if i < numGen cfg then (run cfg evs).fs.get (i - 1) else none) :=
  C15_write_step_from cfg hlim _ [] (C15_invariant_fresh cfg hlim).2 evs hadm m

/-- Restarting the process leaves every file as it is, except when generation 0 is exactly full (no
    message whatsoever fits any more) or holds one over-long message (the same: no message fits behind it):
    then the generations are rolled and generation 0 starts empty.  (With the maximum number of files in use
    this drops the oldest generation although no message arrives: the property's statement leaves open whether
    that happens at the restart or at the next write, see `C15_drop_at_most_oldest`.) -/
theorem C15_restart_step (cfg : Cfg) (hlim : 1 ≤ cfg.limit) (evs : List Event)
    (hadm : ∀ m ∈ messages evs, Writable cfg m) :
    ∃ f, (run cfg evs).fs.get 0 = some f ∧
      (size cfg f < cfg.limit → ∀ i, (run cfg (evs ++ [.restart])).fs.get i = (run cfg evs).fs.get i) ∧
      (cfg.limit ≤ size cfg f →
        ∀ i, (run cfg (evs ++ [.restart])).fs.get i =
          if i = 0 then some [] else if i < numGen cfg then (run cfg evs).fs.get (i - 1) else none) :=
  C15_restart_step_from cfg hlim _ [] (C15_invariant_fresh cfg hlim).2 evs hadm

/-! ## Part 3: history-level statements from a fresh directory -/

/-- **The most recent message is retained** (`_partial`: the plain reading of "the generations … contain the most
    recent messages" has no side condition; the region the side condition `h2` excludes - a single generation
    file, `max_gen ≤ 1`, emptied by a restart that found it full - is a recorded finding of the library,
    `C15_finding_single_file_restart` / known_findings.d/logfiles.json, where NOTHING is retained although
    messages were written and no new message has arrived).  After any history on a fresh directory that contains at least one
    message, the last message written is the last message of the generations read oldest → newest (so what is
    retained is not empty), provided at least two generation files are configured or generation 0 is not empty;
    a non-empty generation 0 ends with it, and when generation 0 is empty generation 1 is not and ends with it.
    The side condition is exact (`C15_latest_lost_iff`); messages longer than a generation need none. -/
theorem C15_latest_retained_partial (cfg : Cfg) (hlim : 1 ≤ cfg.limit) (evs : List Event)
    (hadm : ∀ m ∈ messages evs, Writable cfg m) (hne : messages evs ≠ [])
    (h2 : 2 ≤ numGen cfg ∨ (run cfg evs).fs.get 0 ≠ some []) :
    (generations (run cfg evs).fs (numGen cfg)).flatten.getLast? = (messages evs).getLast? ∧
    (generations (run cfg evs).fs (numGen cfg)).flatten ≠ [] ∧
    (∀ f, (run cfg evs).fs.get 0 = some f → f ≠ [] → f.getLast? = (messages evs).getLast?) ∧
    (∀ g, (run cfg evs).fs.get 0 = some [] → (run cfg evs).fs.get 1 = some g →
      g ≠ [] ∧ g.getLast? = (messages evs).getLast?) :=
  C15_latest_retained_partial_from cfg hlim _ [] (C15_invariant_fresh cfg hlim).2 evs hadm hne h2

/-- Directly after a write — whatever the number of generation files, whatever the length of the message — the
    message just written is the last line of generation 0. -/
theorem C15_latest_retained_after_write (cfg : Cfg) (hlim : 1 ≤ cfg.limit) (evs : List Event)
    (hadm : ∀ m ∈ messages evs, Writable cfg m) (m : Msg) :
    ∃ f, (run cfg (evs ++ [.write m])).fs.get 0 = some f ∧ f.getLast? = some m ∧
      (generations (run cfg (evs ++ [.write m])).fs (numGen cfg)).flatten.getLast? = some m :=
  C15_latest_retained_after_write_from cfg hlim _ [] (C15_invariant_fresh cfg hlim).2 evs hadm m

/-- The side condition of `C15_latest_retained_partial` is exact: once a message was written, the most recent message is
    *not* the last retained one iff a single generation file is configured (`max_gen ≤ 1`) and it is empty; then
    nothing at all is retained.  (By `C15_restart_step` / `C15_write_step` this state arises only when a restart
    finds the only file unable to take another message and truncates it, as every roll-over does with a single
    file; the next write ends it.) -/
theorem C15_latest_lost_iff (cfg : Cfg) (hlim : 1 ≤ cfg.limit) (evs : List Event)
    (hadm : ∀ m ∈ messages evs, Writable cfg m) (hne : messages evs ≠ []) :
    ((generations (run cfg evs).fs (numGen cfg)).flatten.getLast? ≠ (messages evs).getLast? ↔
      numGen cfg = 1 ∧ (run cfg evs).fs.get 0 = some []) ∧
    (numGen cfg = 1 → (run cfg evs).fs.get 0 = some [] →
      (generations (run cfg evs).fs (numGen cfg)).flatten = []) :=
  C15_latest_lost_iff_from cfg hlim _ [] (C15_invariant_fresh cfg hlim).2 evs hadm hne

/-- (recorded finding `single-file-restart-loses-all`, known_findings.d/logfiles.json; the witness, by evaluation)
    The plain sentence "the generations read from oldest to newest contain the most recent messages" fails for a
    single generation file: entry-counted policy, 2 entries per file, `max_gen` = 1, two messages, then a process
    restart - `openCheck()` finds the only file full, `rollFiles()` has nothing to rename and the file is opened
    truncating: the most recent message is NOT retained, in fact nothing is, although no new message has arrived
    and the file could hold both messages.  (Replayed on the real `Counted` / `MaxSize` policies: same result.
    The same restart with `max_gen ≥ 2` drops the oldest generation early but keeps the most recent messages;
    `C15_latest_lost_iff` proves that this state - one file, empty - is the ONLY one in which the most recent
    message is missing.  Not repaired: rolling at open is the designed behaviour of `PolicyBase::open()` /
    `openCheck()`, a lazy roll would change what every restart on a full file does for every `max_gen`.) -/
theorem C15_finding_single_file_restart :
    ¬ ((generations (run ⟨.counted, 2, 1⟩ [.write [97], .write [98], .restart]).fs (numGen ⟨.counted, 2, 1⟩)).flatten.getLast?
        = (messages [.write [97], .write [98], .restart]).getLast?) := by
  decide

/-- **One event drops at most the oldest generation.**  With `oldest` = the content of generation number
    `numGen-1` (nothing when that file does not exist, in particular whenever fewer than `numGen` files exist) and
    `rest` = the younger generations, the retained text before the event is `oldest ++ rest`; after one further
    event `e` (`messages [e]` = `[m]` for `write m`, `[]` for a restart; `nextCost` of it = cost of `m`, resp. 1)
    it is `oldest ++ rest ++ messages [e]` when `size (generation 0) + nextCost … ≤ limit` and exactly
    `rest ++ messages [e]` otherwise; nothing is dropped iff no roll-over happens or `oldest` is empty.
    A restart on a generation 0 that can take no message (`limit ≤ size`) is such a roll-over: with the maximum
    number of files in use it drops the oldest generation although no message arrives (left open by the
    property's statement: the next write would drop it otherwise). -/
theorem C15_drop_at_most_oldest (cfg : Cfg) (hlim : 1 ≤ cfg.limit) (evs : List Event)
    (hadm : ∀ m ∈ messages evs, Writable cfg m) (e : Event) :
    ∃ f oldest rest,
      (run cfg evs).fs.get 0 = some f ∧
      oldest = ((run cfg evs).fs.get (numGen cfg - 1)).getD [] ∧
      (generations (run cfg evs).fs (numGen cfg)).flatten = oldest ++ rest ∧
      ((generations (run cfg evs).fs (numGen cfg)).length < numGen cfg → oldest = []) ∧
      (size cfg f + nextCost cfg (messages [e]) ≤ cfg.limit →
        (generations (run cfg (evs ++ [e])).fs (numGen cfg)).flatten = oldest ++ rest ++ messages [e]) ∧
      (cfg.limit < size cfg f + nextCost cfg (messages [e]) →
        (generations (run cfg (evs ++ [e])).fs (numGen cfg)).flatten = rest ++ messages [e]) ∧
      ((generations (run cfg (evs ++ [e])).fs (numGen cfg)).flatten = oldest ++ rest ++ messages [e] ↔
        (size cfg f + nextCost cfg (messages [e]) ≤ cfg.limit ∨ oldest = [])) :=
  C15_drop_at_most_oldest_from cfg hlim _ [] (C15_invariant_fresh cfg hlim).2 evs hadm e

/-- **How much is retained, entry-counted files**: after any history on a fresh directory exactly the last
    `(numGen-1) * limit + n0` messages written are retained (all of them when fewer were written), `n0 ≤ limit`
    being the number of messages in generation 0: always at least the last `(numGen-1) * limit`, and at least
    the last `(numGen-1) * limit + 1` whenever generation 0 is not empty. -/
theorem C15_counted_window (cfg : Cfg) (hlim : 1 ≤ cfg.limit) (hk : cfg.kind = .counted) (evs : List Event)
    (hadm : ∀ m ∈ messages evs, Writable cfg m) :
    ∃ f, (run cfg evs).fs.get 0 = some f ∧ f.length ≤ cfg.limit ∧
      (generations (run cfg evs).fs (numGen cfg)).flatten.length =
        min (messages evs).length ((numGen cfg - 1) * cfg.limit + f.length) ∧
      (generations (run cfg evs).fs (numGen cfg)).flatten =
        (messages evs).drop ((messages evs).length - ((numGen cfg - 1) * cfg.limit + f.length)) :=
  C15_counted_window_from cfg hlim hk _ [] (C15_invariant_fresh cfg hlim).2 evs hadm

/-- **How much is retained, both kinds**, in the unit of the limit (entries resp. bytes including newlines): when
    every message of the history costs at most `cmax`, either every message is retained or the retained
    generations hold at least `(numGen-1) * (limit + 1 - cmax) + size of generation 0`. -/
theorem C15_retained_size_bound (cfg : Cfg) (hlim : 1 ≤ cfg.limit) (evs : List Event)
    (hadm : ∀ m ∈ messages evs, Writable cfg m)
    (cmax : Nat) (hc1 : 1 ≤ cmax) (hcost : ∀ m ∈ messages evs, cost cfg m ≤ cmax) :
    ∃ f, (run cfg evs).fs.get 0 = some f ∧
      ((generations (run cfg evs).fs (numGen cfg)).flatten = messages evs ∨
       (numGen cfg - 1) * (cfg.limit + 1 - cmax) + size cfg f ≤
         size cfg (generations (run cfg evs).fs (numGen cfg)).flatten) :=
  C15_retained_size_bound_from cfg hlim _ [] (C15_invariant_fresh cfg hlim).2 evs hadm cmax hc1 hcost

/-! ### non-vacuity: the hypotheses are satisfiable and the model computes what one expects -/

/-- two entries per file, two files; five messages and two restarts: the oldest two messages are gone -/
example :
    let cfg : Cfg := ⟨.counted, 2, 2⟩
    let evs : List Event := [.write [97], .write [98], .restart, .write [99], .write [100], .restart, .write [101]]
    (∀ m ∈ messages evs, Admissible cfg m) ∧ 1 ≤ cfg.limit ∧
    generations (run cfg evs).fs (numGen cfg) = [[[99], [100]], [[101]]] ∧
    messages evs = [[97], [98], [99], [100], [101]] := by
  refine ⟨?_, by decide, by decide, by decide⟩
  intro m hm
  simp [messages] at hm
  rcases hm with h | h | h | h | h <;> subst h <;> exact ⟨by decide, by decide⟩

/-- 8 bytes per file, three files: "ab\n" "cde\n" fill 7 of 8 bytes, "f\n" (2) does not fit any more -/
example :
    let cfg : Cfg := ⟨.maxsize, 8, 3⟩
    let evs : List Event := [.write [97, 98], .write [99, 100, 101], .restart, .write [102]]
    (∀ m ∈ messages evs, Admissible cfg m) ∧
    generations (run cfg evs).fs (numGen cfg) = [[[97, 98], [99, 100, 101]], [[102]]] ∧
    (generations (run cfg evs).fs (numGen cfg)).length < numGen cfg := by
  refine ⟨?_, by decide, by decide⟩
  intro m hm
  simp [messages] at hm
  rcases hm with h | h | h <;> subst h <;> exact ⟨by decide, by intro h; cases h⟩

/-- over-long messages: 4 bytes per file, three files.  "ab\\n" (3), then "cdefgh\\n" (7 > 4) gets a generation
    of its own, "i\\n" (2) does not go behind it but starts the next one, and after a restart "j\\n" joins "i\\n";
    the generation with the over-long message is `GenOk` but exceeds the limit, the others respect it -/
example :
    let cfg : Cfg := ⟨.maxsize, 4, 3⟩
    let evs : List Event := [.write [97, 98], .write [99, 100, 101, 102, 103, 104], .write [105], .restart, .write [106]]
    (∀ m ∈ messages evs, Writable cfg m) ∧ ¬ (∀ m ∈ messages evs, Admissible cfg m) ∧
    generations (run cfg evs).fs (numGen cfg) = [[[97, 98]], [[99, 100, 101, 102, 103, 104]], [[105], [106]]] ∧
    (∀ g ∈ generations (run cfg evs).fs (numGen cfg), GenOk cfg g) ∧
    (∃ g ∈ generations (run cfg evs).fs (numGen cfg), cfg.limit < size cfg g) := by
  refine ⟨(fun m _ h => by cases h), ?_, by decide, ?_, ?_⟩
  · intro h
    have := (h [99, 100, 101, 102, 103, 104] (by decide)).1
    revert this; decide
  · have e : generations (run (⟨.maxsize, 4, 3⟩ : Cfg) [.write [97, 98], .write [99, 100, 101, 102, 103, 104],
        .write [105], .restart, .write [106]]).fs (numGen ⟨.maxsize, 4, 3⟩) =
        [[[97, 98]], [[99, 100, 101, 102, 103, 104]], [[105], [106]]] := by decide
    intro g hg
    rw [e] at hg
    simp at hg
    rcases hg with h | h | h <;> subst h <;> decide
  · exact ⟨[[99, 100, 101, 102, 103, 104]], by decide, by decide⟩

/-- an over-long message as the very first one, a restart on it, and another over-long one: the empty generation
    that construction created is rolled away by the first message (it does not fit behind nothing either), the
    restart finds generation 0 above the limit and starts an empty one, which the second over-long message
    rolls away again; every message is retained while fewer than `max_gen` files exist -/
example :
    let cfg : Cfg := ⟨.maxsize, 3, 6⟩
    let evs : List Event := [.write [97, 98, 99], .restart, .write [100, 101, 102, 103], .write []]
    (∀ m ∈ messages evs, Writable cfg m) ∧
    generations (run cfg evs).fs (numGen cfg) = [[], [[97, 98, 99]], [], [[100, 101, 102, 103]], [[]]] ∧
    (generations (run cfg evs).fs (numGen cfg)).flatten = messages evs := by
  refine ⟨(fun m _ h => by cases h), by decide, by decide⟩


/-- `C15_latest_retained_partial`: two entries per file, two files; two messages fill generation 0, the restart finds it
    full and starts an empty generation 0: the most recent message is the last line of generation 1 and of the
    generations read oldest → newest -/
example :
    let cfg : Cfg := ⟨.counted, 2, 2⟩
    let evs : List Event := [.write [97], .write [98], .restart]
    (∀ m ∈ messages evs, Writable cfg m) ∧ 1 ≤ cfg.limit ∧ messages evs ≠ [] ∧ 2 ≤ numGen cfg ∧
    (run cfg evs).fs.get 0 = some [] ∧ (run cfg evs).fs.get 1 = some [[97], [98]] ∧
    (generations (run cfg evs).fs (numGen cfg)).flatten.getLast? = some [98] ∧
    (messages evs).getLast? = some [98] := by
  refine ⟨?_, by decide, by decide, by decide, by decide, by decide, by decide, by decide⟩
  intro m hm
  simp [messages] at hm
  rcases hm with h | h <;> subst h <;> intro _ <;> decide

/-- `C15_latest_lost_iff`, the exception: the same history with a single file (`max_gen` = 1): the restart
    truncates the only file, nothing is retained although two messages were written; the next write ends this -/
example :
    let cfg : Cfg := ⟨.counted, 2, 1⟩
    let evs : List Event := [.write [97], .write [98], .restart]
    (∀ m ∈ messages evs, Writable cfg m) ∧ messages evs ≠ [] ∧ numGen cfg = 1 ∧
    (run cfg evs).fs.get 0 = some [] ∧
    (generations (run cfg evs).fs (numGen cfg)).flatten = [] ∧
    (generations (run cfg (evs ++ [.write [99]])).fs (numGen cfg)).flatten = [[99]] := by
  refine ⟨?_, by decide, by decide, by decide, by decide, by decide⟩
  intro m hm
  simp [messages] at hm
  rcases hm with h | h <;> subst h <;> intro _ <;> decide

/-- `C15_drop_at_most_oldest`: two entries per file, two files, both full: a fifth message (and just as well a
    restart) drops exactly the oldest generation `[a, b]`; with three files configured nothing is dropped -/
example :
    let cfg : Cfg := ⟨.counted, 2, 2⟩
    let evs : List Event := [.write [97], .write [98], .write [99], .write [100]]
    (∀ m ∈ messages evs, Writable cfg m) ∧
    (run cfg evs).fs.get 0 = some [[99], [100]] ∧
    ((run cfg evs).fs.get (numGen cfg - 1)).getD [] = [[97], [98]] ∧
    cfg.limit < size cfg [[99], [100]] + nextCost cfg (messages [.write [101]]) ∧
    cfg.limit < size cfg [[99], [100]] + nextCost cfg (messages [.restart]) ∧
    (generations (run cfg evs).fs (numGen cfg)).flatten = [[97], [98]] ++ [[99], [100]] ∧
    (generations (run cfg (evs ++ [.write [101]])).fs (numGen cfg)).flatten = [[99], [100]] ++ [[101]] ∧
    (generations (run cfg (evs ++ [.restart])).fs (numGen cfg)).flatten = [[99], [100]] ∧
    (generations (run ⟨.counted, 2, 3⟩ (evs ++ [.write [101]])).fs 3).flatten =
      [[97], [98], [99], [100], [101]] := by
  refine ⟨?_, by decide, by decide, by decide, by decide, by decide, by decide, by decide, by decide⟩
  intro m hm
  simp [messages] at hm
  rcases hm with h | h | h | h <;> subst h <;> intro _ <;> decide

/-- `C15_counted_window`: two entries per file, three files, seven messages and a restart: exactly the last
    (3-1)*2 + 1 = 5 messages are retained -/
example :
    let cfg : Cfg := ⟨.counted, 2, 3⟩
    let evs : List Event := [.write [97], .write [98], .write [99], .restart, .write [100], .write [101],
      .write [102], .write [103]]
    (∀ m ∈ messages evs, Writable cfg m) ∧ cfg.kind = .counted ∧
    (run cfg evs).fs.get 0 = some [[103]] ∧
    (generations (run cfg evs).fs (numGen cfg)).flatten = [[99], [100], [101], [102], [103]] ∧
    (messages evs).drop ((messages evs).length - ((numGen cfg - 1) * cfg.limit + 1)) =
      [[99], [100], [101], [102], [103]] := by
  refine ⟨?_, by decide, by decide, by decide, by decide⟩
  intro m hm
  simp [messages] at hm
  rcases hm with h | h | h | h | h | h | h <;> subst h <;> intro _ <;> decide

/-- `C15_retained_size_bound`: 8 bytes per file, two files, messages of at most 3 bytes with the newline:
    not everything is retained, and the bound (2-1)*(8+1-3) + 3 = 9 bytes is attained -/
example :
    let cfg : Cfg := ⟨.maxsize, 8, 2⟩
    let evs : List Event := [.write [97, 98], .write [99, 100], .write [101], .write [102, 103],
      .write [104, 105], .write [106, 107]]
    (∀ m ∈ messages evs, Writable cfg m) ∧ (∀ m ∈ messages evs, cost cfg m ≤ 3) ∧
    (run cfg evs).fs.get 0 = some [[106, 107]] ∧
    (generations (run cfg evs).fs (numGen cfg)).flatten ≠ messages evs ∧
    (numGen cfg - 1) * (cfg.limit + 1 - 3) + size cfg [[106, 107]] = 9 ∧
    size cfg (generations (run cfg evs).fs (numGen cfg)).flatten = 9 := by
  refine ⟨(fun m _ h => by cases h), by decide, by decide, by decide, by decide, by decide⟩

/-- the `…_from` theorems: a pre-existing directory that no history on a fresh directory produces with these
    `msgs` (two entries per file, two files; generation 1 = `[b, c]`, generation 0 = `[a]`, and an older message
    that is gone) is `DirOk`; constructing the policy on it and going on writing gives what one expects -/
example :
    let cfg : Cfg := ⟨.counted, 2, 2⟩
    let gs : List File := [[[97]], [[98], [99]]]
    let msgs : List Msg := [[1], [98], [99], [97]]
    let evs : List Event := [.write [100], .restart, .write [101]]
    DirOk cfg gs msgs ∧ 1 ≤ cfg.limit ∧ (∀ m ∈ messages evs, Writable cfg m) ∧
    msgs ++ messages evs ≠ [] ∧
    generations (start cfg (dirOf gs)).1.fs (numGen cfg) = [[[98], [99]], [[97]]] ∧
    generations (runFrom (start cfg (dirOf gs)).1 evs).fs (numGen cfg) = [[[97], [100]], [[101]]] := by
  refine ⟨⟨by decide, by decide, by decide, ?_, by decide, ?_, ?_⟩, by decide, ?_, by decide, by decide, by decide⟩
  · intro n hn
    have : n = 0 := by simp at hn; omega
    subst this; decide
  · intro h; exact absurd h (by decide)
  · intro _; decide
  · intro m hm
    simp [messages] at hm
    rcases hm with h | h <;> subst h <;> intro _ <;> decide

end CelmaVerif.Props.C15
