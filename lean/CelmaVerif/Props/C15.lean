import CelmaVerif.Lemmas.LogFilesRun
/-
  C15 — rolling log files keep the most recent messages, complete and in order.
  Property theorems only; helper lemmas are in Lemmas/LogFiles*.lean, the model (of the repaired
  code) and the vocabulary used here (`run`, `messages`, `generations`, `retained`, `size`, `cost`,
  `nextCost`, `numGen`, `Writable`, `Admissible`, `GenOk`) in Model/LogFiles.lean.

  Setting of every theorem: any policy kind (entry-counted or size-limited), any limit ≥ 1, any number of
  generations, a fresh directory, and *any* history `evs` of `write m` / `restart` events in which every
  message is `Writable`: any length — also longer than a whole generation — and, for the entry-counted
  policy only, no newline inside.
  `run cfg evs` is the state after constructing the policy and performing the events;
  `generations fs (numGen cfg)` are the generation files oldest → newest.

  Messages that do not fit a generation on their own are part of the domain.  The limit clause of the
  property is read as `GenOk`: a generation respects the limit, or it consists of exactly one message (which
  then is longer than the limit: there is nowhere else to put it).  The "only when needed" clause is
  unchanged: a generation is started exactly when the message does not fit behind the current content
  (`C15_write_step`); an over-long message never fits, so it always starts a generation and the next message
  starts another one.
-/
namespace CelmaVerif.Props.C15
open CelmaVerif CelmaVerif.LogFiles

/-- No event of such a history throws, and the policy object stays alive: in particular the file opened
    after a roll always passes its open check. -/
theorem C15_never_throws (cfg : Cfg) (hlim : 1 ≤ cfg.limit) (evs : List Event)
    (hadm : ∀ m ∈ messages evs, Writable cfg m) (e : Event)
    (he : ∀ m, e = .write m → Writable cfg m) :
    (start cfg emptyFs).2 = .ok () ∧ ((run cfg evs).step e).2 = .ok () ∧ (run cfg evs).pol.isSome := by
  have hW := run_winv hlim evs hadm
  refine ⟨(start_empty_winv hlim).1, ?_, ?_⟩
  · cases e with
    | write m => exact (step_write_winv hlim hW (he m rfl)).1
    | restart => exact (step_restart_winv hlim hW).1
  · obtain ⟨_, c, k, hp, _⟩ := hW
    rw [hp]; rfl

/-- The generations read from oldest to newest are a suffix of the messages written, in the order
    written: the most recent messages, none lost, duplicated, reordered or truncated in between. -/
theorem C15_suffix (cfg : Cfg) (hlim : 1 ≤ cfg.limit) (evs : List Event)
    (hadm : ∀ m ∈ messages evs, Writable cfg m) :
    (generations (run cfg evs).fs (numGen cfg)).flatten <:+ messages evs := by
  obtain ⟨_, c, k, _, hI⟩ := run_winv hlim evs hadm
  rw [generations_flatten]
  exact hI.suf

/-- Nothing at all is lost as long as fewer generation files exist than the configuration allows: messages
    only ever disappear with the oldest generation when the maximum number of files is reached. -/
theorem C15_no_loss_until_full (cfg : Cfg) (hlim : 1 ≤ cfg.limit) (evs : List Event)
    (hadm : ∀ m ∈ messages evs, Writable cfg m)
    (hfew : (generations (run cfg evs).fs (numGen cfg)).length < numGen cfg) :
    (generations (run cfg evs).fs (numGen cfg)).flatten = messages evs := by
  obtain ⟨_, c, k, _, hI⟩ := run_winv hlim evs hadm
  rw [generations_length hI.ex hI.nex] at hfew
  rw [generations_flatten]
  have := hI.k_le
  exact hI.all (by omega)

/-- No generation exceeds the configured limit (entries resp. bytes including the newlines), except a
    generation that consists of exactly one message: `GenOk cfg g := size cfg g ≤ cfg.limit ∨ g.length = 1`. -/
theorem C15_limit (cfg : Cfg) (hlim : 1 ≤ cfg.limit) (evs : List Event)
    (hadm : ∀ m ∈ messages evs, Writable cfg m) :
    ∀ g ∈ generations (run cfg evs).fs (numGen cfg), GenOk cfg g := by
  obtain ⟨_, c, k, _, hI⟩ := run_winv hlim evs hadm
  intro g hg
  obtain ⟨i, _, hi⟩ := mem_generations.mp hg
  exact hI.lim i g hi

/-- The exception is used only where it cannot be avoided: a generation that exceeds the limit is one single
    message that does not fit a generation on its own; put differently, a message that is longer than the limit
    is alone in its generation, and every generation with two or more messages respects the limit. -/
theorem C15_oversize_alone (cfg : Cfg) (hlim : 1 ≤ cfg.limit) (evs : List Event)
    (hadm : ∀ m ∈ messages evs, Writable cfg m) :
    ∀ g ∈ generations (run cfg evs).fs (numGen cfg),
      (cfg.limit < size cfg g → ∃ m, g = [m] ∧ cfg.limit < cost cfg m) ∧
      (∀ m ∈ g, cfg.limit < cost cfg m → g = [m]) ∧
      (2 ≤ g.length → size cfg g ≤ cfg.limit) := by
  intro g hg
  have hok := C15_limit cfg hlim evs hadm g hg
  refine ⟨genOk_exceeds hok, ?_, ?_⟩
  · intro m hm hlong
    have := cost_le_size_of_mem cfg hm
    obtain ⟨m', hg', _⟩ := genOk_exceeds hok (by omega)
    subst hg'
    simp at hm
    rw [hm]
  · intro h2
    rcases hok with h | h
    · exact h
    · omega

/-- A generation all of whose own messages fit a generation respects the limit — whatever else the history
    contained. -/
theorem C15_limit_fitting (cfg : Cfg) (hlim : 1 ≤ cfg.limit) (evs : List Event)
    (hadm : ∀ m ∈ messages evs, Writable cfg m) :
    ∀ g ∈ generations (run cfg evs).fs (numGen cfg), (∀ m ∈ g, cost cfg m ≤ cfg.limit) → size cfg g ≤ cfg.limit := by
  intro g hg hfit
  exact genOk_fitting (C15_limit cfg hlim evs hadm g hg) hfit

/-- Corollary (the statement for histories without over-long messages): when every message of the history
    fits a generation on its own, no generation exceeds the limit. -/
theorem C15_limit_admissible (cfg : Cfg) (hlim : 1 ≤ cfg.limit) (evs : List Event)
    (hadm : ∀ m ∈ messages evs, Admissible cfg m) :
    ∀ g ∈ generations (run cfg evs).fs (numGen cfg), size cfg g ≤ cfg.limit := by
  have hw : ∀ m ∈ messages evs, Writable cfg m := fun m hm => (hadm m hm).2
  intro g hg
  apply C15_limit_fitting cfg hlim evs hw g hg
  intro m hm
  obtain ⟨i, hi, hgi⟩ := mem_generations.mp hg
  have hmem : m ∈ retained (run cfg evs).fs (numGen cfg) := mem_retained hi hgi hm
  have hsuf := C15_suffix cfg hlim evs hw
  rw [generations_flatten] at hsuf
  exact (hadm m (hsuf.subset hmem)).1

/-- A new generation is started only when the next message would exceed the limit: for a generation `g`
    (number n+1) and the next newer one `g'` (number n), `g` could not have taken the first message of `g'`;
    when `g'` is still empty (the process was restarted on a generation that was exactly full), `g` cannot
    take any message at all.  The generation numbers in use have no holes, so these are all neighbours.
    (With an over-long message: it could not have been put behind anything, not even into an empty generation
    — the code starts a new one also then — and nothing fits behind it.) -/
theorem C15_roll_only_when_needed (cfg : Cfg) (hlim : 1 ≤ cfg.limit) (evs : List Event)
    (hadm : ∀ m ∈ messages evs, Writable cfg m) :
    (∀ n g g', (run cfg evs).fs.get (n + 1) = some g → (run cfg evs).fs.get n = some g' →
      cfg.limit < size cfg g + nextCost cfg g') ∧
    (∀ n, (run cfg evs).fs.get (n + 1) ≠ none → (run cfg evs).fs.get n ≠ none) := by
  obtain ⟨_, c, k, _, hI⟩ := run_winv hlim evs hadm
  refine ⟨hI.adj, ?_⟩
  intro n hn
  apply hI.ex
  by_cases h : n + 1 < k
  · omega
  · exact absurd (hI.nex (n + 1) (by omega)) hn

/-- At most `max_gen` generation files exist (one when `max_gen` < 1), and none has a number outside
    0 … max_gen-1. -/
theorem C15_generation_count (cfg : Cfg) (hlim : 1 ≤ cfg.limit) (evs : List Event)
    (hadm : ∀ m ∈ messages evs, Writable cfg m) :
    (generations (run cfg evs).fs (numGen cfg)).length ≤ numGen cfg ∧
    (∀ n, numGen cfg ≤ n → (run cfg evs).fs.get n = none) ∧
    (1 ≤ cfg.maxGen → numGen cfg = cfg.maxGen) := by
  obtain ⟨_, c, k, _, hI⟩ := run_winv hlim evs hadm
  refine ⟨generations_length_le _ _, ?_, ?_⟩
  · intro n hn
    have := hI.k_le
    exact hI.nex n (by omega)
  · intro h; unfold numGen; split <;> omega

/-- The step function (what makes the property functional): writing `m` after any such history appends it
    to generation 0 and touches nothing else when it fits, i.e. size + cost ≤ limit; otherwise — and only
    then — every generation moves up by one number (the one that would get number `numGen` is dropped) and
    `m` starts the new generation 0.  This holds for over-long messages too: they never fit, and after one
    `size f` exceeds the limit, so the next message — whatever its length — starts a new generation. -/
theorem C15_write_step (cfg : Cfg) (hlim : 1 ≤ cfg.limit) (evs : List Event)
    (hadm : ∀ m ∈ messages evs, Writable cfg m) (m : Msg) :
    ∃ f, (run cfg evs).fs.get 0 = some f ∧
      (size cfg f + cost cfg m ≤ cfg.limit →
        ∀ i, (run cfg (evs ++ [.write m])).fs.get i = if i = 0 then some (f ++ [m]) else (run cfg evs).fs.get i) ∧
      (cfg.limit < size cfg f + cost cfg m →
        ∀ i, (run cfg (evs ++ [.write m])).fs.get i =
          if i = 0 then some [m] else if i < numGen cfg then (run cfg evs).fs.get (i - 1) else none) := by
  have hW := run_winv hlim evs hadm
  obtain ⟨_, c, k, _, hI⟩ := run_winv hlim evs hadm
  obtain ⟨f, h0, _, _⟩ := hI.cur
  have e : run cfg (evs ++ [.write m]) = ((run cfg evs).step (.write m)).1 := by
    rw [run_eq, run_eq, runFrom_append]
  rw [e]
  exact ⟨f, h0, step_write_fs m hlim hW h0⟩

/-- Restarting the process leaves every file as it is, except when generation 0 is exactly full (no
    message whatsoever fits any more) or holds one over-long message (the same: no message fits behind it):
    then the generations are rolled and generation 0 starts empty. -/
theorem C15_restart_step (cfg : Cfg) (hlim : 1 ≤ cfg.limit) (evs : List Event)
    (hadm : ∀ m ∈ messages evs, Writable cfg m) :
    ∃ f, (run cfg evs).fs.get 0 = some f ∧
      (size cfg f < cfg.limit → ∀ i, (run cfg (evs ++ [.restart])).fs.get i = (run cfg evs).fs.get i) ∧
      (cfg.limit ≤ size cfg f →
        ∀ i, (run cfg (evs ++ [.restart])).fs.get i =
          if i = 0 then some [] else if i < numGen cfg then (run cfg evs).fs.get (i - 1) else none) := by
  have hW := run_winv hlim evs hadm
  obtain ⟨_, c, k, _, hI⟩ := run_winv hlim evs hadm
  obtain ⟨f, h0, _, _⟩ := hI.cur
  have e : run cfg (evs ++ [.restart]) = ((run cfg evs).step .restart).1 := by
    rw [run_eq, run_eq, runFrom_append]
  rw [e]
  exact ⟨f, h0, step_restart_fs hlim hW h0⟩

/-! ### non-vacuity: the hypotheses are satisfiable and the model computes what one expects -/

/-- two entries per file, two files; five messages and two restarts: the oldest two messages are gone -/
example :
    let cfg : Cfg := ⟨.counted, 2, 2⟩
    let evs : List Event := [.write [97], .write [98], .restart, .write [99], .write [100], .restart, .write [101]]
    (∀ m ∈ messages evs, Admissible cfg m) ∧ 1 ≤ cfg.limit ∧
    generations (run cfg evs).fs (numGen cfg) = [[[99], [100]], [[101]]] ∧
    messages evs = [[97], [98], [99], [100], [101]] := by
  refine ⟨?_, by decide, by decide, by decide⟩
  intro m hm
  simp [messages] at hm
  rcases hm with h | h | h | h | h <;> subst h <;> exact ⟨by decide, by decide⟩

/-- 8 bytes per file, three files: "ab\n" "cde\n" fill 7 of 8 bytes, "f\n" (2) does not fit any more -/
example :
    let cfg : Cfg := ⟨.maxsize, 8, 3⟩
    let evs : List Event := [.write [97, 98], .write [99, 100, 101], .restart, .write [102]]
    (∀ m ∈ messages evs, Admissible cfg m) ∧
    generations (run cfg evs).fs (numGen cfg) = [[[97, 98], [99, 100, 101]], [[102]]] ∧
    (generations (run cfg evs).fs (numGen cfg)).length < numGen cfg := by
  refine ⟨?_, by decide, by decide⟩
  intro m hm
  simp [messages] at hm
  rcases hm with h | h | h <;> subst h <;> exact ⟨by decide, by intro h; cases h⟩

/-- over-long messages: 4 bytes per file, three files.  "ab\\n" (3), then "cdefgh\\n" (7 > 4) gets a generation
    of its own, "i\\n" (2) does not go behind it but starts the next one, and after a restart "j\\n" joins "i\\n";
    the generation with the over-long message is `GenOk` but exceeds the limit, the others respect it -/
example :
    let cfg : Cfg := ⟨.maxsize, 4, 3⟩
    let evs : List Event := [.write [97, 98], .write [99, 100, 101, 102, 103, 104], .write [105], .restart, .write [106]]
    (∀ m ∈ messages evs, Writable cfg m) ∧ ¬ (∀ m ∈ messages evs, Admissible cfg m) ∧
    generations (run cfg evs).fs (numGen cfg) = [[[97, 98]], [[99, 100, 101, 102, 103, 104]], [[105], [106]]] ∧
    (∀ g ∈ generations (run cfg evs).fs (numGen cfg), GenOk cfg g) ∧
    (∃ g ∈ generations (run cfg evs).fs (numGen cfg), cfg.limit < size cfg g) := by
  refine ⟨(fun m _ h => by cases h), ?_, by decide, ?_, ?_⟩
  · intro h
    have := (h [99, 100, 101, 102, 103, 104] (by decide)).1
    revert this; decide
  · have e : generations (run (⟨.maxsize, 4, 3⟩ : Cfg) [.write [97, 98], .write [99, 100, 101, 102, 103, 104],
        .write [105], .restart, .write [106]]).fs (numGen ⟨.maxsize, 4, 3⟩) =
        [[[97, 98]], [[99, 100, 101, 102, 103, 104]], [[105], [106]]] := by decide
    intro g hg
    rw [e] at hg
    simp at hg
    rcases hg with h | h | h <;> subst h <;> decide
  · exact ⟨[[99, 100, 101, 102, 103, 104]], by decide, by decide⟩

/-- an over-long message as the very first one, a restart on it, and another over-long one: the empty generation
    that construction created is rolled away by the first message (it does not fit behind nothing either), the
    restart finds generation 0 above the limit and starts an empty one, which the second over-long message
    rolls away again; every message is retained while fewer than `max_gen` files exist -/
example :
    let cfg : Cfg := ⟨.maxsize, 3, 6⟩
    let evs : List Event := [.write [97, 98, 99], .restart, .write [100, 101, 102, 103], .write []]
    (∀ m ∈ messages evs, Writable cfg m) ∧
    generations (run cfg evs).fs (numGen cfg) = [[], [[97, 98, 99]], [], [[100, 101, 102, 103]], [[]]] ∧
    (generations (run cfg evs).fs (numGen cfg)).flatten = messages evs := by
  refine ⟨(fun m _ h => by cases h), by decide, by decide⟩

end CelmaVerif.Props.C15
