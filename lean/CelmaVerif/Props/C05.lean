import CelmaVerif.Lemmas.Keys
import CelmaVerif.Lemmas.KeysParse
/-
  C05 — a key designates exactly one argument, independent of definition order.
  Property theorems only; helper lemmas are in Lemmas/Keys.lean and Lemmas/KeysParse.lean.

  `Key.parse`, `addArgument`, `findArg` model the code after the two `fix:` commits
  (exact matches first in `ArgumentContainer::findArg`; leading-dash count in `ArgumentKey`);
  `findArgHead` / `Key.parseHead` are the pinned code, used only by the two witness theorems.
-/
namespace CelmaVerif.Props.C05
open CelmaVerif CelmaVerif.Keys

/-! ### defining arguments -/

/-- After any sequence of `addArgument( spec)` calls — accepted, refused because of the key, or
    refused because the specification does not parse — no two entries of the table share a short
    key or a long key (or are both the positional key). -/
theorem C05_keys_disjoint {α : Type} (specs : List (List Char × α)) :
    (addAll [] specs).Pairwise (fun a b => ¬ a.1.shareShort b.1 ∧ ¬ a.1.shareLong b.1) := by
  have := addAll_disjoint specs ([] : List (Key × α)) List.Pairwise.nil
  unfold Disjoint at this
  exact this.imp (fun h => ⟨fun hs => h (Or.inl hs), fun hl => h (Or.inr (Or.inl hl))⟩)

/-- Defining an argument is refused (`std::invalid_argument`) exactly when a stored key has the same
    short key, the same long key, or both are positional — this includes every contradicting
    short/long pair, since a contradicting pair agrees in one of its two parts — and is otherwise
    accepted by appending the entry. -/
theorem C05_refuses {α : Type} (t : List (Key × α)) (k : Key) (a : α) :
    (addArgument t k a = .throw .invalid_argument ↔ ∃ e ∈ t, e.1.Clash k) ∧
    (addArgument t k a = .ok (t ++ [(k, a)]) ↔ ¬ ∃ e ∈ t, e.1.Clash k) ∧
    (addArgument t k a = .throw .invalid_argument ∨ addArgument t k a = .ok (t ++ [(k, a)])) :=
  ⟨addArgument_throw_iff t k a, addArgument_ok_iff t k a, addArgument_cases t k a⟩

/-- A short/long pair that contradicts a stored pair (one part equal, the other different) is refused. -/
theorem C05_mismatch_refused {α : Type} (t : List (Key × α)) (e : Key × α) (he : e ∈ t) (k : Key) (a : α)
    (hm : e.1.mismatch k = true) : addArgument t k a = .throw .invalid_argument :=
  (addArgument_throw_iff t k a).mpr
    ⟨e, he, (eq_or_mismatch_iff e.1 k).mp (by rw [hm]; exact Bool.or_true _)⟩

/-! ### lookup -/

/-- An exact key always selects its own argument: in a table without clashing keys (every table
    built by `addArgument`), looking up a character, a word or the positional key that an entry
    carries returns that entry — whatever the position of the entry, whatever else is defined,
    with abbreviations allowed or not. -/
theorem C05_exact_wins {α : Type} (abbr : Bool) (t : List (Key × α)) (ht : Disjoint t) (e : Key × α)
    (he : e ∈ t) (k : Key) (hk : k.Single) (hc : e.1.Clash k) :
    payload (findArg abbr t k) = .ok (some e.2) :=
  findArg_exact abbr t ht e he k hk hc

/-- A key that is not an exact key of any entry: with abbreviations enabled it selects an argument
    iff exactly one long key starts with it, is rejected (`std::runtime_error`) when more than one
    does, and is unknown when none does (`uniqueOf`: `[] ↦ none`, `[e] ↦ e`, two or more ↦ throw);
    with abbreviations disabled it is always unknown. -/
theorem C05_prefix {α : Type} (t : List (Key × α)) (k : Key) (hk : k.Single)
    (hno : ¬ ∃ e ∈ t, e.1.Clash k) :
    payload (findArg true t k) = uniqueOf (t.filter (fun e => e.1.startsWith k)) ∧
    payload (findArg false t k) = .ok none := by
  have hno' : ∀ e ∈ t, e.1.eq k = false := by
    intro e he
    cases h : e.1.eq k with
    | false => rfl
    | true => exact absurd ⟨e, he, (eq_iff_clash_of_single e.1 k hk).mp h⟩ hno
  exact ⟨by simpa using findArg_noexact true t k hno', by simpa using findArg_noexact false t k hno'⟩

/-- "starts with" is what it says: both long keys present and the looked-up word is a prefix. -/
theorem C05_startsWith_iff (a b : Key) :
    a.startsWith b = true ↔ a.long ≠ [] ∧ b.long ≠ [] ∧ b.long <+: a.long :=
  startsWith_iff a b

/-- The index returned with the payload is the position of an entry that carries this payload and
    matches the key — exactly, or by prefix only when abbreviations are allowed. -/
theorem C05_index_sound {α : Type} (abbr : Bool) (t : List (Key × α)) (k : Key) (j : Nat) (a : α)
    (h : findArg abbr t k = .ok (some (j, a))) :
    ∃ key, t[j]? = some (key, a) ∧ (key.eq k = true ∨ (abbr = true ∧ key.startsWith k = true)) :=
  findArg_index abbr t k j a h

/-- Lookup results do not depend on the order of definition: for every permutation of a table
    without clashing keys, every command-line key finds the same argument, is unknown in both, or is
    rejected as ambiguous in both. -/
theorem C05_order_independent {α : Type} (abbr : Bool) (t₁ t₂ : List (Key × α)) (hp : t₁.Perm t₂)
    (ht : Disjoint t₁) (k : Key) (hk : k.Single) :
    payload (findArg abbr t₁ k) = payload (findArg abbr t₂ k) :=
  findArg_perm abbr t₁ t₂ hp ht k hk

/-! ### key specifications -/

/-- Parsing never reads outside the specification string (every `arg_spec[i]` has `i ≤ size()`),
    and throws nothing but `std::invalid_argument`. -/
theorem C05_parse_total (s : List Char) :
    (∃ k, Key.parse s = .ok k) ∨ Key.parse s = .throw .invalid_argument :=
  parse_total s

/-- An accepted specification gives a well-formed key: no leading dash left in either part, no
    blank, no comma, and `'\0'` never appears as a short key. -/
theorem C05_parse_wellformed (s : List Char) (k : Key) (h : Key.parse s = .ok k) : k.WellFormed :=
  parse_wellformed s k h

/-- Every documented spelling is accepted and means what the documentation says: a character `c`
    with or without one dash is the short key; a word of two or more characters with zero, one or two
    dashes (or a single character after two dashes) is the long key; "short,long" in either order,
    each part with or without its dashes, gives both.  Characters and words are arbitrary apart from
    the reserved characters (dash as first character, blank, comma, NUL). -/
theorem C05_parse_forms (c : Char) (w : List Char) (hc : KeyChar c) (hw : KeyWord w) :
    (∀ d ∈ [[], ['-']], Key.parse (d ++ [c]) = .ok ⟨some c, []⟩) ∧
    (2 ≤ w.length → ∀ d ∈ [[], ['-'], ['-', '-']], Key.parse (d ++ w) = .ok ⟨none, w⟩) ∧
    Key.parse (['-', '-'] ++ w) = .ok ⟨none, w⟩ ∧
    (2 ≤ w.length → ∀ d₁ ∈ [[], ['-']], ∀ d₂ ∈ [[], ['-'], ['-', '-']],
      Key.parse (d₁ ++ [c] ++ [','] ++ d₂ ++ w) = .ok ⟨some c, w⟩ ∧
      Key.parse (d₂ ++ w ++ [','] ++ d₁ ++ [c]) = .ok ⟨some c, w⟩) :=
  parse_forms c w hc hw

/-! ### the two defects of the pinned commit (repaired by `fix:` commits), as witnesses -/

/-- Pinned `findArg`: with the long keys `input-file`, `input-dir`, `input` defined in this order,
    looking up the exact key `input` throws "matches more than one argument", while in the order
    `input`, `input-file`, `input-dir` it finds the argument: exact-wins and order independence
    both fail.  The repaired code finds it in both orders. -/
theorem C05_head_exact_after_prefixes :
    let f := (⟨none, "input-file".toList⟩ : Key)
    let d := (⟨none, "input-dir".toList⟩ : Key)
    let i := (⟨none, "input".toList⟩ : Key)
    findArgHead true [(f, 0), (d, 1), (i, 2)] i = .throw .runtime_error ∧
    findArgHead true [(i, 2), (f, 0), (d, 1)] i = .ok (some (0, 2)) ∧
    findArg true [(f, 0), (d, 1), (i, 2)] i = .ok (some (2, 2)) :=
  ⟨rfl, rfl, rfl⟩

/-- Pinned `ArgumentKey`: the word `x-ray` (what the command line word `--x-ray` is looked up with)
    is rejected as having "too many leading dashes" although the key `--x-ray` can be defined;
    the repaired constructor accepts it. -/
theorem C05_head_dash_in_second_position :
    Key.parseHead "x-ray".toList = .throw .invalid_argument ∧
    Key.parseHead "--x-ray".toList = .ok ⟨none, "x-ray".toList⟩ ∧
    Key.parse "x-ray".toList = .ok ⟨none, "x-ray".toList⟩ :=
  ⟨rfl, rfl, rfl⟩

/-! ### non-vacuity -/

/-- a table as `addArgument` builds it, with keys that are prefixes of each other -/
def exampleTable : List (Key × Nat) :=
  addAll [] [("i,input".toList, 0), ("input-file".toList, 1), ("--input-dir".toList, 2), ("i".toList, 3),
             ("x,input".toList, 4), ("-".toList, 5), ("a b".toList, 6)]

example : exampleTable = [(⟨some 'i', "input".toList⟩, 0), (⟨none, "input-file".toList⟩, 1),
    (⟨none, "input-dir".toList⟩, 2), (Key.pos, 5)] := by decide
example : Disjoint exampleTable := addAll_disjoint _ _ List.Pairwise.nil
example : payload (findArg true exampleTable ⟨none, "input".toList⟩) = .ok (some 0) := rfl
example : payload (findArg true exampleTable ⟨none, "input-".toList⟩) = .throw .runtime_error := rfl
example : payload (findArg true exampleTable ⟨none, "input-f".toList⟩) = .ok (some 1) := rfl
example : payload (findArg false exampleTable ⟨none, "input-f".toList⟩) = .ok none := rfl
example : (⟨none, "input-f".toList⟩ : Key).Single ∧ ¬ ∃ e ∈ exampleTable, e.1.Clash ⟨none, "input-f".toList⟩ := by
  refine ⟨Or.inl rfl, ?_⟩
  rintro ⟨e, he, hc⟩
  have := (eq_iff_clash_of_single e.1 _ (Or.inl rfl)).mpr hc
  have hall : exampleTable.all (fun e => !e.1.eq ⟨none, "input-f".toList⟩) = true := rfl
  have := List.all_eq_true.mp hall e he
  simp_all
example : KeyChar 'v' ∧ KeyWord "x-ray".toList := by decide

end CelmaVerif.Props.C05
