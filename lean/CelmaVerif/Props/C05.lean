import CelmaVerif.Lemmas.Keys
import CelmaVerif.Lemmas.KeysParse
import CelmaVerif.Lemmas.KeysCmdline
/-
  C05 — a key designates exactly one argument, independent of definition order.
  Property theorems only; helper lemmas are in Lemmas/Keys.lean and Lemmas/KeysParse.lean.

  `Key.parse`, `addArgument`, `findArg`, `wordKey`/`cmdKey` model the code after the three `fix:` commits
  (exact matches first in `ArgumentContainer::findArg`; leading-dash count in `ArgumentKey`; the
  lookup key of a one-character name in `Handler::evalSingleArgument`);
  `findArgHead` / `Key.parseHead` / `cmdLookupHead` are the pinned code, used only by the witness
  theorems `C05_head_*`.
-/
namespace CelmaVerif.Props.C05
open CelmaVerif CelmaVerif.Keys

/-! ### defining arguments -/

/-- After any sequence of `addArgument( spec)` calls — accepted, refused because of the key, or
    refused because the specification does not parse — the table is `Disjoint`: no two entries share a
    short key or a long key or are both the positional key.  (This is literally the hypothesis of
    `C05_exact_wins`, `C05_order_independent` and `C05_cmdline_exact`.) -/
theorem C05_keys_disjoint {α : Type} (specs : List (List Char × α)) : Disjoint (addAll [] specs) :=
  addAll_disjoint specs ([] : List (Key × α)) List.Pairwise.nil

/-- What `Disjoint` says, part by part. -/
theorem C05_disjoint_iff {α : Type} (t : List (Key × α)) :
    Disjoint t ↔ t.Pairwise (fun a b => ¬ a.1.shareShort b.1 ∧ ¬ a.1.shareLong b.1 ∧
      ¬ (a.1 = Key.pos ∧ b.1 = Key.pos)) := by
  unfold Disjoint Key.Clash
  constructor
  · intro h
    exact h.imp (fun hc => ⟨fun x => hc (Or.inl x), fun x => hc (Or.inr (Or.inl x)),
      fun x => hc (Or.inr (Or.inr x))⟩)
  · intro h
    refine h.imp (fun hc x => ?_)
    rcases x with x | x | x
    · exact hc.1 x
    · exact hc.2.1 x
    · exact hc.2.2 x

/-- Every key stored by a sequence of `addArgument( spec)` calls is well formed (no leading dash left,
    no blank, no comma, no NUL as short key). -/
theorem C05_keys_wellformed {α : Type} (specs : List (List Char × α)) :
    ∀ e ∈ addAll ([] : List (Key × α)) specs, e.1.WellFormed :=
  addAll_wellformed specs [] (fun _ h => by cases h)

/-- Defining an argument is refused (`std::invalid_argument`) exactly when a stored key has the same
    short key, the same long key, or both are positional — this includes every contradicting
    short/long pair, since a contradicting pair agrees in one of its two parts — and is otherwise
    accepted by appending the entry. -/
theorem C05_refuses {α : Type} (t : List (Key × α)) (k : Key) (a : α) :
    (addArgument t k a = .throw .invalid_argument ↔ ∃ e ∈ t, e.1.Clash k) ∧
    (addArgument t k a = .ok (t ++ [(k, a)]) ↔ ¬ ∃ e ∈ t, e.1.Clash k) ∧
    (addArgument t k a = .throw .invalid_argument ∨ addArgument t k a = .ok (t ++ [(k, a)])) :=
  ⟨addArgument_throw_iff t k a, addArgument_ok_iff t k a, addArgument_cases t k a⟩

/-- A short/long pair that contradicts a stored pair (one part equal, the other different) is refused. -/
theorem C05_mismatch_refused {α : Type} (t : List (Key × α)) (e : Key × α) (he : e ∈ t) (k : Key) (a : α)
    (hm : e.1.mismatch k = true) : addArgument t k a = .throw .invalid_argument :=
  (addArgument_throw_iff t k a).mpr
    ⟨e, he, (eq_or_mismatch_iff e.1 k).mp (by rw [hm]; exact Bool.or_true _)⟩

/-! ### lookup -/

/-- An exact key always selects its own argument: in a table without clashing keys (every table
    built by `addArgument`), looking up a character, a word or the positional key that an entry
    carries returns that entry — whatever the position of the entry, whatever else is defined,
    with abbreviations allowed or not. -/
theorem C05_exact_wins {α : Type} (abbr : Bool) (t : List (Key × α)) (ht : Disjoint t) (e : Key × α)
    (he : e ∈ t) (k : Key) (hk : k.Single) (hc : e.1.Clash k) :
    payload (findArg abbr t k) = .ok (some e.2) :=
  findArg_exact abbr t ht e he k hk hc

/-- A key that is not an exact key of any entry: with abbreviations enabled it selects an argument
    iff exactly one long key starts with it, is rejected (`std::runtime_error`) when more than one
    does, and is unknown when none does (`uniqueOf`: `[] ↦ none`, `[e] ↦ e`, two or more ↦ throw);
    with abbreviations disabled it is always unknown. -/
theorem C05_prefix {α : Type} (t : List (Key × α)) (k : Key) (hk : k.Single)
    (hno : ¬ ∃ e ∈ t, e.1.Clash k) :
    payload (findArg true t k) = uniqueOf (t.filter (fun e => e.1.startsWith k)) ∧
    payload (findArg false t k) = .ok none := by
  have hno' : ∀ e ∈ t, e.1.eq k = false := by
    intro e he
    cases h : e.1.eq k with
    | false => rfl
    | true => exact absurd ⟨e, he, (eq_iff_clash_of_single e.1 k hk).mp h⟩ hno
  exact ⟨by simpa using findArg_noexact true t k hno', by simpa using findArg_noexact false t k hno'⟩

/-- "starts with" is what it says: both long keys present and the looked-up word is a prefix. -/
theorem C05_startsWith_iff (a b : Key) :
    a.startsWith b = true ↔ a.long ≠ [] ∧ b.long ≠ [] ∧ b.long <+: a.long :=
  startsWith_iff a b

/-- The index returned with the payload is the position of an entry that carries this payload and
    matches the key — exactly, or by prefix only when abbreviations are allowed. -/
theorem C05_index_sound {α : Type} (abbr : Bool) (t : List (Key × α)) (k : Key) (j : Nat) (a : α)
    (h : findArg abbr t k = .ok (some (j, a))) :
    ∃ key, t[j]? = some (key, a) ∧ (key.eq k = true ∨ (abbr = true ∧ key.startsWith k = true)) :=
  findArg_index abbr t k j a h

/-- Lookup results do not depend on the order of definition: for every permutation of a table
    without clashing keys, every command-line key finds the same argument, is unknown in both, or is
    rejected as ambiguous in both. -/
theorem C05_order_independent {α : Type} (abbr : Bool) (t₁ t₂ : List (Key × α)) (hp : t₁.Perm t₂)
    (ht : Disjoint t₁) (k : Key) (hk : k.Single) :
    payload (findArg abbr t₁ k) = payload (findArg abbr t₂ k) :=
  findArg_perm abbr t₁ t₂ hp ht k hk

/-- Definition order, at the level of the `addArgument( spec)` calls: when no two of the specified keys
    clash (so that none is refused; unparsable specifications are refused in every order), every
    permutation of the calls gives a table in which every one-part key finds the same argument, is
    unknown, or is ambiguous. -/
theorem C05_definition_order_independent {α : Type} (abbr : Bool) (specs specs' : List (List Char × α))
    (hp : specs.Perm specs') (hd : Disjoint (keysOf specs)) (k : Key) (hk : k.Single) :
    payload (findArg abbr (addAll [] specs) k) = payload (findArg abbr (addAll [] specs') k) := by
  have hp' := keysOf_perm hp
  rw [addAll_eq_keysOf specs [] (by simpa using hd),
    addAll_eq_keysOf specs' [] (by simpa using disjoint_perm hp' hd)]
  simpa using findArg_perm abbr _ _ hp' hd k hk

/-- **A refused definition leaves no trace in the history.**  For every history of `addArgument( spec)` calls
    (refused ones included, exception caught or not): a call that is not accepted at its place can be removed
    from the history without changing the table — every later definition is accepted or refused, and every later
    lookup answers, as if the refused call had never been made.  LABEL: the content is the definition of `addAll`
    (a refusal returns no table, the caller keeps the old one); that the REAL classes leave nothing behind is what
    the correspondence run checks — the keys harness repeats every refused attempt of a case on each real
    `Handler` it builds (plain and sub-group container, seeded change C05-5: the refused argument stayed
    registered in one container while the other one refused it). -/
theorem C05_refused_definition_leaves_no_trace {α : Type} (t : List (Key × α)) (pre post : List (List Char × α))
    (s : List Char × α) (h : ∀ t', addArgumentSpec (addAll t pre) s.1 s.2 ≠ .ok t') :
    addAll t (pre ++ s :: post) = addAll t (pre ++ post) := by
  unfold addAll at *
  rw [List.foldl_append, List.foldl_append, List.foldl_cons]
  congr 1
  split
  · rename_i t' ht; exact absurd ht (h t')
  · rfl

/-- the hypothesis is met by a real history: `o,out` defined, then `o,other` (clashes in the short key) is
    refused, and the later definition `other` is accepted as if that call had not been made -/
example : addArgumentSpec (addAll ([] : List (Key × Nat)) [("o,out".toList, 0)]) "o,other".toList 1
      = .throw .invalid_argument ∧
    addAll ([] : List (Key × Nat)) [("o,out".toList, 0), ("o,other".toList, 1), ("other".toList, 2)]
      = addAll [] [("o,out".toList, 0), ("other".toList, 2)] ∧
    (addAll ([] : List (Key × Nat)) [("o,out".toList, 0), ("other".toList, 2)]).length = 2 := by
  refine ⟨?_, ?_, ?_⟩ <;> rfl

/-! ### on the command line

  `classifyWord`/`cmdKey`/`cmdLookup` model how `Handler::evalSingleArgument` gets from a key word
  to the entry: `-c` → `ArgumentKey( c)`, `--name` → `ArgumentKey( name)` through the parser of key
  *specifications*, with the two dashes put back for a name of one character (`wordKey`; the code
  after the `fix:` commit for the former finding `one-char-long-key`).  `cmdLookupHead` is the
  pinned code, used only by the witness theorems `C05_head_one_char_long(_neg)`. -/

/-- Which key word designates which lookup key, for every table and both abbreviation settings:
    `-c` is looked up with the short key `c`; `--w` for a key word `w` of **any** length with the
    long key `w`; in particular `--c` for a single character `c` with the **long** key `c` (not a
    synonym of `-c`); in general `--name` with whatever `wordKey name` yields (`invalid_argument`
    when it does not parse), where `wordKey name` is `Key.parse name` for every name that is not
    exactly one character long and `Key.parse "--c"` for the name `c`. -/
theorem C05_cmdline_key {α : Type} (abbr : Bool) (t : List (Key × α)) :
    (∀ c, c ≠ '-' → c ≠ '\x00' → cmdLookup abbr t ['-', c] = findArg abbr t ⟨some c, []⟩) ∧
    (∀ w, KeyWord w → '=' ∉ w → cmdLookup abbr t ('-' :: '-' :: w) = findArg abbr t ⟨none, w⟩) ∧
    (∀ c, KeyChar c → c ≠ '=' → cmdLookup abbr t ['-', '-', c] = findArg abbr t ⟨none, [c]⟩) ∧
    (∀ name, name ≠ [] → '=' ∉ name →
      cmdLookup abbr t ('-' :: '-' :: name) = (wordKey name >>= fun k => findArg abbr t k)) ∧
    (∀ name, name.length ≠ 1 → wordKey name = Key.parse name) ∧
    (∀ c, wordKey [c] = Key.parse ['-', '-', c]) :=
  ⟨cmdLookup_short abbr t, cmdLookup_word abbr t, cmdLookup_one_char abbr t, cmdLookup_long abbr t,
   wordKey_of_ne_one, wordKey_one⟩

/-- Not refused although not a key of the documented syntax: one extra dash before a character and one
    or two extra dashes before a word are removed by the specification parser, so `---c` designates what
    `-c` designates and `---word`, `----word` what `--word` designates (a fifth dash is
    `invalid_argument`, `C05_parse_total`). -/
theorem C05_cmdline_extra_dashes {α : Type} (abbr : Bool) (t : List (Key × α)) (c : Char) (w : List Char)
    (hc : KeyChar c) (hce : c ≠ '=') (hw : KeyWord w) (heq : '=' ∉ w) (hlen : 2 ≤ w.length) :
    cmdLookup abbr t ['-', '-', '-', c] = findArg abbr t ⟨some c, []⟩ ∧
    cmdLookup abbr t ('-' :: '-' :: '-' :: w) = findArg abbr t ⟨none, w⟩ ∧
    cmdLookup abbr t ('-' :: '-' :: '-' :: '-' :: w) = findArg abbr t ⟨none, w⟩ :=
  cmdLookup_extra_dashes abbr t c w hc hce hw heq hlen

/-- "On the command line an exact key always selects its own argument", composed from the word to
    the entry: in a table without clashing keys, for every entry (at any position, whatever else is
    defined, abbreviations on or off) with a well-formed key, the word `-c` for its short key `c`
    and the word `--w` for its long key `w` — of one character or more — select that entry.
    Domain: long keys without `=`, i.e. every long key that can be typed as a key word at all: the
    command-line syntax `--name=value` makes the argument-list iterator cut the word at the first `=`
    (a specification like `a=b` is accepted by the constructor but is not a key of the documented
    syntax; `classifyWord` knows the two plain key words only, the cut is the handler model's).
    (Before the `fix:` commit for the finding `one-char-long-key` this needed `2 ≤ |w|` and was
    named `C05_cmdline_exact_partial`; the pinned code violates it: `C05_head_one_char_long_neg`.) -/
theorem C05_cmdline_exact {α : Type} (abbr : Bool) (t : List (Key × α)) (ht : Disjoint t)
    (e : Key × α) (he : e ∈ t) (hwf : e.1.WellFormed) :
    (∀ c, e.1.short = some c → payload (cmdLookup abbr t ['-', c]) = .ok (some e.2)) ∧
    (e.1.long ≠ [] → '=' ∉ e.1.long →
      payload (cmdLookup abbr t ('-' :: '-' :: e.1.long)) = .ok (some e.2)) := by
  constructor
  · intro c hc
    have h1 : c ≠ '-' := fun h => hwf.1 (by rw [hc, h])
    have h2 : c ≠ '\x00' := fun h => hwf.2.2.2.1 (by rw [hc, h])
    rw [cmdLookup_short abbr t c h1 h2]
    exact findArg_exact abbr t ht e he _ (Or.inr rfl) (Or.inl ⟨by rw [hc]; rfl, hc⟩)
  · intro hne heq
    exact cmdline_exact_long abbr t ht e he hwf hne heq

/-- The same from the definitions to the command line: after any sequence of `addArgument( spec)` calls,
    every stored entry is selected by `-c` for its short key and by `--w` for its long key (any
    length, no `=`; same domain as `C05_cmdline_exact`). -/
theorem C05_cmdline_exact_defined {α : Type} (abbr : Bool) (specs : List (List Char × α))
    (e : Key × α) (he : e ∈ addAll [] specs) :
    (∀ c, e.1.short = some c → payload (cmdLookup abbr (addAll [] specs) ['-', c]) = .ok (some e.2)) ∧
    (e.1.long ≠ [] → '=' ∉ e.1.long →
      payload (cmdLookup abbr (addAll [] specs) ('-' :: '-' :: e.1.long)) = .ok (some e.2)) :=
  C05_cmdline_exact abbr _ (C05_keys_disjoint specs) e he (C05_keys_wellformed specs e he)

/-- The former finding `one-char-long-key` on the repaired code: the specifications `--v` and `-v`
    define two arguments (long key `v`, short key `v`); the word `--v` selects the argument of `--v`
    and the word `-v` the argument of `-v`, in both definition orders; `--v` defined alone is selected
    by `--v` (and not by `-v`); with only `-v` defined the word `--v` is unknown. -/
theorem C05_one_char_long :
    addAll [] [("--v".toList, 0), ("-v".toList, 1)] = [(⟨none, ['v']⟩, 0), (⟨some 'v', []⟩, 1)] ∧
    payload (cmdLookup true (addAll [] [("--v".toList, 0), ("-v".toList, 1)]) "--v".toList) = .ok (some 0) ∧
    payload (cmdLookup true (addAll [] [("--v".toList, 0), ("-v".toList, 1)]) "-v".toList) = .ok (some 1) ∧
    payload (cmdLookup true (addAll [] [("-v".toList, 1), ("--v".toList, 0)]) "--v".toList) = .ok (some 0) ∧
    payload (cmdLookup true (addAll [] [("-v".toList, 1), ("--v".toList, 0)]) "-v".toList) = .ok (some 1) ∧
    payload (cmdLookup true (addAll [] [("--v".toList, 0)]) "--v".toList) = .ok (some 0) ∧
    payload (cmdLookup true (addAll [] [("--v".toList, 0)]) "-v".toList) = .ok none ∧
    payload (cmdLookup true (addAll [] [("-v".toList, 1)]) "--v".toList) = .ok none :=
  ⟨by decide, rfl, rfl, rfl, rfl, rfl, rfl, rfl⟩

/-- Witness about the PINNED code (`cmdLookupHead`: `ArgumentKey( ai->mArgString)` for every name;
    repaired by the `fix:` commit for the finding `one-char-long-key`, reproduced through the real
    `Handler::evalArguments` with the harness operation `keys word`).  The specifications `--v` and
    `-v` are both accepted and define two arguments; the word `--v` selected the argument of `-v`, in
    both definition orders; with `--v` defined alone the word `--v` was unknown, and so was every
    other key word: the argument could not be selected at all.  In general `--c` was looked up with
    the short key `c`. -/
theorem C05_head_one_char_long :
    addAll [] [("--v".toList, 0), ("-v".toList, 1)] = [(⟨none, ['v']⟩, 0), (⟨some 'v', []⟩, 1)] ∧
    payload (cmdLookupHead true (addAll [] [("--v".toList, 0), ("-v".toList, 1)]) "--v".toList) = .ok (some 1) ∧
    payload (cmdLookupHead true (addAll [] [("-v".toList, 1), ("--v".toList, 0)]) "--v".toList) = .ok (some 1) ∧
    payload (cmdLookupHead true (addAll [] [("--v".toList, 0)]) "--v".toList) = .ok none ∧
    payload (cmdLookupHead true (addAll [] [("--v".toList, 0)]) "-v".toList) = .ok none ∧
    (∀ (abbr : Bool) (t : List (Key × Nat)) (c : Char), KeyChar c → c ≠ '=' →
      cmdLookupHead abbr t ['-', '-', c] = findArg abbr t ⟨some c, []⟩) :=
  ⟨by decide, rfl, rfl, rfl, rfl, fun abbr t c hc he => cmdLookupHead_one_char abbr t c hc he⟩

/-- Hence `C05_cmdline_exact` is false of the pinned code: the statement with `cmdLookupHead` in the
    place of `cmdLookup` fails for the one-character long key. -/
theorem C05_head_one_char_long_neg :
    ¬ (∀ (abbr : Bool) (t : List (Key × Nat)), Disjoint t → ∀ e ∈ t, e.1.WellFormed → e.1.long ≠ [] →
        '=' ∉ e.1.long → payload (cmdLookupHead abbr t ('-' :: '-' :: e.1.long)) = .ok (some e.2)) := by
  intro h
  have hd : Disjoint (addAll ([] : List (Key × Nat)) [("--v".toList, 0), ("-v".toList, 1)]) :=
    C05_keys_disjoint _
  have h1 := h true _ hd (⟨none, ['v']⟩, 0) (by decide) (by decide) (by decide) (by decide)
  have h3 : (Res.ok (some 0) : Res (Option Nat)) = Res.ok (some 1) :=
    h1.symm.trans C05_head_one_char_long.2.1
  exact absurd h3 (by simp)

/-- Key words whose name contains no comma — all documented ones — give one-part lookup keys, the
    domain of `C05_exact_wins`, `C05_prefix` and `C05_order_independent`. -/
theorem C05_cmdline_single (cw : CmdWord) (k : Key) (hc : ∀ name, cw = .long name → ',' ∉ name)
    (h : cmdKey cw = .ok k) : k.Single := by
  cases cw with
  | short c =>
    simp only [cmdKey, Res.ok.injEq] at h
    subst h; exact Or.inr rfl
  | long name => exact wordKey_single_of_no_comma name (hc name rfl) k h

/-- A word whose name contains a comma, like `--x,beta`, is not a key of the documented syntax but is
    not refused either: it is looked up with the two-part key (`x`, `beta`), `operator==` compares
    the short part when the entry has one and the long part otherwise, and which of two matching
    arguments is selected depends on the definition order.  This is why the order-independence
    theorems are stated for one-part keys. -/
theorem C05_cmdline_two_part_key :
    cmdKey (.long "x,beta".toList) = .ok ⟨some 'x', "beta".toList⟩ ∧
    payload (cmdLookup true (addAll [] [("x,alpha".toList, 0), ("beta".toList, 1)]) "--x,beta".toList)
      = .ok (some 0) ∧
    payload (cmdLookup true (addAll [] [("beta".toList, 1), ("x,alpha".toList, 0)]) "--x,beta".toList)
      = .ok (some 1) :=
  ⟨rfl, rfl, rfl⟩

/-! ### key specifications -/

/-- Parsing never reads outside the specification string (every `arg_spec[i]` has `i ≤ size()`),
    and throws nothing but `std::invalid_argument`. -/
theorem C05_parse_total (s : List Char) :
    (∃ k, Key.parse s = .ok k) ∨ Key.parse s = .throw .invalid_argument :=
  parse_total s

/-- An accepted specification gives a well-formed key: no leading dash left in either part, no
    blank, no comma, and `'\0'` never appears as a short key. -/
theorem C05_parse_wellformed (s : List Char) (k : Key) (h : Key.parse s = .ok k) : k.WellFormed :=
  parse_wellformed s k h

/-- Every documented spelling is accepted and means what the documentation says: a character `c`
    with or without one dash is the short key; a word of two or more characters with zero, one or two
    dashes (or a single character after two dashes) is the long key; "short,long" in either order,
    each part with or without its dashes, gives both.  Characters and words are arbitrary apart from
    the reserved characters (dash as first character, blank, comma, NUL). -/
theorem C05_parse_forms (c : Char) (w : List Char) (hc : KeyChar c) (hw : KeyWord w) :
    (∀ d ∈ [[], ['-']], Key.parse (d ++ [c]) = .ok ⟨some c, []⟩) ∧
    (2 ≤ w.length → ∀ d ∈ [[], ['-'], ['-', '-']], Key.parse (d ++ w) = .ok ⟨none, w⟩) ∧
    Key.parse (['-', '-'] ++ w) = .ok ⟨none, w⟩ ∧
    (2 ≤ w.length → ∀ d₁ ∈ [[], ['-']], ∀ d₂ ∈ [[], ['-'], ['-', '-']],
      Key.parse (d₁ ++ [c] ++ [','] ++ d₂ ++ w) = .ok ⟨some c, w⟩ ∧
      Key.parse (d₂ ++ w ++ [','] ++ d₁ ++ [c]) = .ok ⟨some c, w⟩) :=
  parse_forms c w hc hw

/-! ### the two other defects of the pinned commit (repaired by `fix:` commits), as witnesses -/

/-- Pinned `findArg`: with the long keys `input-file`, `input-dir`, `input` defined in this order,
    looking up the exact key `input` throws "matches more than one argument", while in the order
    `input`, `input-file`, `input-dir` it finds the argument: exact-wins and order independence
    both fail.  The repaired code finds it in both orders. -/
theorem C05_head_exact_after_prefixes :
    let f := (⟨none, "input-file".toList⟩ : Key)
    let d := (⟨none, "input-dir".toList⟩ : Key)
    let i := (⟨none, "input".toList⟩ : Key)
    findArgHead true [(f, 0), (d, 1), (i, 2)] i = .throw .runtime_error ∧
    findArgHead true [(i, 2), (f, 0), (d, 1)] i = .ok (some (0, 2)) ∧
    findArg true [(f, 0), (d, 1), (i, 2)] i = .ok (some (2, 2)) :=
  ⟨rfl, rfl, rfl⟩

/-- Pinned `ArgumentKey`: the word `x-ray` (what the command line word `--x-ray` is looked up with)
    is rejected as having "too many leading dashes" although the key `--x-ray` can be defined;
    the repaired constructor accepts it. -/
theorem C05_head_dash_in_second_position :
    Key.parseHead "x-ray".toList = .throw .invalid_argument ∧
    Key.parseHead "--x-ray".toList = .ok ⟨none, "x-ray".toList⟩ ∧
    Key.parse "x-ray".toList = .ok ⟨none, "x-ray".toList⟩ :=
  ⟨rfl, rfl, rfl⟩

/-! ### non-vacuity -/

/-- a table as `addArgument` builds it, with keys that are prefixes of each other -/
def exampleTable : List (Key × Nat) :=
  addAll [] [("i,input".toList, 0), ("input-file".toList, 1), ("--input-dir".toList, 2), ("i".toList, 3),
             ("x,input".toList, 4), ("-".toList, 5), ("a b".toList, 6)]

example : exampleTable = [(⟨some 'i', "input".toList⟩, 0), (⟨none, "input-file".toList⟩, 1),
    (⟨none, "input-dir".toList⟩, 2), (Key.pos, 5)] := by decide
example : Disjoint exampleTable := C05_keys_disjoint _
example : payload (findArg true exampleTable ⟨none, "input".toList⟩) = .ok (some 0) := rfl
example : payload (findArg true exampleTable ⟨none, "input-".toList⟩) = .throw .runtime_error := rfl
example : payload (findArg true exampleTable ⟨none, "input-f".toList⟩) = .ok (some 1) := rfl
example : payload (findArg false exampleTable ⟨none, "input-f".toList⟩) = .ok none := rfl
example : (⟨none, "input-f".toList⟩ : Key).Single ∧ ¬ ∃ e ∈ exampleTable, e.1.Clash ⟨none, "input-f".toList⟩ := by
  refine ⟨Or.inl rfl, ?_⟩
  rintro ⟨e, he, hc⟩
  have := (eq_iff_clash_of_single e.1 _ (Or.inl rfl)).mpr hc
  have hall : exampleTable.all (fun e => !e.1.eq ⟨none, "input-f".toList⟩) = true := rfl
  have := List.all_eq_true.mp hall e he
  simp_all
example : KeyChar 'v' ∧ KeyWord "x-ray".toList := by decide
-- `C05_cmdline_exact` on the table above: all hypotheses hold for the entry `i,input`, both words select it
example : (⟨some 'i', "input".toList⟩, 0) ∈ exampleTable ∧ (⟨some 'i', "input".toList⟩ : Key).WellFormed ∧
    "input".toList ≠ [] ∧ '=' ∉ "input".toList := by decide
-- … and for a long key of one character defined next to the short key of the same character
example : Disjoint (addAll ([] : List (Key × Nat)) [("--v".toList, 0), ("-v".toList, 1)]) ∧
    ((⟨none, ['v']⟩ : Key), 0) ∈ addAll ([] : List (Key × Nat)) [("--v".toList, 0), ("-v".toList, 1)] ∧
    (⟨none, ['v']⟩ : Key).WellFormed ∧ ['v'] ≠ [] ∧ '=' ∉ ['v'] :=
  ⟨C05_keys_disjoint _, by decide, by decide, by decide, by decide⟩
example : payload (cmdLookup false exampleTable "-i".toList) = .ok (some 0) ∧
    payload (cmdLookup true exampleTable "--input".toList) = .ok (some 0) ∧
    payload (cmdLookup true exampleTable "--input-d".toList) = .ok (some 2) ∧
    payload (cmdLookup true exampleTable "--input-".toList) = .throw .runtime_error ∧
    payload (cmdLookup false exampleTable "--input-d".toList) = .ok none := ⟨rfl, rfl, rfl, rfl, rfl⟩
-- `C05_definition_order_independent`: four specifications (one unparsable) whose keys do not clash, and a permutation
example : Disjoint (keysOf [("i,input".toList, 0), ("a b".toList, 6), ("input-file".toList, 1), ("-".toList, 5)]) ∧
    [("i,input".toList, 0), ("a b".toList, 6), ("input-file".toList, 1), ("-".toList, 5)].Perm
      [("-".toList, 5), ("input-file".toList, 1), ("i,input".toList, 0), ("a b".toList, 6)] := by
  refine ⟨?_, by decide⟩
  have : keysOf [("i,input".toList, 0), ("a b".toList, 6), ("input-file".toList, 1), ("-".toList, 5)] =
      addAll [] [("i,input".toList, 0), ("a b".toList, 6), ("input-file".toList, 1), ("-".toList, 5)] := by decide
  rw [this]; exact C05_keys_disjoint _
-- `C05_cmdline_extra_dashes`
example : KeyChar 'i' ∧ 'i' ≠ '=' ∧ KeyWord "input".toList ∧ '=' ∉ "input".toList ∧ 2 ≤ "input".toList.length ∧
    payload (cmdLookup true exampleTable "---i".toList) = .ok (some 0) ∧
    payload (cmdLookup true exampleTable "----input-file".toList) = .ok (some 1) ∧
    cmdLookup true exampleTable "-----input".toList = .throw .invalid_argument :=
  ⟨by decide, by decide, by decide, by decide, by decide, rfl, rfl, rfl⟩
-- `C05_cmdline_single`: a key word without comma
example : cmdKey (.long "x-ray".toList) = .ok ⟨none, "x-ray".toList⟩ ∧ ',' ∉ "x-ray".toList := ⟨rfl, by decide⟩

end CelmaVerif.Props.C05
