import CelmaVerif.Props.C06
/-
  C04 for the fixed-size container destinations (`T[N]`, `std::array<T,N>`, `std::bitset<N>`, tuple) of
  `typed_arg.hpp`, one of C04's anchored files.

  SCOPE, honestly: this is a SECOND COMPONENT MODEL (Model/Containers.lean: `arrRunP`, `bitRunP`, `TupState.put`),
  NOT composed with the handler model — `Kind` of Model/ProgArgs/Handler.lean has no container destination, so
  nothing here is a statement about `evalArguments` / `evalArgumentsT`; the link to the real `Handler` is the
  containers harness (ASan + UBSan), which this property runs too ("second plugin").
  * `C04_array_store_in_bounds` is a real invariant (whole run, every list of uses, checked writes: `oob` =
    a store outside the N slots), `C04_array_full_refuses` the refusal at a full array.
  * `C04_bitset_store_in_bounds` and `C04_tuple_put_in_bounds` are NEAR-DEFINITIONAL (see their docstrings): the
    model functions have no reachable out-of-bounds branch by their syntax; what they contribute is that the
    model's guard is the one the harness validates against the real code, not a proof about stores.
-/
namespace CelmaVerif.Props.C04c
open CelmaVerif CelmaVerif.Containers

/-- **Arrays.**  From any state whose fill index is inside the array, for every list of uses (any words, any
    options, unique-data on or off): the evaluation never stores outside the N slots and N never changes.  An
    element arriving at a full array is refused with `std::runtime_error` — also when unique-data is set. -/
theorem C04_array_store_in_bounds {α : Type} [DecidableEq α] (E : Elem α) (o : Opts) (w : Bool) (s : ArrState α)
    (uses : List (List Char)) (h : s.idx ≤ s.slots.length) :
    (∀ x, (arrRunP E o w s uses).2 ≠ some (.oob x)) ∧ (arrRunP E o w s uses).1.slots.length = s.slots.length :=
  (C06.C06_capacity_array E o w s [] [] uses).2 h

theorem C04_array_full_refuses {α : Type} [DecidableEq α] (E : Elem α) (o : Opts) (w : Bool) (s : ArrState α)
    (t : List Char) (ts : List (List Char)) (h : s.idx = s.slots.length) :
    arrElems E o w s (t :: ts) = (s, some (.exc .runtime_error)) :=
  (C06.C06_capacity_array E o w s t ts []).1 h

theorem bitElems_safe (o : Opts) : ∀ (ts : List (List Char)) (b : List Bool),
    (∀ x, (bitElems o b ts).2 ≠ some (.oob x)) ∧ (bitElems o b ts).1.length = b.length
  | [], b => by simp [bitElems]
  | t :: ts, b => by
    have hs := bitStep_safe o b t
    unfold bitElems
    cases hb : bitStep o b t with
    | ok b' =>
      simp only
      have ih := bitElems_safe o ts b'
      exact ⟨ih.1, by rw [ih.2, hs.2 b' hb]⟩
    | throw e => simp
    | oob x => exact absurd hb (hs.1 x)

theorem bitAssignP_safe (o : Opts) (s : BitState) (u : List Char) :
    (∀ x, (bitAssignP o s u).2 ≠ some (.oob x)) ∧ (bitAssignP o s u).1.bits.length = s.bits.length := by
  have he := bitElems_safe o (tokens o.sep u) (if s.clearPending then s.bits.map (fun _ => false) else s.bits)
  have hlen : (if s.clearPending then s.bits.map (fun _ => false) else s.bits).length = s.bits.length := by
    split <;> simp
  unfold bitAssignP
  exact ⟨he.1, by show (bitElems o _ _).1.length = _; rw [he.2, hlen]⟩

/-- **Bitsets** — NEAR-DEFINITIONAL: `bitStep` is `if pos ≥ n then throw runtime_error else if pos < n then set
    else oob`; its `oob` branch is dead by syntax, so "no `oob`" holds by the shape of the model (the guard
    `pos >= N` mirrors `TypedArg< std::bitset<N>>::assign`, validated by the containers harness; the whole-run
    statement with the exact state is `C06_bitset_outside`).  Content: N never changes over any list of uses. -/
theorem C04_bitset_store_in_bounds (o : Opts) : ∀ (uses : List (List Char)) (s : BitState),
    (∀ x, (bitRunP o s uses).2 ≠ some (.oob x)) ∧ (bitRunP o s uses).1.bits.length = s.bits.length
  | [], s => by simp [bitRunP]
  | u :: us, s => by
    have ha := bitAssignP_safe o s u
    unfold bitRunP
    generalize bitAssignP o s u = r at ha
    obtain ⟨s', st⟩ := r
    cases st with
    | none =>
      have ih := C04_bitset_store_in_bounds o us s'
      exact ⟨ih.1, by rw [ih.2]; exact ha.2⟩
    | some r => exact ⟨ha.1, ha.2⟩

/-- **Tuples** — NEAR-DEFINITIONAL, one step: the `| _ =>` arm of `TupState.put` (by `rfl`); `put` has no `oob`
    result at all (the tuple is three named fields in the model), so no "store outside" is expressible.  A value
    for a position behind the last element is refused with `std::out_of_range` and the state is not changed. -/
theorem C04_tuple_put_in_bounds (s : TupState) (t : List Char) (h : s.numSet ≥ tupLen) :
    s.put t = .throw .out_of_range := tup_put_outside s t h

example : (arrRunP intElem {} false ⟨[0, 0, 0], 0⟩ [['1', ',', '2', ',', '3', ',', '4']]).2 = some (.exc .runtime_error) := by
  decide

end CelmaVerif.Props.C04c
