import CelmaVerif.Lemmas.LogFormat
import CelmaVerif.Lemmas.LogFormatScopes
import CelmaVerif.Lemmas.LogFormatNumbers
import CelmaVerif.Lemmas.LogFormatSep
/-
  C16 — every delivered log message is rendered exactly as its format definition says.
  Property theorems only; the model is Model/LogFormat.lean, the specification-side definitions
  (`specFields`, `padded`) and helper lemmas are in Lemmas/LogFormat.lean, those of the attribute scopes
  (`addsOf`, `endedOf`, `liveOf`, `globalsOf`, `Nested`, `Scopes.WF`) in Lemmas/LogFormatScopes.lean.

  The model is that of the repaired code: /repo commits a30730d (date/time texts of 127 bytes and more),
  00bb4c9 (message attribute with an empty value) and 46917af (a scoped attribute removes its own entry),
  see known_findings.d/logformat.json.
-/
namespace CelmaVerif.Props.C16
open CelmaVerif CelmaVerif.LogFormat

/-! ### the builder: stream expression → field list -/

/-- the separator a creator starts with (`nullptr` = feature off) -/
def initialSep : Option Text → Text
  | some s => s
  | none => []

/-- Builder.  For every definition content `prior`, constructor separator `sep` and stream expression
    `ts` (any sequence of widths, `left`, format strings, separator changes, fields of all sixteen
    kinds, constant texts, attribute fields): the definition afterwards is the old content followed by
    `specFields`, i.e. for each field-adding token, in order: the separator in force at that position
    (last `separator(..)` before it, else the constructor's) as a plain constant field if it is
    non-empty and a field precedes, then the field itself carrying the last width / the `left` flag /
    the last format string given *since the previous field-adding token*, and nothing else. -/
theorem C16_builder (prior : List Field) (sep : Option Text) (ts : List Tok) :
    ((Creator.new prior sep).run ts).fields = prior ++ specFields (initialSep sep) prior ts := by
  have h := builderInv_take (initialSep sep) prior ts sep (by cases sep <;> rfl) ts.length (Nat.le_refl _)
  have hf := h.fields
  rw [List.take_length] at hf
  exact hf

/-- After a whole stream expression the creator's pending options are exactly those given after the
    last field-adding token, and its separator is the last one selected. -/
theorem C16_builder_state (prior : List Field) (sep : Option Text) (ts : List Tok) :
    let c := (Creator.new prior sep).run ts
    c.width = optWidth (pendingTokens ts) ∧ c.left = optLeft (pendingTokens ts) ∧
    c.fmt = optFmt (pendingTokens ts) ∧ c.autoSep = sepAfter (initialSep sep) ts := by
  have h := builderInv_take (initialSep sep) prior ts sep (by cases sep <;> rfl) ts.length (Nat.le_refl _)
  have hw := h.width; have hl := h.left; have hf := h.fmt; have hs := h.sep
  rw [List.take_length] at hw hl hf hs
  exact ⟨hw, hl, hf, hs⟩

/-- Options apply to the next field only: the field created by `b` depends on nothing before the
    previous field-adding token `a` — whatever width, alignment or format string was given for
    earlier fields (`pre`) has been consumed. -/
theorem C16_builder_options_next_field_only (pre opts : List Tok) (a b : Tok) (ha : a.isAdder = true)
    (hopts : ∀ t ∈ opts, t.isAdder = false) :
    fieldOf (pre ++ a :: opts) b = fieldOf opts b := by
  have h1 : pendingTokens (pre ++ a :: opts) = opts := by
    unfold pendingTokens
    have : (pre ++ a :: opts).reverse = opts.reverse ++ a :: pre.reverse := by simp
    rw [this, List.takeWhile_append_of_pos]
    · simp [ha]
    · intro t ht; simp [hopts t (by simpa using ht)]
  have h2 : pendingTokens opts = opts := by
    unfold pendingTokens
    have : opts.reverse = opts.reverse ++ [] := by simp
    rw [this, List.takeWhile_append_of_pos]
    · simp
    · intro t ht; simp [hopts t (by simpa using ht)]
  cases b <;> simp [fieldOf, h1, h2]

/-- A field without any option token before it has no width, is right-aligned and has no format
    string (nothing is sticky). -/
theorem C16_builder_no_options (pre : List Tok) (a : Tok) (ha : a.isAdder = true) (t : FieldType) :
    fieldOf (pre ++ [a]) (.field t) = some ⟨t, [], 0, false⟩ := by
  have := C16_builder_options_next_field_only pre [] a (.field t) ha (by simp)
  rw [this]; rfl

/-- The separator rule in its readable form: a creator with a (non-empty) automatic separator, given
    any sequence of fields without options, builds those fields with the separator *between* them —
    none in front, none at the end.  (`C16_builder` is the general statement: separators that change,
    options, constant texts, a definition that is not empty at the start.) -/
theorem C16_separator_between_fields (sep : Text) (hsep : sep ≠ []) (ks : List FieldType) :
    ((Creator.new [] (some sep)).run (ks.map Tok.field)).fields =
      (ks.map plainField).intersperse (Creator.sepField sep) :=
  run_plain_fields sep hsep ks

/-- the maintainers' `test_align_fixedwidth` expression, and an automatic separator that changes -/
example : ((Creator.new [] none).run
      [.width 20, .left, .field .fileName, .const (bytes ":"), .width 6, .field .lineNbr]).fields =
    [⟨.fileName, [], 20, true⟩, ⟨.constant, bytes ":", 0, false⟩, ⟨.lineNbr, [], 6, false⟩] := by decide

example : ((Creator.new [] (some (bytes "|"))).run
      [.const (bytes "one"), .const (bytes "two"), .sep (some (bytes ":")), .fmt (bytes "%d"), .field .date]).fields =
    [⟨.constant, bytes "one", 0, false⟩, ⟨.constant, bytes "|", 0, false⟩, ⟨.constant, bytes "two", 0, false⟩,
     ⟨.constant, bytes ":", 0, false⟩, ⟨.date, bytes "%d", 0, false⟩] := by decide

/-! ### rendering -/

/-- Rendering.  For every definition, message, attribute environment and `strftime`: written to a
    stream in its default state, the output is what was there before followed by the rendered fields
    in definition order, each padded to its width and aligned as the field says — nothing in between,
    nothing after — and the stream is back in its default state (a left-aligned field does not leak
    into the next one). -/
theorem C16_render (e : Env) (m : Msg) (fields : List Field) (o : Text) :
    format e m (OStream.plain o) fields =
      OStream.plain (o ++ (fields.map (fun f => padded f.width f.left (fieldText e m f))).flatten) :=
  format_plain e m fields o

/-- Padding.  The rendered field is never shorter than the text and never cut: its length is
    max(width, length of the text); the text is its beginning (left-aligned) or its end
    (right-aligned) and the rest is blanks; with no width (or one not exceeding the text) it is the
    text itself. -/
theorem C16_pad (w : Int) (left : Bool) (s : Text) :
    (padded w left s).length = max w.toNat s.length ∧
    (left = true → padded w left s = s ++ List.replicate (w.toNat - s.length) 32) ∧
    (left = false → padded w left s = List.replicate (w.toNat - s.length) 32 ++ s) ∧
    (w ≤ (s.length : Int) → padded w left s = s) := by
  refine ⟨padded_length w left s, ?_, ?_, ?_⟩
  · intro h; simp [padded, h]
  · intro h; simp [padded, h]
  · intro h
    have : w.toNat - s.length = 0 := by omega
    cases left <;> simp [padded, this]

/-- (definitional lemma: restates the sixteen branches of the model's `fieldText` by `rfl`; it is NOT the clause
    "every kind of field shows its datum" on its own - that is `C16_field_kinds`, which says what the texts ARE
    without `decInt` / `zeroPad` / `levelText` / `classText`.  Kept because it is the one place where the
    branches can be read side by side and because `C16_field_kinds` and the examples cite it.)
    Which function of the model goes with which kind: constant text verbatim; date, time and date-time through
    `strftime` with the field's own format string if it has one, else `%F`, `%T`, `%F %T`; `zeroPad` of the
    milliseconds / microseconds; `levelText` / `classText`; `decInt` of error number, line number and process
    id; "0x" and `Nat.toDigits 16` of the thread id; file, function and text as the message holds them;
    `attrValue` for an attribute field. -/
theorem C16_field_text (e : Env) (m : Msg) (c : Text) (w : Int) (l : Bool) :
    fieldText e m ⟨.constant, c, w, l⟩ = c ∧
    fieldText e m ⟨.date, c, w, l⟩ = e.strftime (if c = [] then bytes "%F" else c) m.time ∧
    fieldText e m ⟨.time, c, w, l⟩ = e.strftime (if c = [] then bytes "%T" else c) m.time ∧
    fieldText e m ⟨.dateTime, c, w, l⟩ = e.strftime (if c = [] then bytes "%F %T" else c) m.time ∧
    fieldText e m ⟨.msgLevel, c, w, l⟩ = levelText m.level ∧
    fieldText e m ⟨.msgClass, c, w, l⟩ = classText m.cls ∧
    fieldText e m ⟨.errorNbr, c, w, l⟩ = decInt m.errNbr ∧
    fieldText e m ⟨.lineNbr, c, w, l⟩ = decInt m.line ∧
    fieldText e m ⟨.fileName, c, w, l⟩ = m.file ∧
    fieldText e m ⟨.functionName, c, w, l⟩ = m.func ∧
    fieldText e m ⟨.pid, c, w, l⟩ = decInt m.pid ∧
    fieldText e m ⟨.text, c, w, l⟩ = m.text ∧
    fieldText e m ⟨.attribute, c, w, l⟩ = attrValue e m c ∧
    fieldText e m ⟨.time_ms, c, w, l⟩ = zeroPad 3 (m.usec / 1000 % 1000) ∧
    fieldText e m ⟨.time_us, c, w, l⟩ = zeroPad 6 (m.usec % 1000000) ∧
    fieldText e m ⟨.threadId, c, w, l⟩ = bytes "0x" ++ (Nat.toDigits 16 m.tid).map Char.toNat :=
  ⟨rfl, rfl, rfl, rfl, rfl, rfl, rfl, rfl, rfl, rfl, rfl, rfl, rfl, rfl, rfl, rfl⟩

/-- The number texts, told without the model's definitions.  `decNat n` (a non-negative number as
    `std::to_string` writes it) consists of ASCII digits, denotes `n` in decimal notation
    (`digitsValue`) and has at most `k` digits exactly when `n < 10^k` (so: no leading zeros);
    `decInt` puts a '-' in front of the absolute value of a negative number; `zeroPad k n` for a number
    that fits into `k` digits has exactly `k` digits and denotes `n` — in particular the `time_ms` and
    `time_us` fields are always three and six digits long. -/
theorem C16_number_text :
    (∀ n, (∀ c ∈ decNat n, 48 ≤ c ∧ c ≤ 57) ∧ digitsValue (decNat n) = n ∧
      ∀ k, 0 < k → ((decNat n).length ≤ k ↔ n < 10 ^ k)) ∧
    (∀ i : Int, decInt i = if i < 0 then 45 :: decNat i.natAbs else decNat i.natAbs) ∧
    (∀ k n, 0 < k → n < 10 ^ k →
      (zeroPad k n).length = k ∧ (∀ c ∈ zeroPad k n, 48 ≤ c ∧ c ≤ 57) ∧ digitsValue (zeroPad k n) = n) ∧
    (∀ (e : Env) (m : Msg) (c : Text) (w : Int) (l : Bool),
      (fieldText e m ⟨.time_ms, c, w, l⟩).length = 3 ∧
      digitsValue (fieldText e m ⟨.time_ms, c, w, l⟩) = m.usec / 1000 % 1000 ∧
      (fieldText e m ⟨.time_us, c, w, l⟩).length = 6 ∧
      digitsValue (fieldText e m ⟨.time_us, c, w, l⟩) = m.usec % 1000000) := by
  refine ⟨fun n => ⟨decNat_digits n, decNat_value n, decNat_length n⟩, decInt_eq, zeroPad_spec, ?_⟩
  intro e m c w l
  have h3 := zeroPad_spec 3 (m.usec / 1000 % 1000) (by decide) (Nat.mod_lt _ (by decide))
  have h6 := zeroPad_spec 6 (m.usec % 1000000) (by decide) (Nat.mod_lt _ (by decide))
  exact ⟨h3.1, h3.2.2, h6.1, h6.2.2⟩

/-- The names of the levels and classes (the tables of `logLevel2text` / `logClass2text`); every other
    value is shown as "undefined". -/
theorem C16_level_class_names :
    levelText 1 = bytes "Fatal Error" ∧ levelText 2 = bytes "Error" ∧ levelText 3 = bytes "Warning" ∧
    levelText 4 = bytes "Info" ∧ levelText 5 = bytes "Debug" ∧ levelText 6 = bytes "Full Debug" ∧
    classText 1 = bytes "SysCall" ∧ classText 2 = bytes "Data" ∧ classText 3 = bytes "Communication" ∧
    classText 4 = bytes "Application" ∧ classText 5 = bytes "Accounting" ∧
    classText 6 = bytes "Operator Action" ∧
    (∀ n, n = 0 ∨ 7 ≤ n → levelText n = bytes "undefined" ∧ classText n = bytes "undefined") := by
  refine ⟨rfl, rfl, rfl, rfl, rfl, rfl, rfl, rfl, rfl, rfl, rfl, rfl, ?_⟩
  intro n hn
  match n, hn with
  | 0, _ => exact ⟨rfl, rfl⟩
  | n + 7, _ => exact ⟨rfl, rfl⟩
  | 1, h | 2, h | 3, h | 4, h | 5, h | 6, h => omega

/-- (every kind of field shows its datum) What the text of each of the sixteen kinds of field IS, for every
    message, environment, option string, width and alignment - told with the specification-side notions of
    Lemmas/LogFormatNumbers.lean (`IsSignedDecimal`, `IsFixedDigits`, the name tables `levelNames` / `classNames`)
    and not with the model's formatting functions:
    * constant: the text given, verbatim; file name, function name, message text: as the message holds them;
    * date / time / date-time: what `strftime` (environment) gives for the message's time stamp and the field's
      own format string, `%F` / `%T` / `%F %T` when it has none;
    * error number, line number, process id: THE decimal numeral of the value - '-' iff negative, ASCII digits,
      the right value, no leading zeros (`IsSignedDecimal` determines the text);
    * milliseconds / microseconds within the second: exactly three / six ASCII digits denoting
      `usec / 1000 mod 1000` / `usec mod 1000000`;
    * level / class: the name at the position of the value in the table of `log_defs.hpp`, "undefined" for 0 and
      for every value from 7 on;
    * attribute: the value the message's own attribute chain gives to the name (even an empty one), else the newest
      global attribute of that name, else nothing (`C16_attr_precedence`, `C16_attr_latest` say what the two
      lookups are);
    * thread id: "0x" followed by `Nat.toDigits 16` of the id - stated with that core function only, there is no
      value theorem for the hexadecimal digits (labelled; the differential run compares it byte by byte). -/
theorem C16_field_kinds (e : Env) (m : Msg) (c : Text) (w : Int) (l : Bool) :
    fieldText e m ⟨.constant, c, w, l⟩ = c
    ∧ fieldText e m ⟨.fileName, c, w, l⟩ = m.file
    ∧ fieldText e m ⟨.functionName, c, w, l⟩ = m.func
    ∧ fieldText e m ⟨.text, c, w, l⟩ = m.text
    ∧ fieldText e m ⟨.date, c, w, l⟩ = e.strftime (if c = [] then bytes "%F" else c) m.time
    ∧ fieldText e m ⟨.time, c, w, l⟩ = e.strftime (if c = [] then bytes "%T" else c) m.time
    ∧ fieldText e m ⟨.dateTime, c, w, l⟩ = e.strftime (if c = [] then bytes "%F %T" else c) m.time
    ∧ IsSignedDecimal (fieldText e m ⟨.errorNbr, c, w, l⟩) m.errNbr
    ∧ IsSignedDecimal (fieldText e m ⟨.lineNbr, c, w, l⟩) m.line
    ∧ IsSignedDecimal (fieldText e m ⟨.pid, c, w, l⟩) m.pid
    ∧ IsFixedDigits (fieldText e m ⟨.time_ms, c, w, l⟩) 3 (m.usec / 1000 % 1000)
    ∧ IsFixedDigits (fieldText e m ⟨.time_us, c, w, l⟩) 6 (m.usec % 1000000)
    ∧ fieldText e m ⟨.msgLevel, c, w, l⟩ = (levelNames[m.level]?).getD (bytes "undefined")
    ∧ fieldText e m ⟨.msgClass, c, w, l⟩ = (classNames[m.cls]?).getD (bytes "undefined")
    ∧ ((∀ v, chainFind m.attrs c = some v → fieldText e m ⟨.attribute, c, w, l⟩ = v)
        ∧ (chainFind m.attrs c = none → fieldText e m ⟨.attribute, c, w, l⟩ = e.glob.get c))
    ∧ fieldText e m ⟨.threadId, c, w, l⟩ = bytes "0x" ++ (Nat.toDigits 16 m.tid).map Char.toNat := by
  have ft := C16_field_text e m c w l
  obtain ⟨f1, f2, f3, f4, f5, f6, f7, f8, f9, f10, f11, f12, f13, f14, f15, f16⟩ := ft
  refine ⟨f1, f9, f10, f12, f2, f3, f4, ?_, ?_, ?_, ?_, ?_, ?_, ?_, ?_, f16⟩
  · rw [f7]; exact decInt_signed _
  · rw [f8]; exact decInt_signed _
  · rw [f11]; exact decInt_signed _
  · rw [f14]; exact zeroPad_spec 3 _ (by decide) (Nat.mod_lt _ (by decide))
  · rw [f15]; exact zeroPad_spec 6 _ (by decide) (Nat.mod_lt _ (by decide))
  · rw [f5]; exact levelText_table _
  · rw [f6]; exact classText_table _
  · rw [f13]; exact ⟨fun v h => by simp [attrValue, h], fun h => by simp [attrValue, h]⟩

/-- `IsSignedDecimal` / `IsFixedDigits` are not vacuous and determine what one expects: "-13" is the numeral of
    -13, "012" the three-digit text of 12, and "013" is NOT the numeral of 13 (leading zero) -/
example : IsSignedDecimal (bytes "-13") (-13) ∧ IsFixedDigits (bytes "012") 3 12 ∧ ¬ IsDecimal (bytes "013") 13 := by
  refine ⟨?_, ⟨by decide, by decide, by decide⟩, ?_⟩
  · have := decInt_signed (-13)
    have e : decInt (-13) = bytes "-13" := by decide
    rw [e] at this; exact this
  · intro h
    have := (h.2.2 2 (by decide)).mpr (by decide)
    revert this; decide

example : decInt (-13) = bytes "-13" ∧ decInt 0 = bytes "0" ∧ zeroPad 3 12 = bytes "012" ∧
    digitsValue (bytes "012") = 12 := by decide

/-- Builder and renderer together: the text written for a message under the definition built by a
    stream expression is the concatenation, over the specified fields, of the padded field texts. -/
theorem C16_expression_to_text (sep : Option Text) (ts : List Tok) (e : Env) (m : Msg) :
    (format e m (OStream.plain []) ((Creator.new [] sep).run ts).fields).out =
      ((specFields (initialSep sep) [] ts).map (fun f => padded f.width f.left (fieldText e m f))).flatten := by
  rw [C16_builder, C16_render]; simp [OStream.plain]

/-- The file name a message holds is the part after the last '/' of the path it was created with
    (the path itself when there is no '/'). -/
theorem C16_file_basename (dir base : Text) (h : ∀ b ∈ base, b ≠ 47) :
    baseName (dir ++ 47 :: base) = base ∧ baseName base = base :=
  ⟨baseName_of_split dir base h, baseName_no_slash base h⟩

/-- the maintainers' `test_align_fixedwidth`: "filename.cpp        :  1234" -/
example :
    (format ⟨fun _ _ => [], []⟩ { file := baseName (bytes "/a/b/filename.cpp"), line := 1234 } (OStream.plain [])
      ((Creator.new [] none).run
        [.width 20, .left, .field .fileName, .const (bytes ":"), .width 6, .field .lineNbr]).fields).out =
    bytes "filename.cpp        :  1234" := by decide

/-- all the numeric and enumeration fields of one message -/
example :
    (format ⟨fun f _ => f, []⟩ { level := 1, cls := 6, errNbr := -13, pid := 77, tid := 255, usec := 12345 }
      (OStream.plain []) ((Creator.new [] (some (bytes "|"))).run
        [.field .msgLevel, .field .msgClass, .field .errorNbr, .field .pid, .field .threadId, .field .time_ms,
         .field .time_us, .fmt (bytes "%H"), .field .time]).fields).out =
    bytes "Fatal Error|Operator Action|-13|77|0xff|012|012345|%H" := by decide

/-! ### attributes -/

/-- "Most recently defined": the value found for a name is that of the last entry with this name
    (an empty value counts like any other), and nothing is found exactly when no entry has the name. -/
theorem C16_attr_latest (c : Attrs) (n : Text) :
    (∀ v, c.find n = some v ↔ ∃ pre post, c = pre ++ (n, v) :: post ∧ ∀ p ∈ post, p.1 ≠ n) ∧
    (c.find n = none ↔ ∀ p ∈ c, p.1 ≠ n) ∧
    (∀ v, (c.add n v).find n = some v) ∧
    (∀ n' v, n' ≠ n → (c.add n' v).find n = c.find n) := by
  refine ⟨fun v => Attrs.find_eq_some_iff c n v, Attrs.find_eq_none_iff c n, ?_, ?_⟩
  · intro v
    rw [Attrs.find_eq_some_iff]
    exact ⟨c, [], by simp [Attrs.add], by simp⟩
  · intro n' v hne
    cases h : c.find n with
    | none =>
      rw [Attrs.find_eq_none_iff] at h ⊢
      intro p hp
      simp only [Attrs.add, List.mem_append, List.mem_singleton] at hp
      rcases hp with hp | hp
      · exact h p hp
      · rw [hp]; exact hne
    | some x =>
      rw [Attrs.find_eq_some_iff] at h ⊢
      obtain ⟨pre, post, rfl, hpost⟩ := h
      refine ⟨pre, post ++ [(n', v)], by simp [Attrs.add], ?_⟩
      intro p hp
      simp only [List.mem_append, List.mem_singleton] at hp
      rcases hp with hp | hp
      · exact hpost p hp
      · rw [hp]; exact hne

/-- Precedence.  If the message's own attributes (its `LogAttributes` object, then that object's
    parents) define the name, that value is shown whatever the global attributes are — even when it is
    empty; only otherwise the newest global attribute of that name (or nothing) is shown.  Within the
    message's own chain the inner object wins. -/
theorem C16_attr_precedence (e : Env) (m : Msg) (n : Text) :
    (∀ v, chainFind m.attrs n = some v → attrValue e m n = v) ∧
    (chainFind m.attrs n = none → attrValue e m n = e.glob.get n) ∧
    (∀ (c : Attrs) (outer : List Attrs) v, c.find n = some v → chainFind (c :: outer) n = some v) ∧
    (∀ (c : Attrs) (outer : List Attrs), c.find n = none → chainFind (c :: outer) n = chainFind outer n) := by
  refine ⟨?_, ?_, ?_, ?_⟩
  · intro v h; simp [attrValue, h]
  · intro h; simp [attrValue, h]
  · intro c outer v h; simp [chainFind, h]
  · intro c outer h; simp [chainFind, h]

/-! ### attribute scopes

  `Scopes` = the global container (entries with the ids `addAttribute` handed out) + the ids held by
  the living `ScopedAttribute` objects.  Events of a history (`Ev`): a scope begins (`push`), the newest / the
  i-th open scope ends (`pop`, `drop i`), `addAttribute` (`global`), `removeAttribute( name)` (`remove`), and
  `removeId k` = `Logging::removeAttributeEntry( k)` - public since the repair - called with ANY number `k` by the
  application (with an id `addAttribute` returned, or not) or by the destructor of a COPY of a
  `ScopedAttribute` (copying is allowed; the copy holds the id of the original, the original stays alive).  `Scopes.WF` (ids below `mNextId`, no id twice, live ids handed
  out) holds in the initial state and is kept by every event (`C16_scope_invariant`), so every
  statement below is about every state a program can reach. -/

/-- The invariant the statements below assume holds initially and after every history. -/
theorem C16_scope_invariant :
    ({} : Scopes).WF ∧ ∀ (s s' : Scopes) (es : List Ev), s.WF → s.run es = some s' → s'.WF :=
  ⟨Scopes.WF_init, fun s s' es hs h => Scopes.WF_run es s s' hs h⟩

/-- The end of a scope, in any reachable state and whatever happened since the scope began (other
    scopes, permanent `addAttribute`/`removeAttribute` calls with the same name, scopes ended out of
    order): exactly the entry the scope added is gone — if `removeAttribute` took it away earlier,
    nothing changes — and every other entry is still there, in the same order. -/
theorem C16_scope_end_removes_own_entry (s : Scopes) (hs : s.WF) :
    (∀ k rest, s.live = k :: rest →
      s.step .pop = some { s with ents := s.ents.filter (fun e => e.id ≠ k), live := rest }) ∧
    (∀ i k, s.live[i]? = some k →
      s.step (.drop i) = some { s with ents := s.ents.filter (fun e => e.id ≠ k), live := s.live.eraseIdx i }) ∧
    (∀ k, (∀ e ∈ s.ents, e.id ≠ k) → s.ents.filter (fun e => e.id ≠ k) = s.ents) := by
  refine ⟨?_, ?_, ?_⟩
  · intro k rest hl
    simp only [Scopes.step, hl]
    rw [removeId_eq_filter _ _ hs.nodup]
  · intro i k hl
    simp only [Scopes.step, hl]
    rw [removeId_eq_filter _ _ hs.nodup]
  · intro k h
    rw [List.filter_eq_self]
    intro e he; simpa using h e he

/-- Every point of every history without `removeAttribute( name)` — scopes opened, nested, ended in or out of
    order, copies of scope objects destroyed, `removeAttributeEntry( id)` with any id, permanent additions with
    any name at any moment, from any reachable state.  After every prefix (`es.take k`) the global container
    holds exactly: what was there before and what the prefix added (`addsOf`, scoped and permanent alike, in
    order of addition), without the entries of the scopes that have ended by then and of the ids taken away
    by `removeAttributeEntry` (`endedOf`); the scopes still open are `liveOf`.  Hence every
    attribute lookup at that point sees the newest entry of the name among the permanent attributes
    and the scopes that are open at that point (`C16_attr_latest`), and nothing of a scope that ended.
    (The hypothesis `hr` excludes `removeAttribute( name)` only: which entry it takes depends on the names in
    the container; for such histories there are `C16_scope_end_for_good` and the exact steps
    `C16_remove_by_name`, `C16_scope_end_removes_own_entry`, `C16_remove_by_id`.  Needed: `[push 1 10, remove 1]`
    leaves nothing, the closed form would keep the entry.) -/
theorem C16_scope_every_point (s : Scopes) (hs : s.WF) (es : List Ev) (hr : ∀ e ∈ es, e.isRemove = false)
    (k : Nat) (s' : Scopes) (h : s.run (es.take k) = some s') :
    let visible := (s.ents ++ addsOf s.next (es.take k)).filter
      (fun e => !(endedOf s.next s.live (es.take k)).contains e.id)
    s'.ents = visible ∧ s'.live = liveOf s.next s.live (es.take k) ∧
    ∀ (sf : Text → Int → Text) (m : Msg) (n : Text),
      attrValue ⟨sf, s'.glob⟩ m n = attrValue ⟨sf, viewOf visible⟩ m n := by
  have := Scopes.run_spec (es.take k) s s' hs (fun e he => hr e (List.mem_of_mem_take he)) h
  refine ⟨this.1, this.2, ?_⟩
  intro sf m n
  simp only [Scopes.glob, this.1]

/-- Scoped attributes disappear when their scope ends — every history, `removeAttribute( name)` and
    `removeAttributeEntry( id)` included, after every prefix: no entry of a scope that has ended (or of an id
    taken away by `removeAttributeEntry`) is in the container, and the container holds nothing but (some of)
    what was there before and what the prefix added, in order.  (That a scope end takes away NOTHING ELSE is
    the exact step `C16_scope_end_removes_own_entry`; this theorem gives `Sublist` only.) -/
theorem C16_scope_end_for_good (s : Scopes) (hs : s.WF) (es : List Ev) (k : Nat) (s' : Scopes)
    (h : s.run (es.take k) = some s') :
    (∀ i ∈ endedOf s.next s.live (es.take k), ∀ e ∈ s'.ents, e.id ≠ i) ∧
    s'.ents.Sublist (s.ents ++ addsOf s.next (es.take k)) :=
  Scopes.run_ended (es.take k) s s' hs h

/-- `Logging::removeAttribute( name)` removes the newest entry of that name, whoever added it (a scope
    included: its end then removes nothing, `C16_scope_end_removes_own_entry`), and nothing when there
    is none. -/
theorem C16_remove_by_name (s : Scopes) (n : Text) :
    (∀ pre post x, s.ents = pre ++ x :: post → x.name = n → (∀ e ∈ post, e.name ≠ n) →
      s.step (.remove n) = some { s with ents := pre ++ post }) ∧
    ((∀ e ∈ s.ents, e.name ≠ n) → s.step (.remove n) = some s) := by
  constructor
  · intro pre post x he hx hpost
    simp only [Scopes.step, he]
    rw [← hx, removeName_last pre post x (by rw [hx]; exact hpost)]
  · intro h
    simp only [Scopes.step]
    rw [removeName_absent _ _ h]

/-- `Logging::removeAttributeEntry( k)` — called by the application or by the destructor of a copy of a
    `ScopedAttribute` — in any reachable state: exactly the entry with the id `k` is gone (ids occur once), every
    other entry stays in place, the open scopes are untouched; when no entry has the id (never handed out,
    removed before, the scope's entry already taken by `removeAttribute`) nothing changes.  In particular after
    a copy of a scope object died, the end of the original removes nothing
    (`C16_scope_end_removes_own_entry`, third part). -/
theorem C16_remove_by_id (s : Scopes) (hs : s.WF) (k : Nat) :
    s.step (.removeId k) = some { s with ents := s.ents.filter (fun e => e.id ≠ k) } ∧
    ((∀ e ∈ s.ents, e.id ≠ k) → s.step (.removeId k) = some s) ∧
    (s.next ≤ k → s.step (.removeId k) = some s) := by
  have h1 : s.step (.removeId k) = some { s with ents := s.ents.filter (fun e => e.id ≠ k) } := by
    simp only [Scopes.step]
    rw [removeId_eq_filter _ _ hs.nodup]
  have h2 : (∀ e ∈ s.ents, e.id ≠ k) → s.step (.removeId k) = some s := by
    intro h
    simp only [Scopes.step]
    rw [removeId_absent _ _ h]
  exact ⟨h1, h2, fun hk => h2 (fun e he => by have := hs.lt e he; omega)⟩

/-- Scopes.  For every well-bracketed history (scoped attributes nested to any depth, in sequence,
    interleaved with permanent `addAttribute` calls of any name — also the name of a scope that is open
    at that moment) from any reachable state: every scope ends by removing exactly the entry it added,
    so the global attributes afterwards are the ones before plus the permanent additions, in order. -/
theorem C16_scoped (es : List Ev) (h : Nested es) (s : Scopes) (hs : s.WF) :
    ∃ s', s.run es = some s' ∧ s'.glob = s.glob ++ globalsOf es ∧ s'.live = s.live := by
  obtain ⟨g, n, hrun, _, hv, _⟩ := Scopes.run_nested es h s hs.lt
  exact ⟨_, hrun, by simp [Scopes.glob, viewOf_append, hv], rfl⟩

/-- Scoped attributes disappear when their scope ends: after any nesting of scopes (no permanent
    additions) every attribute lookup, for every message, gives what it gave before. -/
theorem C16_scoped_restore (es : List Ev) (h : Nested es) (hg : globalsOf es = []) (s : Scopes) (hs : s.WF) :
    ∃ s', s.run es = some s' ∧ s'.glob = s.glob ∧ s'.live = s.live ∧
      ∀ (sf : Text → Int → Text) (m : Msg) (n : Text),
        attrValue ⟨sf, s'.glob⟩ m n = attrValue ⟨sf, s.glob⟩ m n := by
  obtain ⟨s', hrun, hglob, hlive⟩ := C16_scoped es h s hs
  rw [hg, List.append_nil] at hglob
  refine ⟨s', hrun, hglob, hlive, ?_⟩
  intro sf m n; rw [hglob]

/-- While a scope is open and nothing was added after it, its value is the one shown (newest global
    entry), unless the message itself defines the attribute. -/
theorem C16_scoped_visible (s : Scopes) (n v : Text) (sf : Text → Int → Text) (m : Msg)
    (hm : chainFind m.attrs n = none) :
    ∃ s', s.step (.push n v) = some s' ∧ s'.glob = s.glob.add n v ∧ attrValue ⟨sf, s'.glob⟩ m n = v := by
  refine ⟨_, rfl, by simp [Scopes.glob, viewOf, Attrs.add], ?_⟩
  have := (C16_attr_latest s.glob n).2.2.1 v
  have hg : Scopes.glob { ents := s.ents ++ [⟨s.next, n, v⟩], next := s.next + 1, live := s.next :: s.live } =
      s.glob.add n v := by simp [Scopes.glob, viewOf, Attrs.add]
  simp [attrValue, hm, Attrs.get, hg, this]

/-- a nesting two deep with permanent additions inside — one with the name of the open scope — from a
    non-empty state -/
example : Nested [.push [1] [10], .global [1] [30], .push [2] [20], .pop, .push [1] [11], .pop, .pop] := by
  have h2 : Nested [.push [2] [20], .pop] := Nested.scope [2] [20] [] Nested.nil
  have h3 : Nested [.push [1] [11], .pop] := Nested.scope [1] [11] [] Nested.nil
  have hin : Nested ([.global [1] [30]] ++ ([.push [2] [20], .pop] ++ [.push [1] [11], .pop])) :=
    Nested.cat _ _ (Nested.global _ _) (Nested.cat _ _ h2 h3)
  exact Nested.scope [1] [10] _ hin

example : (({ ents := [⟨0, [1], [9]⟩], next := 1, live := [] } : Scopes).run
      [.push [1] [10], .global [1] [30], .push [2] [20], .pop, .push [1] [11], .pop, .pop]).map Scopes.glob =
    some [([1], [9]), ([1], [30])] := by decide

/-- the two histories of the audit: a permanent `addAttribute` / `removeAttribute` of the scope's name
    inside the scope.  Before the repair the results were `[([1], [10])]` (the scoped value stayed for
    good, the permanent one was lost) and `[]` (the older permanent attribute was destroyed). -/
example : (({} : Scopes).run [.push [1] [10], .global [1] [30], .pop]).map Scopes.glob =
    some [([1], [30])] := by decide
example : (({ ents := [⟨0, [1], [9]⟩], next := 1, live := [] } : Scopes).run
      [.push [1] [10], .remove [1], .pop]).map Scopes.glob = some [([1], [9])] := by decide

/-- scopes ended out of order: the older scope ends first, the newer one stays visible -/
example : (({} : Scopes).run [.push [1] [10], .push [1] [11], .drop 1]).map Scopes.glob =
    some [([1], [11])] := by decide

/-- `C16_scope_every_point` at the points 0…5 of a history with an out-of-order end: what is visible -/
example :
    let h : List Ev := [.push [1] [10], .global [1] [30], .push [2] [20], .drop 1, .pop]
    (List.range 6).map (fun k =>
      viewOf ((addsOf 0 (h.take k)).filter (fun e => !(endedOf 0 [] (h.take k)).contains e.id))) =
    [[], [([1], [10])], [([1], [10]), ([1], [30])], [([1], [10]), ([1], [30]), ([2], [20])],
     [([1], [30]), ([2], [20])], [([1], [30])]] := by decide

/-- a copy of a scope object dies before the original (`removeId 0` while scope 0 is open): the attribute is
    gone from then on, the scope is still open, its end changes nothing; and `removeAttributeEntry` of a permanent
    entry's id in the middle of a scope.  `C16_scope_every_point` holds at every point of both histories (its
    hypothesis: no `removeAttribute( name)`). -/
example :
    let h1 : List Ev := [.push [1] [10], .removeId 0, .global [1] [30], .pop]
    let h2 : List Ev := [.global [1] [9], .push [1] [10], .removeId 0, .removeId 7, .pop]
    (∀ e ∈ h1 ++ h2, e.isRemove = false)
    ∧ (List.range 5).map (fun k => (({} : Scopes).run (h1.take k)).map (fun s => (s.glob, s.live)))
        = [some ([], []), some ([([1], [10])], [0]), some ([], [0]), some ([([1], [30])], [0]), some ([([1], [30])], [])]
    ∧ (List.range 6).all (fun k =>
        (({} : Scopes).run (h2.take k)).map (fun s => (s.ents, s.live)) ==
          some ((addsOf 0 (h2.take k)).filter (fun e => !(endedOf 0 [] (h2.take k)).contains e.id),
                liveOf 0 [] (h2.take k))) = true
    ∧ (({} : Scopes).run h2).map Scopes.glob = some [] := by decide

/-- message attribute (even empty) over scoped over permanent global -/
example : attrValue ⟨fun _ _ => [], [([1], [9]), ([1], [10])]⟩ { attrs := [[([1], [])], [([1], [7])]] } [1] = [] := by
  decide
example : attrValue ⟨fun _ _ => [], [([1], [9]), ([1], [10])]⟩ { attrs := [[([2], [5])]] } [1] = [10] := by decide

end CelmaVerif.Props.C16
