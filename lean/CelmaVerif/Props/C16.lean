import CelmaVerif.Lemmas.LogFormat
/-
  C16 — every delivered log message is rendered exactly as its format definition says.
  Property theorems only; the model is Model/LogFormat.lean, the specification-side definitions
  (`specFields`, `padded`, `Nested`, `globalsOf`) and helper lemmas are in Lemmas/LogFormat.lean.

  The model is that of the repaired code: /repo commits a30730d (date/time texts of 127 bytes and more)
  and 00bb4c9 (message attribute with an empty value), see known_findings.d/logformat.json.
-/
namespace CelmaVerif.Props.C16
open CelmaVerif CelmaVerif.LogFormat

/-! ### the builder: stream expression → field list -/

/-- the separator a creator starts with (`nullptr` = feature off) -/
def initialSep : Option Text → Text
  | some s => s
  | none => []

/-- Builder.  For every definition content `prior`, constructor separator `sep` and stream expression
    `ts` (any sequence of widths, `left`, format strings, separator changes, fields of all sixteen
    kinds, constant texts, attribute fields): the definition afterwards is the old content followed by
    `specFields`, i.e. for each field-adding token, in order: the separator in force at that position
    (last `separator(..)` before it, else the constructor's) as a plain constant field if it is
    non-empty and a field precedes, then the field itself carrying the last width / the `left` flag /
    the last format string given *since the previous field-adding token*, and nothing else. -/
theorem C16_builder (prior : List Field) (sep : Option Text) (ts : List Tok) :
    ((Creator.new prior sep).run ts).fields = prior ++ specFields (initialSep sep) prior ts := by
  have h := builderInv_take (initialSep sep) prior ts sep (by cases sep <;> rfl) ts.length (Nat.le_refl _)
  have hf := h.fields
  rw [List.take_length] at hf
  exact hf

/-- After a whole stream expression the creator's pending options are exactly those given after the
    last field-adding token, and its separator is the last one selected. -/
theorem C16_builder_state (prior : List Field) (sep : Option Text) (ts : List Tok) :
    let c := (Creator.new prior sep).run ts
    c.width = optWidth (pendingTokens ts) ∧ c.left = optLeft (pendingTokens ts) ∧
    c.fmt = optFmt (pendingTokens ts) ∧ c.autoSep = sepAfter (initialSep sep) ts := by
  have h := builderInv_take (initialSep sep) prior ts sep (by cases sep <;> rfl) ts.length (Nat.le_refl _)
  have hw := h.width; have hl := h.left; have hf := h.fmt; have hs := h.sep
  rw [List.take_length] at hw hl hf hs
  exact ⟨hw, hl, hf, hs⟩

/-- Options apply to the next field only: the field created by `b` depends on nothing before the
    previous field-adding token `a` — whatever width, alignment or format string was given for
    earlier fields (`pre`) has been consumed. -/
theorem C16_builder_options_next_field_only (pre opts : List Tok) (a b : Tok) (ha : a.isAdder = true)
    (hopts : ∀ t ∈ opts, t.isAdder = false) :
    fieldOf (pre ++ a :: opts) b = fieldOf opts b := by
  have h1 : pendingTokens (pre ++ a :: opts) = opts := by
    unfold pendingTokens
    have : (pre ++ a :: opts).reverse = opts.reverse ++ a :: pre.reverse := by simp
    rw [this, List.takeWhile_append_of_pos]
    · simp [ha]
    · intro t ht; simp [hopts t (by simpa using ht)]
  have h2 : pendingTokens opts = opts := by
    unfold pendingTokens
    have : opts.reverse = opts.reverse ++ [] := by simp
    rw [this, List.takeWhile_append_of_pos]
    · simp
    · intro t ht; simp [hopts t (by simpa using ht)]
  cases b <;> simp [fieldOf, h1, h2]

/-- A field without any option token before it has no width, is right-aligned and has no format
    string (nothing is sticky). -/
theorem C16_builder_no_options (pre : List Tok) (a : Tok) (ha : a.isAdder = true) (t : FieldType) :
    fieldOf (pre ++ [a]) (.field t) = some ⟨t, [], 0, false⟩ := by
  have := C16_builder_options_next_field_only pre [] a (.field t) ha (by simp)
  rw [this]; rfl

/-- the maintainers' `test_align_fixedwidth` expression, and an automatic separator that changes -/
example : ((Creator.new [] none).run
      [.width 20, .left, .field .fileName, .const (bytes ":"), .width 6, .field .lineNbr]).fields =
    [⟨.fileName, [], 20, true⟩, ⟨.constant, bytes ":", 0, false⟩, ⟨.lineNbr, [], 6, false⟩] := by decide

example : ((Creator.new [] (some (bytes "|"))).run
      [.const (bytes "one"), .const (bytes "two"), .sep (some (bytes ":")), .fmt (bytes "%d"), .field .date]).fields =
    [⟨.constant, bytes "one", 0, false⟩, ⟨.constant, bytes "|", 0, false⟩, ⟨.constant, bytes "two", 0, false⟩,
     ⟨.constant, bytes ":", 0, false⟩, ⟨.date, bytes "%d", 0, false⟩] := by decide

/-! ### rendering -/

/-- Rendering.  For every definition, message, attribute environment and `strftime`: written to a
    stream in its default state, the output is what was there before followed by the rendered fields
    in definition order, each padded to its width and aligned as the field says — nothing in between,
    nothing after — and the stream is back in its default state (a left-aligned field does not leak
    into the next one). -/
theorem C16_render (e : Env) (m : Msg) (fields : List Field) (o : Text) :
    format e m (OStream.plain o) fields =
      OStream.plain (o ++ (fields.map (fun f => padded f.width f.left (fieldText e m f))).flatten) :=
  format_plain e m fields o

/-- Padding.  The rendered field is never shorter than the text and never cut: its length is
    max(width, length of the text); the text is its beginning (left-aligned) or its end
    (right-aligned) and the rest is blanks; with no width (or one not exceeding the text) it is the
    text itself. -/
theorem C16_pad (w : Int) (left : Bool) (s : Text) :
    (padded w left s).length = max w.toNat s.length ∧
    (left = true → padded w left s = s ++ List.replicate (w.toNat - s.length) 32) ∧
    (left = false → padded w left s = List.replicate (w.toNat - s.length) 32 ++ s) ∧
    (w ≤ (s.length : Int) → padded w left s = s) := by
  refine ⟨padded_length w left s, ?_, ?_, ?_⟩
  · intro h; simp [padded, h]
  · intro h; simp [padded, h]
  · intro h
    have : w.toNat - s.length = 0 := by omega
    cases left <;> simp [padded, this]

/-- What each kind of field shows: constant text verbatim; date, time and date-time through
    `strftime` with the field's own format string if it has one, else `%F`, `%T`, `%F %T`; level and
    class as their names; error number, line number and process id in decimal; file, function and
    text as the message holds them; an attribute field the value of the attribute it names. -/
theorem C16_field_text (e : Env) (m : Msg) (c : Text) (w : Int) (l : Bool) :
    fieldText e m ⟨.constant, c, w, l⟩ = c ∧
    fieldText e m ⟨.date, c, w, l⟩ = e.strftime (if c = [] then bytes "%F" else c) m.time ∧
    fieldText e m ⟨.time, c, w, l⟩ = e.strftime (if c = [] then bytes "%T" else c) m.time ∧
    fieldText e m ⟨.dateTime, c, w, l⟩ = e.strftime (if c = [] then bytes "%F %T" else c) m.time ∧
    fieldText e m ⟨.msgLevel, c, w, l⟩ = levelText m.level ∧
    fieldText e m ⟨.msgClass, c, w, l⟩ = classText m.cls ∧
    fieldText e m ⟨.errorNbr, c, w, l⟩ = decInt m.errNbr ∧
    fieldText e m ⟨.lineNbr, c, w, l⟩ = decInt m.line ∧
    fieldText e m ⟨.fileName, c, w, l⟩ = m.file ∧
    fieldText e m ⟨.functionName, c, w, l⟩ = m.func ∧
    fieldText e m ⟨.pid, c, w, l⟩ = decInt m.pid ∧
    fieldText e m ⟨.text, c, w, l⟩ = m.text ∧
    fieldText e m ⟨.attribute, c, w, l⟩ = attrValue e m c :=
  ⟨rfl, rfl, rfl, rfl, rfl, rfl, rfl, rfl, rfl, rfl, rfl, rfl, rfl⟩

/-- Builder and renderer together: the text written for a message under the definition built by a
    stream expression is the concatenation, over the specified fields, of the padded field texts. -/
theorem C16_expression_to_text (sep : Option Text) (ts : List Tok) (e : Env) (m : Msg) :
    (format e m (OStream.plain []) ((Creator.new [] sep).run ts).fields).out =
      ((specFields (initialSep sep) [] ts).map (fun f => padded f.width f.left (fieldText e m f))).flatten := by
  rw [C16_builder, C16_render]; simp [OStream.plain]

/-- The file name a message holds is the part after the last '/' of the path it was created with
    (the path itself when there is no '/'). -/
theorem C16_file_basename (dir base : Text) (h : ∀ b ∈ base, b ≠ 47) :
    baseName (dir ++ 47 :: base) = base ∧ baseName base = base :=
  ⟨baseName_of_split dir base h, baseName_no_slash base h⟩

/-- the maintainers' `test_align_fixedwidth`: "filename.cpp        :  1234" -/
example :
    (format ⟨fun _ _ => [], []⟩ { file := baseName (bytes "/a/b/filename.cpp"), line := 1234 } (OStream.plain [])
      ((Creator.new [] none).run
        [.width 20, .left, .field .fileName, .const (bytes ":"), .width 6, .field .lineNbr]).fields).out =
    bytes "filename.cpp        :  1234" := by decide

/-- all the numeric and enumeration fields of one message -/
example :
    (format ⟨fun f _ => f, []⟩ { level := 1, cls := 6, errNbr := -13, pid := 77, tid := 255, usec := 12345 }
      (OStream.plain []) ((Creator.new [] (some (bytes "|"))).run
        [.field .msgLevel, .field .msgClass, .field .errorNbr, .field .pid, .field .threadId, .field .time_ms,
         .field .time_us, .fmt (bytes "%H"), .field .time]).fields).out =
    bytes "Fatal Error|Operator Action|-13|77|0xff|012|012345|%H" := by decide

/-! ### attributes -/

/-- "Most recently defined": the value found for a name is that of the last entry with this name
    (an empty value counts like any other), and nothing is found exactly when no entry has the name. -/
theorem C16_attr_latest (c : Attrs) (n : Text) :
    (∀ v, c.find n = some v ↔ ∃ pre post, c = pre ++ (n, v) :: post ∧ ∀ p ∈ post, p.1 ≠ n) ∧
    (c.find n = none ↔ ∀ p ∈ c, p.1 ≠ n) ∧
    (∀ v, (c.add n v).find n = some v) ∧
    (∀ n' v, n' ≠ n → (c.add n' v).find n = c.find n) := by
  refine ⟨fun v => Attrs.find_eq_some_iff c n v, Attrs.find_eq_none_iff c n, ?_, ?_⟩
  · intro v
    rw [Attrs.find_eq_some_iff]
    exact ⟨c, [], by simp [Attrs.add], by simp⟩
  · intro n' v hne
    cases h : c.find n with
    | none =>
      rw [Attrs.find_eq_none_iff] at h ⊢
      intro p hp
      simp only [Attrs.add, List.mem_append, List.mem_singleton] at hp
      rcases hp with hp | hp
      · exact h p hp
      · rw [hp]; exact hne
    | some x =>
      rw [Attrs.find_eq_some_iff] at h ⊢
      obtain ⟨pre, post, rfl, hpost⟩ := h
      refine ⟨pre, post ++ [(n', v)], by simp [Attrs.add], ?_⟩
      intro p hp
      simp only [List.mem_append, List.mem_singleton] at hp
      rcases hp with hp | hp
      · exact hpost p hp
      · rw [hp]; exact hne

/-- Precedence.  If the message's own attributes (its `LogAttributes` object, then that object's
    parents) define the name, that value is shown whatever the global attributes are — even when it is
    empty; only otherwise the newest global attribute of that name (or nothing) is shown.  Within the
    message's own chain the inner object wins. -/
theorem C16_attr_precedence (e : Env) (m : Msg) (n : Text) :
    (∀ v, chainFind m.attrs n = some v → attrValue e m n = v) ∧
    (chainFind m.attrs n = none → attrValue e m n = e.glob.get n) ∧
    (∀ (c : Attrs) (outer : List Attrs) v, c.find n = some v → chainFind (c :: outer) n = some v) ∧
    (∀ (c : Attrs) (outer : List Attrs), c.find n = none → chainFind (c :: outer) n = chainFind outer n) := by
  refine ⟨?_, ?_, ?_, ?_⟩
  · intro v h; simp [attrValue, h]
  · intro h; simp [attrValue, h]
  · intro c outer v h; simp [chainFind, h]
  · intro c outer h; simp [chainFind, h]

/-- Scopes.  For every well-bracketed history (scoped attributes nested to any depth, in sequence,
    interleaved with permanent `addAttribute` calls whose name is not that of a scope open at that
    moment) from any state: every scope ends by removing exactly the entry it added, so the global
    attributes afterwards are the ones before plus the permanent additions, in order. -/
theorem C16_scoped (es : List Ev) (h : Nested es) (s : Scopes) :
    s.run es = some { glob := s.glob ++ globalsOf es, live := s.live } :=
  Scopes.run_nested es h s

/-- Scoped attributes disappear when their scope ends: after any nesting of scopes (no permanent
    additions) every attribute lookup, for every message, gives what it gave before. -/
theorem C16_scoped_restore (es : List Ev) (h : Nested es) (hg : globalsOf es = []) (s : Scopes) :
    ∃ s', s.run es = some s' ∧ s'.glob = s.glob ∧ s'.live = s.live ∧
      ∀ (sf : Text → Int → Text) (m : Msg) (n : Text),
        attrValue ⟨sf, s'.glob⟩ m n = attrValue ⟨sf, s.glob⟩ m n := by
  refine ⟨_, C16_scoped es h s, by simp [hg], rfl, ?_⟩
  intro sf m n; simp [hg]

/-- While a scope is open its value is the one shown (newest global entry), unless the message
    itself defines the attribute. -/
theorem C16_scoped_visible (g : Attrs) (n v : Text) (sf : Text → Int → Text) (m : Msg)
    (hm : chainFind m.attrs n = none) :
    attrValue ⟨sf, g.add n v⟩ m n = v := by
  have := (C16_attr_latest g n).2.2.1 v
  simp [attrValue, hm, Attrs.get, this]

/-- a nesting two deep with a permanent addition inside, from a non-empty state -/
example : Nested [.push [1] [10], .global [3] [30], .push [2] [20], .pop, .push [1] [11], .pop, .pop] := by
  have h2 : Nested [.push [2] [20], .pop] := Nested.scope [2] [20] [] Nested.nil (by simp [globalsOf])
  have h3 : Nested [.push [1] [11], .pop] := Nested.scope [1] [11] [] Nested.nil (by simp [globalsOf])
  have hin : Nested ([.global [3] [30]] ++ ([.push [2] [20], .pop] ++ [.push [1] [11], .pop])) :=
    Nested.cat _ _ (Nested.global _ _) (Nested.cat _ _ h2 h3)
  exact Nested.scope [1] [10] _ hin (by decide)

example : ({ glob := [([1], [9])], live := [] } : Scopes).run
      [.push [1] [10], .global [3] [30], .push [2] [20], .pop, .push [1] [11], .pop, .pop] =
    some { glob := [([1], [9]), ([3], [30])], live := [] } := by decide

/-- message attribute (even empty) over scoped over permanent global -/
example : attrValue ⟨fun _ _ => [], [([1], [9]), ([1], [10])]⟩ { attrs := [[([1], [])], [([1], [7])]] } [1] = [] := by
  decide
example : attrValue ⟨fun _ _ => [], [([1], [9]), ([1], [10])]⟩ { attrs := [[([2], [5])]] } [1] = [10] := by decide

end CelmaVerif.Props.C16
