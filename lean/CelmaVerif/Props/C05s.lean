import CelmaVerif.Lemmas.KeysSub
import CelmaVerif.Lemmas.SubGroupsExamples
import CelmaVerif.Lemmas.SubGroupsLookup
import CelmaVerif.Lemmas.SubGroupsHistory
/-
  C05 for a handler with SUB-GROUP ARGUMENTS: the handler keeps its arguments in two containers
  (`mArguments`, `mSubGroupArgs`); the property speaks about the keys of the handler as one set.
  Model: `Model/KeysSub.lean` (`findSub` = head of `Handler::processArg`, `addArgumentChecked` =
  `ArgumentContainer::addArgument( obj, key, also_check)`), `Model/ProgArgs/SubGroups.lean` (`processArgT`).

  Chain: `C05_processArg_one_key_space` ties the EVALUATION function `processArgT` (what the driver runs for
  every key element) to `lookupSpec` on `unionTable`; `C05_subgroup_one_key_space` /
  `C05_subgroup_spec_is_findArg` say that this is the single-container `findArg` on the table of all keys;
  `C05_subgroup_built_disjoint` gives `Disjoint (unionTable …)` for every handler built through the API, so
  that `C05_exact_wins`, `C05_prefix`, `C05_order_independent` (Props/C05.lean, stated for one `Disjoint`
  table) apply — instantiated in `C05_subgroup_built_exact_wins`.  `C05_subgroup_cmdline`: the key-word
  lookup `cmdLookupT` is `cmdLookup` on the joined table.
-/
namespace CelmaVerif.Props.C05s
open CelmaVerif CelmaVerif.Keys CelmaVerif.ProgArgs

/-- **One handler, one key space.**  Looking a command-line key up in the two containers the way
    `Handler::processArg` does (`lookupBoth`: which sub-group argument `inl` or plain argument `inr`
    is selected) is looking it up in the single table of ALL keys of the handler (`lookupSpec` on
    `unionTable`): the first entry that equals the key; otherwise, with abbreviations enabled, the
    only entry whose long key starts with it — `std::runtime_error` when two entries do, no matter
    in which containers they are stored — and unknown when none does; with abbreviations disabled
    exact entries only.  For every pair of tables, every key, abbreviations on and off.  Together
    with `C05_exact_wins`, `C05_prefix`, `C05_order_independent` (stated for one table) this is the
    command-line half of C05 for handlers with sub-group arguments.
    (Pinned code: `mSubGroupArgs.findArg( key)` alone, abbreviations included, before the plain
    arguments: `C05_head_subgroup_shadows`; `fix:` 7375dcf.) -/
theorem C05_subgroup_one_key_space {α β : Type} (abbr : Bool) (subT : List (Key × α)) (plainT : List (Key × β))
    (k : Key) : lookupBoth abbr subT plainT k = lookupSpec abbr (unionTable subT plainT) k :=
  lookupBoth_eq_union abbr subT plainT k

/-- what `lookupSpec` is: the payload of the single-container lookup `findArg` (C05's other
    theorems are about `findArg`) -/
theorem C05_subgroup_spec_is_findArg {γ : Type} (abbr : Bool) (t : List (Key × γ)) (k : Key) :
    payload (findArg abbr t k) = lookupSpec abbr t k :=
  findArg_spec abbr t k

/-- **Abbreviations off: no proper prefix selects a sub-group argument.**  With `hfNoAbbr` the
    sub-group container answers exactly like its first loop: a sub-group argument is selected only
    by an entry that `==` the key. -/
theorem C05_subgroup_noabbr_exact_only {α β : Type} (subT : List (Key × α)) (plainT : List (Key × β)) (k : Key)
    (j : Nat) (a : α) (h : findSub false subT plainT k = .ok (some (j, a))) :
    ∃ key, subT[j]? = some (key, a) ∧ key.eq k = true := by
  rw [findSub_noabbr] at h
  obtain ⟨key, _, h2, h3⟩ := findExact_some k subT 0 j a (by simpa using h)
  exact ⟨key, by simpa using h2, h3⟩

/-- **An exact plain key is never shadowed by a sub-group key**: a key that equals the key of a
    plain argument and of no sub-group argument is not taken by the sub-group container, whatever
    long keys of sub-group arguments start with it, abbreviations on or off; it goes on to
    `mArguments.findArg`, whose exact loop returns that plain argument. -/
theorem C05_subgroup_exact_plain_not_shadowed {α β : Type} (abbr : Bool) (subT : List (Key × α))
    (plainT : List (Key × β)) (k : Key) (r : Nat × β)
    (hs : findExact k subT 0 = none) (hp : findExact k plainT 0 = some r) :
    findSub abbr subT plainT k = .ok none ∧ findArg abbr plainT k = .ok (some r) :=
  ⟨findSub_exact_plain abbr subT plainT k r hs hp, by unfold findArg; rw [hp]⟩

/-- an exact key of a sub-group argument selects it, whatever the plain table holds -/
theorem C05_subgroup_exact_sub {α β : Type} (abbr : Bool) (subT : List (Key × α)) (plainT : List (Key × β))
    (k : Key) (r : Nat × α) (h : findExact k subT 0 = some r) : findSub abbr subT plainT k = .ok (some r) :=
  findSub_exact_sub abbr subT plainT k r h

/-- **Definition: a key of the other container is refused** (`fix:` 2dd61bc): adding an argument
    to one container is refused with `std::invalid_argument` iff an entry of the OTHER container or
    of the own container clashes with the key (same short key, same long key, or contradicting pair) -/
theorem C05_subgroup_definition_refused {α β : Type} (own : List (Key × α)) (other : List (Key × β)) (k : Key) (a : α) :
    addArgumentChecked own other k a = .throw .invalid_argument ↔
      (∃ e ∈ other, e.1.Clash k) ∨ (∃ e ∈ own, e.1.Clash k) := by
  unfold addArgumentChecked checkKeyUnused
  by_cases ho : (other.any fun e => e.1.eq k || e.1.mismatch k) = true
  · simp only [ho, if_true, Res.bind_throw, true_iff]
    left
    obtain ⟨e, he, hc⟩ := List.any_eq_true.mp ho
    exact ⟨e, he, (eq_or_mismatch_iff e.1 k).mp hc⟩
  · simp only [ho, Bool.false_eq_true, if_false, Res.pure_eq, Res.bind_ok]
    rw [addArgument_throw_iff]
    constructor
    · intro h; exact Or.inr h
    · rintro (⟨e, he, hc⟩ | h)
      · exact absurd (List.any_eq_true.mpr ⟨e, he, (eq_or_mismatch_iff e.1 k).mpr hc⟩) ho
      · exact h

/-! ### the evaluation function, definition histories, key words -/

/-- **`Handler::processArg` takes the branch that the one-table lookup over all keys of the handler selects.**
    For every handler tree, state, lookup key and cursor — `lookupSpec` on `unionTable` (the first entry of
    either container that equals the key; else, abbreviations allowed, the unique entry whose long key starts
    with it; two such entries ⇒ `std::runtime_error`) answers
    * a sub-group argument `d` ⇒ `processArgT` runs the sub-group branch (`subGroupBranch`: identification,
      the copy of the cursor, the sub handler's loop) for an index `j` with `cfg.subs[j] = d`;
    * a plain argument `a` ⇒ the plain branch (`plainBranch`: value by value mode, `handleIdentifiedArg`) for
      an index `i` with `cfg.main.args[i] = a`;
    * nothing ⇒ the answer `unknown`, nothing changed but `mpLastArg`;
    * an exception ⇒ that exception.
    A `processArgT` that used the pinned head (`findSubHead`: sub-group container first, abbreviations
    included) or passed its two tables in the wrong order violates this (`out` / `output`, see the example). -/
theorem C05_processArg_one_key_space (cfg : TCfg) (t : TState) (key : Key) (ai : It) :
    match lookupSpec cfg.main.abbr (unionTable cfg.subTable cfg.main.table) key with
    | .ok (some (.inl d)) => ∃ j, cfg.subs[j]? = some d ∧ processArgT cfg t key ai = subGroupBranch cfg t j d ai
    | .ok (some (.inr a)) => ∃ i, cfg.main.args[i]? = some a ∧ processArgT cfg t key ai = plainBranch cfg t i a ai
    | .ok none => processArgT cfg t key ai = .ok ({ t with main := { t.main with lastArg := none } }, ai, .unknown)
    | .throw e => processArgT cfg t key ai = .throw e
    | .oob w => processArgT cfg t key ai = .oob w :=
  processArgT_lookup cfg t key ai

/-- **Every handler built through the API has ONE table without clashing keys.**  After any sequence of
    `addArgument( spec, dest, desc)` (`false`) and `addArgument( spec, Handler& sub, desc)` (`true`) calls on
    one handler that were all accepted (`groupDefineSeqT` on a single member: `addArgumentChecked` on the
    respective container, the other container asked first), the table of all keys of the handler — sub-group
    entries and plain entries — is `Disjoint`.  This is the hypothesis of `C05_exact_wins`, `C05_prefix`
    (none needed) and `C05_order_independent`. -/
theorem C05_subgroup_built_disjoint (defs : List (Nat × Bool × List Char))
    (h : groupDefineSeqT [([], [])] defs 0 = none) :
    ∃ plainT subT, groupDefineTablesT [([], [])] defs = some [(plainT, subT)] ∧
      Disjoint (unionTable subT plainT) :=
  handler_history_union_disjoint defs h

/-- **… so in every such handler an exact key wins, in whichever container its entry is stored**: the lookup of
    `processArg` over both containers returns the entry (sub-group argument `inl`, plain argument `inr`) that
    carries the looked-up character / word, whatever else is defined in either container, abbreviations on or
    off (`C05_exact_wins` on the union table, through `C05_subgroup_one_key_space`). -/
theorem C05_subgroup_built_exact_wins (defs : List (Nat × Bool × List Char))
    (h : groupDefineSeqT [([], [])] defs 0 = none) :
    ∃ plainT subT, groupDefineTablesT [([], [])] defs = some [(plainT, subT)] ∧
      ∀ (abbr : Bool) (e : Key × (Unit ⊕ Unit)), e ∈ unionTable subT plainT → ∀ k : Key, k.Single → e.1.Clash k →
        lookupBoth abbr subT plainT k = .ok (some e.2) := by
  obtain ⟨plainT, subT, ht, hd⟩ := handler_history_union_disjoint defs h
  refine ⟨plainT, subT, ht, ?_⟩
  intro abbr e he k hk hc
  rw [lookupBoth_eq_union, ← findArg_spec]
  exact findArg_exact abbr _ hd e he k hk hc

/-- **Key words.**  The entry a key word (`-c`, `--name`) selects in a handler with both containers
    (`cmdLookupT`: `classifyWord`, `cmdKey`, `findSub`, then `mArguments.findArg`) is the entry the
    single-container command-line lookup `cmdLookup` selects in the joined table "sub-group arguments, then
    plain arguments": `C05_cmdline_exact`, `C05_cmdline_single` apply to it (with `Disjoint` of the joined
    table from `C05_subgroup_built_disjoint`). -/
theorem C05_subgroup_cmdline {α : Type} (abbr : Bool) (plainT subT : List (Key × α)) (w : List Char) :
    payload (cmdLookupT abbr plainT subT w) = payload (cmdLookup abbr (subT ++ plainT) w) :=
  cmdLookupT_eq abbr plainT subT w

-- `processArgT` on `sgCfg` (plain `--out`, sub-group `-s,--output`, abbreviations on) with the key `out`: the
-- plain branch, through the theorem (the pinned head took the sub-group argument: `C05_head_subgroup_shadows`)
example (t : TState) (ai : It) :
    ∃ i a, (sgCfg true).main.args[i]? = some a ∧ a.key = ⟨none, "out".toList⟩ ∧
      processArgT (sgCfg true) t ⟨none, "out".toList⟩ ai = plainBranch (sgCfg true) t i a ai := by
  have h := C05_processArg_one_key_space (sgCfg true) t ⟨none, "out".toList⟩ ai
  have hl : lookupSpec (sgCfg true).main.abbr (unionTable (sgCfg true).subTable (sgCfg true).main.table)
      ⟨none, "out".toList⟩ = .ok (some (.inr { key := ⟨none, "out".toList⟩, kind := .str, vmode := .required, card := .max 1 })) := by
    rfl
  rw [hl] at h
  obtain ⟨i, hi, hp⟩ := h
  exact ⟨i, _, hi, rfl, hp⟩
-- `--outp`: the sub-group branch
example (t : TState) (ai : It) :
    ∃ j, (sgCfg true).subs[j]? = some sgDef ∧
      processArgT (sgCfg true) t ⟨none, "outp".toList⟩ ai = subGroupBranch (sgCfg true) t j sgDef ai := by
  have h := C05_processArg_one_key_space (sgCfg true) t ⟨none, "outp".toList⟩ ai
  have hl : lookupSpec (sgCfg true).main.abbr (unionTable (sgCfg true).subTable (sgCfg true).main.table)
      ⟨none, "outp".toList⟩ = .ok (some (.inl sgDef)) := by rfl
  rw [hl] at h
  exact h
-- a built handler: sub-group `o,output`, plain `out` — accepted, and `out` / `o` / `output` select their entries
example : groupDefineSeqT [([], [])]
    [(0, true, ['o', ',', 'o', 'u', 't', 'p', 'u', 't']), (0, false, ['o', 'u', 't'])] 0 = none := by decide

/-! ### the pinned lookup (witness) and non-vacuity -/

/-- the pinned head of `processArg` (`mSubGroupArgs.findArg( key)` first, abbreviations included)
    DID shadow: plain argument `out`, sub-group argument `output`, abbreviations on, key `out` — the
    sub-group container answered with the sub-group argument, the repaired lookup with the plain one -/
theorem C05_head_subgroup_shadows :
    findSubHead true [((⟨none, "output".toList⟩ : Key), 1)] ⟨none, "out".toList⟩ = .ok (some (0, 1)) ∧
    lookupBoth true [((⟨none, "output".toList⟩ : Key), 1)] [((⟨none, "out".toList⟩ : Key), 0)] ⟨none, "out".toList⟩
      = .ok (some (.inr 0)) := ⟨by rfl, by rfl⟩

-- `--ou` with plain `out` and sub-group `output`: ambiguous over both containers; `--outp`: the sub-group
example : lookupBoth true [((⟨none, "output".toList⟩ : Key), 1)] [((⟨none, "out".toList⟩ : Key), 0)] ⟨none, "ou".toList⟩
    = .throw .runtime_error := by rfl
example : lookupBoth true [((⟨none, "output".toList⟩ : Key), 1)] [((⟨none, "out".toList⟩ : Key), 0)] ⟨none, "outp".toList⟩
    = .ok (some (.inl 1)) := by rfl
example : lookupBoth false [((⟨none, "output".toList⟩ : Key), 1)] [((⟨none, "out".toList⟩ : Key), 0)] ⟨none, "outp".toList⟩
    = .ok none := by rfl
-- definition: sub-group key `o,out` against the plain key `out`
example : addArgumentChecked ([] : List (Key × Nat)) [((⟨none, "out".toList⟩ : Key), 0)] ⟨some 'o', "out".toList⟩ 1
    = .throw .invalid_argument := by rfl

end CelmaVerif.Props.C05s
