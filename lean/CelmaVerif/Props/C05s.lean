import CelmaVerif.Lemmas.KeysSub
import CelmaVerif.Lemmas.SubGroupsExamples
/-
  C05 for a handler with SUB-GROUP ARGUMENTS: the handler keeps its arguments in two containers
  (`mArguments`, `mSubGroupArgs`); the property speaks about the keys of the handler as one set.
  Model: `Model/KeysSub.lean` (`findSub` = head of `Handler::processArg`, `addArgumentChecked` =
  `ArgumentContainer::addArgument( obj, key, also_check)`).
-/
namespace CelmaVerif.Props.C05s
open CelmaVerif CelmaVerif.Keys

/-- **One handler, one key space.**  Looking a command-line key up in the two containers the way
    `Handler::processArg` does (`lookupBoth`: which sub-group argument `inl` or plain argument `inr`
    is selected) is looking it up in the single table of ALL keys of the handler (`lookupSpec` on
    `unionTable`): the first entry that equals the key; otherwise, with abbreviations enabled, the
    only entry whose long key starts with it — `std::runtime_error` when two entries do, no matter
    in which containers they are stored — and unknown when none does; with abbreviations disabled
    exact entries only.  For every pair of tables, every key, abbreviations on and off.  Together
    with `C05_exact_wins`, `C05_prefix`, `C05_order_independent` (stated for one table) this is the
    command-line half of C05 for handlers with sub-group arguments.
    (Pinned code: `mSubGroupArgs.findArg( key)` alone, abbreviations included, before the plain
    arguments: `C05_head_subgroup_shadows`; `fix:` 7375dcf.) -/
theorem C05_subgroup_one_key_space {α β : Type} (abbr : Bool) (subT : List (Key × α)) (plainT : List (Key × β))
    (k : Key) : lookupBoth abbr subT plainT k = lookupSpec abbr (unionTable subT plainT) k :=
  lookupBoth_eq_union abbr subT plainT k

/-- what `lookupSpec` is: the payload of the single-container lookup `findArg` (C05's other
    theorems are about `findArg`) -/
theorem C05_subgroup_spec_is_findArg {γ : Type} (abbr : Bool) (t : List (Key × γ)) (k : Key) :
    payload (findArg abbr t k) = lookupSpec abbr t k :=
  findArg_spec abbr t k

/-- **Abbreviations off: no proper prefix selects a sub-group argument.**  With `hfNoAbbr` the
    sub-group container answers exactly like its first loop: a sub-group argument is selected only
    by an entry that `==` the key. -/
theorem C05_subgroup_noabbr_exact_only {α β : Type} (subT : List (Key × α)) (plainT : List (Key × β)) (k : Key)
    (j : Nat) (a : α) (h : findSub false subT plainT k = .ok (some (j, a))) :
    ∃ key, subT[j]? = some (key, a) ∧ key.eq k = true := by
  rw [findSub_noabbr] at h
  obtain ⟨key, _, h2, h3⟩ := findExact_some k subT 0 j a (by simpa using h)
  exact ⟨key, by simpa using h2, h3⟩

/-- **An exact plain key is never shadowed by a sub-group key**: a key that equals the key of a
    plain argument and of no sub-group argument is not taken by the sub-group container, whatever
    long keys of sub-group arguments start with it, abbreviations on or off; it goes on to
    `mArguments.findArg`, whose exact loop returns that plain argument. -/
theorem C05_subgroup_exact_plain_not_shadowed {α β : Type} (abbr : Bool) (subT : List (Key × α))
    (plainT : List (Key × β)) (k : Key) (r : Nat × β)
    (hs : findExact k subT 0 = none) (hp : findExact k plainT 0 = some r) :
    findSub abbr subT plainT k = .ok none ∧ findArg abbr plainT k = .ok (some r) :=
  ⟨findSub_exact_plain abbr subT plainT k r hs hp, by unfold findArg; rw [hp]⟩

/-- an exact key of a sub-group argument selects it, whatever the plain table holds -/
theorem C05_subgroup_exact_sub {α β : Type} (abbr : Bool) (subT : List (Key × α)) (plainT : List (Key × β))
    (k : Key) (r : Nat × α) (h : findExact k subT 0 = some r) : findSub abbr subT plainT k = .ok (some r) :=
  findSub_exact_sub abbr subT plainT k r h

/-- **Definition: a key of the other container is refused** (`fix:` 2dd61bc): adding an argument
    to one container is refused with `std::invalid_argument` iff an entry of the OTHER container or
    of the own container clashes with the key (same short key, same long key, or contradicting pair) -/
theorem C05_subgroup_definition_refused {α β : Type} (own : List (Key × α)) (other : List (Key × β)) (k : Key) (a : α) :
    addArgumentChecked own other k a = .throw .invalid_argument ↔
      (∃ e ∈ other, e.1.Clash k) ∨ (∃ e ∈ own, e.1.Clash k) := by
  unfold addArgumentChecked checkKeyUnused
  by_cases ho : (other.any fun e => e.1.eq k || e.1.mismatch k) = true
  · simp only [ho, if_true, Res.bind_throw, true_iff]
    left
    obtain ⟨e, he, hc⟩ := List.any_eq_true.mp ho
    exact ⟨e, he, (eq_or_mismatch_iff e.1 k).mp hc⟩
  · simp only [ho, Bool.false_eq_true, if_false, Res.pure_eq, Res.bind_ok]
    rw [addArgument_throw_iff]
    constructor
    · intro h; exact Or.inr h
    · rintro (⟨e, he, hc⟩ | h)
      · exact absurd (List.any_eq_true.mpr ⟨e, he, (eq_or_mismatch_iff e.1 k).mpr hc⟩) ho
      · exact h

/-! ### the pinned lookup (witness) and non-vacuity -/

/-- the pinned head of `processArg` (`mSubGroupArgs.findArg( key)` first, abbreviations included)
    DID shadow: plain argument `out`, sub-group argument `output`, abbreviations on, key `out` — the
    sub-group container answered with the sub-group argument, the repaired lookup with the plain one -/
theorem C05_head_subgroup_shadows :
    findSubHead true [((⟨none, "output".toList⟩ : Key), 1)] ⟨none, "out".toList⟩ = .ok (some (0, 1)) ∧
    lookupBoth true [((⟨none, "output".toList⟩ : Key), 1)] [((⟨none, "out".toList⟩ : Key), 0)] ⟨none, "out".toList⟩
      = .ok (some (.inr 0)) := ⟨by rfl, by rfl⟩

-- `--ou` with plain `out` and sub-group `output`: ambiguous over both containers; `--outp`: the sub-group
example : lookupBoth true [((⟨none, "output".toList⟩ : Key), 1)] [((⟨none, "out".toList⟩ : Key), 0)] ⟨none, "ou".toList⟩
    = .throw .runtime_error := by rfl
example : lookupBoth true [((⟨none, "output".toList⟩ : Key), 1)] [((⟨none, "out".toList⟩ : Key), 0)] ⟨none, "outp".toList⟩
    = .ok (some (.inl 1)) := by rfl
example : lookupBoth false [((⟨none, "output".toList⟩ : Key), 1)] [((⟨none, "out".toList⟩ : Key), 0)] ⟨none, "outp".toList⟩
    = .ok none := by rfl
-- definition: sub-group key `o,out` against the plain key `out`
example : addArgumentChecked ([] : List (Key × Nat)) [((⟨none, "out".toList⟩ : Key), 0)] ⟨some 'o', "out".toList⟩ 1
    = .throw .invalid_argument := by rfl

end CelmaVerif.Props.C05s
