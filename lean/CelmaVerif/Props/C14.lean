import CelmaVerif.Lemmas.LogHist
import CelmaVerif.Lemmas.LogPolicy
import CelmaVerif.Lemmas.LogClasses
import CelmaVerif.Lemmas.LogWorldOps
/-
  C14 — a log message reaches exactly the destinations whose filters it passes.
  Property theorems only; helper lemmas are in Lemmas/Log*.lean.  The model (Model/Log.lean)
  takes every table, size and operator from Generated/LogDefs.lean, which is rewritten from the
  current C++ source before this file is checked.

  "Every history" below: any list of operations `Op` (create logs, add / remove destinations,
  set any filter on a log or a destination, change the duplicate policy, send by id set, send by
  name, send through the LOG_LEVEL macro) starting from a freshly created `Logging`; `Valid`
  only asks that messages carry enumerated levels and classes.
-/
namespace CelmaVerif.Props.C14
open CelmaVerif CelmaVerif.Log CelmaVerif.Generated.LogDefs

/-! ### delivery -/

/-- Every history runs to completion in the model: no operation touches a deleted filter, indexes
    the class set beyond its size or otherwise reaches undefined behaviour (`Res.oob`), and the
    state reached satisfies the invariant the other theorems use. -/
theorem C14_histories_are_defined (ops : List Op) (hops : ∀ op ∈ ops, op.Valid) :
    ∃ w, World.init.run ops = .ok w ∧ w.Inv := by
  obtain ⟨w, h1, h2, _⟩ := World.run_inv ops World.init World.init_inv hops
  exact ⟨w, h1, h2⟩

/-- After every history, for every id set and every message: `Logging::log( ids, msg)` returns
    normally and the state afterwards is exactly `deliver`: each log whose id bit is in `ids` and
    whose own filters all accept the message hands it once to each of its destinations whose
    filters all accept it; nothing else changes (see `C14_deliver_means`). -/
theorem C14_delivery (ops : List Op) (hops : ∀ op ∈ ops, op.Valid) (ids : Nat) (m : Msg) (hm : m.Valid) :
    ∃ w, World.init.run ops = .ok w ∧ w.logIds ids m = .ok (w.deliver ids m) := by
  obtain ⟨w, h1, h2, _⟩ := World.run_inv ops World.init World.init_inv hops
  exact ⟨w, h1, World.logIds_eq w ids m h2 hm⟩

/-- the same for `Logging::log( name, msg)`: the first log with that name is the selected one -/
theorem C14_delivery_by_name (ops : List Op) (hops : ∀ op ∈ ops, op.Valid) (name : String) (m : Msg)
    (hm : m.Valid) :
    ∃ w, World.init.run ops = .ok w ∧ w.logName name m = .ok (w.deliverName name m) := by
  obtain ⟨w, h1, h2, _⟩ := World.run_inv ops World.init World.init_inv hops
  exact ⟨w, h1, World.logName_eq w name m h2 hm⟩

/-- What `deliver` means, destination by destination: the log table keeps its shape, ids, names
    and filters; destination `j` of log `i` receives the message exactly once if log `i` is
    selected (its bit is in `ids`), every filter of the log accepts the message and every filter of
    the destination accepts it — and receives nothing otherwise.  A destination is owned by one
    log, so "once per selected owning log" is this `if`. -/
theorem C14_deliver_means (w : World) (ids : Nat) (m : Msg) (i : Nat) (e : LogEntry)
    (he : w.logs[i]? = some e) :
    (w.deliver ids m).logs.length = w.logs.length ∧ (w.deliver ids m).policy = w.policy ∧
    ∃ e', (w.deliver ids m).logs[i]? = some e' ∧ e'.id = e.id ∧ e'.name = e.name ∧
      e'.log.filters = e.log.filters ∧ e'.log.dests.length = e.log.dests.length ∧
      ∀ (j : Nat) (d : Dest), e.log.dests[j]? = some d →
        ∃ d', e'.log.dests[j]? = some d' ∧ d'.name = d.name ∧ d'.filters = d.filters ∧
          d'.received = d.received ++
            (if ids &&& e.id ≠ 0 ∧ e.log.filters.accepts m = true ∧ d.filters.accepts m = true
             then [m] else []) := by
  refine ⟨by simp [World.deliver], rfl, e.deliver (decide (ids &&& e.id ≠ 0)) m, ?_, ?_, ?_, ?_, ?_, ?_⟩
  · simp [World.deliver, he]
  · exact LogEntry.deliver_id _ _ _
  · exact LogEntry.deliver_name _ _ _
  · exact LogEntry.deliver_filters _ _ _
  · unfold LogEntry.deliver; split <;> simp
  · intro j d hd
    unfold LogEntry.deliver
    by_cases hsel : ids &&& e.id ≠ 0
    · by_cases hacc : e.log.filters.accepts m = true
      · have : (decide (ids &&& e.id ≠ 0) && e.log.filters.accepts m) = true := by simp [hsel, hacc]
        rw [if_pos this]
        refine ⟨d.deliver m, by simp [hd], ?_, Dest.deliver_filters d m, ?_⟩
        · unfold Dest.deliver; split <;> rfl
        · unfold Dest.deliver
          by_cases hd2 : d.filters.accepts m = true
          · rw [if_pos hd2, if_pos ⟨hsel, hacc, hd2⟩]
          · rw [if_neg hd2, if_neg (fun h => hd2 h.2.2)]; simp
      · have : ¬ (decide (ids &&& e.id ≠ 0) && e.log.filters.accepts m) = true := by simp [hacc]
        rw [if_neg this, if_neg (fun h => hacc h.2.1)]
        exact ⟨d, hd, rfl, rfl, by simp⟩
    · have : ¬ (decide (ids &&& e.id ≠ 0) && e.log.filters.accepts m) = true := by simp [hsel]
      rw [if_neg this, if_neg (fun h => hsel h.1)]
      exact ⟨d, hd, rfl, rfl, by simp⟩

/-! ### filter tables -/

/-- Maximum-level, minimum-level and exact-level filters accept precisely the levels they name,
    in the full check (`pass`) and in the cheap one (`processLevel`), for every level (indeed for
    every ordinal), every class and every parameter; a class filter accepts precisely the classes
    whose bit is set, for every enumerated class.  `accepts` (used by `deliver`) is by definition
    `≤` / `≥` / `=` / membership. -/
theorem C14_filter_tables (x lvl cls : Nat) :
    (Filter.maxLevel x).pass ⟨lvl, cls⟩ = .ok (decide (lvl ≤ x)) ∧
    (Filter.minLevel x).pass ⟨lvl, cls⟩ = .ok (decide (lvl ≥ x)) ∧
    (Filter.level x).pass ⟨lvl, cls⟩ = .ok (decide (lvl = x)) ∧
    (Filter.maxLevel x).processLevel lvl = .ok (decide (lvl ≤ x)) ∧
    (Filter.minLevel x).processLevel lvl = .ok (decide (lvl ≥ x)) ∧
    (Filter.level x).processLevel lvl = .ok (decide (lvl = x)) ∧
    (∀ bits : List Bool, bits.length = classBitsetSize → cls < numClasses →
      (Filter.classes bits).pass ⟨lvl, cls⟩ = .ok (bits.getD cls false)) := by
  refine ⟨?_, ?_, ?_, ?_, ?_, ?_, ?_⟩
  · simp [Filter.pass, maxLevel_ops.1, CmpOp.eval]
  · simp [Filter.pass, minLevel_ops.1, CmpOp.eval]
  · simp [Filter.pass, level_ops.1, CmpOp.eval]
  · simp [Filter.processLevel, maxLevel_ops.2, CmpOp.eval]
  · simp [Filter.processLevel, minLevel_ops.2, CmpOp.eval]
  · simp [Filter.processLevel, level_ops.2, CmpOp.eval]
  · intro bits hb hc
    have h1 : cls < bits.length := by
      have := bitset_covers_classes
      omega
    simp [Filter.pass, h1]

/-! ### class names and class lists -/

/-- A name selects class `c ≠ undefined` exactly when it is the display text of `c` ignoring
    (ASCII) case — for every enumerated class, the last one included; every other name (also the
    text of `undefined`) gives `undefined`, which the filter constructor rejects. -/
theorem C14_class_names (s : List Char) (c : Nat) (hc : c ≠ 0) :
    text2logClass s = c ↔ c < numClasses ∧ lowerAscii s = lowerAscii (logClass2text c) := by
  constructor
  · intro h
    obtain ⟨h1, h2⟩ := text2logClass_sound s c h hc
    exact ⟨h1, h2.symm⟩
  · intro h
    exact text2logClass_complete c s (Nat.pos_of_ne_zero hc) h.1 h.2

/-- Class lists.  Take any non-empty list of (class, spelling) pairs where each class is an
    enumerated class other than `undefined` and each spelling is that class' display text in any
    mixture of upper and lower case.  Joined by commas and given to `Filters::classes`, the
    constructor succeeds and the resulting filter accepts a message of an enumerated class exactly
    when that class is in the list. -/
theorem C14_classes_parse (sel : List (Nat × List Char)) (hne : sel ≠ [])
    (hsel : ∀ p ∈ sel, 1 ≤ p.1 ∧ p.1 < numClasses ∧ lowerAscii p.2 = lowerAscii (logClass2text p.1)) :
    ∃ bits, newClassSelection (joinSep ',' (sel.map (·.2))) = .ok bits ∧
      bits.length = classBitsetSize ∧
      ∀ m : Msg, m.Valid → (Filter.classes bits).pass m = .ok (decide (m.cls ∈ sel.map (·.1))) := by
  have hclean : ∀ t ∈ sel.map (·.2), t ≠ [] ∧ ',' ∉ t := by
    intro t ht
    rw [List.mem_map] at ht
    obtain ⟨p, hp, e⟩ := ht
    subst e
    obtain ⟨_, h2, h3⟩ := hsel p hp
    have := spelling_clean p.1 p.2 h2 h3
    exact ⟨this.1, this.2.1⟩
  have hcls : ∀ p ∈ sel, text2logClass (cstr p.2) = p.1 := by
    intro p hp
    obtain ⟨h1, h2, h3⟩ := hsel p hp
    rw [(spelling_clean p.1 p.2 h2 h3).2.2]
    exact text2logClass_complete p.1 p.2 h1 h2 h3
  unfold newClassSelection
  rw [classSeparator_eq, tokenize_joinSep ',' _ hclean]
  obtain ⟨r, hr, hk⟩ := classesFromTokens_success (sel.map (·.2)) (List.replicate classBitsetSize false)
    (by simp)
    (by
      intro t ht
      rw [List.mem_map] at ht
      obtain ⟨p, hp, e⟩ := ht
      subst e
      rw [hcls p hp]
      have := (hsel p hp).1
      omega)
    (.inl (by
      intro h
      apply hne
      cases sel with
      | nil => rfl
      | cons a as => simp at h))
  have hlen := classesFromTokens_ok _ _ _ hr
  refine ⟨r, hr, by simpa using hlen, ?_⟩
  intro m hm
  rw [Filter.pass_eq_accepts (.classes r) m (by simpa [Filter.WF] using hlen) hm]
  simp only [Filter.accepts]
  rw [hk m.cls]
  have hmap : (sel.map (·.2)).map (fun t => text2logClass (cstr t)) = sel.map (·.1) := by
    rw [List.map_map]
    apply List.map_congr_left
    intro p hp
    exact hcls p hp
  rw [hmap]
  have hrep : (List.replicate classBitsetSize false).getD m.cls false = false := by
    simp only [List.getD_eq_getElem?_getD, List.getElem?_replicate]
    split <;> rfl
  rw [hrep]
  simp

/-- Unknown names are rejected: a class list with a token that is not (ignoring case) the display
    text of an enumerated class other than `undefined` makes the constructor throw, as does a list
    without tokens; nothing is selected silently. -/
theorem C14_classes_reject (list : List Char)
    (hbad : tokenize ',' list = [] ∨ ∃ t ∈ tokenize ',' list,
      ∀ c, 1 ≤ c → c < numClasses → lowerAscii (cstr t) ≠ lowerAscii (logClass2text c)) :
    newClassSelection list = .throw .runtime_error := by
  unfold newClassSelection
  rw [classSeparator_eq]
  cases hbad with
  | inl h => rw [h]; exact classesFromTokens_empty _
  | inr h =>
    obtain ⟨t, ht, hno⟩ := h
    apply classesFromTokens_failure _ _ (by simp)
    refine ⟨t, ht, ?_⟩
    apply Decidable.byContradiction
    intro hc
    obtain ⟨h1, h2⟩ := text2logClass_sound (cstr t) _ rfl hc
    exact hno _ (Nat.pos_of_ne_zero hc) h1 h2.symm

/-! ### duplicate policy -/

/-- Setting a filter type on a `Filters` object reachable in any history (`F.Inv`), where
    `F.setting t` is the filter of type `t` currently in effect:
    * no filter of that type yet — the new filter is in effect afterwards, the other types are
      untouched (and a throwing constructor changes nothing);
    * the type is set a second time — policy `ignore` keeps the first filter (the filter list
      `mFilters` is unchanged, so is what the object accepts; only the cached pointer
      `mpLevelFilter` consulted by the pre-check is re-pointed to the existing filter of that type
      when it is a level filter — see the example `ignore re-points the cached level filter`
      below), policy `replace` puts the last one in effect and leaves the other types alone
      (a throwing constructor leaves the first in place), policy `exception` throws and changes
      nothing at all.
    This is the statement about one `Filters` object and an arbitrary policy argument; that the
    argument is the configured policy and which object of the world is meant is
    `C14_setFilter_means` / `C14_duplicate_policy_on_the_world`. -/
theorem C14_duplicate_policy (F : Filters) (hF : F.Inv) (t : FType) (mk : Res Filter) :
    (F.setting t = none →
      (∀ nf, mk = .ok nf → nf.ftype = .ok t →
        ∃ F', (∀ p, F.checkSet p t mk = .ok (F', none)) ∧ F'.setting t = some nf ∧
          ∀ t', t' ≠ t → F'.setting t' = F.setting t') ∧
      (∀ e p, mk = .throw e → F.checkSet p t mk = .ok (F, some e))) ∧
    (∀ g, F.setting t = some g →
      (∃ F', F.checkSet .ignore t mk = .ok (F', none) ∧ F'.filters = F.filters) ∧
      (F.checkSet .exception t mk = .ok (F, some .runtime_error)) ∧
      (∀ nf, mk = .ok nf → nf.ftype = .ok t →
        ∃ F', F.checkSet .replace t mk = .ok (F', none) ∧ F'.setting t = some nf ∧
          ∀ t', t' ≠ t → F'.setting t' = F.setting t') ∧
      (∀ e, mk = .throw e → F.checkSet .replace t mk = .ok (F, some e))) := by
  constructor
  · intro hnone
    constructor
    · intro nf hm ht
      obtain ⟨F', h1, h2, h3⟩ := (Filters.checkSet_fresh F .ignore t mk hF hnone).1 nf hm ht
      refine ⟨F', ?_, h2, h3⟩
      intro p
      obtain ⟨F'', g1, _, _⟩ := (Filters.checkSet_fresh F p t mk hF hnone).1 nf hm ht
      -- the result does not depend on the policy when there is no duplicate
      have : F.checkSet p t mk = F.checkSet .ignore t mk := by
        unfold Filters.checkSet
        cases findType_spec t F.filters 0 hF.wf with
        | inl h => rw [h.1]
        | inr h =>
          obtain ⟨j, f, _, e2, e3, e4⟩ := h
          have := find?_first (fun f => f.hasType t) F.filters j f e2 ((Filter.hasType_iff f t).mpr e3)
            (fun k g hk hg => (Filter.hasType_false_iff g t).mpr (e4 k g hk hg))
          unfold Filters.setting at hnone
          rw [this] at hnone
          cases hnone
      rw [this, h1]
    · intro e p hm
      exact (Filters.checkSet_fresh F p t mk hF hnone).2 e hm
  · intro g hg
    obtain ⟨a1, _, _, _⟩ := Filters.checkSet_dup F .ignore t mk g hF hg
    obtain ⟨_, b2, _, _⟩ := Filters.checkSet_dup F .exception t mk g hF hg
    obtain ⟨_, _, c3, c4⟩ := Filters.checkSet_dup F .replace t mk g hF hg
    exact ⟨a1 acceptNew_table.1, b2 acceptNew_table.2.2, c3 acceptNew_table.2.1, c4 acceptNew_table.2.1⟩

/-- The policy that decides is the configured one: after every history the policy in force is the
    one set by the last `setDuplicatePolicy` of the history (`ignore` if there was none) —
    creating logs and destinations, setting filters and sending messages never change it. -/
theorem C14_policy_is_the_configured_one (ops : List Op) (hops : ∀ op ∈ ops, op.Valid) :
    ∃ w, World.init.run ops = .ok w ∧ w.policy = lastPolicy ops .ignore := by
  obtain ⟨w, h1, _, h3⟩ := World.run_inv ops World.init World.init_inv hops
  exact ⟨w, h1, h3⟩

/-- **What `getLog( name)->maxLevel( …)` / `getLog( name)->getDestination( d)->classes( …)` … do
    to the world**, after every history.  `w.Designates tgt F put` (declarative, see
    `Lemmas/LogWorldOps.lean`) says that the target names the `Filters` object `F`: the own
    filters of the *first* log with that name, resp. those of the *first* destination with that
    name of that log, and that `put F'` is `w` with exactly this one object replaced (`List.set`
    at the two indices; policy, ids, names, all other logs, destinations, filters and every
    received message are the same; `put F = w`).
    * If the target designates `F`: `F` is a reachable object (`F.Inv`, the hypothesis of
      `C14_duplicate_policy`), the call is `checkSetFilter` on `F` with **the policy configured
      last in the history** (`lastPolicy ops .ignore`), the world afterwards is `put F'` and the
      call's exception (if any) is the one `checkSetFilter` left with.
    * If it designates nothing (no such log, no such destination): the world is unchanged and the
      call reports "no log" resp. throws the `runtime_error` of `getDestination`. -/
theorem C14_setFilter_means (ops : List Op) (hops : ∀ op ∈ ops, op.Valid) (tgt : Target)
    (s : FilterSpec) :
    ∃ w, World.init.run ops = .ok w ∧
      (∀ F put, w.Designates tgt F put →
        F.Inv ∧ put F = w ∧
        ∃ F' exc, F.checkSet (lastPolicy ops .ignore) s.ftype s.mk = .ok (F', exc) ∧
          w.setFilter tgt s = .ok (put F', SetResult.ofExc exc)) ∧
      ((∀ F put, ¬ w.Designates tgt F put) →
        w.setFilter tgt s = .ok (w, .nolog) ∨ w.setFilter tgt s = .ok (w, .threw .runtime_error)) := by
  obtain ⟨w, h1, h2, h3⟩ := World.run_inv ops World.init World.init_inv hops
  refine ⟨w, h1, ?_, World.setFilter_undesignated w tgt s⟩
  intro F put hd
  obtain ⟨F', exc, g1, _, g3⟩ := World.setFilter_designated w tgt s F put h2 hd
  rw [h3] at g1
  exact ⟨hd.inv h2, hd.put_self, F', exc, g1, g3⟩

/-- **The configured policy decides, on the world**: `C14_setFilter_means` composed with
    `C14_duplicate_policy` and `C14_policy_is_the_configured_one`.  After every history, when a
    filter type that is already set on the designated log / destination (`F.setting … = some g`)
    is set again with a parameter from which a filter `nf` can be built:
    * last configured policy `ignore` (also when none was configured): the call returns normally,
      the object's filter list — hence what it accepts — is the old one;
    * `exception`: the call throws `runtime_error`, the world is unchanged;
    * `replace`: the call returns normally, `nf` is in effect for that type on that object, the
      other types keep their filters;
    and in each case nothing but the designated object changes (`put`). -/
theorem C14_duplicate_policy_on_the_world (ops : List Op) (hops : ∀ op ∈ ops, op.Valid)
    (tgt : Target) (s : FilterSpec) (nf g : Filter) (hmk : s.mk = .ok nf) :
    ∃ w, World.init.run ops = .ok w ∧
      ∀ F put, w.Designates tgt F put → F.setting s.ftype = some g →
        (lastPolicy ops .ignore = .ignore →
          ∃ F', w.setFilter tgt s = .ok (put F', .done) ∧ F'.filters = F.filters) ∧
        (lastPolicy ops .ignore = .exception →
          w.setFilter tgt s = .ok (w, .threw .runtime_error)) ∧
        (lastPolicy ops .ignore = .replace →
          ∃ F', w.setFilter tgt s = .ok (put F', .done) ∧ F'.setting s.ftype = some nf ∧
            ∀ t', t' ≠ s.ftype → F'.setting t' = F.setting t') := by
  obtain ⟨w, h1, h2, h3⟩ := World.run_inv ops World.init World.init_inv hops
  refine ⟨w, h1, ?_⟩
  intro F put hd hg
  obtain ⟨F', exc, g1, _, g3⟩ := World.setFilter_designated w tgt s F put h2 hd
  rw [h3] at g1
  change F.checkSet (lastPolicy ops .ignore) s.ftype s.mk = .ok (F', exc) at g1
  obtain ⟨a1, a2, a3, _⟩ := (C14_duplicate_policy F (hd.inv h2) s.ftype s.mk).2 g hg
  refine ⟨?_, ?_, ?_⟩
  · intro hp
    rw [hp] at g1
    obtain ⟨F'', b1, b2⟩ := a1
    rw [b1] at g1
    have he : F' = F'' ∧ exc = none := by cases g1; exact ⟨rfl, rfl⟩
    obtain ⟨rfl, rfl⟩ := he
    exact ⟨F', g3, b2⟩
  · intro hp
    rw [hp, a2] at g1
    have he : F' = F ∧ exc = some .runtime_error := by cases g1; exact ⟨rfl, rfl⟩
    obtain ⟨rfl, rfl⟩ := he
    rw [hd.put_self] at g3
    exact g3
  · intro hp
    rw [hp] at g1
    obtain ⟨F'', b1, b2, b3⟩ := a3 nf hmk ((FilterSpec.mk_spec s).2 nf hmk).2.2
    rw [b1] at g1
    have he : F' = F'' ∧ exc = none := by cases g1; exact ⟨rfl, rfl⟩
    obtain ⟨rfl, rfl⟩ := he
    exact ⟨F', g3, b2, b3⟩

/-! ### the level pre-check -/

/-- After every history, for every id set and every message: `discard_by_level( ids, level)`
    either throws the documented runtime error (more than one id) or returns a boolean — never
    undefined behaviour, never the `invalid_argument` of the dispatch — and when it returns
    `true` (discard), sending the message to `ids` would have delivered it to no destination: the
    state after `Logging::log( ids, msg)` equals the state before. -/
theorem C14_precheck_sound (ops : List Op) (hops : ∀ op ∈ ops, op.Valid) (ids : Nat) (m : Msg)
    (hm : m.Valid) :
    ∃ w, World.init.run ops = .ok w ∧
      (w.discardById ids m.level = .ok (.threw .runtime_error) ∨
       ∃ b, w.discardById ids m.level = .ok (.val b) ∧ (b = true → w.logIds ids m = .ok w)) := by
  obtain ⟨w, h1, h2, _⟩ := World.run_inv ops World.init World.init_inv hops
  refine ⟨w, h1, ?_⟩
  cases World.discardById_spec w ids m h2 with
  | inl h => exact .inl h
  | inr h =>
    obtain ⟨b, hb, hs⟩ := h
    refine .inr ⟨b, hb, fun hbt => ?_⟩
    rw [World.logIds_eq w ids m h2 hm, hs hbt]

/-- the same for the pre-check by log name (which never throws) -/
theorem C14_precheck_sound_by_name (ops : List Op) (hops : ∀ op ∈ ops, op.Valid) (name : String)
    (m : Msg) (hm : m.Valid) :
    ∃ w, World.init.run ops = .ok w ∧
      ∃ b, w.discardByName name m.level = .ok (.val b) ∧ (b = true → w.logName name m = .ok w) := by
  obtain ⟨w, h1, h2, _⟩ := World.run_inv ops World.init World.init_inv hops
  refine ⟨w, h1, ?_⟩
  obtain ⟨b, hb, hs⟩ := World.discardByName_spec w name m h2
  refine ⟨b, hb, fun hbt => ?_⟩
  rw [World.logName_eq w name m h2 hm, hs hbt]

/-- The LOG_LEVEL macro (pre-check, then send), any id set: whenever it returns normally the
    state is exactly what the plain `Logging::log( ids, msg)` produces; when it throws nothing was
    delivered.  This alone does NOT say that the macro delivers what `log( ids, msg)` delivers:
    with an id set that contains a log's id and another bit it throws (`C14_macro_exact`,
    `C14_macro_two_ids_throws`) — log_macros.hpp: "can only be used with a single log id/name,
    not with a set of log ids".  For the documented use see `C14_macro_single_id`. -/
theorem C14_macro_delivers_like_send (ops : List Op) (hops : ∀ op ∈ ops, op.Valid) (ids : Nat)
    (m : Msg) (hm : m.Valid) :
    ∃ w w' exc, World.init.run ops = .ok w ∧ w.macroSend ids m = .ok (w', exc) ∧
      (exc = none → w' = w.deliver ids m) ∧ (exc ≠ none → w' = w) := by
  obtain ⟨w, h1, h2, _⟩ := World.run_inv ops World.init World.init_inv hops
  cases World.discardById_spec w ids m h2 with
  | inl h =>
    refine ⟨w, w, some .runtime_error, h1, ?_, ?_, ?_⟩
    · unfold World.macroSend; rw [h]
    · intro c; cases c
    · intro _; rfl
  | inr h =>
    obtain ⟨b, hb, hs⟩ := h
    cases b with
    | true =>
      refine ⟨w, w, none, h1, ?_, ?_, ?_⟩
      · unfold World.macroSend; rw [hb]
      · intro _; exact (hs rfl).symm
      · intro c; exact absurd rfl c
    | false =>
      by_cases h0 : ids = 0
      · refine ⟨w, w, some .runtime_error, h1, ?_, ?_, ?_⟩
        · unfold World.macroSend; rw [hb]; simp [h0]
        · intro c; cases c
        · intro _; rfl
      · refine ⟨w, w.deliver ids m, none, h1, ?_, ?_, ?_⟩
        · unfold World.macroSend; rw [hb]; simp [h0, World.logIds_eq w ids m h2 hm]
        · intro _; rfl
        · intro c; exact absurd rfl c

/-- **LOG_LEVEL used as documented** (one log id, i.e. one bit — whether a log with that id exists
    or not), after every history, every enumerated (level, class): the macro returns normally and
    the state afterwards is exactly that of the plain `Logging::log( id, msg)`, i.e. `deliver`
    (`C14_deliver_means`): the pre-check never costs a message. -/
theorem C14_macro_single_id (ops : List Op) (hops : ∀ op ∈ ops, op.Valid) (k : Nat) (m : Msg)
    (hm : m.Valid) :
    ∃ w, World.init.run ops = .ok w ∧ w.macroSend (2 ^ k) m = .ok (w.deliver (2 ^ k) m, none) ∧
      ∃ b, w.discardById (2 ^ k) m.level = .ok (.val b) := by
  obtain ⟨w, h1, h2, _⟩ := World.run_inv ops World.init World.init_inv hops
  exact ⟨w, h1, World.macroSend_single w _ m h2 hm (h2.single_bit k),
    World.discardById_single w _ m h2 (h2.single_bit k)⟩

/-- **LOG_LEVEL used with a log NAME** (`LOG_LEVEL( "name", level) << …`; the name of a log that exists or not),
    after every history, every enumerated (level, class): the macro returns normally and the state afterwards is
    exactly that of the plain `Logging::log( name, msg)`, i.e. `deliverName` - the first log of that name gets the
    message, nothing happens when there is none: the pre-check by name never costs a message and never throws.
    (The empty string is not a log name for the macro: `StreamLog( "", …)` throws "no destination log name
    specified" - second part: then nothing is delivered, and the exception is raised only when a log with the
    empty name exists and lets the level pass; otherwise the call returns normally.) -/
theorem C14_macro_single_name (ops : List Op) (hops : ∀ op ∈ ops, op.Valid) (name : String) (m : Msg)
    (hm : m.Valid) :
    ∃ w, World.init.run ops = .ok w ∧
      (name ≠ "" → w.macroSendName name m = .ok (w.deliverName name m, none)) ∧
      (name = "" → w.macroSendName name m = .ok (w, none) ∨ w.macroSendName name m = .ok (w, some .runtime_error)) := by
  obtain ⟨w, h1, h2, _⟩ := World.run_inv ops World.init World.init_inv hops
  refine ⟨w, h1, ?_, ?_⟩
  · intro hne
    obtain ⟨b, hb, hs⟩ := World.discardByName_spec w name m h2
    unfold World.macroSendName
    rw [hb]
    cases b with
    | true => simp only; rw [hs rfl]
    | false => simp only; rw [if_neg hne, World.logName_eq w name m h2 hm]
  · intro he
    obtain ⟨b, hb, _⟩ := World.discardByName_spec w name m h2
    unfold World.macroSendName
    rw [hb]
    cases b with
    | true => exact Or.inl rfl
    | false => simp only; rw [if_pos he]; exact Or.inr rfl

/-- **Exactly when LOG_LEVEL / `discard_by_level( ids, …)` throw**, any id set, after every
    history: if `ids` overlaps no log's id without being equal to it, the macro returns normally
    with the state of the plain send; if `ids` contains the id of some log *and another bit*
    (a set of two or more ids, the case log_macros.hpp excludes), both throw `runtime_error`
    ("only one single log id may be specified") and nothing is delivered — although
    `Logging::log( ids, msg)` with the same arguments delivers (`C14_delivery`).  The two cases are
    complementary. -/
theorem C14_macro_exact (ops : List Op) (hops : ∀ op ∈ ops, op.Valid) (ids : Nat) (m : Msg)
    (hm : m.Valid) :
    ∃ w, World.init.run ops = .ok w ∧
      ((∀ e ∈ w.logs, ids &&& e.id ≠ 0 → ids = e.id) →
        w.macroSend ids m = .ok (w.deliver ids m, none) ∧
        ∃ b, w.discardById ids m.level = .ok (.val b)) ∧
      ((∃ e ∈ w.logs, ids &&& e.id ≠ 0 ∧ ids ≠ e.id) →
        w.macroSend ids m = .ok (w, some .runtime_error) ∧
        w.discardById ids m.level = .ok (.threw .runtime_error)) := by
  obtain ⟨w, h1, h2, _⟩ := World.run_inv ops World.init World.init_inv hops
  refine ⟨w, h1, ?_, ?_⟩
  · intro h
    exact ⟨World.macroSend_single w ids m h2 hm h, World.discardById_single w ids m h2 h⟩
  · intro h
    exact ⟨World.macroSend_overlap w ids m h2 h, World.discardById_overlap w ids m.level h2 h⟩

/-- The excluded case is real (model side of the replayed witness
    `corpus/logfilter/macro_two_ids.ops`): in a reachable two-log state the macro with both ids
    throws and delivers nothing, while the plain send delivers the same message to two
    destinations.  This is the documented restriction of the macro, not a loss the pre-check
    causes silently; it is why the MANIFEST claims "never loses a message" only for a single id. -/
theorem C14_macro_two_ids_throws :
    exampleWorld.Inv ∧ exampleWorld.macroSend 3 ⟨3, 6⟩ = .ok (exampleWorld, some .runtime_error) ∧
    ((exampleWorld.deliver 3 ⟨3, 6⟩).logs.map fun e => e.log.dests.map fun d => d.received.length) =
      [[1, 0], [1]] :=
  ⟨exampleWorld_inv, rfl, rfl⟩

/-- `C14_macro_single_name` on the two-log state: `LOG_LEVEL( "a", warning)` reaches destination `x` of log `a`
    as the plain send by name does; `LOG_LEVEL( "a", debug)` is stopped by the pre-check (level filter of the log)
    and the plain send delivers nothing either; an unknown name does nothing -/
example :
    exampleWorld.macroSendName "a" ⟨3, 6⟩ = .ok (exampleWorld.deliverName "a" ⟨3, 6⟩, none) ∧
    ((exampleWorld.deliverName "a" ⟨3, 6⟩).logs.map fun e => e.log.dests.map fun d => d.received.length) = [[1, 0], [0]] ∧
    exampleWorld.macroSendName "a" ⟨5, 6⟩ = .ok (exampleWorld, none) ∧
    exampleWorld.deliverName "a" ⟨5, 6⟩ = exampleWorld ∧
    exampleWorld.macroSendName "nolog" ⟨3, 6⟩ = .ok (exampleWorld, none) :=
  ⟨rfl, rfl, rfl, rfl, rfl⟩

/-! ### non-vacuity: concrete instances of the hypotheses and of both outcomes -/

/-- a reachable `Filters` object with a level filter -/
example : ∃ F, ({} : Filters).set .ignore (.max 3) = .ok (F, none) ∧ F.Inv ∧
    F.setting .maxLevel = some (.maxLevel 3) ∧ F.setting .classes = none := by
  obtain ⟨F', exc, h, hi⟩ := Filters.set_inv {} .ignore (.max 3) Filters.inv_empty
  have : ({} : Filters).set .ignore (.max 3) = .ok (⟨[.maxLevel 3], some 0⟩, none) := rfl
  rw [this] at h
  cases h
  exact ⟨_, rfl, hi, rfl, rfl⟩

/-- "Data,operator ACTION" selects classes 2 and 6 (the last one) and nothing else -/
example : newClassSelection ['D','a','t','a',',','o','p','e','r','a','t','o','r',' ','A','C','T','I','O','N'] =
    .ok [false, false, true, false, false, false, true] := rfl

/-- an unknown name and the empty list are rejected -/
example : newClassSelection ['d','a','t','a',',','b','o','g','u','s'] = .throw .runtime_error := rfl
example : newClassSelection [] = .throw .runtime_error := rfl

/-- policies: ignore keeps `max 2`, replace takes `max 5`, exception throws -/
example : (Filters.set ⟨[.maxLevel 2], some 0⟩ .ignore (.max 5)) = .ok (⟨[.maxLevel 2], some 0⟩, none) := rfl
example : (Filters.set ⟨[.maxLevel 2], some 0⟩ .replace (.max 5)) = .ok (⟨[.maxLevel 5], some 0⟩, none) := rfl
example : (Filters.set ⟨[.maxLevel 2], some 0⟩ .exception (.max 5)) =
    .ok (⟨[.maxLevel 2], some 0⟩, some .runtime_error) := rfl

/-- valid messages exist; a message is delivered to one destination and filtered for another;
    the pre-check discards a level the log's filter rejects and a two-id set makes it throw -/
example : (⟨3, 6⟩ : Msg).Valid := ⟨by decide, by decide⟩
example : exampleWorld.Inv := exampleWorld_inv
example : ((exampleWorld.deliver 3 ⟨3, 6⟩).logs.map fun e => e.log.dests.map fun d => d.received.length) =
    [[1, 0], [1]] := rfl
example : exampleWorld.discardById 1 5 = .ok (.val true) := rfl
example : exampleWorld.discardById 1 3 = .ok (.val false) := rfl
example : exampleWorld.discardById 3 3 = .ok (.threw .runtime_error) := rfl

/-- `ignore` re-points the cached level filter: setting `min 1` again under `ignore` keeps both
    filters but `mpLevelFilter` (index 1 before) now points to the existing min-level filter
    (index 0) — the filter list is unchanged, the object is not -/
example : (Filters.set ⟨[.minLevel 1, .maxLevel 4], some 1⟩ .ignore (.min 3)) =
    .ok (⟨[.minLevel 1, .maxLevel 4], some 0⟩, none) := rfl

/-- targets of `exampleWorld`: log "a" designates its own filters, "a"/"y" the filters of its
    second destination, "q" nothing; the hypotheses of `C14_duplicate_policy_on_the_world` hold
    for the first (a max-level filter is set) -/
example : exampleWorld.Designates (.log "a") exampleLogA.log.filters
    (fun F' => { exampleWorld with logs := exampleWorld.logs.set 0 (exampleLogA.setFilters F') }) :=
  .log "a" 0 exampleLogA rfl (by decide) (by intro k b hk; omega)
example : exampleWorld.Designates (.dest "a" "y") exampleDestY.filters
    (fun F' => { exampleWorld with logs := exampleWorld.logs.set 0 (exampleLogA.setDests (exampleLogA.log.dests.set 1 (exampleDestY.setFilters F'))) }) :=
  .dest "a" "y" 0 exampleLogA 1 exampleDestY rfl (by decide) (by intro k b hk; omega) rfl (by decide)
    (by
      intro k b hk hb
      have : k = 0 := by omega
      subst this
      cases hb
      decide)
example : exampleLogA.log.filters.setting (FilterSpec.max 2).ftype = some (.maxLevel 4) := rfl
example : (FilterSpec.max 2).mk = .ok (.maxLevel 2) := rfl
example : lastPolicy [.policy .replace, .newLog "a"] .ignore = .replace := rfl
/-- the macro with a single id: existing log, unknown id -/
example : exampleWorld.macroSend (2 ^ 0) ⟨3, 6⟩ = .ok (exampleWorld.deliver 1 ⟨3, 6⟩, none) := rfl
example : exampleWorld.macroSend (2 ^ 5) ⟨3, 6⟩ = .ok (exampleWorld, none) := rfl
example : ∃ e ∈ exampleWorld.logs, 3 &&& e.id ≠ 0 ∧ 3 ≠ e.id := ⟨exampleLogA, by simp [exampleWorld], by decide⟩

end CelmaVerif.Props.C14
