import CelmaVerif.Lemmas.SubGroupsEnd
import CelmaVerif.Lemmas.SubGroupsCons
import CelmaVerif.Lemmas.SubGroupsExamples
import CelmaVerif.Lemmas.SubGroupsCross
import CelmaVerif.Lemmas.SubGroupsMandatory
import CelmaVerif.Lemmas.SubGroupsHistory
import CelmaVerif.Lemmas.SubGroupsWords
/-
  C08 (and the mandatory clause of C02) for member handlers with SUB-GROUP ARGUMENTS.
  Model: `Model/ProgArgs/SubGroups.lean` (what the driver runs: `evalArgumentsT`, `groupsEvalT`,
  `groupDefineSeqT`).

  The clauses:
  * `C02_subgroup_mandatory_missing_refused` / `C08_subgroup_mandatory_missing_refused` — WORD LEVEL, from the
    initial state: a mandatory sub-group argument to which no element of argv resolves makes the single
    handler / the group throw.
  * `C08_subgroup_accepted_history_disjoint`, `C08_subgroup_history_clash_refused` — definition histories
    (plain and sub-group definitions on the members of a group, the function `pa gdef` runs): accepted ⇒ no two
    keys of the group clash, over both containers of every member; a clashing definition is refused there.
  * conservativity (`C08_subgroup_conservative`): members without sub-group arguments = `groupsEval`.
  DEFINITIONAL / STATE-LEVEL LEMMAS, not clauses: `C08_subgroup_end_checks`, `C08_subgroup_end_checks_standalone`
  (the two end-check functions make the same four calls), `C02_/C08_subgroup_mandatory_cardinality_partial`
  (about the state fields, from an arbitrary start state), `C08_subgroup_cross_check` (one pair of handlers).
  NOT proved for members WITH sub-group arguments: dispatch and the state equivalence group = merged handler
  (`C08_group_equiv_partial` style); the cardinality of a sub-group argument at word level.
-/
namespace CelmaVerif.Props.C08s
open CelmaVerif CelmaVerif.Keys CelmaVerif.ProgArgs

/-- **Conservativity.**  Members without sub-group arguments are evaluated by `groupsEvalT` exactly
    as by `groupsEval`: same result, the members' (empty) sub-group parts added.  Every theorem of
    C08 about `groupsEval` therefore speaks about `groupsEvalT` on such groups. -/
theorem C08_subgroup_conservative (cfg : Cfg) (inits : List DVal) (am gm order : List Nat) (argv : List Word) :
    groupsEvalT { main := cfg } { main := inits } am [] gm order argv =
      mapRes treeMembers (groupsEval cfg inits am gm order argv) :=
  groupsEvalT_nil cfg inits am gm order argv

/-- DEFINITIONAL LEMMA (one unfolding of `groupsEvalT`; not the clause — the clause at word level is
    `C08_subgroup_mandatory_missing_refused`).  If `Groups::evalArguments` returns, then for every member
    handler: mandatory/cardinality of its plain arguments, mandatory/cardinality of its SUB-GROUP
    arguments, the arguments still required by a constraint, and the end conditions of its handler
    constraints have all passed. -/
theorem C08_subgroup_end_checks (cfg : TCfg) (inits : TInits) (am sm gm order : List Nat) (argv : List Word)
    (ms : List (TCfg × TState)) (h : groupsEvalT cfg inits am sm gm order argv = .ok ms) :
    ∀ m ∈ ms, checkMandatoryCardinality m.1.main.args m.2.main.args = .ok () ∧
      checkSubMandatoryCardinality m.1.subs m.2.subArgs = .ok () ∧
      pendingCheckRequired m.2.main.pending = .ok () ∧
      checkGlobals m.1.main.args m.2.main.args m.1.main.globals m.2.main.globals = .ok () := by
  intro m hm
  exact (memberEndChecksT_ok_iff m.1 m.2).mp (groupsEvalT_end_checks cfg inits am sm gm order argv ms h m hm)

/-- DEFINITIONAL LEMMA (the two model functions make the same four calls; nothing here says that a group run
    reaches the state a stand-alone run reaches — for members with sub-group arguments that is not proved).
    The final checks of `Handler::evalArguments` on a
    configuration and state return iff the member checks of `Groups` return on the same
    configuration and state (they then only forget the last argument), and they throw the same
    exception: on every state both paths enforce the same rules — in particular the mandatory flag
    and the cardinality of every sub-group argument. -/
theorem C08_subgroup_end_checks_standalone (cfg : TCfg) (t : TState) :
    (∀ t', endChecksT cfg t = .ok t' ↔
      t' = { t with main := { t.main with lastArg := none } } ∧ memberEndChecksT cfg t = .ok ()) ∧
    (∀ e, endChecksT cfg t = .throw e ↔ memberEndChecksT cfg t = .throw e) :=
  ⟨fun t' => endChecksT_ok_iff cfg t t', fun e => endChecksT_throw_iff cfg t e⟩

/-- STATE-LEVEL LEMMA, partial (the hypothesis is a run from an ARBITRARY start state `t`, the conclusion is
    about the state fields `hasValueSet` = `mWasCalled` and `cnt`: from a start state with the flag already
    up the mandatory argument need not occur in argv.  The mandatory clause at word level, from the initial
    state, is `C02_subgroup_mandatory_missing_refused`; for the cardinality of a sub-group argument this lemma
    is all that is proved).  For every handler tree, state, sources and argv: if `evalArguments` returns, every sub-group argument `j` with the mandatory
    flag was identified at least once (`mWasCalled`), and `ICardinality::check()` passes on its
    counter (exact n: 0 or n uses; range lo..: 0 or ≥ lo uses). -/
theorem C02_subgroup_mandatory_cardinality_partial (cfg : TCfg) (t t' : TState) (src : Sources) (argv : List Word)
    (h : evalArgumentsT cfg t src argv = .ok t') (j : Nat) (d : SubDef) (st : ArgSt)
    (hd : cfg.subs[j]? = some d) (hs : t'.subArgs[j]? = some st) :
    (d.mandatory = true → st.hasValueSet = true) ∧ d.card.check st.cnt = .ok () :=
  checkSub_ok cfg.subs t'.subArgs ((memberEndChecksT_ok_iff cfg t').mp (evalArgumentsT_end_checks cfg t t' src argv h)).2.1
    j d st hd hs

/-- STATE-LEVEL LEMMA, partial: the same through a group, for every member and every sub-group argument it owns
    (conclusion about the state fields; word level: `C08_subgroup_mandatory_missing_refused`). -/
theorem C08_subgroup_mandatory_cardinality_partial (cfg : TCfg) (inits : TInits) (am sm gm order : List Nat) (argv : List Word)
    (ms : List (TCfg × TState)) (h : groupsEvalT cfg inits am sm gm order argv = .ok ms)
    (m : TCfg × TState) (hm : m ∈ ms) (j : Nat) (d : SubDef) (st : ArgSt)
    (hd : m.1.subs[j]? = some d) (hs : m.2.subArgs[j]? = some st) :
    (d.mandatory = true → st.hasValueSet = true) ∧ d.card.check st.cnt = .ok () :=
  checkSub_ok m.1.subs m.2.subArgs (C08_subgroup_end_checks cfg inits am sm gm order argv ms h m hm).2.1 j d st hd hs

/-- **No end check of a SUB handler is ever run** (as coded: neither `Handler::evalArguments` nor
    `Groups::evalArguments` calls a function of the handler behind a sub-group argument at the end):
    the final checks do not depend on the sub handlers' configurations or states — mandatory
    arguments of a sub handler, its pending `requires` entries and the end conditions of its handler
    constraints are not enforced.  (Documented behaviour of the model = behaviour of the code; the
    tie replays it, see the example below.) -/
theorem C02_sub_handler_end_checks_never_run (cfg : TCfg) (t : TState) (subs' : List HState)
    (cfg' : TCfg) (hm : cfg'.main = cfg.main)
    (hk : cfg'.subs.map SubDef.argDef = cfg.subs.map SubDef.argDef) :
    memberEndChecksT cfg' { t with subs := subs' } = memberEndChecksT cfg t := by
  unfold memberEndChecksT checkSubMandatoryCardinality
  rw [hm, hk]

/-- ONE-PAIR LEMMA (the clause over registration histories is `C08_subgroup_accepted_history_disjoint` /
    `C08_subgroup_history_clash_refused`).  `Handler::crossCheckArguments` between two members returns iff no key of the one, plain or
    sub-group, clashes (same short key, same long key, or a contradicting pair) with a key of the
    other, plain or sub-group; otherwise it throws `std::invalid_argument`.  (It is run by
    `internAddArgument` and, since `fix:` b870f06, by the definition of a sub-group argument too.) -/
theorem C08_subgroup_cross_check (ownPlain ownSub otherPlain otherSub : List Key) :
    (crossCheckHandlers ownPlain ownSub otherPlain otherSub = .ok () ∧
      ∀ a ∈ ownPlain ++ ownSub, ∀ o ∈ otherPlain ++ otherSub, ¬ a.Clash o) ∨
    (crossCheckHandlers ownPlain ownSub otherPlain otherSub = .throw .invalid_argument ∧
      ∃ a ∈ ownPlain ++ ownSub, ∃ o ∈ otherPlain ++ otherSub, a.Clash o) :=
  crossCheckHandlers_cases ownPlain ownSub otherPlain otherSub

/-! ### the mandatory clause at word level -/

/-- **C02, stand-alone: a mandatory sub-group argument that is not on the command line is refused.**
    For every handler tree `cfg`, initial destination values, and argv with a program name: evaluated from the
    state the handler has after its definition (`cfg.initState`), without argument file and environment
    variable, if sub-group argument `j` is mandatory and NO element of argv is a key that the lookup of
    `Handler::processArg` over both containers (`findSub`) resolves to `j`, then `evalArguments` throws a
    std:: exception (never returns, never reads outside argv).
    "Element of argv" = the element under a cursor of `Reach argv`: `begin()` and every `operator++` from it,
    also on the copy flagged "the rest of the word is the value" (`Lemmas/SubGroupsMandatory.lean`); `Hits` =
    its key (`-c`: the character; `--name`: `wordKey name`) is resolved by `findSub` to entry `j` — exact key,
    or unambiguous abbreviation when the handler allows abbreviations.
    A model whose `initState` created the sub-group argument as "already used", or whose end check skipped
    the sub-group container (seeded C08-3 for groups), violates this theorem. -/
theorem C02_subgroup_mandatory_missing_refused (cfg : TCfg) (inits : TInits) (argv : List Word)
    (h1 : 1 ≤ argv.length) (j : Nat) (d : SubDef) (hd : cfg.subs[j]? = some d) (hm : d.mandatory = true)
    (hno : ∀ it, Reach argv it → ¬ Hits cfg j it) :
    ∃ e, evalArgumentsT cfg (cfg.initState inits) {} argv = .throw e ∧ stdExc e :=
  evalArgumentsT_mandatory_missing cfg inits argv h1 j d hd hm hno

/-- **C08: the same through a group.**  For every tree, membership (`am`, `sm`, `gm`), registration order and
    argv: if member `m` is registered, its sub-group argument `j` (index among the sub-group arguments the
    member owns) is mandatory, and no element of argv is a key that the lookup of THAT member resolves to `j`,
    then `Groups::evalArguments` throws a std:: exception — whatever the other members do with the words. -/
theorem C08_subgroup_mandatory_missing_refused (cfg : TCfg) (inits : TInits) (am sm gm order : List Nat)
    (argv : List Word) (h1 : 1 ≤ argv.length) (m : Nat) (hmo : m ∈ order) (j : Nat) (d : SubDef)
    (hd : (memberTCfg cfg am sm gm m).subs[j]? = some d) (hm : d.mandatory = true)
    (hno : ∀ it, Reach argv it → ¬ Hits (memberTCfg cfg am sm gm m) j it) :
    ∃ e, groupsEvalT cfg inits am sm gm order argv = .throw e ∧ stdExc e :=
  groupsEvalT_mandatory_missing cfg inits am sm gm order argv h1 m hmo j d hd hm hno

/-- **C02 in the direction of the sentence: an accepted command line names every mandatory sub-group
    argument.**  If `evalArguments` returns (initial state, no sources), then for every mandatory sub-group
    argument `j` some element of argv is a key that the handler's lookup resolves to `j`. -/
theorem C02_subgroup_accepted_names_mandatory (cfg : TCfg) (inits : TInits) (argv : List Word) (t' : TState)
    (h1 : 1 ≤ argv.length) (hacc : evalArgumentsT cfg (cfg.initState inits) {} argv = .ok t')
    (j : Nat) (d : SubDef) (hd : cfg.subs[j]? = some d) (hm : d.mandatory = true) :
    ∃ it, Reach argv it ∧ Hits cfg j it := by
  refine Classical.byContradiction fun hno => ?_
  obtain ⟨e, he, _⟩ := evalArgumentsT_mandatory_missing cfg inits argv h1 j d hd hm
    (fun it hr hh => hno ⟨it, hr, hh⟩)
  rw [he] at hacc
  cases hacc

-- `-m -s -a` is accepted, so some element of it resolves to the mandatory `-s` (through the theorem)
example : ∃ it, Reach (sgArgv ["-m", "-s", "-a"]) it ∧ Hits (sgCfg true) 0 it := by
  have hok : (sgEval true ["-m", "-s", "-a"]).isOk = true := by decide +kernel
  cases h : sgEval true ["-m", "-s", "-a"] with
  | ok t' => exact C02_subgroup_accepted_names_mandatory (sgCfg true) sgInits _ t' (by decide) h 0 sgDef rfl rfl
  | throw e => rw [h] at hok; cases hok
  | oob w => rw [h] at hok; cases hok
-- non-vacuity: `-m --out=x-s v` on `sgCfg` (mandatory `-s,--output`): every hypothesis instantiated — the
-- cursors of this argv are enumerated (`ReachClosed`, a finite closure check) and none of their elements
-- resolves to the sub-group argument, although the text `-s` occurs inside a value
example : ∃ e, sgEval true ["-m", "--out=x-s", "v"] = .throw e ∧ stdExc e :=
  C02_subgroup_mandatory_missing_refused (sgCfg true) sgInits _ (by decide) 0 sgDef rfl rfl
    (noHits_of_closed (S := reachList (sgArgv ["-m", "--out=x-s", "v"]) 4) (by decide +kernel) (by decide +kernel))
-- (through the group the word `--out=…` would not do: in member 1, which owns only `-s,--output`, `out` is an
-- unambiguous abbreviation of `output` — the known finding `group-abbreviation-shadows-exact`)
example : ∃ e, sgGroup true [0, 1] ["-m", "x-s"] = .throw e ∧ stdExc e :=
  C08_subgroup_mandatory_missing_refused (sgCfg true) sgInits [0, 0] [1] [] [0, 1] _ (by decide) 1 (by decide) 0 sgDef
    rfl rfl
    (noHits_of_closed (S := reachList (sgArgv ["-m", "x-s"]) 3) (by decide +kernel) (by decide +kernel))
/-- **… with the hypothesis on the WORDS of argv (no cursor).**  `noKeyText cfg j argv` is a purely syntactic
    test: in no word of argv (program name and value words included) is a character — or the NUL behind the
    word — a short key that the lookup resolves to sub-group argument `j`, and for no suffix of a word is the
    text up to its first `=` (`keyText`) a typed long key (`wordKey`) that the lookup resolves to `j`.  Every
    key element the cursor can produce is of one of these two forms (`reach_from`), so the test implies the
    cursor-level hypothesis.  Coarse (a value word containing the short key character fails it), but free of
    the cursor model. -/
theorem C02_subgroup_mandatory_missing_refused_words (cfg : TCfg) (inits : TInits) (argv : List Word)
    (h1 : 1 ≤ argv.length) (j : Nat) (d : SubDef) (hd : cfg.subs[j]? = some d) (hm : d.mandatory = true)
    (hno : noKeyText cfg j argv = true) :
    ∃ e, evalArgumentsT cfg (cfg.initState inits) {} argv = .throw e ∧ stdExc e :=
  evalArgumentsT_mandatory_missing cfg inits argv h1 j d hd hm (noHits_of_noKeyText hno)

theorem C08_subgroup_mandatory_missing_refused_words (cfg : TCfg) (inits : TInits) (am sm gm order : List Nat)
    (argv : List Word) (h1 : 1 ≤ argv.length) (m : Nat) (hmo : m ∈ order) (j : Nat) (d : SubDef)
    (hd : (memberTCfg cfg am sm gm m).subs[j]? = some d) (hm : d.mandatory = true)
    (hno : noKeyText (memberTCfg cfg am sm gm m) j argv = true) :
    ∃ e, groupsEvalT cfg inits am sm gm order argv = .throw e ∧ stdExc e :=
  groupsEvalT_mandatory_missing cfg inits am sm gm order argv h1 m hmo j d hd hm (noHits_of_noKeyText hno)

-- `prog -m --main x` on `sgCfg`: no `s`, no `output`-prefix anywhere
example : ∃ e, sgEval true ["-m", "--main", "x"] = .throw e ∧ stdExc e :=
  C02_subgroup_mandatory_missing_refused_words (sgCfg true) sgInits _ (by decide) 0 sgDef rfl rfl (by decide +kernel)
example : ∃ e, sgGroup true [1, 0] ["-m", "--main", "x"] = .throw e ∧ stdExc e :=
  C08_subgroup_mandatory_missing_refused_words (sgCfg true) sgInits [0, 0] [1] [] [1, 0] _ (by decide) 1 (by decide) 0
    sgDef rfl rfl (by decide +kernel)
-- the test is coarse: the value word `x-s` fails it although no element resolves to `-s` (example above)
example : noKeyText (sgCfg true) 0 (sgArgv ["-m", "x-s"]) = false := by decide +kernel
-- the hypothesis is needed and can fail: `--outp` (unambiguous abbreviation of `--output`) resolves to the
-- sub-group argument, and the line is accepted
example : (match It.begin (sgArgv ["--outp"]) with | .ok it => hitsB (sgCfg true) 0 it | _ => false) = true := by
  decide +kernel
example : (sgEval true ["--outp"]).isOk = true := by decide +kernel

/-! ### definition histories over both containers -/

/-- **After every accepted sequence of definitions — plain arguments and sub-group arguments, on any members
    of a group — no two keys of the group clash.**  `groupDefineSeqT` is the function the driver runs for
    `pa gdef` (`Handler::addArgument( spec, dest, desc)` / `Handler::addArgument( spec, Handler&, desc)` on
    handlers obtained from `Groups`: the other container of the handler is asked first, then the own table,
    then `Groups::crossCheckArguments`).  If it reports no refusal, the tables exist, there are `n` of them,
    inside every member the table of ALL its keys (`unionTable`, sub-group entries and plain entries) is
    `Disjoint` — the hypothesis of `C05_exact_wins`, `C05_prefix`, `C05_order_independent` on the union
    table —, no key of one member (either container) clashes with a key of another member (either container),
    and the tables hold exactly the defined keys in definition order. -/
theorem C08_subgroup_accepted_history_disjoint (n : Nat) (defs : List (Nat × Bool × List Char))
    (hacc : groupDefineSeqT (List.replicate n ([], [])) defs 0 = none) :
    ∃ tables, groupDefineTablesT (List.replicate n ([], [])) defs = some tables ∧ tables.length = n ∧
      Tables2Disjoint tables ∧
      ∀ m, m < n →
        (tables.getD m ([], [])).1.map (·.1) = definedKeysT defs m false ∧
        (tables.getD m ([], [])).2.map (·.1) = definedKeysT defs m true :=
  groupDefineSeqT_accepted_disjoint n defs hacc

/-- **… and a definition whose key clashes with any key defined before — in any container of any member —
    is refused with `std::invalid_argument` at that definition.**  (`fix:` b870f06: the pinned
    `Handler::addArgument( spec, subGroup, desc)` made no cross check, a sub-group key already used by another
    member was accepted; `fix:` 2dd61bc: the same key as plain and sub-group argument of one handler.) -/
theorem C08_subgroup_history_clash_refused (n : Nat) (defs pre post : List (Nat × Bool × List Char))
    (m : Nat) (isSub : Bool) (spec : List Char) (k : Key) (tables : List Tables2)
    (hdefs : defs = pre ++ (m, isSub, spec) :: post)
    (hpre : groupDefineTablesT (List.replicate n ([], [])) pre = some tables)
    (hk : Key.parse spec = .ok k)
    (hclash : ∃ (j : Nat) (t : Tables2), tables[j]? = some t ∧ ∃ e ∈ t.1 ++ t.2, e.1.Clash k) :
    groupDefineSeqT (List.replicate n ([], [])) defs 0 = some (.invalid_argument, pre.length) :=
  groupDefineSeqT_clash_refused n defs pre post m isSub spec k tables hdefs hpre hk hclash

-- member 0 defines the plain argument `x,xray`, member 1 the sub-group argument `x`: refused at definition 1
example : groupDefineSeqT [([], []), ([], [])]
    [(0, false, ['x', ',', 'x', 'r', 'a', 'y']), (1, true, ['x'])] 0 = some (.invalid_argument, 1) := by decide
-- an accepted history with a sub-group and a plain definition in one member
example : groupDefineSeqT [([], []), ([], [])]
    [(0, true, ['o', ',', 'o', 'u', 't', 'p', 'u', 't']), (0, false, ['o', 'u', 't']), (1, false, ['m'])] 0 = none := by
  decide

/-! ### non-vacuity: the group of `Lemmas/SubGroupsExamples.lean` (plain arguments in member 0, the
    mandatory sub-group argument `-s,--output` with cardinality range 1..2 in member 1) -/

-- `-m` alone: the mandatory sub-group argument is missing — refused by the single handler and by the
-- group, in both registration orders (seeded C08-3 accepted it through the group)
example : isRuntimeError (sgEval true ["-m"]) = true := by decide +kernel
example : isRuntimeError (sgGroup true [0, 1] ["-m"]) = true ∧ isRuntimeError (sgGroup true [1, 0] ["-m"]) = true := by
  decide +kernel
-- `-m -s -a`: accepted by both; the sub handler's mandatory `-n` is NOT enforced
example : (sgEval true ["-m", "-s", "-a"]).isOk = true ∧ (sgGroup true [1, 0] ["-m", "-s", "-a"]).isOk = true := by
  decide +kernel
-- three uses of `-s` exceed the cardinality maximum 2 in both
example : isRuntimeError (sgEval true ["-s", "-s", "-s"]) = true ∧
    isRuntimeError (sgGroup true [0, 1] ["-s", "-s", "-s"]) = true := by decide +kernel
-- the sub-group's destinations through the group = through the single handler (`-s -l 1 2 -m -s -n 3`)
example : (match sgGroup true [0, 1] ["-s", "-l", "1", "2", "-m", "-s", "-n", "3"] with
    | .ok ms => ms.map (fun m => (m.2.main.args.map (·.dest), m.2.subs.map (fun h => h.args.map (·.dest))))
    | _ => []) = [([.flag true, .str []], []), ([], [[.flag false, .int 3, .vec [1, 2]]])] := by decide +kernel
example : sgView (sgEval true ["-s", "-l", "1", "2", "-m", "-s", "-n", "3"]) =
    some ([.flag true, .str []], [true], [[.flag false, .int 3, .vec [1, 2]]]) := by decide +kernel
-- member B defines the sub-group argument `-x` while member A owns the plain argument `-x`: refused
example : isInvalidArgument (crossCheckHandlers [] [⟨some 'x', []⟩] [⟨some 'x', []⟩] []) = true := by decide
-- an unknown key behind the sub-group key is refused (the pinned code skipped it: `fix:` 5c5d169)
example : isInvalidArgument (sgEval true ["-s", "--bogus"]) = true := by decide +kernel

/-- **Known finding `subgroup-mandatory-not-enforced`** (the unchanged tree, C02): `-m -s -a` is accepted by the
    single handler and through the group although `-n`, a *mandatory* argument of the handler behind the
    sub-group argument `-s`, is missing — while the same handler refuses a missing mandatory argument of its
    own (`-m` alone: `-s` is mandatory).  Consequence of `C02_sub_handler_end_checks_never_run`. -/
theorem C02_finding_sub_mandatory_not_enforced :
    (sgSub.args.any (fun d => d.mandatory && d.key == ⟨some 'n', "num".toList⟩)) = true ∧
    (sgEval true ["-m", "-s", "-a"]).isOk = true ∧ (sgGroup true [1, 0] ["-m", "-s", "-a"]).isOk = true ∧
    isRuntimeError (sgEval true ["-m"]) = true := by decide +kernel

end CelmaVerif.Props.C08s
