import CelmaVerif.Lemmas.SubGroupsEnd
import CelmaVerif.Lemmas.SubGroupsCons
import CelmaVerif.Lemmas.SubGroupsExamples
import CelmaVerif.Lemmas.SubGroupsCross
/-
  C08 (and the mandatory / cardinality clauses of C02) for member handlers with SUB-GROUP
  ARGUMENTS: the rules attached to a sub-group argument (mandatory flag, cardinality) are enforced
  at the end of `Groups::evalArguments` for every member exactly as at the end of
  `Handler::evalArguments` (`Handler::checkMissingMandatoryCardinality()` = both containers).
  Model: `Model/ProgArgs/SubGroups.lean`.
-/
namespace CelmaVerif.Props.C08s
open CelmaVerif CelmaVerif.Keys CelmaVerif.ProgArgs

/-- **Conservativity.**  Members without sub-group arguments are evaluated by `groupsEvalT` exactly
    as by `groupsEval`: same result, the members' (empty) sub-group parts added.  Every theorem of
    C08 about `groupsEval` therefore speaks about `groupsEvalT` on such groups. -/
theorem C08_subgroup_conservative (cfg : Cfg) (inits : List DVal) (am gm order : List Nat) (argv : List Word) :
    groupsEvalT { main := cfg } { main := inits } am [] gm order argv =
      mapRes treeMembers (groupsEval cfg inits am gm order argv) :=
  groupsEvalT_nil cfg inits am gm order argv

/-- **End checks through the group.**  If `Groups::evalArguments` returns, then for every member
    handler: mandatory/cardinality of its plain arguments, mandatory/cardinality of its SUB-GROUP
    arguments, the arguments still required by a constraint, and the end conditions of its handler
    constraints have all passed. -/
theorem C08_subgroup_end_checks (cfg : TCfg) (inits : TInits) (am sm gm order : List Nat) (argv : List Word)
    (ms : List (TCfg × TState)) (h : groupsEvalT cfg inits am sm gm order argv = .ok ms) :
    ∀ m ∈ ms, checkMandatoryCardinality m.1.main.args m.2.main.args = .ok () ∧
      checkSubMandatoryCardinality m.1.subs m.2.subArgs = .ok () ∧
      pendingCheckRequired m.2.main.pending = .ok () ∧
      checkGlobals m.1.main.args m.2.main.args m.1.main.globals m.2.main.globals = .ok () := by
  intro m hm
  exact (memberEndChecksT_ok_iff m.1 m.2).mp (groupsEvalT_end_checks cfg inits am sm gm order argv ms h m hm)

/-- **… identical to stand-alone evaluation.**  The final checks of `Handler::evalArguments` on a
    configuration and state return iff the member checks of `Groups` return on the same
    configuration and state (they then only forget the last argument), and they throw the same
    exception: on every state both paths enforce the same rules — in particular the mandatory flag
    and the cardinality of every sub-group argument. -/
theorem C08_subgroup_end_checks_standalone (cfg : TCfg) (t : TState) :
    (∀ t', endChecksT cfg t = .ok t' ↔
      t' = { t with main := { t.main with lastArg := none } } ∧ memberEndChecksT cfg t = .ok ()) ∧
    (∀ e, endChecksT cfg t = .throw e ↔ memberEndChecksT cfg t = .throw e) :=
  ⟨fun t' => endChecksT_ok_iff cfg t t', fun e => endChecksT_throw_iff cfg t e⟩

/-- **C02, stand-alone: an accepted command line used every mandatory sub-group argument and meets
    the end condition of every sub-group argument's cardinality.**  For every handler tree, state,
    sources and argv: if `evalArguments` returns, every sub-group argument `j` with the mandatory
    flag was identified at least once (`mWasCalled`), and `ICardinality::check()` passes on its
    counter (exact n: 0 or n uses; range lo..: 0 or ≥ lo uses). -/
theorem C02_subgroup_mandatory_cardinality (cfg : TCfg) (t t' : TState) (src : Sources) (argv : List Word)
    (h : evalArgumentsT cfg t src argv = .ok t') (j : Nat) (d : SubDef) (st : ArgSt)
    (hd : cfg.subs[j]? = some d) (hs : t'.subArgs[j]? = some st) :
    (d.mandatory = true → st.hasValueSet = true) ∧ d.card.check st.cnt = .ok () :=
  checkSub_ok cfg.subs t'.subArgs ((memberEndChecksT_ok_iff cfg t').mp (evalArgumentsT_end_checks cfg t t' src argv h)).2.1
    j d st hd hs

/-- **C08: the same through a group**, for every member and every sub-group argument it owns. -/
theorem C08_subgroup_mandatory_cardinality (cfg : TCfg) (inits : TInits) (am sm gm order : List Nat) (argv : List Word)
    (ms : List (TCfg × TState)) (h : groupsEvalT cfg inits am sm gm order argv = .ok ms)
    (m : TCfg × TState) (hm : m ∈ ms) (j : Nat) (d : SubDef) (st : ArgSt)
    (hd : m.1.subs[j]? = some d) (hs : m.2.subArgs[j]? = some st) :
    (d.mandatory = true → st.hasValueSet = true) ∧ d.card.check st.cnt = .ok () :=
  checkSub_ok m.1.subs m.2.subArgs (C08_subgroup_end_checks cfg inits am sm gm order argv ms h m hm).2.1 j d st hd hs

/-- **No end check of a SUB handler is ever run** (as coded: neither `Handler::evalArguments` nor
    `Groups::evalArguments` calls a function of the handler behind a sub-group argument at the end):
    the final checks do not depend on the sub handlers' configurations or states — mandatory
    arguments of a sub handler, its pending `requires` entries and the end conditions of its handler
    constraints are not enforced.  (Documented behaviour of the model = behaviour of the code; the
    tie replays it, see the example below.) -/
theorem C02_sub_handler_end_checks_never_run (cfg : TCfg) (t : TState) (subs' : List HState)
    (cfg' : TCfg) (hm : cfg'.main = cfg.main)
    (hk : cfg'.subs.map SubDef.argDef = cfg.subs.map SubDef.argDef) :
    memberEndChecksT cfg' { t with subs := subs' } = memberEndChecksT cfg t := by
  unfold memberEndChecksT checkSubMandatoryCardinality
  rw [hm, hk]

/-- **Defining the same key in two member handlers is refused — over both containers.**
    `Handler::crossCheckArguments` between two members returns iff no key of the one, plain or
    sub-group, clashes (same short key, same long key, or a contradicting pair) with a key of the
    other, plain or sub-group; otherwise it throws `std::invalid_argument`.  (It is run by
    `internAddArgument` and, since `fix:` b870f06, by the definition of a sub-group argument too.) -/
theorem C08_subgroup_cross_check (ownPlain ownSub otherPlain otherSub : List Key) :
    (crossCheckHandlers ownPlain ownSub otherPlain otherSub = .ok () ∧
      ∀ a ∈ ownPlain ++ ownSub, ∀ o ∈ otherPlain ++ otherSub, ¬ a.Clash o) ∨
    (crossCheckHandlers ownPlain ownSub otherPlain otherSub = .throw .invalid_argument ∧
      ∃ a ∈ ownPlain ++ ownSub, ∃ o ∈ otherPlain ++ otherSub, a.Clash o) :=
  crossCheckHandlers_cases ownPlain ownSub otherPlain otherSub

/-! ### non-vacuity: the group of `Lemmas/SubGroupsExamples.lean` (plain arguments in member 0, the
    mandatory sub-group argument `-s,--output` with cardinality range 1..2 in member 1) -/

-- `-m` alone: the mandatory sub-group argument is missing — refused by the single handler and by the
-- group, in both registration orders (seeded C08-3 accepted it through the group)
example : isRuntimeError (sgEval true ["-m"]) = true := by decide +kernel
example : isRuntimeError (sgGroup true [0, 1] ["-m"]) = true ∧ isRuntimeError (sgGroup true [1, 0] ["-m"]) = true := by
  decide +kernel
-- `-m -s -a`: accepted by both; the sub handler's mandatory `-n` is NOT enforced
example : (sgEval true ["-m", "-s", "-a"]).isOk = true ∧ (sgGroup true [1, 0] ["-m", "-s", "-a"]).isOk = true := by
  decide +kernel
-- three uses of `-s` exceed the cardinality maximum 2 in both
example : isRuntimeError (sgEval true ["-s", "-s", "-s"]) = true ∧
    isRuntimeError (sgGroup true [0, 1] ["-s", "-s", "-s"]) = true := by decide +kernel
-- the sub-group's destinations through the group = through the single handler (`-s -l 1 2 -m -s -n 3`)
example : (match sgGroup true [0, 1] ["-s", "-l", "1", "2", "-m", "-s", "-n", "3"] with
    | .ok ms => ms.map (fun m => (m.2.main.args.map (·.dest), m.2.subs.map (fun h => h.args.map (·.dest))))
    | _ => []) = [([.flag true, .str []], []), ([], [[.flag false, .int 3, .vec [1, 2]]])] := by decide +kernel
example : sgView (sgEval true ["-s", "-l", "1", "2", "-m", "-s", "-n", "3"]) =
    some ([.flag true, .str []], [true], [[.flag false, .int 3, .vec [1, 2]]]) := by decide +kernel
-- member B defines the sub-group argument `-x` while member A owns the plain argument `-x`: refused
example : isInvalidArgument (crossCheckHandlers [] [⟨some 'x', []⟩] [⟨some 'x', []⟩] []) = true := by decide
-- an unknown key behind the sub-group key is refused (the pinned code skipped it: `fix:` 5c5d169)
example : isInvalidArgument (sgEval true ["-s", "--bogus"]) = true := by decide +kernel

/-- **Known finding `subgroup-mandatory-not-enforced`** (the unchanged tree, C02): `-m -s -a` is accepted by the
    single handler and through the group although `-n`, a *mandatory* argument of the handler behind the
    sub-group argument `-s`, is missing — while the same handler refuses a missing mandatory argument of its
    own (`-m` alone: `-s` is mandatory).  Consequence of `C02_sub_handler_end_checks_never_run`. -/
theorem C02_finding_sub_mandatory_not_enforced :
    (sgSub.args.any (fun d => d.mandatory && d.key == ⟨some 'n', "num".toList⟩)) = true ∧
    (sgEval true ["-m", "-s", "-a"]).isOk = true ∧ (sgGroup true [1, 0] ["-m", "-s", "-a"]).isOk = true ∧
    isRuntimeError (sgEval true ["-m"]) = true := by decide +kernel

end CelmaVerif.Props.C08s
