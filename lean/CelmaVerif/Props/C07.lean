import CelmaVerif.Lemmas.ArgString
import CelmaVerif.Lemmas.ArgStringMem
/-
  C07 — arguments from a string, a file or the environment equal the same words on argv.

  This file holds the STRING-SPLITTING HALF ("splitting a command-line string into words inverts
  quoting") plus the memory safety of the argv array built from the words (shared with C04).
  The file / environment-source half is in Props/C07b.lean (`C07_sources_are_uses`, `C07_same_as_argv`,
  `C07_same_as_the_words_on_argv`, `C07_valid_line_through_sources`, `C07_override`,
  `C07_override_obeys`); what an accepted evaluation with sources obeys is
  `C02_parse_faithful_sources` / `C02_sound_sources_partial` in Props/C02b.lean.

  Property theorems only; helper lemmas are in Lemmas/ArgString.lean and Lemmas/ArgStringMem.lean.
-/
namespace CelmaVerif.Props.C07
open CelmaVerif CelmaVerif.ArgString

/-! ### splitting inverts quoting -/

/-- For every list of non-empty words over all characters: escape each word (a backslash before
    blank, `'`, `"` and backslash), join with single blanks, split — the result is the word list. -/
theorem C07_split_join (ws : List (List Char)) (h : ∀ w ∈ ws, w ≠ []) :
    splitString (joinSp (ws.map escape)) = ws := by
  have hq : AllQuotes (ws.map escape) ws := by
    induction ws with
    | nil => exact .nil
    | cons w ws ih => exact .cons (quotes_escape w) (ih (fun x hx => h x (by simp [hx])))
  simpa [splitString] using finish_run_join _ _ hq h {} clean_init rfl

/-- The same with the standard intercalation function instead of the model's `joinSp`. -/
theorem C07_split_intercalate (ws : List (List Char)) (h : ∀ w ∈ ws, w ≠ []) :
    splitString ([' '].intercalate (ws.map escape)) = ws := by
  rw [← joinSp_eq_intercalate]; exact C07_split_join ws h

/-- Quoted-segment generalisation: whenever `qs` are quoted spellings of the non-empty words `ws`
    (each a concatenation of plain characters, backslash pairs and `'…'` / `"…"` segments, see
    `Quotes`), splitting their blank-separated concatenation gives `ws`. -/
theorem C07_split_quoted (qs ws : List (List Char)) (h : AllQuotes qs ws) (hne : ∀ w ∈ ws, w ≠ []) :
    splitString (joinSp qs) = ws := by
  simpa [splitString] using finish_run_join _ _ h hne {} clean_init rfl

/-- Every way of quoting: each word independently written with backslashes, in single quotes or in
    double quotes (inside quotes only the quote character and the backslash are escaped). -/
theorem C07_split_styles (sws : List (Style × List Char)) (hne : ∀ p ∈ sws, p.2 ≠ []) :
    splitString (joinSp (sws.map fun p => render p.1 p.2)) = sws.map (·.2) := by
  apply C07_split_quoted
  · induction sws with
    | nil => exact .nil
    | cons p rest ih =>
      exact .cons (quotes_render p.1 p.2) (ih (fun x hx => hne x (by simp [hx])))
  · intro w hw
    simp only [List.mem_map] at hw
    obtain ⟨p, hp, rfl⟩ := hw
    exact hne p hp

/-- Blank runs: any number of blanks before each quoted word and one after it (so leading,
    trailing and repeated blanks) do not change the words. -/
theorem C07_split_blanks (pqs : List (Nat × List Char)) (ws : List (List Char))
    (h : AllQuotes (pqs.map (·.2)) ws) (hne : ∀ w ∈ ws, w ≠ []) :
    splitString (pqs.flatMap fun p => List.replicate p.1 ' ' ++ p.2 ++ [' ']) = ws := by
  have gen : ∀ (pqs : List (Nat × List Char)) (ws : List (List Char)),
      AllQuotes (pqs.map (·.2)) ws → (∀ w ∈ ws, w ≠ []) → ∀ s : St, s.Clean → s.currWord = [] →
      finish (run s (pqs.flatMap fun p => List.replicate p.1 ' ' ++ p.2 ++ [' '])) = s.arguments ++ ws := by
    intro pqs
    induction pqs with
    | nil =>
      intro ws h _ s _ he
      cases h
      simp [finish, he]
    | cons p rest ih =>
      intro ws h hne s hs he
      cases h with
      | @cons q w qs ws' hq hrest =>
        have hw : w ≠ [] := hne w (by simp)
        rw [List.flatMap_cons, List.append_assoc, List.append_assoc, run_append, run_spaces _ s hs he,
          List.singleton_append, run_word_space hq hw s hs he]
        rw [ih ws' hrest (fun x hx => hne x (by simp [hx])) { s with arguments := s.arguments ++ [w] } hs he]
        simp
  simpa [splitString] using gen pqs ws h hne {} clean_init rfl

/-! ### the argv array built from the words (also serves C04) -/

/-- `ArgString2Array( cmdLine)` for every string: no write outside the `new char*[]` array or outside
    a `new char[]` word copy (the model's checked writes never report `oob`), `argc` is the number of
    words, `argv[0..argc)` read back as the C strings of the words, `argv[argc]` is the null
    pointer, and the destructor only deletes pointers that came from `new[]`. -/
theorem C07_argv_safe1 (s : List Char) :
    ∃ a, makeArgArray1 s = .ok a ∧ a.argc = (splitString s).length ∧
      a.argv.length = a.argc + 1 ∧
      a.words = (splitString s).map (fun w => some (cstr w)) ∧
      a.terminated = true ∧ a.destroy = .ok () := by
  obtain ⟨a, h1, h2, h3, h4, h5⟩ :=
    copyArguments_ok (splitString s) 0 (List.replicate ((splitString s).length + 1) Slot.uninit) (by simp)
  simp only [Nat.zero_add, List.take_zero, List.nil_append, List.length_replicate] at h2 h3 h4
  refine ⟨a, h1, h2, by omega, ?_, ?_, ?_⟩
  · unfold ArgArray.words; rw [h4]; simp [slotOf_cstring]
  · unfold ArgArray.terminated; rw [h5]; rfl
  · unfold ArgArray.destroy
    rw [if_pos]
    refine ⟨by omega, ?_⟩
    rw [h4]; simp [slotOf_ne_uninit]

/-- `ArgString2Array( argstring, progname)` for every string and every program name (or the null
    pointer, which gives "programname"): as above, with the program name in `argv[0]`. -/
theorem C07_argv_safe2 (s : List Char) (progname : Option (List Char)) :
    ∃ a, makeArgArray2 s progname = .ok a ∧ a.argc = (splitString s).length + 1 ∧
      a.argv.length = a.argc + 1 ∧
      a.words = some (cstr (progname.getD defaultProgName)) :: (splitString s).map (fun w => some (cstr w)) ∧
      a.terminated = true ∧ a.destroy = .ok () := by
  have core : ∀ (p0 : Slot) (name : List Char), p0.cstring = some (cstr name) → (p0 != Slot.uninit) = true →
      ∃ a, (do let argv ← setSlot (List.replicate ((splitString s).length + 2) Slot.uninit) 0 p0 "ctor: mpArgV[0]"
               copyArguments 1 argv (splitString s)) = Res.ok a ∧
        a.argc = (splitString s).length + 1 ∧ a.argv.length = a.argc + 1 ∧
        a.words = some (cstr name) :: (splitString s).map (fun w => some (cstr w)) ∧
        a.terminated = true ∧ a.destroy = .ok () := by
    intro p0 name hc hu
    obtain ⟨a, h1, h2, h3, h4, h5⟩ := ctor2_tail (splitString s) p0
    refine ⟨a, h1, h2, by omega, ?_, ?_, ?_⟩
    · unfold ArgArray.words; rw [h4]; simp [slotOf_cstring, hc]
    · unfold ArgArray.terminated; rw [h5]; rfl
    · unfold ArgArray.destroy
      rw [if_pos]
      refine ⟨by omega, ?_⟩
      rw [h4]; simp [slotOf_ne_uninit, hu]
  cases progname with
  | none =>
    have := core (slotOf 12 defaultProgName) defaultProgName (slotOf_cstring _ _) (slotOf_ne_uninit _ _)
    unfold makeArgArray2
    simp only [newStrcpy_ok 12 defaultProgName _ (by decide), Res.bind_ok]
    simpa using this
  | some p =>
    have := core (slotOf ((cstr p).length + 1) p) p (slotOf_cstring _ _) (slotOf_ne_uninit _ _)
    unfold makeArgArray2
    simp only [newStrcpy_ok ((cstr p).length + 1) p _ (Nat.le_refl _), Res.bind_ok]
    simpa using this

/-- The allocation sizes are what make it safe: with one pointer less than words + terminator the
    model reports the out-of-bounds write (the `oob` outcome is reachable, the safety theorems are
    not vacuous). -/
theorem C07_argv_alloc_needed (args : List (List Char)) (argc : Nat) :
    ∃ w, copyArguments argc (List.replicate (argc + args.length) Slot.uninit) args = .oob w :=
  copyArguments_oob_of_short args argc _ (by simp)

/-- End to end: for non-empty words without NUL characters, a reader of the argv array built from
    the escaped and joined words sees exactly the words. -/
theorem C07_argv_roundtrip (ws : List (List Char)) (h : ∀ w ∈ ws, w ≠ []) (h0 : ∀ w ∈ ws, '\x00' ∉ w) :
    ∃ a, makeArgArray1 (joinSp (ws.map escape)) = .ok a ∧ a.argc = ws.length ∧ a.words = ws.map some := by
  obtain ⟨a, h1, h2, _, h4, _⟩ := C07_argv_safe1 (joinSp (ws.map escape))
  rw [C07_split_join ws h] at h2 h4
  refine ⟨a, h1, h2, ?_⟩
  rw [h4]
  apply List.map_congr_left
  intro w hw
  rw [cstr_of_no_nul w (h0 w hw)]

/-! ### non-vacuity -/

example : splitString "-a 'b c' d\\ e \"f'g\" ''".toList = ["-a".toList, "b c".toList, "d e".toList, "f'g".toList] := by
  decide
example : escape "a b'c\"d\\e".toList = "a\\ b\\'c\\\"d\\\\e".toList := by decide
example : Quotes "x'a b'\"c\"\\ ".toList "xa bc ".toList :=
  .plain 'x' rfl (.quoted '\'' (Or.inl rfl)
    (.plain 'a' (by decide) (by decide) (.plain ' ' (by decide) (by decide) (.plain 'b' (by decide) (by decide) .nil)))
    (.quoted '"' (Or.inr rfl) (.plain 'c' (by decide) (by decide) .nil) (.esc ' ' .nil)))
example : (makeArgArray2 "-v x".toList none).isOk = true := by decide
/-- tab is an ordinary character, an empty quoted string is no word, a trailing backslash is dropped -/
example : splitString "a\tb '' c\\".toList = ["a\tb".toList, "c".toList] := by decide

end CelmaVerif.Props.C07
