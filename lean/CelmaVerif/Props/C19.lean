import CelmaVerif.Lemmas.Buffers
/-
  C19 — buffered reading and writing preserve the byte stream for every chunking.
  Property theorems only; helper lemmas are in Lemmas/Buffers.lean.
-/
namespace CelmaVerif.Props.C19
open CelmaVerif CelmaVerif.Buffers

/-! ### writing -/

/-- Every history of appends/flushes on a fresh buffer of any size: no access outside the
    N-byte buffer or the caller's block (`ok`, never `oob`), at most N bytes buffered, and
    sink ++ buffered bytes is exactly what was appended, once and in order. -/
theorem C19_write_stream (N : Nat) (ops : List WOp) :
    ∃ b, (WBuf.new N).run ops = .ok b ∧ b.pos ≤ N ∧ b.buf.length = N ∧
      b.sink.flatten ++ b.buf.take b.pos = appended ops := by
  obtain ⟨b, h1, h2, h3, h4⟩ := WBuf.run_spec ops (WBuf.new N) (WBuf.new_inv N)
  have hN : b.N = N := by rw [h3]; rfl
  refine ⟨b, h1, by rw [← hN]; exact h2.2, by rw [← hN]; exact h2.1, ?_⟩
  have : (WBuf.new N).stream = [] := by simp [WBuf.stream, WBuf.new]
  rw [this] at h4
  simpa [WBuf.stream] using h4

/-- everything appended has reached the sink no later than the next flush -/
theorem C19_write_flush (N : Nat) (ops : List WOp) :
    ∃ b, (WBuf.new N).run (ops ++ [.flush]) = .ok b ∧ b.pos = 0 ∧ b.sink.flatten = appended ops := by
  obtain ⟨b, h1, h2, h3, h4⟩ := WBuf.run_spec ops (WBuf.new N) (WBuf.new_inv N)
  obtain ⟨b', g1, g2, g3, g4, g5, g6⟩ := WBuf.flush_spec b h2
  have hs := (WBuf.flush_stream b b' h2 g1).2
  refine ⟨b', ?_, g4, ?_⟩
  · have : ∀ (ops : List WOp) (a : WBuf) (c : WBuf), a.run ops = .ok c → a.run (ops ++ [.flush]) = c.flush := by
      intro ops
      induction ops with
      | nil => intro a c h; simp [WBuf.run] at h; cases h; simp [WBuf.run, WBuf.step]
               cases a.flush <;> rfl
      | cons op ops ih =>
        intro a c h
        simp only [WBuf.run, List.cons_append] at h ⊢
        cases hs : a.step op with
        | ok a' => rw [hs] at h; simp only [Res.bind_ok] at h ⊢; exact ih a' c h
        | throw e => rw [hs] at h; cases h
        | oob w => rw [hs] at h; cases h
    rw [this ops _ b h1, g1]
  · rw [hs, h4]; simp [WBuf.stream, WBuf.new]

/-- a block of at least N bytes is passed through unbuffered, after what was buffered -/
theorem C19_write_passthrough (b : WBuf) (h : b.Inv) (d : List Byte) (hd : d.length ≥ b.N) (hne : d ≠ []) :
    ∃ b', b.append d = .ok b' ∧ b'.pos = 0 ∧
      b'.sink = (if b.pos > 0 then b.sink ++ [b.buf.take b.pos] else b.sink) ++ [d] := by
  obtain ⟨bf, hf, _, _, hfp, _, hfs⟩ := WBuf.flush_spec b h
  have h0 : (d.length == 0) = false := by
    cases d with | nil => exact absurd rfl hne | cons _ _ => simp
  unfold WBuf.append
  simp only [h0, Bool.false_eq_true, if_false]
  rw [if_pos hd, hf]
  exact ⟨_, rfl, hfp, by simp [hfs]⟩

/-! ### reading -/

/-- the abstract reader: a byte stream and a size limit -/
def specGet (N : Nat) (stream : List Byte) (len : Nat) : List Byte × GetOut :=
  if len = 0 then (stream, .data [])
  else if len > N then (stream, .throw .runtime_error)       -- refused, nothing consumed
  else if len ≤ stream.length then (stream.drop len, .data (stream.take len))
  else (stream, .throw .eof)                                 -- source exhausted, nothing lost

def specRun (N : Nat) (stream : List Byte) : List Nat → List Byte × List GetOut
  | [] => (stream, [])
  | l :: ls =>
    let (s', o) := specGet N stream l
    let (s'', os) := specRun N s' ls
    (s'', o :: os)

theorem get_refines (r : RBuf) (len : Nat) (hI : r.Inv) :
    (r.get len).1.Inv ∧ (r.get len).1.N = r.N ∧
    ((r.get len).1.pending, (r.get len).2) = specGet r.N r.pending len := by
  obtain ⟨h1, h2, h3, h4, h5, h6⟩ := RBuf.get_spec r len hI
  refine ⟨h1, h2, ?_⟩
  unfold specGet
  by_cases h0 : len = 0
  · rw [if_pos h0, h3 h0]
  · rw [if_neg h0]
    by_cases hb : len > r.N
    · rw [if_pos hb, h4 hb]
    · rw [if_neg hb]
      by_cases hl : len ≤ r.pending.length
      · rw [if_pos hl]
        obtain ⟨e1, e2⟩ := h5 (by omega) (by omega) hl
        rw [e1, e2]
      · rw [if_neg hl]
        obtain ⟨e1, e2⟩ := h6 (by omega) (by omega) (by omega)
        rw [e1, e2]

/-- Refinement: for every buffer size, source content, source chunking and request sequence the
    outcomes of `get` are exactly those of the abstract reader on the source's byte stream —
    each successful request returns the next `len` bytes, in order, nothing skipped or repeated,
    whatever the chunking; requests larger than the buffer are refused without consuming anything.
    No outcome is `oob` (the abstract reader has none). -/
theorem C19_read_refines (N : Nat) (src : List Byte) (chunks : List Nat) (reqs : List Nat) :
    ((RBuf.new N src chunks).run reqs).2 = (specRun N src reqs).2 := by
  have gen : ∀ (reqs : List Nat) (r : RBuf), r.Inv →
      ((r.run reqs).1.pending, (r.run reqs).2) = specRun r.N r.pending reqs := by
    intro reqs
    induction reqs with
    | nil => intro r _; simp [RBuf.run, specRun]
    | cons l ls ih =>
      intro r hI
      obtain ⟨g1, g2, g3⟩ := get_refines r l hI
      have := ih (r.get l).1 g1
      simp only [RBuf.run, specRun]
      rw [← g3]
      simp only
      rw [g2] at this
      rw [← this]
  have := gen reqs (RBuf.new N src chunks) (RBuf.new_inv N src chunks)
  rw [RBuf.new_pending] at this
  have hN : (RBuf.new N src chunks).N = N := rfl
  rw [hN] at this
  rw [← this]

/-- the chunking is unobservable -/
theorem C19_read_chunking_independent (N : Nat) (src : List Byte) (c1 c2 : List Nat) (reqs : List Nat) :
    ((RBuf.new N src c1).run reqs).2 = ((RBuf.new N src c2).run reqs).2 := by
  rw [C19_read_refines, C19_read_refines]

/-- the bytes handed out plus the bytes still pending are always the original stream -/
theorem C19_read_stream (N : Nat) (src : List Byte) (reqs : List Nat) :
    returned (specRun N src reqs).2 ++ (specRun N src reqs).1 = src := by
  induction reqs generalizing src with
  | nil => simp [specRun, returned]
  | cons l ls ih =>
    simp only [specRun]
    unfold specGet
    split
    · simpa [returned] using ih src
    · split
      · simpa [returned] using ih src
      · split
        · have := ih (src.drop l)
          simp only [returned, List.append_assoc, this, List.take_append_drop]
        · simpa [returned] using ih src

/-- a request larger than the buffer is refused and the object is unchanged -/
theorem C19_read_refuse (r : RBuf) (len : Nat) (h : len > r.N) : r.get len = (r, .throw .runtime_error) := by
  unfold RBuf.get
  have : (len == 0) = false := by simp; omega
  simp [this, h]

/-! ### non-vacuity: concrete states meeting the hypotheses -/

example : (WBuf.new 4).Inv := WBuf.new_inv 4
example : ∃ b, (WBuf.new 4).run [.append [1,2,3], .append [4,5], .append [6,7,8,9,10], .flush] = .ok b
    ∧ b.sink = [[1,2,3],[4,5],[6,7,8,9,10]] := ⟨_, rfl, rfl⟩
example : returned ((RBuf.new 4 [1,2,3,4,5,6,7] [1,2,1]).run [3, 5, 2, 2, 4]).2 = [1,2,3,4,5,6,7] := by decide

end CelmaVerif.Props.C19
