import CelmaVerif.Lemmas.Buffers
import CelmaVerif.Lemmas.BuffersRun
/-
  C19 — buffered reading and writing preserve the byte stream for every chunking.
  Property theorems only; helper lemmas are in Lemmas/Buffers.lean.
-/
namespace CelmaVerif.Props.C19
open CelmaVerif CelmaVerif.Buffers

/-! ### writing -/

/-- Every history of appends/flushes on a fresh buffer of any size: no access outside the
    N-byte buffer or the caller's block (`ok`, never `oob`), at most N bytes buffered, and
    sink ++ buffered bytes is exactly what was appended, once and in order.  The reached state
    satisfies the invariant `Inv` (buffer length = N, write position ≤ N) and its size is still N,
    so the single-step theorems below apply to it. -/
theorem C19_write_stream (N : Nat) (ops : List WOp) :
    ∃ b, (WBuf.new N).run ops = .ok b ∧ b.Inv ∧ b.N = N ∧ b.pos ≤ N ∧ b.buf.length = N ∧
      b.sink.flatten ++ b.buf.take b.pos = appended ops := by
  obtain ⟨b, h1, h2, h3, h4⟩ := WBuf.reach N ops
  exact ⟨b, h1, h2, h3, by rw [← h3]; exact h2.2, by rw [← h3]; exact h2.1, h4⟩

/-- The same from ANY state satisfying the invariant (not only the fresh buffer): the history does
    not fail, the invariant and the size are preserved, and sink ++ buffered grows by exactly the
    appended bytes. -/
theorem C19_write_stream_from (b : WBuf) (h : b.Inv) (ops : List WOp) :
    ∃ b', b.run ops = .ok b' ∧ b'.Inv ∧ b'.N = b.N ∧
      b'.sink.flatten ++ b'.buf.take b'.pos = (b.sink.flatten ++ b.buf.take b.pos) ++ appended ops :=
  WBuf.run_spec ops b h

/-- everything appended has reached the sink no later than the next flush (after every history;
    the state after the flush again satisfies the invariant) -/
theorem C19_write_flush (N : Nat) (ops : List WOp) :
    ∃ b, (WBuf.new N).run (ops ++ [.flush]) = .ok b ∧ b.pos = 0 ∧ b.sink.flatten = appended ops ∧
      b.Inv ∧ b.N = N := by
  obtain ⟨b, h1, h2, h3, h4⟩ := WBuf.reach N ops
  obtain ⟨b', g1, g2, g3, g4, _, _⟩ := WBuf.flush_spec b h2
  have hs := (WBuf.flush_stream b b' h2 g1).2
  refine ⟨b', ?_, g4, by rw [hs, h4], g2, by rw [g3, h3]⟩
  rw [WBuf.run_snoc ops .flush _ b h1]; exact g1

/-- one flush on any invariant state: it succeeds, nothing stays buffered, and the sink then holds
    exactly what sink ++ buffer held before -/
theorem C19_write_flush_step (b : WBuf) (h : b.Inv) :
    ∃ b', b.flush = .ok b' ∧ b'.Inv ∧ b'.N = b.N ∧ b'.pos = 0 ∧
      b'.sink.flatten = b.sink.flatten ++ b.buf.take b.pos := by
  obtain ⟨b', g1, g2, g3, g4, _, _⟩ := WBuf.flush_spec b h
  exact ⟨b', g1, g2, g3, g4, (WBuf.flush_stream b b' h g1).2⟩

/-- a block of at least N bytes is passed through unbuffered, after what was buffered: the sink
    receives first the buffered bytes (one block, if there were any) and then the caller's block
    as it is; nothing stays buffered, the buffer memory is untouched, the invariant is kept -/
theorem C19_write_passthrough (b : WBuf) (h : b.Inv) (d : List Byte) (hd : d.length ≥ b.N) (hne : d ≠ []) :
    ∃ b', b.append d = .ok b' ∧ b'.pos = 0 ∧
      b'.sink = (if b.pos > 0 then b.sink ++ [b.buf.take b.pos] else b.sink) ++ [d] ∧
      b'.Inv ∧ b'.N = b.N ∧ b'.buf = b.buf := by
  obtain ⟨b', h1, h2, h3, h4, h5, h6⟩ := WBuf.append_big b h d hd hne
  exact ⟨b', h1, h4, h6, h2, h3, h5⟩

/-- Pass-through in every reachable state, no invariant hypothesis: after ANY history `ops` of
    appends/flushes on a fresh buffer of size N, appending a non-empty block of at least N bytes
    succeeds, leaves nothing buffered, and the sink is `pre ++ [d]` where `pre` — the earlier sink
    blocks followed by the block of bytes that were still buffered, if any — flattens to exactly
    everything appended before.  So the buffered bytes reach the sink before the oversized block,
    and the oversized block is handed over as one block, unchanged. -/
theorem C19_write_passthrough_reachable (N : Nat) (ops : List WOp) (d : List Byte)
    (hd : d.length ≥ N) (hne : d ≠ []) :
    ∃ b b' pre, (WBuf.new N).run ops = .ok b ∧ b.append d = .ok b' ∧
      (WBuf.new N).run (ops ++ [.append d]) = .ok b' ∧
      b'.pos = 0 ∧ b'.sink = pre ++ [d] ∧
      pre = (if b.pos > 0 then b.sink ++ [b.buf.take b.pos] else b.sink) ∧
      pre.flatten = appended ops ∧ b'.Inv ∧ b'.N = N := by
  obtain ⟨b, h1, h2, h3, h4⟩ := WBuf.reach N ops
  obtain ⟨b', g1, g2, g3, g4, _, g6⟩ := WBuf.append_big b h2 d (by rw [h3]; exact hd) hne
  refine ⟨b, b', _, h1, g1, ?_, g4, g6, rfl, ?_, g2, by rw [g3, h3]⟩
  · rw [WBuf.run_snoc ops (.append d) _ b h1]; exact g1
  · rw [WBuf.flushed_sink_flatten, h4]

/-! ### reading -/

/-- the abstract reader: a byte stream and a size limit -/
def specGet (N : Nat) (stream : List Byte) (len : Nat) : List Byte × GetOut :=
  if len = 0 then (stream, .data [])
  else if len > N then (stream, .throw .runtime_error)       -- refused, nothing consumed
  else if len ≤ stream.length then (stream.drop len, .data (stream.take len))
  else (stream, .throw .eof)                                 -- source exhausted, nothing lost

def specRun (N : Nat) (stream : List Byte) : List Nat → List Byte × List GetOut
  | [] => (stream, [])
  | l :: ls =>
    let (s', o) := specGet N stream l
    let (s'', os) := specRun N s' ls
    (s'', o :: os)

theorem get_refines (r : RBuf) (len : Nat) (hI : r.Inv) :
    (r.get len).1.Inv ∧ (r.get len).1.N = r.N ∧
    ((r.get len).1.pending, (r.get len).2) = specGet r.N r.pending len := by
  obtain ⟨h1, h2, h3, h4, h5, h6⟩ := RBuf.get_spec r len hI
  refine ⟨h1, h2, ?_⟩
  unfold specGet
  by_cases h0 : len = 0
  · rw [if_pos h0, h3 h0]
  · rw [if_neg h0]
    by_cases hb : len > r.N
    · rw [if_pos hb, h4 hb]
    · rw [if_neg hb]
      by_cases hl : len ≤ r.pending.length
      · rw [if_pos hl]
        obtain ⟨e1, e2⟩ := h5 (by omega) (by omega) hl
        rw [e1, e2]
      · rw [if_neg hl]
        obtain ⟨e1, e2⟩ := h6 (by omega) (by omega) (by omega)
        rw [e1, e2]

/-- Refinement from ANY reader state satisfying the invariant (buffer length = N,
    start ≤ stop ≤ N): for every request sequence the outcomes of `get` and the stream still to be
    delivered (unreturned buffered bytes ++ undelivered source bytes) are exactly those of the
    abstract reader started on the state's pending stream; the invariant and the size are kept. -/
theorem C19_read_refines_from (r : RBuf) (hI : r.Inv) (reqs : List Nat) :
    (r.run reqs).1.Inv ∧ (r.run reqs).1.N = r.N ∧
    ((r.run reqs).1.pending, (r.run reqs).2) = specRun r.N r.pending reqs := by
  induction reqs generalizing r with
  | nil => exact ⟨hI, rfl, by simp [RBuf.run, specRun]⟩
  | cons l ls ih =>
    obtain ⟨g1, g2, g3⟩ := get_refines r l hI
    obtain ⟨k1, k2, k3⟩ := ih (r.get l).1 g1
    simp only [RBuf.run, specRun]
    rw [← g3]
    simp only
    rw [g2] at k3
    rw [← k3]
    exact ⟨k1, by rw [k2, g2], rfl⟩

/-- Refinement including the state: on a fresh reader the outcomes AND the stream still to be
    delivered by the model equal those of the abstract reader, for every buffer size, source
    content, chunking and request sequence. -/
theorem C19_read_refines_state (N : Nat) (src : List Byte) (chunks : List Nat) (reqs : List Nat) :
    (((RBuf.new N src chunks).run reqs).1.pending, ((RBuf.new N src chunks).run reqs).2)
      = specRun N src reqs := by
  have := (C19_read_refines_from (RBuf.new N src chunks) (RBuf.new_inv N src chunks) reqs).2.2
  rw [RBuf.new_pending] at this
  exact this

/-- Refinement: for every buffer size, source content, source chunking and request sequence the
    outcomes of `get` are exactly those of the abstract reader on the source's byte stream —
    each successful request returns the next `len` bytes, in order, nothing skipped or repeated,
    whatever the chunking; requests larger than the buffer are refused without consuming anything.
    No outcome is `oob` (the abstract reader has none). -/
theorem C19_read_refines (N : Nat) (src : List Byte) (chunks : List Nat) (reqs : List Nat) :
    ((RBuf.new N src chunks).run reqs).2 = (specRun N src reqs).2 := by
  rw [← C19_read_refines_state N src chunks reqs]

/-- the chunking is unobservable -/
theorem C19_read_chunking_independent (N : Nat) (src : List Byte) (c1 c2 : List Nat) (reqs : List Nat) :
    ((RBuf.new N src c1).run reqs).2 = ((RBuf.new N src c2).run reqs).2 := by
  rw [C19_read_refines, C19_read_refines]

/-- the bytes handed out plus the bytes still pending are always the original stream -/
theorem C19_read_stream (N : Nat) (src : List Byte) (reqs : List Nat) :
    returned (specRun N src reqs).2 ++ (specRun N src reqs).1 = src := by
  induction reqs generalizing src with
  | nil => simp [specRun, returned]
  | cons l ls ih =>
    simp only [specRun]
    unfold specGet
    split
    · simpa [returned] using ih src
    · split
      · simpa [returned] using ih src
      · split
        · have := ih (src.drop l)
          simp only [returned, List.append_assoc, this, List.take_append_drop]
        · simpa [returned] using ih src

/-- Model-side stream theorem: for every buffer size, source content, chunking and request
    sequence (including 0-byte, oversized and past-the-end requests), the bytes returned by the
    model's `get`s, concatenated in order, followed by the bytes the model still holds (buffered
    but not yet handed out, then not yet read from the source) are exactly the source bytes:
    nothing is lost, duplicated or reordered, also across refused and failed requests. -/
theorem C19_read_stream_model (N : Nat) (src : List Byte) (chunks : List Nat) (reqs : List Nat) :
    returned ((RBuf.new N src chunks).run reqs).2 ++ ((RBuf.new N src chunks).run reqs).1.pending = src := by
  have h := C19_read_refines_state N src chunks reqs
  have h1 : ((RBuf.new N src chunks).run reqs).1.pending = (specRun N src reqs).1 := by rw [← h]
  have h2 : ((RBuf.new N src chunks).run reqs).2 = (specRun N src reqs).2 := by rw [← h]
  rw [h1, h2]; exact C19_read_stream N src reqs

/-- the bytes returned by the model's `get`s, concatenated, are a prefix of the source bytes -/
theorem C19_read_prefix (N : Nat) (src : List Byte) (chunks : List Nat) (reqs : List Nat) :
    returned ((RBuf.new N src chunks).run reqs).2 <+: src :=
  ⟨_, C19_read_stream_model N src chunks reqs⟩

/-- consecutive pieces of a stream with the given lengths -/
def cuts (s : List Byte) : List Nat → List (List Byte)
  | [] => []
  | l :: ls => s.take l :: cuts (s.drop l) ls

/-- Completeness: when no request exceeds the buffer size and the requests together do not ask
    for more than the source has, EVERY `get` of the model succeeds and returns the next piece of
    the source (the i-th result is the `lᵢ` source bytes after the first `l₁+…+lᵢ₋₁`), whatever
    the chunking; concatenated they are the first `Σ lᵢ` source bytes — the whole source when
    the requests add up to its length. -/
theorem C19_read_complete (N : Nat) (src : List Byte) (chunks : List Nat) (reqs : List Nat)
    (hN : ∀ l ∈ reqs, l ≤ N) (hsum : reqs.sum ≤ src.length) :
    ((RBuf.new N src chunks).run reqs).2 = (cuts src reqs).map GetOut.data ∧
    returned ((RBuf.new N src chunks).run reqs).2 = src.take reqs.sum ∧
    (reqs.sum = src.length → returned ((RBuf.new N src chunks).run reqs).2 = src) := by
  have gen : ∀ (reqs : List Nat) (s : List Byte), (∀ l ∈ reqs, l ≤ N) → reqs.sum ≤ s.length →
      (specRun N s reqs).2 = (cuts s reqs).map GetOut.data ∧
      returned ((cuts s reqs).map GetOut.data) = s.take reqs.sum := by
    intro reqs
    induction reqs with
    | nil => intro s _ _; simp [specRun, cuts, returned]
    | cons l ls ih =>
      intro s hN hsum
      have hl : l ≤ N := hN l (by simp)
      have hs : l + ls.sum ≤ s.length := by simpa using hsum
      have hg : specGet N s l = (s.drop l, .data (s.take l)) := by
        unfold specGet
        by_cases h0 : l = 0
        · subst h0; simp
        · rw [if_neg h0, if_neg (by omega), if_pos (by omega)]
      obtain ⟨i1, i2⟩ := ih (s.drop l) (fun x hx => hN x (by simp [hx])) (by simp; omega)
      constructor
      · simp only [specRun, hg, cuts, List.map_cons]
        rw [i1]
      · simp only [cuts, List.map_cons, returned, List.sum_cons]
        rw [i2, List.take_add]
  obtain ⟨g1, g2⟩ := gen reqs src hN hsum
  have h := C19_read_refines N src chunks reqs
  rw [h, g1]
  refine ⟨rfl, g2, fun he => ?_⟩
  rw [g2, he, List.take_length]

/-- a request larger than the buffer is refused and the object is unchanged -/
theorem C19_read_refuse (r : RBuf) (len : Nat) (h : len > r.N) : r.get len = (r, .throw .runtime_error) := by
  unfold RBuf.get
  have : (len == 0) = false := by simp; omega
  simp [this, h]

/-! ### non-vacuity: concrete states meeting the hypotheses -/

example : (WBuf.new 4).Inv := WBuf.new_inv 4
example : ∃ b, (WBuf.new 4).run [.append [1,2,3], .append [4,5], .append [6,7,8,9,10], .flush] = .ok b
    ∧ b.sink = [[1,2,3],[4,5],[6,7,8,9,10]] := ⟨_, rfl, rfl⟩
example : returned ((RBuf.new 4 [1,2,3,4,5,6,7] [1,2,1]).run [3, 5, 2, 2, 4]).2 = [1,2,3,4,5,6,7] := by decide

/-- a state in the middle of a history: size 4, two bytes `7 8` buffered (the stale
    byte 3 behind them is left from an earlier append), one block already written -/
def midState : WBuf := { N := 4, buf := [7, 8, 3, 0], pos := 2, sink := [[1, 2, 3]] }

/-- `C19_write_passthrough` with `pos > 0`: all hypotheses hold on `midState` with a 5-byte block … -/
example : midState.Inv ∧ midState.pos > 0 ∧ [9,10,11,12,13].length ≥ midState.N ∧ [9,10,11,12,13] ≠ ([] : List Byte) := by
  unfold WBuf.Inv; decide
/-- … and, evaluated, the buffered bytes `7 8` reach the sink BEFORE the oversized block, which
    arrives as one unchanged block; nothing stays buffered. -/
example : midState.append [9,10,11,12,13] =
    .ok { N := 4, buf := [7, 8, 3, 0], pos := 0, sink := [[1, 2, 3], [7, 8], [9, 10, 11, 12, 13]] } := rfl
/-- the theorem instantiated on that state gives the same sink -/
example : ∃ b', midState.append [9,10,11,12,13] = .ok b' ∧ b'.pos = 0 ∧
    b'.sink = [[1, 2, 3], [7, 8], [9, 10, 11, 12, 13]] := by
  obtain ⟨b', h1, h2, h3, _⟩ := C19_write_passthrough midState (by unfold WBuf.Inv; decide) [9,10,11,12,13] (by decide) (by decide)
  exact ⟨b', h1, h2, by rw [h3]; rfl⟩
/-- `midState` is reachable: the history form of the same fact (`C19_write_passthrough_reachable`
    with N = 4, ops = the two appends, d = the 5-byte block) -/
example : (WBuf.new 4).run [.append [1,2,3], .append [7,8]] = .ok midState := rfl
example : ∃ b', (WBuf.new 4).run ([.append [1,2,3], .append [7,8]] ++ [.append [9,10,11,12,13]]) = .ok b' ∧
    b'.pos = 0 ∧ b'.sink = [[1, 2, 3], [7, 8]] ++ [[9, 10, 11, 12, 13]] := ⟨_, rfl, rfl, rfl⟩
/-- a block of exactly N bytes is passed through too (`≥`, as in the code) -/
example : midState.append [9,10,11,12] =
    .ok { N := 4, buf := [7, 8, 3, 0], pos := 0, sink := [[1, 2, 3], [7, 8], [9, 10, 11, 12]] } := rfl
/-- `C19_write_stream_from` / `C19_write_flush_step` on a non-fresh invariant state -/
example : ∃ b', midState.run [.append [9], .flush, .append [10,11]] = .ok b' ∧
    b'.sink = [[1,2,3],[7,8,9]] ∧ b'.pos = 2 := ⟨_, rfl, rfl, rfl⟩

/-- The invariant hypothesis is load-bearing, not decoration: on a state that violates it
    (write position beyond the buffer) the checked model reports the access outside the buffer. -/
example : ({ N := 2, buf := [0, 0], pos := 3, sink := [] } : WBuf).flush = .oob "flush: read buffer" := rfl
example : ¬ ({ N := 2, buf := [0, 0], pos := 3, sink := [] } : WBuf).Inv := by unfold WBuf.Inv; decide

/-- `C19_read_complete`: hypotheses hold (requests 3,0,4 ≤ N = 4, sum 7 = source length) and every
    get succeeds with the next piece, for a 1-byte-ish chunking -/
example : (∀ l ∈ [3, 0, 4], l ≤ 4) ∧ [3, 0, 4].sum = [1,2,3,4,5,6,7].length := by decide
example : ((RBuf.new 4 [1,2,3,4,5,6,7] [1,2,1]).run [3, 0, 4]).2 = [.data [1,2,3], .data [], .data [4,5,6,7]] := rfl
/-- `C19_read_stream_model` with a refused (5 > N) and a failed (EOF) request in the history:
    returned ++ pending is still the source -/
example : returned ((RBuf.new 4 [1,2,3,4,5,6,7] [1,0,2]).run [3, 5, 2, 4]).2 = [1,2,3,4,5] ∧
    ((RBuf.new 4 [1,2,3,4,5,6,7] [1,0,2]).run [3, 5, 2, 4]).1.pending = [6,7] := by decide
/-- `C19_read_refines_from` on a non-fresh invariant state (two bytes buffered, window in the middle) -/
example : ({ N := 4, buf := [9, 5, 6, 9], start := 1, stop := 3, src := [7, 8], chunks := [1] } : RBuf).Inv := by unfold RBuf.Inv; decide
example : returned (({ N := 4, buf := [9, 5, 6, 9], start := 1, stop := 3, src := [7, 8], chunks := [1] } : RBuf).run [3, 1]).2
    = [5, 6, 7, 8] := by decide

end CelmaVerif.Props.C19
