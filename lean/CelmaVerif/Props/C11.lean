import CelmaVerif.Lemmas.FixedStringC11All
import CelmaVerif.Lemmas.FixedStringC11Dev
import CelmaVerif.Lemmas.FixedStringC11DevStep
import CelmaVerif.Lemmas.FixedStringC11DevNul
import CelmaVerif.Lemmas.FixedStringC11DevIt
import CelmaVerif.Lemmas.FixedStringC11DevStd
import CelmaVerif.Model.FixedStringAlias
/-
  C11 — a fixed-capacity string equals `std::string` cut off at the capacity.
  Property theorems only (helper lemmas: Lemmas/FixedStringC11*.lean).

  `abs s = s.buf.take s.len` is the text a fixed string holds.  `spec` (Model/FixedString.lean) maps every
  public operation to the textbook `std::string` result (`Model/StdString.lean`, validated against libstdc++
  on every run) on that text; `inDomain` is the documented domain.  `C11_step` is the property for the whole
  operation language (one constructor per public overload, delegations included); the theorems after it
  restate the central cases for the shared implementation functions in readable form.
-/
namespace CelmaVerif.Props.C11
open CelmaVerif CelmaVerif.FixedString

/-! ### every operation -/

/-- C11, one step of any public operation.  For every capacity (`CfgOK`: `L + 1` fits `size_t`, `L` fits the
    length type), every well-formed state of the three objects, every operation `op` of the operation language
    (≈ 140 overload shapes: constructors, assignment, insert ×10, erase ×5, push/pop, append ×14, sprintf,
    replace ×15, swap, element access, iteration in both directions, compare ×9, starts_with/ends_with/contains
    ×12, substr, copy, the six find families × 9 overloads, `==`, `!=`) whose arguments satisfy the caller
    contract (`ArgsOK`) and lie in the documented domain (`inDomain`): whenever the operation returns,
    `std::string` is defined on the same arguments, the text of the object afterwards is the `std::string`
    result cut off at the capacity (`t.take c.L`; observers leave the text unchanged), and the value returned is
    the value `std::string` returns (for the five overloads returning an iterator only the text is compared).
    Together with `C10_safe_wf` (the operation does return, or throws exactly where `at()` may) this is the
    refinement of the specification on the domain. -/
theorem C11_step (c cu : Cfg) (hc : CfgOK c) (w : World) (hw : WFW c cu w) (op : Op) (ha : ArgsOK c w op)
    (hd : inDomain (npos c) w op = true) :
    ∀ w' o, step c cu w op = .ok (w', o) →
      ∃ t o', spec id (npos c) w op = .ok (t, o') ∧ abs w'.s = t.take c.L ∧ (CmpOut op → o = o') :=
  c11_step hc hw op ha hd

/-- ... and along every history: after any sequence of operations on fresh objects (caller contract `HistOK`),
    the next operation with in-domain arguments again behaves like `std::string` cut at the capacity. -/
theorem C11_after_history (c cu : Cfg) (hc : CfgOK c) (hcu : CfgOK cu) (ops : List Op)
    (hh : HistOK c cu (World.init c cu) ops) :
    ∃ w, run c cu (World.init c cu) ops = .ok w ∧
      ∀ op, ArgsOK c w op → inDomain (npos c) w op = true → C11Holds c cu w op := by
  obtain ⟨w, h1, h2⟩ := run_wf hc hcu ops _ (init_wf c cu) hh
  exact ⟨w, h1, fun op ha hd => c11_step hc h2 op ha hd⟩

/-! ### self-aliasing sources (`s.insert( 1, s, 2, 1)`, `s.replace( 0, 2, s.c_str() + 1)`, …) -/

/-- the aliased world of a well-formed world is well-formed (the argument object holds a copy of `s`) -/
theorem C11_aliased_wf (c cu : Cfg) (w : World) (hw : WFW c cu w) : WFW c cu w.aliased :=
  ⟨hw.1, hw.1, hw.2.2⟩

/-- C11 for an operation whose `FixedString` / iterator-pair argument is the object itself (`stepAliased`, what
    the driver runs for a protocol line with the prefix `alias`): `std::string` is defined, and the text afterwards
    is the `std::string` result of the same operation applied to THE VALUE OF THE PRE-STATE (`spec` on
    `w.aliased`, whose argument object is a copy of `s`), cut off at the capacity; the returned value agrees; the
    real `t` is untouched.  Instance of `C11_step` at the aliased world — the content is the definition of
    `stepAliased`/`World.aliased` (value semantics, as `std::string` specifies aliasing arguments); that the REAL
    code behaves like this is not proved here but checked by the correspondence run (it does since the `fix:`
    commit that copies an aliasing source; before, `alias insert_ific 1 t 2 1` on "abc" gave "abbc"). -/
theorem C11_aliased_step (c cu : Cfg) (hc : CfgOK c) (w : World) (hw : WFW c cu w) (op : Op)
    (ha : ArgsOK c w.aliased op) (hd : inDomain (npos c) w.aliased op = true) :
    ∀ w' o, stepAliased c cu w op = .ok (w', o) →
      ∃ t o', spec id (npos c) w.aliased op = .ok (t, o') ∧ abs w'.s = t.take c.L ∧ (CmpOut op → o = o') ∧
        w'.t = w.t := by
  intro w' o h
  unfold stepAliased at h
  cases hs : step c cu w.aliased op with
  | ok p =>
    obtain ⟨w1, o1⟩ := p
    rw [hs] at h
    simp only [Res.ok.injEq, Prod.mk.injEq] at h
    obtain ⟨hw1, ho1⟩ := h
    obtain ⟨t, o', h1, h2, h3⟩ := C11_step c cu hc w.aliased (C11_aliased_wf c cu w hw) op ha hd w1 o1 hs
    subst hw1; subst ho1
    exact ⟨t, o', h1, h2, h3, rfl⟩
  | throw e => rw [hs] at h; cases h
  | oob wh => rw [hs] at h; cases h

/-- a `const char*` into the own buffer (`c_str() + k`, protocol token `self:<k>`) is, for the model, the pointer
    argument holding the text from position `k` and the terminator — by definition (`rfl`); the operation is then
    the ordinary pointer operation and `C11_step` applies to it unchanged. -/
theorem C11_self_pointer_value (s : FStr) (k : Nat) : selfPtr s k = (abs s).drop k ++ [0] := rfl

/-! ### modifying operations: content = std::string result cut at the capacity -/

/-- `insert( index, count, ch)` for every `index ≤ size()` and every `count`: the text afterwards is
    `std::string::insert`'s result (prefix, `count` copies of `ch`, rest) cut off at the capacity. -/
theorem C11_insert_chars (c : Cfg) (hc : CfgOK c) (s s' : FStr) (hs : WF c s) (index count ch : Nat)
    (hi : index ≤ s.len) (h : insertCh c s index count ch = .ok s') :
    StdString.insert (abs s) index (List.replicate count ch) =
      .ok ((abs s).take index ++ List.replicate count ch ++ (abs s).drop index) ∧
    abs s' = ((abs s).take index ++ List.replicate count ch ++ (abs s).drop index).take c.L := by
  refine ⟨?_, insertCh_abs hc hs index count ch hi h⟩
  unfold StdString.insert; rw [if_neg (by rw [abs_length hs]; omega)]

/-- `insert( index, str, count)` (and through it the overloads for C strings, `std::string`, other fixed
    strings, substrings and initializer lists): inserts the first `count` characters of `str`. -/
theorem C11_insert_text (c : Cfg) (hc : CfgOK c) (s s' : FStr) (hs : WF c s) (index : Nat) (a : List Byte)
    (count : Nat) (ha : count ≤ a.length) (hi : index ≤ s.len) (h : insertP c s index a count = .ok s') :
    abs s' = ((abs s).take index ++ a.take count ++ (abs s).drop index).take c.L :=
  insertP_abs hc hs index ha hi h

/-- `insert( index, std::string)`: the delegation passes `c_str()` and `length()` -/
theorem C11_insert_string (c : Cfg) (hc : CfgOK c) (s s' : FStr) (hs : WF c s) (index : Nat) (d : Str)
    (hi : index ≤ s.len) (h : insertS c s index d = .ok s') :
    abs s' = ((abs s).take index ++ d ++ (abs s).drop index).take c.L := by
  have := insertP_abs hc hs index (a := d ++ [0]) (count := d.length) (by simp) hi h
  rwa [List.take_left'  rfl] at this

/-- `erase( index, count)` for `index ≤ size()` and every `count` (also far beyond the end) -/
theorem C11_erase (c : Cfg) (hc : CfgOK c) (s s' : FStr) (hs : WF c s) (index count : Nat) (hi : index ≤ s.len)
    (h : FixedString.erase c s index count = .ok s') :
    StdString.erase (abs s) index count = .ok (abs s') := by
  unfold StdString.erase; rw [if_neg (by rw [abs_length hs]; omega), erase_abs hc hs index count hi h]

/-- `push_back( ch)`: appended, or dropped when the string is full -/
theorem C11_push_back (c : Cfg) (hc : CfgOK c) (s s' : FStr) (hs : WF c s) (ch : Byte)
    (h : pushBack c s ch = .ok s') : abs s' = (StdString.pushBack (abs s) ch).take c.L :=
  pushBack_abs hc hs ch h

/-- `pop_back()` on a non-empty string -/
theorem C11_pop_back (c : Cfg) (hc : CfgOK c) (s s' : FStr) (hs : WF c s) (hpos : s.len > 0)
    (h : popBack c s = .ok s') : abs s' = StdString.popBack (abs s) :=
  popBack_abs hc hs hpos h

/-- `clear()` -/
theorem C11_clear (c : Cfg) (s s' : FStr) (hs : WF c s) (h : clear s = .ok s') : abs s' = [] :=
  clear_abs hs h

/-- `appendImpl( str, pos, count)`, the common implementation of every `append` / `operator +=` overload:
    appends `str[pos, pos + count)`, cut off at the capacity. -/
theorem C11_append (c : Cfg) (hc : CfgOK c) (s s' : FStr) (hs : WF c s) (a : List Byte) (pos count : Nat)
    (ha : pos + count ≤ a.length) (h : appendImpl c s a pos count = .ok s') :
    abs s' = (StdString.append (abs s) ((a.drop pos).take count)).take c.L :=
  appendImpl_abs hc hs ha h

/-- `append( std::string)` / `operator +=( std::string)` -/
theorem C11_append_string (c : Cfg) (hc : CfgOK c) (s s' : FStr) (hs : WF c s) (d : Str)
    (h : appendS c s d = .ok s') : abs s' = (abs s ++ d).take c.L := by
  have := appendImpl_abs hc hs (a := d ++ [0]) (pos := 0) (count := d.length) (by simp) h
  rwa [List.drop_zero, List.take_left' rfl] at this

/-- `append( count, ch)` for every `count`, also `SIZE_MAX` -/
theorem C11_append_chars (c : Cfg) (hc : CfgOK c) (s s' : FStr) (hs : WF c s) (count ch : Nat)
    (h : appendCh c s count ch = .ok s') : abs s' = (abs s ++ List.replicate count ch).take c.L := by
  have hl := abs_length hs
  unfold appendCh at h
  split at h
  · rename_i hfull
    cases h
    rw [List.take_append_of_le_length (by omega), List.take_of_length_le (by omega)]
  · rename_i hne
    rw [C11_append_string c hc s s' hs _ h]
    apply List.ext_getElem?; intro i
    simp only [List.getElem?_take, List.getElem?_append, List.getElem?_replicate, hl]
    have := hs.2.1
    have : min count (c.L - s.len) ≤ count := Nat.min_le_left _ _
    have : min count (c.L - s.len) ≤ c.L - s.len := Nat.min_le_right _ _
    by_cases h1 : i < c.L
    · rw [if_pos h1, if_pos h1]
      by_cases h2 : i < s.len
      · rw [if_pos h2, if_pos h2]
      · rw [if_neg h2, if_neg h2]
        by_cases h3 : i - s.len < count
        · rw [if_pos h3, if_pos (by rw [Nat.min_def]; split <;> omega)]
        · rw [if_neg h3, if_neg (by omega)]
    · rw [if_neg h1, if_neg h1]

/-- `replaceImpl( pos1, count1, str, pos2, count2)`, the common implementation of every `replace` overload,
    for `pos1 ≤ size()` and every `count1`: the std::string result `prefix ++ str[pos2, pos2+count2) ++ rest`
    cut off at the capacity (new text and moved rest are both clamped). -/
theorem C11_replace (c : Cfg) (hc : CfgOK c) (s s' : FStr) (hs : WF c s) (pos1 count1 : Nat) (a : List Byte)
    (pos2 count2 : Nat) (hp : pos1 ≤ s.len) (ha : pos2 + count2 ≤ a.length)
    (h : replaceImpl c s pos1 count1 a pos2 count2 = .ok s') :
    StdString.replace (abs s) pos1 count1 ((a.drop pos2).take count2) =
      .ok ((abs s).take pos1 ++ (a.drop pos2).take count2 ++ (abs s).drop (pos1 + count1)) ∧
    abs s' = ((abs s).take pos1 ++ (a.drop pos2).take count2 ++ (abs s).drop (pos1 + count1)).take c.L := by
  refine ⟨?_, replaceImpl_abs hc hs pos1 count1 hp ha h⟩
  unfold StdString.replace; rw [if_neg (by rw [abs_length hs]; omega)]

/-- `replace( pos, count, std::string)` -/
theorem C11_replace_string (c : Cfg) (hc : CfgOK c) (s s' : FStr) (hs : WF c s) (pos count : Nat) (d : Str)
    (hp : pos ≤ s.len) (h : replaceS c s pos count d = .ok s') :
    abs s' = ((abs s).take pos ++ d ++ (abs s).drop (pos + count)).take c.L := by
  have := replaceImpl_abs hc hs pos count (a := d ++ [0]) (pos2 := 0) (count2 := d.length) hp (by simp) h
  rwa [List.drop_zero, List.take_left' rfl] at this

/-- `assign( std::string)` / `operator =` / the converting constructor -/
theorem C11_assign_string (c : Cfg) (hc : CfgOK c) (s s' : FStr) (hs : WF c s) (d : Str)
    (h : assignS c s d = .ok s') : abs s' = d.take c.L :=
  assignS_abs hc hs d h

/-- `assign( FixedString< S>)` for any other capacity `S` -/
theorem C11_assign_fixed (c co : Cfg) (hc : CfgOK c) (s s' o : FStr) (hs : WF c s) (ho : WF co o)
    (h : assignF c s o = .ok s') : abs s' = (abs o).take c.L :=
  assignF_abs hc hs ho h

/-- `sprintf`: the formatted text cut off at the capacity, also when its length does not fit into the
    length type -/
theorem C11_sprintf (c : Cfg) (hc : CfgOK c) (s s' : FStr) (hs : WF c s) (text : Str)
    (h : sprintf c s text = .ok s') : abs s' = text.take c.L :=
  sprintf_abs hc hs text h

/-- `sprintf` for both outcomes of the formatter: the formatted text cut off at the capacity, or — when a conversion
    fails and `vsnprintf` returns -1 (`Fmt.failed`, e.g. `%ls` with a wide character that is not representable in the
    locale) — the EMPTY string, whatever partial output the formatter left in the buffer.  The failing case is outside
    `inDomain` (there is no `std::string` operation to compare with and the header documents nothing); the empty
    string is the reference the correspondence run prints for it. -/
theorem C11_sprintf_formatter (c : Cfg) (hc : CfgOK c) (s s' : FStr) (hs : WF c s) (f : Fmt)
    (h : sprintfF c s f = .ok s') : abs s' = (match f with | .done t => t | .failed _ => []).take c.L :=
  sprintfF_abs hc hs f h

/-- `swap`: the two texts change places -/
theorem C11_swap (c : Cfg) (hc : CfgOK c) (s o : FStr) (hs : WF c s) (ho : WF c o) (p : FStr × FStr)
    (h : swap c s o = .ok p) : abs p.1 = abs o ∧ abs p.2 = abs s :=
  swap_abs hc hs ho h

/-! ### observing operations: the answer is std::string's answer -/

/-- `str()` -/
theorem C11_str (c : Cfg) (s : FStr) (hs : WF c s) : str s = .ok (abs s) := str_abs hs

/-- `at( idx)` inside the string returns the character, beyond the end both throw `out_of_range`
    (`idx = length()` is the documented exception: the fixed string returns the terminator) -/
theorem C11_at (c : Cfg) (s : FStr) (hs : WF c s) (idx : Nat) (h : idx ≠ s.len) :
    at_ s idx = StdString.at_ (abs s) idx := by
  by_cases hlt : idx < s.len
  · exact at_abs hs hlt
  · obtain ⟨h1, h2⟩ := at_throw hs (idx := idx) (by omega)
    rw [h1, h2]

/-- `substr( pos, count)` for `pos ≤ size()` and every `count` -/
theorem C11_substr (c : Cfg) (s : FStr) (hs : WF c s) (pos count : Nat) (hp : pos ≤ s.len) :
    FixedString.substr s pos count = StdString.substr (abs s) pos count := by
  rw [substr_abs hs pos count hp]
  unfold StdString.substr; rw [if_neg (by rw [abs_length hs]; omega)]

/-- `copy( dest, count, pos)`: the same characters and the same count as `std::string::copy` -/
theorem C11_copy (c : Cfg) (s : FStr) (hs : WF c s) (room count pos : Nat) (hp : pos ≤ s.len)
    (hr : min count (s.len - pos) ≤ room) :
    ∃ d, StdString.copy (abs s) count pos = .ok d ∧ FixedString.copy s room count pos = .ok (d.length, d) := by
  refine ⟨((abs s).drop pos).take count, ?_, copy_abs hs hp hr⟩
  unfold StdString.copy; rw [if_neg (by rw [abs_length hs]; omega)]

/-- `compare( str)` (fixed string, std::string, C string): the sign of the lexicographic comparison -/
theorem C11_compare (c : Cfg) (s : FStr) (hs : WF c s) (a : List Byte) (len : Nat) (ha : len ≤ a.length) :
    fullCompare s a len = .ok (StdString.compare (abs s) (a.take len)) :=
  fullCompare_abs hs ha

/-- `starts_with( str)` and `ends_with( str)` -/
theorem C11_starts_ends (c : Cfg) (s : FStr) (hs : WF c s) (a : List Byte) (n : Nat) (ha : n ≤ a.length) :
    startsWith s a n = .ok (StdString.startsWith (abs s) (a.take n)) ∧
    endsWith s a n = .ok (StdString.endsWith (abs s) (a.take n)) :=
  ⟨startsWith_abs hs ha, endsWith_abs hs ha⟩

/-- `==` is equality of the texts, `!=` its negation: equality and inequality are complementary -/
theorem C11_eq_ne (c co : Cfg) (s o : FStr) (hs : WF c s) (ho : WF co o) :
    eqOp s o = .ok (decide (abs s = abs o)) ∧ neOp s o = .ok (!decide (abs s = abs o)) :=
  ⟨eqOp_abs hs ho, neOp_abs hs ho⟩

/-- complementarity needs no well-formedness at all: whenever `==` answers `b`, `!=` answers `!b` -/
theorem C11_eq_ne_complementary (s o : FStr) (b : Bool) (h : eqOp s o = .ok b) : neOp s o = .ok (!b) := by
  unfold neOp; rw [h]; rfl

/-- forward iteration (`begin()`..`end()`, also through the const iterators) yields the text, reverse
    iteration (`rbegin()`..`rend()`) yields it backwards -/
theorem C11_iteration (c : Cfg) (hc : CfgOK c) (s : FStr) (hs : WF c s) :
    iterFwd c s = .ok (abs s) ∧ iterRev c s = .ok (abs s).reverse :=
  ⟨iterFwd_abs hc hs, iterRev_abs hc hs⟩

/-! ### outside the documented domain: what the code does where `inDomain` is false, next to `std::string`

  `inDomain` excludes three kinds of arguments.  (1) Arguments on which `std::string` itself is undefined or throws
  (`pos > size()`, unreadable `[p, p + n)`, `pop_back()` on an empty string, `operator[]` beyond `size()`,
  `erase( end())`) and the operations without a `std::string` counterpart (set-up of the source objects,
  FixedString's iterator arithmetic): `stdDefined = false`, nothing to compare.  (2) Arguments that violate the
  caller contract of the code although `std::string` accepts them: the four `(p, n)` overloads that call
  `strlen( p)` on a `p` without terminator (`C11_unterminated_count_outside_contract`).  (3) Arguments on which
  `std::string` is defined, the contract holds and `FixedString` answers differently: the eleven `DevKind`s.
  `C11_outside_domain_covered` proves that there is nothing else, and for every `DevKind` one theorem below states —
  for EVERY operation `op` with `devCase … op = some kind`, at the level of `step` — what the code answers and what
  the textbook answers.  All of (3) is pinned by tests of the baseline suite (src/library/common/test/
  test_fixed_string.cpp, lines quoted) or documented in the header, except `strchrNul`, `nulInIteratorSource` and
  `rfindCountZero`, which follow from the use of `strlen`/`strchr` on C strings (documented: "C string").
  None of these theorems is used by `C11_step`. -/

/-- **Nothing is excluded silently.**  For every operation outside `inDomain` that satisfies the caller contract
    of the code (`ArgsOK`) and on which `std::string` is defined (`stdDefined`: its own preconditions on pointers and
    iterator pairs hold and the textbook specification returns instead of throwing), one of the eleven deviation
    kinds applies (`devCase`, decidable).  `stdDefined` is not narrowed by hand: it is `stdReadable` (what the value
    level cannot see) and "`spec` returns". -/
theorem C11_outside_domain_covered (c : Cfg) (w : World) (op : Op) (hd : inDomain (npos c) w op = false)
    (ha : ArgsOK c w op) (hs : stdDefined (npos c) w op = true) : ∃ k, devCase (npos c) w op = some k := by
  have h := dev_cover op hd ha hs
  cases hq : devCase (npos c) w op with
  | some k => exact ⟨k, rfl⟩
  | none => rw [hq] at h; cases h

/-- (2) `append( p, n)`, `replace( pos, cnt, p, n)`, `compare( pos, cnt, p, n)`, `rfind( p, pos, n)` on a `p` without a
    terminator inside its allocation: the code calls `strlen( p)` and reads behind the allocation (model: `.oob`),
    although `std::string` needs `[p, p + n)` only.  This is why `ArgsOK` demands a terminator for these four. -/
theorem C11_unterminated_count_outside_contract (c cu : Cfg) (w : World) (a : List Byte) (h0 : (0 : Byte) ∉ a)
    (p n k : Nat) :
    (∃ x, step c cu w (.appendPC a k) = .oob x) ∧ (∃ x, step c cu w (.repCCPC p n a k) = .oob x) ∧
    (∃ x, step c cu w (.cmpCCPC p n a k) = .oob x) ∧
    (w.s.len ≠ 0 → ∃ x, step c cu w (.search .rfind (.ppc a p k)) = .oob x) := by
  have hz : ∀ (l : List Byte) (m : Nat), (0 : Byte) ∉ l → cstrlenAux l m = .oob "strlen" := by
    intro l
    induction l with
    | nil => intro m _; rfl
    | cons b bs ih =>
      intro m hm
      unfold cstrlenAux
      rw [if_neg (fun h => hm (by rw [h]; exact List.mem_cons_self)), ih _ (fun h => hm (List.mem_cons_of_mem _ h))]
  have hs : cstrlen a = .oob "strlen" := hz a 0 h0
  refine ⟨⟨"strlen", ?_⟩, ⟨"strlen", ?_⟩, ⟨"strlen", ?_⟩, fun hl => ⟨"strlen", ?_⟩⟩
  · simp only [step, appendPN, hs]; rfl
  · simp only [step, replacePN, hs]; rfl
  · simp only [step, hs]; rfl
  · simp only [step, searchStep, rfindPN, if_neg hl, hs]; rfl

/-- `at( length())` (and the const overload) returns the terminator (header: "If the given index is invalid, i.e.
    after the end of the string ..."; test `at` pins `at( length())`), `std::string::at( size())` throws. -/
theorem C11_deviation_at_length (c cu : Cfg) (w : World) (hw : WFW c cu w) (op : Op)
    (hk : devCase (npos c) w op = some .atLength) :
    step c cu w op = .ok (w, .byte 0) ∧ spec id (npos c) w op = .throw .out_of_range :=
  dev_step_atLength hw op hk

/-- A count that reaches behind the terminator of a C string (`n > strlen( p)`): `append( p, n)`,
    `replace( pos, cnt, p, n)`, `compare( pos, cnt, p, n)` and `rfind( p, pos, n)`.
    **`std::string`** takes the `n` bytes `[p, p + n)`, NUL and what follows included: its answer is the textbook
    function of the overload (`countOn`: append / replace / compare / rfind with the text as a parameter) on
    `a.take k`.  **The code** does exactly what the same call with `n = strlen( p)` does (`clampCount op`), the textbook
    answer of that call is the same function on `ofCStr a` (a different text), and whenever the clamped call lies in
    the domain the code's result IS that value: text cut at the capacity, returned value equal.
    Labelled: when the clamped call is not in the domain — `rfind( "\0x", 0, 2)` clamps to `rfind( p, 0, 0)`, kind
    `rfindCountZero`; `replace`/`compare` with `pos > size()`, where `std::string` throws — the code side is only
    "same as the clamped call", whose value is given by `C11_deviation_rfind_count_zero`.
    Header: "Appends a C string ... Number of characters from str". -/
theorem C11_deviation_count_beyond_terminator (c cu : Cfg) (hc : CfgOK c) (w : World) (hw : WFW c cu w) (op : Op)
    (hk : devCase (npos c) w op = some .countBeyondTerminator) :
    step c cu w op = step c cu w (clampCount op) ∧
    ∃ a k, countArg op = some (a, k) ∧ (StdString.ofCStr a).length < k ∧ a.take k ≠ StdString.ofCStr a ∧
      spec id (npos c) w op = countOn (abs w.s) (a.take k) op ∧
      spec id (npos c) w (clampCount op) = countOn (abs w.s) (StdString.ofCStr a) op ∧
      (ArgsOK c w (clampCount op) → inDomain (npos c) w (clampCount op) = true →
        ∀ w' o, step c cu w op = .ok (w', o) →
          ∃ t o', countOn (abs w.s) (StdString.ofCStr a) op = .ok (t, o') ∧ abs w'.s = t.take c.L ∧ o = o') := by
  obtain ⟨h1, a, k, h2, h3, h4⟩ := dev_step_countBeyondTerminator (c := c) (cu := cu) op hk
  obtain ⟨a', k', h2', h5, h6, h7⟩ := dev_spec_countBeyondTerminator hc hw op hk
  rw [h2] at h2'; cases h2'
  exact ⟨h1, a, k, h2, h3, h4, h5, h6, h7⟩

/-- `end()` — or an iterator built at a position `≥ size()`, which is `end()` too — as the position of the three
    iterator `insert` overloads: nothing is inserted and `end()` is returned (header: "pointing to end if the given
    position was invalid"; test lines 750-756, 1301-1309 "insert at end == insertz nothing");
    `std::string::insert( end(), ...)` appends the text (`insText op`). -/
theorem C11_deviation_insert_at_end (c cu : Cfg) (w : World) (hw : WFW c cu w) (op : Op)
    (hk : devCase (npos c) w op = some .insertAtEnd) :
    step c cu w op = .ok (w, .iter (itEnd c)) ∧ spec id (npos c) w op = .ok (abs w.s ++ insText op, .unit) :=
  dev_step_insertAtEnd hw op hk

/-- `end()` as the first iterator of a range to replace (all six iterator overloads): nothing happens (test lines
    2602-2608); `std::string::replace( end(), end(), r)` appends `r`. -/
theorem C11_deviation_range_from_end (c cu : Cfg) (w : World) (hw : WFW c cu w) (op : Op) (ha : ArgsOK c w op)
    (hs : stdDefined (npos c) w op = true) (hk : devCase (npos c) w op = some .rangeFromEnd) :
    ∃ f l r, repParts w op = some (f, l, r) ∧ step c cu w op = .ok (w, .unit) ∧
      spec id (npos c) w op = .ok (abs w.s ++ r, .unit) := by
  obtain ⟨f, l, r, h1, h2, h3, h4⟩ := dev_step_itRep hw op ha hs .rangeFromEnd trivial hk
  refine ⟨f, l, r, h1, h3, ?_⟩
  have hf : itPos (abs w.s) f = (abs w.s).length := by
    unfold itRepCase at h2
    split at h2
    · rename_i he; exact cover_actsEnd_pos he
    · split at h2
      · cases h2
      · split at h2 <;> cases h2
  have hle : itPos (abs w.s) f ≤ itPos (abs w.s) l := by
    have : (spec id (npos c) w op).isOk = true := by rw [h4]; rfl
    cases op <;> simp only [repParts] at h1 <;> try (cases h1; done)
    all_goals (cases h1; simp only [spec, isOk_if_throw, isOk_thenS, isOk_replace] at this; exact cover_le_of this)
  have hl : itPos (abs w.s) l = (abs w.s).length := by have := itPos_le (abs w.s) l; omega
  rw [h4, hf, hl, List.take_length, List.drop_length, List.append_nil]

/-- An empty range `[first, first)` as the part to replace (all six iterator overloads of `replace`): nothing
    happens (test lines 2594-2601 "replace a part using invalid iterators --> replaces nothing");
    `std::string::replace( first, first, r)` inserts `r` at `first`. -/
theorem C11_deviation_replace_empty_range (c cu : Cfg) (w : World) (hw : WFW c cu w) (op : Op) (ha : ArgsOK c w op)
    (hs : stdDefined (npos c) w op = true) (hk : devCase (npos c) w op = some .replaceEmptyRange) :
    ∃ f l r, repParts w op = some (f, l, r) ∧ itPos (abs w.s) l ≤ itPos (abs w.s) f ∧
      step c cu w op = .ok (w, .unit) ∧
      spec id (npos c) w op =
        .ok ((abs w.s).take (itPos (abs w.s) f) ++ r ++ (abs w.s).drop (itPos (abs w.s) l), .unit) := by
  obtain ⟨f, l, r, h1, h2, h3, h4⟩ := dev_step_itRep hw op ha hs .replaceEmptyRange trivial hk
  refine ⟨f, l, r, h1, ?_, h3, h4⟩
  unfold itRepCase at h2
  split at h2
  · cases h2
  · split at h2
    · assumption
    · split at h2 <;> cases h2

/-- An empty replacement text through the iterator overloads (`first2 == last2`, count 0, `""`, empty initializer
    list): nothing happens (test: `replace( it, end, "")` pinned); `std::string` erases the range. -/
theorem C11_deviation_replace_by_nothing (c cu : Cfg) (w : World) (hw : WFW c cu w) (op : Op) (ha : ArgsOK c w op)
    (hs : stdDefined (npos c) w op = true) (hk : devCase (npos c) w op = some .replaceByNothing) :
    ∃ f l, (∃ r, repParts w op = some (f, l, r) ∧ r = []) ∧ step c cu w op = .ok (w, .unit) ∧
      spec id (npos c) w op =
        .ok ((abs w.s).take (itPos (abs w.s) f) ++ (abs w.s).drop (itPos (abs w.s) l), .unit) := by
  obtain ⟨f, l, r, h1, h2, h3, h4⟩ := dev_step_itRep hw op ha hs .replaceByNothing trivial hk
  have hr : r = [] := by
    unfold itRepCase at h2
    split at h2
    · cases h2
    · split at h2
      · cases h2
      · split at h2
        · rename_i h; exact List.eq_nil_of_length_eq_zero h
        · cases h2
  refine ⟨f, l, ⟨r, h1, hr⟩, h3, ?_⟩
  rw [h4, hr, List.append_nil]

/-- `replace( first, last, first2, end())` where the text of the source behind `first2` contains a NUL character:
    the call returns (caller contract `ArgsOK`), the code measures the source with `strlen( &*first2)` and takes the
    characters up to that NUL only; `std::string` takes the whole range; the two replacement texts differ. -/
theorem C11_deviation_nul_in_iterator_source (c cu : Cfg) (hc : CfgOK c) (hcu : CfgOK cu) (w : World)
    (hw : WFW c cu w) (f l i j : ItArg) (ha : ArgsOK c w (.repItItItIt f l i j))
    (hk : devCase (npos c) w (.repItItItIt f l i j) = some .nulInIteratorSource) :
    (∃ w' o, step c cu w (.repItItItIt f l i j) = .ok (w', o) ∧
      abs w'.s = ((abs w.s).take (itPos (abs w.s) f) ++ StdString.ofCStr ((abs w.t).drop (itPos (abs w.t) i)) ++
                  (abs w.s).drop (itPos (abs w.s) l)).take c.L) ∧
    spec id (npos c) w (.repItItItIt f l i j) =
      .ok ((abs w.s).take (itPos (abs w.s) f) ++ (abs w.t).drop (itPos (abs w.t) i) ++
           (abs w.s).drop (itPos (abs w.s) l), .unit) ∧
    StdString.ofCStr ((abs w.t).drop (itPos (abs w.t) i)) ≠ (abs w.t).drop (itPos (abs w.t) i) := by
  obtain ⟨h1, h2, h3⟩ := dev_step_nulInIteratorSource hc hw f l i j hk
  obtain ⟨w', o, h⟩ := dev_returns_repItItItIt hc hcu hw f l i j ha
  exact ⟨⟨w', o, h, h1 w' o h⟩, h2, h3⟩

/-- Empty search strings and empty character sets: `contains` answers `false`, `find`, `rfind` and the four
    `find_*_of` families `npos`, for every content and every position (tests: 2232-2239 "always returns false for
    empty strings", 2966, 3142, 3240, 3429, 3638); `std::string` answers `true` for `contains( "")` and, for the
    searches, the textbook value of the family for the empty text (`emptyStd`; in closed form for each of the six
    families in `C11_std_empty_needle`). -/
theorem C11_deviation_empty_needle (c cu : Cfg) (w : World) (hw : WFW c cu w) (op : Op) (ha : ArgsOK c w op)
    (hk : devCase (npos c) w op = some .emptyNeedle) :
    step c cu w op = .ok (w, emptyOut op) ∧ spec id (npos c) w op = .ok (abs w.s, emptyStd c w op) :=
  ⟨dev_step_emptyNeedle hw op ha hk, dev_spec_emptyNeedle op hk⟩

/-- ... the textbook values: `std::string` finds the empty string everywhere: `contains( "")` is true,
    `find( "", pos) = pos`, `rfind( "", pos) = min( pos, size())`, `find_first_not_of( "", pos) = pos` inside the
    string, `find_last_not_of( "", pos) = min( pos, size() - 1)` on a non-empty string (`"abc".find_last_not_of( "")`
    is 2, the code answers `npos`); `find_first_of( "")` and `find_last_of( "")` are `npos` there too (there the code
    agrees). -/
theorem C11_std_empty_needle (x : Str) (pos : Nat) :
    StdString.contains x [] = true ∧ (pos ≤ x.length → StdString.find x [] pos = some pos) ∧
    StdString.rfind x [] pos = some (min pos x.length) ∧
    (pos < x.length → StdString.findFirstNotOf x [] pos = some pos) ∧ StdString.findFirstOf x [] pos = none ∧
    StdString.findLastNotOf x [] pos = (if 0 < x.length then some (min pos (x.length - 1)) else none) ∧
    StdString.findLastOf x [] pos = none :=
  ⟨std_contains_empty x, std_find_empty x pos, std_rfind_empty x pos, std_ffno_empty x pos, std_ffo_empty x pos,
   std_flno_empty x pos, std_flo_empty x pos⟩

/-- `rfind( p, pos, 0)`: `npos` on an empty string and for `p == ""`, otherwise `min( pos, size())` — which is what
    `std::string::rfind( p, pos, 0)` answers in every case. -/
theorem C11_deviation_rfind_count_zero (c cu : Cfg) (hc : CfgOK c) (w : World) (hw : WFW c cu w) (op : Op)
    (ha : ArgsOK c w op) (hk : devCase (npos c) w op = some .rfindCountZero) :
    ∃ a p, op = .search .rfind (.ppc a p 0) ∧
      step c cu w op = .ok (w, .pos (if w.s.len = 0 ∨ a.head? = some 0 then none else some (min p w.s.len))) ∧
      spec id (npos c) w op = .ok (abs w.s, .pos (some (min p (abs w.s).length))) :=
  dev_step_rfindCountZero hc hw op ha hk

/-- Backward searches with an explicit start position at or behind the end (other than `npos`; for the
    `( str, pos, count)` overloads of `find_last_of` / `find_last_not_of` also `npos`, and since fix 3448a31 also
    `pos == size()`): `rfind( ch, pos)`, `find_last_of` and `find_last_not_of` answer `npos` (tests: 3301
    `rfind( 'l', 20) == npos` on a string of length 20, 3595, 3621).  `std::string` clamps the position: the answer
    is the textbook value of the family for the start position `npos` (explicit, third conjunct) — which the code
    gives for `npos` only (`C11_step`).  `hsz`: the position is a `size_t`. -/
theorem C11_deviation_backward_beyond_end (c cu : Cfg) (hc : CfgOK c) (w : World) (hw : WFW c cu w) (fam : Fam)
    (nd : Needle) (ha : ArgsOK c w (.search fam nd)) (hsz : needlePos (npos c) nd < c.W)
    (hk : devCase (npos c) w (.search fam nd) = some .backwardBeyondEnd) :
    step c cu w (.search fam nd) = .ok (w, .pos none) ∧ (abs w.s).length ≤ needlePos (npos c) nd ∧
    spec id (npos c) w (.search fam nd) =
      .ok (abs w.s, .pos (famStd fam (abs w.s) (needleText w nd) (npos c))) :=
  ⟨(dev_step_backwardBeyondEnd hc hw fam nd ha hsz hk).1, (dev_step_backwardBeyondEnd hc hw fam nd ha hsz hk).2.1,
   dev_spec_backwardBeyondEnd hc hw fam nd ha hsz hk⟩

/-- The strchr-based character-class searches (`find_first_of`, `find_first_not_of`, `find_last_of`,
    `find_last_not_of` with a FixedString, `std::string` or C-string argument) on a content or a set with an embedded
    NUL: the answer is the textbook answer for the set `ofCStr pat ++ [0]` — the set ends at its first NUL, and NUL
    belongs to every set (`strchr( str, '\0')` finds the terminator).  Holds for every content.  `std::string`
    answers the same family function for the set as given, embedded NULs being ordinary characters (second conjunct;
    the two differ e.g. for `find_first_not_of( "x")` on `"a\0c"` from position 1: code 2, `std::string` 1). -/
theorem C11_deviation_strchr_nul (c cu : Cfg) (hc : CfgOK c) (w : World) (hw : WFW c cu w) (fam : Fam) (nd : Needle)
    (ha : ArgsOK c w (.search fam nd)) (hk : devCase (npos c) w (.search fam nd) = some .strchrNul) :
    step c cu w (.search fam nd) =
      .ok (w, .pos (famStd fam (abs w.s) (StdString.ofCStr (needleText w nd) ++ [0]) (needlePos (famDflt c fam) nd))) ∧
    spec id (npos c) w (.search fam nd) =
      .ok (abs w.s, .pos (famStd fam (abs w.s) (needleText w nd) (needlePos (famDflt c fam) nd))) :=
  ⟨dev_step_strchrNul hc hw fam nd ha hk, spec_search c w fam nd⟩

/-! ### the hypotheses are satisfiable, the statements are not vacuous -/

example : WF ⟨4, 2 ^ 64, 256⟩ ⟨[97, 98, 99, 0, 7], 3⟩ := by decide
/-- `inDomain` and `ArgsOK` are satisfiable for a mutator with a non-trivial effect: `replace( 1, 1, "XYZ")` -/
example : inDomain (npos ⟨4, 2 ^ 64, 256⟩) ⟨⟨[97, 98, 99, 0, 7], 3⟩, fresh ⟨4, 2 ^ 64, 256⟩, fresh ⟨9, 2 ^ 64, 256⟩⟩
    (.repCCP 1 1 [88, 89, 90, 0]) = true := by decide
/-- replacing 1 character by 3 in a string of capacity 4: "abc" -> "aXYZ" (the std::string result "aXYZc" cut) -/
example : replaceImpl ⟨4, 2 ^ 64, 256⟩ ⟨[97, 98, 99, 0, 7], 3⟩ 1 1 [88, 89, 90, 0] 0 3 = .ok ⟨[97, 88, 89, 90, 0], 4⟩ := by
  rfl
example : eqOp ⟨[97, 98, 0, 0], 2⟩ ⟨[97, 99, 0], 2⟩ = .ok false := by rfl
example : neOp ⟨[97, 98, 0, 0], 2⟩ ⟨[97, 99, 0], 2⟩ = .ok true := by rfl
example : iterRev ⟨4, 2 ^ 64, 256⟩ ⟨[97, 98, 99, 0, 7], 3⟩ = .ok [99, 98, 97] := by rfl

/-- the count restriction is not vacuous: `append( "xy\0zz", 5)` — the code appends "xy", the textbook 5 bytes -/
example : appendPN ⟨4, 2 ^ 64, 256⟩ ⟨[97, 0, 0, 0, 0], 1⟩ [120, 121, 0, 122, 122] 5 = .ok ⟨[97, 120, 121, 0, 0], 3⟩ := by
  rfl
example : (StdString.ofCStr [120, 121, 0, 122, 122]).length < 5 := by decide
example : inDomain (npos ⟨4, 2 ^ 64, 256⟩) ⟨⟨[97, 0, 0, 0, 0], 1⟩, fresh ⟨4, 2 ^ 64, 256⟩, fresh ⟨9, 2 ^ 64, 256⟩⟩
    (.appendPC [120, 121, 0, 122, 122] 5) = false := by decide
example : inDomain (npos ⟨4, 2 ^ 64, 256⟩) ⟨⟨[97, 0, 0, 0, 0], 1⟩, fresh ⟨4, 2 ^ 64, 256⟩, fresh ⟨9, 2 ^ 64, 256⟩⟩
    (.appendPC [120, 121, 0, 122, 122] 2) = true := by decide
/-- `actsEnd` holds for `end()` and for an iterator built at `size()` -/
example : actsEnd (abs ⟨[97, 98, 99, 0, 7], 3⟩) (.pos 3) = true ∧ actsEnd (abs ⟨[97, 98, 99, 0, 7], 3⟩) .fin = true := by
  decide
/-- backward search behind the end: `rfind( 'c', 3)` on "abc" is `npos`, `std::string` answers 2 -/
example : rfindCh ⟨4, 2 ^ 64, 256⟩ ⟨[97, 98, 99, 0, 7], 3⟩ 99 3 = .ok none ∧ StdString.rfind [97, 98, 99] [99] 3 = some 2 :=
  ⟨rfl, by decide⟩

/-! #### the complement of the domain: the hypotheses of the coverage and deviation theorems are satisfiable -/

/-- the second audit's witness `FixedString( "abc").find_last_not_of( "x", 3, 1)`: outside the domain, `std::string`
    defined (2), caller contract fine; the pinned code answered 3 = `size()`, since fix 3448a31 it answers `npos` like
    the sibling overloads, and the case falls under `backwardBeyondEnd` -/
example : inDomain (npos ⟨4, 2 ^ 64, 256⟩) ⟨⟨[97, 98, 99, 0, 7], 3⟩, fresh ⟨4, 2 ^ 64, 256⟩, fresh ⟨9, 2 ^ 64, 256⟩⟩
      (.search .flno (.ppc [120, 0] 3 1)) = false ∧
    stdDefined (npos ⟨4, 2 ^ 64, 256⟩) ⟨⟨[97, 98, 99, 0, 7], 3⟩, fresh ⟨4, 2 ^ 64, 256⟩, fresh ⟨9, 2 ^ 64, 256⟩⟩
      (.search .flno (.ppc [120, 0] 3 1)) = true ∧
    devCase (npos ⟨4, 2 ^ 64, 256⟩) ⟨⟨[97, 98, 99, 0, 7], 3⟩, fresh ⟨4, 2 ^ 64, 256⟩, fresh ⟨9, 2 ^ 64, 256⟩⟩
      (.search .flno (.ppc [120, 0] 3 1)) = some .backwardBeyondEnd := by decide
example : ArgsOK ⟨4, 2 ^ 64, 256⟩ ⟨⟨[97, 98, 99, 0, 7], 3⟩, fresh ⟨4, 2 ^ 64, 256⟩, fresh ⟨9, 2 ^ 64, 256⟩⟩
    (.search .flno (.ppc [120, 0] 3 1)) := ⟨by decide, by decide⟩
example : findLastOfPN ⟨[97, 98, 99, 0, 7], 3⟩ [120, 0] 3 1 true = .ok none ∧
    StdString.findLastNotOf [97, 98, 99] [120] 3 = some 2 := ⟨rfl, by decide⟩
/-- `rfind( '\0')` is inside the domain since fix 26f1f28 and answers `npos` like `std::string` (before: 3) -/
example : inDomain (npos ⟨4, 2 ^ 64, 256⟩) ⟨⟨[97, 98, 99, 0, 7], 3⟩, fresh ⟨4, 2 ^ 64, 256⟩, fresh ⟨9, 2 ^ 64, 256⟩⟩
    (.search .rfind (.c 0 none)) = true := by decide
example : rfindCh ⟨4, 2 ^ 64, 256⟩ ⟨[97, 98, 99, 0, 7], 3⟩ 0 (npos ⟨4, 2 ^ 64, 256⟩) = .ok none ∧
    StdString.rfind [97, 98, 99] [0] (npos ⟨4, 2 ^ 64, 256⟩) = none := ⟨rfl, by decide⟩
/-- `operator<<` on a content with a stored NUL (`"a\0c"`, third audit): inside the domain; since fix 7351acb the
    code writes all three characters like `std::string` (before: `c_str()`, one character) -/
example : inDomain (npos ⟨4, 2 ^ 64, 256⟩) ⟨⟨[97, 0, 99, 0, 7], 3⟩, fresh ⟨4, 2 ^ 64, 256⟩, fresh ⟨9, 2 ^ 64, 256⟩⟩
    .stream = true := by decide
example : streamView ⟨[97, 0, 99, 0, 7], 3⟩ = .ok [97, 0, 99] ∧ cstrView ⟨[97, 0, 99, 0, 7], 3⟩ = .ok [97] ∧
    spec id (npos ⟨4, 2 ^ 64, 256⟩) ⟨⟨[97, 0, 99, 0, 7], 3⟩, fresh ⟨4, 2 ^ 64, 256⟩, fresh ⟨9, 2 ^ 64, 256⟩⟩ .stream =
      .ok ([97, 0, 99], .bytes [97, 0, 99]) := ⟨rfl, rfl, rfl⟩
/-- the two sides of `C11_deviation_strchr_nul` differ: `find_first_not_of( std::string( "x"), 1)` on `"a\0c"` -/
example : famStd .ffno [97, 0, 99] (StdString.ofCStr [120] ++ [0]) 1 = some 2 ∧ famStd .ffno [97, 0, 99] [120] 1 = some 1 := by
  decide
/-- the one empty-needle call where code and `std::string` differ on a value: `"abc".find_last_not_of( "")` -/
example : StdString.findLastNotOf [97, 98, 99] [] (npos ⟨4, 2 ^ 64, 256⟩) = some 2 := by
  rw [(C11_std_empty_needle _ _).2.2.2.2.2.1]; decide
/-- `erase( it, it)` on a dereferenceable `it` and an explicit `npos` as position are inside the domain now -/
example : inDomain (npos ⟨4, 2 ^ 64, 256⟩) ⟨⟨[97, 98, 99, 0, 7], 3⟩, fresh ⟨4, 2 ^ 64, 256⟩, fresh ⟨9, 2 ^ 64, 256⟩⟩
    (.eraseItIt (.pos 1) (.pos 1)) = true := by decide
/-- one witness per deviation kind (the `devCase` hypotheses of the theorems above are satisfiable) -/
example :
    let c : Cfg := ⟨4, 2 ^ 64, 256⟩
    let w : World := ⟨⟨[97, 0, 99, 0, 7], 3⟩, ⟨[120, 0, 121, 0, 7], 3⟩, fresh ⟨9, 2 ^ 64, 256⟩⟩
    devCase (npos c) w (.atI 3) = some .atLength ∧
    devCase (npos c) w (.appendPC [120, 0, 121] 3) = some .countBeyondTerminator ∧
    devCase (npos c) w (.insertItC .fin 120) = some .insertAtEnd ∧
    devCase (npos c) w (.repItItCC .fin .fin 1 120) = some .rangeFromEnd ∧
    devCase (npos c) w (.repItItCC (.pos 1) (.pos 1) 1 120) = some .replaceEmptyRange ∧
    devCase (npos c) w (.repItItCC (.pos 0) (.pos 1) 0 120) = some .replaceByNothing ∧
    devCase (npos c) w (.repItItItIt (.pos 0) (.pos 1) (.pos 0) .fin) = some .nulInIteratorSource ∧
    devCase (npos c) w (.ctS []) = some .emptyNeedle ∧
    devCase (npos c) w (.search .rfind (.ppc [120, 0] 1 0)) = some .rfindCountZero ∧
    devCase (npos c) w (.search .rfind (.c 99 (some 3))) = some .backwardBeyondEnd ∧
    devCase (npos c) w (.search .ffo (.s [120] none)) = some .strchrNul := by decide
/-- ... and the three hypotheses of the coverage theorem hold jointly for a non-trivial operation -/
example : ∃ k, devCase (npos ⟨4, 2 ^ 64, 256⟩)
    ⟨⟨[97, 98, 99, 0, 7], 3⟩, fresh ⟨4, 2 ^ 64, 256⟩, fresh ⟨9, 2 ^ 64, 256⟩⟩ (.repItItCC (.pos 1) (.pos 1) 2 120) = some k :=
  C11_outside_domain_covered _ _ _ (by decide) trivial (by decide)

end CelmaVerif.Props.C11
