import CelmaVerif.Lemmas.FixedStringC11All
/-
  C11 — a fixed-capacity string equals `std::string` cut off at the capacity.
  Property theorems only (helper lemmas: Lemmas/FixedStringC11*.lean).

  `abs s = s.buf.take s.len` is the text a fixed string holds.  `spec` (Model/FixedString.lean) maps every
  public operation to the textbook `std::string` result (`Model/StdString.lean`, validated against libstdc++
  on every run) on that text; `inDomain` is the documented domain.  `C11_step` is the property for the whole
  operation language (one constructor per public overload, delegations included); the theorems after it
  restate the central cases for the shared implementation functions in readable form.
-/
namespace CelmaVerif.Props.C11
open CelmaVerif CelmaVerif.FixedString

/-! ### every operation -/

/-- C11, one step of any public operation.  For every capacity (`CfgOK`: `L + 1` fits `size_t`, `L` fits the
    length type), every well-formed state of the three objects, every operation `op` of the operation language
    (≈ 140 overload shapes: constructors, assignment, insert ×10, erase ×5, push/pop, append ×14, sprintf,
    replace ×15, swap, element access, iteration in both directions, compare ×9, starts_with/ends_with/contains
    ×12, substr, copy, the six find families × 9 overloads, `==`, `!=`) whose arguments satisfy the caller
    contract (`ArgsOK`) and lie in the documented domain (`inDomain`): whenever the operation returns,
    `std::string` is defined on the same arguments, the text of the object afterwards is the `std::string`
    result cut off at the capacity (`t.take c.L`; observers leave the text unchanged), and the value returned is
    the value `std::string` returns (for the five overloads returning an iterator only the text is compared).
    Together with `C10_safe_wf` (the operation does return, or throws exactly where `at()` may) this is the
    refinement of the specification on the domain. -/
theorem C11_step (c cu : Cfg) (hc : CfgOK c) (w : World) (hw : WFW c cu w) (op : Op) (ha : ArgsOK c w op)
    (hd : inDomain (npos c) w op = true) :
    ∀ w' o, step c cu w op = .ok (w', o) →
      ∃ t o', spec id (npos c) w op = .ok (t, o') ∧ abs w'.s = t.take c.L ∧ (CmpOut op → o = o') :=
  c11_step hc hw op ha hd

/-- ... and along every history: after any sequence of operations on fresh objects (caller contract `HistOK`),
    the next operation with in-domain arguments again behaves like `std::string` cut at the capacity. -/
theorem C11_after_history (c cu : Cfg) (hc : CfgOK c) (hcu : CfgOK cu) (ops : List Op)
    (hh : HistOK c cu (World.init c cu) ops) :
    ∃ w, run c cu (World.init c cu) ops = .ok w ∧
      ∀ op, ArgsOK c w op → inDomain (npos c) w op = true → C11Holds c cu w op := by
  obtain ⟨w, h1, h2⟩ := run_wf hc hcu ops _ (init_wf c cu) hh
  exact ⟨w, h1, fun op ha hd => c11_step hc h2 op ha hd⟩

/-! ### modifying operations: content = std::string result cut at the capacity -/

/-- `insert( index, count, ch)` for every `index ≤ size()` and every `count`: the text afterwards is
    `std::string::insert`'s result (prefix, `count` copies of `ch`, rest) cut off at the capacity. -/
theorem C11_insert_chars (c : Cfg) (hc : CfgOK c) (s s' : FStr) (hs : WF c s) (index count ch : Nat)
    (hi : index ≤ s.len) (h : insertCh c s index count ch = .ok s') :
    StdString.insert (abs s) index (List.replicate count ch) =
      .ok ((abs s).take index ++ List.replicate count ch ++ (abs s).drop index) ∧
    abs s' = ((abs s).take index ++ List.replicate count ch ++ (abs s).drop index).take c.L := by
  refine ⟨?_, insertCh_abs hc hs index count ch hi h⟩
  unfold StdString.insert; rw [if_neg (by rw [abs_length hs]; omega)]

/-- `insert( index, str, count)` (and through it the overloads for C strings, `std::string`, other fixed
    strings, substrings and initializer lists): inserts the first `count` characters of `str`. -/
theorem C11_insert_text (c : Cfg) (hc : CfgOK c) (s s' : FStr) (hs : WF c s) (index : Nat) (a : List Byte)
    (count : Nat) (ha : count ≤ a.length) (hi : index ≤ s.len) (h : insertP c s index a count = .ok s') :
    abs s' = ((abs s).take index ++ a.take count ++ (abs s).drop index).take c.L :=
  insertP_abs hc hs index ha hi h

/-- `insert( index, std::string)`: the delegation passes `c_str()` and `length()` -/
theorem C11_insert_string (c : Cfg) (hc : CfgOK c) (s s' : FStr) (hs : WF c s) (index : Nat) (d : Str)
    (hi : index ≤ s.len) (h : insertS c s index d = .ok s') :
    abs s' = ((abs s).take index ++ d ++ (abs s).drop index).take c.L := by
  have := insertP_abs hc hs index (a := d ++ [0]) (count := d.length) (by simp) hi h
  rwa [List.take_left'  rfl] at this

/-- `erase( index, count)` for `index ≤ size()` and every `count` (also far beyond the end) -/
theorem C11_erase (c : Cfg) (hc : CfgOK c) (s s' : FStr) (hs : WF c s) (index count : Nat) (hi : index ≤ s.len)
    (h : FixedString.erase c s index count = .ok s') :
    StdString.erase (abs s) index count = .ok (abs s') := by
  unfold StdString.erase; rw [if_neg (by rw [abs_length hs]; omega), erase_abs hc hs index count hi h]

/-- `push_back( ch)`: appended, or dropped when the string is full -/
theorem C11_push_back (c : Cfg) (hc : CfgOK c) (s s' : FStr) (hs : WF c s) (ch : Byte)
    (h : pushBack c s ch = .ok s') : abs s' = (StdString.pushBack (abs s) ch).take c.L :=
  pushBack_abs hc hs ch h

/-- `pop_back()` on a non-empty string -/
theorem C11_pop_back (c : Cfg) (hc : CfgOK c) (s s' : FStr) (hs : WF c s) (hpos : s.len > 0)
    (h : popBack c s = .ok s') : abs s' = StdString.popBack (abs s) :=
  popBack_abs hc hs hpos h

/-- `clear()` -/
theorem C11_clear (c : Cfg) (s s' : FStr) (hs : WF c s) (h : clear s = .ok s') : abs s' = [] :=
  clear_abs hs h

/-- `appendImpl( str, pos, count)`, the common implementation of every `append` / `operator +=` overload:
    appends `str[pos, pos + count)`, cut off at the capacity. -/
theorem C11_append (c : Cfg) (hc : CfgOK c) (s s' : FStr) (hs : WF c s) (a : List Byte) (pos count : Nat)
    (ha : pos + count ≤ a.length) (h : appendImpl c s a pos count = .ok s') :
    abs s' = (StdString.append (abs s) ((a.drop pos).take count)).take c.L :=
  appendImpl_abs hc hs ha h

/-- `append( std::string)` / `operator +=( std::string)` -/
theorem C11_append_string (c : Cfg) (hc : CfgOK c) (s s' : FStr) (hs : WF c s) (d : Str)
    (h : appendS c s d = .ok s') : abs s' = (abs s ++ d).take c.L := by
  have := appendImpl_abs hc hs (a := d ++ [0]) (pos := 0) (count := d.length) (by simp) h
  rwa [List.drop_zero, List.take_left' rfl] at this

/-- `append( count, ch)` for every `count`, also `SIZE_MAX` -/
theorem C11_append_chars (c : Cfg) (hc : CfgOK c) (s s' : FStr) (hs : WF c s) (count ch : Nat)
    (h : appendCh c s count ch = .ok s') : abs s' = (abs s ++ List.replicate count ch).take c.L := by
  have hl := abs_length hs
  unfold appendCh at h
  split at h
  · rename_i hfull
    cases h
    rw [List.take_append_of_le_length (by omega), List.take_of_length_le (by omega)]
  · rename_i hne
    rw [C11_append_string c hc s s' hs _ h]
    apply List.ext_getElem?; intro i
    simp only [List.getElem?_take, List.getElem?_append, List.getElem?_replicate, hl]
    have := hs.2.1
    have : min count (c.L - s.len) ≤ count := Nat.min_le_left _ _
    have : min count (c.L - s.len) ≤ c.L - s.len := Nat.min_le_right _ _
    by_cases h1 : i < c.L
    · rw [if_pos h1, if_pos h1]
      by_cases h2 : i < s.len
      · rw [if_pos h2, if_pos h2]
      · rw [if_neg h2, if_neg h2]
        by_cases h3 : i - s.len < count
        · rw [if_pos h3, if_pos (by rw [Nat.min_def]; split <;> omega)]
        · rw [if_neg h3, if_neg (by omega)]
    · rw [if_neg h1, if_neg h1]

/-- `replaceImpl( pos1, count1, str, pos2, count2)`, the common implementation of every `replace` overload,
    for `pos1 ≤ size()` and every `count1`: the std::string result `prefix ++ str[pos2, pos2+count2) ++ rest`
    cut off at the capacity (new text and moved rest are both clamped). -/
theorem C11_replace (c : Cfg) (hc : CfgOK c) (s s' : FStr) (hs : WF c s) (pos1 count1 : Nat) (a : List Byte)
    (pos2 count2 : Nat) (hp : pos1 ≤ s.len) (ha : pos2 + count2 ≤ a.length)
    (h : replaceImpl c s pos1 count1 a pos2 count2 = .ok s') :
    StdString.replace (abs s) pos1 count1 ((a.drop pos2).take count2) =
      .ok ((abs s).take pos1 ++ (a.drop pos2).take count2 ++ (abs s).drop (pos1 + count1)) ∧
    abs s' = ((abs s).take pos1 ++ (a.drop pos2).take count2 ++ (abs s).drop (pos1 + count1)).take c.L := by
  refine ⟨?_, replaceImpl_abs hc hs pos1 count1 hp ha h⟩
  unfold StdString.replace; rw [if_neg (by rw [abs_length hs]; omega)]

/-- `replace( pos, count, std::string)` -/
theorem C11_replace_string (c : Cfg) (hc : CfgOK c) (s s' : FStr) (hs : WF c s) (pos count : Nat) (d : Str)
    (hp : pos ≤ s.len) (h : replaceS c s pos count d = .ok s') :
    abs s' = ((abs s).take pos ++ d ++ (abs s).drop (pos + count)).take c.L := by
  have := replaceImpl_abs hc hs pos count (a := d ++ [0]) (pos2 := 0) (count2 := d.length) hp (by simp) h
  rwa [List.drop_zero, List.take_left' rfl] at this

/-- `assign( std::string)` / `operator =` / the converting constructor -/
theorem C11_assign_string (c : Cfg) (hc : CfgOK c) (s s' : FStr) (hs : WF c s) (d : Str)
    (h : assignS c s d = .ok s') : abs s' = d.take c.L :=
  assignS_abs hc hs d h

/-- `assign( FixedString< S>)` for any other capacity `S` -/
theorem C11_assign_fixed (c co : Cfg) (hc : CfgOK c) (s s' o : FStr) (hs : WF c s) (ho : WF co o)
    (h : assignF c s o = .ok s') : abs s' = (abs o).take c.L :=
  assignF_abs hc hs ho h

/-- `sprintf`: the formatted text cut off at the capacity, also when its length does not fit into the
    length type -/
theorem C11_sprintf (c : Cfg) (hc : CfgOK c) (s s' : FStr) (hs : WF c s) (text : Str)
    (h : sprintf c s text = .ok s') : abs s' = text.take c.L :=
  sprintf_abs hc hs text h

/-- `swap`: the two texts change places -/
theorem C11_swap (c : Cfg) (hc : CfgOK c) (s o : FStr) (hs : WF c s) (ho : WF c o) (p : FStr × FStr)
    (h : swap c s o = .ok p) : abs p.1 = abs o ∧ abs p.2 = abs s :=
  swap_abs hc hs ho h

/-! ### observing operations: the answer is std::string's answer -/

/-- `str()` -/
theorem C11_str (c : Cfg) (s : FStr) (hs : WF c s) : str s = .ok (abs s) := str_abs hs

/-- `at( idx)` inside the string returns the character, beyond the end both throw `out_of_range`
    (`idx = length()` is the documented exception: the fixed string returns the terminator) -/
theorem C11_at (c : Cfg) (s : FStr) (hs : WF c s) (idx : Nat) (h : idx ≠ s.len) :
    at_ s idx = StdString.at_ (abs s) idx := by
  by_cases hlt : idx < s.len
  · exact at_abs hs hlt
  · obtain ⟨h1, h2⟩ := at_throw hs (idx := idx) (by omega)
    rw [h1, h2]

/-- `substr( pos, count)` for `pos ≤ size()` and every `count` -/
theorem C11_substr (c : Cfg) (s : FStr) (hs : WF c s) (pos count : Nat) (hp : pos ≤ s.len) :
    FixedString.substr s pos count = StdString.substr (abs s) pos count := by
  rw [substr_abs hs pos count hp]
  unfold StdString.substr; rw [if_neg (by rw [abs_length hs]; omega)]

/-- `copy( dest, count, pos)`: the same characters and the same count as `std::string::copy` -/
theorem C11_copy (c : Cfg) (s : FStr) (hs : WF c s) (room count pos : Nat) (hp : pos ≤ s.len)
    (hr : min count (s.len - pos) ≤ room) :
    ∃ d, StdString.copy (abs s) count pos = .ok d ∧ FixedString.copy s room count pos = .ok (d.length, d) := by
  refine ⟨((abs s).drop pos).take count, ?_, copy_abs hs hp hr⟩
  unfold StdString.copy; rw [if_neg (by rw [abs_length hs]; omega)]

/-- `compare( str)` (fixed string, std::string, C string): the sign of the lexicographic comparison -/
theorem C11_compare (c : Cfg) (s : FStr) (hs : WF c s) (a : List Byte) (len : Nat) (ha : len ≤ a.length) :
    fullCompare s a len = .ok (StdString.compare (abs s) (a.take len)) :=
  fullCompare_abs hs ha

/-- `starts_with( str)` and `ends_with( str)` -/
theorem C11_starts_ends (c : Cfg) (s : FStr) (hs : WF c s) (a : List Byte) (n : Nat) (ha : n ≤ a.length) :
    startsWith s a n = .ok (StdString.startsWith (abs s) (a.take n)) ∧
    endsWith s a n = .ok (StdString.endsWith (abs s) (a.take n)) :=
  ⟨startsWith_abs hs ha, endsWith_abs hs ha⟩

/-- `==` is equality of the texts, `!=` its negation: equality and inequality are complementary -/
theorem C11_eq_ne (c co : Cfg) (s o : FStr) (hs : WF c s) (ho : WF co o) :
    eqOp s o = .ok (decide (abs s = abs o)) ∧ neOp s o = .ok (!decide (abs s = abs o)) :=
  ⟨eqOp_abs hs ho, neOp_abs hs ho⟩

/-- complementarity needs no well-formedness at all: whenever `==` answers `b`, `!=` answers `!b` -/
theorem C11_eq_ne_complementary (s o : FStr) (b : Bool) (h : eqOp s o = .ok b) : neOp s o = .ok (!b) := by
  unfold neOp; rw [h]; rfl

/-- forward iteration (`begin()`..`end()`, also through the const iterators) yields the text, reverse
    iteration (`rbegin()`..`rend()`) yields it backwards -/
theorem C11_iteration (c : Cfg) (hc : CfgOK c) (s : FStr) (hs : WF c s) :
    iterFwd c s = .ok (abs s) ∧ iterRev c s = .ok (abs s).reverse :=
  ⟨iterFwd_abs hc hs, iterRev_abs hc hs⟩

/-! ### the hypotheses are satisfiable, the statements are not vacuous -/

example : WF ⟨4, 2 ^ 64, 256⟩ ⟨[97, 98, 99, 0, 7], 3⟩ := by decide
/-- `inDomain` and `ArgsOK` are satisfiable for a mutator with a non-trivial effect: `replace( 1, 1, "XYZ")` -/
example : inDomain (npos ⟨4, 2 ^ 64, 256⟩) ⟨⟨[97, 98, 99, 0, 7], 3⟩, fresh ⟨4, 2 ^ 64, 256⟩, fresh ⟨9, 2 ^ 64, 256⟩⟩
    (.repCCP 1 1 [88, 89, 90, 0]) = true := by decide
/-- replacing 1 character by 3 in a string of capacity 4: "abc" -> "aXYZ" (the std::string result "aXYZc" cut) -/
example : replaceImpl ⟨4, 2 ^ 64, 256⟩ ⟨[97, 98, 99, 0, 7], 3⟩ 1 1 [88, 89, 90, 0] 0 3 = .ok ⟨[97, 88, 89, 90, 0], 4⟩ := by
  rfl
example : eqOp ⟨[97, 98, 0, 0], 2⟩ ⟨[97, 99, 0], 2⟩ = .ok false := by rfl
example : neOp ⟨[97, 98, 0, 0], 2⟩ ⟨[97, 99, 0], 2⟩ = .ok true := by rfl
example : iterRev ⟨4, 2 ^ 64, 256⟩ ⟨[97, 98, 99, 0, 7], 3⟩ = .ok [99, 98, 97] := by rfl

end CelmaVerif.Props.C11
