import CelmaVerif.Lemmas.FixedStringC11All
import CelmaVerif.Lemmas.FixedStringC11Dev
/-
  C11 — a fixed-capacity string equals `std::string` cut off at the capacity.
  Property theorems only (helper lemmas: Lemmas/FixedStringC11*.lean).

  `abs s = s.buf.take s.len` is the text a fixed string holds.  `spec` (Model/FixedString.lean) maps every
  public operation to the textbook `std::string` result (`Model/StdString.lean`, validated against libstdc++
  on every run) on that text; `inDomain` is the documented domain.  `C11_step` is the property for the whole
  operation language (one constructor per public overload, delegations included); the theorems after it
  restate the central cases for the shared implementation functions in readable form.
-/
namespace CelmaVerif.Props.C11
open CelmaVerif CelmaVerif.FixedString

/-! ### every operation -/

/-- C11, one step of any public operation.  For every capacity (`CfgOK`: `L + 1` fits `size_t`, `L` fits the
    length type), every well-formed state of the three objects, every operation `op` of the operation language
    (≈ 140 overload shapes: constructors, assignment, insert ×10, erase ×5, push/pop, append ×14, sprintf,
    replace ×15, swap, element access, iteration in both directions, compare ×9, starts_with/ends_with/contains
    ×12, substr, copy, the six find families × 9 overloads, `==`, `!=`) whose arguments satisfy the caller
    contract (`ArgsOK`) and lie in the documented domain (`inDomain`): whenever the operation returns,
    `std::string` is defined on the same arguments, the text of the object afterwards is the `std::string`
    result cut off at the capacity (`t.take c.L`; observers leave the text unchanged), and the value returned is
    the value `std::string` returns (for the five overloads returning an iterator only the text is compared).
    Together with `C10_safe_wf` (the operation does return, or throws exactly where `at()` may) this is the
    refinement of the specification on the domain. -/
theorem C11_step (c cu : Cfg) (hc : CfgOK c) (w : World) (hw : WFW c cu w) (op : Op) (ha : ArgsOK c w op)
    (hd : inDomain (npos c) w op = true) :
    ∀ w' o, step c cu w op = .ok (w', o) →
      ∃ t o', spec id (npos c) w op = .ok (t, o') ∧ abs w'.s = t.take c.L ∧ (CmpOut op → o = o') :=
  c11_step hc hw op ha hd

/-- ... and along every history: after any sequence of operations on fresh objects (caller contract `HistOK`),
    the next operation with in-domain arguments again behaves like `std::string` cut at the capacity. -/
theorem C11_after_history (c cu : Cfg) (hc : CfgOK c) (hcu : CfgOK cu) (ops : List Op)
    (hh : HistOK c cu (World.init c cu) ops) :
    ∃ w, run c cu (World.init c cu) ops = .ok w ∧
      ∀ op, ArgsOK c w op → inDomain (npos c) w op = true → C11Holds c cu w op := by
  obtain ⟨w, h1, h2⟩ := run_wf hc hcu ops _ (init_wf c cu) hh
  exact ⟨w, h1, fun op ha hd => c11_step hc h2 op ha hd⟩

/-! ### modifying operations: content = std::string result cut at the capacity -/

/-- `insert( index, count, ch)` for every `index ≤ size()` and every `count`: the text afterwards is
    `std::string::insert`'s result (prefix, `count` copies of `ch`, rest) cut off at the capacity. -/
theorem C11_insert_chars (c : Cfg) (hc : CfgOK c) (s s' : FStr) (hs : WF c s) (index count ch : Nat)
    (hi : index ≤ s.len) (h : insertCh c s index count ch = .ok s') :
    StdString.insert (abs s) index (List.replicate count ch) =
      .ok ((abs s).take index ++ List.replicate count ch ++ (abs s).drop index) ∧
    abs s' = ((abs s).take index ++ List.replicate count ch ++ (abs s).drop index).take c.L := by
  refine ⟨?_, insertCh_abs hc hs index count ch hi h⟩
  unfold StdString.insert; rw [if_neg (by rw [abs_length hs]; omega)]

/-- `insert( index, str, count)` (and through it the overloads for C strings, `std::string`, other fixed
    strings, substrings and initializer lists): inserts the first `count` characters of `str`. -/
theorem C11_insert_text (c : Cfg) (hc : CfgOK c) (s s' : FStr) (hs : WF c s) (index : Nat) (a : List Byte)
    (count : Nat) (ha : count ≤ a.length) (hi : index ≤ s.len) (h : insertP c s index a count = .ok s') :
    abs s' = ((abs s).take index ++ a.take count ++ (abs s).drop index).take c.L :=
  insertP_abs hc hs index ha hi h

/-- `insert( index, std::string)`: the delegation passes `c_str()` and `length()` -/
theorem C11_insert_string (c : Cfg) (hc : CfgOK c) (s s' : FStr) (hs : WF c s) (index : Nat) (d : Str)
    (hi : index ≤ s.len) (h : insertS c s index d = .ok s') :
    abs s' = ((abs s).take index ++ d ++ (abs s).drop index).take c.L := by
  have := insertP_abs hc hs index (a := d ++ [0]) (count := d.length) (by simp) hi h
  rwa [List.take_left'  rfl] at this

/-- `erase( index, count)` for `index ≤ size()` and every `count` (also far beyond the end) -/
theorem C11_erase (c : Cfg) (hc : CfgOK c) (s s' : FStr) (hs : WF c s) (index count : Nat) (hi : index ≤ s.len)
    (h : FixedString.erase c s index count = .ok s') :
    StdString.erase (abs s) index count = .ok (abs s') := by
  unfold StdString.erase; rw [if_neg (by rw [abs_length hs]; omega), erase_abs hc hs index count hi h]

/-- `push_back( ch)`: appended, or dropped when the string is full -/
theorem C11_push_back (c : Cfg) (hc : CfgOK c) (s s' : FStr) (hs : WF c s) (ch : Byte)
    (h : pushBack c s ch = .ok s') : abs s' = (StdString.pushBack (abs s) ch).take c.L :=
  pushBack_abs hc hs ch h

/-- `pop_back()` on a non-empty string -/
theorem C11_pop_back (c : Cfg) (hc : CfgOK c) (s s' : FStr) (hs : WF c s) (hpos : s.len > 0)
    (h : popBack c s = .ok s') : abs s' = StdString.popBack (abs s) :=
  popBack_abs hc hs hpos h

/-- `clear()` -/
theorem C11_clear (c : Cfg) (s s' : FStr) (hs : WF c s) (h : clear s = .ok s') : abs s' = [] :=
  clear_abs hs h

/-- `appendImpl( str, pos, count)`, the common implementation of every `append` / `operator +=` overload:
    appends `str[pos, pos + count)`, cut off at the capacity. -/
theorem C11_append (c : Cfg) (hc : CfgOK c) (s s' : FStr) (hs : WF c s) (a : List Byte) (pos count : Nat)
    (ha : pos + count ≤ a.length) (h : appendImpl c s a pos count = .ok s') :
    abs s' = (StdString.append (abs s) ((a.drop pos).take count)).take c.L :=
  appendImpl_abs hc hs ha h

/-- `append( std::string)` / `operator +=( std::string)` -/
theorem C11_append_string (c : Cfg) (hc : CfgOK c) (s s' : FStr) (hs : WF c s) (d : Str)
    (h : appendS c s d = .ok s') : abs s' = (abs s ++ d).take c.L := by
  have := appendImpl_abs hc hs (a := d ++ [0]) (pos := 0) (count := d.length) (by simp) h
  rwa [List.drop_zero, List.take_left' rfl] at this

/-- `append( count, ch)` for every `count`, also `SIZE_MAX` -/
theorem C11_append_chars (c : Cfg) (hc : CfgOK c) (s s' : FStr) (hs : WF c s) (count ch : Nat)
    (h : appendCh c s count ch = .ok s') : abs s' = (abs s ++ List.replicate count ch).take c.L := by
  have hl := abs_length hs
  unfold appendCh at h
  split at h
  · rename_i hfull
    cases h
    rw [List.take_append_of_le_length (by omega), List.take_of_length_le (by omega)]
  · rename_i hne
    rw [C11_append_string c hc s s' hs _ h]
    apply List.ext_getElem?; intro i
    simp only [List.getElem?_take, List.getElem?_append, List.getElem?_replicate, hl]
    have := hs.2.1
    have : min count (c.L - s.len) ≤ count := Nat.min_le_left _ _
    have : min count (c.L - s.len) ≤ c.L - s.len := Nat.min_le_right _ _
    by_cases h1 : i < c.L
    · rw [if_pos h1, if_pos h1]
      by_cases h2 : i < s.len
      · rw [if_pos h2, if_pos h2]
      · rw [if_neg h2, if_neg h2]
        by_cases h3 : i - s.len < count
        · rw [if_pos h3, if_pos (by rw [Nat.min_def]; split <;> omega)]
        · rw [if_neg h3, if_neg (by omega)]
    · rw [if_neg h1, if_neg h1]

/-- `replaceImpl( pos1, count1, str, pos2, count2)`, the common implementation of every `replace` overload,
    for `pos1 ≤ size()` and every `count1`: the std::string result `prefix ++ str[pos2, pos2+count2) ++ rest`
    cut off at the capacity (new text and moved rest are both clamped). -/
theorem C11_replace (c : Cfg) (hc : CfgOK c) (s s' : FStr) (hs : WF c s) (pos1 count1 : Nat) (a : List Byte)
    (pos2 count2 : Nat) (hp : pos1 ≤ s.len) (ha : pos2 + count2 ≤ a.length)
    (h : replaceImpl c s pos1 count1 a pos2 count2 = .ok s') :
    StdString.replace (abs s) pos1 count1 ((a.drop pos2).take count2) =
      .ok ((abs s).take pos1 ++ (a.drop pos2).take count2 ++ (abs s).drop (pos1 + count1)) ∧
    abs s' = ((abs s).take pos1 ++ (a.drop pos2).take count2 ++ (abs s).drop (pos1 + count1)).take c.L := by
  refine ⟨?_, replaceImpl_abs hc hs pos1 count1 hp ha h⟩
  unfold StdString.replace; rw [if_neg (by rw [abs_length hs]; omega)]

/-- `replace( pos, count, std::string)` -/
theorem C11_replace_string (c : Cfg) (hc : CfgOK c) (s s' : FStr) (hs : WF c s) (pos count : Nat) (d : Str)
    (hp : pos ≤ s.len) (h : replaceS c s pos count d = .ok s') :
    abs s' = ((abs s).take pos ++ d ++ (abs s).drop (pos + count)).take c.L := by
  have := replaceImpl_abs hc hs pos count (a := d ++ [0]) (pos2 := 0) (count2 := d.length) hp (by simp) h
  rwa [List.drop_zero, List.take_left' rfl] at this

/-- `assign( std::string)` / `operator =` / the converting constructor -/
theorem C11_assign_string (c : Cfg) (hc : CfgOK c) (s s' : FStr) (hs : WF c s) (d : Str)
    (h : assignS c s d = .ok s') : abs s' = d.take c.L :=
  assignS_abs hc hs d h

/-- `assign( FixedString< S>)` for any other capacity `S` -/
theorem C11_assign_fixed (c co : Cfg) (hc : CfgOK c) (s s' o : FStr) (hs : WF c s) (ho : WF co o)
    (h : assignF c s o = .ok s') : abs s' = (abs o).take c.L :=
  assignF_abs hc hs ho h

/-- `sprintf`: the formatted text cut off at the capacity, also when its length does not fit into the
    length type -/
theorem C11_sprintf (c : Cfg) (hc : CfgOK c) (s s' : FStr) (hs : WF c s) (text : Str)
    (h : sprintf c s text = .ok s') : abs s' = text.take c.L :=
  sprintf_abs hc hs text h

/-- `swap`: the two texts change places -/
theorem C11_swap (c : Cfg) (hc : CfgOK c) (s o : FStr) (hs : WF c s) (ho : WF c o) (p : FStr × FStr)
    (h : swap c s o = .ok p) : abs p.1 = abs o ∧ abs p.2 = abs s :=
  swap_abs hc hs ho h

/-! ### observing operations: the answer is std::string's answer -/

/-- `str()` -/
theorem C11_str (c : Cfg) (s : FStr) (hs : WF c s) : str s = .ok (abs s) := str_abs hs

/-- `at( idx)` inside the string returns the character, beyond the end both throw `out_of_range`
    (`idx = length()` is the documented exception: the fixed string returns the terminator) -/
theorem C11_at (c : Cfg) (s : FStr) (hs : WF c s) (idx : Nat) (h : idx ≠ s.len) :
    at_ s idx = StdString.at_ (abs s) idx := by
  by_cases hlt : idx < s.len
  · exact at_abs hs hlt
  · obtain ⟨h1, h2⟩ := at_throw hs (idx := idx) (by omega)
    rw [h1, h2]

/-- `substr( pos, count)` for `pos ≤ size()` and every `count` -/
theorem C11_substr (c : Cfg) (s : FStr) (hs : WF c s) (pos count : Nat) (hp : pos ≤ s.len) :
    FixedString.substr s pos count = StdString.substr (abs s) pos count := by
  rw [substr_abs hs pos count hp]
  unfold StdString.substr; rw [if_neg (by rw [abs_length hs]; omega)]

/-- `copy( dest, count, pos)`: the same characters and the same count as `std::string::copy` -/
theorem C11_copy (c : Cfg) (s : FStr) (hs : WF c s) (room count pos : Nat) (hp : pos ≤ s.len)
    (hr : min count (s.len - pos) ≤ room) :
    ∃ d, StdString.copy (abs s) count pos = .ok d ∧ FixedString.copy s room count pos = .ok (d.length, d) := by
  refine ⟨((abs s).drop pos).take count, ?_, copy_abs hs hp hr⟩
  unfold StdString.copy; rw [if_neg (by rw [abs_length hs]; omega)]

/-- `compare( str)` (fixed string, std::string, C string): the sign of the lexicographic comparison -/
theorem C11_compare (c : Cfg) (s : FStr) (hs : WF c s) (a : List Byte) (len : Nat) (ha : len ≤ a.length) :
    fullCompare s a len = .ok (StdString.compare (abs s) (a.take len)) :=
  fullCompare_abs hs ha

/-- `starts_with( str)` and `ends_with( str)` -/
theorem C11_starts_ends (c : Cfg) (s : FStr) (hs : WF c s) (a : List Byte) (n : Nat) (ha : n ≤ a.length) :
    startsWith s a n = .ok (StdString.startsWith (abs s) (a.take n)) ∧
    endsWith s a n = .ok (StdString.endsWith (abs s) (a.take n)) :=
  ⟨startsWith_abs hs ha, endsWith_abs hs ha⟩

/-- `==` is equality of the texts, `!=` its negation: equality and inequality are complementary -/
theorem C11_eq_ne (c co : Cfg) (s o : FStr) (hs : WF c s) (ho : WF co o) :
    eqOp s o = .ok (decide (abs s = abs o)) ∧ neOp s o = .ok (!decide (abs s = abs o)) :=
  ⟨eqOp_abs hs ho, neOp_abs hs ho⟩

/-- complementarity needs no well-formedness at all: whenever `==` answers `b`, `!=` answers `!b` -/
theorem C11_eq_ne_complementary (s o : FStr) (b : Bool) (h : eqOp s o = .ok b) : neOp s o = .ok (!b) := by
  unfold neOp; rw [h]; rfl

/-- forward iteration (`begin()`..`end()`, also through the const iterators) yields the text, reverse
    iteration (`rbegin()`..`rend()`) yields it backwards -/
theorem C11_iteration (c : Cfg) (hc : CfgOK c) (s : FStr) (hs : WF c s) :
    iterFwd c s = .ok (abs s) ∧ iterRev c s = .ok (abs s).reverse :=
  ⟨iterFwd_abs hc hs, iterRev_abs hc hs⟩

/-! ### outside the documented domain: what the code does where `inDomain` is false, next to `std::string`

  `inDomain` excludes two kinds of arguments.  (1) Arguments on which `std::string` itself is undefined or throws
  (`pos > size()`, unreadable `[p, p + n)`, `pop_back()` on an empty string): nothing to compare.  (2) Arguments on
  which `std::string` is defined and `FixedString` deliberately answers differently; each of these is pinned by a
  test of the baseline suite (src/library/common/test/test_fixed_string.cpp, lines quoted below) or follows from the
  header's wording, so a repair is not possible without breaking the pinned tests.  The theorems of this section
  make every exclusion of kind (2) a statement: the answer of the code for *all* such arguments, and the textbook
  answer it differs from.  None of them is used by `C11_step`. -/

/-- `at( length())` returns the terminator (header: "If the given index is invalid, i.e. after the end of the
    string ..."; test `at` pins `at( length())`), `std::string::at( size())` throws `out_of_range`. -/
theorem C11_deviation_at_length (c : Cfg) (s : FStr) (hs : WF c s) :
    at_ s s.len = .ok 0 ∧ StdString.at_ (abs s) s.len = .throw .out_of_range :=
  at_len hs

/-- A count that reaches behind the terminator of a C string (`n > strlen( p)`).  `append( p, n)`,
    `replace( pos, cnt, p, n)`, `compare( pos, cnt, p, n)` and `rfind( p, pos, n)` cut the count at the terminator:
    they do exactly what the overloads without a count do — `append` leaves `(text ++ C string)` cut at the capacity —
    whereas the textbook `std::string` overloads take the `n` bytes `[p, p + n)`, NUL and what follows included
    (`a.take n`, a different text).  Header: "Appends a C string ... Number of characters from str", so `n ≤ strlen`
    is the documented domain; `inDomain` requires it since the audit (before, the specification itself was cut at
    the terminator). -/
theorem C11_deviation_count_beyond_terminator (c : Cfg) (hc : CfgOK c) (s s' : FStr) (hs : WF c s) (a : List Byte)
    (h0 : (0 : Byte) ∈ a) (n : Nat) (hn : (StdString.ofCStr a).length < n) (h : appendPN c s a n = .ok s') :
    abs s' = (abs s ++ StdString.ofCStr a).take c.L ∧ a.take n ≠ StdString.ofCStr a ∧
    (∀ p1 c1, replacePN c s p1 c1 a n = replaceP c s p1 c1 a) ∧
    (∀ p1 c1 k, cstrlen a = .ok k → partPartCompare s p1 c1 a k 0 n = partPartCompare s p1 c1 a k 0 k) ∧
    (∀ pos, rfindPN c s a pos n = rfindP c s a pos) := by
  obtain ⟨k, hk, hlt, hof⟩ := cstrlen_of_mem h0
  have hkn : k ≤ n := by rw [hof, List.length_take] at hn; omega
  obtain ⟨e1, e2, e3, e4⟩ := dev_count_clamped c s hk n hkn
  rw [e1] at h
  have hnul : hasNul a = true := by unfold hasNul; exact List.contains_iff_mem.mpr h0
  refine ⟨w2_appendP hc hs hnul h, dev_take_ne_ofCStr h0 hn, e2, ?_, e4⟩
  intro p1 c1 k' hk'
  rw [hk] at hk'; cases hk'
  exact e3 p1 c1

/-- `end()` — or an iterator built at a position `≥ size()`, which is `end()` too — as the position of the three
    iterator `insert` overloads: nothing is inserted and `end()` is returned (header: "pointing to end if the given
    position was invalid"; test lines 750-756 "insert using an invalid iterator for the position --> insert nothing",
    1301-1309 "insert at end == insertz nothing"); `std::string::insert( end(), ...)` appends. -/
theorem C11_deviation_insert_at_end (c cu : Cfg) (w : World) (hw : WFW c cu w) (p : ItArg)
    (hp : actsEnd (abs w.s) p = true) (n : Nat) (ch : Byte) (il : Str) :
    step c cu w (.insertItCC p n ch) = .ok (w, .iter (itEnd c)) ∧
    step c cu w (.insertItC p ch) = .ok (w, .iter (itEnd c)) ∧
    step c cu w (.insertItIl p il) = .ok (w, .iter (itEnd c)) ∧
    spec id (npos c) w (.insertItCC p n ch) = .ok (abs w.s ++ List.replicate n ch, .unit) ∧
    spec id (npos c) w (.insertItC p ch) = .ok (abs w.s ++ [ch], .unit) ∧
    spec id (npos c) w (.insertItIl p il) = .ok (abs w.s ++ il, .unit) := by
  have hi := itOf_actsEnd hw.1 hp
  have hq := itPos_actsEnd hp
  refine ⟨?_, ?_, ?_, ?_, ?_, ?_⟩
  · show mutIt w (insertItCh c w.s (itOf c w.s p) n ch) = _
    rw [hi, (dev_insert_at_end c w.s n ch il).1]; rfl
  · show mutIt w (insertItCh c w.s (itOf c w.s p) 1 ch) = _
    rw [hi, (dev_insert_at_end c w.s 1 ch il).1]; rfl
  · show mutIt w (insertItList c w.s (itOf c w.s p) il) = _
    rw [hi, (dev_insert_at_end c w.s n ch il).2]; rfl
  · simp only [spec, hq, std_insert_at_end]; rfl
  · simp only [spec, hq, std_insert_at_end]; rfl
  · simp only [spec, hq, std_insert_at_end]; rfl

/-- An empty range `[first, first)` as the part to replace (all six iterator overloads of `replace`): nothing
    happens (test lines 2594-2601 "replace a part using invalid iterators --> replaces nothing");
    `std::string::replace( first, first, ...)` inserts the new text at `first`. -/
theorem C11_deviation_replace_empty_range (c : Cfg) (s o : FStr) (f x y : Nat) (d : Str) (i j : Nat) (a : List Byte)
    (n2 ch : Nat) (il : Str) (xs r : Str) (k : Nat) (hk : k ≤ xs.length) :
    (replaceItIt c s f f o x y = .ok s ∧ replaceItSIt c s f f d i j = .ok s ∧ replaceItPN c s f f a n2 = .ok s ∧
     replaceItP c s f f a = bindR (cstrlen a) (fun _ => .ok s) ∧ replaceItCh c s f f n2 ch = .ok s ∧
     replaceItList c s f f il = .ok s) ∧
    StdString.replace xs k 0 r = .ok (xs.take k ++ r ++ xs.drop k) :=
  ⟨dev_replace_empty_range c s o f x y d i j a n2 ch il, std_replace_empty_range xs r k hk⟩

/-- An empty replacement text through the iterator overloads (`first2 == last2`, count 0, empty initializer list):
    nothing happens (test: `replace( it, end, "")` pinned); `std::string` erases the range. -/
theorem C11_deviation_replace_by_nothing (c : Cfg) (s o : FStr) (f l x : Nat) (d : Str) (i : Nat) (a : List Byte)
    (ch : Nat) (xs : Str) (k n : Nat) (hk : k ≤ xs.length) :
    (replaceItIt c s f l o x x = .ok s ∧ replaceItSIt c s f l d i i = .ok s ∧ replaceItPN c s f l a 0 = .ok s ∧
     replaceItCh c s f l 0 ch = .ok s ∧ replaceItList c s f l [] = .ok s) ∧
    StdString.replace xs k n [] = .ok (xs.take k ++ xs.drop (k + n)) :=
  ⟨dev_replace_by_nothing c s o f l x d i a ch, std_replace_by_nothing xs k n hk⟩

/-- `end()` as the first iterator of a range to replace or erase: nothing happens (test lines 2602-2608);
    `std::string::replace( end(), end(), r)` appends `r`, `erase( end(), end())` does nothing either (only the
    returned iterator is not compared). -/
theorem C11_deviation_range_from_end (c : Cfg) (s o : FStr) (l x y : Nat) (d : Str) (i j : Nat) (n2 ch : Nat)
    (xs r : Str) :
    (replaceItIt c s (itEnd c) l o x y = .ok s ∧ replaceItSIt c s (itEnd c) l d i j = .ok s ∧
     replaceItCh c s (itEnd c) l n2 ch = .ok s ∧ eraseItIt c s (itEnd c) l = .ok (s, itEnd c) ∧
     eraseIt c s (itEnd c) = .ok (s, itEnd c)) ∧
    StdString.replace xs xs.length 0 r = .ok (xs ++ r) := by
  refine ⟨dev_range_from_end c s o l x y d i j n2 ch, ?_⟩
  rw [std_replace_empty_range xs r xs.length (Nat.le_refl _), List.take_length, List.drop_length, List.append_nil]

/-- Empty search strings and empty character sets.  `contains`, `find`, `rfind` and the four `find_*_of` families
    answer `false` / `npos` for every content and every position (tests: 2232-2239 "always returns false for empty
    strings", 2966, 3142, 3240 `rfind( "", 0, 5) == npos`, 3429, 3638).  `std::string` finds the empty string
    everywhere: `contains( "")` is true, `find( "", pos) = pos`, `rfind( "", pos) = min( pos, size())`,
    `find_first_not_of( "", pos) = pos` inside the string; only `find_first_of( "")` is `npos` there too. -/
theorem C11_deviation_empty_needle (c : Cfg) (s : FStr) (a : List Byte) (pos : Nat) (neg : Bool) (x : Str) :
    (containsImpl s a 0 = .ok false ∧ findN s a pos 0 = .ok none ∧ rfindN c s a pos 0 = .ok none ∧
     findFirstOfImpl s a pos 0 neg = .ok none ∧ findFirstOfPN s a pos 0 neg = .ok none ∧
     findLastOfImpl c s a pos 0 neg = .ok none ∧ findLastOfPN s a pos 0 neg = .ok none) ∧
    StdString.contains x [] = true ∧ (pos ≤ x.length → StdString.find x [] pos = some pos) ∧
    StdString.rfind x [] pos = some (min pos x.length) ∧
    (pos < x.length → StdString.findFirstNotOf x [] pos = some pos) ∧ StdString.findFirstOf x [] pos = none ∧
    StdString.findLastNotOf [97, 98] [] 5 = some 1 :=
  ⟨dev_empty_needle c s a pos neg, std_contains_empty x, std_find_empty x pos, std_rfind_empty x pos,
   std_ffno_empty x pos, std_ffo_empty x pos, by decide⟩

/-- Backward searches with an explicit start position at or behind the end (other than `npos`): `rfind( ch, pos)`,
    `find_last_of` and `find_last_not_of` answer `npos` (tests: 3301 `rfind( 'l', 20) == npos` on a string of length
    20, 3595 `find_last_of( srch, 25, 6) == npos`, 3621 `find_last_of( 'e', 26) == npos`).  `std::string` clamps the
    position: every `pos ≥ size()` gives the answer of the default position `npos` — which the code gives for `npos`
    only (`C11_step`). -/
theorem C11_deviation_backward_beyond_end (c : Cfg) (hc : CfgOK c) (s : FStr) (a : List Byte) (ch pos count : Nat)
    (neg : Bool) (hp : s.len ≤ pos) (hn : pos < npos c) (x pat : Str) (p : Byte → Bool) (hx : x.length ≤ pos) :
    (rfindCh c s ch pos = .ok none ∧ findLastOfCh c s ch pos neg = .ok none ∧
     findLastOfImpl c s a pos count neg = .ok none ∧ (s.len < pos → findLastOfPN s a pos count neg = .ok none)) ∧
    StdString.rfind x pat pos = StdString.rfind x pat (npos c) ∧
    StdString.findLast x p pos = StdString.findLast x p (npos c) :=
  ⟨dev_backward_beyond hc s a ch pos count neg hp hn,
   std_rfind_beyond x pat pos (npos c) hx (by omega),
   std_findLast_beyond x p pos (npos c) (by omega) (by omega)⟩

/-! ### the hypotheses are satisfiable, the statements are not vacuous -/

example : WF ⟨4, 2 ^ 64, 256⟩ ⟨[97, 98, 99, 0, 7], 3⟩ := by decide
/-- `inDomain` and `ArgsOK` are satisfiable for a mutator with a non-trivial effect: `replace( 1, 1, "XYZ")` -/
example : inDomain (npos ⟨4, 2 ^ 64, 256⟩) ⟨⟨[97, 98, 99, 0, 7], 3⟩, fresh ⟨4, 2 ^ 64, 256⟩, fresh ⟨9, 2 ^ 64, 256⟩⟩
    (.repCCP 1 1 [88, 89, 90, 0]) = true := by decide
/-- replacing 1 character by 3 in a string of capacity 4: "abc" -> "aXYZ" (the std::string result "aXYZc" cut) -/
example : replaceImpl ⟨4, 2 ^ 64, 256⟩ ⟨[97, 98, 99, 0, 7], 3⟩ 1 1 [88, 89, 90, 0] 0 3 = .ok ⟨[97, 88, 89, 90, 0], 4⟩ := by
  rfl
example : eqOp ⟨[97, 98, 0, 0], 2⟩ ⟨[97, 99, 0], 2⟩ = .ok false := by rfl
example : neOp ⟨[97, 98, 0, 0], 2⟩ ⟨[97, 99, 0], 2⟩ = .ok true := by rfl
example : iterRev ⟨4, 2 ^ 64, 256⟩ ⟨[97, 98, 99, 0, 7], 3⟩ = .ok [99, 98, 97] := by rfl

/-- the count restriction is not vacuous: `append( "xy\0zz", 5)` — the code appends "xy", the textbook 5 bytes -/
example : appendPN ⟨4, 2 ^ 64, 256⟩ ⟨[97, 0, 0, 0, 0], 1⟩ [120, 121, 0, 122, 122] 5 = .ok ⟨[97, 120, 121, 0, 0], 3⟩ := by
  rfl
example : (StdString.ofCStr [120, 121, 0, 122, 122]).length < 5 := by decide
example : inDomain (npos ⟨4, 2 ^ 64, 256⟩) ⟨⟨[97, 0, 0, 0, 0], 1⟩, fresh ⟨4, 2 ^ 64, 256⟩, fresh ⟨9, 2 ^ 64, 256⟩⟩
    (.appendPC [120, 121, 0, 122, 122] 5) = false := by decide
example : inDomain (npos ⟨4, 2 ^ 64, 256⟩) ⟨⟨[97, 0, 0, 0, 0], 1⟩, fresh ⟨4, 2 ^ 64, 256⟩, fresh ⟨9, 2 ^ 64, 256⟩⟩
    (.appendPC [120, 121, 0, 122, 122] 2) = true := by decide
/-- `actsEnd` holds for `end()` and for an iterator built at `size()` -/
example : actsEnd (abs ⟨[97, 98, 99, 0, 7], 3⟩) (.pos 3) = true ∧ actsEnd (abs ⟨[97, 98, 99, 0, 7], 3⟩) .fin = true := by
  decide
/-- backward search behind the end: `rfind( 'c', 3)` on "abc" is `npos`, `std::string` answers 2 -/
example : rfindCh ⟨4, 2 ^ 64, 256⟩ ⟨[97, 98, 99, 0, 7], 3⟩ 99 3 = .ok none ∧ StdString.rfind [97, 98, 99] [99] 3 = some 2 :=
  ⟨rfl, by decide⟩

end CelmaVerif.Props.C11
