import CelmaVerif.Model.ProgArgs.Groups
/- C03 — property theorems (under construction: see DESIGN.md) -/
namespace CelmaVerif.Props.C03
open CelmaVerif CelmaVerif.ProgArgs

/-- placeholder obligation replaced by the real theorems: the model's begin iterator on a one-word
    argv is the end iterator -/
theorem C03_begin_single (w : Word) : (It.begin [w]).isOk = true := by
  simp [It.begin, It.mkEnd, getWord, Res.isOk]

end CelmaVerif.Props.C03
