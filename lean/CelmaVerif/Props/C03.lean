import CelmaVerif.Lemmas.Spelling
import CelmaVerif.Lemmas.RulesComplete
import CelmaVerif.Lemmas.RulesLevel
import CelmaVerif.Lemmas.ParseSmall
import CelmaVerif.Lemmas.ParseProps
import CelmaVerif.Lemmas.FormatsExample
/-
  C03 — every command line that obeys the declared rules is accepted.
  `Obeys` judges the order-sensitive rules in the documented sense: an exclusion forbids *later* key
  occurrences of the excluded argument, a requirement is met by a *later* key occurrence.
  `C03_complete_partial` is stated over the grammar `Spells` (the forms the property lists),
  `C03_complete_words_partial` over `SpellsPlus` (every form the handler accepts: also the separator
  `--`, positional values, `!` — see Props/C01.lean).  Partial: destinations outside the modelled
  fragment; of the formats the case formatters `uppercase()` / `lowercase()` are modelled (`ArgDef.fmt`,
  `C03_format_and_mandatory`), `anycase`, format functions, positional formatters and the display options are not.
  The configurations of every theorem below may carry a formatter on any argument: `Obeys` does not mention it,
  so a formatter never decides whether a line is accepted.
-/
namespace CelmaVerif.Props.C03
open CelmaVerif CelmaVerif.ProgArgs CelmaVerif.Keys

/-- **Completeness.**  For a well-formed configuration, whatever other arguments, checks and
    constraints it defines: an abstract command line that obeys every declared rule (uses no
    deprecated argument), in any covered spelling, is evaluated without
    error (LevelCounter values must obey the stateful increment/assignment rule `LevelValuesOk`,
    which is also necessary: `level_rules_sound`). -/
theorem C03_complete_partial (cfg : Cfg) (wf : cfg.WellFormed) (inits : List DVal)
    (hin : cfg.args.length ≤ inits.length) (us : List Use) (ws : List Word) (prog : Word)
    (sp : Spells cfg none us ws) (ob : Obeys cfg inits us)
    (notDeprecated : ∀ u ∈ us, ∀ d, cfg.args[u.arg]? = some d → d.deprecated = false)
    (levels : ∀ (i : Nat) (d : ArgDef) (v : DVal), cfg.args[i]? = some d → d.kind = .level →
      inits[i]? = some v → LevelValuesOk d (levelOf v) false false (valsOf i us)) :
    ∃ hf, evalArguments cfg (cfg.initState inits) {} (prog :: ws) = .ok hf := by
  obtain ⟨hf, he⟩ := rules_complete wf hin ob notDeprecated levels
  have hl : (cfg.initState inits).lastArg = none := rfl
  exact ⟨hf, by rw [spells_eval cfg (cfg.initState inits) prog (by rw [hl]; exact sp)]; exact he⟩

/-- **Acceptance depends on the abstract content only**: whether a command line is accepted (and with
    which result or exception) is decided by `evalUses` on the uses it spells, not by the spelling. -/
theorem C03_acceptance_by_content_partial (cfg : Cfg) (h : HState) (us : List Use) (ws : List Word) (prog : Word)
    (sp : Spells cfg h.lastArg us ws) : evalArguments cfg h {} (prog :: ws) = evalUses cfg h us :=
  spells_eval cfg h prog sp

/-- boundaries of the value checks as the handler applies them: `lower` is inclusive, `upper` is
    exclusive, `range` is half-open -/
theorem C03_check_boundaries (v : Int) (s : Word) (hs : lexCastInt s = .ok v) :
    (Check.lower v).run s = .ok () ∧ (Check.upper v).run s = .throw .overflow_error ∧
    (Check.upper (v + 1)).run s = .ok () ∧ (Check.range v (v + 1)).run s = .ok () := by
  have : v < v + 1 := by omega
  simp [Check.run, hs, throwIf, this]

/-! ### non-vacuity -/
/-- hypothesis of `C03_check_boundaries` (the joint examples for the other theorems follow) -/
example : lexCastInt "5".toList = .ok 5 := by rfl

/-! ### joint non-vacuity: all hypotheses of `C03_complete_partial` at once

  `RulesExample.cfg` (Lemmas/RulesExample.lean): `-v,--verbose` (flag); `-n,--num` (int, mandatory, at
  most once, 0 ≤ value < 10); `-o,--out` (string, requires `-n`); `-q,--quiet` (flag, excludes
  `--verbose`); `-l,--list` (list of int, 1 to 3 values, each ≥ 0); handler constraint one-of( `-v`, `-q`).
  `jointWords` = `-q -o file --nu=5 -l 1,2` spells `jointUses` = `-q`, `-o file`, `-n 5`, `-l 1,2`
  (Lemmas/ParseSmall.lean): constraint-bearing arguments, an abbreviation, a list. -/

open CelmaVerif.ProgArgs.RulesExample in
/-- well-formed configuration, a spelling, the rules obeyed, no deprecated argument, the LevelCounter
    hypothesis: all hold together for this line -/
example : RulesExample.cfg.WellFormed ∧ RulesExample.cfg.args.length ≤ RulesExample.inits.length ∧
    Spells RulesExample.cfg none jointUses jointWords ∧ Obeys RulesExample.cfg RulesExample.inits jointUses ∧
    (∀ u ∈ jointUses, ∀ d, RulesExample.cfg.args[u.arg]? = some d → d.deprecated = false) ∧
    (∀ (i : Nat) (d : ArgDef) (v : DVal), RulesExample.cfg.args[i]? = some d → d.kind = .level →
      RulesExample.inits[i]? = some v → LevelValuesOk d (levelOf v) false false (valsOf i jointUses)) :=
  ⟨cfg_wf, by decide, joint_spells, joint_obeys, joint_notDeprecated, joint_levels⟩

open CelmaVerif.ProgArgs.RulesExample in
/-- … hence, by the theorem, `prog -q -o file --nu=5 -l 1,2` is accepted -/
example : ∃ hf, evalArguments RulesExample.cfg (RulesExample.cfg.initState RulesExample.inits) {}
    ("prog".toList :: jointWords) = .ok hf :=
  C03_complete_partial RulesExample.cfg cfg_wf RulesExample.inits (by decide) jointUses jointWords "prog".toList
    joint_spells joint_obeys joint_notDeprecated joint_levels

open CelmaVerif.ProgArgs.RulesExample in
/-- the same line with `-v` added breaks "`-q` excludes `--verbose`": it is not accepted, so `Obeys`
    is not an empty hypothesis (contrapositive of `rules_sound`) -/
example : (evalUses RulesExample.cfg (RulesExample.cfg.initState RulesExample.inits) (jointUses ++ [useV])).isThrow = true ∧
    ¬ Obeys RulesExample.cfg RulesExample.inits (jointUses ++ [useV]) := by
  refine ⟨by decide, fun ob => ?_⟩
  obtain ⟨hf, he⟩ := rules_complete cfg_wf (by decide) ob
    (fun u _ d hd => (show ∀ d ∈ RulesExample.cfg.args, d.deprecated = false by decide) d (List.mem_of_getElem? hd))
    (fun i d v hd hk _ => absurd hk
      ((show ∀ d ∈ RulesExample.cfg.args, d.kind ≠ .level by decide) d (List.mem_of_getElem? hd)))
  have ht : (evalUses RulesExample.cfg (RulesExample.cfg.initState RulesExample.inits) (jointUses ++ [useV])).isThrow = true := by
    decide
  rw [he] at ht
  simp [Res.isThrow] at ht

open CelmaVerif.ProgArgs.RulesExample in
/-- the `levels` hypothesis instantiated non-trivially: `RulesExample.cfgLevel` has the single
    LevelCounter argument `-v`; for the line `-v -v` the hypothesis is `LevelValuesOk` of two
    increments from level 0 (`level_levels`), and the line is accepted -/
example : LevelValuesOk cfgLevel.args[0] 0 false false (valsOf 0 levelUses) ∧
    ∃ hf, evalArguments cfgLevel (cfgLevel.initState [.level 0]) {} ("prog".toList :: levelWords) = .ok hf :=
  ⟨level_levels 0 _ _ rfl rfl rfl,
   C03_complete_partial cfgLevel cfgLevel_wf [.level 0] (by decide) levelUses levelWords "prog".toList
    level_spells level_obeys level_notDeprecated level_levels⟩


/-! ### value formatters (`addFormat( uppercase())` / `addFormat( lowercase())`) -/

/-- **A format never makes a rule-obeying line unacceptable, and the destination holds the formatted
    value.**  For a well-formed configuration, whatever formatters, checks, cardinalities and constraints its
    arguments carry: a command line that obeys every declared rule is accepted — in particular one that GIVES a
    mandatory argument which has a formatter (`Obeys.mandatory` asks for a use of it, nothing about `fmt`) — and
    every string argument `i` that was given ends with its last value formatted by its own formatter
    (`d.fmt.apply`: upper-cased, lower-cased, or as typed when it has none) and is recorded as "was used"
    (`mHasValueSet`, what the mandatory check at the end reads).  The checks of the argument are judged on the
    text as typed (`ScalarValueOk` inside `Obeys`: `TypedArg< T>::assign` calls `check( value)` before
    `format( valCopy)`). -/
theorem C03_format_and_mandatory (cfg : Cfg) (wf : cfg.WellFormed) (inits : List DVal)
    (hin : cfg.args.length ≤ inits.length) (us : List Use) (ws : List Word) (prog : Word)
    (sp : Spells cfg none us ws) (ob : Obeys cfg inits us)
    (notDeprecated : ∀ u ∈ us, ∀ d, cfg.args[u.arg]? = some d → d.deprecated = false)
    (levels : ∀ (i : Nat) (d : ArgDef) (v : DVal), cfg.args[i]? = some d → d.kind = .level →
      inits[i]? = some v → LevelValuesOk d (levelOf v) false false (valsOf i us)) :
    ∃ hf, evalArguments cfg (cfg.initState inits) {} (prog :: ws) = .ok hf ∧
      ∀ (i : Nat) (d : ArgDef) (v : DVal) (vs : List Word) (last : Word), cfg.args[i]? = some d → d.kind = .str →
        inits[i]? = some v → valsOf i us = vs ++ [last] →
        ∃ st, hf.args[i]? = some st ∧ st.dest = .str (d.fmt.apply last) ∧ st.hasValue d.kind = true := by
  obtain ⟨hf, he⟩ := rules_complete wf hin ob notDeprecated levels
  have hl : (cfg.initState inits).lastArg = none := rfl
  refine ⟨hf, ?_, ?_⟩
  · rw [spells_eval cfg (cfg.initState inits) prog (by rw [hl]; exact sp)]; exact he
  · intro i d v vs last hi hk hv hvals
    obtain ⟨st, hst, hd⟩ := dests_denote hin he hi hv (by rw [hk]; intro h; cases h)
    refine ⟨st, hst, ?_, ?_⟩
    · rw [hd, hvals]; simp [denote, hk]
    · -- the argument was used: `hasValueSet` (invariant `ValInv.given` of the rules layer)
      obtain ⟨h1, ha, hend⟩ := evalUses_ok he
      obtain ⟨_, _, _, hh⟩ := endChecks_ok hend
      have hus : h1.uses = us := by simpa [Cfg.initState] using applyUses_uses us _ _ ha
      have inv : ValInv cfg inits h1 := valInv_run hin ha
      have hused : ∃ u ∈ h1.uses, u.arg = i := by
        rw [hus]
        have hm : last ∈ valsOf i us := by rw [hvals]; simp
        unfold valsOf at hm
        obtain ⟨u, hu, _⟩ := List.mem_map.1 hm
        exact ⟨u, (List.mem_filter.1 hu).1, by simpa using (List.mem_filter.1 hu).2⟩
      obtain ⟨st', hst', hset⟩ := inv.given i d hi (Or.inr hk) hused
      subst hh
      have : st = st' := by
        have := hst.symm.trans hst'
        exact Option.some.inj this
      subst this
      rw [hk]; exact hset

/-- **The case formatters are invisible for an `int` destination**: `lexical_cast< int>` of the formatted copy
    is `lexical_cast< int>` of the text as typed (same value, or refused alike) — the model's `int` branches
    therefore do not mention the formatter, and "was used" is recorded there on the one path there is. -/
theorem C03_format_int_invisible (f : Fmt) (v : Word) : lexCastInt (f.apply v) = lexCastInt v :=
  lexCastInt_fmt f v

/-- **One assignment, whatever the formatter**: an accepted value of a string or int argument records the
    argument as used (the statement the mandatory check depends on), the string destination gets the
    formatted text, the int destination the converted value. -/
theorem C03_format_assign_records_use (d : ArgDef) (st st' : ArgSt) (v : Word) (e : assignDest d st v = .ok st') :
    (d.kind = .str → st'.dest = .str (d.fmt.apply v) ∧ st'.hasValueSet = true) ∧
    (d.kind = .int → st'.dest = .int (castOr0 v) ∧ st'.hasValueSet = true) := by
  have h := assignDest_effect e
  constructor <;> intro hk <;> rw [hk] at h <;> exact h

open CelmaVerif.ProgArgs.FormatExample in
/-- non-vacuity, all hypotheses of `C03_format_and_mandatory` together: `FormatExample.cfg` has the mandatory
    `-n,--name` (string, `uppercase()`, `values( "foo,bar")`, `maxLength( 3)`, at most once), the mandatory
    `-m,--mode` (string, `lowercase()`), the mandatory `-c,--count` (int, `uppercase()`), the flag `-q`; the line
    `-n foo --mode=FAST -c42 -q` obeys every rule -/
example : FormatExample.cfg.WellFormed ∧ Spells FormatExample.cfg none FormatExample.uses FormatExample.words ∧
    Obeys FormatExample.cfg FormatExample.inits FormatExample.uses :=
  ⟨cfg_wf, spells, obeys⟩

open CelmaVerif.ProgArgs.FormatExample in
/-- … hence, by the theorem, it is accepted and `--name` holds `FOO` (argument 0: `valsOf` = `[foo]`) -/
example : ∃ hf, evalArguments FormatExample.cfg (FormatExample.cfg.initState FormatExample.inits) {}
      ("prog".toList :: FormatExample.words) = .ok hf ∧
    ∃ st, hf.args[0]? = some st ∧ st.dest = .str "FOO".toList ∧ st.hasValue .str = true := by
  obtain ⟨hf, he, hd⟩ := C03_format_and_mandatory FormatExample.cfg cfg_wf FormatExample.inits (by decide)
    FormatExample.uses FormatExample.words "prog".toList spells obeys notDeprecated levels
  exact ⟨hf, he, hd 0 _ (.str []) [] "foo".toList rfl rfl rfl (by decide)⟩

/-- the same line evaluated: `FOO`, `fast`, 42, flag set -/
example : FormatExample.dests (evalArguments FormatExample.cfg (FormatExample.cfg.initState FormatExample.inits) {}
      ("prog".toList :: FormatExample.words)) =
    some [.str "FOO".toList, .str "fast".toList, .int 42, .flag true] := by decide +kernel

/-- the checks see the text AS TYPED: `-n FOO` is refused by `values( "foo,bar")` although the stored value
    would be `FOO` either way (`check( value)` precedes `format( valCopy)` in `TypedArg< T>::assign`) -/
example : FormatExample.dests (evalArguments FormatExample.cfg (FormatExample.cfg.initState FormatExample.inits) {}
      ["prog".toList, "-n".toList, "FOO".toList, "--mode=FAST".toList, "-c42".toList]) = none := by decide +kernel

/-- without the mandatory `--name` the line is refused: the mandatory rule is not vacuous here -/
example : FormatExample.dests (evalArguments FormatExample.cfg (FormatExample.cfg.initState FormatExample.inits) {}
      ["prog".toList, "--mode=FAST".toList, "-c42".toList]) = none := by decide +kernel

/-! ### the same for every form the handler accepts (`SpellsPlus`) -/

/-- **Completeness, every accepted form**: `C03_complete_partial` with the declarative grammar
    `SpellsPlus` (⊇ `Spells`: also `--` in front of dash-leading values, values of the positional
    argument, `--flag=value`, …) in place of `Spells`. -/
theorem C03_complete_words_partial (cfg : Cfg) (wf : cfg.WellFormed) (inits : List DVal)
    (hin : cfg.args.length ≤ inits.length) (us : List Use) (ws : List Word) (prog : Word)
    (sp : SpellsPlus cfg us ws) (ob : Obeys cfg inits us)
    (notDeprecated : ∀ u ∈ us, ∀ d, cfg.args[u.arg]? = some d → d.deprecated = false)
    (levels : ∀ (i : Nat) (d : ArgDef) (v : DVal), cfg.args[i]? = some d → d.kind = .level →
      inits[i]? = some v → LevelValuesOk d (levelOf v) false false (valsOf i us)) :
    ∃ hf, evalArguments cfg (cfg.initState inits) {} (prog :: ws) = .ok hf := by
  obtain ⟨g, he⟩ := rules_complete wf hin ob notDeprecated levels
  have hs := spellsPlus_eval cfg (cfg.initState inits) prog rfl rfl sp
  rw [he] at hs
  obtain ⟨hf, hok, _⟩ := hs.ok_right
  exact ⟨hf, hok⟩

/-- **Acceptance depends on the abstract content only, every accepted form**: for words that spell
    `us` in `SpellsPlus`, the evaluation of the argument vector and the abstract evaluation of `us`
    both throw the same exception or both return (with the same destinations, counters and constraint
    states). -/
theorem C03_acceptance_by_content_words_partial (cfg : Cfg) (h : HState) (hl : h.lastArg = none)
    (hi : h.inverted = false) (us : List Use) (ws : List Word) (prog : Word) (sp : SpellsPlus cfg us ws) :
    ResSame (evalArguments cfg h {} (prog :: ws)) (evalUses cfg h us) :=
  spellsPlus_eval cfg h prog hl hi sp

/-- non-vacuity: the joint example is also a `SpellsPlus` derivation -/
example : ∃ hf, evalArguments RulesExample.cfg (RulesExample.cfg.initState RulesExample.inits) {}
    ("prog".toList :: RulesExample.jointWords) = .ok hf :=
  C03_complete_words_partial RulesExample.cfg RulesExample.cfg_wf RulesExample.inits (by decide)
    RulesExample.jointUses RulesExample.jointWords "prog".toList
    (spells_sub_spellsPlus RulesExample.joint_spells) RulesExample.joint_obeys RulesExample.joint_notDeprecated
    RulesExample.joint_levels

end CelmaVerif.Props.C03
