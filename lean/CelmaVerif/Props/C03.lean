import CelmaVerif.Lemmas.Spelling
import CelmaVerif.Lemmas.RulesComplete
import CelmaVerif.Lemmas.RulesLevel
/-
  C03 — every command line that obeys the declared rules is accepted.
  `Obeys` judges the order-sensitive rules in the documented sense: an exclusion forbids *later* key
  occurrences of the excluded argument, a requirement is met by a *later* key occurrence.
  Partial for the same reasons as C01 (the `--` separator is not in `Spells`; destinations outside
  the modelled fragment).
-/
namespace CelmaVerif.Props.C03
open CelmaVerif CelmaVerif.ProgArgs CelmaVerif.Keys

/-- **Completeness.**  For a well-formed configuration, whatever other arguments, checks and
    constraints it defines: an abstract command line that obeys every declared rule (uses no
    deprecated argument), in any covered spelling, is evaluated without
    error (LevelCounter values must obey the stateful increment/assignment rule `LevelValuesOk`,
    which is also necessary: `level_rules_sound`). -/
theorem C03_complete_partial (cfg : Cfg) (wf : cfg.WellFormed) (inits : List DVal)
    (hin : cfg.args.length ≤ inits.length) (us : List Use) (ws : List Word) (prog : Word)
    (sp : Spells cfg none us ws) (ob : Obeys cfg inits us)
    (notDeprecated : ∀ u ∈ us, ∀ d, cfg.args[u.arg]? = some d → d.deprecated = false)
    (levels : ∀ (i : Nat) (d : ArgDef) (v : DVal), cfg.args[i]? = some d → d.kind = .level →
      inits[i]? = some v → LevelValuesOk d (levelOf v) false false (valsOf i us)) :
    ∃ hf, evalArguments cfg (cfg.initState inits) {} (prog :: ws) = .ok hf := by
  obtain ⟨hf, he⟩ := rules_complete wf hin ob notDeprecated levels
  have hl : (cfg.initState inits).lastArg = none := rfl
  exact ⟨hf, by rw [spells_eval cfg (cfg.initState inits) prog (by rw [hl]; exact sp)]; exact he⟩

/-- **Acceptance depends on the abstract content only**: whether a command line is accepted (and with
    which result or exception) is decided by `evalUses` on the uses it spells, not by the spelling. -/
theorem C03_acceptance_by_content_partial (cfg : Cfg) (h : HState) (us : List Use) (ws : List Word) (prog : Word)
    (sp : Spells cfg h.lastArg us ws) : evalArguments cfg h {} (prog :: ws) = evalUses cfg h us :=
  spells_eval cfg h prog sp

/-- boundaries of the value checks as the handler applies them: `lower` is inclusive, `upper` is
    exclusive, `range` is half-open -/
theorem C03_check_boundaries (v : Int) (s : Word) (hs : lexCastInt s = .ok v) :
    (Check.lower v).run s = .ok () ∧ (Check.upper v).run s = .throw .overflow_error ∧
    (Check.upper (v + 1)).run s = .ok () ∧ (Check.range v (v + 1)).run s = .ok () := by
  have : v < v + 1 := by omega
  simp [Check.run, hs, throwIf, this]

/-! ### non-vacuity -/
example : lexCastInt "5".toList = .ok 5 := by rfl

end CelmaVerif.Props.C03
