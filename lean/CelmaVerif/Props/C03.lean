import CelmaVerif.Lemmas.Spelling
import CelmaVerif.Lemmas.RulesComplete
import CelmaVerif.Lemmas.RulesLevel
import CelmaVerif.Lemmas.ParseSmall
import CelmaVerif.Lemmas.ParseProps
/-
  C03 — every command line that obeys the declared rules is accepted.
  `Obeys` judges the order-sensitive rules in the documented sense: an exclusion forbids *later* key
  occurrences of the excluded argument, a requirement is met by a *later* key occurrence.
  `C03_complete_partial` is stated over the grammar `Spells` (the forms the property lists),
  `C03_complete_words_partial` over `SpellsPlus` (every form the handler accepts: also the separator
  `--`, positional values, `!` — see Props/C01.lean).  Partial: destinations outside the modelled
  fragment, formats and display options are not modelled.
-/
namespace CelmaVerif.Props.C03
open CelmaVerif CelmaVerif.ProgArgs CelmaVerif.Keys

/-- **Completeness.**  For a well-formed configuration, whatever other arguments, checks and
    constraints it defines: an abstract command line that obeys every declared rule (uses no
    deprecated argument), in any covered spelling, is evaluated without
    error (LevelCounter values must obey the stateful increment/assignment rule `LevelValuesOk`,
    which is also necessary: `level_rules_sound`). -/
theorem C03_complete_partial (cfg : Cfg) (wf : cfg.WellFormed) (inits : List DVal)
    (hin : cfg.args.length ≤ inits.length) (us : List Use) (ws : List Word) (prog : Word)
    (sp : Spells cfg none us ws) (ob : Obeys cfg inits us)
    (notDeprecated : ∀ u ∈ us, ∀ d, cfg.args[u.arg]? = some d → d.deprecated = false)
    (levels : ∀ (i : Nat) (d : ArgDef) (v : DVal), cfg.args[i]? = some d → d.kind = .level →
      inits[i]? = some v → LevelValuesOk d (levelOf v) false false (valsOf i us)) :
    ∃ hf, evalArguments cfg (cfg.initState inits) {} (prog :: ws) = .ok hf := by
  obtain ⟨hf, he⟩ := rules_complete wf hin ob notDeprecated levels
  have hl : (cfg.initState inits).lastArg = none := rfl
  exact ⟨hf, by rw [spells_eval cfg (cfg.initState inits) prog (by rw [hl]; exact sp)]; exact he⟩

/-- **Acceptance depends on the abstract content only**: whether a command line is accepted (and with
    which result or exception) is decided by `evalUses` on the uses it spells, not by the spelling. -/
theorem C03_acceptance_by_content_partial (cfg : Cfg) (h : HState) (us : List Use) (ws : List Word) (prog : Word)
    (sp : Spells cfg h.lastArg us ws) : evalArguments cfg h {} (prog :: ws) = evalUses cfg h us :=
  spells_eval cfg h prog sp

/-- boundaries of the value checks as the handler applies them: `lower` is inclusive, `upper` is
    exclusive, `range` is half-open -/
theorem C03_check_boundaries (v : Int) (s : Word) (hs : lexCastInt s = .ok v) :
    (Check.lower v).run s = .ok () ∧ (Check.upper v).run s = .throw .overflow_error ∧
    (Check.upper (v + 1)).run s = .ok () ∧ (Check.range v (v + 1)).run s = .ok () := by
  have : v < v + 1 := by omega
  simp [Check.run, hs, throwIf, this]

/-! ### non-vacuity -/
/-- hypothesis of `C03_check_boundaries` (the joint examples for the other theorems follow) -/
example : lexCastInt "5".toList = .ok 5 := by rfl

/-! ### joint non-vacuity: all hypotheses of `C03_complete_partial` at once

  `RulesExample.cfg` (Lemmas/RulesExample.lean): `-v,--verbose` (flag); `-n,--num` (int, mandatory, at
  most once, 0 ≤ value < 10); `-o,--out` (string, requires `-n`); `-q,--quiet` (flag, excludes
  `--verbose`); `-l,--list` (list of int, 1 to 3 values, each ≥ 0); handler constraint one-of( `-v`, `-q`).
  `jointWords` = `-q -o file --nu=5 -l 1,2` spells `jointUses` = `-q`, `-o file`, `-n 5`, `-l 1,2`
  (Lemmas/ParseSmall.lean): constraint-bearing arguments, an abbreviation, a list. -/

open CelmaVerif.ProgArgs.RulesExample in
/-- well-formed configuration, a spelling, the rules obeyed, no deprecated argument, the LevelCounter
    hypothesis: all hold together for this line -/
example : RulesExample.cfg.WellFormed ∧ RulesExample.cfg.args.length ≤ RulesExample.inits.length ∧
    Spells RulesExample.cfg none jointUses jointWords ∧ Obeys RulesExample.cfg RulesExample.inits jointUses ∧
    (∀ u ∈ jointUses, ∀ d, RulesExample.cfg.args[u.arg]? = some d → d.deprecated = false) ∧
    (∀ (i : Nat) (d : ArgDef) (v : DVal), RulesExample.cfg.args[i]? = some d → d.kind = .level →
      RulesExample.inits[i]? = some v → LevelValuesOk d (levelOf v) false false (valsOf i jointUses)) :=
  ⟨cfg_wf, by decide, joint_spells, joint_obeys, joint_notDeprecated, joint_levels⟩

open CelmaVerif.ProgArgs.RulesExample in
/-- … hence, by the theorem, `prog -q -o file --nu=5 -l 1,2` is accepted -/
example : ∃ hf, evalArguments RulesExample.cfg (RulesExample.cfg.initState RulesExample.inits) {}
    ("prog".toList :: jointWords) = .ok hf :=
  C03_complete_partial RulesExample.cfg cfg_wf RulesExample.inits (by decide) jointUses jointWords "prog".toList
    joint_spells joint_obeys joint_notDeprecated joint_levels

open CelmaVerif.ProgArgs.RulesExample in
/-- the same line with `-v` added breaks "`-q` excludes `--verbose`": it is not accepted, so `Obeys`
    is not an empty hypothesis (contrapositive of `rules_sound`) -/
example : (evalUses RulesExample.cfg (RulesExample.cfg.initState RulesExample.inits) (jointUses ++ [useV])).isThrow = true ∧
    ¬ Obeys RulesExample.cfg RulesExample.inits (jointUses ++ [useV]) := by
  refine ⟨by decide, fun ob => ?_⟩
  obtain ⟨hf, he⟩ := rules_complete cfg_wf (by decide) ob
    (fun u _ d hd => (show ∀ d ∈ RulesExample.cfg.args, d.deprecated = false by decide) d (List.mem_of_getElem? hd))
    (fun i d v hd hk _ => absurd hk
      ((show ∀ d ∈ RulesExample.cfg.args, d.kind ≠ .level by decide) d (List.mem_of_getElem? hd)))
  have ht : (evalUses RulesExample.cfg (RulesExample.cfg.initState RulesExample.inits) (jointUses ++ [useV])).isThrow = true := by
    decide
  rw [he] at ht
  simp [Res.isThrow] at ht

open CelmaVerif.ProgArgs.RulesExample in
/-- the `levels` hypothesis instantiated non-trivially: `RulesExample.cfgLevel` has the single
    LevelCounter argument `-v`; for the line `-v -v` the hypothesis is `LevelValuesOk` of two
    increments from level 0 (`level_levels`), and the line is accepted -/
example : LevelValuesOk cfgLevel.args[0] 0 false false (valsOf 0 levelUses) ∧
    ∃ hf, evalArguments cfgLevel (cfgLevel.initState [.level 0]) {} ("prog".toList :: levelWords) = .ok hf :=
  ⟨level_levels 0 _ _ rfl rfl rfl,
   C03_complete_partial cfgLevel cfgLevel_wf [.level 0] (by decide) levelUses levelWords "prog".toList
    level_spells level_obeys level_notDeprecated level_levels⟩

/-! ### the same for every form the handler accepts (`SpellsPlus`) -/

/-- **Completeness, every accepted form**: `C03_complete_partial` with the declarative grammar
    `SpellsPlus` (⊇ `Spells`: also `--` in front of dash-leading values, values of the positional
    argument, `--flag=value`, …) in place of `Spells`. -/
theorem C03_complete_words_partial (cfg : Cfg) (wf : cfg.WellFormed) (inits : List DVal)
    (hin : cfg.args.length ≤ inits.length) (us : List Use) (ws : List Word) (prog : Word)
    (sp : SpellsPlus cfg us ws) (ob : Obeys cfg inits us)
    (notDeprecated : ∀ u ∈ us, ∀ d, cfg.args[u.arg]? = some d → d.deprecated = false)
    (levels : ∀ (i : Nat) (d : ArgDef) (v : DVal), cfg.args[i]? = some d → d.kind = .level →
      inits[i]? = some v → LevelValuesOk d (levelOf v) false false (valsOf i us)) :
    ∃ hf, evalArguments cfg (cfg.initState inits) {} (prog :: ws) = .ok hf := by
  obtain ⟨g, he⟩ := rules_complete wf hin ob notDeprecated levels
  have hs := spellsPlus_eval cfg (cfg.initState inits) prog rfl rfl sp
  rw [he] at hs
  obtain ⟨hf, hok, _⟩ := hs.ok_right
  exact ⟨hf, hok⟩

/-- **Acceptance depends on the abstract content only, every accepted form**: for words that spell
    `us` in `SpellsPlus`, the evaluation of the argument vector and the abstract evaluation of `us`
    both throw the same exception or both return (with the same destinations, counters and constraint
    states). -/
theorem C03_acceptance_by_content_words_partial (cfg : Cfg) (h : HState) (hl : h.lastArg = none)
    (hi : h.inverted = false) (us : List Use) (ws : List Word) (prog : Word) (sp : SpellsPlus cfg us ws) :
    ResSame (evalArguments cfg h {} (prog :: ws)) (evalUses cfg h us) :=
  spellsPlus_eval cfg h prog hl hi sp

/-- non-vacuity: the joint example is also a `SpellsPlus` derivation -/
example : ∃ hf, evalArguments RulesExample.cfg (RulesExample.cfg.initState RulesExample.inits) {}
    ("prog".toList :: RulesExample.jointWords) = .ok hf :=
  C03_complete_words_partial RulesExample.cfg RulesExample.cfg_wf RulesExample.inits (by decide)
    RulesExample.jointUses RulesExample.jointWords "prog".toList
    (spells_sub_spellsPlus RulesExample.joint_spells) RulesExample.joint_obeys RulesExample.joint_notDeprecated
    RulesExample.joint_levels

end CelmaVerif.Props.C03
