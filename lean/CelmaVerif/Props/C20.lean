import CelmaVerif.Lemmas.ConcurrencyRace
import CelmaVerif.Lemmas.ConcurrencyManaged
import CelmaVerif.Lemmas.ConcurrencyLive
import CelmaVerif.Lemmas.ConcurrencyHB
import CelmaVerif.Lemmas.ConcurrencyEventsInv
import CelmaVerif.Lemmas.ConcurrencyEventsCount
import CelmaVerif.Lemmas.ConcurrencyManagedRace
import CelmaVerif.Lemmas.ConcurrencyManagedEvents
/-
  C20 — concurrency helpers keep their contract under every schedule.
  Property theorems only; the invariants are in Lemmas/Concurrency*.lean.  All theorems are about
  `Cfg.current`, i.e. about what translate/concurrency.py read from singleton.hpp and
  managed_thread.hpp in this run (Generated/SharedState.lean); the facts they need about it are
  discharged by `decide`, so a source that no longer provides them breaks the build here.
  The semantics is sequentially consistent interleaving.  The memory orders enter through the
  happens-before layer (`hbStep`, `mhbStep` in Model/Concurrency.lean): along every interleaving it
  tracks exactly the synchronises-with edges the configuration justifies (unlock → lock, release
  store → acquire load), and `C20_singleton_published` / `C20_managed_result_published` need
  `loadAcq`, `storeRel`, `flagOrders`; they FAIL in the relaxed configurations
  (`C20_relaxed_*`).  The ghost is not its own specification (audit 2, finding 6): `HBefore`
  (Lemmas/ConcurrencyEvents.lean) is the transitive closure of program order ∪ unlock → lock ∪
  release store → acquire load reading from it over the *event trace* of the run, defined without
  any reference to the ghost; `C20_hb_ghost_exact` proves the ghost sound and complete against it
  for every configuration, and `C20_singleton_published_events` states the publication on events.
  What stays outside — for EVERY theorem of this file, in particular `C20_singleton_race_free`,
  `C20_managed_race_free`, `C20_singleton_published*`, `C20_managed_active`,
  `C20_managed_result_published` (they are partial in this sense although not suffixed
  `_partial`) —: executions of the C++ memory model that are not sequentially consistent
  interleavings.  Reads-from is the last store of the interleaving.  For the singleton cell that
  is harmless (it is stored once; a stale null only sends the thread to the mutex path, whose
  load is ordered by the mutex); for `mActive` (three stores) it is a restriction, see
  `C20_managed_active`.
-/
namespace CelmaVerif.Props.C20
open CelmaVerif CelmaVerif.Concurrency

/-! ### Singleton<T>::instance() -/

/-- Any number of threads, any schedule (complete or not): the object is constructed at most
    once, and every reference handed out so far is the one object (serial number 0). -/
theorem C20_singleton_once (n : Nat) (sched : List Nat) :
    (srun Cfg.current n sched).built ≤ 1 ∧
    ∀ t k, (srun Cfg.current n sched).ret t = some k → k = 0 :=
  ⟨(sinv_run _ n sched).built_le_one, (sinv_run _ n sched).ret⟩

/-- As soon as one thread has returned — in particular after a complete schedule — the object has
    been constructed exactly once and that thread holds a reference to it. -/
theorem C20_singleton_done (n : Nat) (sched : List Nat) (t : Nat)
    (hd : (srun Cfg.current n sched).pc t = .done) :
    (srun Cfg.current n sched).built = 1 ∧ (srun Cfg.current n sched).ret t = some 0 :=
  let h := (sinv_run _ n sched).done_built hd
  ⟨h.1, h.2.1⟩

/-- After a complete schedule of n ≥ 1 threads: exactly one construction, all n threads got it. -/
theorem C20_singleton_complete (n : Nat) (hn : 0 < n) (sched : List Nat)
    (hc : (srun Cfg.current n sched).complete n) :
    (srun Cfg.current n sched).built = 1 ∧ ∀ t, t < n → (srun Cfg.current n sched).ret t = some 0 :=
  ⟨((sinv_run _ n sched).done_built (hc 0 hn)).1, fun t ht => ((sinv_run _ n sched).done_built (hc t ht)).2.1⟩

/-- No deadlock: in every reachable state in which some thread has not returned yet, some thread
    that has not returned can take a step (is not waiting for a held mutex). -/
theorem C20_singleton_no_deadlock (n : Nat) (sched : List Nat) (t : Nat) (ht : t < n)
    (hnd : (srun Cfg.current n sched).pc t ≠ .done) :
    ∃ u, u < n ∧ (srun Cfg.current n sched).pc u ≠ .done ∧ (srun Cfg.current n sched).blocked u = false :=
  (sinv_run _ n sched).progress n (sbound_run _ n sched) ht hnd

/-- Completion is always possible: every schedule (hence every reachable state) can be extended by
    at most 7·n further entries to a complete one — so "exactly once" is not vacuous anywhere. -/
theorem C20_singleton_can_complete (n : Nat) (sched : List Nat) :
    ∃ ext : List Nat, ext.length ≤ 7 * n ∧ (srun Cfg.current n (sched ++ ext)).complete n :=
  srun_can_complete _ n sched

/-- **Progress under a fair scheduler.**  For every infinite schedule in which every thread is
    scheduled again and again (weak fairness), all `n` threads have returned from `instance()`
    after finitely many entries — and it stays that way.  (No fairness of the mutex is needed: a
    thread that waits for the mutex waits for a thread that can move.) -/
theorem C20_singleton_fair_completes (n : Nat) (f : Sched) (hf : Fair n f) :
    ∃ N, ∀ d, (srun Cfg.current n ((List.range (N + d)).map f)).complete n := by
  obtain ⟨N, _, hc⟩ := fair_completes Cfg.current n f hf (7 * n) 0 (by
    show SState.init.measure n ≤ 7 * n
    rw [measure_init]; exact Nat.le_refl _)
  refine ⟨N, fun d => ?_⟩
  rw [← srunInf_eq]
  exact complete_stable Cfg.current n f N hc d

/-- At most `7·n` entries of *any* schedule change the state (the others are stutter steps of
    finished, blocked or non-existing threads): the distance to completion starts at `7·n`, never
    grows, and strictly decreases with every effective step. -/
theorem C20_singleton_effective_steps (n : Nat) (sched : List Nat) (t : Nat) :
    (srun Cfg.current n sched).measure n ≤ 7 * n ∧
    (sstep Cfg.current n (srun Cfg.current n sched) t = srun Cfg.current n sched ∨
     (sstep Cfg.current n (srun Cfg.current n sched) t).measure n < (srun Cfg.current n sched).measure n) := by
  refine ⟨?_, sstep_same_or_lt _ n _ t⟩
  have := srunFrom_measure_le Cfg.current n sched SState.init
  rw [measure_init] at this
  exact this

/-- **At most `7·n` entries of any schedule change the state** (the count, audit 2).  The event
    trace `strace` receives one event per schedule entry that is not a stutter step (`stepTrace`),
    an entry emits no event exactly when it leaves the state unchanged — in every state, reachable
    or not —, and the trace of every schedule has at most `7·n` events. -/
theorem C20_singleton_effective_steps_bound (n : Nat) (sched : List Nat) :
    (strace Cfg.current n sched).length ≤ 7 * n ∧
    (∀ t, strace Cfg.current n (sched ++ [t]) =
        stepTrace n (srun Cfg.current n sched) (strace Cfg.current n sched) t) ∧
    (∀ (s : SState) (tr : List Ev) (t : Nat),
        (stepTrace n s tr t = tr ↔ sstep Cfg.current n s t = s) ∧
        (stepTrace n s tr t = tr ∨ ∃ e, stepTrace n s tr t = tr ++ [e])) := by
  refine ⟨strace_length_le _ n sched, fun t => ?_, fun s tr t => ?_⟩
  · have h := strace_snoc Cfg.current n sched t SState.init HB.init []
    have e := trunFrom_fst Cfg.current n sched SState.init HB.init []
    have e1 : srun Cfg.current n sched = (trunFrom Cfg.current n SState.init HB.init [] sched).1 := by
      rw [← hrun_fst]; unfold hrun; rw [← e]
    unfold strace; rw [h, e1]
  · rw [← sevent_none_iff Cfg.current n s t]
    unfold stepTrace
    cases sevent n s t with
    | none => exact ⟨⟨fun _ => rfl, fun _ => rfl⟩, Or.inl rfl⟩
    | some e =>
      refine ⟨⟨fun h => ?_, fun h => by cases h⟩, Or.inr ⟨e, rfl⟩⟩
      have := congrArg List.length h
      simp at this

/-- Race freedom in the model's sense: in no reachable state (every prefix of every schedule is a
    schedule) do two threads have enabled conflicting accesses to a non-atomic cell. -/
theorem C20_singleton_race_free (n : Nat) (sched : List Nat) :
    ¬ SRacy Cfg.current n (srun Cfg.current n sched) :=
  sracy_of_inv_atomic _ n _ (sinv_run _ n sched) (by decide)

/-- the same, spelled out for all intermediate states of one run -/
theorem C20_singleton_race_free_along (n : Nat) (sched : List Nat) :
    ¬ SRacyAlong Cfg.current n SState.init sched := by
  rw [sracyAlong_iff]
  rintro ⟨k, _, hr⟩
  exact C20_singleton_race_free n (sched.take k) hr

/-- For *any* way the cells are declared: mutual exclusion rules out every conflicting pair except
    "store into the cell the unlocked check reads" against "the unlocked check", and that pair is
    a race exactly when the cell is not an atomic. -/
theorem C20_singleton_only_possible_race (cfg : Cfg) (n : Nat) (sched : List Nat)
    (hr : SRacy cfg n (srun cfg n sched)) :
    cfg.ptrAtomic = false ∧ ∃ t u, t < n ∧ u < n ∧ t ≠ u ∧
      (srun cfg n sched).pc t = .write ∧ (srun cfg n sched).pc u = .read1 :=
  sracy_char cfg n _ (sinv_run cfg n sched) hr

/-- **Publication of the object, with the memory orders doing the work.**  The object itself is
    written by its constructor and read by every caller with plain accesses; they do not race iff
    the construction happens-before the use.  Along every schedule of any number of threads, with
    happens-before generated by program order, unlock → later lock of the mutex, and the release
    store into the fast-path cell → an acquire load that reads it (`hbStep`; a relaxed load or
    store contributes no edge): every thread that has passed the checks (is about to use or has
    been handed the object) has the construction happening-before it, and no thread was ever handed
    the object without. -/
theorem C20_singleton_published (n : Nat) (sched : List Nat) :
    (hrun Cfg.current n sched).2.racyUse = [] ∧
    ∀ t, ((srun Cfg.current n sched).pc t = .read3 ∨ (srun Cfg.current n sched).pc t = .done) →
      (hrun Cfg.current n sched).2.knows t = true := by
  have h := hinv_run Cfg.current ⟨by decide, by decide, by decide⟩ n sched
  refine ⟨h.clean, fun t ht => h.late t ?_⟩
  rw [hrun_fst]
  rcases ht with ht | ht
  · exact Or.inr (Or.inr (Or.inl ht))
  · exact Or.inr (Or.inr (Or.inr ht))

/-- … for every configuration that has the three facts, not only the current one -/
theorem C20_singleton_published_of (cfg : Cfg) (ha : cfg.ptrAtomic = true) (hl : cfg.loadAcq = true)
    (hs : cfg.storeRel = true) (n : Nat) (sched : List Nat) : (hrun cfg n sched).2.racyUse = [] :=
  (hinv_run cfg ⟨ha, hl, hs⟩ n sched).clean

/-- The orders are load-bearing: with a **relaxed load** in the unlocked check (everything else as
    in the source), thread 0 constructs and publishes, thread 1 takes the fast path and is handed
    the object without the construction happening-before — a data race on the object. -/
theorem C20_relaxed_load_unpublished :
    (hrun { Cfg.current with loadAcq := false } 2 [0, 0, 0, 0, 0, 1, 1]).2.racyUse = [1] := by decide

/-- the same with a **relaxed store** -/
theorem C20_relaxed_store_unpublished :
    (hrun { Cfg.current with storeRel := false } 2 [0, 0, 0, 0, 0, 1, 1]).2.racyUse = [1] := by decide

/-- the pinned commit (plain pointer read without the mutex): not published either -/
theorem C20_head_unpublished : (hrun Cfg.head 2 [0, 0, 0, 0, 0, 1, 1]).2.racyUse = [1] := by decide

/-- The source facts `C20_singleton_published` consumes (kept under its old name): the fast-path
    cell is an atomic, loaded with acquire and stored with release (or stronger).  On its own this
    is a `decide` over three generated Booleans; what they are good for is the theorem above. -/
theorem C20_singleton_publication :
    Cfg.current.ptrAtomic = true ∧ Cfg.current.loadAcq = true ∧ Cfg.current.storeRel = true := by
  decide

/-! ### happens-before on the event trace (independent of the ghost) -/

/-- **The happens-before ghost is exact.**  `HBefore cfg tr` is the transitive closure, over the
    event trace `tr` of the run, of: program order; an earlier `unlock` → a later `lock`; a store
    into the fast-path cell → an unlocked first load such that no store lies between them
    (reads-from of the interleaving), provided the cell is an atomic, the store a release and the
    load an acquire (`Edge`, Lemmas/ConcurrencyEvents.lean — no mention of the ghost).  For EVERY
    configuration, number of threads and schedule: `knows t` holds iff some construction event is,
    or happens-before, an event of thread `t` (hence happens-before whatever `t` does next), and
    `racyUse` lists exactly the threads with a `read3` event — the statement that hands out and
    uses the object — that no construction event happens-before. -/
theorem C20_hb_ghost_exact (cfg : Cfg) (n : Nat) (sched : List Nat) :
    (∀ t, (hrun cfg n sched).2.knows t = true ↔
      ∃ i c, OfThread (strace cfg n sched) i t ∧ IsKind (strace cfg n sched) c .construct ∧
        (c = i ∨ HBefore cfg (strace cfg n sched) c i)) ∧
    (∀ t, t ∈ (hrun cfg n sched).2.racyUse ↔
      ∃ j, (strace cfg n sched)[j]? = some ⟨t, .read3⟩ ∧
        ¬ ∃ c, IsKind (strace cfg n sched) c .construct ∧ HBefore cfg (strace cfg n sched) c j) := by
  have h := einv_run cfg n sched
  constructor
  · intro t
    rw [h.knows t]
    constructor
    · rintro ⟨i, hi, c, hc, hor⟩; exact ⟨i, c, hi, hc, hor⟩
    · rintro ⟨i, c, hi, hc, hor⟩; exact ⟨i, hi, c, hc, hor⟩
  · intro t
    rw [h.racy t]
    constructor
    · rintro ⟨j, hj, hn⟩
      exact ⟨j, hj, fun ⟨c, hc, hb⟩ => hn ⟨c, hc, Or.inr hb⟩⟩
    · rintro ⟨j, hj, hn⟩
      refine ⟨j, hj, ?_⟩
      rintro ⟨c, ⟨a, ha, hk⟩, rfl | hb⟩
      · rw [hj] at ha; cases ha; cases hk
      · exact hn ⟨c, ⟨a, ha, hk⟩, hb⟩

/-- **Publication, stated on events only.**  In the event trace of every schedule of any number
    of threads, every `read3` event (a thread is handed the object and uses it) is preceded in
    happens-before by a construction event: a path of program-order, unlock → lock and release
    store → acquire load edges leads from `new T` to the use.  (No ghost state in the statement;
    the facts used about the source are `ptrAtomic`, `loadAcq`, `storeRel`, by `decide`.) -/
theorem C20_singleton_published_events (n : Nat) (sched : List Nat) (j t : Nat)
    (hj : (strace Cfg.current n sched)[j]? = some ⟨t, .read3⟩) :
    ∃ c, IsKind (strace Cfg.current n sched) c .construct ∧
      HBefore Cfg.current (strace Cfg.current n sched) c j := by
  apply Classical.byContradiction
  intro hn
  have h := ((C20_hb_ghost_exact Cfg.current n sched).2 t).mpr ⟨j, hj, hn⟩
  rw [(C20_singleton_published n sched).1] at h
  cases h

/-- … and on events it fails with a **relaxed load**: thread 1's use of the object has no
    construction event happening-before it — whatever path one tries, since `HBefore` is the
    closure of all edges the configuration justifies -/
theorem C20_relaxed_load_unpublished_events :
    ∃ j, (strace { Cfg.current with loadAcq := false } 2 [0, 0, 0, 0, 0, 1, 1])[j]? = some ⟨1, .read3⟩ ∧
      ¬ ∃ c, IsKind (strace { Cfg.current with loadAcq := false } 2 [0, 0, 0, 0, 0, 1, 1]) c .construct ∧
        HBefore { Cfg.current with loadAcq := false }
          (strace { Cfg.current with loadAcq := false } 2 [0, 0, 0, 0, 0, 1, 1]) c j :=
  ((C20_hb_ghost_exact _ 2 _).2 1).mp (by decide)

/-- the same with a **relaxed store**, and at the pinned commit (plain pointer) -/
theorem C20_relaxed_store_unpublished_events :
    ∃ j, (strace { Cfg.current with storeRel := false } 2 [0, 0, 0, 0, 0, 1, 1])[j]? = some ⟨1, .read3⟩ ∧
      ¬ ∃ c, IsKind (strace { Cfg.current with storeRel := false } 2 [0, 0, 0, 0, 0, 1, 1]) c .construct ∧
        HBefore { Cfg.current with storeRel := false }
          (strace { Cfg.current with storeRel := false } 2 [0, 0, 0, 0, 0, 1, 1]) c j :=
  ((C20_hb_ghost_exact _ 2 _).2 1).mp (by decide)

theorem C20_head_unpublished_events :
    ∃ j, (strace Cfg.head 2 [0, 0, 0, 0, 0, 1, 1])[j]? = some ⟨1, .read3⟩ ∧
      ¬ ∃ c, IsKind (strace Cfg.head 2 [0, 0, 0, 0, 0, 1, 1]) c .construct ∧
        HBefore Cfg.head (strace Cfg.head 2 [0, 0, 0, 0, 0, 1, 1]) c j :=
  ((C20_hb_ghost_exact _ 2 _).2 1).mp (by decide)

/-! ### ManagedThread -/

/-- Any number of observers, any schedule: every `isActive()` call made while the user function
    is running returns true.  "While it is running" is the window `during` of the *interleaving*
    (the function has begun and has not returned at the moment of the load), and the value read is
    the last store of the interleaving: this is where the theorem depends on sequential
    consistency.  `mActive` is stored three times (construction `false`, `store(true)`,
    `store(false)`); in the C++ memory model an observer reads `true` for certain only if
    `store(true)` happens-before its load — e.g. because it learnt that the function has started
    through a release/acquire or stronger channel that the function itself wrote, which is what
    "has observed that its function has started" means in the property.  An observer that merely
    runs at the same time, with no such edge, may still read the initial `false`; that execution is
    not an interleaving and is outside the model (label; the harness' observers learn of the start
    through a seq_cst sync point, so the tie is inside). -/
theorem C20_managed_active (nobs : Nat) (sched : List Nat) :
    ∀ x ∈ (mrun Cfg.current nobs sched).samples, x.win = .during → x.val = some true :=
  fun x hx => ((minv_run _ (by decide) nobs sched).samples x hx).1

/-- Every `isActive()` call made after the function has returned and the thread was joined
    returns false (and join is only possible after the function has returned). -/
theorem C20_managed_inactive (nobs : Nat) (sched : List Nat) :
    ∀ x ∈ (mrun Cfg.current nobs sched).samples, x.joined = true → x.val = some false ∧ x.win = .after :=
  fun x hx => ((minv_run _ (by decide) nobs sched).samples x hx).2.1

/-- No race on the flag: its (non-atomic) construction is never enabled together with a store of
    the child, the child never stores into a flag whose lifetime has not begun, no observer ever
    reads an unconstructed flag, and the flag is an atomic.  (`MRacy` is the hand-enumerated
    predicate; `C20_managed_race_free_derived` is the same for the predicate derived from the
    access table.  Race = two *enabled* conflicting accesses of the interleaving model.) -/
theorem C20_managed_race_free (nobs : Nat) (sched : List Nat) :
    ¬ MRacy Cfg.current nobs (mrun Cfg.current nobs sched) ∧
    (mrun Cfg.current nobs sched).early = false ∧
    ∀ x ∈ (mrun Cfg.current nobs sched).samples, x.val ≠ none :=
  let h := minv_run Cfg.current (by decide) nobs sched
  ⟨mracy_of_inv _ (by decide) nobs _ h, h.early, fun x hx => (h.samples x hx).2.2⟩

/-- **Race freedom on the flag with the race predicate derived, not enumerated.**  `mAccess`
    (Lemmas/ConcurrencyManagedRace.lean) says what the next step of every thread does to the flag
    object — creating thread: plain write while it constructs the `std::atomic<bool>`; managed
    thread: the two stores; observers: the load of `isActive()`, possible once the constructor has
    returned — and `MRacyD` is the generic definition: two different threads whose next steps
    both access the flag, at least one writing, not both atomic.  In no reachable state of any
    schedule with any number of observers does such a pair exist; and on reachable states the
    hand-enumerated `MRacy` is equivalent to it, for every configuration whose flag is
    constructed first. -/
theorem C20_managed_race_free_derived (nobs : Nat) (sched : List Nat) :
    ¬ MRacyD Cfg.current nobs (mrun Cfg.current nobs sched) ∧
    ∀ cfg : Cfg, cfg.flagFirst = true →
      (MRacyD cfg nobs (mrun cfg nobs sched) ↔ MRacy cfg nobs (mrun cfg nobs sched)) := by
  refine ⟨fun h => ?_, fun cfg hf => ⟨?_, derived_of_mracy cfg nobs _⟩⟩
  · exact (C20_managed_race_free nobs sched).1
      (mracy_of_derived _ nobs _ (minv_run Cfg.current (by decide) nobs sched).joined h)
  · exact mracy_of_derived cfg nobs _ (minv_run cfg hf nobs sched).joined

/-- the derived predicate is not vacuous: at the pinned commit (flag member initialised after the
    `std::thread` base class has started the thread) it holds after one step -/
theorem C20_head_managed_racy_derived : MRacyD Cfg.head 1 (mrun Cfg.head 1 [0]) :=
  ⟨0, 1, ⟨true, false⟩, ⟨true, true⟩, by decide, by decide, by decide, rfl, rfl⟩

/-- **What the flag's memory orders give.**  An observer whose `isActive()` returns `false` at a
    moment when the user function has **returned** (window `after` of the interleaving — the
    hypothesis is about the global state, not about what the observer has seen; under sequential
    consistency "the observer saw the function start and now reads false" implies it) has read the
    value the managed thread stored after the function returned; with release stores and an
    acquire load that read synchronises: the end of the user function — everything it wrote —
    happens-before the observer's next event (`mhbStep`).  Every such sample of every schedule is
    marked published, whether or not the thread has been joined: `join()` is not an edge of
    `mhbStep` (it orders the joining thread only, and an observer is an arbitrary thread), the
    mark comes from the flag's orders alone — `C20_relaxed_flag_unpublished_after_join`. -/
theorem C20_managed_result_published (nobs : Nat) (sched : List Nat) :
    (mhrun Cfg.current nobs sched).2.map Prod.fst = (mrun Cfg.current nobs sched).samples ∧
    ∀ p ∈ (mhrun Cfg.current nobs sched).2, p.1.win = .after → p.1.val = some false → p.2 = true := by
  have h := mhinv_run Cfg.current (by decide) (by decide) (by decide) nobs sched
  refine ⟨?_, h.pub⟩
  rw [← mhrun_fst]; exact h.same

/-- … and it fails with relaxed orders on the flag: the observer sees `false` after the function
    has returned (no join yet) and nothing orders the function's writes before its reads -/
theorem C20_relaxed_flag_unpublished :
    (mhrun { Cfg.current with flagOrders := false } 1 [0, 0, 0, 1, 1, 1, 1, 1, 2]).2 =
      [(⟨2, .after, false, some false⟩, false)] := by decide

/-- … also after a `join()`: with relaxed orders on the flag a sample taken after the parent has
    joined the thread, by an observer that is not the parent, is NOT published — nothing but the
    flag connects the observer with the managed thread (until 2026-09-30 `mhbStep` marked every
    post-join sample published; audit 2, finding 6) -/
theorem C20_relaxed_flag_unpublished_after_join :
    (mhrun { Cfg.current with flagOrders := false } 1 [0, 0, 0, 1, 1, 1, 1, 1, 0, 2]).2 =
      [(⟨2, .after, true, some false⟩, false)] := by decide

/-- **The published-mark is exact against an event-level happens-before relation.**  `mtrace` is the
    event trace of the ManagedThread model (creating thread: `begin`, `init` = construction of the
    flag, `start`, `join`; managed thread: `storeT`, `fBegin`, `inF`, `fEnd` = the user function has
    returned, `storeF`; observers: `load`), `MHB cfg tr` the transitive closure of: program order;
    thread creation → every event of the managed thread; every event of the managed thread → the
    return of `join()`; a store of the managed thread → a load with no write to the flag in
    between (reads-from of the interleaving), provided the flag is an atomic with release /
    acquire orders (`MEdge`, Lemmas/ConcurrencyManagedEvents.lean — the mark of `mhbStep` is not
    mentioned there).  For every configuration whose flag is constructed before the thread is
    started, every schedule and any number of observers: the marked samples and the load events
    of the trace correspond position by position (`loadIdx` = positions of the load events), the
    `k`-th load event is the `isActive()` call of the `k`-th sample's observer, and the sample is
    marked published iff an `fEnd` event happens-before that load event. -/
theorem C20_managed_mark_exact (cfg : Cfg) (hf : cfg.flagFirst = true) (nobs : Nat) (sched : List Nat) :
    (mhrun cfg nobs sched).2.length = (loadIdx (mtrace cfg nobs sched)).length ∧
    ∀ (k : Nat) (p : Sample × Bool) (j : Nat),
      (mhrun cfg nobs sched).2[k]? = some p → (loadIdx (mtrace cfg nobs sched))[k]? = some j →
      (mtrace cfg nobs sched)[j]? = some ⟨p.1.obs, .load⟩ ∧
      (p.2 = true ↔ ∃ (e : Nat) (a : MEv), (mtrace cfg nobs sched)[e]? = some a ∧ a.kind = .fEnd ∧
        MHB cfg (mtrace cfg nobs sched) e j) := by
  obtain ⟨hl, hg⟩ := linked_get _ _ (marks_exact cfg hf nobs sched)
  refine ⟨hl, fun k p j hp hj => ?_⟩
  obtain ⟨h1, h2⟩ := hg k p j hp hj
  refine ⟨h1, ?_⟩
  rw [h2]
  constructor
  · rintro ⟨e, a, ha, hk, rfl | hb⟩
    · rw [h1] at ha; cases ha; cases hk
    · exact ⟨e, a, ha, hk, hb⟩
  · rintro ⟨e, a, ha, hk, hb⟩; exact ⟨e, a, ha, hk, Or.inr hb⟩

/-- **Publication of the function's result, stated on events.**  For the source as it is: the
    load event of every sample that reads `false` at a moment when the user function has returned
    has an `fEnd` event happening-before it (a path `fEnd →po storeF →release/acquire load`, possibly
    continued by program order of the observer). -/
theorem C20_managed_result_published_events (nobs : Nat) (sched : List Nat) (k : Nat) (p : Sample × Bool) (j : Nat)
    (hp : (mhrun Cfg.current nobs sched).2[k]? = some p)
    (hj : (loadIdx (mtrace Cfg.current nobs sched))[k]? = some j)
    (hw : p.1.win = .after) (hv : p.1.val = some false) :
    ∃ (e : Nat) (a : MEv), (mtrace Cfg.current nobs sched)[e]? = some a ∧ a.kind = .fEnd ∧
      MHB Cfg.current (mtrace Cfg.current nobs sched) e j :=
  (((C20_managed_mark_exact Cfg.current (by decide) nobs sched).2 k p j hp hj).2).mp
    ((C20_managed_result_published nobs sched).2 p (List.mem_of_getElem? hp) hw hv)

/-- … and with relaxed orders on the flag no path exists, not even after the parent has joined the
    thread: the observer's load (event 9 of the trace; events 6 = `fEnd`, 7 = `storeF`, 8 = `join`)
    has no `fEnd` event happening-before it -/
theorem C20_relaxed_flag_unpublished_events :
    (mtrace { Cfg.current with flagOrders := false } 1 [0, 0, 0, 1, 1, 1, 1, 1, 0, 2])[9]? = some ⟨2, .load⟩ ∧
    ¬ ∃ (e : Nat) (a : MEv),
      (mtrace { Cfg.current with flagOrders := false } 1 [0, 0, 0, 1, 1, 1, 1, 1, 0, 2])[e]? = some a ∧ a.kind = .fEnd ∧
      MHB { Cfg.current with flagOrders := false }
        (mtrace { Cfg.current with flagOrders := false } 1 [0, 0, 0, 1, 1, 1, 1, 1, 0, 2]) e 9 := by
  have h := (C20_managed_mark_exact { Cfg.current with flagOrders := false } (by decide) 1
    [0, 0, 0, 1, 1, 1, 1, 1, 0, 2]).2 0 (⟨2, .after, true, some false⟩, false) 9 (by decide) (by decide)
  refine ⟨h.1, fun hex => ?_⟩
  have := h.2.mpr hex
  cases this

/-- source facts `C20_managed_result_published` consumes: the stores use release and
    `isActive()` acquire (or stronger), the flag is an atomic -/
theorem C20_managed_orders : Cfg.current.flagOrders = true ∧ Cfg.current.flagAtomic = true := by
  decide

/-! ### the pinned commit (configuration `Cfg.head`, before the two `fix:` commits) -/

/-- witness: thread 0 has taken the lock and constructed, its next step stores into the plain
    `unique_ptr`; thread 1's next step is the unlocked read of it -/
theorem C20_head_singleton_racy : SRacy Cfg.head 2 (srun Cfg.head 2 [0, 0, 0, 0]) := by decide

/-- witness: start, store(true), init flag(false), f starts, load: `isActive()` is false while
    the function runs; and the child stored into the flag before its lifetime began -/
theorem C20_head_managed_inactive_while_running :
    (mrun Cfg.head 1 [0, 1, 0, 1, 2]).samples = [⟨2, .during, false, some false⟩] ∧
    (mrun Cfg.head 1 [0, 1, 0, 1, 2]).early = true := by decide

/-- witness: right after the base class has started the thread the flag's construction and the
    child's first store are both enabled -/
theorem C20_head_managed_racy : MRacy Cfg.head 1 (mrun Cfg.head 1 [0]) := by decide

/-- A shape the source must not have (seeded/C20-2, "active as soon as created"): `store(true)`
    moved from the thread's lambda into the constructor body, i.e. executed by the *creating*
    thread after the thread was started (`mstepCreator`).  Schedule: constructor up to the start of
    the thread, the managed thread runs its function to the end and stores `false`, then the
    constructor body stores `true`, `join()`, one `isActive()`: **true after join**, the negation
    of `C20_managed_inactive` for that shape. -/
theorem C20_managed_creator_store_violates :
    (mrunCreator 1 [0, 0, 0, 1, 1, 1, 1, 0, 0, 2]).1.samples = [⟨2, .after, true, some true⟩] := by decide

/-- … and while the function runs and the constructor has returned the flag can only be read as
    true, but the constructor returns too late: the window in which the function runs and the
    flag is still `false` exists (no observer can hold the object yet, so no sample is taken) -/
theorem C20_managed_creator_store_inactive_while_running :
    (mrunCreator 1 [0, 0, 0, 1]).1.win = .during ∧ (mrunCreator 1 [0, 0, 0, 1]).1.flag = some false := by decide

/-! ### non-vacuity -/

/-- a complete schedule of three racing threads exists (all three pass the first check before the
    object exists) -/
example : (srun Cfg.current 3 [0, 1, 2, 0, 0, 0, 0, 0, 0, 1, 1, 1, 1, 2, 2, 2, 2]).complete 3 := by
  intro t ht
  match t, ht with
  | 0, _ => decide
  | 1, _ => decide
  | 2, _ => decide

example : (srun Cfg.current 3 [0, 1, 2, 0, 0, 0, 0, 0, 0, 1, 1, 1, 1, 2, 2, 2, 2]).built = 1 := by decide

/-- the store/unlocked-read pair the race theorem is about is reachable -/
example : (srun Cfg.current 2 [0, 0, 0, 0]).pc 0 = .write ∧ (srun Cfg.current 2 [0, 0, 0, 0]).pc 1 = .read1 := by
  decide

/-- samples of all three windows exist, also after join -/
example : ((mrun Cfg.current 1 [0, 0, 0, 2, 1, 1, 2, 1, 1, 1, 2, 0, 2]).samples.map fun x => (x.win, x.joined, x.val)) =
    [(.before, false, some false), (.during, false, some true), (.after, false, some false),
     (.after, true, some false)] := by decide

/-- a fair schedule exists (round robin), so `C20_singleton_fair_completes` is not vacuous -/
example (n : Nat) (hn : 0 < n) : Fair n (fun k => k % n) := by
  intro t ht k
  refine ⟨k + (n - k % n) % n + t, by omega, ?_⟩
  have h1 : (k + (n - k % n) % n) % n = 0 := by
    rw [Nat.add_mod, Nat.mod_mod]
    by_cases hz : k % n = 0
    · simp [hz]
    · have : k % n < n := Nat.mod_lt _ hn
      rw [Nat.mod_eq_of_lt (show n - k % n < n by omega), show k % n + (n - k % n) = n by omega, Nat.mod_self]
  show (k + (n - k % n) % n + t) % n = t
  rw [Nat.add_mod, h1, Nat.zero_add, Nat.mod_mod, Nat.mod_eq_of_lt ht]

/-- the publication theorem is about threads that exist: after this schedule thread 1 took the
    fast path (acquire load saw the pointer), thread 2 the slow path after the store -/
example : ((hrun Cfg.current 3 [0, 0, 0, 0, 0, 1, 2, 0, 2, 2, 2, 1]).1.pc 1 = .done) ∧
    ((hrun Cfg.current 3 [0, 0, 0, 0, 0, 1, 2, 0, 2, 2, 2, 1]).2.knows 1 = true) ∧
    ((hrun Cfg.current 3 [0, 0, 0, 0, 0, 1, 2, 0, 2, 2, 2, 1]).2.knows 2 = true) := by decide

/-- `C20_singleton_published_events` is about events that exist, and the paths are the expected
    ones.  Slow path: thread 1 fails the first check, waits for the mutex; trace positions
    4 = construct(0), 6 = unlock(0), 8 = lock(1), 11 = read3(1): construct →po unlock →mutex lock →po read3. -/
example :
    (strace Cfg.current 2 [0, 0, 1, 0, 0, 0, 0, 0, 1, 1, 1, 1])[11]? = some ⟨1, .read3⟩ ∧
    HBefore Cfg.current (strace Cfg.current 2 [0, 0, 1, 0, 0, 0, 0, 0, 1, 1, 1, 1]) 4 11 := by
  refine ⟨by decide, ?_⟩
  have e : strace Cfg.current 2 [0, 0, 1, 0, 0, 0, 0, 0, 1, 1, 1, 1] =
      [⟨0, .read1⟩, ⟨0, .lock⟩, ⟨1, .read1⟩, ⟨0, .read2⟩, ⟨0, .construct⟩, ⟨0, .write⟩, ⟨0, .unlock⟩, ⟨0, .read3⟩,
       ⟨1, .lock⟩, ⟨1, .read2⟩, ⟨1, .unlock⟩, ⟨1, .read3⟩] := by decide
  rw [e]
  exact .trans (k := 6) (.edge (.po (a := ⟨0, .construct⟩) (b := ⟨0, .unlock⟩) (by decide) rfl rfl rfl))
    (.trans (k := 8) (.edge (.mutex (a := ⟨0, .unlock⟩) (b := ⟨1, .lock⟩) (by decide) rfl rfl rfl rfl))
      (.edge (.po (a := ⟨1, .lock⟩) (b := ⟨1, .read3⟩) (by decide) rfl rfl rfl)))

/-- Fast path: thread 1's acquire load reads the released pointer; positions 3 = construct(0),
    4 = store(0), 5 = read1(1), 6 = read3(1): construct →po store →release/acquire read1 →po read3.
    With `loadAcq := false` the middle edge does not exist (`C20_relaxed_load_unpublished_events`). -/
example :
    (strace Cfg.current 2 [0, 0, 0, 0, 0, 1, 1])[6]? = some ⟨1, .read3⟩ ∧
    HBefore Cfg.current (strace Cfg.current 2 [0, 0, 0, 0, 0, 1, 1]) 3 6 := by
  refine ⟨by decide, ?_⟩
  have e : strace Cfg.current 2 [0, 0, 0, 0, 0, 1, 1] =
      [⟨0, .read1⟩, ⟨0, .lock⟩, ⟨0, .read2⟩, ⟨0, .construct⟩, ⟨0, .write⟩, ⟨1, .read1⟩, ⟨1, .read3⟩] := by decide
  rw [e]
  exact .trans (k := 4) (.edge (.po (a := ⟨0, .construct⟩) (b := ⟨0, .write⟩) (by decide) rfl rfl rfl))
    (.trans (k := 5) (.edge (.cell (a := ⟨0, .write⟩) (b := ⟨1, .read1⟩) (by decide) rfl rfl rfl rfl
        (fun k c h1 h2 _ => by omega) (by decide) (by decide) (by decide)))
      (.edge (.po (a := ⟨1, .read1⟩) (b := ⟨1, .read3⟩) (by decide) rfl rfl rfl)))

/-- the bound of `C20_singleton_effective_steps_bound` is attained: three threads that all take
    the slow path produce 7 + 5 + 5 events; stutter entries (here: thread 1 and 2 waiting for the
    mutex, a non-existing thread 7) add none -/
example : (strace Cfg.current 3 [0, 1, 2, 0, 1, 2, 7, 0, 0, 0, 0, 0, 1, 1, 1, 1, 2, 2, 2, 2]).length = 17 := by decide

/-- the path of `C20_managed_result_published_events`, explicitly: trace positions 6 = `fEnd`,
    7 = `storeF`, 8 = the observer's load; `fEnd →po storeF →release/acquire load` -/
example :
    (mtrace Cfg.current 1 [0, 0, 0, 1, 1, 1, 1, 1, 2])[6]? = some ⟨1, .fEnd⟩ ∧
    MHB Cfg.current (mtrace Cfg.current 1 [0, 0, 0, 1, 1, 1, 1, 1, 2]) 6 8 := by
  refine ⟨by decide, ?_⟩
  have e : mtrace Cfg.current 1 [0, 0, 0, 1, 1, 1, 1, 1, 2] =
      [⟨0, .begin⟩, ⟨0, .init⟩, ⟨0, .start⟩, ⟨1, .storeT⟩, ⟨1, .fBegin⟩, ⟨1, .inF⟩, ⟨1, .fEnd⟩, ⟨1, .storeF⟩,
       ⟨2, .load⟩] := by decide
  rw [e]
  exact .trans (k := 7) (.edge (.po (a := ⟨1, .fEnd⟩) (b := ⟨1, .storeF⟩) (by decide) rfl rfl rfl))
    (.edge (.flag (a := ⟨1, .storeF⟩) (b := ⟨2, .load⟩) (by decide) rfl rfl (Or.inr rfl) rfl
      (fun k c h1 h2 _ => by omega) (by decide) (by decide)))

/-- a sample as in `C20_managed_result_published` exists and is marked published -/
example : (mhrun Cfg.current 1 [0, 0, 0, 1, 1, 1, 1, 1, 2]).2 = [(⟨2, .after, false, some false⟩, true)] := by decide

end CelmaVerif.Props.C20
