import CelmaVerif.Lemmas.ConcurrencyRace
import CelmaVerif.Lemmas.ConcurrencyManaged
import CelmaVerif.Lemmas.ConcurrencyLive
/-
  C20 — concurrency helpers keep their contract under every schedule.
  Property theorems only; the invariants are in Lemmas/Concurrency*.lean.  All theorems are about
  `Cfg.current`, i.e. about what translate/concurrency.py read from singleton.hpp and
  managed_thread.hpp in this run (Generated/SharedState.lean); the facts they need about it are
  discharged by `decide`, so a source that no longer provides them breaks the build here.
  The semantics is sequentially consistent interleaving; weak-memory behaviour is covered only
  through the race predicate and the memory-order facts (partial in that sense).
-/
namespace CelmaVerif.Props.C20
open CelmaVerif CelmaVerif.Concurrency

/-! ### Singleton<T>::instance() -/

/-- Any number of threads, any schedule (complete or not): the object is constructed at most
    once, and every reference handed out so far is the one object (serial number 0). -/
theorem C20_singleton_once (n : Nat) (sched : List Nat) :
    (srun Cfg.current n sched).built ≤ 1 ∧
    ∀ t k, (srun Cfg.current n sched).ret t = some k → k = 0 :=
  ⟨(sinv_run _ n sched).built_le_one, (sinv_run _ n sched).ret⟩

/-- As soon as one thread has returned — in particular after a complete schedule — the object has
    been constructed exactly once and that thread holds a reference to it. -/
theorem C20_singleton_done (n : Nat) (sched : List Nat) (t : Nat)
    (hd : (srun Cfg.current n sched).pc t = .done) :
    (srun Cfg.current n sched).built = 1 ∧ (srun Cfg.current n sched).ret t = some 0 :=
  let h := (sinv_run _ n sched).done_built hd
  ⟨h.1, h.2.1⟩

/-- After a complete schedule of n ≥ 1 threads: exactly one construction, all n threads got it. -/
theorem C20_singleton_complete (n : Nat) (hn : 0 < n) (sched : List Nat)
    (hc : (srun Cfg.current n sched).complete n) :
    (srun Cfg.current n sched).built = 1 ∧ ∀ t, t < n → (srun Cfg.current n sched).ret t = some 0 :=
  ⟨((sinv_run _ n sched).done_built (hc 0 hn)).1, fun t ht => ((sinv_run _ n sched).done_built (hc t ht)).2.1⟩

/-- No deadlock: in every reachable state in which some thread has not returned yet, some thread
    that has not returned can take a step (is not waiting for a held mutex). -/
theorem C20_singleton_no_deadlock (n : Nat) (sched : List Nat) (t : Nat) (ht : t < n)
    (hnd : (srun Cfg.current n sched).pc t ≠ .done) :
    ∃ u, u < n ∧ (srun Cfg.current n sched).pc u ≠ .done ∧ (srun Cfg.current n sched).blocked u = false :=
  (sinv_run _ n sched).progress n (sbound_run _ n sched) ht hnd

/-- Completion is always possible: every schedule (hence every reachable state) can be extended by
    at most 7·n further entries to a complete one — so "exactly once" is not vacuous anywhere. -/
theorem C20_singleton_can_complete (n : Nat) (sched : List Nat) :
    ∃ ext : List Nat, ext.length ≤ 7 * n ∧ (srun Cfg.current n (sched ++ ext)).complete n :=
  srun_can_complete _ n sched

/-- Race freedom in the model's sense: in no reachable state (every prefix of every schedule is a
    schedule) do two threads have enabled conflicting accesses to a non-atomic cell. -/
theorem C20_singleton_race_free (n : Nat) (sched : List Nat) :
    ¬ SRacy Cfg.current n (srun Cfg.current n sched) :=
  sracy_of_inv_atomic _ n _ (sinv_run _ n sched) (by decide)

/-- the same, spelled out for all intermediate states of one run -/
theorem C20_singleton_race_free_along (n : Nat) (sched : List Nat) :
    ¬ SRacyAlong Cfg.current n SState.init sched := by
  rw [sracyAlong_iff]
  rintro ⟨k, _, hr⟩
  exact C20_singleton_race_free n (sched.take k) hr

/-- For *any* way the cells are declared: mutual exclusion rules out every conflicting pair except
    "store into the cell the unlocked check reads" against "the unlocked check", and that pair is
    a race exactly when the cell is not an atomic. -/
theorem C20_singleton_only_possible_race (cfg : Cfg) (n : Nat) (sched : List Nat)
    (hr : SRacy cfg n (srun cfg n sched)) :
    cfg.ptrAtomic = false ∧ ∃ t u, t < n ∧ u < n ∧ t ≠ u ∧
      (srun cfg n sched).pc t = .write ∧ (srun cfg n sched).pc u = .read1 :=
  sracy_char cfg n _ (sinv_run cfg n sched) hr

/-- The source facts the step from the SC model to the C++ memory model rests on (assumption: with
    them the release store / acquire load pair orders the constructor before every use of the
    object by a thread that took the fast path): the fast-path cell is an atomic, loaded with
    acquire and stored with release (or stronger). -/
theorem C20_singleton_publication :
    Cfg.current.ptrAtomic = true ∧ Cfg.current.loadAcq = true ∧ Cfg.current.storeRel = true := by
  decide

/-! ### ManagedThread -/

/-- Any number of observers, any schedule: every `isActive()` call made while the user function
    is running (the observer has seen it started, it has not finished) returns true. -/
theorem C20_managed_active (nobs : Nat) (sched : List Nat) :
    ∀ x ∈ (mrun Cfg.current nobs sched).samples, x.win = .during → x.val = some true :=
  fun x hx => ((minv_run _ (by decide) nobs sched).samples x hx).1

/-- Every `isActive()` call made after the function has returned and the thread was joined
    returns false (and join is only possible after the function has returned). -/
theorem C20_managed_inactive (nobs : Nat) (sched : List Nat) :
    ∀ x ∈ (mrun Cfg.current nobs sched).samples, x.joined = true → x.val = some false ∧ x.win = .after :=
  fun x hx => ((minv_run _ (by decide) nobs sched).samples x hx).2.1

/-- No race on the flag: its (non-atomic) construction is never enabled together with a store of
    the child, the child never stores into a flag whose lifetime has not begun, no observer ever
    reads an unconstructed flag, and the flag is an atomic. -/
theorem C20_managed_race_free (nobs : Nat) (sched : List Nat) :
    ¬ MRacy Cfg.current nobs (mrun Cfg.current nobs sched) ∧
    (mrun Cfg.current nobs sched).early = false ∧
    ∀ x ∈ (mrun Cfg.current nobs sched).samples, x.val ≠ none :=
  let h := minv_run Cfg.current (by decide) nobs sched
  ⟨mracy_of_inv _ (by decide) nobs _ h, h.early, fun x hx => (h.samples x hx).2.2⟩

/-- source fact: the stores use release and `isActive()` acquire (or stronger) -/
theorem C20_managed_orders : Cfg.current.flagOrders = true ∧ Cfg.current.flagAtomic = true := by
  decide

/-! ### the pinned commit (configuration `Cfg.head`, before the two `fix:` commits) -/

/-- witness: thread 0 has taken the lock and constructed, its next step stores into the plain
    `unique_ptr`; thread 1's next step is the unlocked read of it -/
theorem C20_head_singleton_racy : SRacy Cfg.head 2 (srun Cfg.head 2 [0, 0, 0, 0]) := by decide

/-- witness: start, store(true), init flag(false), f starts, load: `isActive()` is false while
    the function runs; and the child stored into the flag before its lifetime began -/
theorem C20_head_managed_inactive_while_running :
    (mrun Cfg.head 1 [0, 1, 0, 1, 2]).samples = [⟨2, .during, false, some false⟩] ∧
    (mrun Cfg.head 1 [0, 1, 0, 1, 2]).early = true := by decide

/-- witness: right after the base class has started the thread the flag's construction and the
    child's first store are both enabled -/
theorem C20_head_managed_racy : MRacy Cfg.head 1 (mrun Cfg.head 1 [0]) := by decide

/-! ### non-vacuity -/

/-- a complete schedule of three racing threads exists (all three pass the first check before the
    object exists) -/
example : (srun Cfg.current 3 [0, 1, 2, 0, 0, 0, 0, 0, 0, 1, 1, 1, 1, 2, 2, 2, 2]).complete 3 := by
  intro t ht
  match t, ht with
  | 0, _ => decide
  | 1, _ => decide
  | 2, _ => decide

example : (srun Cfg.current 3 [0, 1, 2, 0, 0, 0, 0, 0, 0, 1, 1, 1, 1, 2, 2, 2, 2]).built = 1 := by decide

/-- the store/unlocked-read pair the race theorem is about is reachable -/
example : (srun Cfg.current 2 [0, 0, 0, 0]).pc 0 = .write ∧ (srun Cfg.current 2 [0, 0, 0, 0]).pc 1 = .read1 := by
  decide

/-- samples of all three windows exist, also after join -/
example : ((mrun Cfg.current 1 [0, 0, 0, 2, 1, 1, 2, 1, 1, 1, 2, 0, 2]).samples.map fun x => (x.win, x.joined, x.val)) =
    [(.before, false, some false), (.during, false, some true), (.after, false, some false),
     (.after, true, some false)] := by decide

end CelmaVerif.Props.C20
