import CelmaVerif.Lemmas.ConcurrencyRace
import CelmaVerif.Lemmas.ConcurrencyManaged
import CelmaVerif.Lemmas.ConcurrencyLive
import CelmaVerif.Lemmas.ConcurrencyHB
/-
  C20 — concurrency helpers keep their contract under every schedule.
  Property theorems only; the invariants are in Lemmas/Concurrency*.lean.  All theorems are about
  `Cfg.current`, i.e. about what translate/concurrency.py read from singleton.hpp and
  managed_thread.hpp in this run (Generated/SharedState.lean); the facts they need about it are
  discharged by `decide`, so a source that no longer provides them breaks the build here.
  The semantics is sequentially consistent interleaving.  The memory orders enter through the
  happens-before layer (`hbStep`, `mhbStep` in Model/Concurrency.lean): along every interleaving it
  tracks exactly the synchronises-with edges the configuration justifies (unlock → lock, release
  store → acquire load), and `C20_singleton_published` / `C20_managed_result_published` need
  `loadAcq`, `storeRel`, `flagOrders`; they FAIL in the relaxed configurations
  (`C20_relaxed_*`).  What stays outside: executions of the C++ memory model that are not
  interleavings (partial in that sense; the only atomic cells are written once resp. by one thread).
-/
namespace CelmaVerif.Props.C20
open CelmaVerif CelmaVerif.Concurrency

/-! ### Singleton<T>::instance() -/

/-- Any number of threads, any schedule (complete or not): the object is constructed at most
    once, and every reference handed out so far is the one object (serial number 0). -/
theorem C20_singleton_once (n : Nat) (sched : List Nat) :
    (srun Cfg.current n sched).built ≤ 1 ∧
    ∀ t k, (srun Cfg.current n sched).ret t = some k → k = 0 :=
  ⟨(sinv_run _ n sched).built_le_one, (sinv_run _ n sched).ret⟩

/-- As soon as one thread has returned — in particular after a complete schedule — the object has
    been constructed exactly once and that thread holds a reference to it. -/
theorem C20_singleton_done (n : Nat) (sched : List Nat) (t : Nat)
    (hd : (srun Cfg.current n sched).pc t = .done) :
    (srun Cfg.current n sched).built = 1 ∧ (srun Cfg.current n sched).ret t = some 0 :=
  let h := (sinv_run _ n sched).done_built hd
  ⟨h.1, h.2.1⟩

/-- After a complete schedule of n ≥ 1 threads: exactly one construction, all n threads got it. -/
theorem C20_singleton_complete (n : Nat) (hn : 0 < n) (sched : List Nat)
    (hc : (srun Cfg.current n sched).complete n) :
    (srun Cfg.current n sched).built = 1 ∧ ∀ t, t < n → (srun Cfg.current n sched).ret t = some 0 :=
  ⟨((sinv_run _ n sched).done_built (hc 0 hn)).1, fun t ht => ((sinv_run _ n sched).done_built (hc t ht)).2.1⟩

/-- No deadlock: in every reachable state in which some thread has not returned yet, some thread
    that has not returned can take a step (is not waiting for a held mutex). -/
theorem C20_singleton_no_deadlock (n : Nat) (sched : List Nat) (t : Nat) (ht : t < n)
    (hnd : (srun Cfg.current n sched).pc t ≠ .done) :
    ∃ u, u < n ∧ (srun Cfg.current n sched).pc u ≠ .done ∧ (srun Cfg.current n sched).blocked u = false :=
  (sinv_run _ n sched).progress n (sbound_run _ n sched) ht hnd

/-- Completion is always possible: every schedule (hence every reachable state) can be extended by
    at most 7·n further entries to a complete one — so "exactly once" is not vacuous anywhere. -/
theorem C20_singleton_can_complete (n : Nat) (sched : List Nat) :
    ∃ ext : List Nat, ext.length ≤ 7 * n ∧ (srun Cfg.current n (sched ++ ext)).complete n :=
  srun_can_complete _ n sched

/-- **Progress under a fair scheduler.**  For every infinite schedule in which every thread is
    scheduled again and again (weak fairness), all `n` threads have returned from `instance()`
    after finitely many entries — and it stays that way.  (No fairness of the mutex is needed: a
    thread that waits for the mutex waits for a thread that can move.) -/
theorem C20_singleton_fair_completes (n : Nat) (f : Sched) (hf : Fair n f) :
    ∃ N, ∀ d, (srun Cfg.current n ((List.range (N + d)).map f)).complete n := by
  obtain ⟨N, _, hc⟩ := fair_completes Cfg.current n f hf (7 * n) 0 (by
    show SState.init.measure n ≤ 7 * n
    rw [measure_init]; exact Nat.le_refl _)
  refine ⟨N, fun d => ?_⟩
  rw [← srunInf_eq]
  exact complete_stable Cfg.current n f N hc d

/-- At most `7·n` entries of *any* schedule change the state (the others are stutter steps of
    finished, blocked or non-existing threads): the distance to completion starts at `7·n`, never
    grows, and strictly decreases with every effective step. -/
theorem C20_singleton_effective_steps (n : Nat) (sched : List Nat) (t : Nat) :
    (srun Cfg.current n sched).measure n ≤ 7 * n ∧
    (sstep Cfg.current n (srun Cfg.current n sched) t = srun Cfg.current n sched ∨
     (sstep Cfg.current n (srun Cfg.current n sched) t).measure n < (srun Cfg.current n sched).measure n) := by
  refine ⟨?_, sstep_same_or_lt _ n _ t⟩
  have := srunFrom_measure_le Cfg.current n sched SState.init
  rw [measure_init] at this
  exact this

/-- Race freedom in the model's sense: in no reachable state (every prefix of every schedule is a
    schedule) do two threads have enabled conflicting accesses to a non-atomic cell. -/
theorem C20_singleton_race_free (n : Nat) (sched : List Nat) :
    ¬ SRacy Cfg.current n (srun Cfg.current n sched) :=
  sracy_of_inv_atomic _ n _ (sinv_run _ n sched) (by decide)

/-- the same, spelled out for all intermediate states of one run -/
theorem C20_singleton_race_free_along (n : Nat) (sched : List Nat) :
    ¬ SRacyAlong Cfg.current n SState.init sched := by
  rw [sracyAlong_iff]
  rintro ⟨k, _, hr⟩
  exact C20_singleton_race_free n (sched.take k) hr

/-- For *any* way the cells are declared: mutual exclusion rules out every conflicting pair except
    "store into the cell the unlocked check reads" against "the unlocked check", and that pair is
    a race exactly when the cell is not an atomic. -/
theorem C20_singleton_only_possible_race (cfg : Cfg) (n : Nat) (sched : List Nat)
    (hr : SRacy cfg n (srun cfg n sched)) :
    cfg.ptrAtomic = false ∧ ∃ t u, t < n ∧ u < n ∧ t ≠ u ∧
      (srun cfg n sched).pc t = .write ∧ (srun cfg n sched).pc u = .read1 :=
  sracy_char cfg n _ (sinv_run cfg n sched) hr

/-- **Publication of the object, with the memory orders doing the work.**  The object itself is
    written by its constructor and read by every caller with plain accesses; they do not race iff
    the construction happens-before the use.  Along every schedule of any number of threads, with
    happens-before generated by program order, unlock → later lock of the mutex, and the release
    store into the fast-path cell → an acquire load that reads it (`hbStep`; a relaxed load or
    store contributes no edge): every thread that has passed the checks (is about to use or has
    been handed the object) has the construction happening-before it, and no thread was ever handed
    the object without. -/
theorem C20_singleton_published (n : Nat) (sched : List Nat) :
    (hrun Cfg.current n sched).2.racyUse = [] ∧
    ∀ t, ((srun Cfg.current n sched).pc t = .read3 ∨ (srun Cfg.current n sched).pc t = .done) →
      (hrun Cfg.current n sched).2.knows t = true := by
  have h := hinv_run Cfg.current ⟨by decide, by decide, by decide⟩ n sched
  refine ⟨h.clean, fun t ht => h.late t ?_⟩
  rw [hrun_fst]
  rcases ht with ht | ht
  · exact Or.inr (Or.inr (Or.inl ht))
  · exact Or.inr (Or.inr (Or.inr ht))

/-- … for every configuration that has the three facts, not only the current one -/
theorem C20_singleton_published_of (cfg : Cfg) (ha : cfg.ptrAtomic = true) (hl : cfg.loadAcq = true)
    (hs : cfg.storeRel = true) (n : Nat) (sched : List Nat) : (hrun cfg n sched).2.racyUse = [] :=
  (hinv_run cfg ⟨ha, hl, hs⟩ n sched).clean

/-- The orders are load-bearing: with a **relaxed load** in the unlocked check (everything else as
    in the source), thread 0 constructs and publishes, thread 1 takes the fast path and is handed
    the object without the construction happening-before — a data race on the object. -/
theorem C20_relaxed_load_unpublished :
    (hrun { Cfg.current with loadAcq := false } 2 [0, 0, 0, 0, 0, 1, 1]).2.racyUse = [1] := by decide

/-- the same with a **relaxed store** -/
theorem C20_relaxed_store_unpublished :
    (hrun { Cfg.current with storeRel := false } 2 [0, 0, 0, 0, 0, 1, 1]).2.racyUse = [1] := by decide

/-- the pinned commit (plain pointer read without the mutex): not published either -/
theorem C20_head_unpublished : (hrun Cfg.head 2 [0, 0, 0, 0, 0, 1, 1]).2.racyUse = [1] := by decide

/-- The source facts `C20_singleton_published` consumes (kept under its old name): the fast-path
    cell is an atomic, loaded with acquire and stored with release (or stronger).  On its own this
    is a `decide` over three generated Booleans; what they are good for is the theorem above. -/
theorem C20_singleton_publication :
    Cfg.current.ptrAtomic = true ∧ Cfg.current.loadAcq = true ∧ Cfg.current.storeRel = true := by
  decide

/-! ### ManagedThread -/

/-- Any number of observers, any schedule: every `isActive()` call made while the user function
    is running (the observer has seen it started, it has not finished) returns true. -/
theorem C20_managed_active (nobs : Nat) (sched : List Nat) :
    ∀ x ∈ (mrun Cfg.current nobs sched).samples, x.win = .during → x.val = some true :=
  fun x hx => ((minv_run _ (by decide) nobs sched).samples x hx).1

/-- Every `isActive()` call made after the function has returned and the thread was joined
    returns false (and join is only possible after the function has returned). -/
theorem C20_managed_inactive (nobs : Nat) (sched : List Nat) :
    ∀ x ∈ (mrun Cfg.current nobs sched).samples, x.joined = true → x.val = some false ∧ x.win = .after :=
  fun x hx => ((minv_run _ (by decide) nobs sched).samples x hx).2.1

/-- No race on the flag: its (non-atomic) construction is never enabled together with a store of
    the child, the child never stores into a flag whose lifetime has not begun, no observer ever
    reads an unconstructed flag, and the flag is an atomic. -/
theorem C20_managed_race_free (nobs : Nat) (sched : List Nat) :
    ¬ MRacy Cfg.current nobs (mrun Cfg.current nobs sched) ∧
    (mrun Cfg.current nobs sched).early = false ∧
    ∀ x ∈ (mrun Cfg.current nobs sched).samples, x.val ≠ none :=
  let h := minv_run Cfg.current (by decide) nobs sched
  ⟨mracy_of_inv _ (by decide) nobs _ h, h.early, fun x hx => (h.samples x hx).2.2⟩

/-- **What the flag's memory orders give.**  An observer whose `isActive()` returns `false` after
    it has seen the function start (window `after`; it need not know of a `join()`) has read the
    value the managed thread stored after the function returned; with release stores and an
    acquire load that read synchronises: the end of the user function — everything it wrote —
    happens-before the observer's next event (`mhbStep`).  Every such sample of every schedule is
    marked published. -/
theorem C20_managed_result_published (nobs : Nat) (sched : List Nat) :
    (mhrun Cfg.current nobs sched).2.map Prod.fst = (mrun Cfg.current nobs sched).samples ∧
    ∀ p ∈ (mhrun Cfg.current nobs sched).2, p.1.win = .after → p.1.val = some false → p.2 = true := by
  have h := mhinv_run Cfg.current (by decide) (by decide) (by decide) nobs sched
  refine ⟨?_, h.pub⟩
  rw [← mhrun_fst]; exact h.same

/-- … and it fails with relaxed orders on the flag: the observer sees `false` after the function
    has returned (no join yet) and nothing orders the function's writes before its reads -/
theorem C20_relaxed_flag_unpublished :
    (mhrun { Cfg.current with flagOrders := false } 1 [0, 0, 0, 1, 1, 1, 1, 1, 2]).2 =
      [(⟨2, .after, false, some false⟩, false)] := by decide

/-- source facts `C20_managed_result_published` consumes: the stores use release and
    `isActive()` acquire (or stronger), the flag is an atomic -/
theorem C20_managed_orders : Cfg.current.flagOrders = true ∧ Cfg.current.flagAtomic = true := by
  decide

/-! ### the pinned commit (configuration `Cfg.head`, before the two `fix:` commits) -/

/-- witness: thread 0 has taken the lock and constructed, its next step stores into the plain
    `unique_ptr`; thread 1's next step is the unlocked read of it -/
theorem C20_head_singleton_racy : SRacy Cfg.head 2 (srun Cfg.head 2 [0, 0, 0, 0]) := by decide

/-- witness: start, store(true), init flag(false), f starts, load: `isActive()` is false while
    the function runs; and the child stored into the flag before its lifetime began -/
theorem C20_head_managed_inactive_while_running :
    (mrun Cfg.head 1 [0, 1, 0, 1, 2]).samples = [⟨2, .during, false, some false⟩] ∧
    (mrun Cfg.head 1 [0, 1, 0, 1, 2]).early = true := by decide

/-- witness: right after the base class has started the thread the flag's construction and the
    child's first store are both enabled -/
theorem C20_head_managed_racy : MRacy Cfg.head 1 (mrun Cfg.head 1 [0]) := by decide

/-- A shape the source must not have (seeded/C20-2, "active as soon as created"): `store(true)`
    moved from the thread's lambda into the constructor body, i.e. executed by the *creating*
    thread after the thread was started (`mstepCreator`).  Schedule: constructor up to the start of
    the thread, the managed thread runs its function to the end and stores `false`, then the
    constructor body stores `true`, `join()`, one `isActive()`: **true after join**, the negation
    of `C20_managed_inactive` for that shape. -/
theorem C20_managed_creator_store_violates :
    (mrunCreator 1 [0, 0, 0, 1, 1, 1, 1, 0, 0, 2]).1.samples = [⟨2, .after, true, some true⟩] := by decide

/-- … and while the function runs and the constructor has returned the flag can only be read as
    true, but the constructor returns too late: the window in which the function runs and the
    flag is still `false` exists (no observer can hold the object yet, so no sample is taken) -/
theorem C20_managed_creator_store_inactive_while_running :
    (mrunCreator 1 [0, 0, 0, 1]).1.win = .during ∧ (mrunCreator 1 [0, 0, 0, 1]).1.flag = some false := by decide

/-! ### non-vacuity -/

/-- a complete schedule of three racing threads exists (all three pass the first check before the
    object exists) -/
example : (srun Cfg.current 3 [0, 1, 2, 0, 0, 0, 0, 0, 0, 1, 1, 1, 1, 2, 2, 2, 2]).complete 3 := by
  intro t ht
  match t, ht with
  | 0, _ => decide
  | 1, _ => decide
  | 2, _ => decide

example : (srun Cfg.current 3 [0, 1, 2, 0, 0, 0, 0, 0, 0, 1, 1, 1, 1, 2, 2, 2, 2]).built = 1 := by decide

/-- the store/unlocked-read pair the race theorem is about is reachable -/
example : (srun Cfg.current 2 [0, 0, 0, 0]).pc 0 = .write ∧ (srun Cfg.current 2 [0, 0, 0, 0]).pc 1 = .read1 := by
  decide

/-- samples of all three windows exist, also after join -/
example : ((mrun Cfg.current 1 [0, 0, 0, 2, 1, 1, 2, 1, 1, 1, 2, 0, 2]).samples.map fun x => (x.win, x.joined, x.val)) =
    [(.before, false, some false), (.during, false, some true), (.after, false, some false),
     (.after, true, some false)] := by decide

/-- a fair schedule exists (round robin), so `C20_singleton_fair_completes` is not vacuous -/
example (n : Nat) (hn : 0 < n) : Fair n (fun k => k % n) := by
  intro t ht k
  refine ⟨k + (n - k % n) % n + t, by omega, ?_⟩
  have h1 : (k + (n - k % n) % n) % n = 0 := by
    rw [Nat.add_mod, Nat.mod_mod]
    by_cases hz : k % n = 0
    · simp [hz]
    · have : k % n < n := Nat.mod_lt _ hn
      rw [Nat.mod_eq_of_lt (show n - k % n < n by omega), show k % n + (n - k % n) = n by omega, Nat.mod_self]
  show (k + (n - k % n) % n + t) % n = t
  rw [Nat.add_mod, h1, Nat.zero_add, Nat.mod_mod, Nat.mod_eq_of_lt ht]

/-- the publication theorem is about threads that exist: after this schedule thread 1 took the
    fast path (acquire load saw the pointer), thread 2 the slow path after the store -/
example : ((hrun Cfg.current 3 [0, 0, 0, 0, 0, 1, 2, 0, 2, 2, 2, 1]).1.pc 1 = .done) ∧
    ((hrun Cfg.current 3 [0, 0, 0, 0, 0, 1, 2, 0, 2, 2, 2, 1]).2.knows 1 = true) ∧
    ((hrun Cfg.current 3 [0, 0, 0, 0, 0, 1, 2, 0, 2, 2, 2, 1]).2.knows 2 = true) := by decide

/-- a sample as in `C20_managed_result_published` exists and is marked published -/
example : (mhrun Cfg.current 1 [0, 0, 0, 1, 1, 1, 1, 1, 2]).2 = [(⟨2, .after, false, some false⟩, true)] := by decide

end CelmaVerif.Props.C20
