import CelmaVerif.Lemmas.Int2StrGen
import Std.Data.String.ToInt
/-
  C13 — integer-to-string conversions are exact for every integer.
  Property theorems only.  They are statements about `Gen.lib`, the tables that
  translate/int2str.py regenerates from the C++ sources on every run
  (Generated/Int2Str.lean), executed by the interpreter of Model/Int2Str.lean; the hypotheses of
  the generic lemmas are the `decide`d obligations of Generated/Int2StrOk.lean.
  `Lib.str grouped n signed g v` is `int2string( v)` / `grouped_int2string( v, g)` for the integral
  type with `n` bits and that signedness, `Lib.buf … buf` the overload writing into `buf`.
  Specification: core Lean's `toString` on `Nat`/`Int` (`Nat.repr`, i.e. `Nat.toDigits 10`).
-/
namespace CelmaVerif.Props.C13
open CelmaVerif CelmaVerif.Int2Str

/-- Unsigned types, every width n ∈ {8,16,32,64}, every value below 2^n: `int2string` returns exactly
    the decimal representation. -/
theorem C13_unsigned (n : Nat) (hn : Width n) (x : Nat) (hx : x < 2 ^ n) (g : Byte) :
    Gen.lib.str false n false g x = .ok (bytesOf (toString x)) := by
  obtain ⟨f, d, hfile, hfb, hfg, hok⟩ := gen_file false n hn
  rw [Lib.str_unsigned Gen.lib false n f d (gen_api false) hn hfile hfb hfg hok g x hx, specText_plain]
  congr 2

/-- Signed types, every width, every value from −2^(n−1) (the minimum, whose negation does not fit the
    signed type) to 2^(n−1)−1: `int2string` returns exactly the decimal representation. -/
theorem C13_signed (n : Nat) (hn : Width n) (v : Int) (hlo : -(2 ^ (n - 1)) ≤ v) (hhi : v < 2 ^ (n - 1))
    (g : Byte) :
    Gen.lib.str false n true g v = .ok (bytesOf (toString v)) := by
  obtain ⟨f, d, hfile, hfb, hfg, hok⟩ := gen_file false n hn
  rw [Lib.str_signed Gen.lib false n f d (gen_api false) hn hfile hfb hfg hok g v
    (by rw [two_eq_pow]; exact hlo) (by rw [two_eq_pow]; exact hhi), specText_plain]

/-- Grouped variants, unsigned types, every group character: the decimal digits with the group
    character after every third digit counted from the right. -/
theorem C13_grouped_unsigned (n : Nat) (hn : Width n) (x : Nat) (hx : x < 2 ^ n) (g : Byte) :
    Gen.lib.str true n false g x = .ok (groupRight g (bytesOf (toString x))) := by
  obtain ⟨f, d, hfile, hfb, hfg, hok⟩ := gen_file true n hn
  rw [Lib.str_unsigned Gen.lib true n f d (gen_api true) hn hfile hfb hfg hok g x hx]
  simp [specText, body, digitBytes, bytesOf]

/-- Grouped variants, signed types, every value including the minimum, every group character: the
    sign (if negative) followed by the grouped digits of the magnitude — the group character is placed
    inside the digit string only, hence never next to the sign (see `C13_group_shape`). -/
theorem C13_grouped_signed (n : Nat) (hn : Width n) (v : Int) (hlo : -(2 ^ (n - 1)) ≤ v) (hhi : v < 2 ^ (n - 1))
    (g : Byte) :
    Gen.lib.str true n true g v =
      .ok ((if v < 0 then [45] else []) ++ groupRight g (bytesOf (toString v.natAbs))) := by
  obtain ⟨f, d, hfile, hfb, hfg, hok⟩ := gen_file true n hn
  rw [Lib.str_signed Gen.lib true n f d (gen_api true) hn hfile hfb hfg hok g v
    (by rw [two_eq_pow]; exact hlo) (by rw [two_eq_pow]; exact hhi)]
  simp [specText, body, digitBytes, bytesOf]

/-- What "grouped" means, independent of the code: `groupRight g l` has `(|l|−1)/3` extra elements,
    starts with the first element of `l` (so no group character follows a sign directly) and ends with
    its last three elements unchanged when there are that many. -/
theorem C13_group_shape (g : Byte) (l : List Byte) :
    (groupRight g l).length = l.length + (l.length - 1) / 3 ∧ (groupRight g l).head? = l.head? := by
  have key : ∀ m : List Byte, (groupRev g m).length = m.length + (m.length - 1) / 3 ∧
      (groupRev g m).getLast? = m.getLast? := by
    intro m
    induction m using groupRev.induct with
    | case1 a b c d rest ih =>
      simp only [groupRev, List.length_cons] at ih ⊢
      refine ⟨by omega, ?_⟩
      have h2 := ih.2
      simp only [List.getLast?_cons_cons] at h2 ⊢
      cases hr : groupRev g (d :: rest) with
      | nil => rw [hr] at ih; exact absurd ih.1 (by simp; omega)
      | cons y ys => rw [hr] at h2; simp only [List.getLast?_cons_cons]; exact h2
    | case2 m h =>
      rw [groupRev.eq_2 _ _ h]
      refine ⟨?_, rfl⟩
      match m, h with
      | [], _ => rfl
      | [_], _ => simp
      | [_, _], _ => simp
      | [_, _, _], _ => simp
      | a :: b :: c :: d :: r, h => exact absurd rfl (fun e => h a b c d r e)
  unfold groupRight
  have := key l.reverse
  constructor
  · simpa using this.1
  · rw [List.head?_reverse, this.2, List.getLast?_reverse]

/-- Buffer variants, all widths, signed and unsigned, plain and grouped, for every caller buffer
    that is large enough for text and terminator (`len + 1 ≤ buf.length`, which includes the exact fit):
    no store outside the buffer (the result is `ok`, never `oob`), the buffer holds the same text as
    the string variant at indices 0..len−1, NUL at index len, every byte beyond is untouched, and the
    returned value is len. -/
theorem C13_buffer (n : Nat) (hn : Width n) (grouped signed : Bool) (v : Int) (g : Byte)
    (hv : if signed then -(2 ^ (n - 1)) ≤ v ∧ v < 2 ^ (n - 1) else 0 ≤ v ∧ v < 2 ^ n)
    (buf : List Byte) (hcap : (specText grouped g v).length + 1 ≤ buf.length) :
    Gen.lib.str grouped n signed g v = .ok (specText grouped g v) ∧
    Gen.lib.buf grouped n signed g v buf =
      .ok (specText grouped g v ++ [0] ++ buf.drop ((specText grouped g v).length + 1),
           ((specText grouped g v).length : Int)) := by
  obtain ⟨f, d, hfile, hfb, hfg, hok⟩ := gen_file grouped n hn
  cases signed with
  | true =>
    simp only [if_true] at hv
    exact ⟨Lib.str_signed Gen.lib grouped n f d (gen_api grouped) hn hfile hfb hfg hok g v
        (by rw [two_eq_pow]; exact hv.1) (by rw [two_eq_pow]; exact hv.2),
      Lib.buf_signed Gen.lib grouped n f d (gen_api grouped) hn hfile hfb hfg hok g v
        (by rw [two_eq_pow]; exact hv.1) (by rw [two_eq_pow]; exact hv.2) buf hcap⟩
  | false =>
    simp only [Bool.false_eq_true, if_false] at hv
    obtain ⟨x, rfl⟩ := Int.eq_ofNat_of_zero_le hv.1
    have hx : x < 2 ^ n := by exact_mod_cast hv.2
    exact ⟨Lib.str_unsigned Gen.lib grouped n f d (gen_api grouped) hn hfile hfb hfg hok g x hx,
      Lib.buf_unsigned Gen.lib grouped n f d (gen_api grouped) hn hfile hfb hfg hok g x hx buf hcap⟩

/-- Round trip: parsing the returned text (`textOf`: the bytes as a `String`) as a decimal integer
    (core `String.toInt?`) yields the
    original value — every width, signed and unsigned, every value. -/
theorem C13_roundtrip (n : Nat) (hn : Width n) (signed : Bool) (v : Int) (g : Byte)
    (hv : if signed then -(2 ^ (n - 1)) ≤ v ∧ v < 2 ^ (n - 1) else 0 ≤ v ∧ v < 2 ^ n) :
    ∃ t, Gen.lib.str false n signed g v = .ok t ∧ (textOf t).toInt? = some v := by
  have hrt : (textOf (bytesOf (toString v))).toInt? = some v := by
    unfold textOf bytesOf
    rw [List.map_map]
    have : (Char.ofNat ∘ Char.toNat) = id := by funext c; simp
    rw [this, List.map_id, String.ofList_toList, Int.toString_eq_repr, Int.toInt?_repr]
  cases signed with
  | true =>
    simp only [if_true] at hv
    exact ⟨_, C13_signed n hn v hv.1 hv.2 g, hrt⟩
  | false =>
    simp only [Bool.false_eq_true, if_false] at hv
    obtain ⟨x, rfl⟩ := Int.eq_ofNat_of_zero_le hv.1
    have hx : x < 2 ^ n := by exact_mod_cast hv.2
    refine ⟨_, C13_unsigned n hn x hx g, ?_⟩
    have : toString x = toString (x : Int) := by
      rw [Int.toString_eq_repr, Int.repr_eq_if, if_pos (by omega)]; simp
    rw [this]; exact hrt

/-! ### the hypotheses are satisfiable, the statements are about real values -/

example : Width 64 := .inr (.inr (.inr rfl))
-- uint64 maximum: "18446744073709551615"
example : okWith (Gen.lib.str false 64 false 0 18446744073709551615)
    [49, 56, 52, 52, 54, 55, 52, 52, 48, 55, 51, 55, 48, 57, 53, 53, 49, 54, 49, 53] = true := by decide
-- int32 minimum: "-2147483648"
example : okWith (Gen.lib.str false 32 true 0 (-2147483648)) [45, 50, 49, 52, 55, 52, 56, 51, 54, 52, 56] = true := by
  decide
-- int64 minimum, grouped with ' (39): "-9'223'372'036'854'775'808"
example : okWith (Gen.lib.str true 64 true 39 (-9223372036854775808))
    [45, 57, 39, 50, 50, 51, 39, 51, 55, 50, 39, 48, 51, 54, 39, 56, 53, 52, 39, 55, 55, 53, 39, 56, 48, 56] = true := by
  decide
-- uint16 1000 grouped with '.': "1.000"
example : okWith (Gen.lib.str true 16 false 46 1000) [49, 46, 48, 48, 48] = true := by decide
-- int8 minimum into a 7-byte buffer: "-128", NUL, two untouched bytes, returns 4
example : okBuf (Gen.lib.buf false 8 true 0 (-128) [7, 7, 7, 7, 7, 7, 7]) [45, 49, 50, 56, 0, 7, 7] 4 = true := by decide
-- "1234567" grouped: "1'234'567"
example : groupRight 39 [49, 50, 51, 52, 53, 54, 55] = [49, 39, 50, 51, 52, 39, 53, 54, 55] := by decide

end CelmaVerif.Props.C13
