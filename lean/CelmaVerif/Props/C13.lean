import CelmaVerif.Lemmas.Int2StrGen
import CelmaVerif.Lemmas.Int2StrLiteral
import CelmaVerif.Lemmas.Int2StrGroup
import Std.Data.String.ToInt
/-
  C13 — integer-to-string conversions are exact for every integer.
  Property theorems only.  They are statements about `Gen.lib`, the tables that
  translate/int2str.py regenerates from the C++ sources on every run
  (Generated/Int2Str.lean), executed by the interpreter of Model/Int2Str.lean; the hypotheses of
  the generic lemmas are the `decide`d obligations of Generated/Int2StrOk.lean.
  Who computes what: the translator (Python, trusted, cross-validated by the correspondence run)
  parses the C++, executes the control flow of `convert()` per digit count (which `case` runs, the
  fall-through, the `++num_digits == 4` counter) and writes the resulting statement traces; the
  kernel checks by `decide` that these traces, the decision trees and the caller expressions have
  the required form, and the generic lemmas do the rest for all values.  `C13_switch_as_written`
  closes the gap for the switch: a second, literal reading of `convert()` (statements as written,
  counter included) is executed by the Lean interpreter and proved to give the same results.
  `Lib.str grouped n signed g v` is `int2string( v)` / `grouped_int2string( v, g)` for the integral
  type with `n` bits and that signedness, `Lib.buf … buf` the overload writing into `buf`.
  Specification: core Lean's `toString` on `Nat`/`Int` (`Nat.repr`, i.e. `Nat.toDigits 10`).
-/
namespace CelmaVerif.Props.C13
open CelmaVerif CelmaVerif.Int2Str

/-- Unsigned types, every width n ∈ {8,16,32,64}, every value below 2^n: `int2string` returns exactly
    the decimal representation. -/
theorem C13_unsigned (n : Nat) (hn : Width n) (x : Nat) (hx : x < 2 ^ n) (g : Byte) :
    Gen.lib.str false n false g x = .ok (bytesOf (toString x)) := by
  obtain ⟨f, d, hfile, hfb, hfg, hok⟩ := gen_file false n hn
  rw [Lib.str_unsigned Gen.lib false n f d (gen_api false) hn hfile hfb hfg hok g x hx, specText_plain]
  congr 2

/-- Signed types, every width, every value from −2^(n−1) (the minimum, whose negation does not fit the
    signed type) to 2^(n−1)−1: `int2string` returns exactly the decimal representation. -/
theorem C13_signed (n : Nat) (hn : Width n) (v : Int) (hlo : -(2 ^ (n - 1)) ≤ v) (hhi : v < 2 ^ (n - 1))
    (g : Byte) :
    Gen.lib.str false n true g v = .ok (bytesOf (toString v)) := by
  obtain ⟨f, d, hfile, hfb, hfg, hok⟩ := gen_file false n hn
  rw [Lib.str_signed Gen.lib false n f d (gen_api false) hn hfile hfb hfg hok g v
    (by rw [two_eq_pow]; exact hlo) (by rw [two_eq_pow]; exact hhi), specText_plain]

/-- Grouped variants, unsigned types, every group character: the decimal digits with the group
    character after every third digit counted from the right. -/
theorem C13_grouped_unsigned (n : Nat) (hn : Width n) (x : Nat) (hx : x < 2 ^ n) (g : Byte) :
    Gen.lib.str true n false g x = .ok (groupRight g (bytesOf (toString x))) := by
  obtain ⟨f, d, hfile, hfb, hfg, hok⟩ := gen_file true n hn
  rw [Lib.str_unsigned Gen.lib true n f d (gen_api true) hn hfile hfb hfg hok g x hx]
  simp [specText, body, digitBytes, bytesOf]

/-- Grouped variants, signed types, every value including the minimum, every group character: the
    sign (if negative) followed by the grouped digits of the magnitude — the group character is placed
    inside the digit string only, hence never next to the sign (see `C13_group_shape`). -/
theorem C13_grouped_signed (n : Nat) (hn : Width n) (v : Int) (hlo : -(2 ^ (n - 1)) ≤ v) (hhi : v < 2 ^ (n - 1))
    (g : Byte) :
    Gen.lib.str true n true g v =
      .ok ((if v < 0 then [45] else []) ++ groupRight g (bytesOf (toString v.natAbs))) := by
  obtain ⟨f, d, hfile, hfb, hfg, hok⟩ := gen_file true n hn
  rw [Lib.str_signed Gen.lib true n f d (gen_api true) hn hfile hfb hfg hok g v
    (by rw [two_eq_pow]; exact hlo) (by rw [two_eq_pow]; exact hhi)]
  simp [specText, body, digitBytes, bytesOf]

/-- Two consequences of what "grouped" means (`C13_group_positions` is the full, positional
    characterisation): `groupRight g l` has `(|l|−1)/3` extra elements and starts with the first
    element of `l`.  With `C13_grouped_signed` (the sign is prepended to `groupRight g digits`, and
    the digit string is never empty) the character after a minus sign is therefore the leading digit,
    not an inserted group character.  When the caller chooses `g` = '-' or a digit the text is still
    exactly this one, but "adjacent to the sign" no longer distinguishes anything. -/
theorem C13_group_shape (g : Byte) (l : List Byte) :
    (groupRight g l).length = l.length + (l.length - 1) / 3 ∧ (groupRight g l).head? = l.head? := by
  have key : ∀ m : List Byte, (groupRev g m).length = m.length + (m.length - 1) / 3 ∧
      (groupRev g m).getLast? = m.getLast? := by
    intro m
    induction m using groupRev.induct with
    | case1 a b c d rest ih =>
      simp only [groupRev, List.length_cons] at ih ⊢
      refine ⟨by omega, ?_⟩
      have h2 := ih.2
      simp only [List.getLast?_cons_cons] at h2 ⊢
      cases hr : groupRev g (d :: rest) with
      | nil => rw [hr] at ih; exact absurd ih.1 (by simp; omega)
      | cons y ys => rw [hr] at h2; simp only [List.getLast?_cons_cons]; exact h2
    | case2 m h =>
      rw [groupRev.eq_2 _ _ h]
      refine ⟨?_, rfl⟩
      match m, h with
      | [], _ => rfl
      | [_], _ => simp
      | [_, _], _ => simp
      | [_, _, _], _ => simp
      | a :: b :: c :: d :: r, h => exact absurd rfl (fun e => h a b c d r e)
  unfold groupRight
  have := key l.reverse
  constructor
  · simpa using this.1
  · rw [List.head?_reverse, this.2, List.getLast?_reverse]

/-- **What "grouped" means, position by position, independent of the code.**  Count the characters of
    `groupRight g l` from the right, index 0 being the last one.  Every index `i` with `i % 4 = 3`
    that lies inside the text (`i < |l| + (|l|−1)/3`) holds the group character; every other index
    `i` holds element `i − i/4` of `l` counted from the right — i.e. the digits in their order with
    exactly one group character between every three of them, counted from the right, and none in
    front of the leading digit (an index with `i % 4 = 3` is inside the text only if a digit
    follows on its left: the text length is never ≡ 0 mod 4). -/
theorem C13_group_positions (g : Byte) (l : List Byte) (i : Nat) :
    (groupRight g l).reverse[i]? =
      if i % 4 = 3 then (if i < l.length + (l.length - 1) / 3 then some g else none)
      else l.reverse[i - i / 4]? :=
  groupRight_reverse_getElem? g l i

/-- Grouping only inserts: deleting the group characters from `groupRight g l` gives `l` back
    (for a group character that does not occur in `l` itself). -/
theorem C13_group_erase (g : Byte) (l : List Byte) (hg : g ∉ l) :
    (groupRight g l).filter (fun x => x != g) = l :=
  groupRight_filter g l hg

/-- Buffer variants, all widths, signed and unsigned, plain and grouped, for every caller buffer
    that is large enough for text and terminator (`len + 1 ≤ buf.length`, which includes the exact fit):
    no store outside the buffer (the result is `ok`, never `oob`), the buffer holds the same text as
    the string variant at indices 0..len−1, NUL at index len, every byte beyond is untouched, and the
    returned value is len. -/
theorem C13_buffer (n : Nat) (hn : Width n) (grouped signed : Bool) (v : Int) (g : Byte)
    (hv : if signed then -(2 ^ (n - 1)) ≤ v ∧ v < 2 ^ (n - 1) else 0 ≤ v ∧ v < 2 ^ n)
    (buf : List Byte) (hcap : (specText grouped g v).length + 1 ≤ buf.length) :
    Gen.lib.str grouped n signed g v = .ok (specText grouped g v) ∧
    Gen.lib.buf grouped n signed g v buf =
      .ok (specText grouped g v ++ [0] ++ buf.drop ((specText grouped g v).length + 1),
           ((specText grouped g v).length : Int)) := by
  obtain ⟨f, d, hfile, hfb, hfg, hok⟩ := gen_file grouped n hn
  cases signed with
  | true =>
    simp only [if_true] at hv
    exact ⟨Lib.str_signed Gen.lib grouped n f d (gen_api grouped) hn hfile hfb hfg hok g v
        (by rw [two_eq_pow]; exact hv.1) (by rw [two_eq_pow]; exact hv.2),
      Lib.buf_signed Gen.lib grouped n f d (gen_api grouped) hn hfile hfb hfg hok g v
        (by rw [two_eq_pow]; exact hv.1) (by rw [two_eq_pow]; exact hv.2) buf hcap⟩
  | false =>
    simp only [Bool.false_eq_true, if_false] at hv
    obtain ⟨x, rfl⟩ := Int.eq_ofNat_of_zero_le hv.1
    have hx : x < 2 ^ n := by exact_mod_cast hv.2
    exact ⟨Lib.str_unsigned Gen.lib grouped n f d (gen_api grouped) hn hfile hfb hfg hok g x hx,
      Lib.buf_unsigned Gen.lib grouped n f d (gen_api grouped) hn hfile hfb hfg hok g x hx buf hcap⟩

/-- Round trip of the PLAIN string form: parsing the returned text (`textOf`: the bytes as a `String`)
    as a decimal integer yields the original value — every width, signed and unsigned, every value.
    The parser is core `String.toInt?`; it stands for `celma::format::stringTo<T>`, which is a
    one-line forwarder to `std::stoi` / `std::stol` / `std::stoul` (string_to.hpp) and is not
    modelled — the harness runs the real `stringTo<T>` on every text it checks.  Grouped forms:
    `C13_roundtrip_grouped`; buffer forms: `C13_roundtrip_buffer`. -/
theorem C13_roundtrip (n : Nat) (hn : Width n) (signed : Bool) (v : Int) (g : Byte)
    (hv : if signed then -(2 ^ (n - 1)) ≤ v ∧ v < 2 ^ (n - 1) else 0 ≤ v ∧ v < 2 ^ n) :
    ∃ t, Gen.lib.str false n signed g v = .ok t ∧ (textOf t).toInt? = some v := by
  have hrt : (textOf (bytesOf (toString v))).toInt? = some v := by
    unfold textOf bytesOf
    rw [List.map_map]
    have : (Char.ofNat ∘ Char.toNat) = id := by funext c; simp
    rw [this, List.map_id, String.ofList_toList, Int.toString_eq_repr, Int.toInt?_repr]
  cases signed with
  | true =>
    simp only [if_true] at hv
    exact ⟨_, C13_signed n hn v hv.1 hv.2 g, hrt⟩
  | false =>
    simp only [Bool.false_eq_true, if_false] at hv
    obtain ⟨x, rfl⟩ := Int.eq_ofNat_of_zero_le hv.1
    have hx : x < 2 ^ n := by exact_mod_cast hv.2
    refine ⟨_, C13_unsigned n hn x hx g, ?_⟩
    have : toString x = toString (x : Int) := by
      rw [Int.toString_eq_repr, Int.repr_eq_if, if_pos (by omega)]; simp
    rw [this]; exact hrt

/-- Round trip of the GROUPED string form: the grouped text itself is not a decimal numeral, so the
    group characters are deleted first (what a reader of such a text does); the remaining text
    parses to the original value.  For every group character other than the minus sign and the ten
    digits (for those the grouped text is ambiguous by construction — the harness skips them too). -/
theorem C13_roundtrip_grouped (n : Nat) (hn : Width n) (signed : Bool) (v : Int) (g : Byte)
    (hv : InRange n signed v) (hg : g ≠ 45 ∧ ¬ (48 ≤ g ∧ g ≤ 57)) :
    ∃ t, Gen.lib.str true n signed g v = .ok t ∧
      (textOf (t.filter (fun x => x != g))).toInt? = some v := by
  refine ⟨_, (lib_spec Gen.lib gen_file gen_api n hn true signed v g hv).1, ?_⟩
  rw [specText_filter g v hg, specText_plain]
  unfold textOf bytesOf
  rw [List.map_map]
  have : (Char.ofNat ∘ Char.toNat) = id := by funext c; simp
  rw [this, List.map_id, String.ofList_toList, Int.toString_eq_repr, Int.toInt?_repr]

/-- Round trip of the BUFFER forms, plain and grouped: the first `ret` bytes of the caller's buffer
    (`ret` = the returned length; the byte after them is the NUL, `C13_buffer`), with the group
    characters deleted in the grouped case, parse to the original value. -/
theorem C13_roundtrip_buffer (n : Nat) (hn : Width n) (grouped signed : Bool) (v : Int) (g : Byte)
    (hv : InRange n signed v) (hg : grouped = true → g ≠ 45 ∧ ¬ (48 ≤ g ∧ g ≤ 57))
    (buf : List Byte) (hcap : (specText grouped g v).length + 1 ≤ buf.length) :
    ∃ m ret, Gen.lib.buf grouped n signed g v buf = .ok (m, ret) ∧
      (textOf (if grouped then (m.take ret.toNat).filter (fun x => x != g) else m.take ret.toNat)).toInt?
        = some v := by
  refine ⟨_, _, (lib_spec Gen.lib gen_file gen_api n hn grouped signed v g hv).2 buf hcap, ?_⟩
  have htake : (specText grouped g v ++ [0] ++ buf.drop ((specText grouped g v).length + 1)).take
      ((specText grouped g v).length : Int).toNat = specText grouped g v := by
    rw [Int.toNat_natCast, List.append_assoc, List.take_left']
    rfl
  rw [htake]
  have hplain : (textOf (specText false g v)).toInt? = some v := by
    rw [specText_plain]
    unfold textOf bytesOf
    rw [List.map_map]
    have : (Char.ofNat ∘ Char.toNat) = id := by funext c; simp
    rw [this, List.map_id, String.ofList_toList, Int.toString_eq_repr, Int.toInt?_repr]
  cases grouped with
  | false => simpa using hplain
  | true =>
    simp only [if_true]
    rw [specText_filter g v (hg rfl)]
    exact hplain

/-- **The switch as written.**  `Gen.libLiteral` is the library in which `convert()` is not the
    trace the translator computed but the *statements of the source switch as they stand*
    (second, literal reading: `uint8_t num_digits = 0;`, every `case` with its `++num_digits;` /
    `checkAddGroupChar( buffer, num_digits, group_char);` statements, `[[fallthrough]]`, `default`):
    selecting the case, falling through and counting digits to place the group character are done
    by the Lean interpreter (`switchOps`, `Op.step` for `inc` / `check thr reset`), and the kernel
    checks the obligations `…_literal_rows_ok` for it.  For every width, family, value and group
    character it returns the specification text and fills the buffer exactly like `Gen.lib`
    (`C13_unsigned` … `C13_buffer`).  So the placement of the group characters does not rest on the
    translator's evaluation of the counter.  (Where a tree's `convert()` cannot be read literally
    — a rewritten but equivalent function — `libLiteral` falls back to the trace rows for that file
    and this theorem says nothing new for it; `Generated/Int2Str.lean` and the run report say which
    files were read literally: all eight on the unchanged tree, example below.) -/
theorem C13_switch_as_written (n : Nat) (hn : Width n) (grouped signed : Bool) (v : Int) (g : Byte)
    (hv : InRange n signed v) :
    Gen.libLiteral.str grouped n signed g v = .ok (specText grouped g v) ∧
    Gen.libLiteral.str grouped n signed g v = Gen.lib.str grouped n signed g v ∧
    ∀ buf : List Byte, (specText grouped g v).length + 1 ≤ buf.length →
      Gen.libLiteral.buf grouped n signed g v buf =
        .ok (specText grouped g v ++ [0] ++ buf.drop ((specText grouped g v).length + 1),
             ((specText grouped g v).length : Int)) ∧
      Gen.libLiteral.buf grouped n signed g v buf = Gen.lib.buf grouped n signed g v buf := by
  have h1 := lib_spec Gen.libLiteral gen_file_literal gen_api_literal n hn grouped signed v g hv
  have h2 := lib_spec Gen.lib gen_file gen_api n hn grouped signed v g hv
  refine ⟨h1.1, by rw [h1.1, h2.1], ?_⟩
  intro buf hcap
  exact ⟨h1.2 buf hcap, by rw [h1.2 buf hcap, h2.2 buf hcap]⟩

/-! ### the hypotheses are satisfiable, the statements are about real values -/

example : Width 64 := .inr (.inr (.inr rfl))
-- uint64 maximum: "18446744073709551615"
example : okWith (Gen.lib.str false 64 false 0 18446744073709551615)
    [49, 56, 52, 52, 54, 55, 52, 52, 48, 55, 51, 55, 48, 57, 53, 53, 49, 54, 49, 53] = true := by decide
-- int32 minimum: "-2147483648"
example : okWith (Gen.lib.str false 32 true 0 (-2147483648)) [45, 50, 49, 52, 55, 52, 56, 51, 54, 52, 56] = true := by
  decide
-- int64 minimum, grouped with ' (39): "-9'223'372'036'854'775'808"
example : okWith (Gen.lib.str true 64 true 39 (-9223372036854775808))
    [45, 57, 39, 50, 50, 51, 39, 51, 55, 50, 39, 48, 51, 54, 39, 56, 53, 52, 39, 55, 55, 53, 39, 56, 48, 56] = true := by
  decide
-- uint16 1000 grouped with '.': "1.000"
example : okWith (Gen.lib.str true 16 false 46 1000) [49, 46, 48, 48, 48] = true := by decide
-- int8 minimum into a 7-byte buffer: "-128", NUL, two untouched bytes, returns 4
example : okBuf (Gen.lib.buf false 8 true 0 (-128) [7, 7, 7, 7, 7, 7, 7]) [45, 49, 50, 56, 0, 7, 7] 4 = true := by decide
-- "1234567" grouped: "1'234'567"
example : groupRight 39 [49, 50, 51, 52, 53, 54, 55] = [49, 39, 50, 51, 52, 39, 53, 54, 55] := by decide
-- positions from the right of "1'234'567": index 3 and 7 hold the group character, index 4 the digit '4'
example : (groupRight 39 [49, 50, 51, 52, 53, 54, 55]).reverse[3]? = some 39 := by decide
example : (groupRight 39 [49, 50, 51, 52, 53, 54, 55]).reverse[4]? = some 52 := by decide
-- the hypotheses of the round-trip theorems: int16 minimum is in range, ' is an admissible group character
example : InRange 16 true (-32768) := by unfold InRange; decide
example : (39 : Byte) ≠ 45 ∧ ¬ (48 ≤ (39 : Byte) ∧ (39 : Byte) ≤ 57) := by decide
-- the switch as written, executed by the Lean interpreter: int64 minimum grouped, uint16 1000 into a buffer
example : okWith (Gen.libLiteral.str true 64 true 39 (-9223372036854775808))
    [45, 57, 39, 50, 50, 51, 39, 51, 55, 50, 39, 48, 51, 54, 39, 56, 53, 52, 39, 55, 55, 53, 39, 56, 48, 56] = true := by
  decide
example : okBuf (Gen.libLiteral.buf true 16 false 46 1000 [7, 7, 7, 7, 7, 7, 7]) [49, 46, 48, 48, 48, 0, 7] 5 = true := by
  decide

end CelmaVerif.Props.C13
