import CelmaVerif.Model.Buffers
namespace CelmaVerif.Buffers
open CelmaVerif

/-! ### WriteBuffer -/

def WBuf.Inv (b : WBuf) : Prop := b.buf.length = b.N ∧ b.pos ≤ b.N

/-- everything that was appended and not lost: sink blocks followed by the buffered bytes -/
def WBuf.stream (b : WBuf) : List Byte := b.sink.flatten ++ b.buf.take b.pos

theorem WBuf.new_inv (N : Nat) : (WBuf.new N).Inv := by
  simp [WBuf.new, WBuf.Inv]

theorem WBuf.flush_spec (b : WBuf) (h : b.Inv) :
    ∃ b', b.flush = .ok b' ∧ b'.Inv ∧ b'.N = b.N ∧ b'.pos = 0 ∧ b'.buf = b.buf ∧
      b'.sink = (if b.pos > 0 then b.sink ++ [b.buf.take b.pos] else b.sink) := by
  obtain ⟨h1, h2⟩ := h
  unfold WBuf.flush
  by_cases hp : b.pos > 0
  · have hr : Mem.read b.buf 0 b.pos "flush: read buffer" = .ok (b.buf.take b.pos) := by
      rw [Mem.read_ok (by omega)]; simp
    simp [hp, hr, WBuf.Inv, h1]
  · have : b.pos = 0 := by omega
    simp [hp, WBuf.Inv, h1, this]

theorem WBuf.flush_stream (b b' : WBuf) (h : b.Inv) (hf : b.flush = .ok b') : b'.stream = b.stream ∧ b'.sink.flatten = b.stream := by
  obtain ⟨b'', h1, _, _, h4, h5, h6⟩ := WBuf.flush_spec b h
  rw [hf] at h1; cases h1
  unfold WBuf.stream
  rw [h4, h5, h6]
  by_cases hp : b.pos > 0
  · simp [hp]
  · have : b.pos = 0 := by omega
    simp [this]

theorem WBuf.append_spec (b : WBuf) (d : List Byte) (h : b.Inv) :
    ∃ b', b.append d = .ok b' ∧ b'.Inv ∧ b'.N = b.N ∧ b'.stream = b.stream ++ d := by
  obtain ⟨h1, h2⟩ := h
  unfold WBuf.append
  by_cases h0 : d.length = 0
  · have : d = [] := List.eq_nil_of_length_eq_zero h0
    simp [h0, this, WBuf.Inv, h1, h2]
  · simp only [beq_iff_eq, h0, if_false]
    by_cases hbig : d.length ≥ b.N
    · simp only [hbig, if_true]
      obtain ⟨bf, hf, hfi, hfn, hfp, hfb, hfs⟩ := WBuf.flush_spec b ⟨h1, h2⟩
      have hs := (WBuf.flush_stream b bf ⟨h1, h2⟩ hf).1
      rw [hf]
      refine ⟨_, rfl, ?_, hfn, ?_⟩
      · exact hfi
      · unfold WBuf.stream at *
        simp only [hfp, List.take_zero, List.append_nil] at hs ⊢
        simp [hs]
    · simp only [hbig, if_false]
      by_cases hroom : b.N - b.pos < d.length
      · simp only [hroom, if_true]
        obtain ⟨bf, hf, hfi, hfn, hfp, hfb, hfs⟩ := WBuf.flush_spec b ⟨h1, h2⟩
        have hs := (WBuf.flush_stream b bf ⟨h1, h2⟩ hf).1
        rw [hf]
        have hlen : 0 + d.length ≤ bf.buf.length := by rw [hfb, h1]; omega
        simp only [Res.bind_ok, Mem.write_ok hlen]
        refine ⟨_, rfl, ?_, hfn, ?_⟩
        · simp [WBuf.Inv, hfn, hfb, h1]; omega
        · unfold WBuf.stream at *
          simp only [hfp, List.take_zero, List.append_nil] at hs
          simp [hs]
      · simp only [hroom, if_false]
        have hlen : b.pos + d.length ≤ b.buf.length := by omega
        simp only [Mem.write_ok hlen, Res.bind_ok]
        refine ⟨_, rfl, ?_, rfl, ?_⟩
        · simp [WBuf.Inv, h1]; omega
        · unfold WBuf.stream
          simp only [List.append_assoc]
          congr 1
          have hp : (b.buf.take b.pos).length = b.pos := by simp; omega
          have : b.pos + d.length = (b.buf.take b.pos ++ d).length := by simp [hp]
          rw [← List.append_assoc, this, List.take_left']
          rfl

end CelmaVerif.Buffers

namespace CelmaVerif.Buffers
open CelmaVerif

theorem WBuf.step_spec (b : WBuf) (op : WOp) (h : b.Inv) :
    ∃ b', b.step op = .ok b' ∧ b'.Inv ∧ b'.N = b.N ∧ b'.stream = b.stream ++ appended [op] := by
  cases op with
  | append d =>
    obtain ⟨b', h1, h2, h3, h4⟩ := WBuf.append_spec b d h
    exact ⟨b', h1, h2, h3, by simp [appended, h4]⟩
  | flush =>
    obtain ⟨b', h1, h2, h3, _⟩ := WBuf.flush_spec b h
    exact ⟨b', h1, h2, h3, by simp [appended, (WBuf.flush_stream b b' h h1).1]⟩

theorem appended_cons (op : WOp) (ops : List WOp) : appended (op :: ops) = appended [op] ++ appended ops := by
  cases op <;> simp [appended]

theorem WBuf.run_spec (ops : List WOp) : ∀ (b : WBuf), b.Inv →
    ∃ b', b.run ops = .ok b' ∧ b'.Inv ∧ b'.N = b.N ∧ b'.stream = b.stream ++ appended ops := by
  induction ops with
  | nil => intro b h; exact ⟨b, rfl, h, rfl, by simp [appended]⟩
  | cons op ops ih =>
    intro b h
    obtain ⟨b1, h1, h2, h3, h4⟩ := WBuf.step_spec b op h
    obtain ⟨b2, g1, g2, g3, g4⟩ := ih b1 h2
    refine ⟨b2, ?_, g2, by rw [g3, h3], ?_⟩
    · simp only [WBuf.run, h1, Res.bind_ok]; exact g1
    · rw [g4, h4, appended_cons op ops, List.append_assoc]

/-! ### ReadBuffer -/

def RBuf.Inv (r : RBuf) : Prop := r.buf.length = r.N ∧ r.start ≤ r.stop ∧ r.stop ≤ r.N

/-- bytes held in the buffer and not yet handed out -/
def RBuf.avail (r : RBuf) : List Byte := (r.buf.drop r.start).take (r.stop - r.start)

/-- the byte stream still to be delivered: buffered bytes, then the rest of the source -/
def RBuf.pending (r : RBuf) : List Byte := r.avail ++ r.src

theorem RBuf.new_inv (N : Nat) (src : List Byte) (chunks : List Nat) : (RBuf.new N src chunks).Inv := by
  simp [RBuf.new, RBuf.Inv]

theorem RBuf.new_pending (N : Nat) (src : List Byte) (chunks : List Nat) : (RBuf.new N src chunks).pending = src := by
  simp [RBuf.new, RBuf.pending, RBuf.avail]

theorem avail_length (r : RBuf) (h : r.Inv) : r.avail.length = r.stop - r.start := by
  obtain ⟨h1, h2, h3⟩ := h
  simp [RBuf.avail]; omega

private theorem window_after_write (buf x : List Byte) (start stop : Nat)
    (h1 : start ≤ stop) (h2 : stop + x.length ≤ buf.length) :
    ((buf.take stop ++ x ++ buf.drop (stop + x.length)).drop start).take (stop + x.length - start)
      = (buf.drop start).take (stop - start) ++ x := by
  have hl : (buf.take stop).length = stop := by simp; omega
  have e1 : (buf.take stop ++ x ++ buf.drop (stop + x.length)).drop start
      = (buf.take stop).drop start ++ (x ++ buf.drop (stop + x.length)) := by
    rw [List.append_assoc, List.drop_append_of_le_length (by omega)]
  rw [e1, List.drop_take, ← List.append_assoc]
  have hA : ((buf.drop start).take (stop - start) ++ x).length = stop + x.length - start := by
    simp; omega
  rw [← hA, List.take_left']
  rfl

theorem RBuf.readOnce_spec (r : RBuf) (h : r.Inv) (hs : r.src ≠ []) :
    ∃ r' n, r.readOnce = .ok (r', n) ∧ r'.Inv ∧ r'.N = r.N ∧ r'.start = r.start ∧
      r'.stop = r.stop + n ∧ r'.pending = r.pending ∧ r'.src = r.src.drop n ∧
      r'.chunks = r.chunks.tail ∧
      n = min (min (r.N - r.stop) (r.chunks.headD (r.N - r.stop))) r.src.length := by
  obtain ⟨h1, h2, h3⟩ := h
  unfold RBuf.readOnce
  have hne : r.src.isEmpty = false := by cases hsrc : r.src <;> simp_all
  simp only [hne, Bool.false_eq_true, if_false]
  generalize hn : min (min (r.N - r.stop) (r.chunks.headD (r.N - r.stop))) r.src.length = n
  have hnl : (List.take n r.src).length = n := by simp; omega
  have hlen : r.stop + (List.take n r.src).length ≤ r.buf.length := by
    rw [hnl]; omega
  rw [Mem.write_ok hlen]
  refine ⟨_, _, rfl, ?_, rfl, rfl, rfl, ?_, rfl, rfl, rfl⟩
  · simp [RBuf.Inv, h1]; omega
  · unfold RBuf.pending RBuf.avail
    simp only
    have := window_after_write r.buf (List.take n r.src) r.start r.stop h2 hlen
    rw [hnl]
    rw [hnl] at this
    rw [this, List.append_assoc, List.take_append_drop]

/-- what the fill loop guarantees; `res` is never `oob` -/
def FillPost (r r' : RBuf) (res : Res Unit) (minLen : Nat) : Prop :=
  r'.Inv ∧ r'.N = r.N ∧ r'.start = r.start ∧ r'.pending = r.pending ∧
    ((res = .ok () ∧ minLen ≤ r'.stop - r'.start) ∨ (res = .throw .eof ∧ r.pending.length < minLen))

theorem RBuf.readOnce_eof (r : RBuf) (hs : r.src = []) : r.readOnce = .throw .eof := by
  unfold RBuf.readOnce; simp [hs]

theorem RBuf.fillLoop_spec (fuel : Nat) : ∀ (r : RBuf) (minLen : Nat), r.Inv → r.chunks.length = fuel →
    minLen ≤ r.N - r.start → r.stop - r.start < minLen →
    FillPost r (r.fillLoop minLen fuel).1 (r.fillLoop minLen fuel).2 minLen := by
  induction fuel with
  | zero =>
    intro r minLen hI hc hcap hshort
    have hch : r.chunks = [] := List.eq_nil_of_length_eq_zero hc
    unfold RBuf.fillLoop
    by_cases hs : r.src = []
    · rw [RBuf.readOnce_eof r hs]
      refine ⟨hI, rfl, rfl, rfl, Or.inr ⟨rfl, ?_⟩⟩
      simp [RBuf.pending, hs, avail_length r hI]; exact hshort
    · obtain ⟨r1, n, e1, hI1, hN1, hst1, hsp1, hp1, hsrc1, hch1, hn⟩ := RBuf.readOnce_spec r hI hs
      rw [e1]
      simp only
      by_cases hsh : r1.stop - r1.start < minLen
      · simp only [hsh, if_true]
        have hsrc : r1.src = [] := by
          rw [hsrc1]
          apply List.drop_eq_nil_of_le
          rw [hch] at hn; simp at hn
          obtain ⟨_, _, _⟩ := hI
          omega
        rw [RBuf.readOnce_eof r1 hsrc]
        refine ⟨hI1, hN1, hst1, hp1, Or.inr ⟨rfl, ?_⟩⟩
        rw [← hp1]; simp [RBuf.pending, hsrc, avail_length r1 hI1]; exact hsh
      · simp only [hsh, if_false]
        exact ⟨hI1, hN1, hst1, hp1, Or.inl ⟨rfl, by omega⟩⟩
  | succ fuel ih =>
    intro r minLen hI hc hcap hshort
    unfold RBuf.fillLoop
    by_cases hs : r.src = []
    · rw [RBuf.readOnce_eof r hs]
      refine ⟨hI, rfl, rfl, rfl, Or.inr ⟨rfl, ?_⟩⟩
      simp [RBuf.pending, hs, avail_length r hI]; exact hshort
    · obtain ⟨r1, n, e1, hI1, hN1, hst1, hsp1, hp1, hsrc1, hch1, hn⟩ := RBuf.readOnce_spec r hI hs
      rw [e1]
      simp only
      by_cases hsh : r1.stop - r1.start < minLen
      · simp only [hsh, if_true]
        have hc1 : r1.chunks.length = fuel := by rw [hch1]; simp [hc]
        have := ih r1 minLen hI1 hc1 (by rw [hN1, hst1]; exact hcap) hsh
        obtain ⟨g1, g2, g3, g4, g5⟩ := this
        refine ⟨g1, by rw [g2, hN1], by rw [g3, hst1], by rw [g4, hp1], ?_⟩
        rw [← hp1]; exact g5
      · simp only [hsh, if_false]
        exact ⟨hI1, hN1, hst1, hp1, Or.inl ⟨rfl, by omega⟩⟩

theorem RBuf.fillBuffer_spec (r : RBuf) (minLen : Nat) (hI : r.Inv) (hN : minLen ≤ r.N)
    (hshort : r.stop - r.start < minLen) :
    let p := r.fillBuffer minLen
    p.1.Inv ∧ p.1.N = r.N ∧ p.1.pending = r.pending ∧
      ((p.2 = .ok () ∧ minLen ≤ p.1.stop - p.1.start) ∨ (p.2 = .throw .eof ∧ r.pending.length < minLen)) := by
  obtain ⟨h1, h2, h3⟩ := hI
  unfold RBuf.fillBuffer
  by_cases he : r.start = r.stop
  · simp only [he, beq_self_eq_true, if_true]
    let r1 : RBuf := { r with start := 0, stop := 0 }
    have hI1 : r1.Inv := by simp [r1, RBuf.Inv, h1]
    have hp1 : r1.pending = r.pending := by simp [r1, RBuf.pending, RBuf.avail, he]
    have := RBuf.fillLoop_spec r1.chunks.length r1 minLen hI1 rfl (by simp [r1]; exact hN) (by simp [r1]; omega)
    obtain ⟨g1, g2, g3, g4, g5⟩ := this
    exact ⟨g1, g2, by rw [g4, hp1], by rw [← hp1]; exact g5⟩
  · have hne : (r.start == r.stop) = false := by simp [he]
    simp only [hne, Bool.false_eq_true, if_false]
    by_cases hroom : r.N - r.start < minLen
    · simp only [hroom, if_true]
      have hrd : r.start + (r.stop - r.start) ≤ r.buf.length := by omega
      unfold Mem.move
      rw [Mem.read_ok hrd]
      simp only
      have hwl : 0 + (List.take (r.stop - r.start) (List.drop r.start r.buf)).length ≤ r.buf.length := by
        simp; omega
      rw [Mem.write_ok hwl]
      simp only
      generalize hb : (List.take 0 r.buf ++ List.take (r.stop - r.start) (List.drop r.start r.buf) ++
          List.drop (0 + (List.take (r.stop - r.start) (List.drop r.start r.buf)).length) r.buf) = nb
      have hal : (List.take (r.stop - r.start) (List.drop r.start r.buf)).length = r.stop - r.start := by
        simp; omega
      let r1 : RBuf := { r with buf := nb, stop := r.stop - r.start, start := 0 }
      have hnbl : nb.length = r.buf.length := by
        rw [← hb]; simp; omega
      have hI1 : r1.Inv := by simp [r1, RBuf.Inv, hnbl, h1]; omega
      have hp1 : r1.pending = r.pending := by
        simp only [r1, RBuf.pending, RBuf.avail, List.drop_zero, Nat.sub_zero]
        congr 1
        rw [← hb]
        simp only [List.take_zero, List.nil_append]
        rw [← hal, List.take_left']
        simp
      have := RBuf.fillLoop_spec r1.chunks.length r1 minLen hI1 rfl (by simp [r1]; exact hN) (by simp [r1]; omega)
      obtain ⟨g1, g2, g3, g4, g5⟩ := this
      exact ⟨g1, g2, by rw [g4, hp1], by rw [← hp1]; exact g5⟩
    · simp only [hroom, if_false]
      have := RBuf.fillLoop_spec r.chunks.length r minLen ⟨h1, h2, h3⟩ rfl (by omega) hshort
      obtain ⟨g1, g2, g3, g4, g5⟩ := this
      exact ⟨g1, g2, g4, g5⟩

theorem avail_take (r : RBuf) (hI : r.Inv) (len : Nat) (w : String) (hl : len ≤ r.stop - r.start) :
    Mem.read r.buf r.start len w = .ok (r.pending.take len) ∧
    ({ r with start := r.start + len } : RBuf).pending = r.pending.drop len := by
  obtain ⟨h1, h2, h3⟩ := hI
  constructor
  · rw [Mem.read_ok (by omega)]
    unfold RBuf.pending RBuf.avail
    rw [List.take_append_of_le_length (by simp; omega), List.take_take]
    congr 2; omega
  · unfold RBuf.pending RBuf.avail
    simp only
    rw [List.drop_append_of_le_length (by simp; omega)]
    congr 1
    rw [List.drop_take, List.drop_drop]
    congr 1; omega

/-- complete description of `get(len)`: no `oob`, the next `len` bytes of the stream or a refusal,
    and nothing of the stream is lost or duplicated in either case -/
theorem RBuf.get_spec (r : RBuf) (len : Nat) (hI : r.Inv) :
    let p := r.get len
    p.1.Inv ∧ p.1.N = r.N ∧
    (len = 0 → p = (r, .data [])) ∧
    (len > r.N → p = (r, .throw .runtime_error)) ∧
    (0 < len → len ≤ r.N → len ≤ r.pending.length →
        p.2 = .data (r.pending.take len) ∧ p.1.pending = r.pending.drop len) ∧
    (0 < len → len ≤ r.N → r.pending.length < len →
        p.2 = .throw .eof ∧ p.1.pending = r.pending) := by
  have hal := avail_length r hI
  have hpl : r.pending.length = (r.stop - r.start) + r.src.length := by simp [RBuf.pending, hal]
  unfold RBuf.get
  by_cases h0 : len = 0
  · subst h0; simp [hI]
  · have h0' : (len == 0) = false := by simp [h0]
    simp only [h0', Bool.false_eq_true, if_false]
    by_cases hbig : len > r.N
    · rw [if_pos hbig]
      exact ⟨hI, rfl, fun h => absurd h h0, fun _ => rfl, fun _ h => by omega, fun _ h => by omega⟩
    · rw [if_neg hbig]
      by_cases hav : len ≤ r.stop - r.start
      · rw [if_pos hav]
        obtain ⟨e1, e2⟩ := avail_take r hI len "get: memcpy from buffer" hav
        rw [e1]
        simp only
        obtain ⟨h1, h2, h3⟩ := hI
        refine ⟨⟨h1, by simp; omega, h3⟩, (by first | rfl | trivial), fun h => absurd h h0, fun h => absurd h hbig,
          fun _ _ _ => ⟨(by first | rfl | trivial), e2⟩, fun _ _ h => by omega⟩
      · rw [if_neg hav]
        obtain ⟨g1, g2, g3, g4⟩ := RBuf.fillBuffer_spec r len hI (by omega) (by omega)
        generalize hfb : r.fillBuffer len = p at g1 g2 g3 g4
        obtain ⟨r', res⟩ := p
        simp only at g1 g2 g3 g4
        rcases g4 with ⟨e, hge⟩ | ⟨e, hlt⟩
        · subst e
          simp only
          obtain ⟨e1, e2⟩ := avail_take r' g1 len "get: memcpy after fill" hge
          rw [e1]
          simp only
          have hpl' : r'.pending.length = (r'.stop - r'.start) + r'.src.length := by
            simp [RBuf.pending, avail_length r' g1]
          obtain ⟨k1, k2, k3⟩ := g1
          refine ⟨⟨k1, by simp; omega, k3⟩, g2, fun h => absurd h h0, fun h => absurd h hbig,
            fun _ _ _ => ⟨by rw [g3], by rw [e2, g3]⟩, fun _ _ h => ?_⟩
          rw [← g3, hpl'] at h; omega
        · subst e
          simp only
          refine ⟨g1, g2, fun h => absurd h h0, fun h => absurd h hbig, fun _ _ h => by omega,
            fun _ _ _ => ⟨(by first | rfl | trivial), g3⟩⟩

end CelmaVerif.Buffers
