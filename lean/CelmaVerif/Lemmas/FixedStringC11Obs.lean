import CelmaVerif.Lemmas.FixedStringObs
namespace CelmaVerif.FixedString
open CelmaVerif
variable {c : Cfg}

/-
  C11, observers: on a well-formed string every non-modifying function returns what the corresponding
  `std::string` operation (Model/StdString.lean) returns on the text held, `abs s`.
-/

theorem abs_length {s : FStr} (hs : WF c s) : (abs s).length = s.len := by
  have := hs.1; have := hs.2.1
  unfold abs; rw [List.length_take]; omega

theorem str_abs {s : FStr} (hs : WF c s) : str s = .ok (abs s) := by
  have := hs.1; have := hs.2.1
  unfold str abs
  split
  · rw [Mem.read_ok (by omega)]; simp
  · have : s.len = 0 := by omega
    rw [this]; simp

/-- the repaired `operator<<` writes exactly the characters of the string, stored NULs included -/
theorem streamView_abs {s : FStr} (hs : WF c s) : streamView s = .ok (abs s) := by
  have := hs.1; have := hs.2.1
  unfold streamView abs
  rw [Mem.read_ok (by omega)]; simp

theorem at_abs {s : FStr} (hs : WF c s) {idx : Nat} (h : idx < s.len) :
    at_ s idx = StdString.at_ (abs s) idx := by
  have := hs.1; have := hs.2.1
  unfold at_ StdString.at_ get1 abs
  rw [if_neg (by omega), List.getElem?_take, if_pos h, List.getElem?_eq_getElem (by omega)]

theorem at_throw {s : FStr} (hs : WF c s) {idx : Nat} (h : idx > s.len) :
    at_ s idx = .throw .out_of_range ∧ StdString.at_ (abs s) idx = .throw .out_of_range := by
  refine ⟨by unfold at_; rw [if_pos h], ?_⟩
  have hl := abs_length hs
  unfold StdString.at_
  rw [List.getElem?_eq_none (by omega)]

/-- the one index where `at()` differs from `std::string::at`: `idx = length()` reads the terminator
    instead of throwing (the guard is `idx > mLength`) -/
theorem at_len {s : FStr} (hs : WF c s) :
    at_ s s.len = .ok 0 ∧ StdString.at_ (abs s) s.len = .throw .out_of_range := by
  have hl := abs_length hs
  constructor
  · unfold at_ get1; rw [if_neg (by omega), hs.2.2]
  · unfold StdString.at_; rw [List.getElem?_eq_none (by omega)]

theorem substr_abs {s : FStr} (hs : WF c s) (pos count : Nat) (hp : pos ≤ s.len) :
    substr s pos count = .ok (((abs s).drop pos).take count) := by
  have := hs.1; have := hs.2.1
  unfold substr abs
  split
  · rename_i h
    rcases h with h | h
    · have : s.len - pos = 0 := by omega
      rw [List.drop_take, this]; simp
    · rw [h]; simp
  · rename_i h
    simp only
    rw [List.drop_take, List.take_take]
    split
    · rw [Mem.read_ok (by omega), Nat.min_eq_right (by omega)]
    · rw [Mem.read_ok (by omega), Nat.min_eq_left (by omega)]

theorem cmpSign_eq_zero : ∀ (x y : List Nat), x.length = y.length → (cmpSign x y = 0 ↔ x = y)
  | [], [], _ => by simp [cmpSign]
  | [], _ :: _, h => by simp at h
  | _ :: _, [], h => by simp at h
  | a :: as, b :: bs, h => by
    have ih := cmpSign_eq_zero as bs (by simpa using h)
    unfold cmpSign
    by_cases h1 : a < b
    · rw [if_pos h1]; constructor
      · intro h; cases h
      · intro h; cases h; omega
    · rw [if_neg h1]
      by_cases h2 : b < a
      · rw [if_pos h2]; constructor
        · intro h; cases h
        · intro h; cases h; omega
      · rw [if_neg h2]
        have : a = b := by omega
        subst this
        rw [ih]; simp

theorem memcmp_ok {a b : List Byte} {i j n : Nat} (h1 : i + n ≤ a.length) (h2 : j + n ≤ b.length) :
    memcmp a i b j n = .ok (cmpSign ((a.drop i).take n) ((b.drop j).take n)) := by
  unfold memcmp; rw [Mem.read_ok h1, Mem.read_ok h2]

theorem eqOp_abs {s : FStr} (hs : WF c s) {co : Cfg} {o : FStr} (ho : WF co o) :
    eqOp s o = .ok (decide (abs s = abs o)) := by
  have := hs.1; have := hs.2.1; have := ho.1; have := ho.2.1
  unfold eqOp
  split
  · rename_i h
    rw [memcmp_ok (by omega) (by omega), bindR_ok]
    unfold abs
    rw [← h]
    simp only [List.drop_zero]
    congr 1
    have := cmpSign_eq_zero (s.buf.take s.len) (o.buf.take s.len)
      (by rw [List.length_take, List.length_take]; omega)
    simp [this]
  · rename_i h
    have : abs s ≠ abs o := by
      intro he
      have := congrArg List.length he
      rw [abs_length hs, abs_length ho] at this
      exact h this
    simp [this]

theorem neOp_abs {s : FStr} (hs : WF c s) {co : Cfg} {o : FStr} (ho : WF co o) :
    neOp s o = .ok (!decide (abs s = abs o)) := by
  unfold neOp; rw [eqOp_abs hs ho, bindR_ok]

/-! ### iterators -/

theorem iterFwdLoop_end (s : FStr) (fuel : Nat) (acc : List Byte) :
    iterFwdLoop c s fuel (itEnd c) acc = .ok acc.reverse := by
  cases fuel with
  | zero => rfl
  | succ n => unfold iterFwdLoop; rw [if_pos rfl]

theorem iterRevLoop_end (s : FStr) (fuel : Nat) (acc : List Byte) :
    iterRevLoop c s fuel (itEnd c) acc = .ok acc.reverse := by
  cases fuel with
  | zero => rfl
  | succ n => unfold iterRevLoop; rw [if_pos rfl]

theorem itDeref_abs (hc : CfgOK c) {s : FStr} (hs : WF c s) {it : Nat} (h : it < s.len) :
    ∃ hl : it < (abs s).length, itDeref c s it = .ok ((abs s)[it]'hl) ∧ it ≠ itEnd c := by
  have := hs.1; have := hs.2.1; have := hc.hW
  have hl : it < (abs s).length := by rw [abs_length hs]; exact h
  have hne : it ≠ itEnd c := by unfold itEnd; omega
  refine ⟨hl, ?_, hne⟩
  unfold itDeref get1
  rw [if_neg hne, List.getElem?_eq_getElem (by omega)]
  simp only [abs, List.getElem_take]

theorem iterFwdLoop_abs (hc : CfgOK c) {s : FStr} (hs : WF c s) (fuel : Nat) : ∀ (it : Nat) (acc : List Byte),
    it < s.len → s.len - it < fuel →
    iterFwdLoop c s fuel it acc = .ok (acc.reverse ++ (abs s).drop it) := by
  induction fuel with
  | zero => intro it acc _ h; omega
  | succ n ih =>
    intro it acc h hf
    obtain ⟨hl, hd, hne⟩ := itDeref_abs hc hs h
    unfold iterFwdLoop
    rw [if_neg hne, hd]
    simp only
    rw [List.drop_eq_getElem_cons hl]
    have hsub : subW c s.len 1 = s.len - 1 := by unfold subW; rw [if_pos (by omega)]
    unfold itInc
    rw [hsub]
    by_cases h1 : it < s.len - 1
    · rw [if_pos h1, ih _ _ (by omega) (by omega)]
      simp
    · rw [if_neg h1, iterFwdLoop_end]
      have : (abs s).drop (it + 1) = [] := by
        apply List.drop_eq_nil_of_le; rw [abs_length hs]; omega
      rw [this]; simp

theorem iterFwd_abs (hc : CfgOK c) {s : FStr} (hs : WF c s) : iterFwd c s = .ok (abs s) := by
  have := hs.1; have := hs.2.1
  unfold iterFwd itBegin
  by_cases h : s.len ≠ 0
  · rw [if_pos h, iterFwdLoop_abs hc hs _ _ _ (by omega) (by omega)]; simp
  · rw [if_neg h, iterFwdLoop_end]
    have : s.len = 0 := by omega
    simp [abs, this]

theorem iterRevLoop_abs (hc : CfgOK c) {s : FStr} (hs : WF c s) (fuel : Nat) : ∀ (it : Nat) (acc : List Byte),
    it < s.len → it < fuel →
    iterRevLoop c s fuel it acc = .ok (acc.reverse ++ ((abs s).take (it + 1)).reverse) := by
  induction fuel with
  | zero => intro it acc _ h; omega
  | succ n ih =>
    intro it acc h hf
    obtain ⟨hl, hd, hne⟩ := itDeref_abs hc hs h
    unfold iterRevLoop
    rw [if_neg hne, hd]
    simp only
    have key : ((abs s).take (it + 1)).reverse = (abs s)[it] :: ((abs s).take it).reverse := by
      rw [List.take_succ_eq_append_getElem hl, List.reverse_append]; rfl
    rw [key]
    unfold ritInc
    rw [if_neg hne]
    by_cases h1 : it > 0
    · rw [if_pos h1, ih _ _ (by omega) (by omega)]
      have : it - 1 + 1 = it := by omega
      rw [this]; simp
    · rw [if_neg h1, iterRevLoop_end]
      have : it = 0 := by omega
      subst this; simp

theorem iterRev_abs (hc : CfgOK c) {s : FStr} (hs : WF c s) : iterRev c s = .ok (abs s).reverse := by
  have := hs.1; have := hs.2.1
  have hl := abs_length hs
  unfold iterRev ritBegin
  by_cases h : s.len ≠ 0
  · rw [if_pos h, iterRevLoop_abs hc hs _ _ _ (by omega) (by omega)]
    have : s.len - 1 + 1 = (abs s).length := by omega
    rw [this, List.take_length]; simp
  · rw [if_neg h, iterRevLoop_end]
    have : s.len = 0 := by omega
    simp [abs, this]

/-! ### compare -/

/-- `memcmp` on the common prefix, then the lengths: the lexicographic comparison -/
theorem compare_eq_cmpSign : ∀ (x y : List Nat),
    StdString.compare x y =
      (if cmpSign (x.take (min x.length y.length)) (y.take (min x.length y.length)) = 0
       then (if x.length > y.length then 1 else if x.length < y.length then -1 else 0)
       else cmpSign (x.take (min x.length y.length)) (y.take (min x.length y.length)))
  | [], [] => by simp [StdString.compare, cmpSign]
  | [], _ :: _ => by simp [StdString.compare, cmpSign]
  | _ :: _, [] => by simp [StdString.compare, cmpSign]
  | a :: as, b :: bs => by
    have ih := compare_eq_cmpSign as bs
    unfold StdString.compare
    simp only [List.length_cons, Nat.succ_min_succ, List.take_succ_cons]
    unfold cmpSign
    by_cases h1 : a < b
    · rw [if_pos h1, if_pos h1]; simp
    · rw [if_neg h1, if_neg h1]
      by_cases h2 : b < a
      · rw [if_pos h2, if_pos h2]; simp
      · rw [if_neg h2, if_neg h2, ih]
        have e1 : (as.length + 1 > bs.length + 1) = (as.length > bs.length) := by
          apply propext; constructor <;> intro h <;> omega
        have e2 : (as.length + 1 < bs.length + 1) = (as.length < bs.length) := by
          apply propext; constructor <;> intro h <;> omega
        simp only [e1, e2]

theorem fullCompare_abs {s : FStr} (hs : WF c s) {a : List Byte} {len : Nat} (ha : len ≤ a.length) :
    fullCompare s a len = .ok (StdString.compare (abs s) (a.take len)) := by
  have := hs.1; have := hs.2.1
  have h1 : min s.len len ≤ s.len := Nat.min_le_left _ _
  have h2 : min s.len len ≤ len := Nat.min_le_right _ _
  have hl := abs_length hs
  have hla : (a.take len).length = len := by rw [List.length_take]; omega
  unfold fullCompare
  rw [memcmp_ok (by omega) (by omega), bindR_ok, compare_eq_cmpSign, hl, hla]
  have e1 : (abs s).take (min s.len len) = s.buf.take (min s.len len) := by
    unfold abs; rw [List.take_take, Nat.min_eq_left h1]
  have e2 : (a.take len).take (min s.len len) = a.take (min s.len len) := by
    rw [List.take_take, Nat.min_eq_left h2]
  rw [e1, e2]
  simp only [List.drop_zero]

/-! ### starts_with, ends_with -/

theorem isPrefixOf_iff_take (t x : List Nat) : t.isPrefixOf x = true ↔ x.take t.length = t := by
  rw [List.isPrefixOf_iff_prefix, List.prefix_iff_eq_take]
  constructor <;> intro h <;> exact h.symm

theorem isSuffix_iff_drop (t x : List Nat) :
    t.reverse.isPrefixOf x.reverse = true ↔ x.drop (x.length - t.length) = t := by
  rw [isPrefixOf_iff_take, List.length_reverse, List.take_reverse, List.reverse_inj]

theorem startsWith_abs {s : FStr} (hs : WF c s) {a : List Byte} {n : Nat} (ha : n ≤ a.length) :
    startsWith s a n = .ok (StdString.startsWith (abs s) (a.take n)) := by
  have := hs.1; have := hs.2.1
  have hl := abs_length hs
  have hla : (a.take n).length = n := by rw [List.length_take]; omega
  unfold startsWith StdString.startsWith
  split
  · rename_i h
    rw [h.1]; simp
  · split
    · rename_i h
      congr 1; symm
      apply Bool.eq_false_iff.mpr
      intro hp
      have := congrArg List.length ((isPrefixOf_iff_take _ _).mp hp)
      rw [List.length_take, hla, hl] at this
      omega
    · rename_i h
      rw [memcmp_ok (by omega) (by omega), bindR_ok]
      congr 1
      apply Bool.eq_iff_iff.mpr
      rw [decide_eq_true_iff, isPrefixOf_iff_take, hla, List.drop_zero, List.drop_zero,
        cmpSign_eq_zero _ _ (by rw [List.length_take, List.length_take]; omega)]
      unfold abs
      rw [List.take_take, Nat.min_eq_left (by omega)]

theorem endsWith_abs {s : FStr} (hs : WF c s) {a : List Byte} {n : Nat} (ha : n ≤ a.length) :
    endsWith s a n = .ok (StdString.endsWith (abs s) (a.take n)) := by
  have := hs.1; have := hs.2.1
  have hl := abs_length hs
  have hla : (a.take n).length = n := by rw [List.length_take]; omega
  unfold endsWith StdString.endsWith
  split
  · rename_i h
    rw [h.1]; simp
  · split
    · rename_i h
      congr 1; symm
      apply Bool.eq_false_iff.mpr
      intro hp
      have := congrArg List.length ((isSuffix_iff_drop _ _).mp hp)
      rw [List.length_drop, hla, hl] at this
      omega
    · rename_i h
      rw [memcmp_ok (by omega) (by omega), bindR_ok]
      congr 1
      apply Bool.eq_iff_iff.mpr
      rw [decide_eq_true_iff, isSuffix_iff_drop, hla, hl, List.drop_zero,
        cmpSign_eq_zero _ _ (by rw [List.length_take, List.length_take, List.length_drop]; omega)]
      unfold abs
      rw [List.drop_take]
      have : s.len - (s.len - n) = n := by omega
      rw [this]

/-! ### copy -/

theorem copy_abs {s : FStr} (hs : WF c s) {room count pos : Nat} (hp : pos ≤ s.len)
    (hr : min count (s.len - pos) ≤ room) :
    copy s room count pos =
      .ok ((((abs s).drop pos).take count).length, ((abs s).drop pos).take count) := by
  have := hs.1; have := hs.2.1
  have e : ((abs s).drop pos).take count = (s.buf.drop pos).take (min count (s.len - pos)) := by
    unfold abs; rw [List.drop_take, List.take_take]
  have el : (((abs s).drop pos).take count).length = min count (s.len - pos) := by
    rw [e, List.length_take, List.length_drop]
    have := Nat.min_le_right count (s.len - pos)
    rw [Nat.min_eq_left (by omega)]
  rw [el, e]
  unfold copy
  split
  · have h0 : s.len - pos = 0 := by omega
    rw [h0]; simp
  · simp only
    split
    · rename_i h1
      have hm : min count (s.len - pos) = s.len - pos := Nat.min_eq_right (by omega)
      rw [hm] at hr ⊢
      rw [if_neg (by omega), Mem.read_ok (by omega), bindR_ok]
    · rename_i h1
      have hm : min count (s.len - pos) = count := Nat.min_eq_left (by omega)
      rw [hm] at hr ⊢
      rw [if_neg (by omega), Mem.read_ok (by omega), bindR_ok]

end CelmaVerif.FixedString
