import CelmaVerif.Model.Containers
/-
  Generic facts about the insertion sort and the first-occurrence de-duplication of Model/Containers.lean:
  `isort` yields the unique ascending permutation; `dedupInto` only depends on the *set* of values seen.
-/
namespace CelmaVerif.Containers

/-- a total order whose equivalent elements are equal (int, std::string) -/
structure LawfulLe {α : Type} (le : α → α → Bool) : Prop where
  total : ∀ a b, le a b = true ∨ le b a = true
  trans : ∀ a b c, le a b = true → le b c = true → le a c = true
  antisymm : ∀ a b, le a b = true → le b a = true → a = b

abbrev Sorted {α : Type} (le : α → α → Bool) (l : List α) : Prop := l.Pairwise (fun a b => le a b = true)

section sort
variable {α : Type} {le : α → α → Bool}

theorem insertSorted_perm (v : α) (l : List α) : (insertSorted le v l).Perm (v :: l) := by
  induction l with
  | nil => exact List.Perm.refl _
  | cons x xs ih =>
    unfold insertSorted
    split
    · exact List.Perm.refl _
    · exact (List.Perm.cons x ih).trans (List.Perm.swap v x xs)

theorem mem_insertSorted {v x : α} {l : List α} : x ∈ insertSorted le v l ↔ x = v ∨ x ∈ l := by
  rw [(insertSorted_perm (le := le) v l).mem_iff]; simp

theorem insertSorted_sorted (h : LawfulLe le) (v : α) {l : List α} (hs : Sorted le l) :
    Sorted le (insertSorted le v l) := by
  induction l with
  | nil => simp [insertSorted, Sorted]
  | cons x xs ih =>
    unfold insertSorted
    have hx := List.pairwise_cons.mp hs
    split
    next hle =>
      refine List.pairwise_cons.mpr ⟨?_, hs⟩
      intro y hy
      rcases List.mem_cons.mp hy with rfl | hy
      · exact hle
      · exact h.trans _ _ _ hle (hx.1 y hy)
    next hnle =>
      have hxv : le x v = true := by
        rcases h.total v x with h1 | h1
        · exact absurd h1 hnle
        · exact h1
      refine List.pairwise_cons.mpr ⟨?_, ih hx.2⟩
      intro y hy
      rcases mem_insertSorted.mp hy with rfl | hy
      · exact hxv
      · exact hx.1 y hy

theorem isort_perm (l : List α) : (isort le l).Perm l := by
  induction l with
  | nil => exact List.Perm.refl _
  | cons x xs ih => exact (insertSorted_perm x _).trans (List.Perm.cons x ih)

theorem isort_sorted (h : LawfulLe le) (l : List α) : Sorted le (isort le l) := by
  induction l with
  | nil => simp [isort, Sorted]
  | cons x xs ih => exact insertSorted_sorted h x ih

theorem mem_isort {x : α} {l : List α} : x ∈ isort le l ↔ x ∈ l := (isort_perm l).mem_iff

/-- an ascending list is determined by its elements with multiplicity -/
theorem sorted_perm_eq (h : LawfulLe le) {l₁ l₂ : List α} (h₁ : Sorted le l₁) (h₂ : Sorted le l₂)
    (hp : l₁.Perm l₂) : l₁ = l₂ :=
  List.Perm.eq_of_pairwise (le := fun a b => le a b = true) (fun a b _ _ hab hba => h.antisymm a b hab hba) h₁ h₂ hp

theorem eq_isort_of_sorted_perm (h : LawfulLe le) {c x : List α} (hs : Sorted le c) (hp : c.Perm x) :
    c = isort le x :=
  sorted_perm_eq h hs (isort_sorted h x) (hp.trans (isort_perm x).symm)

theorem isort_congr (h : LawfulLe le) {a b : List α} (hp : a.Perm b) : isort le a = isort le b :=
  sorted_perm_eq h (isort_sorted h a) (isort_sorted h b) ((isort_perm a).trans (hp.trans (isort_perm b).symm))

/-- sorting after every use or once at the end makes no difference -/
theorem isort_isort_append (h : LawfulLe le) (a b : List α) : isort le (isort le a ++ b) = isort le (a ++ b) :=
  isort_congr h (List.Perm.append_right b (isort_perm a))

theorem isort_of_sorted (h : LawfulLe le) {l : List α} (hs : Sorted le l) : isort le l = l :=
  (eq_isort_of_sorted_perm h hs (List.Perm.refl _)).symm

end sort

section dedup
variable {α : Type} [DecidableEq α]

theorem dedupInto_congr {s₁ s₂ : List α} (vs : List α) (h : ∀ x, x ∈ s₁ ↔ x ∈ s₂) :
    dedupInto s₁ vs = dedupInto s₂ vs := by
  induction vs generalizing s₁ s₂ with
  | nil => rfl
  | cons v vs ih =>
    unfold dedupInto
    by_cases hv : v ∈ s₁
    · rw [if_pos hv, if_pos ((h v).mp hv)]; exact ih h
    · rw [if_neg hv, if_neg (fun h2 => hv ((h v).mpr h2))]
      congr 1
      apply ih
      intro x
      simp [h x]

theorem mem_dedupInto {s vs : List α} {x : α} : x ∈ dedupInto s vs ↔ x ∈ vs ∧ x ∉ s := by
  induction vs generalizing s with
  | nil => simp [dedupInto]
  | cons v vs ih =>
    unfold dedupInto
    by_cases hv : v ∈ s
    · rw [if_pos hv, ih]
      constructor
      · rintro ⟨h1, h2⟩; exact ⟨List.mem_cons_of_mem _ h1, h2⟩
      · rintro ⟨h1, h2⟩
        rcases List.mem_cons.mp h1 with rfl | h1
        · exact absurd hv h2
        · exact ⟨h1, h2⟩
    · rw [if_neg hv, List.mem_cons, ih]
      constructor
      · rintro (rfl | ⟨h1, h2⟩)
        · exact ⟨List.mem_cons_self, hv⟩
        · exact ⟨List.mem_cons_of_mem _ h1, fun h3 => h2 (List.mem_cons_of_mem _ h3)⟩
      · rintro ⟨h1, h2⟩
        by_cases hxv : x = v
        · exact Or.inl hxv
        · right
          rcases List.mem_cons.mp h1 with h1 | h1
          · exact absurd h1 hxv
          · refine ⟨h1, ?_⟩
            intro h3
            rcases List.mem_cons.mp h3 with h3 | h3
            · exact hxv h3
            · exact h2 h3

/-- what one more value at the end adds -/
theorem dedupInto_snoc (s a : List α) (v : α) :
    dedupInto s (a ++ [v]) = dedupInto s a ++ (if v ∈ s ∨ v ∈ a then [] else [v]) := by
  induction a generalizing s with
  | nil =>
    by_cases hv : v ∈ s <;> simp [dedupInto, hv]
  | cons x xs ih =>
    simp only [List.cons_append]
    unfold dedupInto
    by_cases hx : x ∈ s
    · rw [if_pos hx, if_pos hx, ih]
      congr 1
      by_cases hvs : v ∈ s
      · simp [hvs]
      · by_cases hvx : v = x
        · subst hvx; exact absurd hx hvs
        · simp [hvs, hvx]
    · rw [if_neg hx, if_neg hx, ih, List.cons_append]
      congr 2
      by_cases hvx : v = x
      · simp [hvx]
      · simp [hvx]

theorem mem_append_dedupInto {s vs : List α} {x : α} : x ∈ s ++ dedupInto s vs ↔ x ∈ s ∨ x ∈ vs := by
  rw [List.mem_append, mem_dedupInto]
  constructor
  · rintro (h | ⟨h, _⟩)
    · exact Or.inl h
    · exact Or.inr h
  · rintro (h | h)
    · exact Or.inl h
    · by_cases hs : x ∈ s
      · exact Or.inl hs
      · exact Or.inr ⟨h, hs⟩

theorem dedupInto_nodup {s vs : List α} : (dedupInto s vs).Nodup := by
  induction vs generalizing s with
  | nil => simp [dedupInto]
  | cons v vs ih =>
    unfold dedupInto
    split
    · exact ih
    · refine List.nodup_cons.mpr ⟨?_, ih⟩
      intro h
      have := (mem_dedupInto.mp h).2
      exact this List.mem_cons_self

/-- nothing is dropped when no value repeats and none was there before -/
theorem dedupInto_eq_self {s vs : List α} (hn : vs.Nodup) (hd : ∀ v ∈ vs, v ∉ s) : dedupInto s vs = vs := by
  induction vs generalizing s with
  | nil => rfl
  | cons v vs ih =>
    unfold dedupInto
    rw [if_neg (hd v List.mem_cons_self)]
    congr 1
    have hn' := List.nodup_cons.mp hn
    apply ih hn'.2
    intro x hx hxs
    rcases List.mem_cons.mp hxs with rfl | hxs
    · exact hn'.1 hx
    · exact hd x (List.mem_cons_of_mem _ hx) hxs

end dedup

/-! the two element orders of the model are lawful -/

theorem intLe_lawful : LawfulLe intElem.le := by
  refine ⟨?_, ?_, ?_⟩
  · intro a b; simp only [intElem, decide_eq_true_eq]; omega
  · intro a b c; simp only [intElem, decide_eq_true_eq]; omega
  · intro a b; simp only [intElem, decide_eq_true_eq]; omega

theorem lexLe_total : ∀ a b : List Char, lexLe a b = true ∨ lexLe b a = true
  | [], _ => by simp [lexLe]
  | _ :: _, [] => by simp [lexLe]
  | a :: as, b :: bs => by
    unfold lexLe
    by_cases h1 : a.toNat < b.toNat
    · simp [h1]
    · by_cases h2 : b.toNat < a.toNat
      · simp [h1, h2]
      · simp only [h1, h2, if_false]
        exact lexLe_total as bs

theorem lexLe_trans : ∀ a b c : List Char, lexLe a b = true → lexLe b c = true → lexLe a c = true
  | [], _, _ => by simp [lexLe]
  | _ :: _, [], _ => by simp [lexLe]
  | _ :: _, _ :: _, [] => by simp [lexLe]
  | a :: as, b :: bs, c :: cs => by
    unfold lexLe
    intro h1 h2
    by_cases hab : a.toNat < b.toNat
    · by_cases hbc : b.toNat < c.toNat
      · have : a.toNat < c.toNat := by omega
        simp [this]
      · by_cases hcb : c.toNat < b.toNat
        · simp [hbc, hcb] at h2
        · have : a.toNat < c.toNat := by omega
          simp [this]
    · by_cases hba : b.toNat < a.toNat
      · simp [hab, hba] at h1
      · simp only [hab, hba, if_false] at h1
        by_cases hbc : b.toNat < c.toNat
        · have : a.toNat < c.toNat := by omega
          simp [this]
        · by_cases hcb : c.toNat < b.toNat
          · simp [hbc, hcb] at h2
          · simp only [hbc, hcb, if_false] at h2
            have e1 : ¬ a.toNat < c.toNat := by omega
            have e2 : ¬ c.toNat < a.toNat := by omega
            simp only [e1, e2, if_false]
            exact lexLe_trans as bs cs h1 h2

theorem lexLe_antisymm : ∀ a b : List Char, lexLe a b = true → lexLe b a = true → a = b
  | [], [] => by simp
  | [], _ :: _ => by simp [lexLe]
  | _ :: _, [] => by simp [lexLe]
  | a :: as, b :: bs => by
    unfold lexLe
    intro h1 h2
    by_cases hab : a.toNat < b.toNat
    · have : ¬ b.toNat < a.toNat := by omega
      simp [hab, this] at h2
    · by_cases hba : b.toNat < a.toNat
      · simp [hab, hba] at h1
      · simp only [hab, hba, if_false] at h1 h2
        have e : a = b := by
          apply Char.ext
          apply UInt32.toNat_inj.mp
          have : a.toNat = b.toNat := by omega
          exact this
        rw [e, lexLe_antisymm as bs h1 h2]

theorem strLe_lawful : LawfulLe strElem.le := ⟨lexLe_total, lexLe_trans, lexLe_antisymm⟩

end CelmaVerif.Containers
