import CelmaVerif.Lemmas.ParseFaithful
/-
  Completeness of the declarative grammar: a `SpellsPlus` derivation determines what the handler
  does with the argument vector — the element loop behaves as the abstract evaluation `applyUses`
  of the spelled uses (same exception, or states that agree on everything the rules read and write).
-/
namespace CelmaVerif.ProgArgs
open CelmaVerif CelmaVerif.Keys

/-- two results agree: the same exception, or states that agree on everything the rules read and write
    (`HState.Same` of Lemmas/Pairing.lean: args, pending, globals, uses, fromSrc — not lastArg/inverted) -/
def ResSame (r1 r2 : Res HState) : Prop :=
  match r1, r2 with
  | .ok a, .ok b => a.Same b
  | .throw e1, .throw e2 => e1 = e2
  | _, _ => False

/-- one rule-layer action in the loop (`X`, from the loop state) and in the abstract evaluation (`Xg`):
    both succeed with states that agree, the loop state carrying the last-argument marker `l'` and no
    inversion flag; or both throw the same exception -/
def ParseStepRel (l' : Option Nat) (X Xg : Res HState) : Prop :=
  match X, Xg with
  | .ok h', .ok g' => g'.Same h' ∧ g'.inverted = false ∧ h'.lastArg = l' ∧ h'.inverted = false
  | .throw e, .throw e' => e = e'
  | .oob _, _ => True
  | _, _ => False

/-- the abstract state is the loop state with another last-argument marker -/
theorem same_with_last {h g : HState} (hs : g.Same h) (hg : g.inverted = false) (hi : h.inverted = false) :
    ∃ m, g = { h with lastArg := m } :=
  ⟨g.lastArg, same_eq_with_last hs.symm (by rw [hi, hg])⟩

/-- a key element: `mpLastArg = hdl; handleIdentifiedArg( hdl, key, value)` on both sides -/
theorem key_rel (cfg : Cfg) {h g : HState} (i : Nat) (d : ArgDef) (v : Word) (hs : g.Same h)
    (hg : g.inverted = false) (hi : h.inverted = false) :
    ParseStepRel (some i) (handleIdentifiedArg cfg { h with lastArg := some i } i d v)
      (handleIdentifiedArg cfg { g with lastArg := some i } i d v) := by
  obtain ⟨m, rfl⟩ := same_with_last hs hg hi
  show ParseStepRel (some i) (handleIdentifiedArg cfg { h with lastArg := some i } i d v)
    (handleIdentifiedArg cfg { h with lastArg := some i } i d v)
  cases hx : handleIdentifiedArg cfg { h with lastArg := some i } i d v with
  | ok r =>
    obtain ⟨f1, f2, _, _, _⟩ := handleIdentifiedArg_frame hx
    exact ⟨HState.Same.refl r, f1, f2, f1⟩
  | throw e => exact rfl
  | oob w => exact True.intro

/-- a free value of the last multi-value argument -/
theorem free_rel {h g : HState} (i : Nat) (d : ArgDef) (v : Word) (hs : g.Same h)
    (hg : g.inverted = false) (hi : h.inverted = false) :
    ParseStepRel h.lastArg (assignValue h i d v false) (assignValue g i d v false) := by
  obtain ⟨m, rfl⟩ := same_with_last hs hg hi
  rw [assignValue_lastArg h m]
  cases hx : assignValue h i d v false with
  | ok r =>
    obtain ⟨f1, f2, _, _, _, _⟩ := assignValue_frame hx
    exact ⟨⟨rfl, rfl, rfl, rfl, rfl⟩, by show r.inverted = false; rw [f1, hi], f2, by rw [f1, hi]⟩
  | throw e => exact rfl
  | oob w => exact True.intro

/-- a value of the positional argument: the loop leaves `mpLastArg` alone -/
theorem pos_rel (cfg : Cfg) {h g : HState} (i : Nat) (d : ArgDef) (v : Word) (hs : g.Same h)
    (hg : g.inverted = false) (hi : h.inverted = false) :
    ParseStepRel h.lastArg (handleIdentifiedArg cfg h i d v) (handleIdentifiedArg cfg { g with lastArg := some i } i d v) := by
  obtain ⟨m, rfl⟩ := same_with_last hs hg hi
  show ParseStepRel h.lastArg (handleIdentifiedArg cfg h i d v) (handleIdentifiedArg cfg { h with lastArg := some i } i d v)
  rw [handleIdentifiedArg_lastArg cfg h (some i)]
  cases hx : handleIdentifiedArg cfg h i d v with
  | ok r =>
    obtain ⟨f1, f2, _, _, _⟩ := handleIdentifiedArg_frame hx
    exact ⟨⟨rfl, rfl, rfl, rfl, rfl⟩, f1, f2, f1⟩
  | throw e => exact rfl
  | oob w => exact True.intro

/-- a key element is handed to `processArg` with the key it stands for -/
theorem evalSingle_key {cfg : Cfg} {h : HState} {ai : It} {t : Tok} {k : Key} (ht : TokIs ai.cur t) (hk : KeyTok t k) :
    evalSingleArgument cfg h ai = processArg cfg h k ai := by
  cases t with
  | short c =>
    obtain ⟨hty, hch⟩ := ht
    have e : k = Key.ofChar c := hk
    subst e
    unfold evalSingleArgument
    rw [hty]
    dsimp only
    rw [hch]
  | long n =>
    obtain ⟨hty, hstr⟩ := ht
    have e : wordKey n = .ok k := hk
    unfold evalSingleArgument
    rw [hty]
    dsimp only
    rw [hstr, e]
    rfl
  | value v => exact hk.elim
  | ctrl c => exact hk.elim

/-- what the loop does from a cursor that shows the reading result `res`, stated for induction -/
def LoopOK (cfg : Cfg) (l : Option Nat) (inv : Bool) (res : TokRes) (us : List Use) : Prop :=
  ∀ (argv : List Word) (h g : HState) (ai : It) (fuel : Nat), 1 ≤ argv.length → Cur ai argv res →
    h.lastArg = l → h.inverted = inv → g.Same h → g.inverted = false →
    (∀ w, iterateLoop cfg fuel h ai ≠ .oob w) → ResSame (iterateLoop cfg fuel h ai) (applyUses cfg g us)

theorem SP_ne_bad {cfg : Cfg} {l : Option Nat} {inv : Bool} {res : TokRes} {us : List Use} (sp : SP cfg l inv res us) :
    res ≠ .bad := by
  intro e
  rw [e] at sp
  cases sp

/-- `++ai` and the rest of the loop, from a represented position -/
theorem cont_complete {cfg : Cfg} {l : Option Nat} {inv : Bool} {pos : Pos} {us : List Use}
    (sp : SP cfg l inv (nextTok false pos) us) (ih : LoopOK cfg l inv (nextTok false pos) us)
    {argv : List Word} {h g : HState} {ai : It} {fuel : Nat} (h1 : 1 ≤ argv.length) (hrep : Rep ai argv pos)
    (hrem : ai.remAsValue = false) (hl : h.lastArg = l) (hi : h.inverted = inv) (hs : g.Same h)
    (hg : g.inverted = false) (hno : ∀ w, contB cfg fuel h ai ≠ .oob w) :
    ResSame (contB cfg fuel h ai) (applyUses cfg g us) := by
  have hsim := step_sim h1 hrep
  rw [hrem] at hsim
  obtain ⟨ai2, e, hc⟩ := StepSim_elim (SP_ne_bad sp) hsim
  unfold contB at hno ⊢
  rw [e] at hno ⊢
  simp only [Res.bind_ok] at hno ⊢
  exact ih argv h g ai2 fuel h1 hc hl hi hs hg hno

/-- an element that is handled by one rule-layer action and consumed -/
theorem use_complete {cfg : Cfg} {l' : Option Nat} {pos' : Pos} {us : List Use} {argv : List Word}
    {h : HState} {ai ai' : It} {fuel : Nat} {X Xg : Res HState} (h1 : 1 ≤ argv.length) (hne : ai.atEnd = false)
    (he : evalSingleArgument cfg h ai = (X >>= fun h' => pure (h', ai', ArgResult.consumed)))
    (hrel : ParseStepRel l' X Xg) (sp : SP cfg l' false (nextTok false pos') us)
    (ih : LoopOK cfg l' false (nextTok false pos') us) (hrep : Rep ai' argv pos') (hrem : ai'.remAsValue = false)
    (hno : ∀ w, iterateLoop cfg (fuel + 1) h ai ≠ .oob w) :
    ResSame (iterateLoop cfg (fuel + 1) h ai) (Xg >>= fun g' => applyUses cfg g' us) := by
  rw [loop_step cfg fuel h ai ai' X hne he] at hno ⊢
  cases X with
  | ok h' =>
    cases Xg with
    | ok g' =>
      obtain ⟨r1, r2, r3, r4⟩ := hrel
      simp only [Res.bind_ok] at hno ⊢
      exact cont_complete sp ih h1 hrep hrem r3 r4 r1 r2 hno
    | throw e => exact hrel.elim
    | oob w => exact hrel.elim
  | throw e =>
    cases Xg with
    | ok g' => exact hrel.elim
    | throw e' => exact hrel
    | oob w => exact hrel.elim
  | oob w => exact absurd rfl (hno w)

theorem iterateLoop_zero (cfg : Cfg) (h : HState) (ai : It) :
    iterateLoop cfg 0 h ai = .oob "iterateArguments: fuel exhausted" := by
  simp [iterateLoop]

/-- **the loop follows the derivation** -/
theorem loop_complete {cfg : Cfg} {l : Option Nat} {inv : Bool} {res : TokRes} {us : List Use}
    (sp : SP cfg l inv res us) : LoopOK cfg l inv res us := by
  induction sp with
  | done l inv =>
    intro argv h g ai fuel h1 hc hl hi hs hg hno
    cases fuel with
    | zero => exact absurd (iterateLoop_zero cfg h ai) (hno _)
    | succ fuel =>
      have hend : ai.atEnd = true := hc
      unfold iterateLoop
      rw [if_pos hend]
      exact hs.symm
  | @flag l t pos k i d us hk hr hm sp' ih =>
    intro argv h g ai fuel h1 hc hl hi hs hg hno
    obtain ⟨hne, htok, hrep, hrem⟩ := hc
    cases fuel with
    | zero => exact absurd (iterateLoop_zero cfg h ai) (hno _)
    | succ fuel =>
      rw [applyUses_cons_ident cfg g i d [] us (findArg_cfg hr)]
      have he : evalSingleArgument cfg h ai =
          (handleIdentifiedArg cfg { h with lastArg := some i } i d [] >>= fun h' => pure (h', ai, ArgResult.consumed)) := by
        rw [evalSingle_key htok hk]
        exact evalKey_novalue cfg h ai k i d hr hm
      exact use_complete h1 hne he (key_rel cfg i d [] hs hg hi) sp' ih hrep hrem hno
  | @keyValue l t pos pos' k i d v us hk hr hm hn sp' ih =>
    intro argv h g ai fuel h1 hc hl hi hs hg hno
    obtain ⟨hne, htok, hrep, hrem⟩ := hc
    cases fuel with
    | zero => exact absurd (iterateLoop_zero cfg h ai) (hno _)
    | succ fuel =>
      rw [applyUses_cons_ident cfg g i d v us (findArg_cfg hr)]
      have hrep' : Rep (if d.vmode = VMode.required then ({ ai with remAsValue := true } : It) else ai) argv pos := by
        split
        · exact Rep_rem true hrep
        · exact hrep
      have hrem' : (if d.vmode = VMode.required then ({ ai with remAsValue := true } : It) else ai).remAsValue
          = decide (d.vmode = .required) := by
        split
        · rename_i hq; simp [hq]
        · rename_i hq; simp [hq, hrem]
      have hsim := step_sim h1 hrep'
      rw [hrem', hn] at hsim
      obtain ⟨ait2, hst, hne2, htok2, hrep2, hrem2⟩ := StepSim_tok.mp hsim
      have he : evalSingleArgument cfg h ai =
          (handleIdentifiedArg cfg { h with lastArg := some i } i d v >>= fun h' => pure (h', ait2, ArgResult.consumed)) := by
        rw [evalSingle_key htok hk]
        exact evalKey_value cfg h ai ait2 k i d v hr hm hst hne2 (Or.inr htok2)
      exact use_complete h1 hne he (key_rel cfg i d v hs hg hi) sp' ih hrep2 hrem2 hno
  | @keyAlone l t pos k i d us hk hr hm hnv sp' ih =>
    intro argv h g ai fuel h1 hc hl hi hs hg hno
    obtain ⟨hne, htok, hrep, hrem⟩ := hc
    cases fuel with
    | zero => exact absurd (iterateLoop_zero cfg h ai) (hno _)
    | succ fuel =>
      rw [applyUses_cons_ident cfg g i d [] us (findArg_cfg hr)]
      have hb := SP_ne_bad sp'
      have hsim := step_sim h1 hrep
      rw [hrem] at hsim
      obtain ⟨ait2, hst, hc2⟩ := StepSim_elim hb hsim
      have hnv2 : ait2.atEnd = true ∨ ait2.cur.ty ≠ .value := by
        cases hn : nextTok false pos with
        | bad => exact absurd hn hb
        | done => rw [hn] at hc2; exact Or.inl hc2
        | tok t2 p2 =>
          rw [hn] at hc2
          obtain ⟨_, ht2, _, _⟩ := hc2
          cases t2 with
          | value v2 => exact absurd hn (hnv v2 p2)
          | short c => exact Or.inr (by rw [ht2.1]; decide)
          | long n => exact Or.inr (by rw [ht2.1]; decide)
          | ctrl c => exact Or.inr (by rw [ht2.1]; decide)
      have he : evalSingleArgument cfg h ai =
          (handleIdentifiedArg cfg { h with lastArg := some i } i d [] >>= fun h' => pure (h', ai, ArgResult.consumed)) := by
        rw [evalSingle_key htok hk]
        exact evalKey_optional_alone cfg h ai ait2 k i d hr hm hst hnv2
      exact use_complete h1 hne he (key_rel cfg i d [] hs hg hi) sp' ih hrep hrem hno
  | @free i d v pos us hd hm sp' ih =>
    intro argv h g ai fuel h1 hc hl hi hs hg hno
    obtain ⟨hne, ⟨hty, hval⟩, hrep, hrem⟩ := hc
    cases fuel with
    | zero => exact absurd (iterateLoop_zero cfg h ai) (hno _)
    | succ fuel =>
      rw [applyUses_cons_free cfg g i d v us hd]
      have he : evalSingleArgument cfg h ai =
          (assignValue h i d v false >>= fun h' => pure (h', ai, ArgResult.consumed)) := by
        unfold evalSingleArgument
        rw [hty]
        dsimp only
        rw [hl]
        simp only [hd, hm, if_true]
        rw [hval]
      have hrel := free_rel i d v hs hg hi
      rw [hl] at hrel
      exact use_complete h1 hne he hrel sp' ih hrep hrem hno
  | @positional l i d v pos us hnm hres sp' ih =>
    intro argv h g ai fuel h1 hc hl hi hs hg hno
    obtain ⟨hne, ⟨hty, hval⟩, hrep, hrem⟩ := hc
    cases fuel with
    | zero => exact absurd (iterateLoop_zero cfg h ai) (hno _)
    | succ fuel =>
      rw [applyUses_cons_ident cfg g i d v us (findArg_cfg hres)]
      have hf : findArg cfg.abbr cfg.table Key.pos = .ok (some (i, d)) := hres
      have he : evalSingleArgument cfg h ai =
          (handleIdentifiedArg cfg h i d v >>= fun h' => pure (h', ai, ArgResult.consumed)) := by
        unfold evalSingleArgument
        rw [hty]
        dsimp only
        cases hla : h.lastArg with
        | none =>
          dsimp only
          rw [hf, hval]
          rfl
        | some j =>
          dsimp only
          cases hcj : cfg.args[j]? with
          | none =>
            dsimp only
            rw [hf, hval]
            rfl
          | some dj =>
            have hmj := hnm j dj (by rw [← hl, hla]) hcj
            simp only [hmj, Bool.false_eq_true, if_false]
            rw [hf, hval]
            rfl
      have hrel := pos_rel cfg i d v hs hg hi
      rw [hl] at hrel
      exact use_complete h1 hne he hrel sp' ih hrep hrem hno
  | @invert l inv pos us sp' ih =>
    intro argv h g ai fuel h1 hc hl hi hs hg hno
    obtain ⟨hne, ⟨hty, hch, _⟩, hrep, hrem⟩ := hc
    cases fuel with
    | zero => exact absurd (iterateLoop_zero cfg h ai) (hno _)
    | succ fuel =>
      have he : evalSingleArgument cfg h ai = .ok ({ h with inverted := true }, ai, ArgResult.consumed) := by
        unfold evalSingleArgument
        rw [hty]
        dsimp only
        rw [hch]
        have hb : (('!' : Char) == '(' || ('!' : Char) == ')') = false := by decide
        rw [hb]
        rfl
      rw [iterateLoop_consumed cfg fuel h _ ai ai hne he] at hno ⊢
      exact cont_complete sp' ih h1 hrep hrem hl rfl ⟨hs.args, hs.pending, hs.globals, hs.uses, hs.fromSrc⟩ hg hno

/-- **Completeness for the element loop.**  If the words spell the uses `us`, `iterateArguments`
    does what the abstract evaluation of `us` does. -/
theorem spellsPlus_iterate (cfg : Cfg) (h0 : HState) (prog : Word) {us : List Use} {ws : List Word}
    (hl : h0.lastArg = none) (hi : h0.inverted = false) (sp : SpellsPlus cfg us ws) :
    ResSame (iterateArguments cfg h0 (prog :: ws)) (applyUses cfg h0 us) := by
  have sp' : SP cfg none false (nextTok false (.bnd false true ws)) us := sp
  have hsim := begin_sim prog ws
  obtain ⟨ai, hbeg, hc⟩ := StepSim_elim (SP_ne_bad sp') hsim
  have hsafe := iterateArguments_safe cfg h0 (prog :: ws) (by simp)
  unfold iterateArguments at hsafe ⊢
  rw [hbeg] at hsafe ⊢
  simp only [Res.bind_ok] at hsafe ⊢
  refine loop_complete sp' (prog :: ws) h0 h0 ai _ (by simp) hc hl hi (HState.Same.refl _) hi ?_
  intro w e
  rw [e] at hsafe
  exact hsafe

/-- the final checks read only what `Same` states share -/
theorem endChecks_resSame (cfg : Cfg) {a b : HState} (hs : a.Same b) :
    ResSame (endChecks cfg a) (endChecks cfg b) := by
  unfold endChecks
  dsimp only
  rw [← hs.args, ← hs.pending, ← hs.globals]
  have s1 := checkMandatoryCardinality_safe cfg.args a.args
  cases h1 : checkMandatoryCardinality cfg.args a.args with
  | oob w => rw [h1] at s1; exact s1.elim
  | throw e => exact rfl
  | ok _ =>
    simp only [Res.bind_ok]
    have s2 := pendingCheckRequired_safe a.pending
    cases h2 : pendingCheckRequired a.pending with
    | oob w => rw [h2] at s2; exact s2.elim
    | throw e => exact rfl
    | ok _ =>
      simp only [Res.bind_ok]
      have s3 := checkGlobals_safe cfg.args a.args cfg.globals a.globals
      cases h3 : checkGlobals cfg.args a.args cfg.globals a.globals with
      | oob w => rw [h3] at s3; exact s3.elim
      | throw e => exact rfl
      | ok _ =>
        simp only [Res.bind_ok, Res.pure_eq]
        exact ⟨rfl, rfl, rfl, hs.uses, hs.fromSrc⟩

/-- **Completeness.**  If the words spell the uses `us`, the evaluation of the command line (no file,
    no environment source) does what the abstract evaluation of `us` does. -/
theorem spellsPlus_eval (cfg : Cfg) (h0 : HState) (prog : Word) {us : List Use} {ws : List Word}
    (hl : h0.lastArg = none) (hi : h0.inverted = false) (sp : SpellsPlus cfg us ws) :
    ResSame (evalArguments cfg h0 {} (prog :: ws)) (evalUses cfg h0 us) := by
  have key := spellsPlus_iterate cfg h0 prog hl hi sp
  unfold evalArguments evalFileSource evalEnvSource evalUses
  simp only [Res.pure_eq, Res.bind_ok]
  cases h1 : iterateArguments cfg h0 (prog :: ws) with
  | ok a =>
    cases h2 : applyUses cfg h0 us with
    | ok b =>
      rw [h1, h2] at key
      simp only [Res.bind_ok]
      exact endChecks_resSame cfg key
    | throw e => rw [h1, h2] at key; exact key.elim
    | oob w => rw [h1, h2] at key; exact key.elim
  | throw e =>
    cases h2 : applyUses cfg h0 us with
    | ok b => rw [h1, h2] at key; exact key.elim
    | throw e' => rw [h1, h2] at key; exact key
    | oob w => rw [h1, h2] at key; exact key.elim
  | oob w => rw [h1] at key; exact key.elim

end CelmaVerif.ProgArgs
