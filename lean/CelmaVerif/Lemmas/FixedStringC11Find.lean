import CelmaVerif.Lemmas.FixedStringC11Obs
namespace CelmaVerif.FixedString
open CelmaVerif
variable {c : Cfg}

/-! ### find( str, pos) -/

theorem findFrom_short (pat : List Nat) (hp : pat ≠ []) : ∀ (l : List Nat) (i : Nat),
    l.length < pat.length → StdString.findFrom pat l i = none
  | [], i, _ => by
    unfold StdString.findFrom
    cases pat with
    | nil => exact absurd rfl hp
    | cons p ps => simp
  | x :: xs, i, h => by
    unfold StdString.findFrom
    have hnp : ¬ (pat.isPrefixOf (x :: xs) = true) := by
      intro hp'
      have := congrArg List.length ((isPrefixOf_iff_take _ _).mp hp')
      rw [List.length_take] at this
      omega
    rw [if_neg hnp]
    exact findFrom_short pat hp xs (i + 1) (by simp at h; omega)

theorem findFrom_drop (pat x : List Nat) (idx : Nat) (h : idx < x.length) :
    StdString.findFrom pat (x.drop idx) idx =
      if pat.isPrefixOf (x.drop idx) then some idx else StdString.findFrom pat (x.drop (idx + 1)) (idx + 1) := by
  rw [List.drop_eq_getElem_cons h]
  rfl

theorem abs_drop_take {s : FStr} {idx n : Nat} (h : idx + n ≤ s.len) :
    ((abs s).drop idx).take n = (s.buf.drop idx).take n := by
  unfold abs
  rw [List.drop_take, List.take_take, Nat.min_eq_left (by omega)]

theorem findLoop_abs {s : FStr} (hs : WF c s) {a : List Byte} {n : Nat} (ha : n ≤ a.length) (hn : 0 < n)
    (hnl : n ≤ s.len) (fuel : Nat) : ∀ idx, idx + fuel = s.len - n + 1 →
    findLoop s a n fuel idx = .ok (StdString.findFrom (a.take n) ((abs s).drop idx) idx) := by
  have h1 := hs.1; have h2 := hs.2.1
  have hl := abs_length hs
  have hla : (a.take n).length = n := by rw [List.length_take]; omega
  have hne : a.take n ≠ [] := by
    intro h; rw [h] at hla; simp at hla; omega
  induction fuel with
  | zero =>
    intro idx hi
    unfold findLoop
    rw [findFrom_short _ hne]
    rw [List.length_drop, hl, hla]; omega
  | succ f ih =>
    intro idx hi
    unfold findLoop
    rw [memcmp_ok (by omega) (by omega), bindR_ok, findFrom_drop _ _ _ (by omega), List.drop_zero]
    have key : cmpSign ((s.buf.drop idx).take n) (a.take n) = 0 ↔
        (a.take n).isPrefixOf ((abs s).drop idx) = true := by
      rw [cmpSign_eq_zero _ _ (by rw [List.length_take, List.length_take, List.length_drop]; omega),
        isPrefixOf_iff_take, hla, abs_drop_take (by omega)]
    by_cases hk : cmpSign ((s.buf.drop idx).take n) (a.take n) = 0
    · rw [if_pos hk, if_pos (key.mp hk)]
    · rw [if_neg hk, if_neg (fun h => hk (key.mpr h))]
      exact ih (idx + 1) (by omega)

theorem findN_abs {s : FStr} (hs : WF c s) {a : List Byte} (pos : Nat) {n : Nat} (ha : n ≤ a.length)
    (hn : 0 < n) : findN s a pos n = .ok (StdString.find (abs s) (a.take n) pos) := by
  have h1 := hs.1; have h2 := hs.2.1
  have hl := abs_length hs
  have hla : (a.take n).length = n := by rw [List.length_take]; omega
  have hne : a.take n ≠ [] := by
    intro h; rw [h] at hla; simp at hla; omega
  unfold findN StdString.find
  split
  · rename_i h
    split
    · rfl
    · rename_i hp
      rw [findFrom_short _ hne]
      rw [List.length_drop, hl, hla]; omega
  · rename_i h
    rw [if_neg (by omega)]
    exact findLoop_abs hs ha hn (by omega) _ _ (by omega)

/-! ### the character scans -/

theorem scanLoop_abs_mem {s : FStr} (hs : WF c s) {p : Byte → Res Bool} {q : Byte → Bool}
    (hpq : ∀ x ∈ abs s, p x = .ok (q x)) (fuel : Nat) : ∀ idx, idx + fuel = s.len →
    scanLoop s p fuel idx = .ok (StdString.findIdxFrom q ((abs s).drop idx) idx) := by
  have h1 := hs.1; have h2 := hs.2.1
  have hl := abs_length hs
  induction fuel with
  | zero =>
    intro idx hi
    unfold scanLoop
    rw [List.drop_eq_nil_of_le (by omega)]
    rfl
  | succ f ih =>
    intro idx hi
    have hil : idx < (abs s).length := by omega
    have hx : (abs s)[idx] = s.buf[idx]'(by omega) := by
      simp only [abs, List.getElem_take]
    have hm : s.buf[idx]'(by omega) ∈ abs s := by
      rw [← hx]; exact List.getElem_mem hil
    unfold scanLoop get1
    rw [List.getElem?_eq_getElem (by omega)]
    simp only [bindR_ok]
    rw [hpq _ hm, bindR_ok, List.drop_eq_getElem_cons hil, hx]
    unfold StdString.findIdxFrom
    by_cases hq : q (s.buf[idx]'(by omega)) = true
    · rw [if_pos hq, if_pos hq]
    · rw [if_neg hq, if_neg hq]
      exact ih (idx + 1) (by omega)

theorem scanLoop_abs {s : FStr} (hs : WF c s) {p : Byte → Res Bool} {q : Byte → Bool}
    (hpq : ∀ x, p x = .ok (q x)) (fuel : Nat) (idx : Nat) (hi : idx + fuel = s.len) :
    scanLoop s p fuel idx = .ok (StdString.findIdxFrom q ((abs s).drop idx) idx) :=
  scanLoop_abs_mem hs (fun x _ => hpq x) fuel idx hi

theorem findFrom_single (ch : Nat) : ∀ (l : List Nat) (i : Nat),
    StdString.findFrom [ch] l i = StdString.findIdxFrom (fun x => decide (x = ch)) l i
  | [], i => by simp [StdString.findFrom, StdString.findIdxFrom]
  | x :: xs, i => by
    unfold StdString.findFrom StdString.findIdxFrom
    rw [findFrom_single ch xs (i + 1)]
    by_cases h : x = ch
    · subst h; simp
    · have h' : ¬ ch = x := fun e => h e.symm
      simp [h, h']

theorem findCh_abs (hc : CfgOK c) {s : FStr} (hs : WF c s) (ch : Byte) {pos : Nat} (hp : pos < c.W) :
    findCh c s ch pos = .ok (StdString.find (abs s) [ch] pos) := by
  have h1 := hs.1; have h2 := hs.2.1; have hW := hc.hW
  have hl := abs_length hs
  unfold findCh StdString.find
  rw [hl, findFrom_single]
  by_cases hlt : pos < s.len
  · have ha : addW c pos 1 = pos + 1 := by unfold addW; rw [if_pos (by omega)]
    rw [ha, if_neg (by omega), if_neg (by omega)]
    exact scanLoop_abs hs (fun _ => rfl) _ _ (by omega)
  · have e : (abs s).drop pos = [] := List.drop_eq_nil_of_le (by omega)
    rw [e]
    have hn : StdString.findIdxFrom (fun x => decide (x = ch)) [] pos = none := rfl
    rw [hn]
    split
    · split <;> rfl
    · rename_i h
      have hf : s.len - pos = 0 := by omega
      rw [hf]
      unfold scanLoop
      split <;> rfl

/-! ### find_first_of / find_first_not_of -/

theorem findFirstOfCh_abs {s : FStr} (hs : WF c s) (ch : Byte) (pos : Nat) (neg : Bool) :
    findFirstOfCh s ch pos neg =
      .ok (if neg then StdString.findFirstNotOf (abs s) [ch] pos else StdString.findFirstOf (abs s) [ch] pos) := by
  have h1 := hs.1; have h2 := hs.2.1
  have hl := abs_length hs
  unfold findFirstOfCh StdString.findFirstNotOf StdString.findFirstOf StdString.findFirst
  rw [hl]
  by_cases hlt : pos ≥ s.len
  · rw [if_pos hlt, if_pos hlt, if_pos hlt]; simp
  · rw [if_neg hlt, if_neg hlt, if_neg hlt]
    cases neg with
    | true =>
      refine (scanLoop_abs hs (q := fun x => !([ch] : List Nat).contains x) (fun x => ?_) _ _ (by omega)).trans ?_
      · simp
      · simp
    | false =>
      refine (scanLoop_abs hs (q := fun x => ([ch] : List Nat).contains x) (fun x => ?_) _ _ (by omega)).trans ?_
      · simp
      · simp

theorem memN_eq {a : List Byte} (x : Byte) (fuel : Nat) : ∀ i, i + fuel ≤ a.length →
    memN a fuel i x = .ok (((a.drop i).take fuel).contains x) := by
  induction fuel with
  | zero => intro i _; unfold memN; simp
  | succ f ih =>
    intro i hi
    have hil : i < a.length := by omega
    unfold memN get1
    rw [List.getElem?_eq_getElem hil]
    simp only [bindR_ok]
    rw [List.drop_eq_getElem_cons hil, List.take_succ_cons, List.contains_cons]
    by_cases h : a[i] = x
    · rw [if_pos h]; simp [h]
    · rw [if_neg h, ih (i + 1) (by omega)]
      have h' : ¬ x = a[i] := fun e => h e.symm
      simp [h']

/-- the shape shared by the set searches: a membership test that is right on the characters held -/
theorem scanSet_abs {s : FStr} (hs : WF c s) {p : Byte → Res Bool} {set : List Nat}
    (hp : ∀ x ∈ abs s, p x = .ok (set.contains x)) {pos : Nat} (hpos : pos ≤ s.len) (neg : Bool) :
    scanLoop s (fun x => if neg then notR (p x) else p x) (s.len - pos) pos =
      .ok (if neg then StdString.findFirstNotOf (abs s) set pos else StdString.findFirstOf (abs s) set pos) := by
  have h1 := hs.1; have h2 := hs.2.1
  have hl := abs_length hs
  unfold StdString.findFirstNotOf StdString.findFirstOf StdString.findFirst
  rw [hl]
  by_cases hlt : pos ≥ s.len
  · have hf : s.len - pos = 0 := by omega
    rw [if_pos hlt, if_pos hlt, hf]
    unfold scanLoop
    simp
  · rw [if_neg hlt, if_neg hlt]
    cases neg with
    | true =>
      refine (scanLoop_abs_mem hs (q := fun x => !set.contains x) (fun x hx => ?_) _ _ (by omega)).trans ?_
      · simp only [if_true]; rw [hp x hx]; rfl
      · simp
    | false =>
      refine (scanLoop_abs_mem hs (q := fun x => set.contains x) (fun x hx => ?_) _ _ (by omega)).trans ?_
      · simp only [Bool.false_eq_true, if_false]; rw [hp x hx]
      · simp

theorem findFirstOfPN_abs {s : FStr} (hs : WF c s) {a : List Byte} (pos : Nat) {count : Nat}
    (ha : count ≤ a.length) (hc0 : 0 < count) (neg : Bool) :
    findFirstOfPN s a pos count neg =
      .ok (if neg then StdString.findFirstNotOf (abs s) (a.take count) pos
           else StdString.findFirstOf (abs s) (a.take count) pos) := by
  have hl := abs_length hs
  unfold findFirstOfPN
  by_cases hp : pos > s.len
  · rw [if_pos (Or.inl hp)]
    unfold StdString.findFirstNotOf StdString.findFirstOf StdString.findFirst
    have hge : pos ≥ s.len := by omega
    rw [hl, if_pos hge, if_pos hge]; simp
  · rw [if_neg (by omega)]
    exact scanSet_abs hs (p := fun x => memN a count 0 x) (set := a.take count)
      (fun x _ => by rw [memN_eq x count 0 (by omega), List.drop_zero]) (by omega) neg

theorem strchr_eq {x : Nat} (hx : x ≠ 0) : ∀ (a : List Nat) (k m : Nat), cstrlenAux a k = .ok m →
    ∃ n, m = k + n ∧ strchr a x = .ok ((a.take n).contains x)
  | [], k, m, h => by unfold cstrlenAux at h; cases h
  | b :: bs, k, m, h => by
    unfold cstrlenAux at h
    by_cases hb : b = 0
    · rw [if_pos hb] at h
      cases h
      refine ⟨0, rfl, ?_⟩
      unfold strchr
      rw [if_neg (show ¬ b = x by omega), if_pos hb]; simp
    · rw [if_neg hb] at h
      obtain ⟨n, hm, hs⟩ := strchr_eq hx bs (k + 1) m h
      refine ⟨n + 1, by omega, ?_⟩
      unfold strchr
      rw [List.take_succ_cons, List.contains_cons]
      by_cases hbx : b = x
      · rw [if_pos hbx]; simp [hbx]
      · rw [if_neg hbx, if_neg hb, hs]
        have h' : ¬ x = b := fun e => hbx e.symm
        simp [h']

theorem findFirstOfImpl_abs {s : FStr} (hs : WF c s) {a : List Byte} {n : Nat} (hlen : cstrlen a = .ok n)
    (pos : Nat) (hn : 0 < n) (hx : (0 : Byte) ∉ abs s) (neg : Bool) :
    findFirstOfImpl s a pos n neg =
      .ok (if neg then StdString.findFirstNotOf (abs s) (a.take n) pos
           else StdString.findFirstOf (abs s) (a.take n) pos) := by
  have hl := abs_length hs
  unfold findFirstOfImpl
  by_cases hp : pos > s.len
  · rw [if_pos (Or.inl hp)]
    unfold StdString.findFirstNotOf StdString.findFirstOf StdString.findFirst
    have hge : pos ≥ s.len := by omega
    rw [hl, if_pos hge, if_pos hge]; simp
  · rw [if_neg (by omega)]
    refine scanSet_abs hs (p := fun x => strchr a x) (set := a.take n) (fun x hm => ?_) (by omega) neg
    have hx0 : x ≠ 0 := fun e => hx (e ▸ hm)
    obtain ⟨n', hn', hs'⟩ := strchr_eq hx0 a 0 n hlen
    have : n' = n := by omega
    subst this
    exact hs'

end CelmaVerif.FixedString
