import CelmaVerif.Lemmas.DynBitsetIter
/-
  C12 helper lemmas, part 5: arbitrary walks of an iterator (`++`, `--`, post-increment,
  post-decrement in any order, from `begin()`/`end()`/`rbegin()`/`rend()`).  Every operation returns
  normally and the iterator always stands on a set position or on its end position.
-/
namespace CelmaVerif.DynBitset
open CelmaVerif

/-- a position a forward iterator can stand on: a set position, or `end()` (= `size`) -/
def FwdPos (v : Bits) (p : Int) : Prop :=
  ∃ c : Nat, p = (c : Int) ∧ c ≤ v.length ∧ (c < v.length → v.getD c false = true)

/-- a position a reverse iterator can stand on: a set position, or `rend()` (= -1) -/
def RevPos (v : Bits) (p : Int) : Prop :=
  ∃ r : Nat, p = (r : Int) - 1 ∧ r ≤ v.length ∧ (0 < r → v.getD (r - 1) false = true)

theorem forward_pos (v : Bits) (p : Int) (h : FwdPos v p) : ∃ q, forward v p = .ok q ∧ FwdPos v q := by
  obtain ⟨c, rfl, hc, hb⟩ := h
  by_cases he : c = v.length
  · subst he
    exact ⟨_, forward_end v, v.length, rfl, Nat.le_refl _, hb⟩
  · obtain ⟨q, g1, _, g3, _, g5⟩ := forward_spec v c (by omega)
    exact ⟨q, g1, q, rfl, g3, g5⟩

theorem fwdDec_pos (v : Bits) (p : Int) (h : FwdPos v p) : ∃ q, fwdDec v p = .ok q ∧ FwdPos v q := by
  obtain ⟨c, rfl, hc, _⟩ := h
  obtain ⟨q, g1, g2⟩ := fwdDec_spec v c hc
  refine ⟨q, g1, q, rfl, ?_, ?_⟩
  · cases g2 with
    | inl g => omega
    | inr g => omega
  · intro hq
    cases g2 with
    | inl g => exact g.2.1
    | inr g => omega

theorem reverse_pos (v : Bits) (p : Int) (h : RevPos v p) : ∃ q, reverse v p = .ok q ∧ RevPos v q := by
  obtain ⟨r, rfl, hr, hb⟩ := h
  by_cases h0 : r = 0
  · subst h0
    exact ⟨_, reverse_rend v, 0, rfl, Nat.zero_le _, by intro h; omega⟩
  · have hcast : (r : Int) - 1 = ((r - 1 : Nat) : Int) := by omega
    obtain ⟨r', g1, g2, _, g4⟩ := reverse_spec v (r - 1) (by omega)
    rw [hcast]
    exact ⟨_, g1, r', rfl, by omega, g4⟩

theorem revDec_pos (v : Bits) (p : Int) (h : RevPos v p) : ∃ q, revDec v p = .ok q ∧ RevPos v q := by
  obtain ⟨r, rfl, hr, hb⟩ := h
  by_cases h0 : r = 0
  · subst h0
    exact ⟨_, revDec_rend v, 0, rfl, Nat.zero_le _, by intro h; omega⟩
  · have hcast : (r : Int) - 1 = ((r - 1 : Nat) : Int) := by omega
    rw [hcast]
    cases revDec_spec v (r - 1) (by omega) with
    | inl g =>
      obtain ⟨q, g1, g2, g3, g4, _⟩ := g
      refine ⟨_, g1, q + 1, by omega, by omega, fun _ => ?_⟩
      rw [Nat.add_sub_cancel]; exact g4
    | inr g =>
      exact ⟨_, g.1, 0, rfl, Nat.zero_le _, by intro h; omega⟩

theorem beginIt_pos (v : Bits) : ∃ p, beginIt v = .ok p ∧ FwdPos v p := by
  unfold beginIt
  simp only [Int.toNat_zero]
  by_cases h0 : 0 < v.length
  · rw [if_pos h0, test_ok h0]
    cases hb : v.getD 0 false with
    | true => exact ⟨_, rfl, 0, rfl, Nat.zero_le _, fun _ => hb⟩
    | false =>
      simp only
      obtain ⟨q, g1, _, g3, _, g5⟩ := forward_spec v 0 h0
      exact ⟨q, g1, q, rfl, g3, g5⟩
  · rw [if_neg h0]
    exact ⟨_, rfl, 0, rfl, Nat.zero_le _, by intro h; omega⟩

theorem rbeginIt_pos (v : Bits) : ∃ p, rbeginIt v = .ok p ∧ RevPos v p := by
  unfold rbeginIt
  by_cases h0 : 0 < v.length
  · have hcast : (v.length : Int) - 1 = ((v.length - 1 : Nat) : Int) := by omega
    simp only
    rw [if_pos (by omega), hcast]
    simp only [Int.toNat_natCast]
    rw [test_ok (by omega)]
    cases hb : v.getD (v.length - 1) false with
    | true => exact ⟨_, rfl, v.length, by omega, Nat.le_refl _, fun _ => hb⟩
    | false =>
      simp only
      obtain ⟨r, g1, g2, _, g4⟩ := reverse_spec v (v.length - 1) (by omega)
      exact ⟨_, g1, r, rfl, by omega, g4⟩
  · simp only
    rw [if_neg (by omega)]
    exact ⟨_, rfl, 0, by omega, Nat.zero_le _, by intro h; omega⟩

theorem endIt_pos (v : Bits) : FwdPos v (endIt v) := ⟨v.length, rfl, Nat.le_refl _, by intro h; omega⟩
theorem rendIt_pos (v : Bits) : RevPos v (rendIt v) := ⟨0, by unfold rendIt; omega, Nat.zero_le _, by intro h; omega⟩

/-! ## walks, generically in the two moves and the invariant on positions -/

theorem itStep_pos (inc dec : Int → Res Int) (P : Int → Prop)
    (hinc : ∀ p, P p → ∃ q, inc p = .ok q ∧ P q) (hdec : ∀ p, P p → ∃ q, dec p = .ok q ∧ P q)
    (p : Int) (op : ItOp) (hp : P p) :
    ∃ o, itStep inc dec p op = .ok o ∧ P o.pos ∧
      o.pos = (match op with
        | .inc | .postInc => (match inc p with | .ok q => q | _ => p)
        | .dec | .postDec => (match dec p with | .ok q => q | _ => p)) ∧
      o.copy = (match op with | .inc | .dec => none | .postInc | .postDec => some p) := by
  cases op with
  | inc =>
    obtain ⟨q, h1, h2⟩ := hinc p hp
    exact ⟨⟨none, q⟩, by simp only [itStep, h1, itStep.rmapI], h2, by simp only [h1], rfl⟩
  | dec =>
    obtain ⟨q, h1, h2⟩ := hdec p hp
    exact ⟨⟨none, q⟩, by simp only [itStep, h1, itStep.rmapI], h2, by simp only [h1], rfl⟩
  | postInc =>
    obtain ⟨q, h1, h2⟩ := hinc p hp
    exact ⟨⟨some p, q⟩, by simp only [itStep, postOp, h1, itStep.rmapP], h2, by simp only [h1], rfl⟩
  | postDec =>
    obtain ⟨q, h1, h2⟩ := hdec p hp
    exact ⟨⟨some p, q⟩, by simp only [itStep, postOp, h1, itStep.rmapP], h2, by simp only [h1], rfl⟩

theorem itWalk_pos (inc dec : Int → Res Int) (P : Int → Prop)
    (hinc : ∀ p, P p → ∃ q, inc p = .ok q ∧ P q) (hdec : ∀ p, P p → ∃ q, dec p = .ok q ∧ P q) :
    ∀ (ops : List ItOp) (p : Int), P p →
      ∃ l, itWalk inc dec p ops = .ok l ∧ l.length = ops.length ∧ ∀ o ∈ l, P o.pos := by
  intro ops
  induction ops with
  | nil => intro p _; exact ⟨[], rfl, rfl, by intro o ho; cases ho⟩
  | cons op ops ih =>
    intro p hp
    obtain ⟨o, h1, h2, _, _⟩ := itStep_pos inc dec P hinc hdec p op hp
    obtain ⟨l, g1, g2, g3⟩ := ih o.pos h2
    refine ⟨o :: l, by simp only [itWalk, h1, g1], by simp [g2], ?_⟩
    intro o' ho'
    cases ho' with
    | head => exact h2
    | tail _ h => exact g3 o' h

theorem fwdWalk_ok (v : Bits) (fromEnd : Bool) (ops : List ItOp) :
    ∃ l, fwdWalk v fromEnd ops = .ok l ∧ l.length = ops.length ∧ ∀ o ∈ l, FwdPos v o.pos := by
  unfold fwdWalk
  cases fromEnd with
  | true =>
    rw [if_pos rfl]
    exact itWalk_pos _ _ (FwdPos v) (forward_pos v) (fwdDec_pos v) ops _ (endIt_pos v)
  | false =>
    rw [if_neg (by simp)]
    obtain ⟨p, h1, h2⟩ := beginIt_pos v
    rw [h1]
    exact itWalk_pos _ _ (FwdPos v) (forward_pos v) (fwdDec_pos v) ops _ h2

theorem revWalk_ok (v : Bits) (fromEnd : Bool) (ops : List ItOp) :
    ∃ l, revWalk v fromEnd ops = .ok l ∧ l.length = ops.length ∧ ∀ o ∈ l, RevPos v o.pos := by
  unfold revWalk
  cases fromEnd with
  | true =>
    rw [if_pos rfl]
    exact itWalk_pos _ _ (RevPos v) (reverse_pos v) (revDec_pos v) ops _ (rendIt_pos v)
  | false =>
    rw [if_neg (by simp)]
    obtain ⟨p, h1, h2⟩ := rbeginIt_pos v
    rw [h1]
    exact itWalk_pos _ _ (RevPos v) (reverse_pos v) (revDec_pos v) ops _ h2

/-! ### the post forms inside a walk -/

/-- the pre form of an iterator operation -/
def ItOp.pre : ItOp → ItOp
  | .postInc => .inc
  | .postDec => .dec
  | o => o

def ItOp.isPost : ItOp → Bool
  | .postInc => true
  | .postDec => true
  | _ => false

/-- the positions before each operation of a walk that starts at `p` and whose outputs are `l` -/
def startsOf (p : Int) (l : List ItOut) : List Int := p :: (l.map (·.pos)).dropLast

theorem itStep_pre (inc dec : Int → Res Int) (p : Int) (op : ItOp) (o : ItOut)
    (h : itStep inc dec p op = .ok o) :
    itStep inc dec p op.pre = .ok ⟨none, o.pos⟩ ∧ o.copy = (if op.isPost then some p else none) := by
  cases op <;> simp only [itStep, ItOp.pre, ItOp.isPost] at h ⊢
  · cases hm : inc p <;> rw [hm] at h <;> simp [itStep.rmapI] at h ⊢
    subst h; simp
  · cases hm : dec p <;> rw [hm] at h <;> simp [itStep.rmapI] at h ⊢
    subst h; simp
  · cases hm : inc p <;> simp [postOp, hm, itStep.rmapP, itStep.rmapI] at h ⊢
    subst h; simp
  · cases hm : dec p <;> simp [postOp, hm, itStep.rmapP, itStep.rmapI] at h ⊢
    subst h; simp

theorem itWalk_post (inc dec : Int → Res Int) : ∀ (ops : List ItOp) (p : Int) (l : List ItOut),
    itWalk inc dec p ops = .ok l →
    itWalk inc dec p (ops.map ItOp.pre) = .ok (l.map fun o => ⟨none, o.pos⟩)
    ∧ l.map (·.copy) = (ops.zip (startsOf p l)).map (fun x => if x.1.isPost then some x.2 else none) := by
  intro ops
  induction ops with
  | nil => intro p l h; simp [itWalk] at h; subst h; simp [itWalk]
  | cons op ops ih =>
    intro p l h
    simp only [itWalk] at h
    cases hs : itStep inc dec p op with
    | throw e => rw [hs] at h; simp at h
    | oob w => rw [hs] at h; simp at h
    | ok o =>
      rw [hs] at h
      simp only at h
      cases hw : itWalk inc dec o.pos ops with
      | throw e => rw [hw] at h; simp at h
      | oob w => rw [hw] at h; simp at h
      | ok l' =>
        rw [hw] at h
        simp only [Res.ok.injEq] at h
        subst h
        obtain ⟨h1, h2⟩ := itStep_pre inc dec p op o hs
        obtain ⟨i1, i2⟩ := ih o.pos l' hw
        refine ⟨?_, ?_⟩
        · simp only [List.map_cons, itWalk, h1, i1]
        · simp only [List.map_cons, startsOf, List.zip_cons_cons]
          rw [h2]
          congr 1
          rw [i2]
          cases l' with
          | nil =>
            cases ops with
            | nil => simp
            | cons a b => simp [itWalk] at hw; cases hx : itStep inc dec o.pos a <;> rw [hx] at hw <;> simp at hw
                          cases hy : itWalk inc dec ‹ItOut›.pos b <;> rw [hy] at hw <;> simp at hw
          | cons x xs => simp [startsOf]

end CelmaVerif.DynBitset
