import CelmaVerif.Model.ProgArgs.Iter
/-
  Safety and progress of the ArgListIterator model: for every argv with a program name, no
  cursor step reads outside argv or outside a word, and every step makes progress.
-/
namespace CelmaVerif.ProgArgs
open CelmaVerif

/-- invariant of the cursor -/
structure It.Inv (it : It) : Prop where
  argc_pos : 1 ≤ it.argv.length
  idx_le   : it.argIndex ≤ it.argv.length + 1
  pos_le   : ∀ w, it.argv[it.argIndex]? = some w → it.charPos ≤ w.length
  inword   : ∀ w, it.argv[it.argIndex]? = some w → 0 < it.charPos → it.nextIsValue = false → it.charPos < w.length
  niv      : it.nextIsValue = true → it.argIndex < it.argv.length
  boundary : it.argIndex = it.argv.length → it.charPos = 0
  isend    : it.argIndex = it.argv.length + 1 → it.atEnd = true

/-- distance to the end: strictly decreases with every step -/
def It.measure (it : It) : Nat :=
  if it.argIndex ≥ it.argv.length + 1 then 0
  else 1 + ((it.argv.drop it.argIndex).map (fun w => w.length + 2)).sum - it.charPos

theorem getWord_ok {argv : List Word} {i : Nat} (h : i < argv.length) : getWord argv i = .ok argv[i] := by
  unfold getWord; simp [h]

theorem getChar_ok {argv : List Word} {i j : Nat} (h : i < argv.length) (hj : j ≤ argv[i].length) :
    ∃ c, getChar argv i j = .ok c := by
  unfold getChar
  rw [getWord_ok h]
  simp only [Res.bind_ok]
  by_cases h1 : j < argv[i].length
  · simp [h1]
  · have : j = argv[i].length := by omega
    simp [this]

theorem getSuffix_ok {argv : List Word} {i j : Nat} (h : i < argv.length) (hj : j ≤ argv[i].length) :
    getSuffix argv i j = .ok (argv[i].drop j) := by
  unfold getSuffix
  rw [getWord_ok h]
  simp [hj]

theorem findEq_lt {w : Word} {e : Nat} (h : findEq w = some e) : e < w.length := by
  induction w generalizing e with
  | nil => simp [findEq] at h
  | cons c cs ih =>
    simp only [findEq] at h
    split at h
    · cases h; simp
    · cases hc : findEq cs with
      | none => simp [hc] at h
      | some e' =>
        simp [hc] at h
        subst h
        have := ih hc
        simp; omega

theorem mkEnd_ok {argv : List Word} (h : 1 ≤ argv.length) :
    ∃ e, It.mkEnd argv = .ok e ∧ e.argv = argv ∧ e.argIndex = argv.length + 1 ∧ e.nextIsValue = false := by
  unfold It.mkEnd
  have h0 : ¬ argv.length = 0 := by omega
  simp only [h0, if_false]
  rw [getWord_ok (by omega)]
  exact ⟨_, rfl, rfl, rfl, rfl⟩

theorem mkEnd_atEnd {argv : List Word} {e : It} (he : It.mkEnd argv = .ok e) : e.atEnd = true := by
  have hv : e.argv = argv := by
    unfold It.mkEnd at he
    split at he
    · cases he
    · cases hw : getWord argv (argv.length - 1) with
      | ok w => rw [hw] at he; simp only [Res.bind_ok, Res.pure_eq] at he; cases he; rfl
      | throw x => rw [hw] at he; cases he
      | oob x => rw [hw] at he; cases he
  unfold It.atEnd
  rw [hv, he]
  simp

theorem mkEnd_inv {argv : List Word} {e : It} (h : 1 ≤ argv.length) (he : It.mkEnd argv = .ok e) : e.Inv := by
  obtain ⟨e', h1, h2, h3, h4⟩ := mkEnd_ok h
  rw [he] at h1; cases h1
  have hnone : e.argv[e.argIndex]? = none := by rw [h3, h2]; simp
  refine ⟨by rw [h2]; exact h, by rw [h2, h3]; omega, ?_, ?_, ?_, ?_, ?_⟩
  · intro w hw; rw [hnone] at hw; cases hw
  · intro w hw; rw [hnone] at hw; cases hw
  · intro hn; rw [h4] at hn; cases hn
  · intro hh; rw [h2, h3] at hh; omega
  · intro _; exact mkEnd_atEnd he

theorem measure_end {it : It} (h : it.argIndex = it.argv.length + 1) : it.measure = 0 := by
  unfold It.measure; simp [h]

theorem measure_pos {it : It} (hI : it.Inv) (h : it.argIndex ≤ it.argv.length) : 0 < it.measure := by
  unfold It.measure
  have : ¬ it.argIndex ≥ it.argv.length + 1 := by omega
  simp only [this, if_false]
  by_cases hb : it.argIndex = it.argv.length
  · have := hI.boundary hb; omega
  · have hlt : it.argIndex < it.argv.length := by omega
    have hw : it.argv[it.argIndex]? = some it.argv[it.argIndex] := by simp [hlt]
    have := hI.pos_le _ hw
    rw [List.drop_eq_getElem_cons hlt]
    simp only [List.map_cons, List.sum_cons]; omega

/-- value of the measure at a position inside argv -/
theorem measure_at {it : It} (hlt : it.argIndex < it.argv.length) :
    it.measure = 1 + (it.argv[it.argIndex].length + 2 +
      ((it.argv.drop (it.argIndex + 1)).map (fun w => w.length + 2)).sum) - it.charPos := by
  unfold It.measure
  have : ¬ it.argIndex ≥ it.argv.length + 1 := by omega
  simp only [this, if_false]
  rw [List.drop_eq_getElem_cons hlt]
  simp only [List.map_cons, List.sum_cons]

theorem measure_next_word {argv : List Word} {i : Nat} (it' : It) (hv : it'.argv = argv) (hi : it'.argIndex = i + 1)
    (hc : it'.charPos = 0) (hle : i < argv.length) :
    it'.measure = 1 + ((argv.drop (i + 1)).map (fun w => w.length + 2)).sum := by
  unfold It.measure
  have : ¬ it'.argIndex ≥ it'.argv.length + 1 := by rw [hv, hi]; omega
  simp only [this, if_false]
  rw [hv, hi, hc]; simp

/-- the invariant and the measure only depend on (argv, argIndex, charPos, nextIsValue) -/
theorem Inv_congr {a b : It} (hv : b.argv = a.argv) (hi : b.argIndex = a.argIndex) (hc : b.charPos = a.charPos)
    (hn : b.nextIsValue = a.nextIsValue) (h : a.Inv) : b.Inv := by
  have he : b.atEnd = a.atEnd := by unfold It.atEnd; rw [hv, hi, hc]
  exact ⟨by rw [hv]; exact h.argc_pos, by rw [hv, hi]; exact h.idx_le,
    by rw [hv, hi, hc]; exact h.pos_le, by rw [hv, hi, hc, hn]; exact h.inword,
    by rw [hv, hi, hn]; exact h.niv, by rw [hv, hi, hc]; exact h.boundary,
    by rw [hv, hi, he]; exact h.isend⟩

theorem measure_congr {a b : It} (hv : b.argv = a.argv) (hi : b.argIndex = a.argIndex) (hc : b.charPos = a.charPos) :
    b.measure = a.measure := by
  unfold It.measure; rw [hv, hi, hc]

/-- a cursor step is good: never out of bounds; if it returns, the invariant holds again and the
    distance to the end has decreased -/
def Good (it : It) (r : Res It) : Prop :=
  match r with
  | .ok it' => it'.Inv ∧ it'.argv = it.argv ∧ it'.measure < it.measure
  | .throw e => e = .runtime_error     -- argument_error
  | .oob _ => False

/-- state after consuming the rest of word `i`: next word boundary -/
theorem boundary_inv {it it' : It} (hI : it.Inv) (hlt : it.argIndex < it.argv.length) (hv : it'.argv = it.argv)
    (hi : it'.argIndex = it.argIndex + 1) (hc : it'.charPos = 0) (hn : it'.nextIsValue = false) : it'.Inv := by
  refine ⟨by rw [hv]; exact hI.argc_pos, by rw [hv, hi]; omega, ?_, ?_, ?_, ?_, ?_⟩
  · intro w _; rw [hc]; omega
  · intro w _ h0; rw [hc] at h0; omega
  · intro h; rw [hn] at h; cases h
  · intro _; exact hc
  · intro h; rw [hv, hi] at h; omega

theorem boundary_measure {it it' : It} (hI : it.Inv) (hlt : it.argIndex < it.argv.length) (hv : it'.argv = it.argv)
    (hi : it'.argIndex = it.argIndex + 1) (hc : it'.charPos = 0) : it'.measure < it.measure := by
  rw [measure_next_word it' hv hi hc hlt, measure_at hlt]
  have hw : it.argv[it.argIndex]? = some it.argv[it.argIndex] := by simp [hlt]
  have := hI.pos_le _ hw
  omega

/-- L1: `operator++` at a word boundary when dashed words are accepted as values: end, control
    character or value; `determineNextArg` is not reached -/
theorem next_boundary_dashed (it : It) (fuel : Nat) (hI : it.Inv) (hle : it.argIndex ≤ it.argv.length)
    (hc : it.charPos = 0) (hn : it.nextIsValue = false) (hd : it.acceptDashed = true) :
    Good it (it.next (fuel + 1)) := by
  unfold It.next
  simp only [hn, hc, Bool.false_or, Nat.lt_irrefl, decide_false, Bool.and_false, Bool.false_eq_true, if_false]
  by_cases hend : it.argIndex ≥ it.argc
  · have heq : it.argIndex = it.argv.length := by unfold It.argc at hend; omega
    rw [if_pos hend]
    obtain ⟨e, h1, h2, h3, h4⟩ := mkEnd_ok hI.argc_pos
    rw [h1]
    refine ⟨Inv_congr (a := e) rfl rfl rfl rfl (mkEnd_inv hI.argc_pos h1), h2, ?_⟩
    have hm : e.measure = 0 := measure_end (by rw [h3, h2])
    have := measure_congr (a := e) (b := { e with remAsValue := false }) rfl rfl rfl
    rw [this, hm]
    exact measure_pos hI hle
  · rw [if_neg hend]
    have hlt : it.argIndex < it.argv.length := by unfold It.argc at hend; omega
    rw [getWord_ok hlt]
    simp only [Res.bind_ok, beq_self_eq_true, if_true]
    obtain ⟨c0, hc0⟩ := getChar_ok (j := 0) hlt (by omega)
    rw [hc0]
    simp only [Res.bind_ok, hd, Bool.or_true, if_true]
    by_cases hctrl : (it.argv[it.argIndex].length == 1 && isCtrlChar c0) = true
    · rw [if_pos hctrl]
      simp only [Res.pure_eq]
      exact ⟨boundary_inv hI hlt rfl rfl (by first | rfl | exact hc) (by first | rfl | exact hn), rfl,
        boundary_measure hI hlt rfl rfl (by first | rfl | exact hc)⟩
    · rw [if_neg hctrl]
      simp only [Res.pure_eq]
      exact ⟨boundary_inv hI hlt rfl rfl (by first | rfl | exact hc) (by first | rfl | exact hn), rfl,
        boundary_measure hI hlt rfl rfl (by first | rfl | exact hc)⟩

theorem Good_trans {a b : It} {r : Res It} (hb : b.Inv → Good b r) (hI : b.Inv) (hv : b.argv = a.argv)
    (hm : b.measure < a.measure) : Good a r := by
  have := hb hI
  unfold Good at *
  cases r with
  | ok c => exact ⟨this.1, by rw [this.2.1, hv], by omega⟩
  | throw e => exact this
  | oob w => exact this

/-- same word, cursor moved right (still inside the word, or onto the value after `=`) -/
theorem inword_inv {it it' : It} (hI : it.Inv) (hlt : it.argIndex < it.argv.length) (hv : it'.argv = it.argv)
    (hi : it'.argIndex = it.argIndex) (hple : it'.charPos ≤ it.argv[it.argIndex].length)
    (hin : it'.nextIsValue = false → it'.charPos < it.argv[it.argIndex].length) : it'.Inv := by
  have hw : it.argv[it.argIndex]? = some it.argv[it.argIndex] := by simp [hlt]
  refine ⟨by rw [hv]; exact hI.argc_pos, by rw [hv, hi]; omega, ?_, ?_, ?_, ?_, ?_⟩
  · intro w h; rw [hv, hi, hw] at h; cases h; exact hple
  · intro w h _ hn; rw [hv, hi, hw] at h; cases h; exact hin hn
  · intro _; rw [hv, hi]; exact hlt
  · intro h; rw [hv, hi] at h; omega
  · intro h; rw [hv, hi] at h; omega

theorem inword_measure {it it' : It} (hlt : it.argIndex < it.argv.length) (hv : it'.argv = it.argv)
    (hi : it'.argIndex = it.argIndex) (hgt : it.charPos < it'.charPos)
    (hple : it'.charPos ≤ it.argv[it.argIndex].length) : it'.measure < it.measure := by
  have hlt' : it'.argIndex < it'.argv.length := by rw [hv, hi]; exact hlt
  rw [measure_at hlt, measure_at hlt']
  have : it'.argv[it'.argIndex] = it.argv[it.argIndex] := by simp [hv, hi]
  rw [this, hv, hi]
  omega

/-- L2: `determineNextArg()` from a position inside a word -/
theorem determineNextArg_good (it : It) (fuel : Nat) (hI : it.Inv) (hlt : it.argIndex < it.argv.length)
    (_hpos : 0 < it.charPos) (hin : it.charPos < it.argv[it.argIndex].length)
    (hcl : it.curLen = it.argv[it.argIndex].length) (hn : it.nextIsValue = false) :
    Good it (it.determineNextArg (fuel + 2)) := by
  unfold It.determineNextArg
  obtain ⟨c, hc⟩ := getChar_ok (j := it.charPos) hlt (by omega)
  rw [hc]
  simp only [Res.bind_ok]
  by_cases hdash : (c == '-') = true
  · rw [if_pos hdash]
    by_cases hlast : (it.charPos + 1 == it.curLen) = true
    · rw [if_pos hlast]
      -- "--" at the end of the word: continue with the next word, dashed values accepted
      let b : It := { it with acceptDashed := true, argIndex := it.argIndex + 1, charPos := 0 }
      have hbI : b.Inv := boundary_inv hI hlt rfl rfl rfl hn
      have hbm : b.measure < it.measure := boundary_measure hI hlt rfl rfl rfl
      exact Good_trans (a := it) (b := b)
        (fun h => next_boundary_dashed b fuel h (by show it.argIndex + 1 ≤ it.argv.length; omega) rfl hn rfl)
        hbI rfl hbm
    · rw [if_neg hlast]
      rw [getSuffix_ok hlt (by omega)]
      simp only [Res.bind_ok]
      cases he : findEq (List.drop (it.charPos + 1) it.argv[it.argIndex]) with
      | none =>
        simp only [Res.pure_eq]
        exact ⟨boundary_inv hI hlt rfl rfl rfl hn, rfl, boundary_measure hI hlt rfl rfl rfl⟩
      | some e =>
        simp only [Res.pure_eq]
        have hel := findEq_lt he
        simp only [List.length_drop] at hel
        refine ⟨inword_inv hI hlt rfl rfl (by show it.charPos + (e + 2) ≤ _; omega) (fun h => by cases h), rfl,
          inword_measure hlt rfl rfl (by show it.charPos < it.charPos + (e + 2); omega)
            (by show it.charPos + (e + 2) ≤ _; omega)⟩
  · rw [if_neg hdash]
    by_cases hone : (it.curLen == it.charPos + 1) = true
    · rw [if_pos hone]
      simp only [Res.pure_eq]
      exact ⟨boundary_inv hI hlt rfl rfl rfl hn, rfl, boundary_measure hI hlt rfl rfl rfl⟩
    · rw [if_neg hone]
      simp only [Res.pure_eq]
      have hne : it.curLen ≠ it.charPos + 1 := by simpa using hone
      refine ⟨inword_inv hI hlt rfl rfl (by show it.charPos + 1 ≤ _; omega)
          (fun _ => by show it.charPos + 1 < _; omega), rfl,
        inword_measure hlt rfl rfl (by show it.charPos < it.charPos + 1; omega) (by show it.charPos + 1 ≤ _; omega)⟩

theorem getChar_dash {argv : List Word} {i j : Nat} {c : Char} (h : getChar argv i j = .ok c) (hc : c = '-')
    (hlt : i < argv.length) : j < argv[i].length := by
  unfold getChar at h
  rw [getWord_ok hlt] at h
  simp only [Res.bind_ok] at h
  by_cases h1 : j < argv[i].length
  · exact h1
  · rw [if_neg h1] at h
    by_cases h2 : j = argv[i].length
    · rw [if_pos h2] at h
      simp only [Res.pure_eq] at h
      cases h
      cases hc
    · rw [if_neg h2] at h; cases h

theorem Good_wrap {it : It} {r : Res It} (h : Good it r) : Good it (clearRem r) := by
  unfold clearRem
  cases r with
  | ok a =>
    obtain ⟨h1, h2, h3⟩ := h
    exact ⟨Inv_congr (a := a) rfl rfl rfl rfl h1, h2, by
      rw [measure_congr (a := a) (b := { a with remAsValue := false }) rfl rfl rfl]; exact h3⟩
  | throw e => exact h
  | oob w => exact h

/-- L3: `operator++` from any state before the end: never out of bounds, progress -/
theorem next_good (it : It) (fuel : Nat) (hI : it.Inv) (hle : it.argIndex ≤ it.argv.length) :
    Good it (it.next (fuel + 3)) := by
  unfold It.next
  dsimp only
  apply Good_wrap
  by_cases hend : it.argIndex ≥ it.argc
  · rw [if_pos hend]
    obtain ⟨e, h1, h2, h3, h4⟩ := mkEnd_ok hI.argc_pos
    rw [h1]
    refine ⟨mkEnd_inv hI.argc_pos h1, h2, ?_⟩
    rw [measure_end (by rw [h3, h2])]
    exact measure_pos hI hle
  · rw [if_neg hend]
    have hlt : it.argIndex < it.argv.length := by unfold It.argc at hend; omega
    have hw : it.argv[it.argIndex]? = some it.argv[it.argIndex] := by simp [hlt]
    have hple := hI.pos_le _ hw
    by_cases hval : (it.nextIsValue || (it.remAsValue && decide (it.charPos > 0))) = true
    · rw [if_pos hval]
      rw [getSuffix_ok hlt hple]
      simp only [Res.bind_ok, Res.pure_eq]
      exact ⟨boundary_inv hI hlt rfl rfl rfl rfl, rfl, boundary_measure hI hlt rfl rfl rfl⟩
    · rw [if_neg hval]
      have hn : it.nextIsValue = false := by
        cases h : it.nextIsValue with
        | false => rfl
        | true => simp [h] at hval
      rw [getWord_ok hlt]
      simp only [Res.bind_ok]
      by_cases hc0 : (it.charPos == 0) = true
      · rw [if_pos hc0]
        have hc : it.charPos = 0 := by simpa using hc0
        obtain ⟨c0, hg⟩ := getChar_ok (j := 0) hlt (by omega)
        rw [hg]
        simp only [Res.bind_ok]
        by_cases hctrl : (it.argv[it.argIndex].length == 1 && isCtrlChar c0) = true
        · rw [if_pos hctrl]
          simp only [Res.pure_eq]
          exact ⟨boundary_inv hI hlt rfl rfl hc hn, rfl, boundary_measure hI hlt rfl rfl hc⟩
        · rw [if_neg hctrl]
          by_cases hv : (c0 != '-' || it.acceptDashed) = true
          · rw [if_pos hv]
            simp only [Res.pure_eq]
            exact ⟨boundary_inv hI hlt rfl rfl hc hn, rfl, boundary_measure hI hlt rfl rfl hc⟩
          · rw [if_neg hv]
            by_cases h1 : (it.argv[it.argIndex].length == 1) = true
            · rw [if_pos h1]; rfl
            · rw [if_neg h1]
              have hdash : c0 = '-' := by
                cases hcd : (c0 != '-') with
                | true => simp [hcd] at hv
                | false => simpa using hcd
              have hlen0 := getChar_dash hg hdash hlt
              have hlen1 : it.argv[it.argIndex].length ≠ 1 := by simpa using h1
              let b : It := { it with curLen := it.argv[it.argIndex].length, charPos := 1 }
              have hbI : b.Inv := inword_inv hI hlt rfl rfl (by show 1 ≤ _; omega) (fun _ => by show 1 < _; omega)
              have hbm : b.measure < it.measure :=
                inword_measure hlt rfl rfl (by show it.charPos < 1; omega) (by show 1 ≤ _; omega)
              exact Good_trans (a := it) (b := b)
                (fun h => determineNextArg_good b fuel h hlt (by show 0 < 1; omega)
                  (by show 1 < it.argv[it.argIndex].length; omega) rfl hn)
                hbI rfl hbm
      · rw [if_neg hc0]
        have hc : 0 < it.charPos := by
          have : it.charPos ≠ 0 := by simpa using hc0
          omega
        have hin := hI.inword _ hw hc hn
        let b : It := { it with curLen := it.argv[it.argIndex].length }
        have hbI : b.Inv := Inv_congr (a := it) rfl rfl rfl rfl hI
        have := determineNextArg_good b fuel hbI hlt hc hin rfl hn
        unfold Good at this ⊢
        cases hr : b.determineNextArg (fuel + 2) with
        | ok c =>
          rw [hr] at this
          exact ⟨this.1, this.2.1, by rw [← measure_congr (a := it) (b := b) rfl rfl rfl]; exact this.2.2⟩
        | throw e => rw [hr] at this; exact this
        | oob w => rw [hr] at this; exact this

end CelmaVerif.ProgArgs
