import CelmaVerif.Lemmas.LogHist
import CelmaVerif.Lemmas.LogPolicy
/-
  Helper lemmas for C14, part 6 (audit follow-up):
  * exactly when the LOG_LEVEL macro / `discard_by_level( ids, …)` throw, and that a call with a
    single log id never does;
  * `World.setFilter` on the world: which `Filters` object a target designates, that the call is
    `checkSetFilter` with the world's policy on that object and that nothing else changes.
-/
namespace CelmaVerif.Log
open CelmaVerif CelmaVerif.Generated.LogDefs

/-! ### `getLog( ids)` -/

theorem getLogByIdGo_zero (ls : List LogEntry) : getLogByIdGo 0 ls = .ok none := by
  induction ls with
  | nil => rfl
  | cons a as ih =>
    unfold getLogByIdGo
    rw [if_neg (by simp)]
    exact ih

/-- no log's id overlaps `ids` without being equal to it: `getLog( ids)` returns -/
theorem getLogByIdGo_ok_of_single (ids : Nat) (ls : List LogEntry)
    (h : ∀ e ∈ ls, ids &&& e.id ≠ 0 → ids = e.id) : ∃ o, getLogByIdGo ids ls = .ok o := by
  induction ls with
  | nil => exact ⟨none, rfl⟩
  | cons a as ih =>
    unfold getLogByIdGo
    by_cases hsel : ids &&& a.id ≠ 0
    · rw [if_pos hsel, if_neg (by intro c; exact c (h a (by simp) hsel))]
      exact ⟨some a, rfl⟩
    · rw [if_neg hsel]
      exact ih (fun e he => h e (by simp [he]))

/-- some log's id overlaps `ids` without being equal to it: `getLog( ids)` throws -/
theorem getLogByIdGo_error_of_overlap (ids : Nat) (ls : List LogEntry)
    (hdis : Disjoint (ls.map (·.id))) (h : ∃ e ∈ ls, ids &&& e.id ≠ 0 ∧ ids ≠ e.id) :
    getLogByIdGo ids ls = .error .runtime_error := by
  induction ls with
  | nil => obtain ⟨e, he, _⟩ := h; simp at he
  | cons a as ih =>
    have hd : Disjoint (as.map (·.id)) := by
      unfold Disjoint at hdis ⊢
      simp only [List.map_cons, List.pairwise_cons] at hdis
      exact hdis.2
    have hhead : ∀ x ∈ as, a.id &&& x.id = 0 := by
      unfold Disjoint at hdis
      simp only [List.map_cons, List.pairwise_cons, List.mem_map] at hdis
      intro x hx
      exact hdis.1 x.id ⟨x, hx, rfl⟩
    obtain ⟨e, he, hov, hne⟩ := h
    unfold getLogByIdGo
    by_cases hsel : ids &&& a.id ≠ 0
    · rw [if_pos hsel]
      by_cases hone : ids ≠ a.id
      · rw [if_pos hone]
      · have hone' : ids = a.id := Decidable.not_not.mp hone
        exfalso
        simp only [List.mem_cons] at he
        cases he with
        | inl he => subst he; exact hne hone'
        | inr he => exact hov (by rw [hone']; exact hhead e he)
    · rw [if_neg hsel]
      simp only [List.mem_cons] at he
      cases he with
      | inl he => subst he; exact absurd hov hsel
      | inr he => exact ih hd ⟨e, he, hov, hne⟩

/-- on a reachable log table every id is a single bit, so a single-bit `ids` overlaps an id only
    by being equal to it -/
theorem World.Inv.single_bit {w : World} (hw : w.Inv) (k : Nat) :
    ∀ e ∈ w.logs, 2 ^ k &&& e.id ≠ 0 → 2 ^ k = e.id := by
  intro e he hsel
  obtain ⟨n, _, h2⟩ := hw.ids
  have hm : e.id ∈ w.logs.map (·.id) := List.mem_map.mpr ⟨e, he, rfl⟩
  rw [h2, List.mem_map] at hm
  obtain ⟨j, _, hj⟩ := hm
  rw [← hj] at hsel ⊢
  by_cases hkj : k = j
  · rw [hkj]
  · exact absurd (two_pow_and_two_pow_of_ne hkj) hsel

/-! ### the pre-check and the macro, exactly -/

/-- `discard_by_level( ids, level)` returns a boolean when `ids` overlaps no log id without being
    equal to it -/
theorem World.discardById_single (w : World) (ids : Nat) (m : Msg) (hw : w.Inv)
    (h : ∀ e ∈ w.logs, ids &&& e.id ≠ 0 → ids = e.id) :
    ∃ b, w.discardById ids m.level = .ok (.val b) := by
  obtain ⟨o, ho⟩ := getLogByIdGo_ok_of_single ids w.logs h
  unfold World.discardById World.getLogById
  rw [ho]
  cases o with
  | none => exact ⟨true, rfl⟩
  | some e =>
    obtain ⟨hmem, _⟩ := getLogByIdGo_some ids w.logs e hw.disjoint ho
    obtain ⟨b, hb, _⟩ := Filters.processLevel_sound e.log.filters m (hw.logs e hmem).own
    simp only [hb]
    exact ⟨!b, rfl⟩

theorem World.discardById_overlap (w : World) (ids : Nat) (lvl : Nat) (hw : w.Inv)
    (h : ∃ e ∈ w.logs, ids &&& e.id ≠ 0 ∧ ids ≠ e.id) :
    w.discardById ids lvl = .ok (.threw .runtime_error) := by
  unfold World.discardById World.getLogById
  rw [getLogByIdGo_error_of_overlap ids w.logs hw.disjoint h]

/-- LOG_LEVEL with an id set that overlaps no log id without being equal to it (in particular a
    single log id, known or not): returns normally, state = the plain send -/
theorem World.macroSend_single (w : World) (ids : Nat) (m : Msg) (hw : w.Inv) (hm : m.Valid)
    (h : ∀ e ∈ w.logs, ids &&& e.id ≠ 0 → ids = e.id) :
    w.macroSend ids m = .ok (w.deliver ids m, none) := by
  obtain ⟨b, hb⟩ := World.discardById_single w ids m hw h
  cases World.discardById_spec w ids m hw with
  | inl ht => rw [hb] at ht; cases ht
  | inr hs =>
    obtain ⟨b', hb', hs⟩ := hs
    rw [hb] at hb'
    have hbb : b = b' := by cases hb'; rfl
    subst hbb
    unfold World.macroSend
    rw [hb]
    cases b with
    | true => simp only; rw [hs rfl]
    | false =>
      simp only
      by_cases h0 : ids = 0
      · exfalso
        subst h0
        unfold World.discardById World.getLogById at hb
        rw [getLogByIdGo_zero] at hb
        cases hb
      · rw [if_neg h0, World.logIds_eq w ids m hw hm]

theorem World.macroSend_overlap (w : World) (ids : Nat) (m : Msg) (hw : w.Inv)
    (h : ∃ e ∈ w.logs, ids &&& e.id ≠ 0 ∧ ids ≠ e.id) :
    w.macroSend ids m = .ok (w, some .runtime_error) := by
  unfold World.macroSend
  rw [World.discardById_overlap w ids m.level hw h]

/-! ### `setFilter` on the world -/

theorem find?_some_index {α : Type} (p : α → Bool) (l : List α) (a : α) (h : l.find? p = some a) :
    ∃ i : Nat, l[i]? = some a ∧ p a = true ∧ ∀ (k : Nat) (b : α), k < i → l[k]? = some b → p b = false := by
  induction l with
  | nil => simp at h
  | cons x xs ih =>
    rw [List.find?_cons] at h
    cases hp : p x with
    | true =>
      rw [hp] at h
      cases h
      exact ⟨0, by simp, hp, by intro k b hk; omega⟩
    | false =>
      rw [hp] at h
      obtain ⟨i, h1, h2, h3⟩ := ih h
      refine ⟨i + 1, ?_, h2, ?_⟩
      · simpa using h1
      intro k b hk hb
      cases k with
      | zero =>
        simp only [List.getElem?_cons_zero, Option.some.injEq] at hb
        subst hb; exact hp
      | succ k => exact h3 k b (by omega) (by simpa using hb)

theorem updFirst_eq_set {α : Type} (p : α → Bool) (g : α → α) (l : List α) (i : Nat) (a : α)
    (h1 : l[i]? = some a) (h2 : p a = true)
    (h3 : ∀ (k : Nat) (b : α), k < i → l[k]? = some b → p b = false) : updFirst p g l = l.set i (g a) := by
  induction l generalizing i with
  | nil => simp at h1
  | cons x xs ih =>
    cases i with
    | zero =>
      simp only [List.getElem?_cons_zero, Option.some.injEq] at h1
      subst h1
      simp [updFirst, h2]
    | succ i =>
      have hx : p x = false := h3 0 x (by omega) (by simp)
      unfold updFirst
      rw [if_neg (by simp [hx]), List.set_cons_succ,
        ih i (by simpa using h1) (fun k b hk hb => h3 (k + 1) b (by omega) (by simpa using hb))]

theorem set_self_of_getElem? {α : Type} (l : List α) (i : Nat) (a : α) (h : l[i]? = some a) :
    l.set i a = l := by
  induction l generalizing i with
  | nil => rfl
  | cons x xs ih =>
    cases i with
    | zero =>
      simp only [List.getElem?_cons_zero, Option.some.injEq] at h
      subst h; rfl
    | succ i => rw [List.set_cons_succ, ih i (by simpa using h)]

/-- `w.Designates tgt F put`: the target names the `Filters` object `F` of `w` — the own filters
    of the *first* log with that name, resp. the filters of the *first* destination with that
    name of the first log with that name — and `put F'` is `w` with exactly that object
    replaced by `F'` (same policy, same ids, every other log, destination, filter and all
    received messages untouched). -/
inductive World.Designates (w : World) : Target → Filters → (Filters → World) → Prop where
  | log (name : String) (i : Nat) (e : LogEntry) (hi : w.logs[i]? = some e)
      (hn : (name == e.name) = true)
      (hfirst : ∀ k b, k < i → w.logs[k]? = some b → (name == b.name) = false) :
      World.Designates w (.log name) e.log.filters
        (fun F' => { w with logs := w.logs.set i (e.setFilters F') })
  | dest (name dname : String) (i : Nat) (e : LogEntry) (j : Nat) (d : Dest)
      (hi : w.logs[i]? = some e) (hn : (name == e.name) = true)
      (hfirst : ∀ k b, k < i → w.logs[k]? = some b → (name == b.name) = false)
      (hj : e.log.dests[j]? = some d) (hd : (d.name == dname) = true)
      (hdfirst : ∀ k b, k < j → e.log.dests[k]? = some b → (b.name == dname) = false) :
      World.Designates w (.dest name dname) d.filters
        (fun F' => { w with logs := w.logs.set i (e.setDests (e.log.dests.set j (d.setFilters F'))) })

/-- putting the designated object back gives the same world -/
theorem World.Designates.put_self {w : World} {tgt : Target} {F : Filters} {put : Filters → World}
    (h : w.Designates tgt F put) : put F = w := by
  cases h with
  | log name i e hi hn hfirst =>
    show ({ w with logs := w.logs.set i (e.setFilters e.log.filters) } : World) = w
    have : e.setFilters e.log.filters = e := rfl
    rw [this, set_self_of_getElem? _ _ _ hi]
  | dest name dname i e j d hi hn hfirst hj hd hdfirst =>
    show ({ w with logs := w.logs.set i (e.setDests (e.log.dests.set j (d.setFilters d.filters))) } : World) = w
    have h1 : d.setFilters d.filters = d := rfl
    rw [h1, set_self_of_getElem? _ _ _ hj]
    have h2 : e.setDests e.log.dests = e := rfl
    rw [h2, set_self_of_getElem? _ _ _ hi]

/-- the designated object satisfies the `Filters` invariant on a reachable world -/
theorem World.Designates.inv {w : World} {tgt : Target} {F : Filters} {put : Filters → World}
    (h : w.Designates tgt F put) (hw : w.Inv) : F.Inv := by
  cases h with
  | log name i e hi hn hfirst => exact (hw.logs e (List.mem_of_getElem? hi)).own
  | dest name dname i e j d hi hn hfirst hj hd hdfirst =>
    exact (hw.logs e (List.mem_of_getElem? hi)).dests d (List.mem_of_getElem? hj)

/-- `setFilter` on a designated object: `checkSetFilter` with the world's policy on that object,
    the result stored in its place -/
theorem World.setFilter_designated (w : World) (tgt : Target) (s : FilterSpec) (F : Filters)
    (put : Filters → World) (hw : w.Inv) (h : w.Designates tgt F put) :
    ∃ F' exc, F.checkSet w.policy s.ftype s.mk = .ok (F', exc) ∧ F'.Inv ∧
      w.setFilter tgt s = .ok (put F', SetResult.ofExc exc) := by
  obtain ⟨F', exc, h1, h2⟩ := Filters.set_inv F w.policy s (h.inv hw)
  refine ⟨F', exc, h1, h2, ?_⟩
  cases h with
  | log name i e hi hn hfirst =>
    have hfind : w.getLogByName name = some e :=
      find?_first (fun x : LogEntry => name == x.name) w.logs i e hi hn hfirst
    unfold World.setFilter
    simp only [hfind, h1, World.updLog]
    rw [updFirst_eq_set _ _ _ i e hi hn hfirst]
  | dest name dname i e j d hi hn hfirst hj hd hdfirst =>
    have hfind : w.getLogByName name = some e :=
      find?_first (fun x : LogEntry => name == x.name) w.logs i e hi hn hfirst
    have hfd : e.log.dests.find? (fun d => d.name == dname) = some d :=
      find?_first (fun x : Dest => x.name == dname) e.log.dests j d hj hd hdfirst
    unfold World.setFilter
    simp only [hfind, hfd, h1, World.updLog]
    rw [updFirst_eq_set _ _ _ i e hi hn hfirst, updFirst_eq_set _ _ _ j d hj hd hdfirst]

/-- nothing designated (no such log, or no such destination): the world is unchanged and the
    call reports it -/
theorem World.setFilter_undesignated (w : World) (tgt : Target) (s : FilterSpec)
    (h : ∀ F put, ¬ w.Designates tgt F put) :
    w.setFilter tgt s = .ok (w, .nolog) ∨ w.setFilter tgt s = .ok (w, .threw .runtime_error) := by
  unfold World.setFilter
  cases tgt with
  | log name =>
    simp only
    cases hl : w.getLogByName name with
    | none => exact .inl rfl
    | some e =>
      obtain ⟨i, h1, h2, h3⟩ := find?_some_index _ _ _ hl
      exact absurd (World.Designates.log name i e h1 h2 h3) (h _ _)
  | dest name dname =>
    simp only
    cases hl : w.getLogByName name with
    | none => exact .inl rfl
    | some e =>
      simp only
      cases hd : e.log.dests.find? (fun d => d.name == dname) with
      | none => exact .inr rfl
      | some d =>
        obtain ⟨i, h1, h2, h3⟩ := find?_some_index _ _ _ hl
        obtain ⟨j, g1, g2, g3⟩ := find?_some_index _ _ _ hd
        exact absurd (World.Designates.dest name dname i e j d h1 h2 h3 g1 g2 g3) (h _ _)

end CelmaVerif.Log
