import CelmaVerif.Model.ProgArgs.SubGroups
/-
  A concrete handler tree for the non-vacuity examples of the sub-group theorems.
  main handler (abbreviations on): `-m,--main` flag, `--out` string;
  sub-group argument `-s,--output` (mandatory, cardinality range 1..2) whose handler has `-a` flag,
  `-n,--num` int (mandatory — never enforced: no end check of a sub handler runs), `-l` multi-value list.
-/
namespace CelmaVerif.ProgArgs
open CelmaVerif CelmaVerif.Keys

def sgSub : Cfg :=
  { args := [{ key := ⟨some 'a', []⟩, kind := .flag, vmode := .none, card := .max 1 },
             { key := ⟨some 'n', "num".toList⟩, kind := .int, vmode := .required, card := .max 1, mandatory := true },
             { key := ⟨some 'l', []⟩, kind := .vecInt, vmode := .required, card := .unlimited, multi := true }],
    abbr := true }

def sgDef : SubDef :=
  { key := ⟨some 's', "output".toList⟩, mandatory := true, card := .range 1 2, sub := sgSub }

def sgCfg (abbr : Bool) : TCfg :=
  { main := { args := [{ key := ⟨some 'm', "main".toList⟩, kind := .flag, vmode := .none, card := .max 1 },
                       { key := ⟨none, "out".toList⟩, kind := .str, vmode := .required, card := .max 1 }],
              abbr := abbr },
    subs := [sgDef] }

def sgInits : TInits := { main := [.flag false, .str []], subs := [[.flag false, .int 0, .vec []]] }

def sgArgv (ws : List String) : List Word := "prog".toList :: ws.map String.toList

/-- what an evaluation leaves: main destinations, "sub-group argument was used", sub destinations -/
def sgView (r : Res TState) : Option (List DVal × List Bool × List (List DVal)) :=
  match r with
  | .ok t => some (t.main.args.map (·.dest), t.subArgs.map (·.hasValueSet), t.subs.map (fun h => h.args.map (·.dest)))
  | _ => none

def sgEval (abbr : Bool) (ws : List String) : Res TState :=
  evalArgumentsT (sgCfg abbr) ((sgCfg abbr).initState sgInits) {} (sgArgv ws)

/-- through a group: the plain arguments in member 0, the sub-group argument in member 1 -/
def sgGroup (abbr : Bool) (order : List Nat) (ws : List String) : Res (List (TCfg × TState)) :=
  groupsEvalT (sgCfg abbr) sgInits [0, 0] [1] [] order (sgArgv ws)

def isRuntimeError {α : Type} : Res α → Bool
  | .throw .runtime_error => true
  | _ => false

def isInvalidArgument {α : Type} : Res α → Bool
  | .throw .invalid_argument => true
  | _ => false

end CelmaVerif.ProgArgs
