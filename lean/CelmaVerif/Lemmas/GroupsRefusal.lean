import CelmaVerif.Lemmas.GroupsEval
/-
  Where the exception classes of a group and of the single handler differ: only at the
  unknown-argument refusal.  `GroupAgrees` / `LoopRel` / `EvalRel` allow the pair
  (`invalid_argument`, `runtime_error`) whatever its cause; here the cause is pinned down.
-/
namespace CelmaVerif.ProgArgs
open CelmaVerif CelmaVerif.Keys

/-- the loop of the single handler (`iterateLoop`) ends in its unknown-argument refusal: after zero
    or more consumed elements it is at an element that is not the end, `evalSingleArgument` RETURNS
    for it (no exception — not a malformed key, not a value check) and answers `unknown` -/
def UnknownRefusal (cfg : Cfg) : Nat → HState → It → Prop
  | 0, _, _ => False
  | fuel + 1, h, ai => ai.atEnd = false ∧ ∃ h' ai' r, evalSingleArgument cfg h ai = .ok (h', ai', r) ∧
      (r = .unknown ∨ (r = .consumed ∧ ∃ ai'', ai'.step = .ok ai'' ∧ UnknownRefusal cfg fuel h' ai''))

/-- … and then the loop does throw `std::invalid_argument` (the predicate is not weaker than the event) -/
theorem UnknownRefusal.throws {cfg : Cfg} : ∀ (fuel : Nat) (h : HState) (ai : It), UnknownRefusal cfg fuel h ai →
    iterateLoop cfg fuel h ai = .throw .invalid_argument := by
  intro fuel
  induction fuel with
  | zero => intro h ai hu; exact hu.elim
  | succ fuel ih =>
    intro h ai hu
    obtain ⟨hend, h', ai', r, he, hr⟩ := hu
    unfold iterateLoop
    rw [if_neg (by rw [hend]; exact Bool.false_ne_true), he]
    simp only [Res.bind_ok]
    rcases hr with rfl | ⟨rfl, ai'', hs, hu'⟩
    · rfl
    · simp only [hs, Res.bind_ok]
      exact ih h' ai'' hu'

theorem loop_refusal {cfg : Cfg} {vs : List View} (wf : GroupWF cfg vs) (hne : vs ≠ []) (fuel : Nat) :
    ∀ (H : HState) (ms : List (Cfg × HState)) (ai : It), HInv cfg vs H → GRel cfg H vs ms → ai.Plain →
      iterateLoop cfg fuel H ai = .throw .invalid_argument → groupsLoop fuel ms ai = .throw .runtime_error →
      UnknownRefusal cfg fuel H ai := by
  induction fuel with
  | zero => intro H ms ai _ _ _ hi _; unfold iterateLoop at hi; cases hi
  | succ fuel ih =>
    intro H ms ai hinv hrel hp hi hg
    unfold iterateLoop at hi
    unfold groupsLoop at hg
    split at hi
    · cases hi
    · rename_i hend
      rw [if_neg hend] at hg
      refine ⟨by simpa using hend, ?_⟩
      have hstep := group_step_sim wf hne hinv hrel ai hp.elem
      cases he : evalSingleArgument cfg H ai with
      | ok x =>
        obtain ⟨H', ai', r⟩ := x
        rw [he] at hstep hi
        simp only [Res.bind_ok] at hi
        refine ⟨H', ai', r, rfl, ?_⟩
        rcases hstep with ⟨rfl, _⟩ | ⟨rfl, ms', hg', hinv', hrel'⟩
        · exact Or.inl rfl
        · refine Or.inr ⟨rfl, ?_⟩
          rw [hg'] at hg
          simp only [Res.bind_ok] at hg
          have : (ArgResult.consumed == ArgResult.unknown) = false := rfl
          simp only [this, Bool.false_eq_true, if_false] at hg
          have hp' := evalSingleArgument_plain hp he
          cases hs : ai'.step with
          | ok ai'' =>
            rw [hs] at hi hg
            simp only [Res.bind_ok] at hi hg
            exact ⟨ai'', rfl, ih H' ms' ai'' hinv' hrel' (plain_step hp' hs) hi hg⟩
          | throw e =>
            rw [hs] at hi hg
            have h1 : e = .invalid_argument := by simpa using hi
            have h2 : e = .runtime_error := by simpa using hg
            rw [h1] at h2; cases h2
          | oob w => rw [hs] at hi; cases hi
      | throw e =>
        rw [he] at hstep hi
        have hg' : offer (ai.cur.ty != .value) ms ai = .throw e := hstep
        rw [hg'] at hg
        have h1 : e = .invalid_argument := by simpa using hi
        have h2 : e = .runtime_error := by simpa using hg
        rw [h1] at h2; cases h2
      | oob w => rw [he] at hi; cases hi

/-- The only way the exception classes differ.  Under the hypotheses of `group_agrees`: if the single
    handler throws `std::invalid_argument` and the group throws `std::runtime_error`, then the cursor
    could be opened and the single handler's loop ended in its unknown-argument refusal
    (`UnknownRefusal`): every element before was consumed, and for the last one `evalSingleArgument`
    returned `unknown` without an exception. -/
theorem group_refusal (cfg : Cfg) (inits : List DVal) (am gm order : List Nat) (argv : List Word)
    (w : GroupWellFormed cfg am gm order) (hne : order ≠ []) (hlen : inits.length = cfg.args.length)
    (ha : ArgvPlain argv)
    (hs : evalArguments cfg (cfg.initState inits) {} argv = .throw .invalid_argument)
    (hg : groupsEval cfg inits am gm order argv = .throw .runtime_error) :
    ∃ ai, It.begin argv = .ok ai ∧ UnknownRefusal cfg (totalChars argv) (cfg.initState inits) ai := by
  rw [evalArguments_nosrc] at hs
  rw [groupsEval_eq cfg inits am gm order argv hne] at hg
  have wf := w.toWF
  have hvs : groupViews am gm order ≠ [] := by unfold groupViews; simpa using hne
  have hinv0 := hinv_init cfg (groupViews am gm order) inits hlen
  have hrel0 : GRel cfg (cfg.initState inits) (groupViews am gm order)
      (order.map (fun m => (memberCfg cfg am gm m, (memberCfg cfg am gm m).initState (memberInits inits am m)))) := by
    apply grel_init cfg am gm inits hlen order
    intro m _ a ha
    rw [← w.alen]
    exact (mem_memberArgIdx.mp ha).1
  unfold iterateArguments at hs
  cases hb : It.begin argv with
  | ok ai =>
    rw [hb] at hs hg
    simp only [Res.bind_ok] at hs hg
    refine ⟨ai, rfl, ?_⟩
    have hp := begin_plain ha hb
    have hl := loop_sim wf hvs (totalChars argv) _ _ ai hinv0 hrel0 hp
    cases hi : iterateLoop cfg (totalChars argv) (cfg.initState inits) ai with
    | ok H =>
      exfalso
      rw [hi] at hs
      simp only [Res.bind_ok, endChecks_eq] at hs
      rcases memberEndChecks_cases cfg H (kindsOk_cfg wf) with h1 | h1 <;> rw [h1] at hs <;> cases hs
    | throw e =>
      rw [hi] at hs hl
      have he : e = .invalid_argument := by simpa using hs
      subst he
      obtain ⟨e', hg', _⟩ := hl
      rw [hg'] at hg
      have he' : e' = .runtime_error := by simpa using hg
      subst he'
      exact loop_refusal wf hvs (totalChars argv) _ _ ai hinv0 hrel0 hp hi hg'
    | oob x => rw [hi] at hs; cases hs
  | throw e =>
    rw [hb] at hs hg
    have h1 : e = .invalid_argument := by simpa using hs
    have h2 : e = .runtime_error := by simpa using hg
    rw [h1] at h2; cases h2
  | oob x => rw [hb] at hs; cases hs

/-- reading the exception class off an evaluated result (for closed examples: `decide +kernel` on the
    Boolean, no `DecidableEq (Res α)` needed) -/
theorem throws_of_match {α : Type} (r : Res α) (e : Exc)
    (h : (match r with | .throw e' => decide (e' = e) | _ => false) = true) : r = .throw e := by
  cases r with
  | throw e' => exact congrArg Res.throw (of_decide_eq_true h)
  | ok _ => cases h
  | oob _ => cases h

end CelmaVerif.ProgArgs
