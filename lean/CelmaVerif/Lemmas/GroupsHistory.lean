import CelmaVerif.Lemmas.GroupsCross
import CelmaVerif.Lemmas.GroupsDispatch
import CelmaVerif.Lemmas.GroupsEval
/-
  The cross check over registration histories: after every sequence of argument definitions on the
  members of a group that `Groups` / `Handler::addArgument` accepted (`groupDefineSeq … = none`), no
  two keys of the group clash — neither inside a member nor across members.  This is the hypothesis
  `MembersDisjoint` of the dispatch theorem and `GroupWellFormed.disj` of the equivalence.
-/
namespace CelmaVerif.ProgArgs
open CelmaVerif CelmaVerif.Keys

/-- the tables the accepted definitions leave behind: `none` as soon as one definition is refused.
    (`groupDefineSeq` of the validated model reports the refusal; `groupDefineSeq_none_iff` ties the two.) -/
def groupDefineTables : List (List (Key × Unit)) → List (Nat × List Char) → Option (List (List (Key × Unit)))
  | tables, [] => some tables
  | tables, (m, spec) :: rest =>
    match Key.parse spec with
    | .ok k =>
      match groupAddArgument (tables.getD m [])
          ((tables.zipIdx.filter (fun ti => ti.2 != m)).map (fun ti => ti.1.map (·.1))) k () with
      | .ok t => groupDefineTables (tables.set m t) rest
      | _ => none
    | _ => none

theorem groupDefineSeq_none_iff (defs : List (Nat × List Char)) :
    ∀ (tables : List (List (Key × Unit))) (idx : Nat),
      groupDefineSeq tables defs idx = none ↔ ∃ ts, groupDefineTables tables defs = some ts := by
  induction defs with
  | nil => intro tables idx; simp [groupDefineSeq, groupDefineTables]
  | cons d rest ih =>
    intro tables idx
    obtain ⟨m, spec⟩ := d
    simp only [groupDefineSeq, groupDefineTables]
    cases Key.parse spec with
    | ok k =>
      simp only
      cases groupAddArgument (tables.getD m [])
          ((tables.zipIdx.filter (fun ti => ti.2 != m)).map (fun ti => ti.1.map (·.1))) k () with
      | ok t => simp only; exact ih _ _
      | throw e => simp
      | oob w => simp
    | throw e => simp
    | oob w => simp

/-- no two keys of the group clash: inside every member, and between any two members -/
structure TablesDisjoint (tables : List (List (Key × Unit))) : Prop where
  own : ∀ (i : Nat) (t : List (Key × Unit)), tables[i]? = some t → Disjoint t
  cross : ∀ (i j : Nat) (a b : List (Key × Unit)), i ≠ j → tables[i]? = some a → tables[j]? = some b →
    ∀ e ∈ a, ∀ f ∈ b, ¬ e.1.Clash f.1

theorem tablesDisjoint_replicate (n : Nat) : TablesDisjoint (List.replicate n []) := by
  constructor
  · intro i t ht
    rw [List.getElem?_replicate] at ht
    split at ht
    · cases ht; exact List.Pairwise.nil
    · cases ht
  · intro i j a b _ ha _ e he
    rw [List.getElem?_replicate] at ha
    split at ha
    · cases ha; cases he
    · cases ha

theorem mem_others {tables : List (List (Key × Unit))} {m : Nat} {t : List Key} :
    t ∈ (tables.zipIdx.filter (fun ti => ti.2 != m)).map (fun ti => ti.1.map (·.1)) ↔
      ∃ j b, j ≠ m ∧ tables[j]? = some b ∧ t = b.map (·.1) := by
  simp only [List.mem_map, List.mem_filter, bne_iff_ne, ne_eq, Prod.exists]
  constructor
  · rintro ⟨b, j, ⟨hmem, hne⟩, rfl⟩
    exact ⟨j, b, hne, List.mem_zipIdx_iff_getElem?.mp hmem, rfl⟩
  · rintro ⟨j, b, hne, hb, rfl⟩
    exact ⟨b, j, ⟨List.mem_zipIdx_iff_getElem?.mpr hb, hne⟩, rfl⟩

/-- one accepted definition keeps the group free of clashes -/
theorem tablesDisjoint_step {tables : List (List (Key × Unit))} (hinv : TablesDisjoint tables) (m : Nat) (k : Key)
    {t : List (Key × Unit)}
    (h : groupAddArgument (tables.getD m [])
      ((tables.zipIdx.filter (fun ti => ti.2 != m)).map (fun ti => ti.1.map (·.1))) k () = .ok t) :
    TablesDisjoint (tables.set m t) := by
  by_cases hm : m < tables.length
  · have hown : tables[m]? = some (tables.getD m []) := by
      rw [List.getD_eq_getElem?_getD, List.getElem?_eq_getElem hm]; rfl
    have hprev : ∀ t' ∈ (tables.zipIdx.filter (fun ti => ti.2 != m)).map (fun ti => ti.1.map (·.1)),
        ∀ e ∈ tables.getD m [], ∀ o ∈ t', ¬ e.1.Clash o := by
      intro t' ht' e he o ho
      obtain ⟨j, b, hne, hb, rfl⟩ := mem_others.mp ht'
      obtain ⟨f, hf, rfl⟩ := List.mem_map.mp ho
      exact hinv.cross m j _ b (Ne.symm hne) hown hb e he f hf
    rcases groupAddArgument_cases (tables.getD m []) _ k () hprev with ⟨hok, hno, hothers⟩ | ⟨hthrow, _⟩
    · rw [hok] at h
      cases h
      have hdis : Disjoint (tables.getD m [] ++ [(k, ())]) := by
        have h0 := hinv.own m _ hown
        unfold Disjoint at h0 ⊢
        rw [List.pairwise_append]
        refine ⟨h0, List.pairwise_singleton _ _, ?_⟩
        intro a ha b hb
        rw [List.mem_singleton] at hb
        subst hb
        exact fun hc => hno ⟨a, ha, hc⟩
      have hnew : ∀ j b, j ≠ m → tables[j]? = some b → ∀ e ∈ tables.getD m [] ++ [(k, ())], ∀ f ∈ b,
          ¬ e.1.Clash f.1 := by
        intro j b hne hb e he f hf
        rcases List.mem_append.mp he with he | he
        · exact hinv.cross m j _ b (Ne.symm hne) hown hb e he f hf
        · rw [List.mem_singleton] at he
          subst he
          exact hothers (b.map (·.1)) (mem_others.mpr ⟨j, b, hne, hb, rfl⟩) f.1 (List.mem_map.mpr ⟨f, hf, rfl⟩)
      constructor
      · intro i t' ht'
        rw [List.getElem?_set] at ht'
        by_cases hi : m = i
        · subst hi
          rw [if_pos rfl, if_pos hm] at ht'
          cases ht'; exact hdis
        · rw [if_neg hi] at ht'
          exact hinv.own i t' ht'
      · intro i j a b hij ha hb e he f hf
        rw [List.getElem?_set] at ha hb
        by_cases hi : m = i
        · subst hi
          rw [if_pos rfl, if_pos hm] at ha
          cases ha
          rw [if_neg hij] at hb
          exact hnew j b (Ne.symm hij) hb e he f hf
        · rw [if_neg hi] at ha
          by_cases hj : m = j
          · subst hj
            rw [if_pos rfl, if_pos hm] at hb
            cases hb
            exact fun hc => hnew i a (Ne.symm hi) ha f hf e he (clash_symm hc)
          · rw [if_neg hj] at hb
            exact hinv.cross i j a b hij ha hb e he f hf
    · rw [hthrow] at h; cases h
  · rw [List.set_eq_of_length_le (Nat.le_of_not_lt hm)]
    exact hinv

/-- every accepted registration history leaves a group without clashing keys -/
theorem groupDefineTables_disjoint (defs : List (Nat × List Char)) :
    ∀ (tables ts : List (List (Key × Unit))), TablesDisjoint tables → groupDefineTables tables defs = some ts →
      TablesDisjoint ts ∧ ts.length = tables.length := by
  induction defs with
  | nil => intro tables ts hinv h; simp only [groupDefineTables, Option.some.injEq] at h; subst h; exact ⟨hinv, rfl⟩
  | cons d rest ih =>
    intro tables ts hinv h
    obtain ⟨m, spec⟩ := d
    simp only [groupDefineTables] at h
    cases hp : Key.parse spec with
    | ok k =>
      rw [hp] at h
      simp only at h
      cases ha : groupAddArgument (tables.getD m [])
          ((tables.zipIdx.filter (fun ti => ti.2 != m)).map (fun ti => ti.1.map (·.1))) k () with
      | ok t =>
        rw [ha] at h
        simp only at h
        obtain ⟨h1, h2⟩ := ih _ ts (tablesDisjoint_step hinv m k ha) h
        exact ⟨h1, by rw [h2, List.length_set]⟩
      | throw e => rw [ha] at h; cases h
      | oob w => rw [ha] at h; cases h
    | throw e => rw [hp] at h; cases h
    | oob w => rw [hp] at h; cases h

/-- members whose key tables are the tables of a clash-free group are `MembersDisjoint` -/
theorem membersDisjoint_of_tables {tables : List (List (Key × Unit))} (hinv : TablesDisjoint tables)
    (ms : List (Cfg × HState))
    (hms : ms.map (fun m => m.1.table.map (·.1)) = tables.map (fun t => t.map (·.1))) : MembersDisjoint ms := by
  unfold MembersDisjoint
  rw [List.pairwise_iff_getElem]
  intro i j hi hj hij e he f hf
  have hlen : ms.length = tables.length := by
    have := congrArg List.length hms
    simpa using this
  have hget : ∀ (p : Nat) (hp : p < ms.length), ∃ t, tables[p]? = some t ∧
      ms[p].1.table.map (·.1) = t.map (·.1) := by
    intro p hp
    have h1 : (ms.map (fun m => m.1.table.map (·.1)))[p]? = some (ms[p].1.table.map (·.1)) := by
      rw [List.getElem?_map, List.getElem?_eq_getElem hp]; rfl
    rw [hms, List.getElem?_map] at h1
    cases ht : tables[p]? with
    | none => rw [ht] at h1; cases h1
    | some t => rw [ht] at h1; simp only [Option.map_some, Option.some.injEq] at h1; exact ⟨t, rfl, h1.symm⟩
  obtain ⟨a, hta, hka⟩ := hget i hi
  obtain ⟨b, htb, hkb⟩ := hget j hj
  have hea : e.1 ∈ a.map (·.1) := hka ▸ List.mem_map.mpr ⟨e, he, rfl⟩
  have hfb : f.1 ∈ b.map (·.1) := hkb ▸ List.mem_map.mpr ⟨f, hf, rfl⟩
  obtain ⟨e', he', hee⟩ := List.mem_map.mp hea
  obtain ⟨f', hf', hff⟩ := List.mem_map.mp hfb
  rw [← hee, ← hff]
  exact hinv.cross i j a b (by omega) hta htb e' he' f' hf'

/-! ### what the tables contain -/

/-- the keys the definitions addressed to member `m` spell, in the order of definition -/
def definedKeys (defs : List (Nat × List Char)) (m : Nat) : List (Key × Unit) :=
  (defs.filter (fun d => d.1 == m)).filterMap (fun d => match Key.parse d.2 with | .ok k => some (k, ()) | _ => none)

theorem groupAddArgument_ok_eq {α : Type} {own t : List (Key × α)} {others : List (List Key)} {k : Key} {a : α}
    (h : groupAddArgument own others k a = .ok t) : t = own ++ [(k, a)] := by
  unfold groupAddArgument at h
  rcases addArgument_cases own k a with h' | h'
  · rw [h'] at h; cases h
  · rw [h'] at h
    simp only [Res.bind_ok] at h
    cases hc : crossCheck ((own ++ [(k, a)]).map (·.1)) others with
    | ok u => rw [hc] at h; cases h; rfl
    | throw e => rw [hc] at h; cases h
    | oob w => rw [hc] at h; cases h

/-- after an accepted history member `m` holds what it held before followed by exactly the keys
    defined for it, in order -/
theorem groupDefineTables_content (defs : List (Nat × List Char)) :
    ∀ (tables ts : List (List (Key × Unit))), groupDefineTables tables defs = some ts →
      ∀ m, m < tables.length → ts.getD m [] = tables.getD m [] ++ definedKeys defs m := by
  induction defs with
  | nil =>
    intro tables ts h m _
    simp only [groupDefineTables, Option.some.injEq] at h
    subst h
    simp [definedKeys]
  | cons d rest ih =>
    intro tables ts h m hm
    obtain ⟨m', spec⟩ := d
    simp only [groupDefineTables] at h
    cases hp : Key.parse spec with
    | ok k =>
      rw [hp] at h
      simp only at h
      cases ha : groupAddArgument (tables.getD m' [])
          ((tables.zipIdx.filter (fun ti => ti.2 != m')).map (fun ti => ti.1.map (·.1))) k () with
      | ok t =>
        rw [ha] at h
        simp only at h
        have ht := groupAddArgument_ok_eq ha
        have := ih _ ts h m (by rw [List.length_set]; exact hm)
        rw [this]
        by_cases hmm : m' = m
        · subst hmm
          have h1 : (tables.set m' t).getD m' [] = t := by
            rw [List.getD_eq_getElem?_getD, List.getElem?_set, if_pos rfl, if_pos hm]; rfl
          rw [h1, ht]
          simp [definedKeys, hp]
        · have h1 : (tables.set m' t).getD m [] = tables.getD m [] := by
            rw [List.getD_eq_getElem?_getD, List.getD_eq_getElem?_getD, List.getElem?_set, if_neg hmm]
          rw [h1]
          have : ((m' == m) = false) := by simpa using hmm
          simp [definedKeys, this]
      | throw e => rw [ha] at h; cases h
      | oob w => rw [ha] at h; cases h
    | throw e => rw [hp] at h; cases h
    | oob w => rw [hp] at h; cases h

/-! ### from the members' tables to the merged configuration -/

/-- If the arguments of `cfg` are distributed over members (`am[a]` owns argument `a`) so that the keys
    of every member are — up to order — a list `keysOf m` without clashes, and keys of different members
    never clash, then no two keys of the merged configuration clash. -/
theorem disjoint_of_members (cfg : Cfg) (am : List Nat) (alen : am.length = cfg.args.length)
    (keysOf : Nat → List Key)
    (hown : ∀ m, (keysOf m).Pairwise (fun a b => ¬ a.Clash b))
    (hcross : ∀ m m', m ≠ m' → ∀ a ∈ keysOf m, ∀ b ∈ keysOf m', ¬ a.Clash b)
    (hperm : ∀ m, ((pick (memberArgIdx am m) cfg.args).map (·.key)).Perm (keysOf m)) : Disjoint cfg.table := by
  unfold Disjoint Cfg.table
  rw [List.pairwise_map, List.pairwise_iff_getElem]
  intro i j hi hj hij
  show ¬ (cfg.args[i]).key.Clash (cfg.args[j]).key
  have hia : i < am.length := alen ▸ hi
  have hja : j < am.length := alen ▸ hj
  have hmi : i ∈ memberArgIdx am (am.getD i 0) := mem_memberArgIdx.mpr ⟨hia, rfl⟩
  have hmj : j ∈ memberArgIdx am (am.getD j 0) := mem_memberArgIdx.mpr ⟨hja, rfl⟩
  have hki : (cfg.args[i]).key ∈ keysOf (am.getD i 0) :=
    (hperm _).mem_iff.mp (List.mem_map.mpr ⟨_, mem_pick hmi (List.getElem?_eq_getElem hi), rfl⟩)
  have hkj : (cfg.args[j]).key ∈ keysOf (am.getD j 0) :=
    (hperm _).mem_iff.mp (List.mem_map.mpr ⟨_, mem_pick hmj (List.getElem?_eq_getElem hj), rfl⟩)
  by_cases hm : am.getD i 0 = am.getD j 0
  · -- same member: positions i < j of the member's own list
    have hp : ((pick (memberArgIdx am (am.getD i 0)) cfg.args).map (·.key)).Pairwise (fun a b => ¬ a.Clash b) :=
      ((hperm _).pairwise_iff (fun h hc => h (clash_symm hc))).mpr (hown _)
    unfold pick memberArgIdx at hp
    rw [List.pairwise_map, List.pairwise_filterMap, List.pairwise_filter, List.pairwise_iff_getElem] at hp
    have hil : i < (List.range am.length).length := by rw [List.length_range]; exact hia
    have hjl : j < (List.range am.length).length := by rw [List.length_range]; exact hja
    have := hp i j hil hjl hij
    simp only [List.getElem_range] at this
    exact this (by simp) (by rw [hm]; simp) _ (List.getElem?_eq_getElem hi) _ (List.getElem?_eq_getElem hj)
  · exact hcross _ _ hm _ hki _ hkj

/-- … in particular when the members' keys are the tables an accepted registration history left -/
theorem disjoint_of_tables {tables : List (List (Key × Unit))} (hinv : TablesDisjoint tables) (cfg : Cfg)
    (am : List Nat) (alen : am.length = cfg.args.length)
    (hperm : ∀ m, ((pick (memberArgIdx am m) cfg.args).map (·.key)).Perm ((tables.getD m []).map (·.1))) :
    Disjoint cfg.table := by
  have hget : ∀ m (k : Key), k ∈ (tables.getD m []).map (·.1) → tables[m]? = some (tables.getD m []) := by
    intro m k hk
    by_cases hm : m < tables.length
    · rw [List.getD_eq_getElem?_getD, List.getElem?_eq_getElem hm]; rfl
    · rw [List.getD_eq_getElem?_getD, List.getElem?_eq_none (Nat.le_of_not_lt hm)] at hk
      simp at hk
  apply disjoint_of_members cfg am alen (fun m => (tables.getD m []).map (·.1)) ?_ ?_ hperm
  · intro m
    rw [List.pairwise_map]
    by_cases hm : m < tables.length
    · exact hinv.own m _ (by rw [List.getD_eq_getElem?_getD, List.getElem?_eq_getElem hm]; rfl)
    · rw [List.getD_eq_getElem?_getD, List.getElem?_eq_none (Nat.le_of_not_lt hm)]
      exact List.Pairwise.nil
  · intro m m' hne a ha b hb
    obtain ⟨e, he, rfl⟩ := List.mem_map.mp ha
    obtain ⟨f, hf, rfl⟩ := List.mem_map.mp hb
    exact hinv.cross m m' _ _ hne (hget m _ ha) (hget m' _ hb) e he f hf

end CelmaVerif.ProgArgs
