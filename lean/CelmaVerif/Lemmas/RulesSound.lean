import CelmaVerif.Lemmas.RulesArgs
import CelmaVerif.Lemmas.RulesPending
import CelmaVerif.Lemmas.RulesGlobals
import CelmaVerif.Lemmas.RulesValueC
/-
  Rules layer, part 5: soundness — an abstract command line that the handler accepts obeys every
  declared rule.
-/
namespace CelmaVerif.ProgArgs
open CelmaVerif CelmaVerif.Keys

/-- all invariants of the rule automata together -/
structure RulesInv (cfg : Cfg) (inits : List DVal) (h : HState) : Prop where
  frame  : Frame cfg h
  args   : ArgInv cfg inits h
  values : ObeysValues cfg h.uses
  pend   : PendInv cfg h
  glob   : GlobInv cfg h
  vals   : ValInv cfg inits h

/-- the value constraints at the final check: every differ / disjoint constraint whose end condition
    passed is met -/
theorem value_constraints_sound_aux {cfg : Cfg} (wf : cfg.WellFormed) {inits : List DVal}
    (hin : cfg.args.length ≤ inits.length) {h : HState} (f : Frame cfg h) (vi : ValInv cfg inits h)
    (e : checkGlobals cfg.args h.args cfg.globals h.globals = .ok ()) :
    ∀ g ∈ cfg.globals, (g.kind = .differ → DifferMet cfg inits h.uses g.keys) ∧
      (g.kind = .disjoint → DisjointMet cfg inits h.uses g.keys) := by
  intro g hg
  obtain ⟨n, hn, hgn⟩ := List.getElem_of_mem hg
  have hg' : cfg.globals[n]? = some g := by rw [List.getElem?_eq_getElem hn, hgn]
  have hn' : n < h.globals.length := by rw [f.globLen]; exact hn
  have hs' : h.globals[n]? = some h.globals[n] := List.getElem?_eq_getElem hn'
  have hend := checkGlobals_get _ _ _ _ e n g _ hg' hs'
  exact ⟨fun hk => differ_sound wf vi hg hk hend, fun hk => disjoint_sound wf hin vi hg hk hend⟩

theorem rulesInv_init (cfg : Cfg) (inits : List DVal) (hin : cfg.args.length ≤ inits.length) :
    RulesInv cfg inits (cfg.initState inits) :=
  ⟨frame_init cfg inits hin, argInv_init cfg inits hin, by intro u hu; simp [Cfg.initState] at hu,
    pendInv_init cfg inits, globInv_init cfg inits, valInv_init cfg inits hin⟩

theorem rulesInv_step {cfg : Cfg} (wf : cfg.WellFormed) {inits : List DVal} {h : HState} {u : Use} {h' : HState}
    (a : RulesInv cfg inits h) (e : applyUse cfg h u = .ok h') : RulesInv cfg inits h' :=
  ⟨frame_step a.frame e, argInv_step a.frame a.args e, values_step a.values e, pendInv_step wf.disjoint wf.argKeys a.pend e,
    globInv_step a.glob e, valInv_step a.frame a.vals e⟩

/-- the invariants hold after any sequence of uses from the initial state -/
theorem rulesInv_applyUses {cfg : Cfg} (wf : cfg.WellFormed) {inits : List DVal}
    (hin : cfg.args.length ≤ inits.length) {us : List Use} {h : HState}
    (e : applyUses cfg (cfg.initState inits) us = .ok h) : RulesInv cfg inits h ∧ h.uses = us := by
  constructor
  · exact applyUses_inv (RulesInv cfg inits) (fun _ _ _ a e => rulesInv_step wf a e) us _ _
      (rulesInv_init cfg inits hin) e
  · have := applyUses_uses us _ _ e
    simpa [Cfg.initState] using this

/-- **Soundness of the rules layer.**  For every well-formed configuration, all initial values and
    every abstract command line: if the evaluation returns normally, the command line obeys the
    declared rules — mandatory, values, cardinality, excludes, requires, handler constraints. -/
theorem rules_sound {cfg : Cfg} (wf : cfg.WellFormed) {inits : List DVal}
    (hin : cfg.args.length ≤ inits.length) {us : List Use} {h : HState}
    (e : evalUses cfg (cfg.initState inits) us = .ok h) : Obeys cfg inits us := by
  obtain ⟨h1, ha, he⟩ := evalUses_ok e
  obtain ⟨inv, hus⟩ := rulesInv_applyUses wf hin ha
  obtain ⟨c1, c2, c3, _⟩ := endChecks_ok he
  subst hus
  exact ⟨mandatory_sound inv.args c1, inv.values, cardinality_sound wf.cardSane inv.args c1,
    inv.pend.hist, requires_sound inv.pend c2,
    globals_sound (state_globals_sound inv.frame inv.glob c3) (value_constraints_sound_aux wf hin inv.frame inv.vals c3)⟩

/-! ### the single rules under the hypotheses each of them needs -/

/-- rule "values" alone: no hypothesis on the configuration -/
theorem values_sound {cfg : Cfg} {inits : List DVal} {us : List Use} {h : HState}
    (e : evalUses cfg (cfg.initState inits) us = .ok h) : ObeysValues cfg us := by
  obtain ⟨h1, ha, _⟩ := evalUses_ok e
  have := applyUses_inv (fun x => ObeysValues cfg x.uses) (fun _ _ _ a e => values_step a e) us _ _
    (by intro u hu; simp [Cfg.initState] at hu) ha
  have hus := applyUses_uses us _ _ ha
  simp only [Cfg.initState, List.nil_append] at hus
  rw [← hus]; exact this

/-- rules "mandatory", "cardinality", "handler constraints" (all-of / any-of / one-of): local to one
    argument resp. one constraint object, no hypothesis on the keys -/
theorem local_rules_sound {cfg : Cfg} {inits : List DVal} (hin : cfg.args.length ≤ inits.length)
    {us : List Use} {h : HState} (e : evalUses cfg (cfg.initState inits) us = .ok h) :
    ObeysMandatory cfg inits us ∧ ((∀ d ∈ cfg.args, d.card.Sane) → ObeysCardinality cfg us) ∧
    ObeysStateGlobals cfg us := by
  obtain ⟨h1, ha, he⟩ := evalUses_ok e
  obtain ⟨c1, _, c3, _⟩ := endChecks_ok he
  have inv : Frame cfg h1 ∧ ArgInv cfg inits h1 ∧ GlobInv cfg h1 :=
    applyUses_inv (fun x => Frame cfg x ∧ ArgInv cfg inits x ∧ GlobInv cfg x)
      (fun _ _ _ a e => ⟨frame_step a.1 e, argInv_step a.1 a.2.1 e, globInv_step a.2.2 e⟩) us _ _
      ⟨frame_init cfg inits hin, argInv_init cfg inits hin, globInv_init cfg inits⟩ ha
  have hus := applyUses_uses us _ _ ha
  simp only [Cfg.initState, List.nil_append] at hus
  subst hus
  exact ⟨mandatory_sound inv.2.1 c1, fun hs => cardinality_sound hs inv.2.1 c1, state_globals_sound inv.1 inv.2.2 c3⟩

/-- rules "excludes" and "requires": need the keys of the table to be pairwise distinct and the
    constraint keys to be spellings of table keys -/
theorem constraints_sound {cfg : Cfg} (hdis : Disjoint cfg.table)
    (hkeys : ∀ d ∈ cfg.args, ∀ c ∈ d.constraints, ∀ k ∈ c.2, ∃ j, Names cfg k j)
    {inits : List DVal} {us : List Use} {h : HState}
    (e : evalUses cfg (cfg.initState inits) us = .ok h) : ObeysExcludes cfg us ∧ ObeysRequires cfg us := by
  obtain ⟨h1, ha, he⟩ := evalUses_ok e
  obtain ⟨_, c2, _, _⟩ := endChecks_ok he
  have inv : PendInv cfg h1 :=
    applyUses_inv (PendInv cfg) (fun _ _ _ a e => pendInv_step hdis hkeys a e) us _ _
      (pendInv_init cfg inits) ha
  have hus := applyUses_uses us _ _ ha
  simp only [Cfg.initState, List.nil_append] at hus
  subst hus
  exact ⟨inv.hist, requires_sound inv c2⟩

/-- the value constraints differ / disjoint alone (they are resolved through the keys: the
    configuration must be well formed) -/
theorem value_constraints_sound {cfg : Cfg} (wf : cfg.WellFormed) {inits : List DVal}
    (hin : cfg.args.length ≤ inits.length) {us : List Use} {h : HState}
    (e : evalUses cfg (cfg.initState inits) us = .ok h) :
    ∀ g ∈ cfg.globals, (g.kind = .differ → DifferMet cfg inits us g.keys) ∧
      (g.kind = .disjoint → DisjointMet cfg inits us g.keys) := by
  obtain ⟨h1, ha, he⟩ := evalUses_ok e
  obtain ⟨inv, hus⟩ := rulesInv_applyUses wf hin ha
  obtain ⟨_, _, c3, _⟩ := endChecks_ok he
  subst hus
  exact value_constraints_sound_aux wf hin inv.frame inv.vals c3

end CelmaVerif.ProgArgs
