import CelmaVerif.Lemmas.RulesArgs
import CelmaVerif.Lemmas.RulesPending
import CelmaVerif.Lemmas.RulesGlobals
/-
  Rules layer, part 5: soundness — an abstract command line that the handler accepts obeys every
  declared rule.
-/
namespace CelmaVerif.ProgArgs
open CelmaVerif CelmaVerif.Keys

/-- all invariants of the rule automata together -/
structure RulesInv (cfg : Cfg) (inits : List DVal) (h : HState) : Prop where
  frame  : Frame cfg h
  args   : ArgInv cfg inits h
  values : ObeysValues cfg h.uses
  pend   : PendInv cfg h
  glob   : GlobInv cfg h

theorem rulesInv_init (cfg : Cfg) (inits : List DVal) (hin : cfg.args.length ≤ inits.length) :
    RulesInv cfg inits (cfg.initState inits) :=
  ⟨frame_init cfg inits hin, argInv_init cfg inits hin, by intro u hu; simp [Cfg.initState] at hu,
    pendInv_init cfg inits, globInv_init cfg inits⟩

theorem rulesInv_step {cfg : Cfg} (wf : cfg.WellFormed) {inits : List DVal} {h : HState} {u : Use} {h' : HState}
    (a : RulesInv cfg inits h) (e : applyUse cfg h u = .ok h') : RulesInv cfg inits h' :=
  ⟨frame_step a.frame e, argInv_step a.frame a.args e, values_step a.values e, pendInv_step wf a.pend e,
    globInv_step a.glob e⟩

/-- the invariants hold after any sequence of uses from the initial state -/
theorem rulesInv_applyUses {cfg : Cfg} (wf : cfg.WellFormed) {inits : List DVal}
    (hin : cfg.args.length ≤ inits.length) {us : List Use} {h : HState}
    (e : applyUses cfg (cfg.initState inits) us = .ok h) : RulesInv cfg inits h ∧ h.uses = us := by
  constructor
  · exact applyUses_inv (RulesInv cfg inits) (fun _ _ _ a e => rulesInv_step wf a e) us _ _
      (rulesInv_init cfg inits hin) e
  · have := applyUses_uses us _ _ e
    simpa [Cfg.initState] using this

theorem endChecks_ok {cfg : Cfg} {h h' : HState} (e : endChecks cfg h = .ok h') :
    checkMandatoryCardinality cfg.args h.args = .ok () ∧ pendingCheckRequired h.pending = .ok () ∧
    checkGlobals cfg.globals h.globals = .ok () ∧ h' = { h with lastArg := none } := by
  unfold endChecks at e
  simp only [bind_eq_ok] at e
  obtain ⟨_, h1, _, h2, _, h3, e⟩ := e
  cases e
  exact ⟨h1, h2, h3, rfl⟩

theorem evalUses_ok {cfg : Cfg} {h0 h : HState} {us : List Use} (e : evalUses cfg h0 us = .ok h) :
    ∃ h1, applyUses cfg h0 us = .ok h1 ∧ endChecks cfg h1 = .ok h := by
  unfold evalUses at e
  simpa only [bind_eq_ok] using e

/-- **Soundness of the rules layer.**  For every well-formed configuration, all initial values and
    every abstract command line: if the evaluation returns normally, the command line obeys the
    declared rules — mandatory, values, cardinality, excludes, requires, handler constraints. -/
theorem rules_sound {cfg : Cfg} (wf : cfg.WellFormed) {inits : List DVal}
    (hin : cfg.args.length ≤ inits.length) {us : List Use} {h : HState}
    (e : evalUses cfg (cfg.initState inits) us = .ok h) : Obeys cfg inits us := by
  obtain ⟨h1, ha, he⟩ := evalUses_ok e
  obtain ⟨inv, hus⟩ := rulesInv_applyUses wf hin ha
  obtain ⟨c1, c2, c3, _⟩ := endChecks_ok he
  subst hus
  exact ⟨mandatory_sound inv.args c1, inv.values, cardinality_sound wf.cardSane inv.args c1,
    inv.pend.hist, requires_sound inv.pend c2, globals_sound inv.frame inv.glob c3⟩

end CelmaVerif.ProgArgs
