import CelmaVerif.Lemmas.Formats
import CelmaVerif.Lemmas.ParseSmall
import CelmaVerif.Lemmas.RulesValueC
/-
  Data of the non-vacuity examples for the value formatters (Props/C03.lean, `C03_format_and_mandatory`):
  a configuration in which MANDATORY string arguments carry a formatter next to value checks and a cardinality.
-/
namespace CelmaVerif.ProgArgs
open CelmaVerif CelmaVerif.Keys

/-- the value invariant of the rules layer (`ValInv`: a used int / string argument has "value set", …) after a
    whole list of uses from the initial state -/
theorem valInv_run {cfg : Cfg} {inits : List DVal} (hin : cfg.args.length ≤ inits.length) {us : List Use}
    {h : HState} (e : applyUses cfg (cfg.initState inits) us = .ok h) : ValInv cfg inits h :=
  (applyUses_inv (fun x => Frame cfg x ∧ ValInv cfg inits x)
    (fun _ _ _ a e => ⟨frame_step a.1 e, valInv_step a.1 a.2 e⟩) us _ _
    ⟨frame_init cfg inits hin, valInv_init cfg inits hin⟩ e).2

end CelmaVerif.ProgArgs

namespace CelmaVerif.ProgArgs.FormatExample
open CelmaVerif CelmaVerif.Keys CelmaVerif.ProgArgs

/-- `-n,--name`: string, mandatory, at most once, `uppercase()`, checks `values( "foo,bar")` (case-sensitive)
    and `maxLength( 3)`; `-m,--mode`: string, mandatory, `lowercase()`; `-c,--count`: int, mandatory,
    `uppercase()` (invisible for an int); `-q`: flag -/
def cfg : Cfg :=
  { args := [
      { key := ⟨some 'n', "name".toList⟩, kind := .str, vmode := .required, card := .max 1, mandatory := true,
        checks := [.values ["foo".toList, "bar".toList] false, .maxLength 3], fmt := .upper },
      { key := ⟨some 'm', "mode".toList⟩, kind := .str, vmode := .required, card := .unlimited, mandatory := true,
        fmt := .lower },
      { key := ⟨some 'c', "count".toList⟩, kind := .int, vmode := .required, card := .unlimited, mandatory := true,
        fmt := .upper },
      { key := ⟨some 'q', []⟩, kind := .flag, vmode := .none, card := .unlimited } ] }

def inits : List DVal := [.str [], .str "dflt".toList, .int 0, .flag false]

/-- the abstract command line `-n foo`, `--mode FAST`, `-c 42`, `-q` -/
def uses : List Use := [⟨0, "foo".toList, true⟩, ⟨1, "FAST".toList, true⟩, ⟨2, "42".toList, true⟩, ⟨3, [], true⟩]

/-- one spelling: `-n foo --mode=FAST -c42 -q` -/
def words : List Word := ["-n".toList, "foo".toList, "--mode=FAST".toList, "-c42".toList, "-q".toList]

theorem cfg_wf : cfg.WellFormed := by
  refine ⟨?_, ?_, ?_, ?_, ?_⟩
  · unfold Keys.Disjoint; decide
  · intro d hd c hc
    simp only [cfg, List.mem_cons, List.not_mem_nil, or_false] at hd
    rcases hd with rfl | rfl | rfl | rfl <;> cases hc
  · decide
  · decide
  · intro g hg; cases hg

theorem spells : Spells cfg none uses words := by
  refine Spells.shortVal (c := 'n') (v := "foo".toList) (d := cfg.args[0]) (by decide) (by rfl)
    (by decide) ⟨by decide, by decide, by decide, by decide⟩ ?_
  refine Spells.longEq (name := "mode".toList) (v := "FAST".toList) (k := ⟨none, "mode".toList⟩)
    (d := cfg.args[1]) (by decide) (by decide) (by rfl) (by rfl) (by decide) ?_
  refine Spells.shortGlued (c := 'c') (v := "42".toList) (d := cfg.args[2]) (by decide) (by decide) (by rfl)
    (by decide) ?_
  exact Spells.shortFlag (c := 'q') (d := cfg.args[3]) (by decide) (by rfl) (by rfl) (Spells.nil _)

theorem run_ok : (evalUses cfg (cfg.initState inits) uses).isOk = true := by decide

theorem obeys : Obeys cfg inits uses := by
  cases e : evalUses cfg (cfg.initState inits) uses with
  | ok h => exact rules_sound cfg_wf (by decide) e
  | throw x => exact absurd run_ok (by rw [e]; simp [Res.isOk])
  | oob x => exact absurd run_ok (by rw [e]; simp [Res.isOk])

theorem notDeprecated : ∀ u ∈ uses, ∀ d, cfg.args[u.arg]? = some d → d.deprecated = false := by
  intro u _ d hd
  exact (show ∀ d ∈ cfg.args, d.deprecated = false by decide) d (List.mem_of_getElem? hd)

theorem levels : ∀ (i : Nat) (d : ArgDef) (v : DVal), cfg.args[i]? = some d → d.kind = .level →
    inits[i]? = some v → LevelValuesOk d (levelOf v) false false (valsOf i uses) := by
  intro i d v hd hk
  exact absurd hk ((show ∀ d ∈ cfg.args, d.kind ≠ .level by decide) d (List.mem_of_getElem? hd))

/-- destinations after an evaluation (view without the state's other fields) -/
def dests (r : Res HState) : Option (List DVal) :=
  match r with
  | .ok h => some (h.args.map (·.dest))
  | _ => none

end CelmaVerif.ProgArgs.FormatExample
