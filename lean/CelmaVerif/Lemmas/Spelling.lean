import CelmaVerif.Lemmas.Pairing
/-
  Pairing layer, direction "every legal spelling is read as the intended uses": cursor lemmas for
  the surface forms of one argument, then the handler loop over a list of forms.
-/
namespace CelmaVerif.ProgArgs
open CelmaVerif CelmaVerif.Keys

/-- the cursor stands at the boundary before word `p` of `argv`, no mode flags set -/
structure AtB (it : It) (argv : List Word) (p : Nat) : Prop where
  argv_eq : it.argv = argv
  idx     : it.argIndex = p
  pos     : it.charPos = 0
  niv     : it.nextIsValue = false
  dashed  : it.acceptDashed = false

theorem AtB.flag {it : It} {argv : List Word} {p : Nat} (h : AtB it argv p) (b : Bool) :
    AtB { it with remAsValue := b } argv p := ⟨h.argv_eq, h.idx, h.pos, h.niv, h.dashed⟩

/-- a word that the cursor reads as a value when it starts a word: it does not begin with a dash
    and is not a lone control character -/
def PlainWord (w : Word) : Prop :=
  w.head? ≠ some '-' ∧ w ≠ ['('] ∧ w ≠ [')'] ∧ w ≠ ['!']

theorem getChar_zero (argv : List Word) (p : Nat) (w : Word) (hw : argv[p]? = some w) :
    getChar argv p 0 = .ok (w.headD '\x00') := by
  unfold getChar getWord
  simp only [hw, Res.bind_ok]
  cases w with
  | nil => simp
  | cons c cs => simp

/-- first element of a plain word: the word as a value, cursor at the next boundary -/
theorem step_plain {it : It} {argv : List Word} {p : Nat} {w : Word} (hb : AtB it argv p)
    (hw : argv[p]? = some w) (hp : PlainWord w) :
    ∃ it', it.step = .ok it' ∧ it'.cur = Elem.setValue p w ∧ AtB it' argv (p + 1) ∧ it'.remAsValue = false := by
  have hlt : p < argv.length := by
    rcases Nat.lt_or_ge p argv.length with h | h
    · exact h
    · rw [List.getElem?_eq_none h] at hw; cases hw
  unfold It.step It.next
  have hnend : ¬ it.argIndex ≥ it.argc := by unfold It.argc; rw [hb.argv_eq, hb.idx]; omega
  rw [if_neg hnend]
  simp only [hb.niv, hb.pos, Bool.false_or, Nat.lt_irrefl, decide_false, Bool.and_false, Bool.false_eq_true, if_false]
  unfold getWord
  rw [hb.argv_eq, hb.idx, hw]
  simp only [Res.bind_ok, beq_self_eq_true, if_true]
  rw [getChar_zero argv p w hw]
  simp only [Res.bind_ok]
  obtain ⟨h1, h2, h3, h4⟩ := hp
  have hctrl : (w.length == 1 && isCtrlChar (w.headD '\x00')) = false := by
    cases w with
    | nil => simp
    | cons c cs =>
      cases cs with
      | nil =>
        simp only [List.length_singleton, beq_self_eq_true, Bool.true_and, List.headD_cons]
        unfold isCtrlChar
        have c1 : c ≠ '(' := fun e => h2 (by rw [e])
        have c2 : c ≠ ')' := fun e => h3 (by rw [e])
        have c3 : c ≠ '!' := fun e => h4 (by rw [e])
        simp [c1, c2, c3]
      | cons d ds => simp
  rw [hctrl]
  simp only [Bool.false_eq_true, if_false]
  have hnd : (w.headD '\x00' != '-') = true := by
    cases w with
    | nil => decide
    | cons c cs =>
      simp only [List.head?_cons, ne_eq, Option.some.injEq] at h1
      simp [h1]
  rw [hnd]
  simp only [Bool.true_or, if_true, Res.pure_eq, clearRem]
  exact ⟨_, rfl, rfl, ⟨rfl, rfl, rfl, rfl, hb.dashed⟩, rfl⟩

theorem lt_of_getElem? {α : Type} {l : List α} {p : Nat} {a : α} (h : l[p]? = some a) : p < l.length := by
  rcases Nat.lt_or_ge p l.length with h' | h'
  · exact h'
  · rw [List.getElem?_eq_none h'] at h; cases h

/-- a word that starts with a dash and has more characters: the cursor enters the word -/
theorem step_dash {it : It} {argv : List Word} {p : Nat} {t : Word} (hb : AtB it argv p)
    (hw : argv[p]? = some ('-' :: t)) (ht : t ≠ []) :
    it.step = clearRem (({ it with curLen := t.length + 1, charPos := 1 } : It).determineNextArg 3) := by
  have hlt := lt_of_getElem? hw
  unfold It.step It.next
  have hnend : ¬ it.argIndex ≥ it.argc := by unfold It.argc; rw [hb.argv_eq, hb.idx]; omega
  rw [if_neg hnend]
  simp only [hb.niv, hb.pos, Bool.false_or, Nat.lt_irrefl, decide_false, Bool.and_false, Bool.false_eq_true, if_false]
  unfold getWord
  rw [hb.argv_eq, hb.idx, hw]
  simp only [Res.bind_ok, beq_self_eq_true, if_true]
  rw [getChar_zero argv p _ hw]
  simp only [Res.bind_ok, List.headD_cons, List.length_cons]
  have hlen : (t.length + 1 == 1) = false := by
    cases t with
    | nil => exact absurd rfl ht
    | cons a b => simp
  rw [hlen]
  simp only [Bool.false_and, Bool.false_eq_true, if_false, hb.dashed, Bool.or_false]
  have : (('-' : Char) != '-') = false := by decide
  rw [this]
  simp only [Bool.false_eq_true, if_false]

/-- inside a dashed word at position 1 -/
structure InWord (it : It) (argv : List Word) (p : Nat) (len : Nat) : Prop where
  argv_eq : it.argv = argv
  idx     : it.argIndex = p
  pos     : it.charPos = 1
  curLen  : it.curLen = len
  niv     : it.nextIsValue = false
  dashed  : it.acceptDashed = false

theorem getChar_one (argv : List Word) (p : Nat) (c0 c : Char) (t : Word) (hw : argv[p]? = some (c0 :: c :: t)) :
    getChar argv p 1 = .ok c := by
  unfold getChar getWord
  simp [hw]

/-- `-c`: a short key that ends its word -/
theorem dna_short_last {it : It} {argv : List Word} {p : Nat} {c : Char} (hi : InWord it argv p 2)
    (hw : argv[p]? = some ['-', c]) (hc : c ≠ '-') (fuel : Nat) :
    ∃ it', it.determineNextArg (fuel + 1) = .ok it' ∧ it'.cur = Elem.setArgChar p 1 c ∧ AtB it' argv (p + 1) ∧
      it'.remAsValue = it.remAsValue := by
  unfold It.determineNextArg
  rw [hi.argv_eq, hi.idx, hi.pos, getChar_one argv p '-' c [] hw]
  have hcd : (c == '-') = false := by simp [hc]
  simp only [Res.bind_ok, hcd, Bool.false_eq_true, if_false, hi.curLen, hi.pos]
  refine ⟨_, rfl, ?_, ⟨?_, ?_, ?_, ?_, ?_⟩, ?_⟩ <;> first | rfl | exact hi.niv | exact hi.dashed

/-- `-cREST`: a short key followed by more characters in the same word -/
theorem dna_short_more {it : It} {argv : List Word} {p : Nat} {c : Char} {rest : Word}
    (hi : InWord it argv p (rest.length + 2)) (hw : argv[p]? = some ('-' :: c :: rest)) (hc : c ≠ '-')
    (hr : rest ≠ []) (fuel : Nat) :
    ∃ it', it.determineNextArg (fuel + 1) = .ok it' ∧ it'.cur = Elem.setArgChar p 1 c ∧ it'.argv = argv ∧
      it'.argIndex = p ∧ it'.charPos = 2 ∧ it'.nextIsValue = false ∧ it'.acceptDashed = false ∧
      it'.curLen = rest.length + 2 ∧ it'.remAsValue = it.remAsValue := by
  unfold It.determineNextArg
  rw [hi.argv_eq, hi.idx, hi.pos, getChar_one argv p '-' c rest hw]
  have hcd : (c == '-') = false := by simp [hc]
  have hl : (rest.length + 2 == 1 + 1) = false := by
    cases rest with
    | nil => exact absurd rfl hr
    | cons a b => simp
  simp only [Res.bind_ok, hcd, Bool.false_eq_true, if_false, hi.curLen, hi.pos, hl]
  refine ⟨_, rfl, ?_, ?_, ?_, ?_, ?_, ?_, ?_, ?_⟩ <;> first | rfl | exact hi.niv | exact hi.dashed

/-- `--name` without '=' -/
theorem dna_long {it : It} {argv : List Word} {p : Nat} {name : Word} (hi : InWord it argv p (name.length + 2))
    (hw : argv[p]? = some ('-' :: '-' :: name)) (hn : name ≠ []) (he : findEq name = none) (fuel : Nat) :
    ∃ it', it.determineNextArg (fuel + 1) = .ok it' ∧ it'.cur = Elem.setArgString p name ∧ AtB it' argv (p + 1) ∧
      it'.remAsValue = it.remAsValue := by
  unfold It.determineNextArg
  rw [hi.argv_eq, hi.idx, hi.pos, getChar_one argv p '-' '-' name hw]
  have hl : (1 + 1 == name.length + 2) = false := by
    cases name with
    | nil => exact absurd rfl hn
    | cons a b => simp
  have hs : getSuffix argv p (1 + 1) = .ok name := by
    unfold getSuffix getWord; simp [hw]
  simp only [Res.bind_ok, beq_self_eq_true, if_true, hi.curLen, hl, Bool.false_eq_true, if_false, hs, he, Res.pure_eq]
  refine ⟨_, rfl, ?_, ⟨?_, ?_, ?_, ?_, ?_⟩, ?_⟩ <;> first | rfl | exact hi.niv | exact hi.dashed

/-- `--name=value` -/
theorem dna_long_eq {it : It} {argv : List Word} {p : Nat} {name : Word} {e : Nat}
    (hi : InWord it argv p (name.length + 2)) (hw : argv[p]? = some ('-' :: '-' :: name)) (hn : name ≠ [])
    (he : findEq name = some e) (fuel : Nat) :
    ∃ it', it.determineNextArg (fuel + 1) = .ok it' ∧ it'.cur = Elem.setArgString p (name.take e) ∧ it'.argv = argv ∧
      it'.argIndex = p ∧ it'.charPos = e + 3 ∧ it'.nextIsValue = true ∧ it'.acceptDashed = false := by
  unfold It.determineNextArg
  rw [hi.argv_eq, hi.idx, hi.pos, getChar_one argv p '-' '-' name hw]
  have hl : (1 + 1 == name.length + 2) = false := by
    cases name with
    | nil => exact absurd rfl hn
    | cons a b => simp
  have hs : getSuffix argv p (1 + 1) = .ok name := by
    unfold getSuffix getWord; simp [hw]
  simp only [Res.bind_ok, beq_self_eq_true, if_true, hi.curLen, hl, Bool.false_eq_true, if_false, hs, he, Res.pure_eq]
  refine ⟨_, rfl, ?_, ?_, ?_, ?_, ?_, ?_⟩ <;> first | rfl | exact hi.dashed | (show 1 + (e + 2) = e + 3; omega)

/-- the value after `--name=` resp. the rest of `-cREST` taken as the value -/
theorem step_rest_value {it : It} {argv : List Word} {p k : Nat} {w : Word} (hv : it.argv = argv) (hi : it.argIndex = p)
    (hpos : it.charPos = k) (hk : k ≤ w.length) (hw : argv[p]? = some w)
    (hmode : (it.nextIsValue || (it.remAsValue && decide (k > 0))) = true) (hd : it.acceptDashed = false) :
    ∃ it', it.step = .ok it' ∧ it'.cur = Elem.setValue p (w.drop k) ∧ AtB it' argv (p + 1) ∧ it'.remAsValue = false := by
  have hlt := lt_of_getElem? hw
  unfold It.step It.next
  have hnend : ¬ it.argIndex ≥ it.argc := by unfold It.argc; rw [hv, hi]; omega
  rw [if_neg hnend, hpos, if_pos hmode]
  have hs : getSuffix it.argv it.argIndex k = .ok (w.drop k) := by
    unfold getSuffix getWord; rw [hv, hi]; simp [hw, hk]
  rw [hs]
  simp only [Res.bind_ok, Res.pure_eq, clearRem]
  exact ⟨_, rfl, by rw [hi], ⟨hv, by show it.argIndex + 1 = p + 1; rw [hi], rfl, rfl, hd⟩, rfl⟩

/-! ### `begin()` is a step from the boundary before word 1 -/

/-- the cursor before the first word -/
def B0 (argv : List Word) : It := { argv := argv, argIndex := 1, charPos := 0, cur := {} }

theorem B0_atB (argv : List Word) : AtB (B0 argv) argv 1 := ⟨rfl, rfl, rfl, rfl, rfl⟩

/-- at position 1 of a dashed word other than `--`, `determineNextArg` does not recurse: its result
    does not depend on the recursion bound, and it keeps the "rest as value" flag -/
theorem dna_fuel {it : It} {argv : List Word} {p : Nat} {t : Word} (hv : it.argv = argv) (hi : it.argIndex = p)
    (hpos : it.charPos = 1) (hcl : it.curLen = t.length + 1) (hw : argv[p]? = some ('-' :: t)) (ht : t ≠ ['-'])
    (f g : Nat) :
    it.determineNextArg (f + 1) = it.determineNextArg (g + 1) ∧
    ∀ r, it.determineNextArg (f + 1) = .ok r → r.remAsValue = it.remAsValue := by
  unfold It.determineNextArg
  cases t with
  | nil =>
    have : getChar it.argv it.argIndex it.charPos = .ok '\x00' := by
      unfold getChar getWord; rw [hv, hi, hpos]; simp [hw]
    rw [this]
    have h0 : (('\x00' : Char) == '-') = false := by decide
    simp only [Res.bind_ok, h0, Bool.false_eq_true, if_false]
    refine ⟨by first | rfl | trivial, ?_⟩
    intro r hr
    split at hr <;> (simp only [Res.pure_eq, Res.ok.injEq] at hr; rw [← hr])
  | cons c rest =>
    have : getChar it.argv it.argIndex it.charPos = .ok c := by
      rw [hv, hi, hpos]; exact getChar_one argv p '-' c rest hw
    rw [this]
    simp only [Res.bind_ok]
    by_cases hc : (c == '-') = true
    · rw [if_pos hc, if_pos hc]
      have hne : (it.charPos + 1 == it.curLen) = false := by
        rw [hpos, hcl]
        cases rest with
        | nil => have : c = '-' := by simpa using hc
                 subst this; exact absurd rfl ht
        | cons a b => simp
      simp only [hne, Bool.false_eq_true, if_false]
      refine ⟨by first | rfl | trivial, ?_⟩
      intro r hr
      cases hs : getSuffix it.argv it.argIndex (it.charPos + 1) with
      | throw e => rw [hs] at hr; cases hr
      | oob w => rw [hs] at hr; cases hr
      | ok name =>
        rw [hs] at hr
        simp only [Res.bind_ok] at hr
        split at hr <;> (simp only [Res.pure_eq, Res.ok.injEq] at hr; rw [← hr])
    · rw [if_neg hc, if_neg hc]
      refine ⟨by first | rfl | trivial, ?_⟩
      intro r hr
      split at hr <;> (simp only [Res.pure_eq, Res.ok.injEq] at hr; rw [← hr])

theorem clearRem_id {r : Res It} (h : ∀ x, r = .ok x → x.remAsValue = false) : clearRem r = r := by
  cases r with
  | ok x =>
    have := h x rfl
    unfold clearRem
    cases x
    simp only at this
    subst this
    rfl
  | throw e => rfl
  | oob w => rfl

/-- the cursor `begin()` builds before calling `determineNextArg` on a dashed first word -/
def itB (prog t : Word) (rest : List Word) : It :=
  { argv := prog :: ('-' :: t) :: rest, argIndex := 1, charPos := 1, cur := {}, curLen := t.length + 1 }

/-- `ArgListParser::begin()` parses the first word exactly as `operator++` does from the boundary
    before it, unless that word is a lone control character (which `begin()` reads as a value) or
    the word `--` -/
theorem begin_eq_step (prog : Word) (ws : List Word)
    (h1 : ∀ w, ws.head? = some w → w ≠ ['('] ∧ w ≠ [')'] ∧ w ≠ ['!'] ∧ w ≠ ['-', '-']) :
    It.begin (prog :: ws) = (B0 (prog :: ws)).step := by
  cases ws with
  | nil =>
    unfold It.begin It.step It.next B0 It.argc
    simp only [List.length_singleton, Nat.le_refl, if_true, ge_iff_le]
    apply (clearRem_id _).symm
    intro x hx
    unfold It.mkEnd at hx
    simp only [List.length_singleton, Nat.succ_ne_zero, if_false, getWord] at hx
    simp only [Nat.sub_self, List.getElem?_cons_zero, Res.bind_ok, Res.pure_eq, Res.ok.injEq] at hx
    rw [← hx]
  | cons w rest =>
    obtain ⟨n1, n2, n3, n4⟩ := h1 w rfl
    have hw : (prog :: w :: rest)[1]? = some w := rfl
    cases w with
    | nil =>
      -- empty word: a value
      have hp : PlainWord ([] : Word) := ⟨by simp, by simp, by simp, by simp⟩
      obtain ⟨it', e1, _, _, _⟩ := step_plain (B0_atB _) hw hp
      unfold It.begin
      simp only [List.length_cons, getWord, hw, Res.bind_ok]
      rw [getChar_zero _ 1 [] hw]
      unfold It.step It.next B0 It.argc getWord
      simp only [List.length_cons, hw, Res.bind_ok]
      rw [getChar_zero _ 1 [] hw]
      simp [clearRem]
    | cons c t =>
      by_cases hc : c = '-'
      · subst hc
        by_cases ht : t = []
        · -- single dash: both throw
          subst ht
          unfold It.begin It.step It.next B0 It.argc getWord
          simp only [List.length_cons, hw, Res.bind_ok]
          rw [getChar_zero _ 1 _ hw]
          have hcc : isCtrlChar '-' = false := by decide
          simp [clearRem, hcc]
        · rw [step_dash (B0_atB _) hw ht]
          unfold It.begin
          simp only [List.length_cons, getWord, hw, Res.bind_ok]
          rw [getChar_zero _ 1 _ hw]
          have hlen : (t.length + 1 == 1) = false := by
            cases t with
            | nil => exact absurd rfl ht
            | cons a b => simp
          simp only [List.headD_cons, beq_self_eq_true, if_true, hlen, Bool.false_eq_true, if_false]
          have htt : t ≠ ['-'] := fun e => n4 (by rw [e])
          have key := fun f g => dna_fuel (it := itB prog t rest) (argv := prog :: ('-' :: t) :: rest) (p := 1)
            rfl rfl rfl rfl hw htt f g
          have hl2 : ¬ (rest.length + 1 + 1 ≤ 1) := by omega
          simp only [hl2, if_false, Res.bind_ok, beq_self_eq_true, if_true]
          change (itB prog t rest).determineNextArg (3 + 1) = clearRem ((itB prog t rest).determineNextArg (2 + 1))
          rw [(key 3 2).1]
          apply (clearRem_id _).symm
          intro x hx
          exact (key 2 2).2 x hx
      · -- a word that does not start with a dash: a value
        have hcd : (c == '-') = false := by simp [hc]
        have hcd' : (c != '-') = true := by simp [hc]
        have hctrl : ((c :: t).length == 1 && isCtrlChar c) = false := by
          cases t with
          | nil =>
            have c1 : c ≠ '(' := fun e => n1 (by rw [e])
            have c2 : c ≠ ')' := fun e => n2 (by rw [e])
            have c3 : c ≠ '!' := fun e => n3 (by rw [e])
            simp [isCtrlChar, c1, c2, c3]
          | cons a b => simp
        unfold It.begin It.step It.next B0 It.argc getWord
        simp only [List.length_cons, hw, Res.bind_ok]
        rw [getChar_zero _ 1 _ hw]
        have hct : ¬ (t = [] ∧ isCtrlChar c = true) := by
          intro ⟨a, b⟩
          subst a
          simp [b] at hctrl
        simp [hc, hct, clearRem]

/-! ### the handler loop over surface forms -/

/-- continue the loop from a boundary cursor: `++ai`, then the loop body -/
def contB (cfg : Cfg) (fuel : Nat) (h : HState) (b : It) : Res HState := do
  let ai ← b.step
  iterateLoop cfg fuel h ai

/-- the key designates argument `i` with definition `d` (exactly, or as an unambiguous abbreviation) -/
def Resolves (cfg : Cfg) (k : Key) (i : Nat) (d : ArgDef) : Prop :=
  findArg cfg.abbr cfg.table k = .ok (some (i, d))

theorem atEnd_false {it : It} (h1 : 1 ≤ it.argv.length) (hle : it.argIndex ≤ it.argv.length) : it.atEnd = false := by
  unfold It.atEnd
  obtain ⟨e, he, hv, hi, _⟩ := mkEnd_ok h1
  rw [he]
  simp only [hi]
  have : (it.argIndex == it.argv.length + 1) = false := by
    simp; omega
  simp [this]

/-- loop body for an element that is consumed and leaves the cursor where `evalSingleArgument` put it -/
theorem iterateLoop_consumed (cfg : Cfg) (fuel : Nat) (h h' : HState) (ai ai' : It) (hne : ai.atEnd = false)
    (he : evalSingleArgument cfg h ai = .ok (h', ai', .consumed)) :
    iterateLoop cfg (fuel + 1) h ai = contB cfg fuel h' ai' := by
  unfold iterateLoop contB
  simp [hne, he]

theorem iterateLoop_throw (cfg : Cfg) (fuel : Nat) (h : HState) (ai : It) (e : Exc) (hne : ai.atEnd = false)
    (he : evalSingleArgument cfg h ai = .throw e) : iterateLoop cfg (fuel + 1) h ai = .throw e := by
  unfold iterateLoop
  simp [hne, he]

/-- at the boundary behind the last word the loop ends -/
theorem contB_end (cfg : Cfg) (fuel : Nat) (h : HState) (b : It) (argv : List Word) (p : Nat) (h1 : 1 ≤ argv.length)
    (hb : AtB b argv p) (hp : argv.length ≤ p) : contB cfg (fuel + 1) h b = .ok h := by
  unfold contB It.step It.next
  have hend : b.argIndex ≥ b.argc := by unfold It.argc; rw [hb.argv_eq, hb.idx]; omega
  rw [if_pos hend, hb.argv_eq]
  obtain ⟨e, he, hv, hi, _⟩ := mkEnd_ok h1
  rw [he]
  simp only [clearRem, Res.bind_ok]
  unfold iterateLoop
  have : ({ e with remAsValue := false } : It).atEnd = true := by
    have := mkEnd_atEnd he
    unfold It.atEnd at this ⊢
    exact this
  simp [this]

/-- evaluating a key element whose argument takes no value -/
theorem evalKey_novalue (cfg : Cfg) (h : HState) (ai : It) (key : Key) (i : Nat) (d : ArgDef)
    (hr : Resolves cfg key i d) (hm : d.vmode = .none) :
    processArg cfg h key ai =
      (handleIdentifiedArg cfg { h with lastArg := some i } i d [] >>= fun h' => pure (h', ai, ArgResult.consumed)) := by
  unfold processArg
  unfold Resolves at hr
  rw [hr]
  simp [hm]

/-- evaluating a key element whose argument may take a value, when the next element is a value -/
theorem evalKey_value (cfg : Cfg) (h : HState) (ai ait2 : It) (key : Key) (i : Nat) (d : ArgDef) (v : Word)
    (hr : Resolves cfg key i d) (hm : d.vmode ≠ .none)
    (hs : (if d.vmode = VMode.required then ({ ai with remAsValue := true } : It) else ai).step = .ok ait2)
    (hne : ait2.atEnd = false) (hty : ait2.cur = Elem.setValue (ait2.cur.argIndex.toNat) v ∨ (ait2.cur.ty = .value ∧ ait2.cur.val = v)) :
    processArg cfg h key ai =
      (handleIdentifiedArg cfg { h with lastArg := some i } i d v >>= fun h' => pure (h', ait2, ArgResult.consumed)) := by
  have hty' : ait2.cur.ty = .value ∧ ait2.cur.val = v := by
    rcases hty with h1 | h1
    · rw [h1]; exact ⟨rfl, rfl⟩
    · exact h1
  unfold processArg
  unfold Resolves at hr
  rw [hr]
  simp only [Res.bind_ok]
  rw [if_neg hm, hs]
  simp only [Res.bind_ok]
  have : (ait2.atEnd || ait2.cur.ty != ElemType.value) = false := by
    rw [hne, hty'.1]; rfl
  simp [this, hty'.2]

/-- evaluating a key element whose value is optional, when no value follows -/
theorem evalKey_optional_alone (cfg : Cfg) (h : HState) (ai ait2 : It) (key : Key) (i : Nat) (d : ArgDef)
    (hr : Resolves cfg key i d) (hm : d.vmode = .optional) (hs : ai.step = .ok ait2)
    (hnv : ait2.atEnd = true ∨ ait2.cur.ty ≠ .value) :
    processArg cfg h key ai =
      (handleIdentifiedArg cfg { h with lastArg := some i } i d [] >>= fun h' => pure (h', ai, ArgResult.consumed)) := by
  unfold processArg
  unfold Resolves at hr
  rw [hr]
  simp only [Res.bind_ok]
  have h1 : ¬ d.vmode = VMode.none := by rw [hm]; decide
  have h2 : ¬ d.vmode = VMode.required := by rw [hm]; decide
  rw [if_neg h1, if_neg h2, hs]
  simp only [Res.bind_ok]
  have : (ait2.atEnd || ait2.cur.ty != ElemType.value) = true := by
    rcases hnv with h3 | h3
    · rw [h3]; rfl
    · cases hty : ait2.cur.ty <;> simp_all
  simp [this, hm]

/-- loop body when the element is handled by one rule-layer action `X` and consumed -/
theorem loop_step (cfg : Cfg) (fuel : Nat) (h : HState) (ai ai' : It) (X : Res HState) (hne : ai.atEnd = false)
    (he : evalSingleArgument cfg h ai = (X >>= fun h' => pure (h', ai', ArgResult.consumed))) :
    iterateLoop cfg (fuel + 1) h ai = (X >>= fun h' => contB cfg fuel h' ai') := by
  unfold iterateLoop
  rw [if_neg (by rw [hne]; decide), he]
  cases X with
  | ok x => simp [contB]
  | throw e => rfl
  | oob w => rfl

theorem clearRem_ok (x : It) : clearRem (.ok x) = .ok { x with remAsValue := false } := rfl

/-- the next word (if any) is not read as a value: the line ends here, or a key word follows -/
def NoValueNext (ws : List Word) : Prop :=
  ws = [] ∨ ∃ t rest, ws = ('-' :: t) :: rest ∧ t ≠ [] ∧ t ≠ ['-']

/-- the legal surface forms of an abstract command line (first stage: one word group per use; flag
    groups behind one dash and value-less uses of optional-value arguments are not included yet).
    The index is the handler's last-argument marker, which decides where free values go.
    In the long forms `wordKey name` is the key the handler builds for the typed name (`Model/Keys.lean`:
    `Key.parse name`, and `Key.parse "--c"` — the long key `c` — for a name of one character). -/
inductive Spells (cfg : Cfg) : Option Nat → List Use → List Word → Prop where
  | nil (l : Option Nat) : Spells cfg l [] []
  /-- `-c` for an argument without value -/
  | shortFlag {l : Option Nat} {c : Char} {i : Nat} {d : ArgDef} {us : List Use} {ws : List Word} :
      c ≠ '-' → Resolves cfg (Key.ofChar c) i d → d.vmode = .none → Spells cfg (some i) us ws →
      Spells cfg l ({ arg := i, val := [], ident := true } :: us) (['-', c] :: ws)
  /-- `--name` (exact or abbreviated) for an argument without value -/
  | longFlag {l : Option Nat} {name : Word} {k : Key} {i : Nat} {d : ArgDef} {us : List Use} {ws : List Word} :
      name ≠ [] → findEq name = none → wordKey name = .ok k → Resolves cfg k i d → d.vmode = .none →
      Spells cfg (some i) us ws →
      Spells cfg l ({ arg := i, val := [], ident := true } :: us) (('-' :: '-' :: name) :: ws)
  /-- `-c value` -/
  | shortVal {l : Option Nat} {c : Char} {v : Word} {i : Nat} {d : ArgDef} {us : List Use} {ws : List Word} :
      c ≠ '-' → Resolves cfg (Key.ofChar c) i d → d.vmode ≠ .none → PlainWord v → Spells cfg (some i) us ws →
      Spells cfg l ({ arg := i, val := v, ident := true } :: us) (['-', c] :: v :: ws)
  /-- `--name value` -/
  | longVal {l : Option Nat} {name v : Word} {k : Key} {i : Nat} {d : ArgDef} {us : List Use} {ws : List Word} :
      name ≠ [] → findEq name = none → wordKey name = .ok k → Resolves cfg k i d → d.vmode ≠ .none →
      PlainWord v → Spells cfg (some i) us ws →
      Spells cfg l ({ arg := i, val := v, ident := true } :: us) (('-' :: '-' :: name) :: v :: ws)
  /-- `--name=value` (the value may be anything, also empty or starting with a dash) -/
  | longEq {l : Option Nat} {name v : Word} {k : Key} {i : Nat} {d : ArgDef} {us : List Use} {ws : List Word} :
      name ≠ [] → findEq name = none → wordKey name = .ok k → Resolves cfg k i d → d.vmode ≠ .none →
      Spells cfg (some i) us ws →
      Spells cfg l ({ arg := i, val := v, ident := true } :: us) (('-' :: '-' :: (name ++ '=' :: v)) :: ws)
  /-- `-cVALUE` (value glued to the short key; only for arguments that require a value) -/
  | shortGlued {l : Option Nat} {c : Char} {v : Word} {i : Nat} {d : ArgDef} {us : List Use} {ws : List Word} :
      c ≠ '-' → v ≠ [] → Resolves cfg (Key.ofChar c) i d → d.vmode = .required → Spells cfg (some i) us ws →
      Spells cfg l ({ arg := i, val := v, ident := true } :: us) (('-' :: c :: v) :: ws)
  /-- `-c` for an argument whose value is optional (e.g. a LevelCounter), not followed by a value -/
  | shortOpt {l : Option Nat} {c : Char} {i : Nat} {d : ArgDef} {us : List Use} {ws : List Word} :
      c ≠ '-' → Resolves cfg (Key.ofChar c) i d → d.vmode = .optional → NoValueNext ws → Spells cfg (some i) us ws →
      Spells cfg l ({ arg := i, val := [], ident := true } :: us) (['-', c] :: ws)
  /-- `--name` for an argument whose value is optional, not followed by a value -/
  | longOpt {l : Option Nat} {name : Word} {k : Key} {i : Nat} {d : ArgDef} {us : List Use} {ws : List Word} :
      name ≠ [] → findEq name = none → wordKey name = .ok k → Resolves cfg k i d → d.vmode = .optional →
      NoValueNext ws → Spells cfg (some i) us ws →
      Spells cfg l ({ arg := i, val := [], ident := true } :: us) (('-' :: '-' :: name) :: ws)
  /-- `-abc`: several arguments without value grouped behind one dash -/
  | flagGroup {l : Option Nat} {fs : List (Char × Nat × ArgDef)} {last : Nat} {us : List Use} {ws : List Word} :
      (∀ f ∈ fs, f.1 ≠ '-' ∧ Resolves cfg (Key.ofChar f.1) f.2.1 f.2.2 ∧ f.2.2.vmode = .none) →
      fs.getLast?.map (·.2.1) = some last → Spells cfg (some last) us ws →
      Spells cfg l (fs.map (fun f => { arg := f.2.1, val := [], ident := true }) ++ us)
        (('-' :: fs.map (·.1)) :: ws)
  /-- `-abk value`: flags grouped behind one dash, closed by a key whose value is the next word -/
  | groupVal {l : Option Nat} {fs : List (Char × Nat × ArgDef)} {c : Char} {v : Word} {i : Nat} {d : ArgDef}
      {us : List Use} {ws : List Word} :
      (∀ f ∈ fs, f.1 ≠ '-' ∧ Resolves cfg (Key.ofChar f.1) f.2.1 f.2.2 ∧ f.2.2.vmode = .none) →
      c ≠ '-' → Resolves cfg (Key.ofChar c) i d → d.vmode ≠ .none → PlainWord v → Spells cfg (some i) us ws →
      Spells cfg l (fs.map (fun f => { arg := f.2.1, val := [], ident := true }) ++ { arg := i, val := v, ident := true } :: us)
        (('-' :: (fs.map (·.1) ++ [c])) :: v :: ws)
  /-- `-abkVALUE`: flags grouped behind one dash, closed by a key with its value glued on -/
  | groupGlued {l : Option Nat} {fs : List (Char × Nat × ArgDef)} {c : Char} {v : Word} {i : Nat} {d : ArgDef}
      {us : List Use} {ws : List Word} :
      (∀ f ∈ fs, f.1 ≠ '-' ∧ Resolves cfg (Key.ofChar f.1) f.2.1 f.2.2 ∧ f.2.2.vmode = .none) →
      c ≠ '-' → v ≠ [] → Resolves cfg (Key.ofChar c) i d → d.vmode = .required → Spells cfg (some i) us ws →
      Spells cfg l (fs.map (fun f => { arg := f.2.1, val := [], ident := true }) ++ { arg := i, val := v, ident := true } :: us)
        (('-' :: (fs.map (·.1) ++ c :: v)) :: ws)
  /-- a free value behind a multi-value argument -/
  | free {v : Word} {i : Nat} {d : ArgDef} {us : List Use} {ws : List Word} :
      cfg.args[i]? = some d → d.multi = true → PlainWord v → Spells cfg (some i) us ws →
      Spells cfg (some i) ({ arg := i, val := v, ident := false } :: us) (v :: ws)

theorem drop_cons_getElem? {α : Type} {l : List α} {p : Nat} {a : α} {rest : List α} (h : l.drop p = a :: rest) :
    l[p]? = some a ∧ l.drop (p + 1) = rest := by
  have h1 : l[p]? = some a := by
    have := congrArg List.head? h
    simpa [List.head?_drop] using this
  refine ⟨h1, ?_⟩
  have : l.drop (p + 1) = (l.drop p).drop 1 := by rw [List.drop_drop]
  rw [this, h]; rfl

theorem findEq_append_eq {name v : Word} (h : findEq name = none) : findEq (name ++ '=' :: v) = some name.length := by
  induction name with
  | nil => simp [findEq]
  | cons c cs ih =>
    simp only [findEq] at h
    split at h
    · cases h
    · rename_i hc
      cases hcs : findEq cs with
      | some x => rw [hcs] at h; cases h
      | none =>
        simp only [List.cons_append, findEq, hc, Bool.false_eq_true, if_false, ih hcs, Option.map_some,
          List.length_cons]

theorem inWord_of_atB {b : It} {argv : List Word} {p : Nat} (hb : AtB b argv p) (len : Nat) :
    InWord ({ b with curLen := len, charPos := 1 } : It) argv p len :=
  ⟨hb.argv_eq, hb.idx, rfl, rfl, hb.niv, hb.dashed⟩

/-- from the boundary, `-c` -/
theorem enter_short_last {b : It} {argv : List Word} {p : Nat} {c : Char} (hb : AtB b argv p)
    (hw : argv[p]? = some ['-', c]) (hc : c ≠ '-') :
    ∃ ai, b.step = .ok ai ∧ ai.cur = Elem.setArgChar p 1 c ∧ AtB ai argv (p + 1) := by
  rw [step_dash hb hw (by simp)]
  obtain ⟨it', e1, e2, e3, _⟩ := dna_short_last (inWord_of_atB hb 2) hw hc 2
  simp only [List.length_singleton] at e1 ⊢
  rw [e1, clearRem_ok]
  exact ⟨_, rfl, e2, e3.flag false⟩

/-- from the boundary, `--name` -/
theorem enter_long {b : It} {argv : List Word} {p : Nat} {name : Word} (hb : AtB b argv p)
    (hw : argv[p]? = some ('-' :: '-' :: name)) (hn : name ≠ []) (he : findEq name = none) :
    ∃ ai, b.step = .ok ai ∧ ai.cur = Elem.setArgString p name ∧ AtB ai argv (p + 1) := by
  rw [step_dash hb hw (by simp)]
  have hi := inWord_of_atB hb (name.length + 2)
  obtain ⟨it', e1, e2, e3, _⟩ := dna_long hi hw hn he 2
  simp only [List.length_cons] at e1 ⊢
  rw [e1, clearRem_ok]
  exact ⟨_, rfl, e2, e3.flag false⟩

/-- from the boundary, `--name=value`: the key element, cursor on the value -/
theorem enter_long_eq {b : It} {argv : List Word} {p : Nat} {name v : Word} (hb : AtB b argv p)
    (hw : argv[p]? = some ('-' :: '-' :: (name ++ '=' :: v))) (hn : name ≠ []) (he : findEq name = none) :
    ∃ ai, b.step = .ok ai ∧ ai.cur = Elem.setArgString p name ∧ ai.argv = argv ∧ ai.argIndex = p ∧
      ai.charPos = name.length + 3 ∧ ai.nextIsValue = true ∧ ai.acceptDashed = false := by
  rw [step_dash hb hw (by simp)]
  have hi := inWord_of_atB hb ((name ++ '=' :: v).length + 2)
  have hne : name ++ '=' :: v ≠ [] := by simp
  obtain ⟨it', e1, e2, e3, e4, e5, e6, e7⟩ := dna_long_eq hi hw hne (findEq_append_eq he) 2
  simp only [List.length_cons] at e1 ⊢
  rw [e1, clearRem_ok]
  refine ⟨_, rfl, ?_, e3, e4, e5, e6, e7⟩
  rw [e2]; simp

/-- from the boundary, `-cREST`: the key element, cursor behind the key character -/
theorem enter_short_more {b : It} {argv : List Word} {p : Nat} {c : Char} {rest : Word} (hb : AtB b argv p)
    (hw : argv[p]? = some ('-' :: c :: rest)) (hc : c ≠ '-') (hr : rest ≠ []) :
    ∃ ai, b.step = .ok ai ∧ ai.cur = Elem.setArgChar p 1 c ∧ ai.argv = argv ∧ ai.argIndex = p ∧ ai.charPos = 2 ∧
      ai.nextIsValue = false ∧ ai.acceptDashed = false ∧ ai.remAsValue = false := by
  rw [step_dash hb hw (by simp)]
  have hi := inWord_of_atB hb (rest.length + 2)
  obtain ⟨it', e1, e2, e3, e4, e5, e6, e7, _, _⟩ := dna_short_more hi hw hc hr 2
  simp only [List.length_cons] at e1 ⊢
  rw [e1, clearRem_ok]
  exact ⟨_, rfl, e2, e3, e4, e5, e6, e7, rfl⟩

theorem atB_not_end {ai : It} {argv : List Word} {q : Nat} (hb : AtB ai argv q) (h1 : 1 ≤ argv.length)
    (hq : q ≤ argv.length) : ai.atEnd = false :=
  atEnd_false (by rw [hb.argv_eq]; exact h1) (by rw [hb.argv_eq, hb.idx]; exact hq)

/-! ### inside a group of short keys -/

/-- the cursor is about to read character `k` of word `p` (a word starting with one dash):
    at the boundary before the word for `k = 1`, inside the word for `k ≥ 2` -/
def Ready (x : It) (argv : List Word) (p k : Nat) : Prop :=
  (k = 1 ∧ AtB x argv p) ∨
  (2 ≤ k ∧ x.argv = argv ∧ x.argIndex = p ∧ x.charPos = k ∧ x.nextIsValue = false ∧ x.acceptDashed = false ∧
    x.remAsValue = false)

theorem getChar_at (argv : List Word) (p k : Nat) (w : Word) (c : Char) (hw : argv[p]? = some w) (hc : w[k]? = some c) :
    getChar argv p k = .ok c := by
  have hk := lt_of_getElem? hc
  unfold getChar getWord
  simp only [hw, Res.bind_ok, hk, if_true, Res.pure_eq]
  simp [List.getD, hc]

/-- reading character `k ≥ 2` of the word: `operator++` inside the word -/
theorem step_inword {x : It} {argv : List Word} {p k : Nat} {w : Word} {c : Char} (h2 : 2 ≤ k) (hv : x.argv = argv)
    (hi : x.argIndex = p) (hpos : x.charPos = k) (hn : x.nextIsValue = false) (hd : x.acceptDashed = false)
    (hr : x.remAsValue = false) (hw : argv[p]? = some w) (hc : w[k]? = some c) (hcd : c ≠ '-') :
    (k + 1 = w.length → ∃ y, x.step = .ok y ∧ y.cur = Elem.setArgChar p k c ∧ AtB y argv (p + 1)) ∧
    (k + 1 ≠ w.length → ∃ y, x.step = .ok y ∧ y.cur = Elem.setArgChar p k c ∧ Ready y argv p (k + 1)) := by
  have hlt := lt_of_getElem? hw
  have hk := lt_of_getElem? hc
  have hstep : x.step = clearRem (({ x with curLen := w.length } : It).determineNextArg 3) := by
    unfold It.step It.next
    have hnend : ¬ x.argIndex ≥ x.argc := by unfold It.argc; rw [hv, hi]; omega
    rw [if_neg hnend]
    have hcond : (x.nextIsValue || (x.remAsValue && decide (x.charPos > 0))) = false := by rw [hn, hr]; rfl
    rw [hcond]
    simp only [Bool.false_eq_true, if_false]
    unfold getWord
    rw [hv, hi, hw]
    simp only [Res.bind_ok]
    have : (x.charPos == 0) = false := by rw [hpos]; simp; omega
    rw [this]
    simp only [Bool.false_eq_true, if_false]
  rw [hstep]
  unfold It.determineNextArg
  simp only
  rw [hv, hi, hpos, getChar_at argv p k w c hw hc]
  have hcd' : (c == '-') = false := by simp [hcd]
  simp only [Res.bind_ok, hcd', Bool.false_eq_true, if_false]
  constructor
  · intro hl
    have : (w.length == k + 1) = true := by simp; omega
    rw [this]
    simp only [if_true, Res.pure_eq, clearRem_ok]
    exact ⟨_, rfl, rfl, ⟨rfl, rfl, rfl, hn, hd⟩⟩
  · intro hl
    have : (w.length == k + 1) = false := by simp; omega
    rw [this]
    simp only [Bool.false_eq_true, if_false, Res.pure_eq, clearRem_ok]
    exact ⟨_, rfl, rfl, Or.inr ⟨by omega, rfl, rfl, rfl, hn, hd, rfl⟩⟩

/-- reading character `k` of a word `-c₁c₂…` from a `Ready` cursor -/
theorem step_ready {x : It} {argv : List Word} {p k : Nat} {cs : Word} {c : Char} (hx : Ready x argv p k)
    (hw : argv[p]? = some ('-' :: cs)) (hc : ('-' :: cs)[k]? = some c) (hcd : c ≠ '-') :
    (k + 1 = cs.length + 1 → ∃ y, x.step = .ok y ∧ y.cur = Elem.setArgChar p k c ∧ AtB y argv (p + 1)) ∧
    (k + 1 ≠ cs.length + 1 → ∃ y, x.step = .ok y ∧ y.cur = Elem.setArgChar p k c ∧ Ready y argv p (k + 1)) := by
  rcases hx with ⟨hk1, hb⟩ | ⟨h2, hv, hi, hpos, hn, hd, hr⟩
  · subst hk1
    cases cs with
    | nil => simp at hc
    | cons c1 rest =>
      simp only [List.getElem?_cons_succ, List.getElem?_cons_zero, Option.some.injEq] at hc
      subst hc
      constructor
      · intro hl
        have : rest = [] := by
          cases rest with
          | nil => rfl
          | cons a b => simp at hl
        subst this
        exact enter_short_last hb hw hcd
      · intro hl
        have hr : rest ≠ [] := by
          intro e; subst e; simp at hl
        obtain ⟨ai, e1, e2, e3, e4, e5, e6, e7, e8⟩ := enter_short_more hb hw hcd hr
        exact ⟨ai, e1, e2, Or.inr ⟨by omega, e3, e4, e5, e6, e7, e8⟩⟩
  · have := step_inword h2 hv hi hpos hn hd hr hw hc hcd
    simpa using this

theorem applyUses_cons_ident (cfg : Cfg) (h : HState) (i : Nat) (d : ArgDef) (v : Word) (us : List Use)
    (hd : cfg.args[i]? = some d) :
    applyUses cfg h ({ arg := i, val := v, ident := true } :: us)
      = (handleIdentifiedArg cfg { h with lastArg := some i } i d v >>= fun h' => applyUses cfg h' us) := by
  simp only [applyUses, applyUse, hd, if_true]

theorem applyUses_cons_free (cfg : Cfg) (h : HState) (i : Nat) (d : ArgDef) (v : Word) (us : List Use)
    (hd : cfg.args[i]? = some d) :
    applyUses cfg h ({ arg := i, val := v, ident := false } :: us)
      = (assignValue h i d v false >>= fun h' => applyUses cfg h' us) := by
  simp only [applyUses, applyUse, hd, Bool.false_eq_true, if_false]

/-- two computations that agree on every successful intermediate state -/
theorem bind_congr_ok {α β : Type} (X : Res α) (f g : α → Res β) (h : ∀ a, X = .ok a → f a = g a) :
    (X >>= f) = (X >>= g) := by
  cases X with
  | ok a => exact h a rfl
  | throw e => rfl
  | oob w => rfl

/-- from a boundary that is followed by the end of the line or by a key word, the next element is
    not a value -/
theorem step_nonvalue {x : It} {argv : List Word} {q : Nat} (hb : AtB x argv q) (h1 : 1 ≤ argv.length)
    (hn : NoValueNext (argv.drop q)) :
    ∃ y, x.step = .ok y ∧ (y.atEnd = true ∨ y.cur.ty ≠ .value) := by
  rcases hn with hnil | ⟨t, rest, hd, ht, ht'⟩
  · -- end of the line
    have hq : argv.length ≤ q := by
      have : (argv.drop q).length = 0 := by rw [hnil]; rfl
      simp only [List.length_drop] at this
      omega
    unfold It.step It.next
    have hend : x.argIndex ≥ x.argc := by unfold It.argc; rw [hb.argv_eq, hb.idx]; omega
    rw [if_pos hend, hb.argv_eq]
    obtain ⟨e, he, _, _, _⟩ := mkEnd_ok h1
    rw [he, clearRem_ok]
    refine ⟨_, rfl, Or.inl ?_⟩
    have := mkEnd_atEnd he
    unfold It.atEnd at this ⊢
    exact this
  · obtain ⟨hw, _⟩ := drop_cons_getElem? hd
    cases t with
    | nil => exact absurd rfl ht
    | cons c r =>
      by_cases hc : c = '-'
      · subst hc
        have hr : r ≠ [] := fun e => ht' (by rw [e])
        cases he : findEq r with
        | none =>
          obtain ⟨y, e1, e2, _⟩ := enter_long hb hw hr he
          exact ⟨y, e1, Or.inr (by rw [e2]; simp [Elem.setArgString])⟩
        | some e =>
          rw [step_dash hb hw (by simp)]
          have hi := inWord_of_atB hb (r.length + 2)
          obtain ⟨it', e1, e2, _⟩ := dna_long_eq hi hw hr he 2
          simp only [List.length_cons] at e1 ⊢
          rw [e1, clearRem_ok]
          exact ⟨_, rfl, Or.inr (by show it'.cur.ty ≠ _; rw [e2]; simp [Elem.setArgString])⟩
      · by_cases hr : r = []
        · subst hr
          obtain ⟨y, e1, e2, _⟩ := enter_short_last hb hw hc
          exact ⟨y, e1, Or.inr (by rw [e2]; simp [Elem.setArgChar])⟩
        · obtain ⟨y, e1, e2, _⟩ := enter_short_more hb hw hc hr
          exact ⟨y, e1, Or.inr (by rw [e2]; simp [Elem.setArgChar])⟩

theorem ready_not_end {x : It} {argv : List Word} {p k : Nat} (hx : Ready x argv p k) (h1 : 1 ≤ argv.length)
    (hp : p < argv.length) : x.atEnd = false := by
  rcases hx with ⟨_, hb⟩ | ⟨_, hv, hi, _⟩
  · exact atB_not_end hb h1 (by omega)
  · exact atEnd_false (by rw [hv]; exact h1) (by rw [hv, hi]; omega)

/-- the loop over the remaining characters of a flag group -/
theorem group_loop (cfg : Cfg) (argv : List Word) (p : Nat) (cs : Word) (us : List Use) (last : Nat)
    (hw : argv[p]? = some ('-' :: cs)) (h1 : 1 ≤ argv.length)
    (cont : ∀ (b' : It) (h' : HState) (fuel' : Nat), AtB b' argv (p + 1) → h'.lastArg = some last →
      us.length < fuel' → contB cfg fuel' h' b' = applyUses cfg h' us) :
    ∀ (fs : List (Char × Nat × ArgDef)) (k : Nat) (x : It) (h : HState) (fuel : Nat), fs ≠ [] →
      (∀ f ∈ fs, f.1 ≠ '-' ∧ Resolves cfg (Key.ofChar f.1) f.2.1 f.2.2 ∧ f.2.2.vmode = .none) →
      fs.getLast?.map (·.2.1) = some last → Ready x argv p k → ('-' :: cs).drop k = fs.map (·.1) →
      fs.length + us.length < fuel →
      contB cfg fuel h x = applyUses cfg h (fs.map (fun f => { arg := f.2.1, val := [], ident := true }) ++ us) := by
  have hplt := lt_of_getElem? hw
  intro fs
  induction fs with
  | nil => intro k x h fuel hne; exact absurd rfl hne
  | cons f rest ih =>
    intro k x h fuel _ hall hlast hx hdrop hf
    obtain ⟨hfc, hfr, hfm⟩ := hall f (List.mem_cons_self)
    simp only [List.map_cons] at hdrop
    obtain ⟨hck, hdrop'⟩ := drop_cons_getElem? hdrop
    have hcfg := findArg_cfg hfr
    have hklt := lt_of_getElem? hck
    obtain ⟨hA, hB⟩ := step_ready hx hw hck hfc
    cases fuel with
    | zero => omega
    | succ fuel =>
      have hev : ∀ y : It, y.cur = Elem.setArgChar p k f.1 →
          evalSingleArgument cfg h y = (handleIdentifiedArg cfg { h with lastArg := some f.2.1 } f.2.1 f.2.2 [] >>=
            fun h' => pure (h', y, ArgResult.consumed)) := by
        intro y hy
        unfold evalSingleArgument
        rw [hy]
        simp only [Elem.setArgChar]
        exact evalKey_novalue cfg h y _ f.2.1 f.2.2 hfr hfm
      cases rest with
      | nil =>
        -- last character of the group
        have hl : k + 1 = cs.length + 1 := by
          have : (('-' :: cs).drop (k + 1)).length = 0 := by rw [hdrop']; rfl
          simp only [List.length_drop, List.length_cons] at this
          simp only [List.length_cons] at hklt
          omega
        obtain ⟨y, e1, e2, e3⟩ := hA hl
        unfold contB
        rw [e1]
        simp only [Res.bind_ok]
        have hne := atB_not_end e3 h1 (by omega)
        rw [loop_step cfg fuel h y y _ hne (hev y e2)]
        simp only [List.map_cons, List.map_nil, List.cons_append, List.nil_append]
        rw [applyUses_cons_ident cfg h f.2.1 f.2.2 [] us hcfg]
        apply bind_congr_ok
        intro h' hh'
        have hl' : some f.2.1 = some last := by simpa using hlast
        exact cont y h' fuel e3 (by rw [(handleIdentifiedArg_frame hh').2.1]; exact hl') (by simp at hf; omega)
      | cons g rest' =>
        have hl : k + 1 ≠ cs.length + 1 := by
          have : (('-' :: cs).drop (k + 1)).length = (g :: rest').length := by rw [hdrop']; simp
          simp only [List.length_drop, List.length_cons] at this
          omega
        obtain ⟨y, e1, e2, e3⟩ := hB hl
        unfold contB
        rw [e1]
        simp only [Res.bind_ok]
        have hne := ready_not_end e3 h1 hplt
        rw [loop_step cfg fuel h y y _ hne (hev y e2)]
        simp only [List.map_cons, List.cons_append]
        rw [applyUses_cons_ident cfg h f.2.1 f.2.2 [] _ hcfg]
        apply bind_congr_ok
        intro h' hh'
        have := ih (k + 1) y h' fuel (by simp) (fun f' hf' => hall f' (List.mem_cons_of_mem _ hf'))
          (by simpa using hlast) e3 hdrop' (by simp at hf ⊢; omega)
        simpa using this

theorem applyUses_append (cfg : Cfg) (h : HState) (a b : List Use) :
    applyUses cfg h (a ++ b) = (applyUses cfg h a >>= fun h' => applyUses cfg h' b) := by
  induction a generalizing h with
  | nil => rfl
  | cons u us ih =>
    simp only [List.cons_append, applyUses]
    cases applyUse cfg h u with
    | ok x => simp only [Res.bind_ok]; exact ih x
    | throw e => rfl
    | oob w => rfl

/-- the loop over flags at the beginning or in the middle of a group, when more characters follow:
    afterwards the cursor is `Ready` at the character behind the flags -/
theorem group_loop_open (cfg : Cfg) (argv : List Word) (p : Nat) (cs tail : Word) (htail : tail ≠ [])
    (hw : argv[p]? = some ('-' :: cs)) (h1 : 1 ≤ argv.length) (R : HState → Res HState) (n : Nat) :
    ∀ (fs : List (Char × Nat × ArgDef)) (k : Nat) (x : It) (h : HState) (fuel : Nat),
      (∀ f ∈ fs, f.1 ≠ '-' ∧ Resolves cfg (Key.ofChar f.1) f.2.1 f.2.2 ∧ f.2.2.vmode = .none) →
      Ready x argv p k → ('-' :: cs).drop k = fs.map (·.1) ++ tail →
      (∀ (y : It) (h' : HState) (fuel' : Nat), Ready y argv p (k + fs.length) → n < fuel' →
        contB cfg fuel' h' y = R h') →
      fs.length + n < fuel →
      contB cfg fuel h x = (applyUses cfg h (fs.map (fun f => { arg := f.2.1, val := [], ident := true })) >>= R) := by
  have hplt := lt_of_getElem? hw
  intro fs
  induction fs with
  | nil =>
    intro k x h fuel _ hx _ cont hf
    simp only [List.map_nil, applyUses, Res.bind_ok]
    exact cont x h fuel (by simpa using hx) (by simpa using hf)
  | cons f rest ih =>
    intro k x h fuel hall hx hdrop cont hf
    obtain ⟨hfc, hfr, hfm⟩ := hall f (List.mem_cons_self)
    simp only [List.map_cons, List.cons_append] at hdrop
    obtain ⟨hck, hdrop'⟩ := drop_cons_getElem? hdrop
    have hcfg := findArg_cfg hfr
    have hklt := lt_of_getElem? hck
    obtain ⟨_, hB⟩ := step_ready hx hw hck hfc
    have hl : k + 1 ≠ cs.length + 1 := by
      have : (('-' :: cs).drop (k + 1)).length = (rest.map (·.1) ++ tail).length := by rw [hdrop']
      simp only [List.length_drop, List.length_cons, List.length_append, List.length_map] at this
      have : 0 < tail.length := by
        cases tail with
        | nil => exact absurd rfl htail
        | cons a b => simp
      omega
    obtain ⟨y, e1, e2, e3⟩ := hB hl
    cases fuel with
    | zero => omega
    | succ fuel =>
      have hev : evalSingleArgument cfg h y = (handleIdentifiedArg cfg { h with lastArg := some f.2.1 } f.2.1 f.2.2 [] >>=
            fun h' => pure (h', y, ArgResult.consumed)) := by
        unfold evalSingleArgument
        rw [e2]
        simp only [Elem.setArgChar]
        exact evalKey_novalue cfg h y _ f.2.1 f.2.2 hfr hfm
      unfold contB
      rw [e1]
      simp only [Res.bind_ok]
      have hne := ready_not_end e3 h1 hplt
      rw [loop_step cfg fuel h y y _ hne hev]
      simp only [List.map_cons]
      rw [applyUses_cons_ident cfg h f.2.1 f.2.2 [] _ hcfg]
      cases hh : handleIdentifiedArg cfg { h with lastArg := some f.2.1 } f.2.1 f.2.2 [] with
      | throw e => rfl
      | oob w => rfl
      | ok h' =>
        simp only [Res.bind_ok]
        exact ih (k + 1) y h' fuel (fun f' hf' => hall f' (List.mem_cons_of_mem _ hf')) e3 hdrop'
          (fun y' h'' fuel' hy' hf' => cont y' h'' fuel' (by simpa [Nat.add_assoc, Nat.add_comm 1] using hy') hf')
          (by simp at hf ⊢; omega)

/-- **Spelling theorem (loop form).**  From the boundary before a sequence of words that spells the
    uses `us`, the element loop does exactly what `applyUses` does — same destinations, counters,
    constraint lists, same exception if a rule is broken — whatever forms were chosen. -/
theorem spells_loop (cfg : Cfg) {l : Option Nat} {us : List Use} {ws : List Word} (hs : Spells cfg l us ws) :
    ∀ (argv : List Word) (p : Nat) (b : It) (h : HState) (fuel : Nat), AtB b argv p → argv.drop p = ws →
      1 ≤ argv.length → h.lastArg = l → us.length < fuel → contB cfg fuel h b = applyUses cfg h us := by
  induction hs with
  | nil l =>
    intro argv p b h fuel hb hd h1 _ hf
    have hp : p ≥ argv.length := by
      rcases Nat.lt_or_ge p argv.length with hlt | hge
      · have : (argv.drop p).length = argv.length - p := by simp
        rw [hd] at this; simp at this; omega
      · exact hge
    cases fuel with
    | zero => omega
    | succ fuel => exact contB_end cfg fuel h b argv p h1 hb hp
  | @shortFlag l c i d us ws hc hr hm _ ih =>
    intro argv p b h fuel hb hd h1 _ hf
    obtain ⟨hw, hd'⟩ := drop_cons_getElem? hd
    have hplt := lt_of_getElem? hw
    obtain ⟨ai, e1, e2, e3⟩ := enter_short_last hb hw hc
    have hcfg := findArg_cfg hr
    cases fuel with
    | zero => omega
    | succ fuel =>
      unfold contB
      rw [e1]
      simp only [Res.bind_ok]
      have hne := atB_not_end e3 h1 (by omega)
      have hev : evalSingleArgument cfg h ai = (handleIdentifiedArg cfg { h with lastArg := some i } i d [] >>=
          fun h' => pure (h', ai, ArgResult.consumed)) := by
        unfold evalSingleArgument
        rw [e2]
        simp only [Elem.setArgChar]
        exact evalKey_novalue cfg h ai _ i d hr hm
      rw [loop_step cfg fuel h ai ai _ hne hev, applyUses_cons_ident cfg h i d [] us hcfg]
      apply bind_congr_ok
      intro h' hh'
      exact ih argv (p + 1) ai h' fuel e3 hd' h1 (by rw [(handleIdentifiedArg_frame hh').2.1]) (by simp at hf; omega)
  | @longFlag l name k i d us ws hn he hk hr hm _ ih =>
    intro argv p b h fuel hb hd h1 _ hf
    obtain ⟨hw, hd'⟩ := drop_cons_getElem? hd
    have hplt := lt_of_getElem? hw
    obtain ⟨ai, e1, e2, e3⟩ := enter_long hb hw hn he
    have hcfg := findArg_cfg hr
    cases fuel with
    | zero => omega
    | succ fuel =>
      unfold contB
      rw [e1]
      simp only [Res.bind_ok]
      have hne := atB_not_end e3 h1 (by omega)
      have hev : evalSingleArgument cfg h ai = (handleIdentifiedArg cfg { h with lastArg := some i } i d [] >>=
          fun h' => pure (h', ai, ArgResult.consumed)) := by
        unfold evalSingleArgument
        rw [e2]
        simp only [Elem.setArgString, hk, Res.bind_ok]
        exact evalKey_novalue cfg h ai _ i d hr hm
      rw [loop_step cfg fuel h ai ai _ hne hev, applyUses_cons_ident cfg h i d [] us hcfg]
      apply bind_congr_ok
      intro h' hh'
      exact ih argv (p + 1) ai h' fuel e3 hd' h1 (by rw [(handleIdentifiedArg_frame hh').2.1]) (by simp at hf; omega)
  | @shortVal l c v i d us ws hc hr hm hpv _ ih =>
    intro argv p b h fuel hb hd h1 _ hf
    obtain ⟨hw, hd'⟩ := drop_cons_getElem? hd
    obtain ⟨hw2, hd''⟩ := drop_cons_getElem? hd'
    have hplt := lt_of_getElem? hw2
    obtain ⟨ai, e1, e2, e3⟩ := enter_short_last hb hw hc
    have hcfg := findArg_cfg hr
    cases fuel with
    | zero => omega
    | succ fuel =>
      unfold contB
      rw [e1]
      simp only [Res.bind_ok]
      have hne := atB_not_end e3 h1 (by omega)
      -- the value word
      have hfl : ∀ bb : Bool, AtB ({ ai with remAsValue := bb } : It) argv (p + 1) := fun bb => e3.flag bb
      have hstep : ∃ ait2, (if d.vmode = VMode.required then ({ ai with remAsValue := true } : It) else ai).step = .ok ait2 ∧
          ait2.cur = Elem.setValue (p + 1) v ∧ AtB ait2 argv (p + 1 + 1) := by
        split
        · obtain ⟨x, x1, x2, x3, _⟩ := step_plain (hfl true) hw2 hpv
          exact ⟨x, x1, x2, x3⟩
        · obtain ⟨x, x1, x2, x3, _⟩ := step_plain e3 hw2 hpv
          exact ⟨x, x1, x2, x3⟩
      obtain ⟨ait2, s1, s2, s3⟩ := hstep
      have hne2 := atB_not_end s3 h1 (by omega)
      have hev : evalSingleArgument cfg h ai = (handleIdentifiedArg cfg { h with lastArg := some i } i d v >>=
          fun h' => pure (h', ait2, ArgResult.consumed)) := by
        unfold evalSingleArgument
        rw [e2]
        simp only [Elem.setArgChar]
        exact evalKey_value cfg h ai ait2 _ i d v hr hm s1 hne2 (Or.inr (by rw [s2]; exact ⟨rfl, rfl⟩))
      rw [loop_step cfg fuel h ai ait2 _ hne hev, applyUses_cons_ident cfg h i d v us hcfg]
      apply bind_congr_ok
      intro h' hh'
      exact ih argv (p + 1 + 1) ait2 h' fuel s3 hd'' h1 (by rw [(handleIdentifiedArg_frame hh').2.1]) (by simp at hf; omega)
  | @longVal l name v k i d us ws hn he hk hr hm hpv _ ih =>
    intro argv p b h fuel hb hd h1 _ hf
    obtain ⟨hw, hd'⟩ := drop_cons_getElem? hd
    obtain ⟨hw2, hd''⟩ := drop_cons_getElem? hd'
    have hplt := lt_of_getElem? hw2
    obtain ⟨ai, e1, e2, e3⟩ := enter_long hb hw hn he
    have hcfg := findArg_cfg hr
    cases fuel with
    | zero => omega
    | succ fuel =>
      unfold contB
      rw [e1]
      simp only [Res.bind_ok]
      have hne := atB_not_end e3 h1 (by omega)
      have hfl : ∀ bb : Bool, AtB ({ ai with remAsValue := bb } : It) argv (p + 1) := fun bb => e3.flag bb
      have hstep : ∃ ait2, (if d.vmode = VMode.required then ({ ai with remAsValue := true } : It) else ai).step = .ok ait2 ∧
          ait2.cur = Elem.setValue (p + 1) v ∧ AtB ait2 argv (p + 1 + 1) := by
        split
        · obtain ⟨x, x1, x2, x3, _⟩ := step_plain (hfl true) hw2 hpv
          exact ⟨x, x1, x2, x3⟩
        · obtain ⟨x, x1, x2, x3, _⟩ := step_plain e3 hw2 hpv
          exact ⟨x, x1, x2, x3⟩
      obtain ⟨ait2, s1, s2, s3⟩ := hstep
      have hne2 := atB_not_end s3 h1 (by omega)
      have hev : evalSingleArgument cfg h ai = (handleIdentifiedArg cfg { h with lastArg := some i } i d v >>=
          fun h' => pure (h', ait2, ArgResult.consumed)) := by
        unfold evalSingleArgument
        rw [e2]
        simp only [Elem.setArgString, hk, Res.bind_ok]
        exact evalKey_value cfg h ai ait2 _ i d v hr hm s1 hne2 (Or.inr (by rw [s2]; exact ⟨rfl, rfl⟩))
      rw [loop_step cfg fuel h ai ait2 _ hne hev, applyUses_cons_ident cfg h i d v us hcfg]
      apply bind_congr_ok
      intro h' hh'
      exact ih argv (p + 1 + 1) ait2 h' fuel s3 hd'' h1 (by rw [(handleIdentifiedArg_frame hh').2.1]) (by simp at hf; omega)
  | @longEq l name v k i d us ws hn he hk hr hm _ ih =>
    intro argv p b h fuel hb hd h1 _ hf
    obtain ⟨hw, hd'⟩ := drop_cons_getElem? hd
    have hplt := lt_of_getElem? hw
    obtain ⟨ai, e1, e2, e3, e4, e5, e6, e7⟩ := enter_long_eq hb hw hn he
    have hcfg := findArg_cfg hr
    cases fuel with
    | zero => omega
    | succ fuel =>
      unfold contB
      rw [e1]
      simp only [Res.bind_ok]
      have hne : ai.atEnd = false := atEnd_false (by rw [e3]; exact h1) (by rw [e3, e4]; omega)
      have hlenw : name.length + 3 ≤ ('-' :: '-' :: (name ++ '=' :: v)).length := by simp
      have hdropw : ('-' :: '-' :: (name ++ '=' :: v)).drop (name.length + 3) = v := by
        have : name.length + 3 = (name.length + 1) + 1 + 1 := by omega
        rw [this]
        simp only [List.drop_succ_cons]
        rw [List.drop_append]
        simp
      have hstep : ∃ ait2, (if d.vmode = VMode.required then ({ ai with remAsValue := true } : It) else ai).step = .ok ait2 ∧
          ait2.cur = Elem.setValue p v ∧ AtB ait2 argv (p + 1) := by
        split
        · obtain ⟨x, x1, x2, x3, _⟩ := step_rest_value (it := { ai with remAsValue := true }) (k := name.length + 3)
            e3 e4 e5 hlenw hw (by simp [e6]) e7
          rw [hdropw] at x2
          exact ⟨x, x1, x2, x3⟩
        · obtain ⟨x, x1, x2, x3, _⟩ := step_rest_value (it := ai) (k := name.length + 3)
            e3 e4 e5 hlenw hw (by simp [e6]) e7
          rw [hdropw] at x2
          exact ⟨x, x1, x2, x3⟩
      obtain ⟨ait2, s1, s2, s3⟩ := hstep
      have hne2 := atB_not_end s3 h1 (by omega)
      have hev : evalSingleArgument cfg h ai = (handleIdentifiedArg cfg { h with lastArg := some i } i d v >>=
          fun h' => pure (h', ait2, ArgResult.consumed)) := by
        unfold evalSingleArgument
        rw [e2]
        simp only [Elem.setArgString, hk, Res.bind_ok]
        exact evalKey_value cfg h ai ait2 _ i d v hr hm s1 hne2 (Or.inr (by rw [s2]; exact ⟨rfl, rfl⟩))
      rw [loop_step cfg fuel h ai ait2 _ hne hev, applyUses_cons_ident cfg h i d v us hcfg]
      apply bind_congr_ok
      intro h' hh'
      exact ih argv (p + 1) ait2 h' fuel s3 hd' h1 (by rw [(handleIdentifiedArg_frame hh').2.1]) (by simp at hf; omega)
  | @shortGlued l c v i d us ws hc hv hr hm _ ih =>
    intro argv p b h fuel hb hd h1 _ hf
    obtain ⟨hw, hd'⟩ := drop_cons_getElem? hd
    have hplt := lt_of_getElem? hw
    obtain ⟨ai, e1, e2, e3, e4, e5, e6, e7, _⟩ := enter_short_more hb hw hc hv
    have hcfg := findArg_cfg hr
    cases fuel with
    | zero => omega
    | succ fuel =>
      unfold contB
      rw [e1]
      simp only [Res.bind_ok]
      have hne : ai.atEnd = false := atEnd_false (by rw [e3]; exact h1) (by rw [e3, e4]; omega)
      have hlenw : 2 ≤ ('-' :: c :: v).length := by simp
      have hmne : d.vmode ≠ VMode.none := by rw [hm]; decide
      obtain ⟨ait2, s1, s2, s3, _⟩ := step_rest_value (it := { ai with remAsValue := true }) (k := 2)
        e3 e4 e5 hlenw hw (by simp) e7
      have s2' : ait2.cur = Elem.setValue p v := by rw [s2]; rfl
      have hne2 := atB_not_end s3 h1 (by omega)
      have hev : evalSingleArgument cfg h ai = (handleIdentifiedArg cfg { h with lastArg := some i } i d v >>=
          fun h' => pure (h', ait2, ArgResult.consumed)) := by
        unfold evalSingleArgument
        rw [e2]
        simp only [Elem.setArgChar]
        exact evalKey_value cfg h ai ait2 _ i d v hr hmne (by rw [if_pos hm]; exact s1) hne2
          (Or.inr (by rw [s2']; exact ⟨rfl, rfl⟩))
      rw [loop_step cfg fuel h ai ait2 _ hne hev, applyUses_cons_ident cfg h i d v us hcfg]
      apply bind_congr_ok
      intro h' hh'
      exact ih argv (p + 1) ait2 h' fuel s3 hd' h1 (by rw [(handleIdentifiedArg_frame hh').2.1]) (by simp at hf; omega)
  | @shortOpt l c i d us ws hc hr hm hnv _ ih =>
    intro argv p b h fuel hb hd h1 _ hf
    obtain ⟨hw, hd'⟩ := drop_cons_getElem? hd
    have hplt := lt_of_getElem? hw
    obtain ⟨ai, e1, e2, e3⟩ := enter_short_last hb hw hc
    have hcfg := findArg_cfg hr
    obtain ⟨ait2, s1, s2⟩ := step_nonvalue e3 h1 (by rw [hd']; exact hnv)
    cases fuel with
    | zero => omega
    | succ fuel =>
      unfold contB
      rw [e1]
      simp only [Res.bind_ok]
      have hne := atB_not_end e3 h1 (by omega)
      have hev : evalSingleArgument cfg h ai = (handleIdentifiedArg cfg { h with lastArg := some i } i d [] >>=
          fun h' => pure (h', ai, ArgResult.consumed)) := by
        unfold evalSingleArgument
        rw [e2]
        simp only [Elem.setArgChar]
        exact evalKey_optional_alone cfg h ai ait2 _ i d hr hm s1 s2
      rw [loop_step cfg fuel h ai ai _ hne hev, applyUses_cons_ident cfg h i d [] us hcfg]
      apply bind_congr_ok
      intro h' hh'
      exact ih argv (p + 1) ai h' fuel e3 hd' h1 (by rw [(handleIdentifiedArg_frame hh').2.1]) (by simp at hf; omega)
  | @longOpt l name k i d us ws hn he hk hr hm hnv _ ih =>
    intro argv p b h fuel hb hd h1 _ hf
    obtain ⟨hw, hd'⟩ := drop_cons_getElem? hd
    have hplt := lt_of_getElem? hw
    obtain ⟨ai, e1, e2, e3⟩ := enter_long hb hw hn he
    have hcfg := findArg_cfg hr
    obtain ⟨ait2, s1, s2⟩ := step_nonvalue e3 h1 (by rw [hd']; exact hnv)
    cases fuel with
    | zero => omega
    | succ fuel =>
      unfold contB
      rw [e1]
      simp only [Res.bind_ok]
      have hne := atB_not_end e3 h1 (by omega)
      have hev : evalSingleArgument cfg h ai = (handleIdentifiedArg cfg { h with lastArg := some i } i d [] >>=
          fun h' => pure (h', ai, ArgResult.consumed)) := by
        unfold evalSingleArgument
        rw [e2]
        simp only [Elem.setArgString, hk, Res.bind_ok]
        exact evalKey_optional_alone cfg h ai ait2 _ i d hr hm s1 s2
      rw [loop_step cfg fuel h ai ai _ hne hev, applyUses_cons_ident cfg h i d [] us hcfg]
      apply bind_congr_ok
      intro h' hh'
      exact ih argv (p + 1) ai h' fuel e3 hd' h1 (by rw [(handleIdentifiedArg_frame hh').2.1]) (by simp at hf; omega)
  | @flagGroup l fs last us ws hall hlast _ ih =>
    intro argv p b h fuel hb hd h1 _ hf
    obtain ⟨hw, hd'⟩ := drop_cons_getElem? hd
    by_cases hne : fs = []
    · subst hne; simp at hlast
    · exact group_loop cfg argv p (fs.map (·.1)) us last hw h1
        (fun b' h' fuel' hb' hl' hf' => ih argv (p + 1) b' h' fuel' hb' hd' h1 hl' hf')
        fs 1 b h fuel hne hall hlast (Or.inl ⟨rfl, hb⟩) (by simp) (by simp at hf; omega)
  | @groupVal l fs c v i d us ws hall hc hr hm hpv _ ih =>
    intro argv p b h fuel hb hd h1 _ hf
    obtain ⟨hw, hd'⟩ := drop_cons_getElem? hd
    obtain ⟨hw2, hd''⟩ := drop_cons_getElem? hd'
    have hplt := lt_of_getElem? hw2
    have hcfg := findArg_cfg hr
    have hf2 : fs.length + (us.length + 1) < fuel := by
      simp only [List.length_append, List.length_map, List.length_cons] at hf; exact hf
    rw [applyUses_append]
    refine group_loop_open cfg argv p (fs.map (·.1) ++ [c]) [c] (by simp) hw h1
      (fun h' => applyUses cfg h' ({ arg := i, val := v, ident := true } :: us)) (us.length + 1) fs 1 b h fuel hall
      (Or.inl ⟨rfl, hb⟩) (by simp) ?_ (by omega)
    intro y h' fuel' hy hf'
    -- the closing key is the last character of the word
    have hck : ('-' :: (fs.map (·.1) ++ [c]))[1 + fs.length]? = some c := by
      have : 1 + fs.length = (fs.map (·.1)).length + 1 := by simp; omega
      rw [this, List.getElem?_cons_succ, List.getElem?_append_right (by simp)]
      simp
    obtain ⟨hA, _⟩ := step_ready hy hw hck hc
    obtain ⟨ai, e1, e2, e3⟩ := hA (by simp; omega)
    cases fuel' with
    | zero => omega
    | succ fuel' =>
      unfold contB
      rw [e1]
      simp only [Res.bind_ok]
      have hne := atB_not_end e3 h1 (by omega)
      have hfl : ∀ bb : Bool, AtB ({ ai with remAsValue := bb } : It) argv (p + 1) := fun bb => e3.flag bb
      have hstep : ∃ ait2, (if d.vmode = VMode.required then ({ ai with remAsValue := true } : It) else ai).step = .ok ait2 ∧
          ait2.cur = Elem.setValue (p + 1) v ∧ AtB ait2 argv (p + 1 + 1) := by
        split
        · obtain ⟨x, x1, x2, x3, _⟩ := step_plain (hfl true) hw2 hpv
          exact ⟨x, x1, x2, x3⟩
        · obtain ⟨x, x1, x2, x3, _⟩ := step_plain e3 hw2 hpv
          exact ⟨x, x1, x2, x3⟩
      obtain ⟨ait2, s1, s2, s3⟩ := hstep
      have hne2 := atB_not_end s3 h1 (by omega)
      have hev : evalSingleArgument cfg h' ai = (handleIdentifiedArg cfg { h' with lastArg := some i } i d v >>=
          fun h'' => pure (h'', ait2, ArgResult.consumed)) := by
        unfold evalSingleArgument
        rw [e2]
        simp only [Elem.setArgChar]
        exact evalKey_value cfg h' ai ait2 _ i d v hr hm s1 hne2 (Or.inr (by rw [s2]; exact ⟨rfl, rfl⟩))
      rw [loop_step cfg fuel' h' ai ait2 _ hne hev, applyUses_cons_ident cfg h' i d v us hcfg]
      apply bind_congr_ok
      intro h'' hh''
      exact ih argv (p + 1 + 1) ait2 h'' fuel' s3 hd'' h1 (by rw [(handleIdentifiedArg_frame hh'').2.1]) (by omega)
  | @groupGlued l fs c v i d us ws hall hc hv hr hm _ ih =>
    intro argv p b h fuel hb hd h1 _ hf
    obtain ⟨hw, hd'⟩ := drop_cons_getElem? hd
    have hplt := lt_of_getElem? hw
    have hcfg := findArg_cfg hr
    have hf2 : fs.length + (us.length + 1) < fuel := by
      simp only [List.length_append, List.length_map, List.length_cons] at hf; exact hf
    rw [applyUses_append]
    refine group_loop_open cfg argv p (fs.map (·.1) ++ c :: v) (c :: v) (by simp) hw h1
      (fun h' => applyUses cfg h' ({ arg := i, val := v, ident := true } :: us)) (us.length + 1) fs 1 b h fuel hall
      (Or.inl ⟨rfl, hb⟩) (by simp) ?_ (by omega)
    intro y h' fuel' hy hf'
    have hck : ('-' :: (fs.map (·.1) ++ c :: v))[1 + fs.length]? = some c := by
      have : 1 + fs.length = (fs.map (·.1)).length + 1 := by simp; omega
      rw [this, List.getElem?_cons_succ, List.getElem?_append_right (by simp)]
      simp
    obtain ⟨_, hB⟩ := step_ready hy hw hck hc
    have hvl : 0 < v.length := by
      cases v with
      | nil => exact absurd rfl hv
      | cons a b => simp
    obtain ⟨ai, e1, e2, e3⟩ := hB (by simp; omega)
    -- ai is inside the word, behind the key character
    have hin : 2 ≤ 1 + fs.length + 1 ∧ ai.argv = argv ∧ ai.argIndex = p ∧ ai.charPos = 1 + fs.length + 1 ∧
        ai.nextIsValue = false ∧ ai.acceptDashed = false ∧ ai.remAsValue = false := by
      rcases e3 with ⟨hk, _⟩ | hh
      · omega
      · exact hh
    obtain ⟨_, a1, a2, a3, a4, a5, _⟩ := hin
    cases fuel' with
    | zero => omega
    | succ fuel' =>
      unfold contB
      rw [e1]
      simp only [Res.bind_ok]
      have hne : ai.atEnd = false := atEnd_false (by rw [a1]; exact h1) (by rw [a1, a2]; omega)
      have hmne : d.vmode ≠ VMode.none := by rw [hm]; decide
      have hlenw : 1 + fs.length + 1 ≤ ('-' :: (fs.map (·.1) ++ c :: v)).length := by simp; omega
      have hdropw : ('-' :: (fs.map (·.1) ++ c :: v)).drop (1 + fs.length + 1) = v := by
        have : 1 + fs.length + 1 = ((fs.map (·.1)).length + 1) + 1 := by simp; omega
        rw [this, List.drop_succ_cons, List.drop_append]
        simp
      obtain ⟨ait2, s1, s2, s3, _⟩ := step_rest_value (it := { ai with remAsValue := true }) (k := 1 + fs.length + 1)
        a1 a2 a3 hlenw hw (by simp) a5
      rw [hdropw] at s2
      have hne2 := atB_not_end s3 h1 (by omega)
      have hev : evalSingleArgument cfg h' ai = (handleIdentifiedArg cfg { h' with lastArg := some i } i d v >>=
          fun h'' => pure (h'', ait2, ArgResult.consumed)) := by
        unfold evalSingleArgument
        rw [e2]
        simp only [Elem.setArgChar]
        exact evalKey_value cfg h' ai ait2 _ i d v hr hmne (by rw [if_pos hm]; exact s1) hne2
          (Or.inr (by rw [s2]; exact ⟨rfl, rfl⟩))
      rw [loop_step cfg fuel' h' ai ait2 _ hne hev, applyUses_cons_ident cfg h' i d v us hcfg]
      apply bind_congr_ok
      intro h'' hh''
      exact ih argv (p + 1) ait2 h'' fuel' s3 hd' h1 (by rw [(handleIdentifiedArg_frame hh'').2.1]) (by omega)
  | @free v i d us ws hcfg hmu hpv _ ih =>
    intro argv p b h fuel hb hd h1 hl hf
    obtain ⟨hw, hd'⟩ := drop_cons_getElem? hd
    have hplt := lt_of_getElem? hw
    obtain ⟨ai, e1, e2, e3, _⟩ := step_plain hb hw hpv
    cases fuel with
    | zero => omega
    | succ fuel =>
      unfold contB
      rw [e1]
      simp only [Res.bind_ok]
      have hne := atB_not_end e3 h1 (by omega)
      have hev : evalSingleArgument cfg h ai = (assignValue h i d v false >>=
          fun h' => pure (h', ai, ArgResult.consumed)) := by
        unfold evalSingleArgument
        rw [e2]
        simp only [Elem.setValue, hl, hcfg, hmu, if_true]
      rw [loop_step cfg fuel h ai ai _ hne hev, applyUses_cons_free cfg h i d v us hcfg]
      apply bind_congr_ok
      intro h' hh'
      exact ih argv (p + 1) ai h' fuel e3 hd' h1 (by rw [(assignValue_frame hh').2.1, hl]) (by simp at hf; omega)

/-- every use takes at least one character of the words (which is what bounds the loop) -/
theorem spells_length {cfg : Cfg} {l : Option Nat} {us : List Use} {ws : List Word} (hs : Spells cfg l us ws) :
    us.length ≤ (ws.map (fun w => w.length + 1)).sum := by
  induction hs <;> simp <;> omega

theorem spells_first {cfg : Cfg} {l : Option Nat} {us : List Use} {ws : List Word} (hs : Spells cfg l us ws) :
    ∀ w, ws.head? = some w → w ≠ ['('] ∧ w ≠ [')'] ∧ w ≠ ['!'] ∧ w ≠ ['-', '-'] := by
  have plain : ∀ v : Word, PlainWord v → v ≠ ['('] ∧ v ≠ [')'] ∧ v ≠ ['!'] ∧ v ≠ ['-', '-'] := by
    intro v hv
    refine ⟨hv.2.1, hv.2.2.1, hv.2.2.2, ?_⟩
    intro e; rw [e] at hv; exact hv.1 rfl
  cases hs with
  | nil => intro w hw; cases hw
  | shortFlag hc _ _ _ =>
    intro w hw; simp only [List.head?_cons, Option.some.injEq] at hw; subst hw
    refine ⟨by simp, by simp, by simp, ?_⟩
    intro e; simp only [List.cons.injEq, and_true] at e; exact hc e.2
  | longFlag hn _ _ _ _ _ =>
    intro w hw; simp only [List.head?_cons, Option.some.injEq] at hw; subst hw
    refine ⟨by simp, by simp, by simp, ?_⟩
    intro e; simp only [List.cons.injEq, true_and] at e; exact hn e
  | shortVal hc _ _ _ _ =>
    intro w hw; simp only [List.head?_cons, Option.some.injEq] at hw; subst hw
    refine ⟨by simp, by simp, by simp, ?_⟩
    intro e; simp only [List.cons.injEq, and_true] at e; exact hc e.2
  | longVal hn _ _ _ _ _ _ =>
    intro w hw; simp only [List.head?_cons, Option.some.injEq] at hw; subst hw
    refine ⟨by simp, by simp, by simp, ?_⟩
    intro e; simp only [List.cons.injEq, true_and] at e; exact hn e
  | longEq hn _ _ _ _ _ =>
    intro w hw; simp only [List.head?_cons, Option.some.injEq] at hw; subst hw
    refine ⟨by simp, by simp, by simp, ?_⟩
    intro e; simp at e
  | shortGlued hc hv _ _ _ =>
    intro w hw; simp only [List.head?_cons, Option.some.injEq] at hw; subst hw
    refine ⟨by simp, by simp, by simp, ?_⟩
    intro e; simp only [List.cons.injEq, true_and] at e; exact hc e.1
  | shortOpt hc _ _ _ _ =>
    intro w hw; simp only [List.head?_cons, Option.some.injEq] at hw; subst hw
    refine ⟨by simp, by simp, by simp, ?_⟩
    intro e; simp only [List.cons.injEq, and_true] at e; exact hc e.2
  | longOpt hn _ _ _ _ _ _ =>
    intro w hw; simp only [List.head?_cons, Option.some.injEq] at hw; subst hw
    refine ⟨by simp, by simp, by simp, ?_⟩
    intro e; simp only [List.cons.injEq, true_and] at e; exact hn e
  | @flagGroup _ fs _ _ _ hall hlast _ =>
    intro w hw; simp only [List.head?_cons, Option.some.injEq] at hw; subst hw
    refine ⟨by simp, by simp, by simp, ?_⟩
    intro e
    simp only [List.cons.injEq, true_and] at e
    cases fs with
    | nil => simp at hlast
    | cons f rest =>
      simp only [List.map_cons, List.cons.injEq] at e
      exact (hall f List.mem_cons_self).1 e.1
  | @groupVal _ fs c _ _ _ _ _ hall hc _ _ _ _ =>
    intro w hw; simp only [List.head?_cons, Option.some.injEq] at hw; subst hw
    refine ⟨by simp, by simp, by simp, ?_⟩
    intro e
    simp only [List.cons.injEq, true_and] at e
    cases fs with
    | nil => simp only [List.map_nil, List.nil_append, List.cons.injEq, and_true] at e; exact hc e
    | cons f rest =>
      simp only [List.map_cons, List.cons_append, List.cons.injEq] at e
      exact (hall f List.mem_cons_self).1 e.1
  | @groupGlued _ fs c _ _ _ _ _ hall hc _ _ _ _ =>
    intro w hw; simp only [List.head?_cons, Option.some.injEq] at hw; subst hw
    refine ⟨by simp, by simp, by simp, ?_⟩
    intro e
    simp only [List.cons.injEq, true_and] at e
    cases fs with
    | nil => simp only [List.map_nil, List.nil_append, List.cons.injEq] at e; exact hc e.1
    | cons f rest =>
      simp only [List.map_cons, List.cons_append, List.cons.injEq] at e
      exact (hall f List.mem_cons_self).1 e.1
  | free _ _ hp _ =>
    intro w hw; simp only [List.head?_cons, Option.some.injEq] at hw; subst hw
    exact plain _ hp

theorem totalChars_gt (argv : List Word) : (argv.map (fun w => w.length + 1)).sum < totalChars argv := by
  unfold totalChars
  have : ∀ l : List Word, (l.map (fun w => w.length + 1)).sum ≤ (l.map (fun w => w.length + 2)).sum := by
    intro l
    induction l with
    | nil => simp
    | cons a l ih => simp only [List.map_cons, List.sum_cons]; omega
  have := this argv
  omega

/-- **Spelling theorem.**  If the words `ws` spell the abstract command line `us`, the handler's
    element loop over `prog :: ws` is `applyUses` over `us` — exactly: same resulting state on
    success, same exception otherwise. -/
theorem spells_iterate (cfg : Cfg) {us : List Use} {ws : List Word} (h : HState) (prog : Word)
    (hs : Spells cfg h.lastArg us ws) : iterateArguments cfg h (prog :: ws) = applyUses cfg h us := by
  unfold iterateArguments
  rw [begin_eq_step prog ws (spells_first hs)]
  have := spells_loop cfg hs (prog :: ws) 1 (B0 (prog :: ws)) h (totalChars (prog :: ws)) (B0_atB _) (by simp)
    (by simp) rfl (by
      have h1 := spells_length hs
      have h2 := totalChars_gt (prog :: ws)
      simp only [List.map_cons, List.sum_cons] at h2
      omega)
  unfold contB at this
  exact this

/-- the same for the whole command-line evaluation: `evalArguments` = `evalUses` -/
theorem spells_eval (cfg : Cfg) {us : List Use} {ws : List Word} (h : HState) (prog : Word)
    (hs : Spells cfg h.lastArg us ws) : evalArguments cfg h {} (prog :: ws) = evalUses cfg h us := by
  unfold evalArguments evalFileSource evalEnvSource evalUses
  simp only [Res.pure_eq, Res.bind_ok]
  rw [spells_iterate cfg h prog hs]

end CelmaVerif.ProgArgs

namespace CelmaVerif.ProgArgs
open CelmaVerif CelmaVerif.Keys

/-- **Exact keys resolve.**  In a table without clashing keys, the short key of an argument (as a
    character) and its long key (as a word) designate that argument — with abbreviations on or off and
    whatever other keys are defined (C05: an exact key always wins).  This discharges the `Resolves`
    hypotheses of `Spells` for every exact spelling. -/
theorem resolves_exact (cfg : Cfg) (hd : Keys.Disjoint cfg.table) (i : Nat) (d : ArgDef) (hi : cfg.args[i]? = some d)
    (k : Key) (hk : k.Single) (hc : d.key.Clash k) : Resolves cfg k i d := by
  unfold Resolves
  have hmem : (d.key, d) ∈ cfg.table := by
    unfold Cfg.table
    exact List.mem_map.mpr ⟨d, List.mem_of_getElem? hi, rfl⟩
  have hp := findArg_exact cfg.abbr cfg.table hd (d.key, d) hmem k hk hc
  cases hf : findArg cfg.abbr cfg.table k with
  | throw e => rw [hf] at hp; simp [payload] at hp
  | oob w => rw [hf] at hp; simp [payload] at hp
  | ok r =>
    cases r with
    | none => rw [hf] at hp; simp [payload] at hp
    | some ja =>
      obtain ⟨j, a⟩ := ja
      rw [hf] at hp
      simp only [payload] at hp
      have ha : a = d := by simpa using hp
      subst ha
      have hj := findArg_cfg hf
      -- two positions holding the same definition in a disjoint table coincide
      have hij : i = j := by
        unfold Keys.Disjoint at hd
        rw [List.pairwise_iff_getElem] at hd
        obtain ⟨hil, hie⟩ := List.getElem?_eq_some_iff.mp hi
        obtain ⟨hjl, hje⟩ := List.getElem?_eq_some_iff.mp hj
        have hlen : cfg.table.length = cfg.args.length := by unfold Cfg.table; simp
        have hself : a.key.Clash a.key := by
          -- the key clashes with the lookup key, hence it is not the "nothing" key unless positional
          rcases hc with h1 | h1 | h1
          · exact Or.inl ⟨h1.1, rfl⟩
          · exact Or.inr (Or.inl ⟨h1.1, rfl⟩)
          · exact Or.inr (Or.inr ⟨h1.1, h1.1⟩)
        rcases Nat.lt_trichotomy i j with hlt | heq | hgt
        · exfalso
          apply hd i j (by omega) (by omega) hlt
          simp only [Cfg.table, List.getElem_map, hie, hje]; exact hself
        · exact heq
        · exfalso
          apply hd j i (by omega) (by omega) hgt
          simp only [Cfg.table, List.getElem_map, hie, hje]; exact hself
      subst hij
      rfl

end CelmaVerif.ProgArgs
