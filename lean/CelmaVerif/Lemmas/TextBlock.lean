import CelmaVerif.Lemmas.TextBlockTok
/-
  Lemmas about the formatter model: an induction principle for the lines written by
  `fmtWords`, the words of the lines, the shape of the first line, paragraphs.
-/
namespace CelmaVerif.TextBlock

/-- a token delivered by the blank tokenizer: non-empty, no blank -/
def Word (w : Str) : Prop := w ≠ [] ∧ Clean isSp w

theorem Word.pos {w : Str} (h : Word w) : 0 < w.length := List.length_pos_iff.mpr h.1

def Blanks (s : Str) : Prop := ∀ x ∈ s, x = ' '

theorem Blanks.seps {s : Str} (h : Blanks s) : ∀ x ∈ s, isSp x = true := by
  intro x hx; rw [h x hx]; rfl

theorem blanks_ind (c : Cfg) : Blanks c.ind := by
  intro x hx
  exact (List.mem_replicate.mp hx).2

theorem blanks_nil : Blanks [] := by intro x hx; cases hx

theorem Blanks.append {a b : Str} (ha : Blanks a) (hb : Blanks b) : Blanks (a ++ b) := by
  intro x hx
  rcases List.mem_append.mp hx with h | h
  · exact ha x h
  · exact hb x h

theorem blanks_pad1 (dash : Bool) : Blanks (if dash then [' '] else []) := by
  cases dash <;> intro x hx <;> simp at hx <;> exact hx

theorem blanks_pad2 (dash : Bool) : Blanks (if dash then [' ', ' '] else []) := by
  cases dash <;> intro x hx <;> simp at hx <;> exact hx

theorem ind_length (c : Cfg) : c.ind.length = c.indent := by simp [Cfg.ind]

theorem tokP_blanks_word {b w : Str} (hb : Blanks b) (hw : Word w) : tokP isSp (b ++ w) = [w] := by
  rw [tokP_seps_append b hb.seps, tokP_clean hw.2 hw.1]

theorem tokP_blank_word (cur : Str) {w : Str} (hw : Word w) :
    tokP isSp (cur ++ ' ' :: w) = tokP isSp cur ++ [w] := by
  rw [tokP_append_sep cur (by rfl : isSp ' ' = true), tokP_clean hw.2 hw.1]

/-! ### induction principle: a predicate of every line written by `formatLine` -/

/-- `Q cur len` is an invariant of the open line and `currLength`; every closed (or final) line
    then satisfies `P`.  `R` is what is known about the tokens. -/
theorem fmtWords_forall (c : Cfg) (R : Str → Prop) (P : Str → Prop) (Q : Str → Nat → Prop)
    (hclose : ∀ cur len, Q cur len → P cur)
    (hnn : ∀ dash : Bool, Q (c.ind ++ (if dash then [' '] else [])) (c.indent + (if dash then 1 else 0)))
    (hbrk : ∀ (w : Str) (dash : Bool), R w →
      Q (c.ind ++ (if dash then [' ', ' '] else []) ++ w) (c.indent + w.length + (if dash then 2 else 0)))
    (happ1 : ∀ cur len w, Q cur len → R w → len + w.length + 1 ≤ c.width → len ≠ c.indent →
      Q (cur ++ ' ' :: w) (len + 1 + w.length))
    (happ0 : ∀ cur w, Q cur c.indent → R w → c.indent + w.length + 1 ≤ c.width →
      Q (cur ++ w) (c.indent + w.length)) :
    ∀ (ws : List Str), (∀ w ∈ ws, R w) → ∀ cur len dash, Q cur len →
      ∀ l ∈ fmtWords c ws cur len dash, P l := by
  intro ws
  induction ws with
  | nil =>
    intro _ cur len dash hq l hl
    simp only [fmtWords, List.mem_singleton] at hl
    rw [hl]; exact hclose _ _ hq
  | cons w ws ih =>
    intro hws cur len dash hq l hl
    have hw : R w := hws w (List.mem_cons_self ..)
    have hws' : ∀ w ∈ ws, R w := fun x hx => hws x (List.mem_cons_of_mem _ hx)
    unfold fmtWords at hl
    split at hl
    · rcases List.mem_cons.mp hl with h | h
      · rw [h]; exact hclose _ _ hq
      · exact ih hws' _ _ _ (hnn dash) l h
    · split at hl
      · rcases List.mem_cons.mp hl with h | h
        · rw [h]; exact hclose _ _ hq
        · exact ih hws' _ _ _ (hbrk w dash hw) l h
      · rename_i hfit
        have hfit' : len + w.length + 1 ≤ c.width := by omega
        split at hl
        · rename_i hne
          exact ih hws' _ _ _ (happ1 cur len w hq hw hfit' hne) l hl
        · rename_i heq
          have heq' : len = c.indent := by
            by_cases h : len = c.indent
            · exact h
            · exact absurd h heq
          subst heq'
          exact ih hws' _ _ _ (happ0 cur w hq hw hfit') l hl

/-! ### the words of the lines -/

theorem filter_nn_cons_eq (ws : List Str) : (nn :: ws).filter (fun w => decide (w ≠ nn)) = ws.filter (fun w => decide (w ≠ nn)) := by
  simp

theorem filter_nn_cons_ne {w : Str} (h : ¬ w = nn) (ws : List Str) :
    (w :: ws).filter (fun w => decide (w ≠ nn)) = w :: ws.filter (fun w => decide (w ≠ nn)) := by
  simp [h]

/-- the words on the lines written by `formatLine`: what was on the open line, then the tokens
    without the `nn`s -/
theorem fmtWords_words (c : Cfg) : ∀ (ws : List Str), (∀ w ∈ ws, Word w) → ∀ cur len dash,
    c.indent ≤ len → (len = c.indent → Blanks cur) →
    (fmtWords c ws cur len dash).flatMap (tokP isSp) = tokP isSp cur ++ ws.filter (fun w => decide (w ≠ nn)) := by
  intro ws
  induction ws with
  | nil => intro _ cur len dash _ _; simp [fmtWords]
  | cons w ws ih =>
    intro hws cur len dash hle hbl
    have hw : Word w := hws w (List.mem_cons_self ..)
    have hws' : ∀ w ∈ ws, Word w := fun x hx => hws x (List.mem_cons_of_mem _ hx)
    unfold fmtWords
    split
    · rename_i hnn
      subst hnn
      rw [List.flatMap_cons, filter_nn_cons_eq]
      cases dash with
      | false =>
        rw [ih hws' _ _ _ (by simp) (fun _ => by simpa using blanks_ind c)]
        simp only [Bool.false_eq_true, if_false, List.append_nil]
        rw [tokP_seps _ (blanks_ind c).seps, List.nil_append]
      | true =>
        rw [ih hws' _ _ _ (by simp) (fun h => by simp at h)]
        rw [tokP_seps _ ((blanks_ind c).append (blanks_pad1 true)).seps, List.nil_append]
    · rename_i hnn
      rw [filter_nn_cons_ne hnn]
      split
      · rw [List.flatMap_cons]
        rw [ih hws' _ _ _ (by omega) (fun h => by
          have := hw.pos
          omega)]
        rw [tokP_blanks_word ((blanks_ind c).append (blanks_pad2 dash)) hw]
        simp
      · split
        · rename_i hne
          rw [ih hws' _ _ _ (by omega) (fun h => by omega)]
          rw [tokP_blank_word cur hw]
          simp
        · rename_i heq
          have heq' : len = c.indent := by
            by_cases h : len = c.indent
            · exact h
            · exact absurd h heq
          rw [ih hws' _ _ _ (by omega) (fun h => by
            have := hw.pos
            omega)]
          rw [tokP_blanks_word (hbl heq') hw, tokP_seps _ (hbl heq').seps]
          simp

/-! ### the first line -/

/-- whatever is on the open line stays at the front of the first line written -/
theorem fmtWords_head (c : Cfg) : ∀ (ws : List Str) cur len dash,
    ∃ t rest, fmtWords c ws cur len dash = (cur ++ t) :: rest := by
  intro ws
  induction ws with
  | nil => intro cur len dash; exact ⟨[], [], by simp [fmtWords]⟩
  | cons w ws ih =>
    intro cur len dash
    unfold fmtWords
    split
    · exact ⟨[], _, by rw [List.append_nil]⟩
    · split
      · exact ⟨[], _, by rw [List.append_nil]⟩
      · split
        · obtain ⟨t, rest, h⟩ := ih (cur ++ ' ' :: w) (len + 1 + w.length) dash
          exact ⟨' ' :: w ++ t, rest, by rw [h]; simp⟩
        · obtain ⟨t, rest, h⟩ := ih (cur ++ w) (len + w.length) (dash || w.head? == some '-')
          exact ⟨w ++ t, rest, by rw [h]; simp⟩

theorem fmtWords_ne_nil (c : Cfg) (ws : List Str) (cur : Str) (len : Nat) (dash : Bool) :
    fmtWords c ws cur len dash ≠ [] := by
  obtain ⟨t, rest, h⟩ := fmtWords_head c ws cur len dash
  rw [h]; exact List.cons_ne_nil _ _

/-- an unindented first line is empty or begins with the first character of a word -/
theorem fmtWords_head_unindented (c : Cfg) (ws : List Str) (hws : ∀ w ∈ ws, Word w) (dash : Bool) :
    ∃ l rest, fmtWords c ws [] c.indent dash = l :: rest ∧ (l = [] ∨ ∃ x t, l = x :: t ∧ x ≠ ' ') := by
  cases ws with
  | nil => exact ⟨[], [], by simp [fmtWords], Or.inl rfl⟩
  | cons w ws =>
    have hw : Word w := hws w (List.mem_cons_self ..)
    unfold fmtWords
    split
    · exact ⟨[], _, rfl, Or.inl rfl⟩
    · split
      · exact ⟨[], _, rfl, Or.inl rfl⟩
      · rw [if_neg (by simp)]
        obtain ⟨t, rest, h⟩ := fmtWords_head c ws ([] ++ w) (c.indent + w.length) (dash || w.head? == some '-')
        refine ⟨_, _, h, Or.inr ?_⟩
        obtain ⟨hne, hcl⟩ := hw
        cases w with
        | nil => exact absurd rfl hne
        | cons x w' =>
          refine ⟨x, w' ++ t, by simp, ?_⟩
          intro hx
          have := hcl x (List.mem_cons_self ..)
          rw [hx] at this
          exact absurd this (by decide)

/-! ### paragraphs -/

theorem fmtParas_append (c : Cfg) (start : Str) (a b : List Str) :
    fmtParas c start (a ++ b) = fmtParas c start a ++ fmtParas c (if a = [] then start else c.ind) b := by
  cases a with
  | nil => simp [fmtParas]
  | cons p ps =>
    simp only [List.cons_append, fmtParas, List.append_assoc]
    congr 1
    induction ps with
    | nil => simp [fmtParas]
    | cons q qs ih => simp only [List.cons_append, fmtParas, List.append_assoc]; rw [ih]; simp

theorem formatLine_words (c : Cfg) (start line : Str) (hs : Blanks start) :
    (formatLine c start line).flatMap (tokP isSp) = (tokP isSp line).filter (fun w => decide (w ≠ nn)) := by
  unfold formatLine
  rw [fmtWords_words c _ (fun w hw => ⟨(tokP_spec isSp line w hw).1, (tokP_spec isSp line w hw).2.1⟩)
    _ _ _ (Nat.le_refl _) (fun _ => hs), tokP_seps _ hs.seps, List.nil_append]

theorem fmtParas_words (c : Cfg) : ∀ (ps : List Str) (start : Str), Blanks start →
    (fmtParas c start ps).flatMap (tokP isSp) =
      (ps.flatMap (tokP isSp)).filter (fun w => decide (w ≠ nn)) := by
  intro ps
  induction ps with
  | nil => intro _ _; rfl
  | cons p ps ih =>
    intro start hs
    rw [fmtParas, List.flatMap_append, formatLine_words c start p hs, ih _ (blanks_ind c),
      List.flatMap_cons, List.filter_append]

theorem start_blanks (c : Cfg) : Blanks (if c.first then c.ind else []) := by
  cases c.first
  · exact blanks_nil
  · exact blanks_ind c

/-- a predicate that holds for every line written for any single paragraph holds for the output -/
theorem fmtParas_forall (c : Cfg) (P : Str → Prop) (ps : List Str)
    (h : ∀ p ∈ ps, ∀ start, (start = c.ind ∨ start = []) → ∀ l ∈ formatLine c start p, P l) :
    ∀ start, (start = c.ind ∨ start = []) → ∀ l ∈ fmtParas c start ps, P l := by
  induction ps with
  | nil => intro _ _ l hl; cases hl
  | cons p ps ih =>
    intro start hst l hl
    rw [fmtParas] at hl
    rcases List.mem_append.mp hl with hl | hl
    · exact h p (List.mem_cons_self ..) start hst l hl
    · exact ih (fun q hq => h q (List.mem_cons_of_mem _ hq)) _ (Or.inl rfl) l hl

theorem start_cases (c : Cfg) : (if c.first then c.ind else []) = c.ind ∨ (if c.first then c.ind else []) = [] := by
  cases c.first
  · exact Or.inr rfl
  · exact Or.inl rfl

end CelmaVerif.TextBlock
