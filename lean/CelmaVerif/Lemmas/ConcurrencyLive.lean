import CelmaVerif.Lemmas.ConcurrencySingleton
/-
  Liveness of the singleton model: every reachable state can be driven to completion
  (measure = remaining steps of all threads; no-deadlock gives a thread that can move).
-/
namespace CelmaVerif.Concurrency

/-- upper bound of the steps a thread still has to take -/
def SPc.rem : SPc → Nat
  | .read1 => 7 | .lock => 6 | .read2 => 5 | .construct => 4 | .write => 3 | .unlock => 2
  | .read3 => 1 | .done => 0

def sumTo (f : Nat → Nat) : Nat → Nat
  | 0 => 0
  | n + 1 => sumTo f n + f n

theorem sumTo_congr (f g : Nat → Nat) : ∀ n, (∀ t, t < n → f t = g t) → sumTo f n = sumTo g n := by
  intro n
  induction n with
  | zero => intro _; rfl
  | succ n ih =>
    intro h
    simp only [sumTo]
    rw [ih (fun t ht => h t (by omega)), h n (by omega)]

theorem sumTo_lt (f g : Nat → Nat) (u : Nat) : ∀ n, u < n → (∀ t, t ≠ u → f t = g t) → f u < g u →
    sumTo f n < sumTo g n := by
  intro n
  induction n with
  | zero => intro h; omega
  | succ n ih =>
    intro hu hoth hlt
    simp only [sumTo]
    by_cases hun : u = n
    · subst hun
      have := sumTo_congr f g u (fun t ht => hoth t (by omega))
      omega
    · have := ih (by omega) hoth hlt
      have := hoth n (fun e => hun e.symm)
      omega

theorem sumTo_zero (f : Nat → Nat) : ∀ n, sumTo f n = 0 → ∀ t, t < n → f t = 0 := by
  intro n
  induction n with
  | zero => intro _ t ht; omega
  | succ n ih =>
    intro h t ht
    simp only [sumTo] at h
    by_cases htn : t = n
    · subst htn; omega
    · exact ih (by omega) t (by omega)

def SState.measure (n : Nat) (s : SState) : Nat := sumTo (fun t => (s.pc t).rem) n

/-- a step of a thread that has not returned and is not blocked brings it closer to the end -/
theorem sstep_rem_lt (cfg : Cfg) (n : Nat) (s : SState) (u : Nat) (hu : u < n) (hnd : s.pc u ≠ .done)
    (hb : s.blocked u = false) : ((sstep cfg n s u).pc u).rem < (s.pc u).rem := by
  unfold sstep
  rw [if_pos hu]
  cases hpc : s.pc u with
  | read1 => simp only [upd_same]; split <;> simp [SPc.rem]
  | lock =>
    have hl : s.lock = none := by
      simp only [SState.blocked, hpc] at hb
      cases h : s.lock with
      | none => rfl
      | some k => simp [h] at hb
    simp [hl, SPc.rem]
  | read2 => simp only [upd_same]; split <;> simp [SPc.rem]
  | construct => simp [SPc.rem]
  | write => simp [SPc.rem]
  | unlock => simp [SPc.rem]
  | read3 => simp [SPc.rem]
  | done => exact absurd hpc hnd

theorem sstep_measure_lt (cfg : Cfg) (n : Nat) (s : SState) (u : Nat) (hu : u < n) (hnd : s.pc u ≠ .done)
    (hb : s.blocked u = false) : (sstep cfg n s u).measure n < s.measure n :=
  sumTo_lt _ _ u n hu (fun t ht => by rw [sstep_pc_other cfg n s u t ht]) (sstep_rem_lt cfg n s u hu hnd hb)

theorem sbound_step (cfg : Cfg) (n : Nat) (s : SState) (t : Nat) (h : SBound n s) : SBound n (sstep cfg n s t) :=
  sbound_runFrom cfg n [t] s h

/-- from every state satisfying the invariants there is a schedule, of at most `measure` entries,
    after which every thread has returned -/
theorem can_complete (cfg : Cfg) (n : Nat) : ∀ (m : Nat) (s : SState), s.measure n ≤ m → SInv s → SBound n s →
    ∃ ext : List Nat, ext.length ≤ m ∧ (srunFrom cfg n s ext).complete n := by
  intro m
  induction m with
  | zero =>
    intro s hm _ _
    refine ⟨[], Nat.le_refl _, ?_⟩
    intro t ht
    have h0 := sumTo_zero _ n (Nat.le_zero.mp hm) t ht
    simp only [srunFrom, List.foldl_nil]
    cases hpc : s.pc t <;> simp [hpc, SPc.rem] at h0 ⊢
  | succ m ih =>
    intro s hm hinv hbd
    by_cases hall : ∀ t, t < n → s.pc t = .done
    · exact ⟨[], Nat.zero_le _, by simpa [srunFrom, SState.complete] using hall⟩
    · have ⟨t, hnot⟩ := Classical.not_forall.mp hall
      have ⟨ht, hnd⟩ := Classical.not_imp.mp hnot
      obtain ⟨u, hu, hund, hub⟩ := hinv.progress n hbd ht hnd
      have hlt := sstep_measure_lt cfg n s u hu hund hub
      obtain ⟨ext, hlen, hc⟩ := ih (sstep cfg n s u) (by omega) (sinv_step cfg n s u hinv) (sbound_step cfg n s u hbd)
      exact ⟨u :: ext, by simp; omega, by simpa [srunFrom] using hc⟩

theorem measure_init (n : Nat) : SState.init.measure n = 7 * n := by
  unfold SState.measure
  induction n with
  | zero => rfl
  | succ n ih => simp only [sumTo, ih]; simp [SState.init, SPc.rem]; omega

theorem srunFrom_append (cfg : Cfg) (n : Nat) (s : SState) (a b : List Nat) :
    srunFrom cfg n s (a ++ b) = srunFrom cfg n (srunFrom cfg n s a) b := by
  simp [srunFrom, List.foldl_append]

theorem sstep_measure_le (cfg : Cfg) (n : Nat) (s : SState) (t : Nat) :
    (sstep cfg n s t).measure n ≤ s.measure n := by
  by_cases ht : t < n
  · by_cases hd : s.pc t = .done
    · have e : sstep cfg n s t = s := by unfold sstep; split <;> simp [hd]
      rw [e]; exact Nat.le_refl _
    · by_cases hb : s.blocked t = false
      · exact Nat.le_of_lt (sstep_measure_lt cfg n s t ht hd hb)
      · have hb' : s.blocked t = true := by simpa using hb
        simp only [SState.blocked, Bool.and_eq_true, beq_iff_eq] at hb'
        have hl : ¬ s.lock = none := by
          intro h; rw [h] at hb'; simp at hb'
        have e : sstep cfg n s t = s := by simp [sstep, ht, hb'.1, hl]
        rw [e]; exact Nat.le_refl _
  · rw [sstep_ge cfg n s t ht]; exact Nat.le_refl _

theorem srunFrom_measure_le (cfg : Cfg) (n : Nat) (sched : List Nat) :
    ∀ s, (srunFrom cfg n s sched).measure n ≤ s.measure n := by
  induction sched with
  | nil => intro s; exact Nat.le_refl _
  | cons t rest ih =>
    intro s
    exact Nat.le_trans (ih (sstep cfg n s t)) (sstep_measure_le cfg n s t)

/-- every schedule can be extended, by at most 7·n entries, to a complete one -/
theorem srun_can_complete (cfg : Cfg) (n : Nat) (sched : List Nat) :
    ∃ ext : List Nat, ext.length ≤ 7 * n ∧ (srun cfg n (sched ++ ext)).complete n := by
  have hm : (srun cfg n sched).measure n ≤ 7 * n := by
    have := srunFrom_measure_le cfg n sched SState.init
    rw [measure_init] at this
    exact this
  obtain ⟨ext, hl, hc⟩ := can_complete cfg n (7 * n) (srun cfg n sched) hm (sinv_run cfg n sched) (sbound_run cfg n sched)
  refine ⟨ext, hl, ?_⟩
  unfold srun
  rw [srunFrom_append]
  exact hc

/-! ### progress under a fair scheduler -/

/-- a step either leaves the state as it is (finished / blocked / not existing thread) or brings
the system closer to the end -/
theorem sstep_same_or_lt (cfg : Cfg) (n : Nat) (s : SState) (t : Nat) :
    sstep cfg n s t = s ∨ (sstep cfg n s t).measure n < s.measure n := by
  by_cases ht : t < n
  · by_cases hd : s.pc t = .done
    · left; unfold sstep; split <;> simp [hd]
    · by_cases hb : s.blocked t = false
      · exact Or.inr (sstep_measure_lt cfg n s t ht hd hb)
      · left
        have hb' : s.blocked t = true := by simpa using hb
        simp only [SState.blocked, Bool.and_eq_true, beq_iff_eq] at hb'
        have hl : ¬ s.lock = none := by
          intro h; rw [h] at hb'; simp at hb'
        simp [sstep, ht, hb'.1, hl]
  · exact Or.inl (sstep_ge cfg n s t ht)

/-- an infinite schedule -/
abbrev Sched := Nat → Nat

/-- the state after the first `k` entries of an infinite schedule -/
def srunInf (cfg : Cfg) (n : Nat) (f : Sched) : Nat → SState
  | 0 => SState.init
  | k + 1 => sstep cfg n (srunInf cfg n f k) (f k)

/-- weak fairness: every thread is scheduled again and again -/
def Fair (n : Nat) (f : Sched) : Prop := ∀ t, t < n → ∀ k, ∃ k', k ≤ k' ∧ f k' = t

theorem srunInf_eq (cfg : Cfg) (n : Nat) (f : Sched) : ∀ k, srunInf cfg n f k = srun cfg n ((List.range k).map f) := by
  intro k
  induction k with
  | zero => rfl
  | succ k ih =>
    simp only [srunInf, ih, srun, srunFrom, List.range_succ, List.map_append, List.foldl_append, List.map_cons,
      List.map_nil, List.foldl_cons, List.foldl_nil]

theorem srunInf_measure_mono (cfg : Cfg) (n : Nat) (f : Sched) (k d : Nat) :
    (srunInf cfg n f (k + d)).measure n ≤ (srunInf cfg n f k).measure n := by
  induction d with
  | zero => exact Nat.le_refl _
  | succ d ih =>
    show (sstep cfg n (srunInf cfg n f (k + d)) (f (k + d))).measure n ≤ _
    exact Nat.le_trans (sstep_measure_le cfg n _ _) ih

/-- if thread `u` can move now and is scheduled `d` entries later, the system is strictly closer
to the end right after that entry: either somebody moved in between, or nothing changed and `u`
itself moves -/
theorem srunInf_progress (cfg : Cfg) (n : Nat) (f : Sched) (u : Nat) (hu : u < n) : ∀ d k,
    (srunInf cfg n f k).pc u ≠ .done → (srunInf cfg n f k).blocked u = false → f (k + d) = u →
    (srunInf cfg n f (k + d + 1)).measure n < (srunInf cfg n f k).measure n := by
  intro d
  induction d with
  | zero =>
    intro k hnd hb hf
    show (sstep cfg n (srunInf cfg n f k) (f k)).measure n < _
    have : f k = u := hf
    rw [this]
    exact sstep_measure_lt cfg n _ u hu hnd hb
  | succ d ih =>
    intro k hnd hb hf
    rcases sstep_same_or_lt cfg n (srunInf cfg n f k) (f k) with hsame | hlt
    · have e : srunInf cfg n f (k + 1) = srunInf cfg n f k := hsame
      have h := ih (k + 1) (by rw [e]; exact hnd) (by rw [e]; exact hb)
        (by rw [show k + 1 + d = k + (d + 1) by omega]; exact hf)
      rw [e] at h
      rw [show k + (d + 1) + 1 = k + 1 + d + 1 by omega]
      exact h
    · have hm := srunInf_measure_mono cfg n f (k + 1) (d + 1)
      have e : (srunInf cfg n f (k + 1)).measure n < (srunInf cfg n f k).measure n := hlt
      rw [show k + (d + 1) + 1 = k + 1 + (d + 1) by omega]
      omega

theorem sinv_inf (cfg : Cfg) (n : Nat) (f : Sched) (k : Nat) : SInv (srunInf cfg n f k) := by
  rw [srunInf_eq]; exact sinv_run cfg n _

theorem sbound_inf (cfg : Cfg) (n : Nat) (f : Sched) (k : Nat) : SBound n (srunInf cfg n f k) := by
  rw [srunInf_eq]; exact sbound_run cfg n _

theorem complete_of_measure_zero (n : Nat) (s : SState) (h : s.measure n = 0) : s.complete n := by
  intro t ht
  have h0 := sumTo_zero _ n h t ht
  cases hpc : s.pc t <;> simp [hpc, SPc.rem] at h0 ⊢

/-- **every fair schedule completes**: under weak fairness all `n` threads return from
`instance()` after finitely many entries -/
theorem fair_completes (cfg : Cfg) (n : Nat) (f : Sched) (hf : Fair n f) :
    ∀ m k, (srunInf cfg n f k).measure n ≤ m → ∃ N, k ≤ N ∧ (srunInf cfg n f N).complete n := by
  intro m
  induction m with
  | zero => intro k hm; exact ⟨k, Nat.le_refl _, complete_of_measure_zero n _ (Nat.le_zero.mp hm)⟩
  | succ m ih =>
    intro k hm
    by_cases hall : ∀ t, t < n → (srunInf cfg n f k).pc t = .done
    · exact ⟨k, Nat.le_refl _, hall⟩
    · have ⟨t, hnot⟩ := Classical.not_forall.mp hall
      have ⟨ht, hnd⟩ := Classical.not_imp.mp hnot
      obtain ⟨u, hu, hund, hub⟩ := (sinv_inf cfg n f k).progress n (sbound_inf cfg n f k) ht hnd
      obtain ⟨k', hk', hfu⟩ := hf u hu k
      obtain ⟨d, rfl⟩ : ∃ d, k' = k + d := ⟨k' - k, by omega⟩
      have hlt := srunInf_progress cfg n f u hu d k hund hub hfu
      obtain ⟨N, hN, hc⟩ := ih (k + d + 1) (by omega)
      exact ⟨N, by omega, hc⟩

/-- once complete, always complete -/
theorem complete_stable (cfg : Cfg) (n : Nat) (f : Sched) (N : Nat) (h : (srunInf cfg n f N).complete n) :
    ∀ d, (srunInf cfg n f (N + d)).complete n := by
  intro d
  apply complete_of_measure_zero
  have h0 : (srunInf cfg n f N).measure n = 0 := by
    unfold SState.measure
    have : sumTo (fun t => ((srunInf cfg n f N).pc t).rem) n = sumTo (fun _ => 0) n :=
      sumTo_congr _ _ n (fun t ht => by rw [h t ht]; rfl)
    rw [this]
    clear this h
    induction n with
    | zero => rfl
    | succ n ih => simp only [sumTo]; omega
  have := srunInf_measure_mono cfg n f N d
  omega

end CelmaVerif.Concurrency
