import CelmaVerif.Lemmas.RulesValueBase
import CelmaVerif.Lemmas.RulesDest
/-
  Rules layer, value constraints (differ / disjoint), part 2: the end conditions of the two value
  constraints against their declarative reading (`DifferMet`, `DisjointMet` in Spec.lean), in both
  directions.  The constraints read destinations, so the invariants here tie the argument states to
  the closed form `denote` of the destinations.
-/
namespace CelmaVerif.ProgArgs
open CelmaVerif CelmaVerif.Keys

/-! ### what the argument states say about the uses, as far as the value constraints read them -/

structure ValInv (cfg : Cfg) (inits : List DVal) (h : HState) : Prop where
  /-- an int / string argument that was used has its "value set" flag on -/
  given : ∀ (i : Nat) (d : ArgDef), cfg.args[i]? = some d → (d.kind = .int ∨ d.kind = .str) →
    (∃ u ∈ h.uses, u.arg = i) → ∃ st, h.args[i]? = some st ∧ st.hasValueSet = true
  /-- the content of a list destination is the closed form, whatever the initial value was -/
  vec : ∀ (i : Nat) (d : ArgDef) (v : DVal), cfg.args[i]? = some d → d.kind = .vecInt → inits[i]? = some v →
    ∃ st, h.args[i]? = some st ∧ vecOf st.dest = vecOf (denote d v (valsOf i h.uses)) ∧
      ((∃ l, st.dest = .vec l) ∨ vecOf st.dest = [])
  /-- every other destination is the closed form -/
  dest : DestInv cfg inits h

theorem vecOf_denote {d : ArgDef} (hk : d.kind = .vecInt) (v : DVal) (vals : List Word) :
    vecOf (denote d v vals) = vecOf v ++ vals.flatMap (fun w => castAll (splitSep d.sep w)) := by
  unfold denote
  cases h : vals.getLast? with
  | none =>
    have : vals = [] := by simpa using h
    subst this; simp
  | some last => simp [hk, vecOf]

theorem valInv_init (cfg : Cfg) (inits : List DVal) (hin : cfg.args.length ≤ inits.length) :
    ValInv cfg inits (cfg.initState inits) := by
  refine ⟨?_, ?_, destInv_init cfg inits hin⟩
  · intro i d _ _ hu
    obtain ⟨u, hu, _⟩ := hu
    simp [Cfg.initState] at hu
  · intro i d v hi hk hv
    obtain ⟨v', hv', hst⟩ := initState_args cfg inits i d hi hin
    rw [hv] at hv'; cases hv'
    refine ⟨_, hst, by simp [valsOf, Cfg.initState, denote], ?_⟩
    cases v <;> simp [vecOf]

theorem valInv_step {cfg : Cfg} {inits : List DVal} {h : HState} {u : Use} {h' : HState}
    (f : Frame cfg h) (a : ValInv cfg inits h) (e : applyUse cfg h u = .ok h') : ValInv cfg inits h' := by
  obtain ⟨d, pend, cnt, st', s⟩ := applyUse_ok e
  refine ⟨?_, ?_, destInv_step f a.dest e⟩
  · intro i di hi hk hu
    by_cases hui : u.arg = i
    · have hdd : di = d := by have := s.arg; rw [hui, hi] at this; cases this; rfl
      subst hdd
      have hlt : i < h.args.length := by rw [f.argsLen]; exact (List.getElem?_eq_some_iff.mp hi).1
      refine ⟨st', by rw [s.args', hui]; simp [hlt], ?_⟩
      have eff := assignDest_effect s.assign
      rcases hk with hk | hk <;> rw [hk] at eff <;> exact eff.2
    · obtain ⟨w, hw, hwi⟩ := hu
      rw [s.uses'] at hw
      rcases List.mem_append.mp hw with hw | hw
      · obtain ⟨st, hst, hv⟩ := a.given i di hi hk ⟨w, hw, hwi⟩
        exact ⟨st, by rw [s.args', List.getElem?_set_ne hui]; exact hst, hv⟩
      · simp only [List.mem_singleton] at hw; subst hw; exact absurd hwi hui
  · intro i di v hi hk hv
    obtain ⟨st, hst, hd, hsh⟩ := a.vec i di v hi hk hv
    rw [s.uses', valsOf_snoc]
    by_cases hui : u.arg = i
    · have hdd : di = d := by have := s.arg; rw [hui, hi] at this; cases this; rfl
      subst hdd
      have hlt : i < h.args.length := by rw [f.argsLen]; exact (List.getElem?_eq_some_iff.mp hi).1
      refine ⟨st', by rw [s.args', hui]; simp [hlt], ?_⟩
      have hassign := s.assign
      rw [hui, getD_of_getElem? hst] at hassign
      have eff := assignDest_effect hassign
      rw [hk] at eff; dsimp only at eff
      rw [if_pos hui, vecOf_denote hk, eff.2]
      rw [vecOf_denote hk] at hd
      by_cases hs : splitSep di.sep u.val = []
      · rw [if_pos hs]
        refine ⟨?_, hsh⟩
        simp only [hd, List.flatMap_append, List.flatMap_cons, List.flatMap_nil, hs, castAll, List.map_nil, List.append_nil]
      · rw [if_neg hs]
        refine ⟨?_, Or.inl ⟨_, rfl⟩⟩
        show vecOf st.dest ++ castAll (splitSep di.sep u.val) = _
        rw [hd]
        simp only [List.flatMap_append, List.flatMap_cons, List.flatMap_nil, List.append_nil, List.append_assoc]
    · refine ⟨st, by rw [s.args', List.getElem?_set_ne hui]; exact hst, ?_, hsh⟩
      rw [if_neg hui, List.append_nil]; exact hd

/-! ### resolving the stored handlers -/

/-- in a table with pairwise non-clashing keys the stored key of a value constraint — a spelling of
    the key of argument `j` — is resolved to `j` -/
theorem argIndexOf_names {cfg : Cfg} (hd : Disjoint cfg.table) {k : Key} {j : Nat} {d : ArgDef}
    (hj : cfg.args[j]? = some d) (hs : k.Sub d.key) : argIndexOf cfg.args k = some j := by
  cases hi : argIndexOf cfg.args k with
  | none =>
    exfalso
    unfold argIndexOf at hi
    have := List.findIdx?_eq_none_iff.mp hi d (List.mem_of_getElem? hj)
    rw [sub_eq hs] at this; cases this
  | some i =>
    obtain ⟨d', hi', he⟩ := argIndexOf_some hi
    have := (names_designates hd ⟨d, hj, hs⟩ i).mp ⟨d', hi', he⟩
    rw [this]

/-- a key of the argument list that `==` the key of argument `i` is resolved to `i` -/
theorem argIndexOf_designates {cfg : Cfg} (hd : Disjoint cfg.table) {k : Key} {j : Nat} {d : ArgDef}
    (hj : cfg.args[j]? = some d) (hs : k.Sub d.key) {i : Nat} {di : ArgDef} (hi : cfg.args[i]? = some di)
    (he : k.eq di.key = true) : i = j ∧ di = d := by
  have := (names_designates hd ⟨d, hj, hs⟩ i).mp ⟨di, hi, he⟩
  subst this
  rw [hj] at hi; cases hi
  exact ⟨rfl, rfl⟩

theorem hasValue_scalar {d : ArgDef} (hk : d.kind = .int ∨ d.kind = .str) (st : ArgSt) :
    st.hasValue d.kind = st.hasValueSet := by
  rcases hk with hk | hk <;> rw [hk] <;> rfl

theorem hasValue_vec (st : ArgSt) : st.hasValue .vecInt = !(vecOf st.dest).isEmpty := by
  unfold ArgSt.hasValue
  cases st.dest <;> simp [vecOf]

theorem denote_scalar_used {d : ArgDef} (v : DVal) {vals : List Word} (hne : vals ≠ []) :
    (d.kind = .int → ∃ n, denote d v vals = .int n) ∧ (d.kind = .str → ∃ w, denote d v vals = .str w) := by
  unfold denote
  cases h : vals.getLast? with
  | none => exact absurd (by simpa using h) hne
  | some last =>
    constructor
    · intro hk; simp [hk]
    · intro hk; simp [hk]

theorem valsOf_ne_nil {i : Nat} {us : List Use} (h : ∃ u ∈ us, u.arg = i) : valsOf i us ≠ [] := by
  obtain ⟨u, hu, hui⟩ := h
  unfold valsOf
  intro hc
  rw [List.map_eq_nil_iff, List.filter_eq_nil_iff] at hc
  exact hc u hu (by simpa using hui)

/-! ### differ -/

/-- soundness: the end condition of a differ constraint passed ⇒ the listed arguments that were given
    hold pairwise different values -/
theorem differ_sound {cfg : Cfg} (wf : cfg.WellFormed) {inits : List DVal} {h : HState}
    (vi : ValInv cfg inits h) {g : GDef} (hg : g ∈ cfg.globals) (hk : g.kind = .differ) {st : GSt}
    (e : g.endCheck cfg.args h.args st = .ok ()) : DifferMet cfg inits h.uses g.keys := by
  unfold GDef.endCheck at e
  rw [hk] at e
  dsimp only at e
  rw [differOuter_ok_iff] at e
  obtain ⟨kd, hkd, hnames⟩ := (wf.valueArgs g hg).1 hk
  intro k1 k2 i j di dj v1 v2 hk1 hk2 hi hj he1 he2 hij hv1 hv2 hu1 hu2
  obtain ⟨j1, d1, hj1, hs1, hkind1⟩ := hnames k1 hk1
  obtain ⟨j2, d2, hj2, hs2, hkind2⟩ := hnames k2 hk2
  obtain ⟨rfl, rfl⟩ := argIndexOf_designates wf.disjoint hj1 hs1 hi he1
  obtain ⟨rfl, rfl⟩ := argIndexOf_designates wf.disjoint hj2 hs2 hj he2
  have hkk1 : di.kind = .int ∨ di.kind = .str := by rw [hkind1]; exact hkd
  have hkk2 : dj.kind = .int ∨ dj.kind = .str := by rw [hkind2]; exact hkd
  obtain ⟨st1, hst1, hset1⟩ := vi.given i di hi hkk1 hu1
  obtain ⟨st2, hst2, hset2⟩ := vi.given j dj hj hkk2 hu2
  have hm1 : (i, di, st1) ∈ valueHandlers cfg.args h.args g.keys :=
    mem_valueHandlers.mpr ⟨k1, hk1, di, argIndexOf_names wf.disjoint hi hs1, hi, by rw [getD_of_getElem? hst1]⟩
  have hm2 : (j, dj, st2) ∈ valueHandlers cfg.args h.args g.keys :=
    mem_valueHandlers.mpr ⟨k2, hk2, dj, argIndexOf_names wf.disjoint hj hs2, hj, by rw [getD_of_getElem? hst2]⟩
  have hp := e _ hm1 (by show st1.hasValue di.kind = true; rw [hasValue_scalar hkk1, hset1]) _ hm2
  obtain ⟨c, hc, hc0⟩ := hp hij (by show st2.hasValue dj.kind = true; rw [hasValue_scalar hkk2, hset2])
  dsimp only at hc
  obtain ⟨s1, hs1', hd1⟩ := vi.dest i di v1 hi hv1 (by intro hc'; rcases hkk1 with h' | h' <;> rw [h'] at hc' <;> cases hc')
  obtain ⟨s2, hs2', hd2⟩ := vi.dest j dj v2 hj hv2 (by intro hc'; rcases hkk2 with h' | h' <;> rw [h'] at hc' <;> cases hc')
  rw [hst1] at hs1'; cases hs1'
  rw [hst2] at hs2'; cases hs2'
  rw [← hd1, ← hd2]
  intro heq
  rw [heq] at hc
  exact hc0 (compareValue_self hc)

/-- completeness: pairwise different values of the given arguments ⇒ the end condition passes -/
theorem differ_complete {cfg : Cfg} (wf : cfg.WellFormed) {inits : List DVal} (hin : cfg.args.length ≤ inits.length)
    {h : HState} (ai : ArgInv cfg inits h) (vi : ValInv cfg inits h) {g : GDef} (hg : g ∈ cfg.globals)
    (hk : g.kind = .differ) (hm : DifferMet cfg inits h.uses g.keys) (st : GSt) :
    g.endCheck cfg.args h.args st = .ok () := by
  unfold GDef.endCheck
  rw [hk]
  dsimp only
  rw [differOuter_ok_iff]
  obtain ⟨kd, hkd, hnames⟩ := (wf.valueArgs g hg).1 hk
  -- every stored handler: an int / string argument of the common kind, resolved from a listed key
  have hres : ∀ a ∈ valueHandlers cfg.args h.args g.keys, ∃ k ∈ g.keys, cfg.args[a.1]? = some a.2.1 ∧
      k.eq a.2.1.key = true ∧ a.2.1.kind = kd ∧ a.2.2 = h.args.getD a.1 default := by
    intro a ha
    obtain ⟨k, hk', d, hidx, hd, hae⟩ := mem_valueHandlers.mp ha
    obtain ⟨d', hd', he⟩ := argIndexOf_some hidx
    rw [hd] at hd'; cases hd'
    obtain ⟨j, dj, hj, hs, hkind⟩ := hnames k hk'
    obtain ⟨_, hdd⟩ := argIndexOf_designates wf.disjoint hj hs hd he
    refine ⟨k, hk', ?_, ?_, ?_, ?_⟩
    · rw [hae]; exact hd
    · rw [hae]; exact he
    · rw [hae]; dsimp only; rw [hdd]; exact hkind
    · rw [hae]
  -- a handler with a value belongs to an argument that was used
  have hused : ∀ a ∈ valueHandlers cfg.args h.args g.keys, a.hasValue = true → ∃ u ∈ h.uses, u.arg = a.1 := by
    intro a ha hv
    obtain ⟨k, _, hd, _, hkind, hst⟩ := hres a ha
    apply Classical.byContradiction
    intro hno
    have hno' : ∀ u ∈ h.uses, u.arg ≠ a.1 := fun u hu hc => hno ⟨u, hu, hc⟩
    obtain ⟨v, _, hfresh⟩ := ai.fresh a.1 a.2.1 hd hno'
    have hkk : a.2.1.kind = .int ∨ a.2.1.kind = .str := by rw [hkind]; exact hkd
    unfold VArg.hasValue at hv
    rw [hasValue_scalar hkk, hst, getD_of_getElem? hfresh] at hv
    cases hv
  intro a1 hm1 hv1 a2 hm2 hne hv2
  obtain ⟨k1, hk1, hd1, he1, hkind1, hst1⟩ := hres a1 hm1
  obtain ⟨k2, hk2, hd2, he2, hkind2, hst2⟩ := hres a2 hm2
  have hu1 := hused a1 hm1 hv1
  have hu2 := hused a2 hm2 hv2
  have hlt1 : a1.1 < inits.length := by have := (List.getElem?_eq_some_iff.mp hd1).1; omega
  have hlt2 : a2.1 < inits.length := by have := (List.getElem?_eq_some_iff.mp hd2).1; omega
  have hv1' : inits[a1.1]? = some inits[a1.1] := List.getElem?_eq_getElem hlt1
  have hv2' : inits[a2.1]? = some inits[a2.1] := List.getElem?_eq_getElem hlt2
  have hdiff := hm k1 k2 a1.1 a2.1 a1.2.1 a2.2.1 _ _ hk1 hk2 hd1 hd2 he1 he2 hne hv1' hv2' hu1 hu2
  have hkk1 : a1.2.1.kind = .int ∨ a1.2.1.kind = .str := by rw [hkind1]; exact hkd
  have hkk2 : a2.2.1.kind = .int ∨ a2.2.1.kind = .str := by rw [hkind2]; exact hkd
  obtain ⟨s1, hs1, hdest1⟩ := vi.dest a1.1 a1.2.1 _ hd1 hv1' (by intro hc'; rcases hkk1 with h' | h' <;> rw [h'] at hc' <;> cases hc')
  obtain ⟨s2, hs2, hdest2⟩ := vi.dest a2.1 a2.2.1 _ hd2 hv2' (by intro hc'; rcases hkk2 with h' | h' <;> rw [h'] at hc' <;> cases hc')
  rw [hst1, hst2, getD_of_getElem? hs1, getD_of_getElem? hs2, hdest1, hdest2]
  have hn1 := valsOf_ne_nil hu1
  have hn2 := valsOf_ne_nil hu2
  have sh1 := denote_scalar_used (d := a1.2.1) inits[a1.1] hn1
  have sh2 := denote_scalar_used (d := a2.2.1) inits[a2.1] hn2
  rcases hkd with hkd | hkd
  · obtain ⟨n1, e1⟩ := sh1.1 (by rw [hkind1, hkd])
    obtain ⟨n2, e2⟩ := sh2.1 (by rw [hkind2, hkd])
    rw [e1, e2] at hdiff ⊢
    rw [hkind1, hkd]
    obtain ⟨c, hc, hz⟩ := compareValue_int n1 n2
    exact ⟨c, hc, fun h0 => hdiff (by rw [hz.mp h0])⟩
  · obtain ⟨n1, e1⟩ := sh1.2 (by rw [hkind1, hkd])
    obtain ⟨n2, e2⟩ := sh2.2 (by rw [hkind2, hkd])
    rw [e1, e2] at hdiff ⊢
    rw [hkind1, hkd]
    obtain ⟨c, hc, hz⟩ := compareValue_str n1 n2
    exact ⟨c, hc, fun h0 => hdiff (by rw [hz.mp h0])⟩

/-! ### disjoint -/

/-- the two handlers of a disjoint constraint of a well-formed configuration -/
theorem disjoint_handlers {cfg : Cfg} (wf : cfg.WellFormed) {g : GDef} (hg : g ∈ cfg.globals)
    (hk : g.kind = .disjoint) (sts : List ArgSt) :
    ∃ (ka kb : Key) (ia ib : Nat) (da db : ArgDef), g.keys = [ka, kb] ∧
      cfg.args[ia]? = some da ∧ cfg.args[ib]? = some db ∧ ka.Sub da.key ∧ kb.Sub db.key ∧
      da.kind = .vecInt ∧ db.kind = .vecInt ∧ ia ≠ ib ∧
      valueHandlers cfg.args sts g.keys = [(ia, da, sts.getD ia default), (ib, db, sts.getD ib default)] := by
  obtain ⟨hlen, hnames⟩ := (wf.valueArgs g hg).2 hk
  match hkeys : g.keys, hlen with
  | [ka, kb], _ =>
    obtain ⟨ia, da, hia, hsa, hka⟩ := hnames ka (by rw [hkeys]; simp)
    obtain ⟨ib, db, hib, hsb, hkb⟩ := hnames kb (by rw [hkeys]; simp)
    have hne : ia ≠ ib := by
      intro hc
      subst hc
      rw [hia] at hib; cases hib
      have hp := wf.globKeys g hg
      rw [hkeys] at hp
      simp only [List.pairwise_cons, List.mem_cons, List.mem_nil_iff, or_false, forall_eq] at hp
      exact hp.1 da (List.mem_of_getElem? hia) ⟨sub_eq hsa, sub_eq hsb⟩
    refine ⟨ka, kb, ia, ib, da, db, rfl, hia, hib, hsa, hsb, hka, hkb, hne, ?_⟩
    simp only [valueHandlers, List.filterMap_cons, List.filterMap_nil,
      argIndexOf_names wf.disjoint hia hsa, argIndexOf_names wf.disjoint hib hsb, hia, hib]

/-- the end condition of `disjoint` on two list destinations: no common element -/
theorem disjointCheck_pair_ok_iff (a1 a2 : VArg) (h1 : a1.2.1.kind = .vecInt) (h2 : a2.2.1.kind = .vecInt) :
    disjointCheck [a1, a2] = .ok () ↔ ∀ x, x ∈ vecOf a1.2.2.dest → x ∉ vecOf a2.2.2.dest := by
  simp only [disjointCheck, VArg.hasValue, h1, h2, hasValue_vec]
  by_cases he1 : vecOf a1.2.2.dest = []
  · simp [he1]
  · by_cases he2 : vecOf a2.2.2.dest = []
    · simp [he2]
    · have hc : (!!(vecOf a1.2.2.dest).isEmpty || !!(vecOf a2.2.2.dest).isEmpty) = false := by
        simp [he1, he2]
      rw [hc]
      simp only [Bool.false_eq_true, if_false, hasIntersection, Res.bind_ok]
      cases hw : hasIntersectionUnsorted (vecOf a1.2.2.dest) (vecOf a2.2.2.dest) with
      | true =>
        simp only [throwIf, if_true]
        constructor
        · intro h; cases h
        · intro h
          obtain ⟨x, hx1, hx2⟩ := (hasIntersectionUnsorted_iff _ _).mp hw
          exact absurd hx2 (h x hx1)
      | false =>
        simp only [throwIf, Bool.false_eq_true, if_false, true_iff]
        exact (hasIntersectionUnsorted_false_iff _ _).mp hw

/-- soundness: the end condition of a disjoint constraint passed ⇒ the two lists have no common element -/
theorem disjoint_sound {cfg : Cfg} (wf : cfg.WellFormed) {inits : List DVal} (hin : cfg.args.length ≤ inits.length)
    {h : HState} (vi : ValInv cfg inits h) {g : GDef} (hg : g ∈ cfg.globals) (hk : g.kind = .disjoint) {st : GSt}
    (e : g.endCheck cfg.args h.args st = .ok ()) : DisjointMet cfg inits h.uses g.keys := by
  unfold GDef.endCheck at e
  rw [hk] at e
  dsimp only at e
  obtain ⟨ka, kb, ia, ib, da, db, hkeys, hia, hib, hsa, hsb, hka, hkb, hne, hh⟩ := disjoint_handlers wf hg hk h.args
  rw [hh] at e
  have hlta : ia < inits.length := by have := (List.getElem?_eq_some_iff.mp hia).1; omega
  have hltb : ib < inits.length := by have := (List.getElem?_eq_some_iff.mp hib).1; omega
  obtain ⟨sa, hsa', hda, hsha⟩ := vi.vec ia da _ hia hka (List.getElem?_eq_getElem hlta)
  obtain ⟨sb, hsb', hdb, hshb⟩ := vi.vec ib db _ hib hkb (List.getElem?_eq_getElem hltb)
  rw [getD_of_getElem? hsa', getD_of_getElem? hsb'] at e
  have hno := (disjointCheck_pair_ok_iff (ia, da, sa) (ib, db, sb) hka hkb).mp e
  dsimp only at hno
  rw [hda, hdb] at hno
  intro k1 k2 i j di dj v1 v2 hk1 hk2 hi hj he1 he2 hij hv1 hv2 x hx1 hx2
  rw [hkeys] at hk1 hk2
  simp only [List.mem_cons, List.mem_nil_iff, or_false] at hk1 hk2
  have hva : inits[ia]? = some inits[ia] := List.getElem?_eq_getElem hlta
  have hvb : inits[ib]? = some inits[ib] := List.getElem?_eq_getElem hltb
  rcases hk1 with rfl | rfl <;> rcases hk2 with rfl | rfl
  · obtain ⟨r1, _⟩ := argIndexOf_designates wf.disjoint hia hsa hi he1
    obtain ⟨r2, _⟩ := argIndexOf_designates wf.disjoint hia hsa hj he2
    exact hij (r1.trans r2.symm)
  · obtain ⟨rfl, rfl⟩ := argIndexOf_designates wf.disjoint hia hsa hi he1
    obtain ⟨rfl, rfl⟩ := argIndexOf_designates wf.disjoint hib hsb hj he2
    rw [hva] at hv1; rw [hvb] at hv2; cases hv1; cases hv2
    exact hno x hx1 hx2
  · obtain ⟨rfl, rfl⟩ := argIndexOf_designates wf.disjoint hib hsb hi he1
    obtain ⟨rfl, rfl⟩ := argIndexOf_designates wf.disjoint hia hsa hj he2
    rw [hvb] at hv1; rw [hva] at hv2; cases hv1; cases hv2
    exact hno x hx2 hx1
  · obtain ⟨r1, _⟩ := argIndexOf_designates wf.disjoint hib hsb hi he1
    obtain ⟨r2, _⟩ := argIndexOf_designates wf.disjoint hib hsb hj he2
    exact hij (r1.trans r2.symm)

/-- completeness: no common element ⇒ the end condition passes -/
theorem disjoint_complete {cfg : Cfg} (wf : cfg.WellFormed) {inits : List DVal} (hin : cfg.args.length ≤ inits.length)
    {h : HState} (vi : ValInv cfg inits h) {g : GDef} (hg : g ∈ cfg.globals) (hk : g.kind = .disjoint)
    (hm : DisjointMet cfg inits h.uses g.keys) (st : GSt) : g.endCheck cfg.args h.args st = .ok () := by
  unfold GDef.endCheck
  rw [hk]
  dsimp only
  obtain ⟨ka, kb, ia, ib, da, db, hkeys, hia, hib, hsa, hsb, hka, hkb, hne, hh⟩ := disjoint_handlers wf hg hk h.args
  rw [hh]
  have hlta : ia < inits.length := by have := (List.getElem?_eq_some_iff.mp hia).1; omega
  have hltb : ib < inits.length := by have := (List.getElem?_eq_some_iff.mp hib).1; omega
  obtain ⟨sa, hsa', hda, hsha⟩ := vi.vec ia da _ hia hka (List.getElem?_eq_getElem hlta)
  obtain ⟨sb, hsb', hdb, hshb⟩ := vi.vec ib db _ hib hkb (List.getElem?_eq_getElem hltb)
  rw [getD_of_getElem? hsa', getD_of_getElem? hsb']
  apply (disjointCheck_pair_ok_iff (ia, da, sa) (ib, db, sb) hka hkb).mpr
  dsimp only
  rw [hda, hdb]
  exact hm ka kb ia ib da db _ _ (by rw [hkeys]; simp) (by rw [hkeys]; simp) hia hib (sub_eq hsa) (sub_eq hsb) hne
    (List.getElem?_eq_getElem hlta) (List.getElem?_eq_getElem hltb)

end CelmaVerif.ProgArgs
