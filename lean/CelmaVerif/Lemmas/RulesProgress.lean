import CelmaVerif.Lemmas.RulesArgs
import CelmaVerif.Lemmas.RulesPending
import CelmaVerif.Lemmas.RulesGlobals
/-
  Rules layer, part 6: progress lemmas — conditions under which each piece of `applyUse` and of the
  final checks returns normally (the converse direction of the inversion lemmas).
-/
namespace CelmaVerif.ProgArgs
open CelmaVerif CelmaVerif.Keys

theorem gotValue_progress {c : Card} {cnt : Int} (hc : ∀ n, c.limit = some n → cnt + 1 ≤ n) :
    ∃ cnt', c.gotValue cnt = .ok cnt' := by
  rw [gotValue_eq]
  cases hl : c.limit with
  | none => exact ⟨_, rfl⟩
  | some n =>
    dsimp only
    have := hc n hl
    rw [if_neg (by omega)]
    exact ⟨_, rfl⟩

/-- the element loop goes through when every element is acceptable and the counter has room -/
theorem assignVecLoop_progress_false (d : ArgDef) : ∀ (ts : List Word) (st : ArgSt),
    (∀ t ∈ ts, runChecks d.checks t = .ok () ∧ ∃ n, lexCastInt t = .ok n) →
    (∀ n, d.card.limit = some n → st.cnt + ts.length ≤ n) →
    ∃ st', assignVecLoop d ts false st = .ok st' := by
  intro ts
  induction ts with
  | nil => intro st _ _; exact ⟨st, rfl⟩
  | cons t ts ih =>
    intro st hv hc
    obtain ⟨hr, v, hcast⟩ := hv t List.mem_cons_self
    obtain ⟨cnt', hg⟩ := gotValue_progress (c := d.card) (cnt := st.cnt) (by
      intro n hl; have := hc n hl; simp only [List.length_cons] at this; omega)
    simp only [assignVecLoop, countValue, Bool.false_eq_true, if_false, hg, hr, hcast, Res.bind_ok]
    apply ih
    · intro t' ht'; exact hv t' (List.mem_cons_of_mem _ ht')
    · intro n hl
      have h1 := hc n hl
      have h2 := (gotValue_ok_some hl hg).1
      simp only [List.length_cons] at h1
      show cnt' + ts.length ≤ n
      omega

theorem assignVecLoop_progress_true (d : ArgDef) (ts : List Word) (st : ArgSt)
    (hv : ∀ t ∈ ts, runChecks d.checks t = .ok () ∧ ∃ n, lexCastInt t = .ok n)
    (hc : ∀ n, d.card.limit = some n → st.cnt + max 1 ts.length ≤ n + 1) :
    ∃ st', assignVecLoop d ts true st = .ok st' := by
  cases ts with
  | nil => exact ⟨st, rfl⟩
  | cons t ts =>
    obtain ⟨hr, v, hcast⟩ := hv t List.mem_cons_self
    simp only [assignVecLoop, countValue, if_true, hr, hcast, Res.bind_ok]
    apply assignVecLoop_progress_false
    · intro t' ht'; exact hv t' (List.mem_cons_of_mem _ ht')
    · intro n hl
      have h1 := hc n hl
      simp only [List.length_cons] at h1
      show st.cnt + ts.length ≤ n
      omega

/-- `assign` accepts every acceptable value when the counter has room (all kinds but LevelCounter) -/
theorem assignDest_progress {d : ArgDef} {st : ArgSt} {u : Use} (hk : d.kind ≠ .level)
    (hv : ScalarValueOk d u.val) (hc : ∀ n, d.card.limit = some n → st.cnt + u.valueCount d ≤ n + 1) :
    ∃ st', assignDest d st u.val = .ok st' := by
  unfold ScalarValueOk at hv
  unfold assignDest
  cases hkk : d.kind with
  | flag => exact ⟨_, rfl⟩
  | int =>
    rw [hkk] at hv; obtain ⟨hr, n, hn⟩ := hv
    simp only [hr, hn, Res.bind_ok]; exact ⟨_, rfl⟩
  | str =>
    rw [hkk] at hv
    simp only [hv, Res.bind_ok]; exact ⟨_, rfl⟩
  | level => exact absurd hkk hk
  | vecInt =>
    rw [hkk] at hv
    dsimp only
    apply assignVecLoop_progress_true d _ _ hv
    intro n hl
    have := hc n hl
    unfold Use.valueCount at this
    rw [hkk] at this
    exact this

theorem pendingIdentified_progress {k : Key} : ∀ {p : List (Key × CType)},
    (∀ e ∈ p, e.1.eq k = true → e.2 = .required) → ∃ p', pendingIdentified k p = .ok p' := by
  intro p
  induction p with
  | nil => intro _; exact ⟨[], rfl⟩
  | cons x xs ih =>
    intro h
    obtain ⟨r, hr⟩ := ih (fun e he => h e (List.mem_cons_of_mem _ he))
    simp only [pendingIdentified]
    split
    · rename_i hx
      rw [h x List.mem_cons_self hx]
      exact ⟨r, hr⟩
    · rw [hr]; exact ⟨_, rfl⟩

theorem executeGlobals_progress : ∀ (gs : List GDef) (ss : List GSt) (k : Key),
    (∀ (n : Nat) (g : GDef) (st : GSt), gs[n]? = some g → ss[n]? = some st → ∃ st', g.execute st k = .ok st') →
    ∃ ss', executeGlobals gs ss k = .ok ss' := by
  intro gs
  induction gs with
  | nil => intro ss k _; cases ss <;> exact ⟨[], rfl⟩
  | cons g gs ih =>
    intro ss k h
    cases ss with
    | nil => exact ⟨[], rfl⟩
    | cons s ss =>
      obtain ⟨s', hs'⟩ := h 0 g s rfl rfl
      obtain ⟨rest, hr⟩ := ih ss k (fun n g' st hg hs => h (n + 1) g' st hg hs)
      simp only [executeGlobals, hs', hr, Res.bind_ok]
      exact ⟨_, rfl⟩

theorem execute_progress {g : GDef} {st : GSt} {k : Key}
    (h : isConstraintArgument g.keys k = true → (g.kind = .anyOf ∨ g.kind = .oneOf) → st.used = false) :
    ∃ st', g.execute st k = .ok st' := by
  unfold GDef.execute
  split
  · exact ⟨_, rfl⟩
  · rename_i hc
    simp only [Bool.not_eq_true', Bool.not_eq_false] at hc
    cases hk : g.kind with
    | allOf => exact ⟨_, rfl⟩
    | anyOf =>
      dsimp only
      rw [h hc (Or.inl hk)]
      exact ⟨_, rfl⟩
    | oneOf =>
      dsimp only
      rw [h hc (Or.inr hk)]
      exact ⟨_, rfl⟩
    | differ => exact ⟨_, rfl⟩
    | disjoint => exact ⟨_, rfl⟩

/-- one use goes through when each of its pieces does -/
theorem applyUse_progress {cfg : Cfg} {h : HState} {u : Use} {d : ArgDef}
    (harg : cfg.args[u.arg]? = some d) (hdep : d.deprecated = false) (hinv : h.inverted = false)
    (hpend : u.ident = true → ∃ p', pendingIdentified d.key h.pending = .ok p')
    (hglob : u.ident = true → ∃ g', executeGlobals cfg.globals h.globals d.key = .ok g')
    (hassign : ∀ cnt, countValue h.fromSrc d.card (h.args.getD u.arg default).cnt = .ok cnt →
      ∃ st', assignDest d { h.args.getD u.arg default with cnt := cnt } u.val = .ok st')
    (hcount : ∃ cnt, countValue h.fromSrc d.card (h.args.getD u.arg default).cnt = .ok cnt) :
    ∃ h', applyUse cfg h u = .ok h' := by
  obtain ⟨cnt, hcnt⟩ := hcount
  obtain ⟨st', hst'⟩ := hassign cnt hcnt
  unfold applyUse
  rw [harg]
  dsimp only
  cases hi : u.ident with
  | true =>
    obtain ⟨p', hp'⟩ := hpend hi
    obtain ⟨g', hg'⟩ := hglob hi
    simp only [if_true, handleIdentifiedArg, hp', hg', Res.bind_ok, assignValue, hdep, hinv, throwIf,
      Bool.false_eq_true, if_false, hcnt, hst']
    exact ⟨_, rfl⟩
  | false =>
    simp only [Bool.false_eq_true, if_false, assignValue, hdep, hinv, throwIf, Res.bind_ok, hcnt, hst']
    exact ⟨_, rfl⟩

theorem checkMandatoryCardinality_progress : ∀ (ds : List ArgDef) (ss : List ArgSt),
    (∀ (i : Nat) (d : ArgDef) (st : ArgSt), ds[i]? = some d → ss[i]? = some st →
      (d.mandatory && !st.hasValue d.kind) = false ∧ d.card.check st.cnt = .ok ()) →
    checkMandatoryCardinality ds ss = .ok () := by
  intro ds
  induction ds with
  | nil => intro ss _; cases ss <;> rfl
  | cons d ds ih =>
    intro ss h
    cases ss with
    | nil => rfl
    | cons s ss =>
      obtain ⟨h1, h2⟩ := h 0 d s rfl rfl
      simp only [checkMandatoryCardinality, throwIf, h1, h2, Bool.false_eq_true, if_false, Res.bind_ok]
      exact ih ss (fun i d' st hd hs => h (i + 1) d' st hd hs)

theorem checkGlobals_progress (defs : List ArgDef) (sts : List ArgSt) : ∀ (gs : List GDef) (ss : List GSt),
    (∀ (n : Nat) (g : GDef) (st : GSt), gs[n]? = some g → ss[n]? = some st → g.endCheck defs sts st = .ok ()) →
    checkGlobals defs sts gs ss = .ok () := by
  intro gs
  induction gs with
  | nil => intro ss _; cases ss <;> rfl
  | cons g gs ih =>
    intro ss h
    cases ss with
    | nil => rfl
    | cons s ss =>
      simp only [checkGlobals, h 0 g s rfl rfl, Res.bind_ok]
      exact ih ss (fun n g' st hg hs => h (n + 1) g' st hg hs)

end CelmaVerif.ProgArgs
